(* C06 -- proofs.  Statements of the theorems: Props/C06.v *)
From MJ Require Import Common.Base C06.Lang C06.Model C06.Spec.

(* ------------------------------------------------------------------------------------ *)
(* 1. definitions along a chain: the block stack of the VM lists exactly the definitions
      of a block in chain order; cursor + 1 is the next definition up the chain            *)
(* ------------------------------------------------------------------------------------ *)
Definition defs_in (top : list item) (b : name) : list bdef :=
  match def_at top b with Some d => [d] | None => [] end.
Definition defs_along (c : chain) (b : name) : list bdef := flat_map (fun top => defs_in top b) c.

Lemma defs_along_app c1 c2 b : defs_along (c1 ++ c2) b = defs_along c1 b ++ defs_along c2 b.
Proof. unfold defs_along. apply flat_map_app. Qed.

Lemma defs_along_cons top c b : defs_along (top :: c) b = defs_in top b ++ defs_along c b.
Proof. reflexivity. Qed.

Lemma first_def_none c b : forall l0, first_def c b l0 = None -> defs_along c b = [].
Proof.
  induction c as [|top c IH]; intros l0 H; cbn in *; [reflexivity|].
  unfold defs_in. destruct (def_at top b); [discriminate|]. cbn. eauto.
Qed.

Lemma first_def_split c b : forall l0 lvl d, first_def c b l0 = Some (lvl, d) ->
  exists c1 top c2, c = c1 ++ top :: c2 /\ lvl = (l0 + length c1)%nat /\ defs_along c1 b = [] /\ def_at top b = Some d.
Proof.
  induction c as [|top c IH]; intros l0 lvl d H; cbn in *; [discriminate|].
  destruct (def_at top b) as [d0|] eqn:Ed.
  - inversion H; subst. exists [], top, c. cbn. repeat split; auto; lia.
  - destruct (IH _ _ _ H) as (c1 & top' & c2 & -> & -> & Hn & Hd).
    exists (top :: c1), top', c2. cbn. repeat split; auto; try lia.
    unfold defs_in. rewrite Ed. exact Hn.
Qed.

Lemma first_def_found c b l0 d rest : defs_along c b = d :: rest ->
  exists lvl, first_def c b l0 = Some (lvl, d).
Proof.
  revert l0. induction c as [|top c IH]; intros l0 H; cbn in *; [discriminate|].
  unfold defs_in in H. destruct (def_at top b) as [d0|] eqn:Ed.
  - cbn in H. inversion H; subst. eauto.
  - cbn in H. eauto.
Qed.

Lemma count_defs_length c b : count_defs c b = length (defs_along c b).
Proof.
  unfold count_defs. induction c as [|top c IH]; cbn; [reflexivity|].
  unfold defs_in. destruct (def_at top b); cbn; rewrite IH; reflexivity.
Qed.

Lemma skipn_app_exact {A} (l1 l2 : list A) : skipn (length l1) (l1 ++ l2) = l2.
Proof. induction l1; cbn; auto. Qed.

(* the position of a definition: template [top] at level [length c1] defines b *)
Record at_level (c : chain) (b : name) (lvl : nat) (c1 : chain) (top : list item) (c2 : chain) (d : bdef) : Prop := {
  al_split : c = c1 ++ top :: c2;
  al_len : length c1 = lvl;
  al_def : def_at top b = Some d
}.

(* the key fact behind super(): with the cursor on the definition at level lvl (= the number of
   definitions before it), cursor + 1 is the first definition at a level > lvl, and there is no
   further entry exactly when no higher level defines the block *)
Lemma super_next c b lvl c1 top c2 d : at_level c b lvl c1 top c2 d ->
  let k := length (defs_along c1 b) in
  nth_error (defs_along c b) k = Some d /\
  match first_def_from c b (S lvl) with
  | Some (lvl', d') =>
      nth_error (defs_along c b) (S k) = Some d' /\ (S k < length (defs_along c b))%nat /\
      exists c1' top' c2', at_level c b lvl' c1' top' c2' d' /\ length (defs_along c1' b) = S k
  | None => length (defs_along c b) = S k
  end.
Proof.
  intros [Hs Hl Hd] k. subst c.
  assert (Hda : defs_along (c1 ++ top :: c2) b = defs_along c1 b ++ d :: defs_along c2 b).
  { rewrite defs_along_app, defs_along_cons. unfold defs_in. rewrite Hd. reflexivity. }
  split.
  { rewrite Hda. subst k. rewrite nth_error_app2 by lia. rewrite Nat.sub_diag. reflexivity. }
  unfold first_def_from.
  replace (skipn (S lvl) (c1 ++ top :: c2)) with c2.
  2:{ subst lvl. change (c1 ++ top :: c2) with (c1 ++ [top] ++ c2). rewrite app_assoc.
      replace (S (length c1)) with (length (c1 ++ [top])) by (rewrite app_length; cbn; lia).
      rewrite skipn_app_exact. reflexivity. }
  destruct (first_def c2 b (S lvl)) as [[lvl' d']|] eqn:Ef.
  - destruct (first_def_split _ _ _ _ _ Ef) as (c2a & top' & c2b & -> & -> & Hn & Hd').
    assert (Hda2 : defs_along (c2a ++ top' :: c2b) b = d' :: defs_along c2b b).
    { rewrite defs_along_app, Hn, defs_along_cons. unfold defs_in. rewrite Hd'. reflexivity. }
    rewrite Hda, Hda2. subst k. repeat split.
    + rewrite nth_error_app2 by lia. replace (S (length (defs_along c1 b)) - length (defs_along c1 b))%nat with 1%nat by lia. reflexivity.
    + rewrite app_length. cbn. lia.
    + exists (c1 ++ top :: c2a), top', c2b. split.
      * constructor; auto.
        -- rewrite <- app_assoc. reflexivity.
        -- rewrite app_length. cbn. lia.
      * rewrite defs_along_app, defs_along_cons, Hn. unfold defs_in. rewrite Hd. rewrite app_length. cbn. lia.
  - rewrite Hda, (first_def_none _ _ _ Ef). rewrite app_length. cbn. subst k. lia.
Qed.

(* the first definition along the chain is entry 0 of the stack *)
Lemma first_entry c b :
  match first_def_from c b 0 with
  | Some (lvl, d) => exists c1 top c2 rest, at_level c b lvl c1 top c2 d /\ defs_along c1 b = [] /\ defs_along c b = d :: rest
  | None => defs_along c b = []
  end.
Proof.
  unfold first_def_from. cbn [skipn]. destruct (first_def c b 0) as [[lvl d]|] eqn:Ef.
  - destruct (first_def_split _ _ _ _ _ Ef) as (c1 & top & c2 & -> & -> & Hn & Hd).
    exists c1, top, c2, (defs_along c2 b). repeat split; auto.
    rewrite defs_along_app, Hn, defs_along_cons. unfold defs_in. rewrite Hd. reflexivity.
  - eapply first_def_none; eassumption.
Qed.

(* ------------------------------------------------------------------------------------ *)
(* 2. the block map                                                                       *)
(* ------------------------------------------------------------------------------------ *)
Lemma bstack_eta bs : mkBstack (defs bs) (depth bs) = bs.
Proof. destruct bs; reflexivity. Qed.

Lemma assoc_set_depth b d m k :
  assoc k (set_depth b d m) =
  match assoc k m with
  | Some bs => Some (if b =? k then mkBstack (defs bs) d else bs)
  | None => None
  end.
Proof.
  induction m as [|[k' bs] m IH]; cbn; [reflexivity|].
  destruct (b =? k') eqn:E1; cbn.
  - apply Z.eqb_eq in E1. subst k'. destruct (k =? b) eqn:E2; cbn.
    + apply Z.eqb_eq in E2. subst. rewrite Z.eqb_refl. reflexivity.
    + destruct (assoc k m); auto. rewrite Z.eqb_sym, E2. reflexivity.
  - destruct (k =? k') eqn:E2; cbn.
    + apply Z.eqb_eq in E2. subst. rewrite E1. reflexivity.
    + exact IH.
Qed.

Lemma set_depth_restore b d m bs : assoc b m = Some bs -> set_depth b (depth bs) (set_depth b d m) = m.
Proof.
  induction m as [|[k' bs'] m IH]; cbn; [discriminate|].
  rewrite (Z.eqb_sym b k'). destruct (k' =? b) eqn:E; cbn.
  - intros H. inversion H; subst. rewrite (Z.eqb_sym b k'), E. cbn. rewrite bstack_eta. reflexivity.
  - intros H. rewrite (Z.eqb_sym b k'), E. f_equal. auto.
Qed.

Lemma assoc_append_def b d m k :
  assoc k (append_def b d m) =
  if k =? b then Some (match assoc b m with
                       | Some bs => mkBstack (defs bs ++ [d]) (depth bs)
                       | None => mkBstack [d] 0
                       end)
  else assoc k m.
Proof.
  induction m as [|[k' bs] m IH]; cbn.
  - destruct (k =? b); reflexivity.
  - destruct (b =? k') eqn:E1; cbn.
    + apply Z.eqb_eq in E1. subst k'. destruct (k =? b); reflexivity.
    + destruct (k =? k') eqn:E2.
      * apply Z.eqb_eq in E2. subst k'. rewrite Z.eqb_sym, E1. reflexivity.
      * rewrite IH. reflexivity.
Qed.

Lemma memZ_assoc_none {A} k (l : list (name * A)) : memZ k (map fst l) = false -> assoc k l = None.
Proof.
  induction l as [|[k' v] l IH]; cbn; [reflexivity|].
  intros H. apply orb_false_iff in H as [H1 H2]. rewrite H1. auto.
Qed.

Definition app_def (o : option bstack) (d : bdef) : bstack :=
  match o with
  | Some bs => mkBstack (defs bs ++ [d]) (depth bs)
  | None => mkBstack [d] 0
  end.

Lemma assoc_append_defs l : forall m k, nodupZ (map fst l) = true ->
  assoc k (append_defs l m) =
  match assoc k l with
  | Some d => Some (app_def (assoc k m) d)
  | None => assoc k m
  end.
Proof.
  induction l as [|[b d] l IH]; intros m k H; cbn in *; [reflexivity|].
  apply andb_prop in H as [H1 H2]. apply negb_true_iff in H1.
  rewrite IH by assumption. rewrite assoc_append_def.
  destruct (k =? b) eqn:E.
  - apply Z.eqb_eq in E. subst k. rewrite (memZ_assoc_none _ _ H1). reflexivity.
  - reflexivity.
Qed.

(* the block map lists, for every name, the definitions along the chain *)
Definition bm_ok (m : bmap) (c : chain) : Prop :=
  forall b, match assoc b m with
            | Some bs => defs bs = defs_along c b /\ (depth bs < length (defs bs))%nat
            | None => defs_along c b = []
            end.

Lemma bm_ok_nil : bm_ok [] [].
Proof. intros b. reflexivity. Qed.

Lemma bm_ok_append m c ptop : nodupZ (map fst (blocks_of ptop)) = true ->
  bm_ok m c -> bm_ok (append_defs (blocks_of ptop) m) (c ++ [ptop]).
Proof.
  intros Hn Hm b. rewrite assoc_append_defs by assumption.
  rewrite defs_along_app. cbn. rewrite app_nil_r. unfold defs_in, def_at.
  specialize (Hm b). destruct (assoc b (blocks_of ptop)) as [d|].
  - destruct (assoc b m) as [bs|]; cbn.
    + destruct Hm as [H1 H2]. rewrite H1, app_length. cbn. split; [reflexivity|]. rewrite <- H1. lia.
    + rewrite Hm. cbn. split; [reflexivity|lia].
  - destruct (assoc b m) as [bs|].
    + rewrite app_nil_r. exact Hm.
    + rewrite Hm. reflexivity.
Qed.

Lemma bm_ok_prepare top : nodupZ (map fst (blocks_of top)) = true -> bm_ok (prepare (blocks_of top)) [top].
Proof. intros H. apply (bm_ok_append [] [] top H bm_ok_nil). Qed.

Lemma bm_ok_set_depth m c b d : bm_ok m c ->
  (forall bs, assoc b m = Some bs -> (d < length (defs bs))%nat) -> bm_ok (set_depth b d m) c.
Proof.
  intros Hm Hd k. rewrite assoc_set_depth. specialize (Hm k).
  destruct (assoc k m) as [bs|] eqn:Ea; [|exact Hm].
  destruct (b =? k) eqn:E; [|exact Hm]. apply Z.eqb_eq in E. subst k. cbn.
  split; [apply Hm|]. apply Hd. assumption.
Qed.

(* ------------------------------------------------------------------------------------ *)
(* 3. the specification keeps the scope stack balanced                                    *)
(* ------------------------------------------------------------------------------------ *)
Lemma bind_ok {A B} (o : outcome A) (f : A -> outcome B) b : bind o f = Ok b -> exists a, o = Ok a /\ f a = Ok b.
Proof. destruct o; cbn; intros; try discriminate. eauto. Qed.

Lemma wrap_err_ok_inv {A} k (o : outcome A) a : wrap_err k o = Ok a -> o = Ok a.
Proof. destruct o; cbn; intros; try discriminate. assumption. Qed.

Definition nfr (s : sst) : nat := length (frames (svars s)).

Lemma sset_bal x v s s' : sset x v s = Ok s' -> nfr s' = nfr s.
Proof.
  unfold sset, store, nfr. destruct (frames (svars s)) as [|f r] eqn:Ef; [discriminate|].
  intros H. inversion H; subst. cbn. reflexivity.
Qed.

Lemma spop_bal s s' : spop s = Ok s' -> S (nfr s') = nfr s.
Proof.
  unfold spop, nfr. destruct (frames (svars s)) as [|f r]; [discriminate|].
  intros H. inversion H; subst. reflexivity.
Qed.

Lemma sstore_all_bal l : forall s s', sstore_all l s = Ok s' -> nfr s' = nfr s.
Proof.
  induction l as [|[x v] l IH]; cbn; intros s s' H.
  - inversion H; reflexivity.
  - apply bind_ok in H as (a & H1 & H2). rewrite (IH _ _ H2). eapply sset_bal; eassumption.
Qed.

Section Balance.
Variable E : env.
Variable scl : stask -> sst -> outcome sst.
Hypothesis Hbal : forall t s s', scl t s = Ok s' -> nfr s' = nfr s.

Lemma in_scope_bal t s s' : in_scope scl t s = Ok s' -> nfr s' = nfr s.
Proof.
  unfold in_scope. intros H. apply bind_ok in H as (a & H1 & H2).
  apply Hbal in H1. apply spop_bal in H2. unfold nfr in *. cbn in *. lia.
Qed.

Lemma render_include_bal q es ign s s' : render_include E scl q es ign s = Ok s' -> nfr s' = nfr s.
Proof.
  unfold render_include. intros H. apply bind_ok in H as ([top|] & H1 & H2).
  - apply wrap_err_ok_inv in H2. eapply Hbal; eassumption.
  - destruct es; [inversion H2; reflexivity|]. destruct ign; [inversion H2; reflexivity|discriminate].
Qed.

Lemma sfor_bal q c cur body : forall todo idx s s', sfor scl q c cur body todo idx s = Ok s' -> nfr s' = nfr s.
Proof.
  induction todo as [|t IH]; cbn; intros idx s s' H.
  - inversion H; reflexivity.
  - destruct (frames (svars s)) as [|f r] eqn:Ef; [discriminate|].
    apply bind_ok in H as (a & H1 & H2). apply IH in H2. apply Hbal in H1.
    rewrite H2, H1. unfold nfr. cbn. rewrite Ef. reflexivity.
Qed.

Lemma scall_value_bal c o arg s s' : scall_value scl c o arg s = Ok s' -> nfr s' = nfr s.
Proof.
  unfold scall_value. destruct o as [[| |body clo|]|]; try discriminate.
  unfold smacro. intros H. apply bind_ok in H as (a & _ & H2). inversion H2; reflexivity.
Qed.

Lemma import_scope_bal q e s s2 : import_scope E scl q e s = Ok s2 -> nfr s2 = S (nfr s).
Proof. unfold import_scope. intros H. apply render_include_bal in H. rewrite H. reflexivity. Qed.

Lemma sstep_bal lvl0 q c cur it s s' : sstep E scl lvl0 q c cur it s = Ok s' -> nfr s' = nfr s.
Proof.
  destruct it; cbn [sstep]; intros H.
  - inversion H; reflexivity.
  - apply bind_ok in H as (a & _ & H2). inversion H2; reflexivity.
  - eapply sset_bal; eassumption.
  - destruct (truthy _); [eapply Hbal; eassumption|inversion H; reflexivity].
  - apply bind_ok in H as (a & H1 & H2). apply sfor_bal in H1. apply spop_bal in H2.
    unfold nfr in *. cbn in *. lia.
  - destruct q; [inversion H; reflexivity|]. unfold render_block in H.
    destruct (first_def_from c b 0) as [[lvl [rq body']]|]; [|discriminate].
    destruct (_ && _)%bool; [discriminate|]. eapply in_scope_bal; eassumption.
  - unfold render_super in H. destruct cur as [[b lvl]|]; [|discriminate].
    destruct (first_def_from c b (S lvl)) as [[lvl' [rq body']]|]; [|discriminate].
    apply wrap_err_ok_inv in H. eapply in_scope_bal; eassumption.
  - destruct q; [inversion H; reflexivity|]. unfold render_block in H.
    destruct (first_def_from c b 0) as [[lvl [rq body']]|]; [|discriminate].
    destruct (_ && _)%bool; [discriminate|]. eapply in_scope_bal; eassumption.
  - destruct lvl0; [inversion H; reflexivity|discriminate].
  - destruct lvl0; [inversion H; reflexivity|discriminate].
  - eapply render_include_bal; eassumption.
  - eapply sset_bal; eassumption.
  - destruct (lookup f (svars s)); [|discriminate]. eapply scall_value_bal; eassumption.
  - apply bind_ok in H as (s2 & H1 & H2). apply import_scope_bal in H1.
    destruct (frames (svars s2)) as [|ex r] eqn:Ef; [discriminate|].
    apply sset_bal in H2. rewrite H2. unfold nfr in *. cbn in *. rewrite Ef in H1. cbn in H1. lia.
  - apply bind_ok in H as (s2 & H1 & H2). apply import_scope_bal in H1.
    destruct (frames (svars s2)) as [|ex r] eqn:Ef; [discriminate|].
    apply sstore_all_bal in H2. rewrite H2. unfold nfr in *. cbn in *. rewrite Ef in H1. cbn in H1. lia.
  - destruct (lookup m (svars s)) as [[| | |kvs capm]|]; try discriminate; try (inversion H; reflexivity).
    apply bind_ok in H as (a & _ & H2). inversion H2; reflexivity.
  - destruct (lookup m (svars s)) as [[| | |kvs capm]|]; try discriminate.
    destruct (assoc f kvs); [|discriminate]. eapply scall_value_bal; eassumption.
  - destruct (lookup m (svars s)) as [[| | |kvs capm]|]; try discriminate; inversion H; reflexivity.
  - apply bind_ok in H as (s2 & H1 & H2). apply Hbal in H1. apply sset_bal in H2. rewrite H2. exact H1.
Qed.

Lemma slist_bal lvl0 q c cur its : forall s s', slist E scl lvl0 q c cur its s = Ok s' -> nfr s' = nfr s.
Proof.
  induction its as [|it r IH]; cbn; intros s s' H.
  - inversion H; reflexivity.
  - apply bind_ok in H as (a & H1 & H2). apply IH in H2. apply sstep_bal in H1. lia.
Qed.
End Balance.

Lemma scall_bal E : forall f t s s', scall E f t s = Ok s' -> nfr s' = nfr s.
Proof.
  induction f as [|f IH]; intros t s s' H; cbn in H; [discriminate|].
  destruct t as [q c cur its|q acc seen top].
  - eapply slist_bal; [exact IH|eassumption].
  - apply bind_ok in H as (p & H1 & H2). destruct p as [[n ptop]|].
    + eapply IH; eassumption.
    + eapply slist_bal; [exact IH|eassumption].
Qed.

(* ------------------------------------------------------------------------------------ *)
(* 4. simulation: the state of the VM model = the state of the specification + hidden parts *)
(* ------------------------------------------------------------------------------------ *)
Record hid := mkHid { h_blocks : bmap; h_loaded : list name; h_top : bool; h_outs : list (option (list Z)); h_outer : Z }.

(* [h_top = true]: the innermost output collects what the specification has written;
   [h_top = false]: it discards (the specification runs quietly) *)
Definition emb (h : hid) (s : sst) : ist :=
  mkIst (h_blocks h) (h_loaded h) ((if h_top h then Some (sout s) else None) :: h_outs h) (svars s) (h_outer h).

Definition omap {A B} (g : A -> B) (o : outcome A) : outcome B :=
  match o with Ok a => Ok (g a) | Err c => Err c | Panic => Panic | OutOfGas => OutOfGas end.

Definition reset (h : hid) (st : ist) : ist := mkIst (h_blocks h) (h_loaded h) (outs st) (vars st) (outer st).

Definition with_hblocks (m : bmap) (h : hid) : hid := mkHid m (h_loaded h) (h_top h) (h_outs h) (h_outer h).

Lemma emit_emb t h s : emit t (emb h s) = Ok (emb h (semit t s)).
Proof. unfold emit, emb. cbn. destruct (h_top h); reflexivity. Qed.

Lemma set_var_emb x v h s : set_var x v (emb h s) = omap (emb h) (sset x v s).
Proof. unfold set_var, sset. cbn. destruct (store x v (svars s)); reflexivity. Qed.

Lemma push_frame_emb f h s : push_frame None f (emb h s) = Ok (emb h (spush f s)).
Proof. reflexivity. Qed.

Lemma pop_frame_emb h s : pop_frame (emb h s) = omap (emb h) (spop s).
Proof. unfold pop_frame, spop. cbn. destruct (frames (svars s)); reflexivity. Qed.

Lemma is_discarding_emb h s : is_discarding (emb h s) = negb (h_top h).
Proof. unfold is_discarding, emb. cbn. destruct (h_top h); reflexivity. Qed.

Lemma bind_omap {A B C} (g : A -> B) (o : outcome A) (k : B -> outcome C) :
  bind (omap g o) k = bind o (fun a => k (g a)).
Proof. destruct o; reflexivity. Qed.

Lemma omap_bind {A B C} (g : B -> C) (o : outcome A) (k : A -> outcome B) :
  omap g (bind o k) = bind o (fun a => omap g (k a)).
Proof. destruct o; reflexivity. Qed.

Lemma keep_omap {A} (g : A -> ist) (o : outcome A) :
  keep None (omap g o) = omap (fun a => (@None (list item), g a)) o.
Proof. destruct o; reflexivity. Qed.

Lemma omap_wrap {A B} (g : A -> B) k (o : outcome A) : omap g (wrap_err k o) = wrap_err k (omap g o).
Proof. destruct o; reflexivity. Qed.

Lemma truncate_pop v n f r : frames v = f :: r -> length r = n -> truncate n v = mkVenv (root v) r.
Proof.
  intros Hf Hl. unfold truncate. rewrite Hf. cbn [length].
  replace (S (length r) - n)%nat with 1%nat by lia. reflexivity.
Qed.

Lemma truncate_id v n : length (frames v) = n -> truncate n v = v.
Proof.
  intros Hl. unfold truncate. rewrite Hl, Nat.sub_diag. destruct v; reflexivity.
Qed.

Definition cur_ok (m : bmap) (c : chain) (cur : option (name * nat)) : Prop :=
  match cur with
  | None => True
  | Some (b, lvl) => exists bs c1 top c2 d,
      assoc b m = Some bs /\ at_level c b lvl c1 top c2 d /\ depth bs = length (defs_along c1 b)
  end.
Definition good (h : hid) (c : chain) (cur : option (name * nat)) : Prop :=
  bm_ok (h_blocks h) c /\ cur_ok (h_blocks h) c cur.

Lemma forallb_assoc {A} (P : name * A -> bool) (l : list (name * A)) k v :
  forallb P l = true -> assoc k l = Some v -> exists k', P (k', v) = true.
Proof.
  induction l as [|[k' v'] l IH]; cbn; [discriminate|].
  intros H Ha. apply andb_prop in H as [H1 H2]. destruct (k =? k').
  - inversion Ha; subst. eauto.
  - eauto.
Qed.

Lemma wf_env_assoc E n top : wf_env E = true -> find_tmpl E n = Ok (Some top) -> wf_top top = true.
Proof.
  unfold wf_env, find_tmpl. intros H Ha. destruct (assoc n E) as [[t|c]|] eqn:Ea; try discriminate.
  inversion Ha; subst. destruct (forallb_assoc _ _ _ _ H Ea) as [k' Hk]. exact Hk.
Qed.

Lemma wf_top_nodup top : wf_top top = true -> nodupZ (map fst (blocks_of top)) = true.
Proof. unfold wf_top. intros H. apply andb_prop in H as [_ H]. exact H. Qed.

Section Sim.
Variable E : env.
Variable icl : task -> ist -> outcome ist.
Variable scl : stask -> sst -> outcome sst.
Hypothesis Hwf : wf_env E = true.
Hypothesis HBal : forall t s s', scl t s = Ok s' -> nfr s' = nfr s.
Hypothesis HB : forall q c cur its h s, good h c cur -> h_top h = negb q ->
  icl (TBody (option_map fst cur) its) (emb h s) = omap (emb h) (scl (SBody q c cur its) s).
Hypothesis HT : forall q acc seen top h s, wf_top top = true -> bm_ok (h_blocks h) (acc ++ [top]) ->
  h_loaded h = seen -> h_top h = negb q ->
  omap (reset h) (icl (TTemplate None top) (emb h s)) = omap (emb h) (scl (STemplate q acc seen top) s).

Notation Q := fixed_code.

Lemma first_existing_eq v es : first_existing E v es = first_template E v es.
Proof. induction es as [|e r IH]; cbn; [reflexivity|]. destruct (eval_name e v) as [n| | |]; cbn; auto. Qed.

Lemma first_template_wf v es top : first_template E v es = Ok (Some top) -> wf_top top = true.
Proof.
  induction es as [|e r IH]; cbn; [discriminate|].
  destruct (eval_name e v) as [n| | |]; cbn; try discriminate.
  destruct (find_tmpl E n) as [[t|]| | |] eqn:Ea; cbn; try discriminate; [|exact IH].
  intros H. inversion H; subst. eapply wf_env_assoc; eassumption.
Qed.

(* ---- call_block ---- *)
Lemma sim_call_block c cur b h s : good h c cur -> h_top h = true ->
  call_block Q None icl b (emb h s) = omap (emb h) (render_block scl c b s).
Proof.
  intros [Hm Hc] Ht. unfold call_block, render_block.
  change (blocks (emb h s)) with (h_blocks h).
  pose proof (Hm b) as Hb. pose proof (first_entry c b) as Hf.
  destruct (first_def_from c b 0) as [[lvl [req body]]|].
  2:{ destruct (assoc b (h_blocks h)) as [bs|]; [|reflexivity].
      destruct Hb as [H1 H2]. rewrite <- H1 in Hf. rewrite Hf in H2. cbn in H2. lia. }
  destruct Hf as (c1 & top & c2 & rest & Hal & Hn & Hda).
  destruct (assoc b (h_blocks h)) as [bs|] eqn:Ea; [|rewrite Hb in Hda; discriminate].
  destruct Hb as [H1 H2].
  rewrite count_defs_length, <- H1.
  destruct (nth_error (defs bs) (depth bs)) as [[req0 body0]|] eqn:En.
  2:{ apply nth_error_None in En. lia. }
  assert (Hreq : ((length (defs bs) =? 1)%nat && req0 = (length (defs bs) =? 1)%nat && req)%bool).
  { destruct (length (defs bs) =? 1)%nat eqn:El; [|reflexivity]. apply Nat.eqb_eq in El.
    assert (depth bs = 0%nat) by lia. rewrite H, H1, Hda in En. cbn in En. inversion En; reflexivity. }
  rewrite Hreq. destruct ((length (defs bs) =? 1)%nat && req)%bool; [reflexivity|].
  cbn [q_cursor_call Q].
  assert (Hn0 : nth_error (defs bs) 0 = Some (req, body)) by (rewrite H1, Hda; reflexivity).
  rewrite Hn0.
  change (with_blocks (set_depth b 0 (h_blocks h)) (emb h s)) with (emb (with_hblocks (set_depth b 0 (h_blocks h)) h) s).
  rewrite push_frame_emb. cbn [bind].
  set (h0 := mkHid (set_depth b 0 (h_blocks h)) (h_loaded h) (h_top h) (h_outs h) (h_outer h + 5)).
  change (with_outer _ (emb (with_hblocks (set_depth b 0 (h_blocks h)) h) (spush [] s))) with (emb h0 (spush [] s)).
  assert (Hg : good h0 c (Some (b, lvl))).
  { split; cbn.
    - apply bm_ok_set_depth; [assumption|]. intros bs' Hbs'. rewrite Ea in Hbs'. inversion Hbs'; subst. lia.
    - exists (mkBstack (defs bs) 0), c1, top, c2, (req, body). split; [|split; [exact Hal|]].
      + rewrite assoc_set_depth, Ea, Z.eqb_refl. reflexivity.
      + rewrite Hn. reflexivity. }
  pose proof (HB false c (Some (b, lvl)) body h0 (spush [] s) Hg Ht) as Hcall.
  cbn [option_map fst] in Hcall. rewrite Hcall. clear Hcall.
  unfold in_scope.
  destruct (scl (SBody false c (Some (b, lvl)) body) (spush [] s)) as [s2| | |] eqn:Es; cbn; try reflexivity.
  apply HBal in Es. unfold nfr in Es. cbn in Es.
  unfold spop. destruct (frames (svars s2)) as [|f r] eqn:Ef; [discriminate|]. cbn in Es.
  cbn. unfold restore_frames, emb, with_blocks, with_vars, with_outer. cbn.
  rewrite (truncate_pop _ _ _ _ Ef) by lia.
  rewrite (set_depth_restore _ _ _ _ Ea).
  replace (h_outer h + 5 - 5) with (h_outer h) by lia. reflexivity.
Qed.

(* ---- perform_super ---- *)
Lemma sim_super q c cur h s : good h c cur -> h_top h = negb q ->
  perform_super None icl (option_map fst cur) (emb h s) = omap (emb h) (render_super scl q c cur s).
Proof.
  intros [Hm Hc] Ht. unfold perform_super, render_super.
  destruct cur as [[b lvl]|]; cbn [option_map fst]; [|reflexivity].
  destruct Hc as (bs & c1 & top & c2 & d & Ea & Hal & Hd).
  change (blocks (emb h s)) with (h_blocks h). rewrite Ea.
  pose proof (Hm b) as Hb. rewrite Ea in Hb. destruct Hb as [H1 H2].
  pose proof (super_next _ _ _ _ _ _ _ Hal) as [Hk Hnext]. cbn zeta in Hnext. rewrite <- Hd, <- H1 in Hnext.
  destruct (first_def_from c b (S lvl)) as [[lvl' [req' body']]|].
  2:{ replace (S (depth bs) <? length (defs bs))%nat with false; [reflexivity|].
      symmetry. apply Nat.ltb_ge. lia. }
  destruct Hnext as (Hn' & Hlt & c1' & top' & c2' & Hal' & Hd').
  replace (S (depth bs) <? length (defs bs))%nat with true by (symmetry; apply Nat.ltb_lt; exact Hlt).
  rewrite Hn'.
  change (with_blocks (set_depth b (S (depth bs)) (h_blocks h)) (emb h s))
    with (emb (with_hblocks (set_depth b (S (depth bs)) (h_blocks h)) h) s).
  rewrite push_frame_emb. cbn [bind].
  set (h1 := mkHid (set_depth b (S (depth bs)) (h_blocks h)) (h_loaded h) (h_top h) (h_outs h) (h_outer h + 5)).
  change (with_outer _ (emb (with_hblocks (set_depth b (S (depth bs)) (h_blocks h)) h) (spush [] s))) with (emb h1 (spush [] s)).
  assert (Hg : good h1 c (Some (b, lvl'))).
  { split; cbn.
    - apply bm_ok_set_depth; [assumption|]. intros bs' Hbs'. rewrite Ea in Hbs'. inversion Hbs'; subst. lia.
    - exists (mkBstack (defs bs) (S (depth bs))), c1', top', c2', (req', body'). split; [|split; [exact Hal'|]].
      + rewrite assoc_set_depth, Ea, Z.eqb_refl. reflexivity.
      + cbn. rewrite Hd'. reflexivity. }
  pose proof (HB q c (Some (b, lvl')) body' h1 (spush [] s) Hg Ht) as Hcall.
  cbn [option_map fst] in Hcall. rewrite Hcall. clear Hcall.
  unfold in_scope.
  destruct (scl (SBody q c (Some (b, lvl')) body') (spush [] s)) as [s2| | |] eqn:Es; cbn; try reflexivity.
  apply HBal in Es. unfold nfr in Es. cbn in Es.
  unfold restore_frames. cbn.
  rewrite truncate_id by (cbn; lia).
  set (h2 := mkHid (set_depth b (S (depth bs)) (h_blocks h)) (h_loaded h) (h_top h) (h_outs h) (h_outer h + 5 - 5)).
  change (with_vars (svars s2) _) with (emb h2 s2).
  rewrite pop_frame_emb. unfold spop. destruct (frames (svars s2)) as [|f r]; [discriminate|]. cbn.
  unfold emb, with_blocks. cbn. rewrite (set_depth_restore _ _ _ _ Ea).
  replace (h_outer h + 5 - 5) with (h_outer h) by lia. reflexivity.
Qed.

(* ---- perform_include ---- *)
Lemma sim_include q cur es ign h s : h_top h = negb q ->
  perform_include Q None E icl cur es ign (emb h s) = omap (emb h) (render_include E scl q es ign s).
Proof.
  intros Ht. unfold perform_include, render_include.
  change (vars (emb h s)) with (svars s). rewrite first_existing_eq.
  destruct (first_template E (svars s) es) as [[top|]| | |] eqn:Ef; cbn [bind omap]; try reflexivity.
  2:{ destruct es; [reflexivity|]. destruct ign; reflexivity. }
  cbn [depth_ok q_incl_loaded q_incl_block Q].
  set (h1 := mkHid (prepare (blocks_of top)) [] (h_top h) (h_outs h) (h_outer h + 10)).
  change (with_outer (outer (emb h s) + 10) (with_loaded [] (with_blocks (prepare (blocks_of top)) (emb h s)))) with (emb h1 s).
  pose proof (first_template_wf _ _ _ Ef) as Hwt.
  pose proof (HT q [] [] top h1 s Hwt (bm_ok_prepare _ (wf_top_nodup _ Hwt)) eq_refl Ht) as Hcall.
  destruct (icl (TTemplate None top) (emb h1 s)) as [s2|c2| |]; destruct (scl (STemplate q [] [] top) s) as [s2'|c2'| |] eqn:Es;
    cbn in Hcall; try discriminate; cbn; try reflexivity.
  - apply HBal in Es. unfold nfr in Es.
    unfold reset, emb in Hcall. injection Hcall as Ho Hv Hd.
    unfold restore_frames, emb, with_outer, with_loaded, with_blocks, with_vars. cbn.
    rewrite Ho, Hv, Hd. rewrite truncate_id by exact Es.
    replace (h_outer h + 10 - 10) with (h_outer h) by lia. reflexivity.
  - inversion Hcall; reflexivity.
Qed.

(* ---- macros ---- *)
Lemma sim_call_value c cur o arg h s : good h c cur ->
  call_value None icl o arg (emb h s) = omap (emb h) (scall_value scl c o arg s).
Proof.
  intros [Hm _]. unfold call_value, scall_value.
  destruct o as [[| |body clo|]|]; try reflexivity.
  unfold call_macro, smacro. cbn [depth_ok andb].
  set (h1 := mkHid (h_blocks h) (h_loaded h) true [] (outer (emb h s) + Z.of_nat (length (frames (vars (emb h s)))) + 4)).
  set (s0 := mkSst (mkVenv (root (svars s)) [[(v_param, str_of arg)]; clo]) []).
  change (mkIst (blocks (emb h s)) (loaded (emb h s)) [Some []] (mkVenv (root (vars (emb h s))) [[(v_param, str_of arg)]; clo])
               (outer (emb h s) + Z.of_nat (length (frames (vars (emb h s)))) + 4)) with (emb h1 s0).
  assert (Hg : good h1 c None) by (split; [exact Hm|exact I]).
  pose proof (HB false c None body h1 s0 Hg eq_refl) as Hcall. cbn [option_map] in Hcall. rewrite Hcall.
  unfold smacro. subst s0.
  destruct (scl (SBody false c None body) _) as [s2| | |]; cbn [bind omap]; try reflexivity.
  change (outs (emb h1 s2)) with [Some (sout s2)]. cbn iota. apply emit_emb.
Qed.

(* ---- loops, stores ---- *)
Lemma sim_for q c cur body h : good h c cur -> h_top h = negb q ->
  forall todo idx s, for_loop icl (option_map fst cur) body todo idx (emb h s) = omap (emb h) (sfor scl q c cur body todo idx s).
Proof.
  intros Hg Ht. induction todo as [|t IH]; intros idx s; cbn [for_loop sfor]; [reflexivity|].
  change (frames (vars (emb h s))) with (frames (svars s)).
  destruct (frames (svars s)) as [|f r]; [reflexivity|].
  change (with_vars (mkVenv (root (vars (emb h s))) ([(v_loop, VStr [tok_num idx])] :: r)) (emb h s))
    with (emb h (mkSst (mkVenv (root (svars s)) ([(v_loop, VStr [tok_num idx])] :: r)) (sout s))).
  rewrite (HB q c cur body h _ Hg Ht).
  destruct (scl (SBody q c cur body) _) as [s2| | |]; cbn; try reflexivity. apply IH.
Qed.

Lemma sim_store_all h l : forall s, store_all l (emb h s) = omap (emb h) (sstore_all l s).
Proof.
  induction l as [|[x v] l IH]; intros s; cbn; [reflexivity|].
  rewrite set_var_emb. destruct (sset x v s) as [s2| | |]; cbn; try reflexivity. apply IH.
Qed.

Lemma sset_out x v s s' : sset x v s = Ok s' -> sout s' = sout s.
Proof. unfold sset. destruct (store x v (svars s)); intros H; inversion H; reflexivity. Qed.

Lemma sstore_all_out l : forall s s', sstore_all l s = Ok s' -> sout s' = sout s.
Proof.
  induction l as [|[x v] l IH]; cbn; intros s s' H; [inversion H; reflexivity|].
  apply bind_ok in H as (a & H1 & H2). rewrite (IH _ _ H2). eapply sset_out; eassumption.
Qed.

Lemma emit_keys_eq kvs : emit_keys kvs = key_tokens kvs.
Proof. induction kvs as [|[k v] r IH]; cbn; [reflexivity|]. rewrite IH. reflexivity. Qed.

(* ---- one statement ---- *)
Lemma sim_step lvl0 q c cur it h s : good h c cur -> h_top h = negb q -> (lvl0 = true -> is_head it = false) ->
  istep Q None E icl lvl0 (option_map fst cur) it None (emb h s) =
  omap (fun s' => (@None (list item), emb h s')) (sstep E scl lvl0 q c cur it s).
Proof.
  intros Hg Ht Hh. destruct it; cbn [istep sstep].
  - (* IText *) rewrite emit_emb. reflexivity.
  - (* IPrint *) change (vars (emb h s)) with (svars s).
    destruct (printed (lookup x (svars s))) as [t| | |]; cbn [bind omap keep]; try reflexivity. rewrite emit_emb. reflexivity.
  - (* ISet *) rewrite set_var_emb. apply keep_omap.
  - (* IIf *) change (vars (emb h s)) with (svars s). destruct (truthy _); [|reflexivity].
    rewrite (HB q c cur body h s Hg Ht). apply keep_omap.
  - (* IFor *) rewrite push_frame_emb. cbn [bind]. rewrite (sim_for q c cur body h Hg Ht).
    destruct (sfor scl q c cur body n 0 (spush [] s)) as [s1| | |]; cbn; try reflexivity.
    rewrite pop_frame_emb. apply keep_omap.
  - (* IBlock *) rewrite is_discarding_emb, Ht. destruct q; cbn [negb]; [reflexivity|].
    rewrite (sim_call_block c cur b h s Hg Ht). apply keep_omap.
  - (* ISuper *) rewrite (sim_super q c cur h s Hg Ht). apply keep_omap.
  - (* ISelf *) rewrite is_discarding_emb, Ht. destruct q; cbn [negb]; [reflexivity|].
    rewrite (sim_call_block c cur b h s Hg Ht). apply keep_omap.
  - (* IExtends *) destruct lvl0; [specialize (Hh eq_refl); discriminate|reflexivity].
  - (* ICondExtends *) destruct lvl0; [specialize (Hh eq_refl); discriminate|reflexivity].
  - (* IInclude *) rewrite (sim_include q _ es ign h s Ht). apply keep_omap.
  - (* IMacro *) rewrite set_var_emb. apply keep_omap.
  - (* ICall *) change (vars (emb h s)) with (svars s). destruct (lookup f (svars s)) as [v|]; [|reflexivity].
    rewrite (sim_call_value c cur (Some v) arg h s Hg). apply keep_omap.
  - (* IImport *)
    set (h2 := mkHid (h_blocks h) (h_loaded h) true ((if h_top h then Some (sout s) else None) :: h_outs h) (h_outer h)).
    set (s0 := mkSst (svars s) []).
    change (begin_capture (Some []) (emb h s)) with (emb h2 s0).
    rewrite push_frame_emb. cbn [bind].
    rewrite (sim_include false _ [e] false h2 (spush [] s0) eq_refl).
    unfold import_scope. fold s0.
    destruct (render_include E scl false [e] false (spush [] s0)) as [s2| | |]; cbn [bind omap keep]; try reflexivity.
    unfold end_capture. cbn [outs emb h2 h_top h_outs bind fst snd].
    change (top_frame _) with (match frames (svars s2) with f :: _ => Ok f | [] => Panic end).
    destruct (frames (svars s2)) as [|ex r] eqn:Ef; [reflexivity|]. cbn [bind].
    change (with_outs ((if h_top h then Some (sout s) else None) :: h_outs h) (emb h2 s2))
      with (emb h (mkSst (svars s2) (sout s))).
    rewrite pop_frame_emb. unfold spop. cbn [svars]. rewrite Ef. cbn [bind omap].
    rewrite set_var_emb. apply keep_omap.
  - (* IFrom *)
    set (h3 := mkHid (h_blocks h) (h_loaded h) false ((if h_top h then Some (sout s) else None) :: h_outs h) (h_outer h)).
    set (s0 := mkSst (svars s) []).
    change (begin_capture None (emb h s)) with (emb h3 s0).
    rewrite push_frame_emb. cbn [bind].
    rewrite (sim_include true _ [e] false h3 (spush [] s0) eq_refl).
    unfold import_scope. fold s0.
    destruct (render_include E scl true [e] false (spush [] s0)) as [s2| | |]; cbn [bind omap keep]; try reflexivity.
    unfold pop_frame, from_value. cbn [q_from_scope Q vars emb frames].
    destruct (frames (svars s2)) as [|ex r] eqn:Ef; [reflexivity|]. cbn [bind].
    change (with_vars (mkVenv (root (svars s2)) r) (emb h3 s2)) with (emb h3 (mkSst (mkVenv (root (svars s2)) r) (sout s))).
    rewrite sim_store_all.
    destruct (sstore_all _ _) as [s4| | |] eqn:Es4; cbn [bind omap keep]; try reflexivity.
    apply sstore_all_out in Es4. cbn in Es4.
    unfold end_capture, emb. cbn. rewrite Es4. reflexivity.
  - (* IPrintAttr *) change (vars (emb h s)) with (svars s).
    destruct (lookup m (svars s)) as [[| | |kvs capm]|]; try reflexivity.
    destruct (printed (assoc x kvs)) as [t| | |]; cbn [bind omap keep]; try reflexivity. rewrite emit_emb. reflexivity.
  - (* ICallAttr *) change (vars (emb h s)) with (svars s).
    destruct (lookup m (svars s)) as [[| | |kvs capm]|]; try reflexivity.
    destruct (assoc f kvs) as [v|]; [|reflexivity].
    rewrite (sim_call_value c cur (Some v) arg h s Hg). apply keep_omap.
  - (* IKeys *) change (vars (emb h s)) with (svars s).
    destruct (lookup m (svars s)) as [[| | |kvs capm]|]; try reflexivity.
    rewrite push_frame_emb. cbn [bind]. rewrite emit_emb, emit_keys_eq. reflexivity.
  - (* ISetBlock *)
    set (h2 := mkHid (h_blocks h) (h_loaded h) true ((if h_top h then Some (sout s) else None) :: h_outs h) (h_outer h)).
    set (s0 := mkSst (svars s) []).
    change (begin_capture (Some []) (emb h s)) with (emb h2 s0).
    assert (Hg2 : good h2 c cur) by exact Hg.
    rewrite (HB false c cur body h2 s0 Hg2 eq_refl).
    destruct (scl (SBody false c cur body) s0) as [s2| | |]; cbn [bind omap keep]; try reflexivity.
    unfold end_capture. cbn [outs emb h2 h_top h_outs bind fst snd].
    change (with_outs ((if h_top h then Some (sout s) else None) :: h_outs h) (emb h2 s2))
      with (emb h (mkSst (svars s2) (sout s))).
    rewrite set_var_emb. apply keep_omap.
Qed.

Lemma sim_list lvl0 q c cur h : good h c cur -> h_top h = negb q ->
  forall its s, (lvl0 = true -> forallb (fun it => negb (is_head it)) its = true) ->
  ilist Q None E icl lvl0 (option_map fst cur) its None (emb h s) =
  omap (fun s' => (@None (list item), emb h s')) (slist E scl lvl0 q c cur its s).
Proof.
  intros Hg Ht. induction its as [|it r IH]; intros s Hh; cbn [ilist slist]; [reflexivity|].
  rewrite (sim_step lvl0 q c cur it h s Hg Ht).
  2:{ intros El. specialize (Hh El). cbn in Hh. apply andb_prop in Hh as [Hh _]. apply negb_true_iff in Hh. exact Hh. }
  destruct (sstep E scl lvl0 q c cur it s) as [s1| | |]; cbn; try reflexivity.
  apply IH. intros El. specialize (Hh El). cbn in Hh. apply andb_prop in Hh as [_ Hh]. exact Hh.
Qed.

(* ---- the extends tags at the head of a template ---- *)
Definition st_ext (h : hid) (s : sst) (n : name) (ptop : list item) : ist :=
  mkIst (append_defs (blocks_of ptop) (h_blocks h)) (h_loaded h ++ [n])
        (None :: (if h_top h then Some (sout s) else None) :: h_outs h) (svars s) (h_outer h).

Lemma quiet_run h s n ptop : forall its, forallb is_quiet its = true ->
  ilist Q None E icl true None its (Some ptop) (st_ext h s n ptop) = Ok (Some ptop, st_ext h s n ptop).
Proof.
  induction its as [|it r IH]; intros Hq; cbn [ilist]; [reflexivity|].
  cbn in Hq. apply andb_prop in Hq as [H1 H2].
  destruct it; try discriminate; cbn [istep keep bind emit st_ext outs fst snd]; apply IH; assumption.
Qed.

Definition heads_result (h : hid) (s : sst) (top : list item) (r : outcome (option (name * list item)))
  : outcome (option (list item) * ist) :=
  match r with
  | Err c => Err c
  | Ok None => ilist Q None E icl true None (drop_heads top) None (emb h s)
  | Ok (Some (n, ptop)) => Ok (Some ptop, st_ext h s n ptop)
  | Panic => Panic
  | OutOfGas => OutOfGas
  end.

Lemma drop_heads_nonhead it r : is_head it = false -> drop_heads (it :: r) = it :: r.
Proof. intros H. cbn. rewrite H. reflexivity. Qed.

Lemma parent_of_nonhead v seen it r found : is_head it = false -> parent_of E v seen (it :: r) found = Ok found.
Proof. destruct it; cbn; intros H; try discriminate; reflexivity. Qed.

Lemma heads_some h s n ptop : forall top, forallb is_quiet (drop_heads top) = true ->
  ilist Q None E icl true None top (Some ptop) (st_ext h s n ptop) =
  heads_result h s top (parent_of E (svars s) (h_loaded h) top (Some (n, ptop))).
Proof.
  induction top as [|it r IH]; intros Hq; [reflexivity|].
  destruct (is_head it) eqn:Eh.
  - destruct it; try discriminate.
    + (* IExtends *) reflexivity.
    + (* ICondExtends *) cbn [ilist istep parent_of]. change (vars (st_ext h s n ptop)) with (svars s).
      destruct (truthy (lookup x (svars s))); [reflexivity|]. cbn [bind fst snd].
      apply IH. cbn in Hq. exact Hq.
  - rewrite parent_of_nonhead by assumption. rewrite drop_heads_nonhead in Hq by assumption.
    cbn [heads_result]. apply quiet_run. assumption.
Qed.

Lemma load_blocks_emb e h s :
  load_blocks E e None (emb h s) =
  bind (eval_name e (svars s)) (fun n =>
    if memZ n (h_loaded h) then Err E_InvalidOperation
    else bind (find_tmpl E n) (fun o =>
         match o with
         | None => Err E_TemplateNotFound
         | Some ptop => Ok (Some ptop, st_ext h s n ptop)
         end)).
Proof. reflexivity. Qed.

Lemma heads_none h s : forall top,
  (match top with it :: _ => is_head it | [] => false end) = false \/ forallb is_quiet (drop_heads top) = true ->
  ilist Q None E icl true None top None (emb h s) =
  heads_result h s top (parent_of E (svars s) (h_loaded h) top None).
Proof.
  induction top as [|it r IH]; intros Hq; [reflexivity|].
  destruct (is_head it) eqn:Eh.
  - destruct Hq as [Hq|Hq]; [congruence|].
    destruct it; try discriminate.
    + (* IExtends *) cbn [ilist istep parent_of]. rewrite load_blocks_emb.
      destruct (eval_name e (svars s)) as [n| | |]; cbn [bind]; try reflexivity.
      destruct (memZ n (h_loaded h)); [reflexivity|].
      destruct (find_tmpl E n) as [[ptop|]| | |]; cbn [bind]; try reflexivity. cbn [bind fst snd].
      rewrite heads_some by exact Hq.
      destruct (parent_of E (svars s) (h_loaded h) r (Some (n, ptop))) as [[[n' p']|]| | |]; reflexivity.
    + (* ICondExtends *) cbn [ilist istep parent_of]. change (vars (emb h s)) with (svars s).
      destruct (truthy (lookup x (svars s))).
      * rewrite load_blocks_emb.
        destruct (eval_name e (svars s)) as [n| | |]; cbn [bind]; try reflexivity.
        destruct (memZ n (h_loaded h)); [reflexivity|].
        destruct (find_tmpl E n) as [[ptop|]| | |]; cbn [bind]; try reflexivity. cbn [bind fst snd].
        rewrite heads_some by exact Hq.
        destruct (parent_of E (svars s) (h_loaded h) r (Some (n, ptop))) as [[[n' p']|]| | |]; reflexivity.
      * cbn [bind fst snd]. rewrite IH by (right; exact Hq).
        destruct (parent_of E (svars s) (h_loaded h) r None) as [[[n' p']|]| | |]; reflexivity.
  - rewrite parent_of_nonhead by assumption. cbn [heads_result]. rewrite drop_heads_nonhead by assumption. reflexivity.
Qed.

Lemma parent_of_some v seen : forall top found n ptop,
  parent_of E v seen top found = Ok (Some (n, ptop)) -> found = Some (n, ptop) \/ find_tmpl E n = Ok (Some ptop).
Proof.
  induction top as [|it r IH]; intros found n ptop H; [cbn in H; inversion H; auto|].
  destruct (is_head it) eqn:Eh.
  - destruct it; try discriminate; cbn [parent_of] in H.
    + destruct found; [discriminate|]. apply bind_ok in H as (n0 & _ & H).
      destruct (memZ n0 seen); [discriminate|]. destruct (find_tmpl E n0) as [[p0|]| | |] eqn:Ea; cbn [bind] in H; try discriminate.
      apply IH in H as [H|H]; [inversion H; subst; auto|auto].
    + destruct (truthy (lookup x v)); [|eauto].
      destruct found; [discriminate|]. apply bind_ok in H as (n0 & _ & H).
      destruct (memZ n0 seen); [discriminate|]. destruct (find_tmpl E n0) as [[p0|]| | |] eqn:Ea; cbn [bind] in H; try discriminate.
      apply IH in H as [H|H]; [inversion H; subst; auto|auto].
  - rewrite parent_of_nonhead in H by assumption. inversion H; auto.
Qed.

Lemma slist_drop_heads q c cur : forall top s, slist E scl true q c cur top s = slist E scl true q c cur (drop_heads top) s.
Proof.
  induction top as [|it r IH]; intros s; [reflexivity|].
  destruct (is_head it) eqn:Eh.
  - destruct it; try discriminate; cbn [slist sstep bind drop_heads is_head]; apply IH.
  - rewrite drop_heads_nonhead by assumption. reflexivity.
Qed.

(* one template: its stream, then the streams of the templates it extends *)
Definition tmpl_step (top : list item) (st : ist) : outcome ist :=
  bind (ilist Q None E icl true None top None st) (fun ps =>
  match fst ps with
  | None => Ok (snd ps)
  | Some ptop => bind (end_capture (snd ps)) (fun cs => icl (TTemplate None ptop) (snd cs))
  end).
Definition stmpl_step (q : bool) (acc : chain) (seen : list name) (top : list item) (s : sst) : outcome sst :=
  bind (parent_of E (svars s) seen top None) (fun p =>
  match p with
  | None => slist E scl true q (acc ++ [top]) None top s
  | Some (n, ptop) => scl (STemplate q (acc ++ [top]) (seen ++ [n]) ptop) s
  end).

Lemma wf_top_heads top : wf_top top = true ->
  ((match top with it :: _ => is_head it | [] => false end) = false \/ forallb is_quiet (drop_heads top) = true)
  /\ forallb (fun it => negb (is_head it)) (drop_heads top) = true.
Proof.
  unfold wf_top. intros H. apply andb_prop in H as [H _]. apply andb_prop in H as [H1 H2]. split; [|exact H1].
  destruct top as [|it r]; [left; reflexivity|]. destruct (is_head it); [right; exact H2|left; reflexivity].
Qed.

Lemma sim_template q acc seen top h s : wf_top top = true -> bm_ok (h_blocks h) (acc ++ [top]) ->
  h_loaded h = seen -> h_top h = negb q ->
  omap (reset h) (tmpl_step top (emb h s)) = omap (emb h) (stmpl_step q acc seen top s).
Proof.
  intros Hw Hm Hl Ht. unfold tmpl_step, stmpl_step.
  destruct (wf_top_heads _ Hw) as [Hq Hnh].
  rewrite (heads_none h s top Hq). rewrite Hl.
  destruct (parent_of E (svars s) seen top None) as [[[n ptop]|]| | |] eqn:Ep; cbn [heads_result bind]; try reflexivity.
  - (* the template extends ptop *)
    cbn [fst snd]. unfold end_capture. cbn [st_ext outs bind snd].
    set (h' := mkHid (append_defs (blocks_of ptop) (h_blocks h)) (h_loaded h ++ [n]) (h_top h) (h_outs h) (h_outer h)).
    change (with_outs _ _) with (emb h' s).
    apply parent_of_some in Ep as [Ep|Ep]; [discriminate|].
    pose proof (wf_env_assoc _ _ _ Hwf Ep) as Hwp.
    assert (Hm' : bm_ok (h_blocks h') ((acc ++ [top]) ++ [ptop])) by (apply bm_ok_append; [apply wf_top_nodup; assumption|assumption]).
    assert (Hl' : h_loaded h' = seen ++ [n]) by (cbn; rewrite Hl; reflexivity).
    pose proof (HT q (acc ++ [top]) (seen ++ [n]) ptop h' s Hwp Hm' Hl' Ht) as Hcall.
    destruct (icl (TTemplate None ptop) (emb h' s)) as [st| | |]; destruct (scl (STemplate q (acc ++ [top]) (seen ++ [n]) ptop) s) as [s'| | |];
      cbn in Hcall; try discriminate; cbn; try assumption; try reflexivity.
    unfold reset, emb in Hcall. injection Hcall as Ho Hv Hd.
    unfold reset, emb. rewrite Ho, Hv, Hd. reflexivity.
  - (* the root of the chain *)
    assert (Hg : good h (acc ++ [top]) None) by (split; [exact Hm|exact I]).
    pose proof (sim_list true q (acc ++ [top]) None h Hg Ht (drop_heads top) s (fun _ => Hnh)) as Hlist.
    cbn [option_map] in Hlist. rewrite (slist_drop_heads q (acc ++ [top]) None top s). rewrite Hlist.
    destruct (slist E scl true q (acc ++ [top]) None (drop_heads top) s) as [s'| | |]; reflexivity.
Qed.
End Sim.

(* ------------------------------------------------------------------------------------ *)
(* 5. the model of the VM and the specification agree, for every amount of fuel           *)
(* ------------------------------------------------------------------------------------ *)
Definition P_body (E : env) (f : nat) : Prop :=
  forall q c cur its h s, good h c cur -> h_top h = negb q ->
  icall fixed_code None E f (TBody (option_map fst cur) its) (emb h s) = omap (emb h) (scall E f (SBody q c cur its) s).
Definition P_tmpl (E : env) (f : nat) : Prop :=
  forall q acc seen top h s, wf_top top = true -> bm_ok (h_blocks h) (acc ++ [top]) ->
  h_loaded h = seen -> h_top h = negb q ->
  omap (reset h) (icall fixed_code None E f (TTemplate None top) (emb h s)) = omap (emb h) (scall E f (STemplate q acc seen top) s).

Lemma sim_fuel E : wf_env E = true -> forall f, P_body E f /\ P_tmpl E f.
Proof.
  intros Hwf. induction f as [|f [IB IT]].
  - split; [intros q c cur its h s Hg Ht|intros q acc seen top h s H1 H2 H3 H4]; reflexivity.
  - split.
    + intros q c cur its h s Hg Ht. cbn [icall scall].
      rewrite (sim_list E _ _ Hwf (scall_bal E f) IB IT false q c cur h Hg Ht its s) by (intros; discriminate).
      destruct (slist E (scall E f) false q c cur its s); reflexivity.
    + intros q acc seen top h s H1 H2 H3 H4.
      exact (sim_template E _ _ Hwf (scall_bal E f) IB IT q acc seen top h s H1 H2 H3 H4).
Qed.

Lemma inherit_correct_proof : forall (E : env) (main : name) (ctx : frame) (fuel : nat),
  wf_env E = true -> render fixed_code None fuel E main ctx = srender fuel E main ctx.
Proof.
  intros E main ctx fuel Hwf. unfold render, srender.
  destruct (find_tmpl E main) as [[top|]| | |] eqn:Ea; try reflexivity.
  cbn [depth_ok].
  pose proof (wf_env_assoc _ _ _ Hwf Ea) as Hwt.
  set (h := mkHid (prepare (blocks_of top)) [] true [] 0).
  set (s := mkSst (mkVenv ctx [[]]) []).
  change (mkIst (prepare (blocks_of top)) [] [Some []] (mkVenv ctx [[]]) 0) with (emb h s).
  destruct (sim_fuel E Hwf fuel) as [_ IT].
  pose proof (IT false [] [] top h s Hwt (bm_ok_prepare _ (wf_top_nodup _ Hwt)) eq_refl eq_refl) as H.
  destruct (icall fixed_code None E fuel (TTemplate None top) (emb h s)) as [st|c| |];
    destruct (scall E fuel (STemplate false [] [] top) s) as [s'|c'| |]; cbn in H; try discriminate; try reflexivity.
  - unfold reset, emb in H. injection H as Ho Hv Hd. rewrite Ho. reflexivity.
  - inversion H; reflexivity.
Qed.

(* ------------------------------------------------------------------------------------ *)
(* 6. cycles, double extends, missing templates                                           *)
(* ------------------------------------------------------------------------------------ *)
(* every template extends (with a literal name) a template that exists: following the extends
   tags never reaches a root *)
Definition closed_env (E : env) : Prop :=
  forall n top, find_tmpl E n = Ok (Some top) -> exists p r ptop, top = IExtends (NLit p) :: r /\ find_tmpl E p = Ok (Some ptop).

Lemma parent_of_found E v seen : forall top x,
  parent_of E v seen top (Some x) = Err E_InvalidOperation \/ parent_of E v seen top (Some x) = Ok (Some x).
Proof.
  induction top as [|it r IH]; intros x; [right; reflexivity|].
  destruct it; try (right; reflexivity).
  - left; reflexivity.
  - cbn [parent_of]. destruct (truthy (lookup x0 v)); [left; reflexivity|apply IH].
Qed.

Lemma memZ_In k l : memZ k l = true <-> In k l.
Proof.
  induction l as [|x r IH]; cbn; [split; [discriminate|tauto]|].
  rewrite orb_true_iff, IH, Z.eqb_eq. split; intros [H|H]; auto.
Qed.

Lemma assoc_In_keys {A} k (l : list (name * A)) v : assoc k l = Some v -> In k (map fst l).
Proof.
  induction l as [|[k' v'] l IH]; cbn; [discriminate|].
  destruct (k =? k') eqn:Ek; [apply Z.eqb_eq in Ek; auto|auto].
Qed.

Lemma NoDup_snoc {A} (l : list A) x : NoDup l -> ~ In x l -> NoDup (l ++ [x]).
Proof.
  induction l as [|y l IH]; cbn; intros Hn Hx; [repeat constructor; auto|].
  inversion Hn; subst. constructor.
  - intros Hy. apply in_app_or in Hy as [Hy|[Hy|[]]]; [auto|subst; auto].
  - apply IH; auto.
Qed.

(* never a (truncated) success, whatever the fuel *)
Lemma cycle_never_ok E : closed_env E -> forall f q acc seen top s ptop0 p0 r0,
  top = IExtends (NLit p0) :: r0 -> find_tmpl E p0 = Ok (Some ptop0) ->
  forall s', scall E f (STemplate q acc seen top) s <> Ok s'.
Proof.
  intros Hc. induction f as [|f IH]; intros q acc seen top s ptop0 p0 r0 -> Hp s'; cbn [scall]; [discriminate|].
  cbn [parent_of eval_name bind]. destruct (memZ p0 seen); [discriminate|]. rewrite Hp. cbn [bind].
  destruct (parent_of_found E (svars s) seen r0 (p0, ptop0)) as [H|H]; rewrite H; cbn [bind]; [discriminate|].
  destruct (Hc _ _ Hp) as (p1 & r1 & ptop1 & Ht & Hp1).
  eapply IH; eassumption.
Qed.

(* with enough fuel (one unit per template of the environment) the error is reported *)
Lemma cycle_error E : closed_env E -> forall f q acc seen top s ptop0 p0 r0,
  top = IExtends (NLit p0) :: r0 -> find_tmpl E p0 = Ok (Some ptop0) ->
  NoDup seen -> incl seen (map fst E) -> (length E < f + length seen)%nat ->
  scall E f (STemplate q acc seen top) s = Err E_InvalidOperation.
Proof.
  intros Hc. induction f as [|f IH]; intros q acc seen top s ptop0 p0 r0 -> Hp Hnd Hin Hlen.
  - exfalso. pose proof (NoDup_incl_length Hnd Hin) as Hle. rewrite map_length in Hle. lia.
  - cbn [scall parent_of eval_name bind]. destruct (memZ p0 seen) eqn:Em; [reflexivity|]. rewrite Hp. cbn [bind].
    destruct (parent_of_found E (svars s) seen r0 (p0, ptop0)) as [H|H]; rewrite H; cbn [bind]; [reflexivity|].
    destruct (Hc _ _ Hp) as (p1 & r1 & ptop1 & Ht & Hp1).
    eapply IH; try eassumption.
    + apply NoDup_snoc; [assumption|]. intros Hx. apply memZ_In in Hx. congruence.
    + intros x Hx. apply in_app_or in Hx as [Hx|[Hx|[]]]; [auto|]. subst x.
      unfold find_tmpl in Hp. destruct (assoc p0 E) as [t0|] eqn:Eap; [|discriminate]. eapply assoc_In_keys; eassumption.
    + rewrite app_length. cbn. lia.
Qed.

Lemma extends_cycle_proof E main top ctx : wf_env E = true -> closed_env E -> find_tmpl E main = Ok (Some top) ->
  (forall fuel o, render fixed_code None fuel E main ctx <> Ok o) /\
  (forall fuel, (length E < fuel)%nat -> render fixed_code None fuel E main ctx = Err E_InvalidOperation).
Proof.
  intros Hwf Hc Ea.
  destruct (Hc _ _ Ea) as (p & r & ptop & Ht & Hp).
  split.
  - intros fuel o. rewrite inherit_correct_proof by assumption. unfold srender. rewrite Ea.
    destruct (scall E fuel (STemplate false [] [] top) _) as [s'| | |] eqn:Es; try discriminate.
    exfalso. eapply cycle_never_ok; eassumption.
  - intros fuel Hf. rewrite inherit_correct_proof by assumption. unfold srender. rewrite Ea.
    erewrite cycle_error; try eassumption; try reflexivity.
    + constructor.
    + intros x [].
    + cbn. lia.
Qed.

Lemma eval_name_cases e v : (exists n, eval_name e v = Ok n) \/ (exists c, eval_name e v = Err c).
Proof.
  destruct e as [n|x]; cbn; [eauto|].
  destruct (lookup x v) as [[|[|? [|? ?]]| |]|]; eauto.
Qed.

(* a second extends tag that is executed is an error, in any state *)
Lemma double_extends_proof Q lim E f cur e1 e2 rest st :
  exists c, icall Q lim E (S f) (TTemplate cur (IExtends e1 :: IExtends e2 :: rest)) st = Err c.
Proof.
  cbn [icall ilist istep]. unfold load_blocks at 1.
  destruct (eval_name_cases e1 (vars st)) as [[n En]|[c En]]; rewrite En; cbn [bind]; [|eauto].
  destruct (memZ n (loaded st)); [cbn [bind]; eauto|].
  unfold find_tmpl. destruct (assoc n E) as [[pt|c]|]; cbn [bind]; eauto.
  cbn [bind fst snd load_blocks]. eauto.
Qed.

(* extending a template that does not exist *)
Lemma missing_parent_proof Q lim E f cur p rest st : find_tmpl E p = Ok None -> memZ p (loaded st) = false ->
  icall Q lim E (S f) (TTemplate cur (IExtends (NLit p) :: rest)) st = Err E_TemplateNotFound.
Proof.
  intros Ha Hm. cbn [icall ilist istep load_blocks eval_name bind]. rewrite Hm, Ha. reflexivity.
Qed.

(* ------------------------------------------------------------------------------------ *)
(* 7. an import exposes exactly the top-level names, with the values the library assigned  *)
(* ------------------------------------------------------------------------------------ *)
Definition is_text (it : item) : bool := match it with IText _ => true | _ => false end.
Definition is_simple (it : item) : bool :=
  match it with
  | IText _ | ISet _ _ | IMacro _ _ => true
  | ISetBlock _ body => forallb is_text body
  | _ => false
  end.
Fixpoint texts_of (top : list item) : list Z :=
  match top with
  | [] => []
  | IText t :: r => t :: texts_of r
  | _ :: r => texts_of r
  end.
(* [rt], [below]: the root value and the scopes of the importing template (a macro encloses from them) *)
Definition export_of (rt : frame) (below : list frame) (f : frame) (it : item) : frame :=
  match it with
  | ISet x t => fset x (str_of t) f
  | IMacro g body => fset g (VMacro body (closure_of (enclosed body) (mkVenv rt (f :: below)))) f
  | ISetBlock x body => fset x (VStr (texts_of body)) f
  | _ => f
  end.
(* what a library of top-level text / set / set-block / macro statements defines, read off its text *)
Definition exports_of (rt : frame) (below : list frame) (top : list item) : frame := fold_left (export_of rt below) top [].
Definition defines (x : name) (it : item) : bool :=
  match it with ISet y _ | IMacro y _ | ISetBlock y _ => x =? y | _ => false end.

Lemma assoc_fset k x v f : assoc k (fset x v f) = if k =? x then Some v else assoc k f.
Proof.
  induction f as [|[k' v'] f IH]; cbn.
  - destruct (k =? x); reflexivity.
  - destruct (x <? k') eqn:E1; cbn.
    + destruct (k =? x); reflexivity.
    + destruct (x =? k') eqn:E2; cbn.
      * apply Z.eqb_eq in E2. subst k'. destruct (k =? x); reflexivity.
      * destruct (k =? k') eqn:E3.
        -- apply Z.eqb_eq in E3. subst k'. rewrite Z.eqb_sym, E2. reflexivity.
        -- exact IH.
Qed.

Lemma exports_keys_gen rt below x : forall top f,
  assoc x (fold_left (export_of rt below) top f) <> None <-> (assoc x f <> None \/ existsb (defines x) top = true).
Proof.
  induction top as [|it r IH]; intros f; cbn [fold_left existsb].
  - split; [auto|intros [H|H]; [auto|discriminate]].
  - rewrite IH, orb_true_iff.
    assert (Hsame : forall (A B : Prop), (A \/ B) <-> (A \/ (false = true \/ B))).
    { intros A B. split; [intros [H|H]; auto|intros [H|[H|H]]; auto; discriminate]. }
    assert (Hset : forall y v, (assoc x (fset y v f) <> None \/ existsb (defines x) r = true) <->
                               (assoc x f <> None \/ (x =? y) = true \/ existsb (defines x) r = true)).
    { intros y v. rewrite assoc_fset. destruct (x =? y); [|apply Hsame].
      split; intros _; [right; left; reflexivity|left; discriminate]. }
    destruct it; cbn [export_of defines]; try apply Hsame; apply Hset.
Qed.

Lemma exports_keys_proof rt below top x : assoc x (exports_of rt below top) <> None <-> existsb (defines x) top = true.
Proof. unfold exports_of. rewrite exports_keys_gen. cbn. split; [intros [H|H]; [congruence|auto]|auto]. Qed.

Lemma slist_texts E scl lvl0 q c cur : forall body s, forallb is_text body = true ->
  slist E scl lvl0 q c cur body s = Ok (mkSst (svars s) (sout s ++ texts_of body)).
Proof.
  induction body as [|it r IH]; intros s H; cbn [slist texts_of].
  - rewrite app_nil_r. destruct s; reflexivity.
  - cbn in H. apply andb_prop in H as [H1 H2]. destruct it; try discriminate. cbn [sstep bind].
    rewrite IH by assumption. cbn. rewrite <- app_assoc. reflexivity.
Qed.

Lemma slist_simple E f lvl0 q c cur : forall top s fr r, forallb is_simple top = true -> frames (svars s) = fr :: r ->
  slist E (scall E (S f)) lvl0 q c cur top s =
  Ok (mkSst (mkVenv (root (svars s)) (fold_left (export_of (root (svars s)) r) top fr :: r)) (sout s ++ texts_of top)).
Proof.
  induction top as [|it rest IH]; intros s fr r Hs Hf; cbn [slist fold_left texts_of].
  - rewrite app_nil_r, <- Hf. destruct s as [[rt fs] o]; reflexivity.
  - cbn [forallb] in Hs. apply andb_prop in Hs as [H1 H2]. destruct it; try discriminate; cbn [sstep bind export_of].
    + rewrite (IH _ fr r H2) by exact Hf. cbn. rewrite <- app_assoc. reflexivity.
    + unfold sset, store. rewrite Hf. cbn [bind]. rewrite (IH _ (fset x (str_of s0) fr) r H2) by reflexivity. reflexivity.
    + unfold sset, store. rewrite Hf. cbn [bind].
      erewrite (IH _ _ r H2) by reflexivity. cbn [svars root sout].
      assert (Hv : svars s = mkVenv (root (svars s)) (fr :: r)) by (rewrite <- Hf; destruct (svars s); reflexivity).
      rewrite <- Hv. reflexivity.
    + cbn [is_simple] in H1. cbn [scall]. rewrite slist_texts by exact H1. cbn [bind svars sout app].
      unfold sset, store. cbn [svars]. rewrite Hf. cbn [bind]. erewrite (IH _ _ r H2) by reflexivity. reflexivity.
Qed.

Lemma parent_of_simple E v seen top : forallb is_simple top = true -> parent_of E v seen top None = Ok None.
Proof. destruct top as [|it r]; [reflexivity|]. cbn. destruct it; try discriminate; reflexivity. Qed.

Lemma import_simple_spec E f lvl0 q c cur n m top s : find_tmpl E n = Ok (Some top) -> forallb is_simple top = true ->
  sstep E (scall E (S (S f))) lvl0 q c cur (IImport (NLit n) m) s =
  sset m (VModule (exports_of (root (svars s)) (frames (svars s)) top) (texts_of top)) s.
Proof.
  intros Ha Hs. cbn [sstep]. unfold import_scope, render_include. cbn [first_template eval_name bind svars spush].
  rewrite Ha. cbn [bind scall svars]. rewrite (parent_of_simple _ _ _ _ Hs). cbn [bind app].
  erewrite (slist_simple E f true false [top] None top _ [] (frames (svars s)) Hs) by reflexivity.
  cbn [wrap_err bind svars frames root sout app]. unfold exports_of.
  destruct s as [[rt fs] o]; reflexivity.
Qed.

Lemma import_exports_exact_proof E main n m top ctx fuel :
  wf_env E = true -> find_tmpl E main = Ok (Some [IImport (NLit n) m; IKeys m]) ->
  find_tmpl E n = Ok (Some top) -> forallb is_simple top = true ->
  render fixed_code None (S (S (S fuel))) E main ctx = Ok (key_tokens (exports_of ctx [[]] top)).
Proof.
  intros Hwf Hm Hn Hs. rewrite inherit_correct_proof by assumption. unfold srender. rewrite Hm.
  cbn [scall parent_of bind app slist].
  rewrite (import_simple_spec E fuel true false _ None n m top _ Hn Hs).
  unfold sset, store. cbn [svars frames bind sstep fset root sout].
  unfold lookup. cbn [frames lookup_frames assoc]. rewrite Z.eqb_refl. reflexivity.
Qed.

(* ... and the value found under an exported name is the value the library assigned *)
Lemma import_exports_values_proof E main n m x top ctx fuel :
  wf_env E = true -> find_tmpl E main = Ok (Some [IImport (NLit n) m; IPrintAttr m x]) ->
  find_tmpl E n = Ok (Some top) -> forallb is_simple top = true ->
  render fixed_code None (S (S (S fuel))) E main ctx = printed (assoc x (exports_of ctx [[]] top)).
Proof.
  intros Hwf Hm Hn Hs. rewrite inherit_correct_proof by assumption. unfold srender. rewrite Hm.
  cbn [scall parent_of bind app slist].
  rewrite (import_simple_spec E fuel true false _ None n m top _ Hn Hs).
  unfold sset, store. cbn [svars frames bind sstep fset root sout].
  unfold lookup. cbn [frames lookup_frames assoc]. rewrite Z.eqb_refl.
  destruct (printed (assoc x (exports_of ctx [[]] top))); reflexivity.
Qed.

(* ------------------------------------------------------------------------------------ *)
(* 8. the recursion limit only adds errors: a result of the model with a limit that is not a
      recursion-limit error is the result of the model without limit                        *)
(* ------------------------------------------------------------------------------------ *)
Definition flagged {A} (o : outcome A) : bool := match o with Err c => 100 <=? c | _ => false end.
Definition lrel {A} (o1 o2 : outcome A) : Prop := flagged o1 = true \/ o1 = o2.

Lemma lrel_refl {A} (o : outcome A) : lrel o o.
Proof. right; reflexivity. Qed.

Lemma lrel_bind {A B} (o1 o2 : outcome A) (k1 k2 : A -> outcome B) :
  lrel o1 o2 -> (forall a, lrel (k1 a) (k2 a)) -> lrel (bind o1 k1) (bind o2 k2).
Proof.
  intros [H|H] Hk.
  - left. destruct o1; try discriminate. exact H.
  - subst o2. destruct o1; cbn; try apply lrel_refl. apply Hk.
Qed.

Lemma lrel_wrap {A} k (o1 o2 : outcome A) : 0 <= k -> lrel o1 o2 -> lrel (wrap_err k o1) (wrap_err k o2).
Proof.
  intros Hk [H|H].
  - left. destruct o1; try discriminate. cbn [flagged wrap_err] in *. rewrite H. apply Z.leb_le. lia.
  - subst. apply lrel_refl.
Qed.

Lemma lrel_keep par (o1 o2 : outcome ist) : lrel o1 o2 -> lrel (keep par o1) (keep par o2).
Proof. intros H. unfold keep. apply lrel_bind; [exact H|intros; apply lrel_refl]. Qed.

Lemma lrel_push L f s : lrel (push_frame (Some L) f s) (push_frame None f s).
Proof. unfold push_frame. cbn [depth_ok]. destruct (_ <=? L); [apply lrel_refl|left; reflexivity]. Qed.

Lemma lrel_catch {A B} (o1 o2 : outcome A) (k : A -> outcome B) (w : outcome A -> outcome B) :
  (forall o, flagged o = true -> flagged (w o) = true) ->
  lrel o1 o2 ->
  lrel (match o1 with Ok a => k a | o => w o end) (match o2 with Ok a => k a | o => w o end).
Proof.
  intros Hw [H|H].
  - left. destruct o1; try discriminate. apply Hw. exact H.
  - subst. apply lrel_refl.
Qed.

Section Limit.
Variable Q : quirks.
Variable L : Z.
Variable E : env.
Variable call1 call2 : task -> ist -> outcome ist.
Hypothesis HC : forall t s, lrel (call1 t s) (call2 t s).

Ltac lb := first [apply lrel_refl | apply lrel_push | apply HC | (apply lrel_bind; [|intros]) | (apply lrel_keep) ].

Lemma lrel_call_block b s : lrel (call_block Q (Some L) call1 b s) (call_block Q None call2 b s).
Proof.
  unfold call_block. destruct (assoc b (blocks s)) as [bs|]; [|apply lrel_refl].
  destruct (nth_error (defs bs) (depth bs)) as [[req _]|]; [|apply lrel_refl].
  destruct (_ && _)%bool; [apply lrel_refl|].
  destruct (nth_error (defs bs) _) as [[_ body]|]; [|apply lrel_refl].
  repeat lb.
Qed.

Lemma lrel_super cur s : lrel (perform_super (Some L) call1 cur s) (perform_super None call2 cur s).
Proof.
  unfold perform_super. destruct cur as [b|]; [|apply lrel_refl].
  destruct (assoc b (blocks s)) as [bs|]; [|apply lrel_refl].
  destruct (_ <? _)%nat; [|apply lrel_refl].
  destruct (nth_error (defs bs) _) as [[_ body]|]; [|apply lrel_refl].
  apply lrel_bind; [apply lrel_push|]. intros s1.
  match goal with |- lrel (match call1 ?t ?x with _ => _ end) _ => destruct (HC t x) as [H|H] end.
  - left. destruct (call1 _ _); try discriminate. cbn [flagged wrap_err] in *. rewrite H. reflexivity.
  - rewrite H. apply lrel_refl.
Qed.

Lemma lrel_include cur es ign s : lrel (perform_include Q (Some L) E call1 cur es ign s) (perform_include Q None E call2 cur es ign s).
Proof.
  unfold perform_include. apply lrel_bind; [apply lrel_refl|]. intros [top|]; [|apply lrel_refl].
  cbn [depth_ok]. destruct (_ <=? L); [|left; reflexivity].
  match goal with |- lrel (match call1 ?t ?x with _ => _ end) _ => destruct (HC t x) as [H|H] end.
  - left. destruct (call1 _ _); try discriminate. cbn [flagged wrap_err] in *. rewrite H. reflexivity.
  - rewrite H. apply lrel_refl.
Qed.

Lemma lrel_call_value o arg s : lrel (call_value (Some L) call1 o arg s) (call_value None call2 o arg s).
Proof.
  unfold call_value. destruct o as [[| |body clo|]|]; try apply lrel_refl.
  unfold call_macro. cbn [depth_ok andb].
  destruct ((0 + Z.of_nat 2 <=? L) && _)%bool; [|left; reflexivity].
  repeat lb.
Qed.

Lemma lrel_for cur body : forall todo idx s, lrel (for_loop call1 cur body todo idx s) (for_loop call2 cur body todo idx s).
Proof.
  induction todo as [|t IH]; intros idx s; cbn [for_loop]; [apply lrel_refl|].
  destruct (frames (vars s)); [apply lrel_refl|]. apply lrel_bind; [apply HC|]. intros. apply IH.
Qed.

Lemma lrel_step lvl0 cur it par s :
  lrel (istep Q (Some L) E call1 lvl0 cur it par s) (istep Q None E call2 lvl0 cur it par s).
Proof.
  destruct it; cbn [istep]; try (apply lrel_refl).
  - (* IIf *) apply lrel_keep. destruct (truthy _); [apply HC|apply lrel_refl].
  - (* IFor *) apply lrel_keep. apply lrel_bind; [apply lrel_push|]. intros s1.
    apply lrel_bind; [apply lrel_for|]. intros; apply lrel_refl.
  - (* IBlock *) apply lrel_keep. destruct par; [apply lrel_refl|]. destruct (is_discarding s); [apply lrel_refl|apply lrel_call_block].
  - (* ISuper *) apply lrel_keep. apply lrel_super.
  - (* ISelf *) apply lrel_keep. destruct par; [apply lrel_refl|]. destruct (is_discarding s); [apply lrel_refl|apply lrel_call_block].
  - (* IInclude *) apply lrel_keep. apply lrel_include.
  - (* ICall *) apply lrel_keep. destruct (lookup f (vars s)); [apply lrel_call_value|apply lrel_refl].
  - (* IImport *) apply lrel_keep. apply lrel_bind; [apply lrel_push|]. intros s1.
    apply lrel_bind; [apply lrel_include|]. intros; apply lrel_refl.
  - (* IFrom *) apply lrel_keep. apply lrel_bind; [apply lrel_push|]. intros s1.
    apply lrel_bind; [apply lrel_include|]. intros; apply lrel_refl.
  - (* ICallAttr *) apply lrel_keep. destruct (lookup m (vars s)) as [[| | |kvs capm]|]; try apply lrel_refl.
    destruct (assoc f kvs); [apply lrel_call_value|apply lrel_refl].
  - (* IKeys *) apply lrel_keep. destruct (lookup m (vars s)) as [[| | |kvs capm]|]; try apply lrel_refl;
      (apply lrel_bind; [apply lrel_push|intros; apply lrel_refl]).
  - (* ISetBlock *) apply lrel_keep. apply lrel_bind; [apply HC|intros; apply lrel_refl].
Qed.

Lemma lrel_list lvl0 cur : forall its par s,
  lrel (ilist Q (Some L) E call1 lvl0 cur its par s) (ilist Q None E call2 lvl0 cur its par s).
Proof.
  induction its as [|it r IH]; intros par s; cbn [ilist]; [apply lrel_refl|].
  apply lrel_bind; [apply lrel_step|]. intros ps. apply IH.
Qed.
End Limit.

Lemma lrel_icall Q L E : forall f t s, lrel (icall Q (Some L) E f t s) (icall Q None E f t s).
Proof.
  induction f as [|f IH]; intros t s; cbn [icall]; [apply lrel_refl|].
  destruct t as [cur its|cur top].
  - apply lrel_bind; [apply lrel_list; exact IH|intros; apply lrel_refl].
  - apply lrel_bind; [apply lrel_list; exact IH|]. intros ps.
    destruct (fst ps); [|apply lrel_refl]. apply lrel_bind; [apply lrel_refl|]. intros cs. apply IH.
Qed.

Lemma limit_only_adds_errors_proof Q L fuel E main ctx :
  flagged (render Q (Some L) fuel E main ctx) = false ->
  render Q None fuel E main ctx = render Q (Some L) fuel E main ctx.
Proof.
  unfold render. destruct (find_tmpl E main) as [[top|]| | |]; try reflexivity. cbn [depth_ok].
  destruct (0 + Z.of_nat 1 <=? L); [|discriminate].
  destruct (lrel_icall Q L E fuel (TTemplate None top) (mkIst (prepare (blocks_of top)) [] [Some []] (mkVenv ctx [[]]) 0)) as [H|H].
  - destruct (icall Q (Some L) E fuel _ _); try discriminate. cbn in *. congruence.
  - rewrite H. reflexivity.
Qed.

(* ------------------------------------------------------------------------------------ *)
(* 9. a template that exists but does not load is not "missing"                           *)
(* ------------------------------------------------------------------------------------ *)
Lemma first_existing_unloadable E v c n rest : forall miss,
  (forall m, In m miss -> find_tmpl E m = Ok None) -> find_tmpl E n = Err c ->
  first_existing E v (map NLit miss ++ NLit n :: rest) = Err c.
Proof.
  induction miss as [|m miss IH]; intros Hm Hn; cbn [map app first_existing eval_name bind].
  - rewrite Hn. reflexivity.
  - rewrite (Hm m (or_introl eq_refl)). cbn [bind]. apply IH; [|assumption]. intros m' Hm'. apply Hm. right; assumption.
Qed.

Lemma unloadable_include_proof Q lim E call cur miss n rest ign st c :
  (forall m, In m miss -> find_tmpl E m = Ok None) -> find_tmpl E n = Err c ->
  perform_include Q lim E call cur (map NLit miss ++ NLit n :: rest) ign st = Err c.
Proof.
  intros Hm Hn. unfold perform_include. rewrite (first_existing_unloadable E _ c n rest miss Hm Hn). reflexivity.
Qed.

Lemma unloadable_parent_proof Q lim E f cur p rest st c : find_tmpl E p = Err c -> memZ p (loaded st) = false ->
  icall Q lim E (S f) (TTemplate cur (IExtends (NLit p) :: rest)) st = Err c.
Proof.
  intros Ha Hm. cbn [icall ilist istep load_blocks eval_name bind]. rewrite Hm, Ha. reflexivity.
Qed.

(* ------------------------------------------------------------------------------------ *)
(* 10. depth accounting is balanced: whatever a stream does - blocks, super(), includes that
       find their template, includes whose candidates are all missing, ignore missing, macros,
       imports - when it returns normally the charged depth is what it was before           *)
(* ------------------------------------------------------------------------------------ *)
Lemma emit_outer t s s' : emit t s = Ok s' -> outer s' = outer s.
Proof. unfold emit. destruct (outs s) as [|[buf|] r]; intros H; inversion H; reflexivity. Qed.
Lemma set_var_outer x v s s' : set_var x v s = Ok s' -> outer s' = outer s.
Proof. unfold set_var. destruct (store x v (vars s)); intros H; inversion H; reflexivity. Qed.
Lemma push_frame_outer lim f s s' : push_frame lim f s = Ok s' -> outer s' = outer s.
Proof. unfold push_frame. destruct (depth_ok _ _ _); intros H; inversion H; reflexivity. Qed.
Lemma pop_frame_outer s s' : pop_frame s = Ok s' -> outer s' = outer s.
Proof. unfold pop_frame. destruct (frames (vars s)); intros H; inversion H; reflexivity. Qed.
Lemma end_capture_outer s c s' : end_capture s = Ok (c, s') -> outer s' = outer s.
Proof. unfold end_capture. destruct (outs s) as [|c0 [|c1 r]]; intros H; inversion H; reflexivity. Qed.
Lemma store_all_outer l : forall s s', store_all l s = Ok s' -> outer s' = outer s.
Proof.
  induction l as [|[x v] l IH]; cbn; intros s s' H; [inversion H; reflexivity|].
  apply bind_ok in H as (a & H1 & H2). rewrite (IH _ _ H2). eapply set_var_outer; eassumption.
Qed.

Section DepthBalance.
Variable Q : quirks.
Variable lim : option Z.
Variable E : env.
Variable call : task -> ist -> outcome ist.
Hypothesis HCb : forall t s s', call t s = Ok s' -> outer s' = outer s.

Lemma call_block_outer b s s' : call_block Q lim call b s = Ok s' -> outer s' = outer s.
Proof.
  unfold call_block. destruct (assoc b (blocks s)) as [bs|]; [|discriminate].
  destruct (nth_error (defs bs) (depth bs)) as [[req _]|]; [|discriminate].
  destruct (_ && _)%bool; [discriminate|].
  destruct (nth_error (defs bs) _) as [[_ body]|]; [|discriminate].
  intros H. apply bind_ok in H as (s1 & H1 & H). apply bind_ok in H as (s2 & H2 & H).
  inversion H; subst; clear H. apply push_frame_outer in H1. apply HCb in H2. cbn in *. lia.
Qed.

Lemma perform_super_outer cur s s' : perform_super lim call cur s = Ok s' -> outer s' = outer s.
Proof.
  unfold perform_super. destruct cur as [b|]; [|discriminate].
  destruct (assoc b (blocks s)) as [bs|]; [|discriminate].
  destruct (_ <? _)%nat; [|discriminate].
  destruct (nth_error (defs bs) _) as [[_ body]|]; [|discriminate].
  intros H. apply bind_ok in H as (s1 & H1 & H). apply push_frame_outer in H1.
  destruct (call _ _) as [s2|c| |] eqn:Ec; cbn [wrap_err] in H; try discriminate.
  apply HCb in Ec. apply bind_ok in H as (s3 & H3 & H). inversion H; subst; clear H.
  apply pop_frame_outer in H3. cbn in *. lia.
Qed.

(* found, not found, ignore missing: the include gives back exactly what it charged *)
Lemma perform_include_outer cur es ign s s' : perform_include Q lim E call cur es ign s = Ok s' -> outer s' = outer s.
Proof.
  unfold perform_include. intros H. apply bind_ok in H as ([top|] & _ & H).
  - destruct (depth_ok _ _ _); [|discriminate].
    destruct (call _ _) as [s2|c| |] eqn:Ec; cbn [wrap_err] in H; try discriminate.
    apply HCb in Ec. inversion H; subst. cbn in *. lia.
  - destruct es; [inversion H; reflexivity|]. destruct ign; [inversion H; reflexivity|discriminate].
Qed.

Lemma call_value_outer o arg s s' : call_value lim call o arg s = Ok s' -> outer s' = outer s.
Proof.
  unfold call_value. destruct o as [[| |body clo|]|]; try discriminate.
  unfold call_macro. destruct (_ && _)%bool; [|discriminate].
  intros H. apply bind_ok in H as (s2 & _ & H). destruct (outs s2) as [|[cap|] [|? ?]]; try discriminate.
  eapply emit_outer; eassumption.
Qed.

Lemma for_loop_outer cur body : forall todo idx s s', for_loop call cur body todo idx s = Ok s' -> outer s' = outer s.
Proof.
  induction todo as [|t IH]; cbn; intros idx s s' H; [inversion H; reflexivity|].
  destruct (frames (vars s)); [discriminate|]. apply bind_ok in H as (a & H1 & H2).
  apply IH in H2. apply HCb in H1. cbn in H1. lia.
Qed.

Lemma keep_ok par (o : outcome ist) p s' : keep par o = Ok (p, s') -> o = Ok s'.
Proof. unfold keep. destruct o; cbn; intros H; inversion H; reflexivity. Qed.

Lemma istep_outer lvl0 cur it par s p s' : istep Q lim E call lvl0 cur it par s = Ok (p, s') -> outer s' = outer s.
Proof.
  destruct it; cbn [istep]; intros H.
  - apply keep_ok in H. eapply emit_outer; eassumption.
  - apply keep_ok in H. apply bind_ok in H as (t & _ & H). eapply emit_outer; eassumption.
  - apply keep_ok in H. eapply set_var_outer; eassumption.
  - apply keep_ok in H. destruct (truthy _); [eapply HCb; eassumption|inversion H; reflexivity].
  - apply keep_ok in H. apply bind_ok in H as (s1 & H1 & H). apply bind_ok in H as (s2 & H2 & H).
    apply push_frame_outer in H1. apply for_loop_outer in H2. apply pop_frame_outer in H. lia.
  - apply keep_ok in H. destruct par; [inversion H; reflexivity|].
    destruct (is_discarding s); [inversion H; reflexivity|eapply call_block_outer; eassumption].
  - apply keep_ok in H. eapply perform_super_outer; eassumption.
  - apply keep_ok in H. destruct par; [inversion H; reflexivity|].
    destruct (is_discarding s); [inversion H; reflexivity|eapply call_block_outer; eassumption].
  - destruct lvl0; [|discriminate]. unfold load_blocks in H. destruct par; [discriminate|].
    apply bind_ok in H as (n & _ & H). destruct (memZ n (loaded s)); [discriminate|].
    apply bind_ok in H as ([pt|] & _ & H); [|discriminate]. inversion H; reflexivity.
  - destruct lvl0; [|discriminate]. destruct (truthy _); [|inversion H; reflexivity].
    unfold load_blocks in H. destruct par; [discriminate|].
    apply bind_ok in H as (n & _ & H). destruct (memZ n (loaded s)); [discriminate|].
    apply bind_ok in H as ([pt|] & _ & H); [|discriminate]. inversion H; reflexivity.
  - apply keep_ok in H. eapply perform_include_outer; eassumption.
  - apply keep_ok in H. eapply set_var_outer; eassumption.
  - apply keep_ok in H. destruct (lookup f (vars s)); [eapply call_value_outer; eassumption|discriminate].
  - apply keep_ok in H. apply bind_ok in H as (s1 & H1 & H). apply bind_ok in H as (s2 & H2 & H).
    apply bind_ok in H as ([c3 s3] & H3 & H). apply bind_ok in H as (ex & _ & H). apply bind_ok in H as (s4 & H4 & H).
    apply push_frame_outer in H1. apply perform_include_outer in H2. apply end_capture_outer in H3.
    apply pop_frame_outer in H4. apply set_var_outer in H. cbn in H1. cbn [fst snd] in *. lia.
  - apply keep_ok in H. apply bind_ok in H as (s1 & H1 & H). apply bind_ok in H as (s2 & H2 & H).
    apply bind_ok in H as (s3 & H3 & H). apply bind_ok in H as (s4 & H4 & H). apply bind_ok in H as ([c5 s5] & H5 & H).
    inversion H; subst; clear H.
    apply push_frame_outer in H1. apply perform_include_outer in H2. apply pop_frame_outer in H3.
    apply store_all_outer in H4. apply end_capture_outer in H5. cbn in H1. lia.
  - apply keep_ok in H. destruct (lookup m (vars s)) as [[| | |kvs capm]|]; try discriminate; try (inversion H; reflexivity).
    apply bind_ok in H as (t & _ & H). eapply emit_outer; eassumption.
  - apply keep_ok in H. destruct (lookup m (vars s)) as [[| | |kvs capm]|]; try discriminate.
    destruct (assoc f kvs); [eapply call_value_outer; eassumption|discriminate].
  - apply keep_ok in H. destruct (lookup m (vars s)) as [[| | |kvs capm]|]; try discriminate.
    + apply bind_ok in H as (s1 & _ & H). inversion H; reflexivity.
    + apply bind_ok in H as (s1 & _ & H). eapply emit_outer; eassumption.
    + apply bind_ok in H as (s1 & _ & H). inversion H; reflexivity.
  - apply keep_ok in H. apply bind_ok in H as (s2 & H2 & H). apply bind_ok in H as ([c3 s3] & H3 & H).
    apply HCb in H2. apply end_capture_outer in H3. apply set_var_outer in H. cbn in H, H2. congruence.
Qed.

Lemma ilist_outer lvl0 cur : forall its par s p s', ilist Q lim E call lvl0 cur its par s = Ok (p, s') -> outer s' = outer s.
Proof.
  induction its as [|it r IH]; cbn; intros par s p s' H; [inversion H; reflexivity|].
  apply bind_ok in H as ([p1 s1] & H1 & H2). apply IH in H2. apply istep_outer in H1. cbn in H2. lia.
Qed.
End DepthBalance.

Lemma depth_balanced_proof Q lim E : forall f t s s', icall Q lim E f t s = Ok s' -> outer s' = outer s.
Proof.
  induction f as [|f IH]; intros t s s' H; cbn [icall] in H; [discriminate|].
  destruct t as [cur its|cur top].
  - apply bind_ok in H as ([p s1] & H1 & H). inversion H; subst. eapply ilist_outer; [exact IH|eassumption].
  - apply bind_ok in H as ([p s1] & H1 & H). apply (ilist_outer Q lim E _ IH) in H1. cbn [fst snd] in H.
    destruct p as [ptop|]; [|inversion H; subst; assumption].
    apply bind_ok in H as ([c2 s2] & H2 & H). apply end_capture_outer in H2. apply IH in H. cbn in H. lia.
Qed.

(* ------------------------------------------------------------------------------------ *)
(* 11. the record of extended templates (cycle detection) survives whatever a template does at
       its top level: bodies, includes, imports and macros leave it as it was, so one lap through
       a member of the chain adds exactly its parent                                          *)
(* ------------------------------------------------------------------------------------ *)
Lemma emit_loaded t s s' : emit t s = Ok s' -> loaded s' = loaded s.
Proof. unfold emit. destruct (outs s) as [|[buf|] r]; intros H; inversion H; reflexivity. Qed.
Lemma set_var_loaded x v s s' : set_var x v s = Ok s' -> loaded s' = loaded s.
Proof. unfold set_var. destruct (store x v (vars s)); intros H; inversion H; reflexivity. Qed.
Lemma push_frame_loaded lim f s s' : push_frame lim f s = Ok s' -> loaded s' = loaded s.
Proof. unfold push_frame. destruct (depth_ok _ _ _); intros H; inversion H; reflexivity. Qed.
Lemma pop_frame_loaded s s' : pop_frame s = Ok s' -> loaded s' = loaded s.
Proof. unfold pop_frame. destruct (frames (vars s)); intros H; inversion H; reflexivity. Qed.
Lemma end_capture_loaded s c s' : end_capture s = Ok (c, s') -> loaded s' = loaded s.
Proof. unfold end_capture. destruct (outs s) as [|c0 [|c1 r]]; intros H; inversion H; reflexivity. Qed.
Lemma store_all_loaded l : forall s s', store_all l s = Ok s' -> loaded s' = loaded s.
Proof.
  induction l as [|[x v] l IH]; cbn; intros s s' H; [inversion H; reflexivity|].
  apply bind_ok in H as (a & H1 & H2). rewrite (IH _ _ H2). eapply set_var_loaded; eassumption.
Qed.

(* an include (and so an import): on return the block table and the record are the includer's *)
Lemma include_keeps_record_proof Q lim E call cur es ign s s' :
  perform_include Q lim E call cur es ign s = Ok s' -> loaded s' = loaded s /\ blocks s' = blocks s.
Proof.
  unfold perform_include. intros H. apply bind_ok in H as ([top|] & _ & H).
  - destruct (depth_ok _ _ _); [|discriminate].
    destruct (call _ _) as [s2|c| |]; cbn [wrap_err] in H; try discriminate. inversion H; subst. split; reflexivity.
  - destruct es; [inversion H; split; reflexivity|]. destruct ign; [inversion H; split; reflexivity|discriminate].
Qed.

Section Record.
Variable Q : quirks.
Variable lim : option Z.
Variable E : env.
Variable call : task -> ist -> outcome ist.
(* bodies (blocks, loops, macros) leave the record alone; included templates may do what they want *)
Hypothesis HCr : forall cur its s s', call (TBody cur its) s = Ok s' -> loaded s' = loaded s.

Lemma call_block_loaded b s s' : call_block Q lim call b s = Ok s' -> loaded s' = loaded s.
Proof.
  unfold call_block. destruct (assoc b (blocks s)) as [bs|]; [|discriminate].
  destruct (nth_error (defs bs) (depth bs)) as [[req _]|]; [|discriminate].
  destruct (_ && _)%bool; [discriminate|].
  destruct (nth_error (defs bs) _) as [[_ body]|]; [|discriminate].
  intros H. apply bind_ok in H as (s1 & H1 & H). apply bind_ok in H as (s2 & H2 & H).
  inversion H; subst; clear H. apply push_frame_loaded in H1. apply HCr in H2. cbn in *. congruence.
Qed.

Lemma perform_super_loaded cur s s' : perform_super lim call cur s = Ok s' -> loaded s' = loaded s.
Proof.
  unfold perform_super. destruct cur as [b|]; [|discriminate].
  destruct (assoc b (blocks s)) as [bs|]; [|discriminate].
  destruct (_ <? _)%nat; [|discriminate].
  destruct (nth_error (defs bs) _) as [[_ body]|]; [|discriminate].
  intros H. apply bind_ok in H as (s1 & H1 & H). apply push_frame_loaded in H1.
  destruct (call _ _) as [s2|c| |] eqn:Ec; cbn [wrap_err] in H; try discriminate.
  apply HCr in Ec. apply bind_ok in H as (s3 & H3 & H). inversion H; subst; clear H.
  apply pop_frame_loaded in H3. cbn in *. congruence.
Qed.

Lemma call_value_loaded o arg s s' : call_value lim call o arg s = Ok s' -> loaded s' = loaded s.
Proof.
  unfold call_value. destruct o as [[| |body clo|]|]; try discriminate.
  unfold call_macro. destruct (_ && _)%bool; [|discriminate].
  intros H. apply bind_ok in H as (s2 & _ & H). destruct (outs s2) as [|[cap|] [|? ?]]; try discriminate.
  eapply emit_loaded; eassumption.
Qed.

Lemma for_loop_loaded cur body : forall todo idx s s', for_loop call cur body todo idx s = Ok s' -> loaded s' = loaded s.
Proof.
  induction todo as [|t IH]; cbn; intros idx s s' H; [inversion H; reflexivity|].
  destruct (frames (vars s)); [discriminate|]. apply bind_ok in H as (a & H1 & H2).
  apply IH in H2. apply HCr in H1. cbn in H1. congruence.
Qed.

(* a statement that is not an extends tag which gets executed: parent and record unchanged *)
Lemma istep_record lvl0 cur it par s p s' : is_head it = false ->
  istep Q lim E call lvl0 cur it par s = Ok (p, s') -> p = par /\ loaded s' = loaded s.
Proof.
  intros Hh. assert (Hk : forall o, keep par o = Ok (p, s') -> p = par /\ o = Ok s').
  { intros o. unfold keep. destruct o; cbn; intros H; inversion H; auto. }
  destruct it; try discriminate; cbn [istep]; intros H; apply Hk in H as [-> H]; (split; [reflexivity|]).
  - eapply emit_loaded; eassumption.
  - apply bind_ok in H as (t & _ & H). eapply emit_loaded; eassumption.
  - eapply set_var_loaded; eassumption.
  - destruct (truthy _); [eapply HCr; eassumption|inversion H; reflexivity].
  - apply bind_ok in H as (s1 & H1 & H). apply bind_ok in H as (s2 & H2 & H).
    apply push_frame_loaded in H1. apply for_loop_loaded in H2. apply pop_frame_loaded in H. congruence.
  - destruct par; [inversion H; reflexivity|].
    destruct (is_discarding s); [inversion H; reflexivity|eapply call_block_loaded; eassumption].
  - eapply perform_super_loaded; eassumption.
  - destruct par; [inversion H; reflexivity|].
    destruct (is_discarding s); [inversion H; reflexivity|eapply call_block_loaded; eassumption].
  - eapply include_keeps_record_proof; eassumption.
  - eapply set_var_loaded; eassumption.
  - destruct (lookup f (vars s)); [eapply call_value_loaded; eassumption|discriminate].
  - apply bind_ok in H as (s1 & H1 & H). apply bind_ok in H as (s2 & H2 & H).
    apply bind_ok in H as ([c3 s3] & H3 & H). apply bind_ok in H as (ex & _ & H). apply bind_ok in H as (s4 & H4 & H).
    apply push_frame_loaded in H1. apply include_keeps_record_proof in H2 as [H2 _]. apply end_capture_loaded in H3.
    apply pop_frame_loaded in H4. apply set_var_loaded in H. cbn in H1. cbn [fst snd] in *. congruence.
  - apply bind_ok in H as (s1 & H1 & H). apply bind_ok in H as (s2 & H2 & H).
    apply bind_ok in H as (s3 & H3 & H). apply bind_ok in H as (s4 & H4 & H). apply bind_ok in H as ([c5 s5] & H5 & H).
    inversion H; subst; clear H.
    apply push_frame_loaded in H1. apply include_keeps_record_proof in H2 as [H2 _]. apply pop_frame_loaded in H3.
    apply store_all_loaded in H4. apply end_capture_loaded in H5. cbn in H1. congruence.
  - destruct (lookup m (vars s)) as [[| | |kvs capm]|]; try discriminate; try (inversion H; reflexivity).
    apply bind_ok in H as (t & _ & H). eapply emit_loaded; eassumption.
  - destruct (lookup m (vars s)) as [[| | |kvs capm]|]; try discriminate.
    destruct (assoc f kvs); [eapply call_value_loaded; eassumption|discriminate].
  - destruct (lookup m (vars s)) as [[| | |kvs capm]|]; try discriminate.
    + apply bind_ok in H as (s1 & _ & H). inversion H; reflexivity.
    + apply bind_ok in H as (s1 & _ & H). eapply emit_loaded; eassumption.
    + apply bind_ok in H as (s1 & _ & H). inversion H; reflexivity.
  - apply bind_ok in H as (s2 & H2 & H). apply bind_ok in H as ([c3 s3] & H3 & H).
    apply HCr in H2. apply end_capture_loaded in H3. apply set_var_loaded in H. cbn in H, H2. congruence.
Qed.

(* an extends tag that gets executed while a parent is already stashed is an error; one that is not
   executed (false condition) changes nothing *)
Lemma istep_head_some lvl0 cur it ptop s p s' : is_head it = true ->
  istep Q lim E call lvl0 cur it (Some ptop) s = Ok (p, s') -> p = Some ptop /\ s' = s.
Proof.
  destruct it; try discriminate; intros _; cbn [istep]; destruct lvl0; try discriminate.
  destruct (truthy _); [discriminate|]. intros H; inversion H; auto.
Qed.

(* once a template has extended, the rest of its top level - whatever statements - keeps the stashed
   parent and the record *)
Lemma ilist_record_some lvl0 cur ptop : forall its s p s',
  ilist Q lim E call lvl0 cur its (Some ptop) s = Ok (p, s') -> p = Some ptop /\ loaded s' = loaded s.
Proof.
  induction its as [|it r IH]; cbn [ilist]; intros s p s' H; [inversion H; auto|].
  apply bind_ok in H as ([p1 s1] & H1 & H2). cbn [fst snd] in H2.
  destruct (is_head it) eqn:Eh.
  - apply istep_head_some in H1 as [-> ->]; [|assumption]. eapply IH; eassumption.
  - apply istep_record in H1 as [-> H1]; [|assumption]. apply IH in H2 as [-> H2]. split; [reflexivity|congruence].
Qed.
End Record.

Lemma body_keeps_record_proof Q lim E : forall f cur its s s',
  icall Q lim E f (TBody cur its) s = Ok s' -> loaded s' = loaded s.
Proof.
  induction f as [|f IH]; intros cur its s s' H; cbn [icall] in H; [discriminate|].
  apply bind_ok in H as ([p s1] & H1 & H). cbn [snd] in H.
  assert (Hl : loaded s1 = loaded s).
  { clear H. remember (@None (list item)) as par0 eqn:Ep0. clear Ep0. revert s p s1 par0 H1.
    induction its as [|it r IHl]; cbn [ilist]; intros s p s1 par0 H1; [inversion H1; reflexivity|].
    apply bind_ok in H1 as ([p1 s2] & Hs & Hr). cbn [fst snd] in Hr.
    destruct (is_head it) eqn:Eh.
    - destruct it; try discriminate; cbn [istep] in Hs; discriminate.
    - apply (istep_record Q lim E _ IH) in Hs as [-> Hs]; [|assumption]. apply IHl in Hr. congruence. }
  inversion H; subst. exact Hl.
Qed.

(* one lap: a template that starts with {% extends "p" %} (p exists, not yet extended) and then does
   anything at all at its top level ends that top level with p's body stashed as parent and with
   exactly p added to the record *)
Lemma lap_records_parent_proof Q lim E f cur p ptop rest s par' s' :
  find_tmpl E p = Ok (Some ptop) -> memZ p (loaded s) = false ->
  ilist Q lim E (icall Q lim E f) true cur (IExtends (NLit p) :: rest) None s = Ok (par', s') ->
  par' = Some ptop /\ loaded s' = loaded s ++ [p].
Proof.
  intros Hp Hm H. cbn [ilist istep load_blocks eval_name bind] in H. rewrite Hm, Hp in H. cbn [bind fst snd] in H.
  apply (ilist_record_some Q lim E _ (body_keeps_record_proof Q lim E f)) in H as [-> H]. split; [reflexivity|exact H].
Qed.

(* a chain in which every template extends an existing template never renders successfully -
   whatever else the templates do at their top level (includes, imports, macros, loops), for every
   variant of the code, with or without recursion limit, for every fuel *)
Definition all_extend (E : env) : Prop :=
  forall n top, find_tmpl E n = Ok (Some top) -> exists p r, top = IExtends (NLit p) :: r.

Lemma cycle_never_ok_general_proof Q lim E : all_extend E -> forall f cur top s p r,
  top = IExtends (NLit p) :: r -> forall s', icall Q lim E f (TTemplate cur top) s <> Ok s'.
Proof.
  intros Ha. induction f as [|f IH]; intros cur top s p r -> s' H; cbn [icall] in H; [discriminate|].
  apply bind_ok in H as ([par s1] & H1 & H). cbn [fst snd] in H.
  cbn [ilist istep load_blocks eval_name bind] in H1.
  destruct (memZ p (loaded s)); [discriminate|].
  destruct (find_tmpl E p) as [[ptop|]| | |] eqn:Ep; cbn [bind] in H1; try discriminate. cbn [fst snd] in H1.
  apply (ilist_record_some Q lim E _ (body_keeps_record_proof Q lim E f)) in H1 as [-> _].
  apply bind_ok in H as ([c2 s2] & _ & H). cbn [snd] in H.
  destruct (Ha _ _ Ep) as (p2 & r2 & ->). eapply IH; [reflexivity|eassumption].
Qed.
