(* Executable entry points of the C06 model and specification in the integer-list protocol
   (tools/props/C06.py encodes, prints and renders the same templates with the real engine).
   Decoders/encoders are unverified glue of the correspondence check.

   case:   qbits lim fuel main  nctx (x tok)*  ntemplates (name <items> | name -1 errorkind)*
   items:  k item*k        nexpr: 0 n | 1 x
   item:   0 s | 1 x | 2 x s | 3 x <items> | 4 n <items> | 5 b req <items> | 6 | 7 b | 8 <nexpr>
         | 9 x <nexpr> | 10 ign k <nexpr>*k | 11 f <items> | 12 f arg | 13 <nexpr> m
         | 14 <nexpr> k (x alias)*k | 15 m x | 16 m f arg | 17 m | 18 x <items>
   result: 0 k tok*k (rendered) | 1 code limit? (error kind) | 2 (panic) | 8 (out of fuel) | 9 (bad input) *)
From Coq Require Import String.
From MJ Require Import Common.Base C06.Lang C06.Model C06.Spec.

Definition dec_nexpr (l : list Z) : option (nexpr * list Z) :=
  match l with
  | 0 :: n :: r => Some (NLit n, r)
  | 1 :: x :: r => Some (NVar x, r)
  | _ => None
  end.
Fixpoint dec_nexprs (k : nat) (l : list Z) : option (list nexpr * list Z) :=
  match k with
  | O => Some ([], l)
  | S k' => match dec_nexpr l with
            | Some (e, l1) => match dec_nexprs k' l1 with Some (es, l2) => Some (e :: es, l2) | None => None end
            | None => None
            end
  end.
Fixpoint dec_pairs (k : nat) (l : list Z) : option (list (Z * Z) * list Z) :=
  match k, l with
  | O, _ => Some ([], l)
  | S k', a :: b :: r => match dec_pairs k' r with Some (ps, l2) => Some ((a, b) :: ps, l2) | None => None end
  | _, _ => None
  end.

Fixpoint dec_item (fuel : nat) (l : list Z) : option (item * list Z) :=
  match fuel with
  | O => None
  | S f =>
      let items := fix go (k : nat) (l : list Z) : option (list item * list Z) :=
        match k with
        | O => Some ([], l)
        | S k' => match dec_item f l with
                  | Some (it, l1) => match go k' l1 with Some (its, l2) => Some (it :: its, l2) | None => None end
                  | None => None
                  end
        end in
      let body (l : list Z) := match l with k :: r => items (Z.to_nat k) r | [] => None end in
      match l with
      | 0 :: s :: r => Some (IText s, r)
      | 1 :: x :: r => Some (IPrint x, r)
      | 2 :: x :: s :: r => Some (ISet x s, r)
      | 3 :: x :: r => match body r with Some (b, r2) => Some (IIf x b, r2) | None => None end
      | 4 :: n :: r => match body r with Some (b, r2) => Some (IFor (Z.to_nat n) b, r2) | None => None end
      | 5 :: b :: req :: r => match body r with Some (bd, r2) => Some (IBlock b (negb (req =? 0)) bd, r2) | None => None end
      | 6 :: r => Some (ISuper, r)
      | 7 :: b :: r => Some (ISelf b, r)
      | 8 :: r => match dec_nexpr r with Some (e, r2) => Some (IExtends e, r2) | None => None end
      | 9 :: x :: r => match dec_nexpr r with Some (e, r2) => Some (ICondExtends x e, r2) | None => None end
      | 10 :: ign :: k :: r => match dec_nexprs (Z.to_nat k) r with Some (es, r2) => Some (IInclude es (negb (ign =? 0)), r2) | None => None end
      | 11 :: fn :: r => match body r with Some (b, r2) => Some (IMacro fn b, r2) | None => None end
      | 12 :: fn :: arg :: r => Some (ICall fn arg, r)
      | 13 :: r => match dec_nexpr r with Some (e, m :: r2) => Some (IImport e m, r2) | _ => None end
      | 14 :: r => match dec_nexpr r with
                   | Some (e, k :: r2) => match dec_pairs (Z.to_nat k) r2 with Some (ps, r3) => Some (IFrom e ps, r3) | None => None end
                   | _ => None
                   end
      | 15 :: m :: x :: r => Some (IPrintAttr m x, r)
      | 16 :: m :: fn :: arg :: r => Some (ICallAttr m fn arg, r)
      | 17 :: m :: r => Some (IKeys m, r)
      | 18 :: x :: r => match body r with Some (b, r2) => Some (ISetBlock x b, r2) | None => None end
      | _ => None
      end
  end.
Fixpoint dec_items (fuel : nat) (k : nat) (l : list Z) : option (list item * list Z) :=
  match k with
  | O => Some ([], l)
  | S k' => match dec_item fuel l with
            | Some (it, l1) => match dec_items fuel k' l1 with Some (its, l2) => Some (it :: its, l2) | None => None end
            | None => None
            end
  end.
Fixpoint dec_templates (fuel : nat) (k : nat) (l : list Z) : option env :=
  match k, l with
  | O, [] => Some []
  | S k', n :: cnt :: r =>
      if cnt <? 0 then      (* n -1 code: a template that exists but fails to load with that error kind *)
        match r with
        | code :: r2 => match dec_templates fuel k' r2 with Some e => Some ((n, TBad code) :: e) | None => None end
        | [] => None
        end
      else match dec_items fuel (Z.to_nat cnt) r with
           | Some (its, r2) => match dec_templates fuel k' r2 with Some e => Some ((n, TGood its) :: e) | None => None end
           | None => None
           end
  | _, _ => None
  end.

Record rcase := mkCase { c_q : quirks; c_lim : option Z; c_fuel : nat; c_main : name; c_ctx : frame; c_env : env }.
Definition bit (q k : Z) : bool := Z.odd (q / 2 ^ k).
Definition dec_case (l : list Z) : option rcase :=
  match l with
  | q :: lim :: fuel :: main :: nctx :: r =>
      match dec_pairs (Z.to_nat nctx) r with
      | Some (ps, nt :: r2) =>
          match dec_templates (length r2) (Z.to_nat nt) r2 with
          | Some e => Some (mkCase (mkQuirks (bit q 0) (bit q 1) (bit q 2) (bit q 3))
                                   (if lim =? 0 then None else Some lim) (Z.to_nat fuel) main
                                   (fold_right (fun p f => fset (fst p) (str_of (snd p)) f) [] ps) e)
          | None => None
          end
      | _ => None
      end
  | _ => None
  end.

Definition enc (o : outcome (list Z)) : list Z :=
  match o with
  | Ok l => 0 :: lenZ l :: l
  | Err c => [1; c mod 100; c / 100]
  | Panic => [2]
  | OutOfGas => [8]
  end.

(* the model of the VM *)
Definition run (inp : list Z) : list Z :=
  match dec_case inp with
  | Some c => enc (render (c_q c) (c_lim c) (c_fuel c) (c_env c) (c_main c) (c_ctx c))
  | None => [9]
  end.
(* the specification *)
Definition spec (inp : list Z) : list Z :=
  match dec_case inp with
  | Some c => enc (srender (c_fuel c) (c_env c) (c_main c) (c_ctx c))
  | None => [9]
  end.
(* is the case inside the fragment the specification (and theorem inherit_correct) speaks about? *)
Definition wf (inp : list Z) : list Z :=
  match dec_case inp with
  | Some c => [if wf_env (c_env c) then 1 else 0]
  | None => [9]
  end.

Open Scope string_scope.
Definition runners : list (string * (list Z -> list Z)) :=
  [ ("c06", run); ("c06-spec", spec); ("c06-wf", wf) ].
