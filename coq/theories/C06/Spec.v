(* C06 -- the property as an executable oracle, written from the property text and the
   documentation (syntax.rs: extends / block / include / import), not from the VM.

   A template that extends another one contributes only its block definitions.  Following the
   extends tags from the rendered template gives the chain t0 .. tn (most derived first); what is
   rendered is the body of tn, where
     - a block tag or self.b() renders the FIRST definition of b along the chain,
     - super() inside the definition of b at level i renders the first definition of b at a
       level > i ("no parent block" when there is none),
     - a required block must have been overridden,
     - text outside blocks of t0 .. t(n-1) is dropped.
   Following extends fails for a missing template, for a template that was already extended
   (a cycle) and for a second extends tag in one template.  A template that exists but does not
   load (syntax error, failing loader) is not missing: whoever names it - render, extends,
   include (also in a list and with `ignore missing`), import - fails with its load error.
   An include renders the first existing template of its list - a chain of its own - with the
   includer's current variables; an import binds what the imported template defines at its top
   level ({% import %} renders it for that, {% from %} only evaluates its statements: no block
   is rendered and nothing is written - the flag [quiet] below).
   There is no recursion limit here: a render that recurses forever runs out of fuel. *)
From MJ Require Import Common.Base C06.Lang.

Record sst := mkSst { svars : venv; sout : list Z }.

Definition chain := list (list item).

(* the definition of block b in one template *)
Definition def_at (top : list item) (b : name) : option bdef := assoc b (blocks_of top).

(* first definition of b at a level >= [lvl] ([c] starts at level [lvl]) *)
Fixpoint first_def (c : chain) (b : name) (lvl : nat) : option (nat * bdef) :=
  match c with
  | [] => None
  | top :: r => match def_at top b with
                | Some d => Some (lvl, d)
                | None => first_def r b (S lvl)
                end
  end.
Definition first_def_from (c : chain) (b : name) (lvl : nat) : option (nat * bdef) :=
  first_def (skipn lvl c) b lvl.
Definition count_defs (c : chain) (b : name) : nat :=
  length (filter (fun top => match def_at top b with Some _ => true | None => false end) c).

Inductive stask :=
| SBody (quiet : bool) (c : chain) (cur : option (name * nat)) (its : list item)   (* a body inside chain c *)
| STemplate (quiet : bool) (acc : chain) (seen : list name) (top : list item).     (* a template; [acc] = the templates that led here *)

Definition semit (t : list Z) (s : sst) : sst := mkSst (svars s) (sout s ++ t).
Definition sset (x : name) (v : value) (s : sst) : outcome sst :=
  match store x v (svars s) with Some e => Ok (mkSst e (sout s)) | None => Panic end.
Definition spush (f : frame) (s : sst) : sst := mkSst (mkVenv (root (svars s)) (f :: frames (svars s))) (sout s).
Definition spop (s : sst) : outcome sst :=
  match frames (svars s) with
  | _ :: r => Ok (mkSst (mkVenv (root (svars s)) r) (sout s))
  | [] => Panic
  end.

Section Step.
Variable E : env.
Variable call : stask -> sst -> outcome sst.

(* a body in a scope of its own *)
Definition in_scope (t : stask) (s : sst) : outcome sst :=
  bind (call t (spush [] s)) spop.

Definition render_block (c : chain) (b : name) (s : sst) : outcome sst :=
  match first_def_from c b 0 with
  | None => Err E_UnknownBlock
  | Some (lvl, (req, body)) =>
      if ((count_defs c b =? 1)%nat && req)%bool then Err E_InvalidOperation
      else in_scope (SBody false c (Some (b, lvl)) body) s
  end.

Definition render_super (quiet : bool) (c : chain) (cur : option (name * nat)) (s : sst) : outcome sst :=
  match cur with
  | None => Err E_InvalidOperation
  | Some (b, lvl) =>
      match first_def_from c b (S lvl) with
      | None => Err E_InvalidOperation
      | Some (lvl', (_, body)) => wrap_err E_EvalBlock (in_scope (SBody quiet c (Some (b, lvl')) body) s)
      end
  end.

Fixpoint first_template (v : venv) (es : list nexpr) : outcome (option (list item)) :=
  match es with
  | [] => Ok None
  | e :: r => bind (eval_name e v) (fun n =>
              bind (find_tmpl E n) (fun o =>            (* a template that exists but does not load is not missing *)
              match o with
              | Some top => Ok (Some top)
              | None => first_template v r
              end))
  end.

Definition render_include (quiet : bool) (es : list nexpr) (ign : bool) (s : sst) : outcome sst :=
  bind (first_template (svars s) es) (fun found =>
  match found with
  | Some top => wrap_err E_BadInclude (call (STemplate quiet [] [] top) s)
  | None => match es with
            | _ :: _ => if ign then Ok s else Err E_TemplateNotFound
            | [] => Ok s
            end
  end).

(* a macro sees the render's root value, its argument and the variables it encloses (their values
   when it was declared); what it writes is its value *)
Definition smacro (c : chain) (body : list item) (clo : frame) (arg : Z) (s : sst) : outcome sst :=
  bind (call (SBody false c None body) (mkSst (mkVenv (root (svars s)) [[(v_param, str_of arg)]; clo]) []))
       (fun s2 => Ok (semit (sout s2) s)).
Definition scall_value (c : chain) (o : option value) (arg : Z) (s : sst) : outcome sst :=
  match o with
  | Some (VMacro body clo) => smacro c body clo arg s
  | _ => Err E_InvalidOperation                         (* not callable *)
  end.

Fixpoint sfor (quiet : bool) (c : chain) (cur : option (name * nat)) (body : list item) (todo idx : nat) (s : sst) : outcome sst :=
  match todo with
  | O => Ok s
  | S t =>
      match frames (svars s) with
      | _ :: r =>
          bind (call (SBody quiet c cur body) (mkSst (mkVenv (root (svars s)) ([(v_loop, VStr [tok_num idx])] :: r)) (sout s)))
               (sfor quiet c cur body t (S idx))
      | [] => Panic
      end
  end.

(* the imported template is rendered into a scope of its own; what that scope holds afterwards
   is what the template defined at its top level *)
Definition import_scope (quiet : bool) (e : nexpr) (s : sst) : outcome sst :=
  render_include quiet [e] false (spush [] s).

Fixpoint sstore_all (l : list (name * value)) (s : sst) : outcome sst :=
  match l with
  | [] => Ok s
  | (x, v) :: r => bind (sset x v s) (sstore_all r)
  end.

Fixpoint key_tokens (kvs : list (name * value)) : list Z :=
  match kvs with [] => [] | (k, _) :: r => k :: tok_comma :: key_tokens r end.

Definition sstep (lvl0 quiet : bool) (c : chain) (cur : option (name * nat)) (it : item) (s : sst) : outcome sst :=
  match it with
  | IText t => Ok (semit [t] s)
  | IPrint x => bind (printed (lookup x (svars s))) (fun t => Ok (semit t s))
  | ISet x t => sset x (str_of t) s
  | IIf x body => if truthy (lookup x (svars s)) then call (SBody quiet c cur body) s else Ok s
  | IFor n body => bind (sfor quiet c cur body n 0 (spush [] s)) spop
  | IBlock b _ _ | ISelf b => if quiet then Ok s else render_block c b s
  | ISuper => render_super quiet c cur s
  | IExtends _ | ICondExtends _ _ =>
      if lvl0 then Ok s                       (* followed when the chain was built *)
      else Err E_Unmodelled
  | IInclude es ign => render_include quiet es ign s
  | IMacro f body => sset f (VMacro body (closure_of (enclosed body) (svars s))) s
  | ICall f arg =>
      match lookup f (svars s) with
      | None => Err E_UnknownFunction
      | o => scall_value c o arg s
      end
  | IImport e m =>
      bind (import_scope false e (mkSst (svars s) [])) (fun s2 =>
      match frames (svars s2) with
      | exports :: r => sset m (VModule exports (sout s2)) (mkSst (mkVenv (root (svars s2)) r) (sout s))
      | [] => Panic
      end)
  | IFrom e xs =>
      bind (import_scope true e (mkSst (svars s) [])) (fun s2 =>
      match frames (svars s2) with
      | exports :: r =>
          let vals := map (fun xa => (snd xa, match assoc (fst xa) exports with Some v => v | None => VUndef end)) xs in
          sstore_all (rev vals) (mkSst (mkVenv (root (svars s2)) r) (sout s))
      | [] => Panic
      end)
  | IPrintAttr m x =>
      match lookup m (svars s) with
      | None | Some VUndef => Err E_UndefinedError
      | Some (VModule kvs _) => bind (printed (assoc x kvs)) (fun t => Ok (semit t s))
      | Some (VStr _) => Ok s
      | Some (VMacro _ _) => Err E_Unmodelled
      end
  | ICallAttr m f arg =>
      match lookup m (svars s) with
      | Some (VModule kvs _) =>
          match assoc f kvs with
          | None => Err E_UnknownMethod
          | o => scall_value c o arg s
          end
      | _ => Err E_Unmodelled
      end
  | IKeys m =>
      match lookup m (svars s) with
      | None | Some VUndef => Ok s
      | Some (VModule kvs _) => Ok (semit (key_tokens kvs) s)
      | Some _ => Err E_Unmodelled
      end
  | ISetBlock x body =>
      (* the body is rendered (not quietly: its text is the value) and bound to x *)
      bind (call (SBody false c cur body) (mkSst (svars s) [])) (fun s2 =>
      sset x (VStr (sout s2)) (mkSst (svars s2) (sout s)))
  end.

Fixpoint slist (lvl0 quiet : bool) (c : chain) (cur : option (name * nat)) (its : list item) (s : sst) : outcome sst :=
  match its with
  | [] => Ok s
  | it :: r => bind (sstep lvl0 quiet c cur it s) (slist lvl0 quiet c cur r)
  end.

(* the extends tags at the head of a template: which template does it extend? *)
Fixpoint parent_of (v : venv) (seen : list name) (top : list item) (found : option (name * list item))
  : outcome (option (name * list item)) :=
  let ext e r :=
    match found with
    | Some _ => Err E_InvalidOperation                          (* a second extends *)
    | None => bind (eval_name e v) (fun n =>
              if memZ n seen then Err E_InvalidOperation        (* a cycle *)
              else bind (find_tmpl E n) (fun o =>
                   match o with
                   | None => Err E_TemplateNotFound
                   | Some ptop => parent_of v seen r (Some (n, ptop))
                   end))
    end in
  match top with
  | IExtends e :: r => ext e r
  | ICondExtends x e :: r => if truthy (lookup x v) then ext e r else parent_of v seen r found
  | _ => Ok found
  end.
End Step.

Fixpoint scall (E : env) (fuel : nat) (t : stask) (s : sst) : outcome sst :=
  match fuel with
  | O => OutOfGas
  | S f =>
      match t with
      | SBody q c cur its => slist E (scall E f) false q c cur its s
      | STemplate q acc seen top =>
          bind (parent_of E (svars s) seen top None) (fun p =>
          match p with
          | None => slist E (scall E f) true q (acc ++ [top]) None top s
          | Some (n, ptop) => scall E f (STemplate q (acc ++ [top]) (seen ++ [n]) ptop) s
          end)
      end
  end.

Definition srender (fuel : nat) (E : env) (main : name) (ctx : frame) : outcome (list Z) :=
  match find_tmpl E main with
  | Err c => Err c
  | Panic => Panic
  | OutOfGas => OutOfGas
  | Ok None => Err E_TemplateNotFound
  | Ok (Some top) =>
      match scall E fuel (STemplate false [] [] top) (mkSst (mkVenv ctx [[]]) []) with
      | Ok s => Ok (sout s)
      | Err c => Err c
      | Panic => Panic
      | OutOfGas => OutOfGas
      end
  end.

(* ---- the part of the fragment the specification speaks about ---- *)
Definition is_head (it : item) : bool :=
  match it with IExtends _ | ICondExtends _ _ => true | _ => false end.
(* statements whose only effect is output *)
Definition is_quiet (it : item) : bool :=
  match it with IText _ | IBlock _ _ _ | ISelf _ => true | _ => false end.
Fixpoint drop_heads (top : list item) : list item :=
  match top with
  | it :: r => if is_head it then drop_heads r else top
  | [] => []
  end.
Fixpoint nodupZ (l : list Z) : bool :=
  match l with [] => true | x :: r => negb (memZ x r) && nodupZ r end.
(* extends tags come first; a template that has any of them consists of blocks and text besides;
   no block name is defined twice in a template *)
Definition wf_top (top : list item) : bool :=
  let rest := drop_heads top in
  forallb (fun it => negb (is_head it)) rest
  && (match top with it :: _ => if is_head it then forallb is_quiet rest else true | [] => true end)
  && nodupZ (map fst (blocks_of top)).
Definition wf_env (E : env) : bool :=
  forallb (fun nt => match snd nt with TGood top => wf_top top | TBad _ => true end) E.
