(* C07: the filter laws on values -- the comparators of the filters are total preorders on
   well-formed values (C07.Proofs), so the generic algebra of C07.Filters applies. *)
From Coq Require Import Sorting.Permutation.
From MJ Require Import Common.Base Common.ListLemmas C07.Model C07.Spec C07.Proofs C07.Filters.
Ltac Zify.zify_post_hook ::= Z.div_mod_to_equations.


(* ------------------------------------------------------------------ *)
(* comparators of the filters are total preorders on well-formed values *)
(* ------------------------------------------------------------------ *)
Lemma tbl_opp {A} (c : A -> A -> comparison) x y z : tbl c x y z -> tbl (fun a b => CompOpp (c a b)) x y z.
Proof.
  unfold tbl. intros (T1 & T2 & T3 & T4). repeat split; intros.
  - rewrite T1; auto. destruct (c x y); cbn in *; congruence.
  - rewrite T2; auto. destruct (c y z); cbn in *; congruence.
  - rewrite T4; auto; [destruct (c x y)|destruct (c y z)]; cbn in *; congruence.
  - rewrite T3; auto; [destruct (c x y)|destruct (c y z)]; cbn in *; congruence.
Qed.

Definition fold_body (a b : value) : comparison :=
  match a, b with
  | VStr _ x, VStr _ y => zlist_cmp (map ascii_lower x) (map ascii_lower y)
  | _, _ => vbody a b
  end.

Lemma cmp_helper_fold a b : cmp_helper false false a b = ranked kind_rank fold_body a b.
Proof.
  unfold cmp_helper, string_for_fold.
  destruct a; try (rewrite vcmp_eqn; unfold ranked; destruct (_ ?= _); reflexivity).
  destruct b; try (rewrite vcmp_eqn; unfold ranked; destruct (_ ?= _); reflexivity).
  reflexivity.
Qed.

Lemma vbody_tbl a b c : wfn a = true -> wfn b = true -> wfn c = true ->
  kind_rank a = kind_rank b -> kind_rank b = kind_rank c -> tbl vbody a b c.
Proof.
  intros Wa Wb Wc R1 R2. pose proof (vcmp_tbl_n a b c Wa Wb Wc) as T.
  apply (tbl_ext _ vcmp); auto; rewrite vcmp_eqn; unfold ranked.
  - rewrite R1, Z.compare_refl. reflexivity.
  - rewrite R2, Z.compare_refl. reflexivity.
  - rewrite R1, R2, Z.compare_refl. reflexivity.
Qed.

Lemma fold_body_tbl a b c : wfn a = true -> wfn b = true -> wfn c = true ->
  kind_rank a = kind_rank b -> kind_rank b = kind_rank c -> tbl fold_body a b c.
Proof.
  intros Wa Wb Wc R1 R2.
  destruct a; try (destruct b; try discriminate R1; destruct c; try discriminate R2; apply (vbody_tbl _ _ _ Wa Wb Wc R1 R2)).
  destruct b; try discriminate R1; destruct c; try discriminate R2.
  apply (tbl_ext _ (fun a b => zlist_cmp (map ascii_lower (match a with VStr _ s => s | _ => [] end))
                                         (map ascii_lower (match b with VStr _ s => s | _ => [] end)))); try reflexivity.
  apply zlist_tbl.
Qed.

Lemma cmp_helper_tbl cs rev a b c : wfn a = true -> wfn b = true -> wfn c = true -> tbl (cmp_helper cs rev) a b c.
Proof.
  intros Wa Wb Wc.
  assert (T : tbl (cmp_helper cs false) a b c).
  { destruct cs.
    - apply (tbl_ext _ vcmp); try reflexivity. apply vcmp_tbl_n; auto.
    - apply (tbl_ext _ (ranked kind_rank fold_body)); try apply cmp_helper_fold.
      apply ranked_tbl. intros. apply fold_body_tbl; auto. }
  destruct rev; [|exact T].
  apply (tbl_ext _ (fun a b => CompOpp (cmp_helper cs false a b))); try (unfold cmp_helper; reflexivity).
  apply tbl_opp. exact T.
Qed.

Lemma cmp_helper_anti cs rev a b : wfn a = true -> wfn b = true ->
  cmp_helper cs rev b a = CompOpp (cmp_helper cs rev a b).
Proof.
  intros Wa Wb.
  assert (T : cmp_helper cs false b a = CompOpp (cmp_helper cs false a b)).
  { destruct cs.
    - apply vcmp_anti_n; auto.
    - unfold cmp_helper, string_for_fold. destruct a; try (apply vcmp_anti_n; auto); destruct b; try (apply vcmp_anti_n; auto).
      apply zlist_anti. }
  destruct rev; [|exact T]. unfold cmp_helper in *. rewrite T. reflexivity.
Qed.

(* ------------------------------------------------------------------ *)
(* keys stay well formed                                               *)
(* ------------------------------------------------------------------ *)
Lemma str_lookup_wf key kvs v : Forall (fun x => wfn x = true) (flat_pairs kvs) -> str_lookup key kvs = Some v -> wfn v = true.
Proof.
  induction kvs as [|[k x] r IH]; cbn; intros W E; [discriminate|].
  apply Forall_cons_iff in W. destruct W as [Wk W]. apply Forall_cons_iff in W. destruct W as [Wx W].
  destruct k; auto. destruct (zlist_eqb s key); auto. injection E as <-. exact Wx.
Qed.

Lemma get_path_or_default_wf key d v : wfn v = true -> wfn d = true -> wfn (get_path_or_default key d v) = true.
Proof.
  intros Wv Wd. unfold get_path_or_default, get_attr.
  destruct v; auto. destruct (str_lookup key kvs) eqn:E; auto.
  pose proof (str_lookup_wf key kvs v (wfn_items (VMap kvs) Wv) E) as W. destruct v; auto.
Qed.

Lemma unique_key_wf cs attr v : wfn v = true -> wfn (unique_key cs attr v) = true.
Proof.
  intros Wv. unfold unique_key.
  assert (W : wfn (match attr with Some key => get_path_or_default key VUndef v | None => v end) = true).
  { destruct attr; auto. apply get_path_or_default_wf; auto. }
  destruct cs; auto. destruct (string_for_fold _); auto.
Qed.

Lemma iter_items_wf v items : wfn v = true -> iter_items v = Ok items -> Forall (fun x => wfn x = true) items.
Proof.
  intros W E. destruct v; cbn in E; try discriminate E; injection E as <-; try constructor.
  - induction s; constructor; auto.
  - apply (wfn_items (VSeq vs) W).
  - apply (wfn_items (VTuple vs) W).
  - apply (wfn_items (VIter sh vs) W).
  - pose proof (wfn_items (VMap kvs) W) as H. cbn [items_of] in H.
    induction kvs as [|[k x] r IH]; cbn; [constructor|].
    cbn [flat_pairs] in H. apply Forall_cons_iff in H. destruct H as [Hk H]. apply Forall_cons_iff in H. destruct H as [_ H].
    constructor; auto. apply IH; auto.
    cbn [wfn] in W |- *. apply andb_prop in W. apply W.
Qed.

Definition WF (v : value) : Prop := wfn v = true.

Lemma sort_cmp_tbl cs rev attr a b c : WF a -> WF b -> WF c -> tbl (sort_cmp cs rev attr) a b c.
Proof.
  intros Wa Wb Wc. unfold sort_cmp. destruct attr as [key|].
  - apply (cmp_helper_tbl cs rev (get_path_or_default key VUndef a) (get_path_or_default key VUndef b) (get_path_or_default key VUndef c));
      apply get_path_or_default_wf; auto.
  - apply cmp_helper_tbl; auto.
Qed.

Lemma sort_cmp_anti cs rev attr a b : WF a -> WF b -> sort_cmp cs rev attr b a = CompOpp (sort_cmp cs rev attr a b).
Proof.
  intros Wa Wb. unfold sort_cmp. destruct attr as [key|]; apply cmp_helper_anti; auto; apply get_path_or_default_wf; auto.
Qed.

Theorem sort_law_values cs rev attr v items : wfn v = true -> iter_items v = Ok items ->
  exists out, f_sort cs rev attr v = Ok (VSeq out) /\ SortedStablePerm (sort_cmp cs rev attr) items out.
Proof.
  intros W E. unfold f_sort. rewrite E. cbn [bind]. eexists; split; [reflexivity|].
  apply (sort_law WF); [intros; apply sort_cmp_anti; auto|intros; apply sort_cmp_tbl; auto|].
  apply (iter_items_wf v); auto.
Qed.

(* reverse=true sorts by the reversed comparison: descending, and (by the same theorem) still stable *)
Lemma sort_cmp_reverse cs attr a b : sort_cmp cs true attr a b = CompOpp (sort_cmp cs false attr a b).
Proof. unfold sort_cmp, cmp_helper. destruct attr; reflexivity. Qed.

Theorem unique_law_values cs attr v items : wfn v = true -> iter_items v = Ok items ->
  exists out, f_unique cs attr v = Ok (VSeq out) /\ UniqueLaw vcmp (unique_key cs attr) items out.
Proof.
  intros W E. unfold f_unique. rewrite E. cbn [bind]. eexists; split; [reflexivity|].
  apply (unique_law WF);
    first [ apply (iter_items_wf v); auto; fail
          | intros; apply vcmp_anti_n; auto; fail
          | intros; apply vcmp_tbl_n; auto; fail
          | intros; apply unique_key_wf; auto ].
Qed.

Theorem groupby_law_values cs key dflt v items : wfn v = true -> wfn dflt = true -> iter_items v = Ok items ->
  exists groups, f_groupby cs key dflt v = Ok (VSeq (map (fun g => VSeq [fst g; VIter LzUnsized (snd g)]) groups)) /\
                 GroupLaw (cmp_helper cs false) (get_path_or_default key dflt) items groups.
Proof.
  intros W Wd E. unfold f_groupby. rewrite E. cbn [bind]. eexists; split; [reflexivity|].
  apply (group_law WF); [intros; apply cmp_helper_anti; auto|intros; apply cmp_helper_tbl; auto|intros; apply get_path_or_default_wf; auto|].
  apply (iter_items_wf v); auto.
Qed.

Theorem batch_law_values count fill v items : iter_items v = Ok items ->
  (count = 0 -> f_batch count fill v = Err E_InvalidOperation) /\
  (0 < count ->
     (exists runs, f_batch count fill v = Ok (VSeq (map VSeq runs)) /\ BatchLaw count fill items runs) \/
     (f_batch count fill v = Err E_InvalidOperation /\ fill <> None /\ 100000 < batch_missing count items)).
Proof.
  intros E. unfold f_batch. split.
  - intros ->. reflexivity.
  - intros Hc. replace (count =? 0) with false by lia. rewrite E. cbn [bind].
    destruct fill as [f|].
    + destruct (100000 <? batch_missing count items) eqn:M.
      * right. repeat split; [congruence|lia].
      * left. eexists; split; [reflexivity|]. apply batch_of_law. exact Hc.
    + left. eexists; split; [reflexivity|]. apply batch_of_law. exact Hc.
Qed.

Theorem slice_law_values count fill v items : iter_items v = Ok items ->
  (count = 0 \/ 100000 < count -> f_slice count fill v = Err E_InvalidOperation) /\
  (0 < count <= 100000 -> exists runs, f_slice count fill v = Ok (VSeq (map VSeq runs)) /\ SliceLaw count fill items runs).
Proof.
  intros E. unfold f_slice. split.
  - intros [-> | H]; [reflexivity|]. replace (count =? 0) with false by lia. replace (100000 <? count) with true by lia. reflexivity.
  - intros Hc. replace (count =? 0) with false by lia. replace (100000 <? count) with false by lia.
    rewrite E. cbn [bind]. eexists; split; [reflexivity|].
    apply slice_of_law. lia.
Qed.

Theorem min_max_values v items : wfn v = true -> iter_items v = Ok items ->
  exists mn mx, f_min v = Ok mn /\ f_max v = Ok mx /\
    (items = [] -> mn = VUndef /\ mx = VUndef) /\
    (items <> [] -> IsMin vcmp items mn /\ IsMax vcmp items mx).
Proof.
  intros W E. unfold f_min, f_max. rewrite E. cbn [bind].
  pose proof (iter_items_wf v items W E) as Wi.
  eexists; eexists; split; [reflexivity|]. split; [reflexivity|]. split.
  - intros ->. split; reflexivity.
  - intros NE. destruct items as [|x r]; [congruence|].
    destruct (min_of vcmp (x :: r)) eqn:M1; [|discriminate M1]. destruct (max_of vcmp (x :: r)) eqn:M2; [|discriminate M2].
    split.
    + apply (min_of_spec WF vcmp); auto; [intros; apply vcmp_anti_n; auto|intros; apply vcmp_tbl_n; auto].
    + apply (max_of_spec WF vcmp); auto; [intros; apply vcmp_anti_n; auto|intros; apply vcmp_tbl_n; auto].
Qed.

(* reverse: the items in reverse order; applying it twice gives the original items back.
   Known finding: objects enumerated by Enumerator::RevIter (shape LzRev). *)
Definition KnownRev (v : value) : Prop := match v with VIter LzRev _ => True | _ => False end.

Definition rev_items (v : value) : option (list value) :=
  match v with
  | VSeq xs | VTuple xs | VIter _ xs => Some xs
  | VMap kvs => Some (map fst kvs)
  | _ => None
  end.

Theorem reverse_involutive_values v r : ~ KnownRev v -> f_reverse v = Ok r ->
  match rev_items v with
  | Some xs => r = VIter LzSized (rev xs) /\ f_reverse r = Ok (VIter LzSized xs)
  | None => f_reverse r = Ok v
  end.
Proof.
  intros NK E. destruct v; cbn in E; try discriminate E; try (injection E as <-); cbn [rev_items f_reverse];
    rewrite ?rev_involutive; auto.
  destruct sh; try (exfalso; apply NK; exact I); injection E as <-; cbn; rewrite rev_involutive; auto.
Qed.

Lemma safe_bind {A B} (o : outcome A) (f : A -> outcome B) : safe o -> (forall a, safe (f a)) -> safe (bind o f).
Proof. destruct o; cbn; auto. Qed.

Lemma safe_ok {A} (a : A) : safe (Ok a). Proof. exact I. Qed.
Lemma safe_err {A} c : safe (@Err A c). Proof. exact I. Qed.

Lemma safe_iter v : safe (iter_items v).
Proof. destruct v; exact I. Qed.

Lemma safe_reverse v : safe (f_reverse v).
Proof. destruct v; try exact I. destruct sh; exact I. Qed.

Theorem filters_no_panic :
  (forall cs rev attr v, safe (f_sort cs rev attr v)) /\
  (forall cs attr v, safe (f_unique cs attr v)) /\
  (forall cs key d v, safe (f_groupby cs key d v)) /\
  (forall count fill v, safe (f_batch count fill v)) /\
  (forall count fill v, safe (f_slice count fill v)) /\
  (forall v, safe (f_reverse v)) /\
  (forall v, safe (f_min v)) /\
  (forall v, safe (f_max v)) /\
  (forall v, safe (f_last v)).
Proof.
  repeat split; intros;
    unfold f_sort, f_unique, f_groupby, f_batch, f_slice, f_min, f_max;
    try (destruct (count =? 0); [exact I|]);
    try (destruct (100000 <? count); [exact I|]);
    try (apply safe_bind; [apply safe_iter|intros; try exact I; destruct fill; try exact I; destruct (100000 <? _); exact I]);
    try apply safe_reverse.
  unfold f_last. destruct v; try exact I;
    try (apply safe_bind; [apply safe_reverse|intros; apply safe_bind; [apply safe_iter|intros; exact I]]).
  destruct (forallb _ _); exact I.
Qed.

(* ------------------------------------------------------------------ *)
(* dictsort / items                                                    *)
(* ------------------------------------------------------------------ *)
Definition WFP (p : value * value) : Prop := wfn (fst p) = true /\ wfn (snd p) = true.

Lemma wfn_map_pairs kvs : wfn (VMap kvs) = true -> Forall WFP kvs.
Proof.
  cbn [wfn]. induction kvs as [|[k x] r IH]; intros H; constructor.
  - apply andb_prop in H. destruct H as [H _]. apply andb_prop in H. exact H.
  - apply IH. apply andb_prop in H. apply H.
Qed.

Theorem dictsort_law_values by_value cs rev v :
  match v with
  | VMap kvs => wfn v = true ->
      exists out, f_dictsort by_value cs rev v = Ok (VSeq (map pair_value out)) /\
                  SortedStablePerm (dictsort_cmp by_value cs rev) kvs out
  | _ => f_dictsort by_value cs rev v = Err E_InvalidOperation
  end.
Proof.
  destruct v; try reflexivity. intros W. cbn [f_dictsort]. eexists; split; [reflexivity|].
  apply (sort_law WFP).
  - intros a b [A1 A2] [B1 B2]. unfold dictsort_cmp. destruct by_value; apply cmp_helper_anti; auto.
  - intros a b c [A1 A2] [B1 B2] [C1 C2]. unfold dictsort_cmp. destruct by_value.
    + apply (cmp_helper_tbl cs rev (snd a) (snd b) (snd c)); auto.
    + apply (cmp_helper_tbl cs rev (fst a) (fst b) (fst c)); auto.
  - apply wfn_map_pairs. exact W.
Qed.

Theorem items_values v :
  match v with
  | VMap kvs => f_items v = Ok (VIter LzSized (map pair_value kvs))
  | _ => f_items v = Err E_InvalidOperation
  end.
Proof. destruct v; reflexivity. Qed.

(* ------------------------------------------------------------------ *)
(* select / reject                                                     *)
(* ------------------------------------------------------------------ *)
Section Partition.
  Context {A : Type}.
  Variable p : A -> bool.

  Lemma filter_subseq (l : list A) : Subseq (filter p l) l.
  Proof. induction l as [|x r IH]; cbn; [constructor|]. destruct (p x); [apply Subseq_take|apply Subseq_skip]; auto. Qed.

  Lemma filter_perm (l : list A) : Permutation l (filter p l ++ filter (fun x => negb (p x)) l).
  Proof.
    induction l as [|x r IH]; cbn; auto. destruct (p x); cbn.
    - apply perm_skip. exact IH.
    - eapply perm_trans; [apply perm_skip; exact IH|]. apply Permutation_middle.
  Qed.

  Lemma filter_all (l : list A) : Forall (fun x => p x = true) (filter p l).
  Proof. apply Forall_forall. intros x H. apply filter_In in H. apply H. Qed.
End Partition.

(* select and reject split the items into those that are true and those that are not,
   each in input order *)
Theorem select_reject_values v items : iter_items v = Ok items ->
  exists sel rej, f_select false v = Ok (VSeq sel) /\ f_select true v = Ok (VSeq rej) /\
    Subseq sel items /\ Subseq rej items /\
    Forall (fun x => is_true x = true) sel /\ Forall (fun x => is_true x = false) rej /\
    Permutation items (sel ++ rej).
Proof.
  intros E. unfold f_select. rewrite E. cbn [bind].
  exists (filter is_true items), (filter (fun x => negb (is_true x)) items).
  assert (E1 : forall l, filter (fun x => negb (Bool.eqb (is_true x) false)) l = filter is_true l).
  { intros l. apply filter_ext. intros a. destruct (is_true a); reflexivity. }
  assert (E2 : forall l, filter (fun x => negb (Bool.eqb (is_true x) true)) l = filter (fun x => negb (is_true x)) l).
  { intros l. apply filter_ext. intros a. destruct (is_true a); reflexivity. }
  rewrite E1, E2. repeat split.
  - apply filter_subseq.
  - apply filter_subseq.
  - apply filter_all.
  - eapply Forall_impl; [|apply (filter_all (fun x => negb (is_true x)))]. cbn. intros a H. destruct (is_true a); auto; discriminate.
  - apply filter_perm.
Qed.

(* ------------------------------------------------------------------ *)
(* map(attribute=..)                                                   *)
(* ------------------------------------------------------------------ *)
Lemma map_attr_go_ok key dflt items out : map_attr_go key dflt items = Ok out ->
  out = map (get_path_or_default key dflt) items.
Proof.
  revert out. induction items as [|x r IH]; intros out E; cbn [map_attr_go] in E.
  - injection E as <-. reflexivity.
  - cbn [map]. unfold get_path_or_default at 1. destruct (get_attr key x) as [a|].
    + destruct (map_attr_go key dflt r) as [rest| | |]; try discriminate E. cbn [bind] in E. injection E as <-.
      rewrite (IH rest eq_refl). destruct a; reflexivity.
    + destruct dflt; try discriminate E;
        (destruct (map_attr_go key _ r) as [rest| | |]; try discriminate E; cbn [bind] in E; injection E as <-;
         rewrite (IH rest eq_refl); reflexivity).
Qed.

Lemma map_attr_go_err key dflt items c : map_attr_go key dflt items = Err c ->
  c = E_UndefinedError /\ dflt = VUndef /\ In VUndef items.
Proof.
  induction items as [|x r IH]; cbn [map_attr_go]; [discriminate|]. intros G.
  assert (REC : forall d (f : list value -> outcome (list value)), bind (map_attr_go key d r) f = Err c -> (forall rest, f rest <> Err c) -> map_attr_go key d r = Err c).
  { intros d f H NF. destruct (map_attr_go key d r); cbn [bind] in H; try discriminate H; auto. exfalso. eapply NF; eauto. }
  destruct (get_attr key x) as [a|] eqn:GA.
  - apply REC in G; [|intros; discriminate]. destruct (IH G) as (H1 & H2 & H3). repeat split; auto. right; auto.
  - assert (x = VUndef) by (destruct x; cbn in GA; try discriminate GA; reflexivity). subst x.
    destruct dflt; try (injection G as <-; repeat split; auto; left; reflexivity);
      (apply REC in G; [|intros; discriminate]; destruct (IH G) as (H1 & H2 & H3); discriminate H2).
Qed.

Lemma map_attr_go_safe key dflt items : safe (map_attr_go key dflt items).
Proof.
  induction items as [|x r IH]; cbn [map_attr_go]; [exact I|].
  destruct (get_attr key x); [|destruct dflt; try exact I];
    destruct (map_attr_go key _ r); cbn [bind] in *; auto.
Qed.

(* map is pointwise (the attribute of every item, the default where there is none); it fails
   exactly when an item has no attributes at all (an undefined item) and no default is given *)
Theorem map_attr_values key dflt v items : iter_items v = Ok items ->
  (f_map_attr key dflt v = Ok (VSeq (map (get_path_or_default key dflt) items))) \/
  (f_map_attr key dflt v = Err E_UndefinedError /\ dflt = VUndef /\ In VUndef items).
Proof.
  intros E. unfold f_map_attr. rewrite E. cbn [bind]. clear E.
  pose proof (map_attr_go_safe key dflt items) as S.
  destruct (map_attr_go key dflt items) as [out|c| |] eqn:G; try (destruct S).
  - left. rewrite (map_attr_go_ok _ _ _ _ G). reflexivity.
  - right. destruct (map_attr_go_err _ _ _ _ G) as (-> & H2 & H3). auto.
Qed.

(* ------------------------------------------------------------------ *)
(* sum                                                                 *)
(* ------------------------------------------------------------------ *)

Lemma lenZ_cons' {A} (x : A) l : lenZ (x :: l) = lenZ l + 1.
Proof. unfold lenZ. cbn [length]. lia. Qed.

Lemma sum_go_exact items : forall acc, Forall is_i64_int items ->
  Z.abs acc + lenZ items * 2 ^ 63 <= 2 ^ 126 -> sum_go acc items = Ok (acc + zsum items).
Proof.
  induction items as [|x r IH]; intros acc F B; cbn [sum_go zsum fold_right].
  - f_equal. lia.
  - apply Forall_cons_iff in F. destruct F as [Fx Fr]. destruct x; cbn in Fx; try contradiction. cbn [int_of].
    rewrite lenZ_cons' in B. assert (0 <= lenZ r) by (unfold lenZ; lia).
    unfold i64_min, i64_max in Fx.
    assert (I1 : in_i128 z = true) by (unfold in_i128, i128_min, i128_max; lia).
    assert (I2 : in_i128 (acc + z) = true) by (unfold in_i128, i128_min, i128_max; lia).
    rewrite I1, I2. cbn [negb]. rewrite IH; auto; [f_equal; fold (zsum r); lia|lia].
Qed.

Lemma zsum_cons x l : zsum (x :: l) = int_of x + zsum l.
Proof. reflexivity. Qed.

Lemma zsum_app a b : zsum (a ++ b) = zsum a + zsum b.
Proof. induction a as [|x r IH]; cbn [app]; [reflexivity|]. rewrite !zsum_cons, IH. lia. Qed.

Lemma zsum_perm a b : Permutation a b -> zsum a = zsum b.
Proof. induction 1; rewrite ?zsum_cons in *; lia. Qed.

(* the sum of a list of (fewer than 2^63) i64 integers is their exact mathematical sum: no
   overflow, no dependence on the order of the items *)
Theorem sum_exact_values v items : iter_items v = Ok items -> Forall is_i64_int items -> lenZ items < 2 ^ 62 ->
  f_sum v = Ok (VInt W_I128 (zsum items)).
Proof.
  intros E F L. unfold f_sum. rewrite E. cbn [bind]. rewrite sum_go_exact; auto.
  cbn. assert (0 <= lenZ items) by (unfold lenZ; lia). lia.
Qed.

(* ------------------------------------------------------------------ *)
(* join                                                                *)
(* ------------------------------------------------------------------ *)


Lemma join_go_rest d items parts : rendered items = Some parts ->
  join_go d false items = Some (concat (map (fun p => d ++ p) parts)).
Proof.
  revert parts. induction items as [|x r IH]; intros parts E; cbn [rendered fold_right] in E.
  - injection E as <-. reflexivity.
  - fold (rendered r) in E. cbn [join_go]. destruct (render x) as [s|]; [|discriminate E].
    destruct (rendered r) as [ps|]; [|discriminate E]. injection E as <-.
    rewrite (IH ps eq_refl). cbn. rewrite <- app_assoc. reflexivity.
Qed.

Lemma intercalate_cons d p r : intercalate d (p :: r) = p ++ concat (map (fun q => d ++ q) r).
Proof.
  revert p. induction r as [|q r IH]; intros p; [cbn; rewrite app_nil_r; reflexivity|].
  change (intercalate d (p :: q :: r)) with (p ++ d ++ intercalate d (q :: r)).
  rewrite IH. cbn [map concat]. rewrite <- app_assoc. reflexivity.
Qed.

(* join is the concatenation of the rendered items with the joiner between neighbours *)
Theorem join_values d v items parts : iter_items v = Ok items -> rendered items = Some parts ->
  f_join d v = Ok (VStr false (intercalate d parts)).
Proof.
  intros E R. unfold f_join. rewrite E. cbn [bind].
  destruct items as [|x r]; cbn [rendered fold_right] in R.
  - injection R as <-. reflexivity.
  - fold (rendered r) in R. cbn [join_go]. destruct (render x) as [s|]; [|discriminate R].
    destruct (rendered r) as [ps|] eqn:RR; [|discriminate R]. injection R as <-.
    rewrite (join_go_rest d r ps RR). cbn [app]. rewrite intercalate_cons. reflexivity.
Qed.

(* joining a concatenation: join the halves and put one joiner between them *)
Theorem intercalate_app d a b : a <> [] -> b <> [] ->
  intercalate d (a ++ b) = intercalate d a ++ d ++ intercalate d b.
Proof.
  intros Ha Hb. destruct a as [|p a]; [congruence|]. destruct b as [|q b]; [congruence|].
  cbn [app]. rewrite !intercalate_cons. rewrite map_app, concat_app. cbn [map concat].
  rewrite <- !app_assoc. reflexivity.
Qed.

Theorem more_filters_no_panic :
  (forall by_value cs rev v, safe (f_dictsort by_value cs rev v)) /\
  (forall v, safe (f_items v)) /\
  (forall key d v, safe (f_map_attr key d v)) /\
  (forall inv v, safe (f_select inv v)).
Proof.
  repeat split; intros.
  - destruct v; exact I.
  - destruct v; exact I.
  - unfold f_map_attr. apply safe_bind; [apply safe_iter|]. intros items.
    apply safe_bind; [apply map_attr_go_safe|intros; exact I].
  - unfold f_select. apply safe_bind; [apply safe_iter|intros; exact I].
Qed.
