(* C07: the filter laws on values -- the comparators of the filters are total preorders on
   well-formed values (C07.Proofs), so the generic algebra of C07.Filters applies. *)
From Coq Require Import Sorting.Permutation.
From MJ Require Import Common.Base Common.ListLemmas C07.Model C07.Spec C07.Proofs C07.Filters.


(* ------------------------------------------------------------------ *)
(* comparators of the filters are total preorders on well-formed values *)
(* ------------------------------------------------------------------ *)
Lemma tbl_opp {A} (c : A -> A -> comparison) x y z : tbl c x y z -> tbl (fun a b => CompOpp (c a b)) x y z.
Proof.
  unfold tbl. intros (T1 & T2 & T3 & T4). repeat split; intros.
  - rewrite T1; auto. destruct (c x y); cbn in *; congruence.
  - rewrite T2; auto. destruct (c y z); cbn in *; congruence.
  - rewrite T4; auto; [destruct (c x y)|destruct (c y z)]; cbn in *; congruence.
  - rewrite T3; auto; [destruct (c x y)|destruct (c y z)]; cbn in *; congruence.
Qed.

Definition fold_body (a b : value) : comparison :=
  match a, b with
  | VStr _ x, VStr _ y => zlist_cmp (map ascii_lower x) (map ascii_lower y)
  | _, _ => vbody a b
  end.

Lemma cmp_helper_fold a b : cmp_helper false false a b = ranked kind_rank fold_body a b.
Proof.
  unfold cmp_helper, string_for_fold.
  destruct a; try (rewrite vcmp_eqn; unfold ranked; destruct (_ ?= _); reflexivity).
  destruct b; try (rewrite vcmp_eqn; unfold ranked; destruct (_ ?= _); reflexivity).
  reflexivity.
Qed.

Lemma vbody_tbl a b c : wf a = true -> wf b = true -> wf c = true ->
  kind_rank a = kind_rank b -> kind_rank b = kind_rank c -> tbl vbody a b c.
Proof.
  intros Wa Wb Wc R1 R2. pose proof (vcmp_tbl a b c Wa Wb Wc) as T.
  apply (tbl_ext _ vcmp); auto; rewrite vcmp_eqn; unfold ranked.
  - rewrite R1, Z.compare_refl. reflexivity.
  - rewrite R2, Z.compare_refl. reflexivity.
  - rewrite R1, R2, Z.compare_refl. reflexivity.
Qed.

Lemma fold_body_tbl a b c : wf a = true -> wf b = true -> wf c = true ->
  kind_rank a = kind_rank b -> kind_rank b = kind_rank c -> tbl fold_body a b c.
Proof.
  intros Wa Wb Wc R1 R2.
  destruct a; try (destruct b; try discriminate R1; destruct c; try discriminate R2; apply (vbody_tbl _ _ _ Wa Wb Wc R1 R2)).
  destruct b; try discriminate R1; destruct c; try discriminate R2.
  apply (tbl_ext _ (fun a b => zlist_cmp (map ascii_lower (match a with VStr _ s => s | _ => [] end))
                                         (map ascii_lower (match b with VStr _ s => s | _ => [] end)))); try reflexivity.
  apply zlist_tbl.
Qed.

Lemma cmp_helper_tbl cs rev a b c : wf a = true -> wf b = true -> wf c = true -> tbl (cmp_helper cs rev) a b c.
Proof.
  intros Wa Wb Wc.
  assert (T : tbl (cmp_helper cs false) a b c).
  { destruct cs.
    - apply (tbl_ext _ vcmp); try reflexivity. apply vcmp_tbl; auto.
    - apply (tbl_ext _ (ranked kind_rank fold_body)); try apply cmp_helper_fold.
      apply ranked_tbl. intros. apply fold_body_tbl; auto. }
  destruct rev; [|exact T].
  apply (tbl_ext _ (fun a b => CompOpp (cmp_helper cs false a b))); try (unfold cmp_helper; reflexivity).
  apply tbl_opp. exact T.
Qed.

Lemma cmp_helper_anti cs rev a b : wf a = true -> wf b = true ->
  cmp_helper cs rev b a = CompOpp (cmp_helper cs rev a b).
Proof.
  intros Wa Wb.
  assert (T : cmp_helper cs false b a = CompOpp (cmp_helper cs false a b)).
  { destruct cs.
    - apply vcmp_anti; auto.
    - unfold cmp_helper, string_for_fold. destruct a; try (apply vcmp_anti; auto); destruct b; try (apply vcmp_anti; auto).
      apply zlist_anti. }
  destruct rev; [|exact T]. unfold cmp_helper in *. rewrite T. reflexivity.
Qed.

(* ------------------------------------------------------------------ *)
(* keys stay well formed                                               *)
(* ------------------------------------------------------------------ *)
Lemma str_lookup_wf key kvs v : Forall (fun x => wf x = true) (flat_pairs kvs) -> str_lookup key kvs = Some v -> wf v = true.
Proof.
  induction kvs as [|[k x] r IH]; cbn; intros W E; [discriminate|].
  apply Forall_cons_iff in W. destruct W as [Wk W]. apply Forall_cons_iff in W. destruct W as [Wx W].
  destruct k; auto. destruct (zlist_eqb s key); auto. injection E as <-. exact Wx.
Qed.

Lemma get_path_or_default_wf key d v : wf v = true -> wf d = true -> wf (get_path_or_default key d v) = true.
Proof.
  intros Wv Wd. unfold get_path_or_default, get_attr.
  destruct v; auto. destruct (str_lookup key kvs) eqn:E; auto.
  pose proof (str_lookup_wf key kvs v (wf_items (VMap kvs) Wv) E) as W. destruct v; auto.
Qed.

Lemma unique_key_wf cs attr v : wf v = true -> wf (unique_key cs attr v) = true.
Proof.
  intros Wv. unfold unique_key.
  assert (W : wf (match attr with Some key => get_path_or_default key VUndef v | None => v end) = true).
  { destruct attr; auto. apply get_path_or_default_wf; auto. }
  destruct cs; auto. destruct (string_for_fold _); auto.
Qed.

Lemma iter_items_wf v items : wf v = true -> iter_items v = Ok items -> Forall (fun x => wf x = true) items.
Proof.
  intros W E. destruct v; cbn in E; try discriminate E; injection E as <-; try constructor.
  - induction s; constructor; auto.
  - apply (wf_items (VSeq vs) W).
  - apply (wf_items (VTuple vs) W).
  - apply (wf_items (VIter sh vs) W).
  - pose proof (wf_items (VMap kvs) W) as H. cbn [items_of] in H.
    induction kvs as [|[k x] r IH]; cbn; [constructor|].
    cbn [flat_pairs] in H. apply Forall_cons_iff in H. destruct H as [Hk H]. apply Forall_cons_iff in H. destruct H as [_ H].
    constructor; auto. apply IH; auto.
    cbn [wf] in W |- *. apply andb_prop in W. destruct W as [W1 W2]. apply andb_prop in W2. destruct W2 as [_ W2].
    rewrite W2, andb_true_r. destruct r as [|[k2 x2] r]; [reflexivity|]. cbn [keys_ascending] in W1. apply andb_prop in W1. apply W1.
Qed.

Definition WF (v : value) : Prop := wf v = true.

Lemma sort_cmp_tbl cs rev attr a b c : WF a -> WF b -> WF c -> tbl (sort_cmp cs rev attr) a b c.
Proof.
  intros Wa Wb Wc. unfold sort_cmp. destruct attr as [key|].
  - apply (cmp_helper_tbl cs rev (get_path_or_default key VUndef a) (get_path_or_default key VUndef b) (get_path_or_default key VUndef c));
      apply get_path_or_default_wf; auto.
  - apply cmp_helper_tbl; auto.
Qed.

Lemma sort_cmp_anti cs rev attr a b : WF a -> WF b -> sort_cmp cs rev attr b a = CompOpp (sort_cmp cs rev attr a b).
Proof.
  intros Wa Wb. unfold sort_cmp. destruct attr as [key|]; apply cmp_helper_anti; auto; apply get_path_or_default_wf; auto.
Qed.

Theorem sort_law_values cs rev attr v items : wf v = true -> iter_items v = Ok items ->
  exists out, f_sort cs rev attr v = Ok (VSeq out) /\ SortedStablePerm (sort_cmp cs rev attr) items out.
Proof.
  intros W E. unfold f_sort. rewrite E. cbn [bind]. eexists; split; [reflexivity|].
  apply (sort_law WF); [intros; apply sort_cmp_anti; auto|intros; apply sort_cmp_tbl; auto|].
  apply (iter_items_wf v); auto.
Qed.

(* reverse=true sorts by the reversed comparison: descending, and (by the same theorem) still stable *)
Lemma sort_cmp_reverse cs attr a b : sort_cmp cs true attr a b = CompOpp (sort_cmp cs false attr a b).
Proof. unfold sort_cmp, cmp_helper. destruct attr; reflexivity. Qed.

Theorem unique_law_values cs attr v items : wf v = true -> iter_items v = Ok items ->
  exists out, f_unique cs attr v = Ok (VSeq out) /\ UniqueLaw vcmp (unique_key cs attr) items out.
Proof.
  intros W E. unfold f_unique. rewrite E. cbn [bind]. eexists; split; [reflexivity|].
  apply (unique_law WF);
    first [ apply (iter_items_wf v); auto; fail
          | intros; apply vcmp_anti; auto; fail
          | intros; apply vcmp_tbl; auto; fail
          | intros; apply unique_key_wf; auto ].
Qed.

Theorem groupby_law_values cs key dflt v items : wf v = true -> wf dflt = true -> iter_items v = Ok items ->
  exists groups, f_groupby cs key dflt v = Ok (VSeq (map (fun g => VSeq [fst g; VIter LzUnsized (snd g)]) groups)) /\
                 GroupLaw (cmp_helper cs false) (get_path_or_default key dflt) items groups.
Proof.
  intros W Wd E. unfold f_groupby. rewrite E. cbn [bind]. eexists; split; [reflexivity|].
  apply (group_law WF); [intros; apply cmp_helper_anti; auto|intros; apply cmp_helper_tbl; auto|intros; apply get_path_or_default_wf; auto|].
  apply (iter_items_wf v); auto.
Qed.

Theorem batch_law_values count fill v items : iter_items v = Ok items ->
  (count = 0 -> f_batch count fill v = Err E_InvalidOperation) /\
  (0 < count -> exists runs, f_batch count fill v = Ok (VSeq (map VSeq runs)) /\ BatchLaw count fill items runs).
Proof.
  intros E. unfold f_batch. split.
  - intros ->. reflexivity.
  - intros Hc. replace (count =? 0) with false by lia. rewrite E. cbn [bind]. eexists; split; [reflexivity|].
    apply batch_of_law. exact Hc.
Qed.

Theorem slice_law_values count fill v items : iter_items v = Ok items ->
  (count = 0 -> f_slice count fill v = Err E_InvalidOperation) /\
  (0 < count -> exists runs, f_slice count fill v = Ok (VSeq (map VSeq runs)) /\ SliceLaw count fill items runs).
Proof.
  intros E. unfold f_slice. split.
  - intros ->. reflexivity.
  - intros Hc. replace (count =? 0) with false by lia. rewrite E. cbn [bind]. eexists; split; [reflexivity|].
    apply slice_of_law. exact Hc.
Qed.

Theorem min_max_values v items : wf v = true -> iter_items v = Ok items ->
  exists mn mx, f_min v = Ok mn /\ f_max v = Ok mx /\
    (items = [] -> mn = VUndef /\ mx = VUndef) /\
    (items <> [] -> IsMin vcmp items mn /\ IsMax vcmp items mx).
Proof.
  intros W E. unfold f_min, f_max. rewrite E. cbn [bind].
  pose proof (iter_items_wf v items W E) as Wi.
  eexists; eexists; split; [reflexivity|]. split; [reflexivity|]. split.
  - intros ->. split; reflexivity.
  - intros NE. destruct items as [|x r]; [congruence|].
    destruct (min_of vcmp (x :: r)) eqn:M1; [|discriminate M1]. destruct (max_of vcmp (x :: r)) eqn:M2; [|discriminate M2].
    split.
    + apply (min_of_spec WF vcmp); auto; [intros; apply vcmp_anti; auto|intros; apply vcmp_tbl; auto].
    + apply (max_of_spec WF vcmp); auto; [intros; apply vcmp_anti; auto|intros; apply vcmp_tbl; auto].
Qed.

(* reverse: the items in reverse order; applying it twice gives the original items back.
   Known finding: objects enumerated by Enumerator::RevIter (shape LzRev). *)
Definition KnownRev (v : value) : Prop := match v with VIter LzRev _ => True | _ => False end.

Definition rev_items (v : value) : option (list value) :=
  match v with
  | VSeq xs | VTuple xs | VIter _ xs => Some xs
  | VMap kvs => Some (map fst kvs)
  | _ => None
  end.

Theorem reverse_involutive_values v r : ~ KnownRev v -> f_reverse v = Ok r ->
  match rev_items v with
  | Some xs => r = VIter LzUnsized (rev xs) /\ f_reverse r = Ok (VIter LzUnsized xs)
  | None => f_reverse r = Ok v
  end.
Proof.
  intros NK E. destruct v; cbn in E; try discriminate E; try (injection E as <-); cbn [rev_items f_reverse];
    rewrite ?rev_involutive; auto.
  destruct sh; try (exfalso; apply NK; exact I); injection E as <-; cbn; rewrite rev_involutive; auto.
Qed.

Lemma safe_bind {A B} (o : outcome A) (f : A -> outcome B) : safe o -> (forall a, safe (f a)) -> safe (bind o f).
Proof. destruct o; cbn; auto. Qed.

Lemma safe_ok {A} (a : A) : safe (Ok a). Proof. exact I. Qed.
Lemma safe_err {A} c : safe (@Err A c). Proof. exact I. Qed.

Lemma safe_iter v : safe (iter_items v).
Proof. destruct v; exact I. Qed.

Lemma safe_reverse v : safe (f_reverse v).
Proof. destruct v; try exact I. destruct sh; exact I. Qed.

Theorem filters_no_panic :
  (forall cs rev attr v, safe (f_sort cs rev attr v)) /\
  (forall cs attr v, safe (f_unique cs attr v)) /\
  (forall cs key d v, safe (f_groupby cs key d v)) /\
  (forall count fill v, safe (f_batch count fill v)) /\
  (forall count fill v, safe (f_slice count fill v)) /\
  (forall v, safe (f_reverse v)) /\
  (forall v, safe (f_min v)) /\
  (forall v, safe (f_max v)) /\
  (forall v, safe (f_last v)).
Proof.
  repeat split; intros;
    unfold f_sort, f_unique, f_groupby, f_batch, f_slice, f_min, f_max;
    try (destruct (count =? 0); [exact I|]);
    try (apply safe_bind; [apply safe_iter|intros; exact I]);
    try apply safe_reverse.
  unfold f_last. destruct v; try exact I;
    try (apply safe_bind; [apply safe_reverse|intros; apply safe_bind; [apply safe_iter|intros; exact I]]).
  destruct (forallb _ _); exact I.
Qed.
