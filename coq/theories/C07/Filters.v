(* C07: the algebra of the collection filters, over any element type with a comparison that
   is a total preorder on a domain D (the laws of C07.Proofs: antisymmetry and the
   transitivity table).  Generic list reasoning only; instantiated on values in
   C07.FilterProofs. *)
From Coq Require Import Sorting.Permutation.
From MJ Require Import Common.Base Common.ListLemmas C07.Model C07.Spec C07.Proofs.
Ltac Zify.zify_post_hook ::= Z.div_mod_to_equations.


Section SortLaws.
  Context {A : Type}.
  Variable D : A -> Prop.
  Variable cmp : A -> A -> comparison.
  Hypothesis Hanti : forall a b, D a -> D b -> cmp b a = CompOpp (cmp a b).
  Hypothesis Htbl : forall a b c, D a -> D b -> D c -> tbl cmp a b c.

  Lemma Hrefl a : D a -> cmp a a = Eq.
  Proof. intros Da. pose proof (Hanti a a Da Da) as H. destruct (cmp a a); cbn in H; congruence. Qed.

  Lemma le_trans a b c : D a -> D b -> D c -> cmp a b <> Gt -> cmp b c <> Gt -> cmp a c <> Gt.
  Proof.
    intros Da Db Dc H1 H2. destruct (Htbl a b c Da Db Dc) as (T1 & T2 & T3 & T4).
    destruct (cmp a b) eqn:E1; [|destruct (cmp b c) eqn:E2|]; try congruence.
    - rewrite (T1 eq_refl). exact H2.
    - rewrite <- (T2 eq_refl). congruence.
    - rewrite (T3 eq_refl eq_refl). congruence.
  Qed.

  (* insertion *)
  Lemma insert_perm x l : Permutation (x :: l) (insert_sorted cmp x l).
  Proof.
    induction l as [|y r IH]; cbn; auto. destruct (cmp x y); auto.
    eapply perm_trans; [apply perm_swap|]. apply perm_skip. exact IH.
  Qed.

  Lemma sort_perm l : Permutation l (stable_sort cmp l).
  Proof.
    induction l as [|x r IH]; cbn; auto. eapply perm_trans; [|apply insert_perm]. apply perm_skip. exact IH.
  Qed.

  Lemma sort_D l : Forall D l -> Forall D (stable_sort cmp l).
  Proof. intros H. eapply Permutation_Forall; [apply sort_perm|exact H]. Qed.

  Lemma insert_ordered x l : D x -> Forall D l -> Ordered cmp l -> Ordered cmp (insert_sorted cmp x l).
  Proof.
    intros Dx Dl O. induction O as [|y r Hy O IH]; cbn.
    - constructor; constructor.
    - apply Forall_cons_iff in Dl. destruct Dl as [Dy Dr].
      destruct (cmp x y) eqn:C.
      + constructor; [|constructor; auto]. constructor; [congruence|].
        eapply Forall_impl; [|apply (Forall_and Hy Dr)]. cbn. intros z [Hz Dz].
        apply (le_trans x y z); auto. congruence.
      + constructor; [|constructor; auto]. constructor; [congruence|].
        eapply Forall_impl; [|apply (Forall_and Hy Dr)]. cbn. intros z [Hz Dz].
        apply (le_trans x y z); auto. congruence.
      + constructor; [|apply IH; auto].
        eapply Permutation_Forall; [apply insert_perm|]. constructor; auto.
        rewrite (Hanti x y Dx Dy), C. cbn. congruence.
  Qed.

  Lemma sort_ordered l : Forall D l -> Ordered cmp (stable_sort cmp l).
  Proof.
    induction l as [|x r IH]; intros Dl; cbn; [constructor|].
    apply Forall_cons_iff in Dl. destruct Dl as [Dx Dr].
    apply insert_ordered; auto. apply sort_D; auto.
  Qed.

  (* stability *)
  Lemma equals_of_insert z x l : D z -> D x -> Forall D l -> Ordered cmp l ->
    equals_of cmp z (insert_sorted cmp x l) = equals_of cmp z (x :: l).
  Proof.
    intros Dz Dx Dl O. induction O as [|y r Hy O IH]; [reflexivity|].
    apply Forall_cons_iff in Dl. destruct Dl as [Dy Dr].
    cbn [insert_sorted]. destruct (cmp x y) eqn:C; try reflexivity.
    (* x > y: x moves behind y; if both are Equal to z they would be Equal to each other *)
    unfold equals_of in *. cbn [filter] in *. rewrite IH by auto. cbn [filter].
    destruct (cmp z y) eqn:Czy; try reflexivity. destruct (cmp z x) eqn:Czx; try reflexivity.
    exfalso. destruct (Htbl z x y Dz Dx Dy) as (_ & _ & _ & _).
    (* z = x and z = y give x = y *)
    pose proof (Hanti z x Dz Dx) as A1. rewrite Czx in A1. cbn in A1.
    destruct (Htbl x z y Dx Dz Dy) as (T1 & _). rewrite (T1 A1), Czy in C. discriminate C.
  Qed.

  Lemma sort_stable l : Forall D l -> forall z, D z -> equals_of cmp z (stable_sort cmp l) = equals_of cmp z l.
  Proof.
    induction l as [|x r IH]; intros Dl z Dz; [reflexivity|].
    apply Forall_cons_iff in Dl. destruct Dl as [Dx Dr]. cbn [stable_sort].
    rewrite equals_of_insert; auto; [|apply sort_D; auto|apply sort_ordered; auto].
    unfold equals_of in *. cbn [filter]. rewrite (IH Dr z Dz). reflexivity.
  Qed.
End SortLaws.

Section MinMaxUnique.
  Context {A : Type}.
  Variable D : A -> Prop.
  Variable cmp : A -> A -> comparison.
  Hypothesis Hanti : forall a b, D a -> D b -> cmp b a = CompOpp (cmp a b).
  Hypothesis Htbl : forall a b c, D a -> D b -> D c -> tbl cmp a b c.

  Let letr := le_trans D cmp Htbl.
  Let refl := Hrefl D cmp Hanti.

  Lemma fold_min r : forall x, D x -> Forall D r ->
    let m := fold_left (fun m y => match cmp m y with Gt => y | _ => m end) r x in
    In m (x :: r) /\ D m /\ cmp m x <> Gt /\ Forall (fun y => cmp m y <> Gt) r.
  Proof.
    induction r as [|y r IH]; intros x Dx Dr; cbn [fold_left].
    - repeat split; auto. left; reflexivity. rewrite refl; auto; congruence.
    - apply Forall_cons_iff in Dr. destruct Dr as [Dy Dr].
      destruct (cmp x y) eqn:C.
      + destruct (IH x Dx Dr) as (I & Dm & L & F). repeat split; auto.
        * destruct I as [I|I]; [left; auto|right; right; auto].
        * constructor; auto. apply (letr _ x y); auto. congruence.
      + destruct (IH x Dx Dr) as (I & Dm & L & F). repeat split; auto.
        * destruct I as [I|I]; [left; auto|right; right; auto].
        * constructor; auto. apply (letr _ x y); auto. congruence.
      + destruct (IH y Dy Dr) as (I & Dm & L & F). repeat split; auto.
        * destruct I as [I|I]; [right; left; auto|right; right; auto].
        * apply (letr _ y x); auto. rewrite (Hanti x y Dx Dy), C. cbn. congruence.
  Qed.

  Lemma fold_max r : forall x, D x -> Forall D r ->
    let m := fold_left (fun m y => match cmp m y with Gt => m | _ => y end) r x in
    In m (x :: r) /\ D m /\ cmp x m <> Gt /\ Forall (fun y => cmp y m <> Gt) r.
  Proof.
    induction r as [|y r IH]; intros x Dx Dr; cbn [fold_left].
    - repeat split; auto. left; reflexivity. rewrite refl; auto; congruence.
    - apply Forall_cons_iff in Dr. destruct Dr as [Dy Dr].
      destruct (cmp x y) eqn:C.
      + destruct (IH y Dy Dr) as (I & Dm & L & F). repeat split; auto.
        * destruct I as [I|I]; [right; left; auto|right; right; auto].
        * apply (letr x y _); auto. congruence.
      + destruct (IH y Dy Dr) as (I & Dm & L & F). repeat split; auto.
        * destruct I as [I|I]; [right; left; auto|right; right; auto].
        * apply (letr x y _); auto. congruence.
      + destruct (IH x Dx Dr) as (I & Dm & L & F). repeat split; auto.
        * destruct I as [I|I]; [left; auto|right; right; auto].
        * constructor; auto. apply (letr y x _); auto. rewrite (Hanti x y Dx Dy), C. cbn. congruence.
  Qed.

  Lemma min_of_spec l m : Forall D l -> min_of cmp l = Some m -> IsMin cmp l m.
  Proof.
    destruct l as [|x r]; [discriminate|]. intros Dl E. injection E as <-.
    apply Forall_cons_iff in Dl. destruct Dl as [Dx Dr].
    destruct (fold_min r x Dx Dr) as (I & _ & L & F). split; auto.
  Qed.

  Lemma max_of_spec l m : Forall D l -> max_of cmp l = Some m -> IsMax cmp l m.
  Proof.
    destruct l as [|x r]; [discriminate|]. intros Dl E. injection E as <-.
    apply Forall_cons_iff in Dl. destruct Dl as [Dx Dr].
    destruct (fold_max r x Dx Dr) as (I & _ & L & F). split; auto.
  Qed.

  Lemma min_of_none l : min_of cmp l = None <-> l = [].
  Proof. destruct l; cbn; split; congruence. Qed.
  Lemma max_of_none l : max_of cmp l = None <-> l = [].
  Proof. destruct l; cbn; split; congruence. Qed.

  (* unique *)
  Variable key : A -> A.
  Hypothesis Dkey : forall x, D x -> D (key x).

  Lemma unique_go_subseq l : forall seen, Subseq (unique_go cmp key seen l) l.
  Proof.
    induction l as [|x r IH]; intros seen; cbn; [constructor|].
    destruct (seen_before cmp (key x) seen); [apply Subseq_skip|apply Subseq_take]; auto.
  Qed.

  Lemma seen_before_false k seen : seen_before cmp k seen = false -> Forall (fun s => cmp k s <> Eq) seen.
  Proof.
    unfold seen_before. induction seen as [|s r IH]; cbn; intros H; constructor.
    - apply orb_false_elim in H. destruct H as [H _]. destruct (cmp k s); congruence.
    - apply IH. apply orb_false_elim in H. apply H.
  Qed.

  Lemma seen_before_true k seen : seen_before cmp k seen = true -> Exists (fun s => cmp k s = Eq) seen.
  Proof.
    unfold seen_before. induction seen as [|s r IH]; cbn; intros H; [discriminate|].
    apply orb_prop in H. destruct H as [H|H].
    - left. destruct (cmp k s); congruence.
    - right. auto.
  Qed.

  Lemma unique_go_fresh l : forall seen, Forall D l -> Forall D seen ->
    Forall (fun y => Forall (fun s => cmp (key y) s <> Eq) seen) (unique_go cmp key seen l) /\
    NoDupKey cmp key (unique_go cmp key seen l).
  Proof.
    induction l as [|x r IH]; intros seen Dl Ds; cbn; [split; constructor|].
    apply Forall_cons_iff in Dl. destruct Dl as [Dx Dr].
    destruct (seen_before cmp (key x) seen) eqn:S.
    - apply IH; auto.
    - destruct (IH (key x :: seen) Dr ltac:(constructor; auto)) as [F N]. split.
      + constructor; [apply seen_before_false; auto|].
        eapply Forall_impl; [|exact F]. cbn. intros y Hy. apply Forall_cons_iff in Hy. apply Hy.
      + constructor; auto.
        assert (Dout : Forall D (unique_go cmp key (key x :: seen) r)).
        { clear - Dr. generalize (key x :: seen). induction r as [|z r IH]; intros sn; cbn; [constructor|].
          apply Forall_cons_iff in Dr. destruct Dr. destruct (seen_before _ _ _); auto. }
        eapply Forall_impl; [|apply (Forall_and F Dout)]. cbn. intros y [Hy Dy]. apply Forall_cons_iff in Hy. destruct Hy as [Hy _].
        rewrite (Hanti (key y) (key x)); auto. destruct (cmp (key y) (key x)); cbn; congruence.
  Qed.

  Lemma unique_go_complete l : forall seen, Forall D l -> Forall D seen ->
    Forall (fun x => Exists (fun s => cmp (key x) s = Eq) seen \/
                     Exists (fun y => cmp (key x) (key y) = Eq) (unique_go cmp key seen l)) l.
  Proof.
    induction l as [|x r IH]; intros seen Dl Ds; cbn; [constructor|].
    apply Forall_cons_iff in Dl. destruct Dl as [Dx Dr].
    destruct (seen_before cmp (key x) seen) eqn:S.
    - constructor; [left; apply seen_before_true; auto|]. apply IH; auto.
    - constructor.
      + right. left. apply refl. auto.
      + eapply Forall_impl; [|apply (IH (key x :: seen) Dr ltac:(constructor; auto))]. cbn.
        intros y [H|H].
        * apply Exists_cons in H. destruct H as [H|H]; [right; left; exact H|left; exact H].
        * right. right. exact H.
  Qed.

  Lemma unique_of_spec l : Forall D l ->
    Subseq (unique_of cmp key l) l /\ NoDupKey cmp key (unique_of cmp key l) /\
    Forall (fun x => Exists (fun y => cmp (key x) (key y) = Eq) (unique_of cmp key l)) l.
  Proof.
    intros Dl. unfold unique_of. split; [apply unique_go_subseq|]. split; [apply unique_go_fresh; auto|].
    eapply Forall_impl; [|apply (unique_go_complete l [] Dl ltac:(constructor))]. cbn.
    intros x [H|H]; [inversion H|exact H].
  Qed.
End MinMaxUnique.

Section Groupby.
  Context {A : Type}.
  Variable D : A -> Prop.
  Variable cmp : A -> A -> comparison.
  Hypothesis Hanti : forall a b, D a -> D b -> cmp b a = CompOpp (cmp a b).
  Hypothesis Htbl : forall a b c, D a -> D b -> D c -> tbl cmp a b c.
  Variable key : A -> A.
  Hypothesis Dkey : forall x, D x -> D (key x).

  Definition open_items (cur : option (A * list A)) : list A :=
    match cur with Some (_, acc) => rev acc | None => [] end.

  Lemma group_concat l : forall cur,
    concat (map snd (group_go cmp key cur l)) = open_items cur ++ l.
  Proof.
    induction l as [|x r IH]; intros cur; cbn [group_go].
    - destruct cur as [[g acc]|]; cbn; rewrite ?app_nil_r; reflexivity.
    - destruct cur as [[g acc]|].
      + destruct (cmp g (key x)).
        * rewrite IH. cbn. rewrite <- app_assoc. reflexivity.
        * cbn. rewrite IH. cbn. reflexivity.
        * cbn. rewrite IH. cbn. reflexivity.
      + rewrite IH. reflexivity.
  Qed.

  (* the open group is well formed: non-empty, labelled by an Equal key of all its items *)
  Definition cur_ok (cur : option (A * list A)) : Prop :=
    match cur with
    | Some (g, acc) => acc <> [] /\ D g /\ Forall D acc /\ Forall (fun x => cmp g (key x) = Eq) acc
    | None => True
    end.

  Lemma rev_nonnil (l : list A) : l <> [] -> rev l <> [].
  Proof. destruct l; [congruence|]. cbn. intros _ H. apply app_eq_nil in H. destruct H; discriminate. Qed.

  Lemma group_go_ok l : forall cur, Forall D l -> cur_ok cur -> Forall (group_ok cmp key) (group_go cmp key cur l).
  Proof.
    induction l as [|x r IH]; intros cur Dl OK; cbn [group_go].
    - destruct cur as [[g acc]|]; [|constructor]. destruct OK as (NE & Dg & Da & F).
      constructor; [|constructor]. split; cbn [fst snd]; [apply rev_nonnil; auto|]. apply Forall_rev. exact F.
    - apply Forall_cons_iff in Dl. destruct Dl as [Dx Dr].
      assert (FRESH : cur_ok (Some (key x, [x]))).
      { cbn. repeat split; auto; try congruence. constructor; [|constructor]. apply (Hrefl D cmp Hanti). auto. }
      destruct cur as [[g acc]|]; [|apply IH; auto].
      destruct OK as (NE & Dg & Da & F).
      destruct (cmp g (key x)) eqn:C.
      + apply IH; auto. cbn. repeat split; auto; try congruence.
        constructor; [apply (Hrefl D cmp Hanti); auto|].
        (* old items: key y = g = key x *)
        eapply Forall_impl; [|apply (Forall_and F Da)]. cbn. intros y [Hy Dy].
        destruct (Htbl g (key x) (key y) Dg (Dkey x Dx) (Dkey y Dy)) as (T1 & _).
        rewrite <- (T1 C). exact Hy.
      + constructor; [|apply IH; auto]. split; cbn [fst snd]; [apply rev_nonnil; auto|apply Forall_rev; exact F].
      + constructor; [|apply IH; auto]. split; cbn [fst snd]; [apply rev_nonnil; auto|apply Forall_rev; exact F].
  Qed.

  Definition cmpK (a b : A) : comparison := cmp (key a) (key b).

  Definition first_label_ok (cur : option (A * list A)) (l : list A) (gs : list (A * list A)) : Prop :=
    match cur, gs with
    | Some (g, _), (g1, _) :: _ => cmp g g1 = Eq
    | Some _, [] => False
    | None, (g1, _) :: _ => match l with x :: _ => cmp (key x) g1 = Eq | [] => False end
    | None, [] => l = []
    end.

  Lemma group_go_asc l : forall cur, Forall D l -> cur_ok cur -> Ordered cmpK l ->
    match cur with Some (g, _) => Forall (fun x => cmp g (key x) <> Gt) l | None => True end ->
    StrictAsc cmp (map fst (group_go cmp key cur l)) /\ Forall D (map fst (group_go cmp key cur l)) /\
    first_label_ok cur l (group_go cmp key cur l).
  Proof.
    induction l as [|x r IH]; intros cur Dl OK O LE; cbn [group_go].
    - destruct cur as [[g acc]|]; cbn.
      + destruct OK as (_ & Dg & _). repeat split; try constructor; auto. apply (Hrefl D cmp Hanti); auto.
      + repeat split; constructor.
    - apply Forall_cons_iff in Dl. destruct Dl as [Dx Dr].
      inversion O as [|x' r' Hx Or]; subst.
      assert (FRESH : cur_ok (Some (key x, [x]))).
      { cbn. repeat split; auto; try congruence. constructor; [|constructor]. apply (Hrefl D cmp Hanti). auto. }
      destruct cur as [[g acc]|].
      + destruct OK as (NE & Dg & Da & F). apply Forall_cons_iff in LE. destruct LE as [LEx LEr].
        destruct (cmp g (key x)) eqn:C.
        * assert (OK' : cur_ok (Some (key x, x :: acc))).
          { cbn. repeat split; auto; try congruence. constructor; [apply (Hrefl D cmp Hanti); auto|].
            eapply Forall_impl; [|apply (Forall_and F Da)]. cbn. intros y [Hy Dy].
            destruct (Htbl g (key x) (key y) Dg (Dkey x Dx) (Dkey y Dy)) as (T1 & _). rewrite <- (T1 C). exact Hy. }
          destruct (IH (Some (key x, x :: acc)) Dr OK' Or Hx) as (SA & DD & FL).
          repeat split; auto.
          destruct (group_go cmp key (Some (key x, x :: acc)) r) as [|[g1 i1] gs] eqn:G; [exact FL|].
          cbn in FL |- *. apply Forall_cons_iff in DD. destruct DD as [Dg1 _]. cbn in Dg1.
          destruct (Htbl g (key x) g1 Dg (Dkey x Dx) Dg1) as (T1 & _). rewrite (T1 C). exact FL.
        * destruct (IH (Some (key x, [x])) Dr FRESH Or Hx) as (SA & DD & FL).
          cbn [map fst]. split; [|split].
          -- destruct (group_go cmp key (Some (key x, [x])) r) as [|[g1 i1] gs] eqn:G; [constructor|].
             cbn in FL, DD |- *. apply Forall_cons_iff in DD. destruct DD as [Dg1 _]. cbn in Dg1.
             constructor; auto.
             destruct (Htbl g (key x) g1 Dg (Dkey x Dx) Dg1) as (_ & T2 & _). rewrite <- (T2 FL). exact C.
          -- constructor; auto.
          -- cbn. apply (Hrefl D cmp Hanti); auto.
        * congruence.
      + destruct (IH (Some (key x, [x])) Dr FRESH Or Hx) as (SA & DD & FL).
        repeat split; auto.
        destruct (group_go cmp key (Some (key x, [x])) r) as [|[g1 i1] gs] eqn:G; [destruct FL|exact FL].
  Qed.
End Groupby.

Section Runs.
  Context {A : Type}.

  Lemma lenZ_app (a b : list A) : lenZ (a ++ b) = lenZ a + lenZ b.
  Proof. unfold lenZ. rewrite app_length. lia. Qed.
  Lemma lenZ_rev (a : list A) : lenZ (rev a) = lenZ a.
  Proof. unfold lenZ. rewrite rev_length. reflexivity. Qed.
  Lemma lenZ_cons (x : A) a : lenZ (x :: a) = lenZ a + 1.
  Proof. unfold lenZ. cbn [length]. lia. Qed.
  Lemma lenZ_nonneg (a : list A) : 0 <= lenZ a.
  Proof. unfold lenZ. lia. Qed.

  Lemma batch_go_spec count (l : list A) : 0 < count -> forall (tmp : list A) n, n = lenZ tmp ->
    forall rv tmp' n', batch_go count tmp n l = (rv, (tmp', n')) ->
    concat rv ++ rev tmp' = rev tmp ++ l /\ n' = lenZ tmp' /\ Forall (fun r => lenZ r = count) rv /\
    (n <= count -> n' <= count) /\ (tmp <> [] \/ l <> [] -> tmp' <> []).
  Proof.
    intros Hc. induction l as [|x r IH]; intros tmp n Hn rv tmp' n' E; cbn [batch_go] in E.
    - injection E as <- <- <-. cbn. rewrite app_nil_r. repeat split; auto. intros [H|H]; congruence.
    - destruct (n =? count) eqn:C.
      + destruct (batch_go count [x] 1 r) as [rv1 [t1 n1]] eqn:G. injection E as <- <- <-.
        destruct (IH [x] 1 ltac:(reflexivity) rv1 t1 n1 G) as (H1 & H2 & H3 & H4 & H5).
        cbn [concat]. rewrite <- app_assoc, H1. cbn. repeat split; auto.
        * constructor; auto. rewrite lenZ_rev. lia.
        * intros _. apply H4. lia.
        * intros _. apply H5. left. congruence.
      + destruct (IH (x :: tmp) (n + 1) ltac:(rewrite lenZ_cons; lia) rv tmp' n' E) as (H1 & H2 & H3 & H4 & H5).
        repeat split; auto.
        * rewrite H1. cbn. rewrite <- app_assoc. reflexivity.
        * intros. apply H4. lia.
        * intros _. apply H5. left. congruence.
  Qed.

  Lemma repeatZ_repeat (f : A) m : repeatZ m f (Z.of_nat m) = repeat f m.
  Proof.
    induction m as [|m IH]; [reflexivity|]. cbn [repeatZ repeat].
    destruct (Z.of_nat (S m) <=? 0) eqn:E; [lia|]. f_equal. replace (Z.of_nat (S m) - 1) with (Z.of_nat m) by lia. exact IH.
  Qed.

  Lemma Forall_removelast (P : list A -> Prop) (l : list (list A)) : Forall P l -> Forall P (removelast l).
  Proof.
    induction 1 as [|x l Hx Hl IH]; [constructor|]. cbn. destruct l; [constructor|]. constructor; auto.
  Qed.

  Theorem batch_of_law count fill (l : list A) : 0 < count -> BatchLaw count fill l (batch_of count fill l).
  Proof.
    intros Hc. unfold batch_of.
    destruct (batch_go count [] 0 l) as [rv [tmp n]] eqn:G.
    destruct (batch_go_spec count l Hc [] 0 eq_refl rv tmp n G) as (H1 & H2 & H3 & H4 & H5).
    cbn [rev app] in H1. specialize (H4 ltac:(lia)).
    destruct tmp as [|t tmp].
    - cbn in H1. rewrite app_nil_r in H1. destruct fill as [f|]; cbn.
      + exists O. cbn. rewrite app_nil_r. repeat split; auto.
      + repeat split; auto.
        * eapply Forall_impl; [|exact H3]. cbn. intros; lia.
        * apply Forall_removelast. exact H3.
    - assert (Hn : 0 < n <= count) by (rewrite H2 in *; rewrite lenZ_cons in *; pose proof (lenZ_nonneg tmp); lia).
      destruct fill as [f|]; cbn [BatchLaw].
      + exists (Z.to_nat (count - n)).
        assert (RE : repeatZ (Z.to_nat (count - n)) f (count - n) = repeat f (Z.to_nat (count - n))).
        { rewrite <- (repeatZ_repeat f (Z.to_nat (count - n))). f_equal. lia. }
        rewrite RE.
        repeat split.
        * rewrite concat_app. cbn [concat]. rewrite app_nil_r, app_assoc, H1. reflexivity.
        * lia.
        * apply Forall_app. split; auto. constructor; [|constructor].
          rewrite lenZ_app, lenZ_rev, <- H2. unfold lenZ. rewrite repeat_length. lia.
      + rewrite app_nil_r. repeat split.
        * rewrite concat_app. cbn [concat]. rewrite app_nil_r. exact H1.
        * apply Forall_app. split; [eapply Forall_impl; [|exact H3]; cbn; intros; lia|].
          constructor; [|constructor]. rewrite lenZ_rev, <- H2. lia.
        * rewrite removelast_last. exact H3.
  Qed.
End Runs.

Section Slice.
  Context {A : Type}.

  Lemma takeZ_skipZ (l : list A) : forall n, takeZ n l ++ skipZ n l = l.
  Proof.
    induction l as [|x r IH]; intros n; cbn [takeZ skipZ]; [reflexivity|].
    destruct (n <=? 0); [reflexivity|]. cbn. rewrite IH. reflexivity.
  Qed.

  Lemma skipZ_add (l : list A) : forall a b, 0 <= a -> 0 <= b -> skipZ (a + b) l = skipZ b (skipZ a l).
  Proof.
    induction l as [|x r IH]; intros a b Ha Hb; cbn [skipZ].
    - destruct b; reflexivity.
    - destruct (a <=? 0) eqn:Ea.
      + assert (a = 0) by lia. subst. reflexivity.
      + destruct (a + b <=? 0) eqn:E; [lia|]. replace (a + b - 1) with ((a - 1) + b) by lia. apply IH; lia.
  Qed.

  Lemma lenZ_skipZ (l : list A) : forall n, 0 <= n <= lenZ l -> lenZ (skipZ n l) = lenZ l - n.
  Proof.
    induction l as [|x r IH]; intros n Hn; cbn [skipZ].
    - unfold lenZ in *. cbn in *. lia.
    - destruct (n <=? 0) eqn:E; [lia|]. rewrite lenZ_cons in *. rewrite IH; lia.
  Qed.

  Lemma lenZ_takeZ (l : list A) : forall n, 0 <= n <= lenZ l -> lenZ (takeZ n l) = n.
  Proof.
    induction l as [|x r IH]; intros n Hn; cbn [takeZ].
    - unfold lenZ in *. cbn in *. lia.
    - destruct (n <=? 0) eqn:E; [unfold lenZ; cbn; lia|]. rewrite !lenZ_cons in *. rewrite IH; lia.
  Qed.

  Lemma skipZ_all (l : list A) : skipZ (lenZ l) l = [].
  Proof.
    induction l as [|x r IH]; [reflexivity|]. cbn [skipZ]. rewrite lenZ_cons.
    destruct (lenZ r + 1 <=? 0) eqn:E; [pose proof (lenZ_nonneg r); lia|].
    replace (lenZ r + 1 - 1) with (lenZ r) by lia. exact IH.
  Qed.

  (* second phase: slice >= extra, every chunk has [per] items *)
  Lemma slice_go_phase2 (items : list A) count per extra fill : 0 <= per -> 0 <= extra ->
    forall fuel slice, extra <= slice <= count -> (Z.to_nat (count - slice) <= fuel)%nat ->
    extra + count * per = lenZ items ->
    exists b, slice_go fuel items count per extra fill slice extra = with_fill fill b /\
              concat b = skipZ (extra + slice * per) items /\
              lenZ b = count - slice /\ Forall (fun c => lenZ c = per) b.
  Proof.
    intros Hp He. induction fuel as [|fuel IH]; intros slice Hs Hf Hlen.
    - assert (slice = count) by lia. subst. exists [].
      replace (extra + count * per) with (lenZ items) by lia. rewrite skipZ_all.
      destruct fill; repeat split; auto; unfold lenZ; cbn; lia.
    - cbn [slice_go]. destruct (count <=? slice) eqn:C.
      + assert (slice = count) by lia. subst. exists [].
        replace (extra + count * per) with (lenZ items) by lia. rewrite skipZ_all.
        destruct fill; repeat split; auto; unfold lenZ; cbn; lia.
      + replace (slice <? extra) with false by lia. replace (extra <=? slice) with true by lia.
        destruct (IH (slice + 1) ltac:(lia) ltac:(lia) Hlen) as (b & E & Cc & Lb & Fb).
        set (start := extra + slice * per) in *.
        replace (extra + (slice + 1) * per - start) with per by (unfold start; lia).
        exists (takeZ per (skipZ start items) :: b).
        assert (Hst : 0 <= start /\ start + per <= lenZ items) by (unfold start; nia).
        repeat split.
        * rewrite E. destruct fill; reflexivity.
        * cbn [concat]. rewrite Cc. replace (extra + (slice + 1) * per) with (start + per) by (unfold start; lia).
          rewrite skipZ_add by lia. apply takeZ_skipZ.
        * rewrite lenZ_cons. lia.
        * constructor; auto. apply lenZ_takeZ. rewrite lenZ_skipZ; lia.
  Qed.

  (* first phase: slice < extra, every chunk has [per + 1] items, never a filler *)
  Lemma slice_go_phase1 (items : list A) count per extra fill : 0 <= per -> 0 <= extra <= count ->
    forall fuel slice, 0 <= slice <= extra -> (Z.to_nat (count - slice) <= fuel)%nat ->
    extra + count * per = lenZ items ->
    exists a b, slice_go fuel items count per extra fill slice slice = a ++ with_fill fill b /\
              concat (a ++ b) = skipZ (slice + slice * per) items /\
              lenZ a = extra - slice /\ lenZ b = count - extra /\
              Forall (fun c => lenZ c = per + 1) a /\ Forall (fun c => lenZ c = per) b.
  Proof.
    intros Hp He. induction fuel as [|fuel IH]; intros slice Hs Hf Hlen.
    - assert (slice = count) by lia. assert (extra = count) by lia. subst.
      destruct (slice_go_phase2 items count per count fill Hp ltac:(lia) O count ltac:(lia) ltac:(lia) Hlen) as (b & E & Cc & Lb & Fb).
      exists [], b. cbn [app]. repeat split; auto; try constructor. unfold lenZ; cbn; lia.
    - destruct (Z.eq_dec slice extra) as [->|NE].
      + destruct (slice_go_phase2 items count per extra fill Hp ltac:(lia) (S fuel) extra ltac:(lia) ltac:(lia) Hlen) as (b & E & Cc & Lb & Fb).
        exists [], b. cbn [app]. repeat split; auto; try constructor. unfold lenZ; cbn; lia.
      + cbn [slice_go]. replace (count <=? slice) with false by lia.
        replace (slice <? extra) with true by lia. replace (extra <=? slice) with false by lia.
        destruct (IH (slice + 1) ltac:(lia) ltac:(lia) Hlen) as (a & b & E & Cc & La & Lb & Fa & Fb).
        set (start := slice + slice * per) in *.
        replace (slice + 1 + (slice + 1) * per - start) with (per + 1) by (unfold start; lia).
        exists (takeZ (per + 1) (skipZ start items) :: a), b.
        assert (Hst : 0 <= start /\ start + (per + 1) <= lenZ items) by (unfold start; nia).
        repeat split; auto.
        * rewrite E. destruct fill; reflexivity.
        * cbn [app concat]. rewrite Cc. replace (slice + 1 + (slice + 1) * per) with (start + (per + 1)) by (unfold start; lia).
          rewrite skipZ_add by lia. apply takeZ_skipZ.
        * rewrite lenZ_cons. lia.
        * constructor; auto. apply lenZ_takeZ. rewrite lenZ_skipZ; lia.
  Qed.

  Theorem slice_of_law count fill (l : list A) : 0 < count -> SliceLaw count fill l (slice_of count fill l).
  Proof.
    intros Hc. unfold slice_of, SliceLaw. pose proof (lenZ_nonneg l) as Hl.
    destruct (slice_go_phase1 l count (lenZ l / count) (lenZ l mod count) fill ltac:(nia) ltac:(lia)
                (Z.to_nat count) 0 ltac:(lia) ltac:(lia) ltac:(nia)) as (a & b & E & Cc & La & Lb & Fa & Fb).
    exists a, b. repeat split; auto.
    - rewrite Cc. replace (0 + 0 * (lenZ l / count)) with 0 by lia. destruct l; reflexivity.
    - lia.
    - rewrite lenZ_app. lia.
  Qed.
End Slice.

(* ------------------------------------------------------------------ *)
(* the laws, packaged                                                  *)
(* ------------------------------------------------------------------ *)
Section Packaged.
  Context {A : Type}.
  Variable D : A -> Prop.
  Variable cmp : A -> A -> comparison.
  Hypothesis Hanti : forall a b, D a -> D b -> cmp b a = CompOpp (cmp a b).
  Hypothesis Htbl : forall a b c, D a -> D b -> D c -> tbl cmp a b c.

  Theorem sort_law l : Forall D l -> SortedStablePerm cmp l (stable_sort cmp l).
  Proof.
    intros Dl. split; [apply sort_perm|]. split; [apply (sort_ordered D); auto|].
    intros x Hx. apply (sort_stable D); auto. rewrite Forall_forall in Dl. auto.
  Qed.

  Variable key : A -> A.
  Hypothesis Dkey : forall x, D x -> D (key x).

  Theorem unique_law l : Forall D l -> UniqueLaw cmp key l (unique_of cmp key l).
  Proof. intros Dl. apply (unique_of_spec D); auto. Qed.
End Packaged.

Section PackagedGroup.
  Context {A : Type}.
  Variable D : A -> Prop.
  Variable cmp : A -> A -> comparison.
  Hypothesis Hanti : forall a b, D a -> D b -> cmp b a = CompOpp (cmp a b).
  Hypothesis Htbl : forall a b c, D a -> D b -> D c -> tbl cmp a b c.
  Variable key : A -> A.
  Hypothesis Dkey : forall x, D x -> D (key x).

  Let ck := fun a b => cmp (key a) (key b).

  Theorem group_law l : Forall D l -> GroupLaw cmp key l (group_go cmp key None (stable_sort ck l)).
  Proof.
    intros Dl.
    assert (KA : forall a b, D a -> D b -> ck b a = CompOpp (ck a b)) by (intros; apply Hanti; auto).
    assert (KT : forall a b c, D a -> D b -> D c -> tbl ck a b c) by (intros a b c Da Db Dc; apply (Htbl (key a) (key b) (key c)); auto).
    pose proof (sort_law D ck KA KT l Dl) as SL.
    pose proof (sort_D D ck l Dl) as DS.
    split; [|split].
    - rewrite (group_concat cmp key (stable_sort ck l) None). exact SL.
    - apply (group_go_ok D); auto. exact I.
    - destruct SL as (_ & O & _).
      destruct (group_go_asc D cmp Hanti Htbl key Dkey (stable_sort ck l) None DS I O I) as (SA & _). exact SA.
  Qed.
End PackagedGroup.
