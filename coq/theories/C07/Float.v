(* C07, float leg: every comparison of two numbers (any mix of i64/u64/i128/u128 integers and
   binary64 bit patterns, NaN included) is the comparison of their exact values.
   [fkey] maps a bit pattern to its value in units of 2^-1074 (an integer); integers are
   scaled by SC = 2^1074. *)
From MJ Require Import Common.Base C07.Model C07.Spec.
Ltac Zify.zify_post_hook ::= Z.div_mod_to_equations.



Definition mk (s e m : Z) : Z := s * 2 ^ 63 + e * 2 ^ 52 + m.
Definition fields_ok (s e m : Z) : Prop := (s = 0 \/ s = 1) /\ 0 <= e < 2048 /\ 0 <= m < 2 ^ 52.

Lemma f_decomp bits : f_valid bits = true ->
  exists s e m, fields_ok s e m /\ bits = mk s e m.
Proof.
  unfold f_valid. intros H.
  exists (bits / 2 ^ 63), ((bits / 2 ^ 52) mod 2 ^ 11), (bits mod 2 ^ 52). unfold fields_ok, mk. lia.
Qed.

Lemma f_fields s e m : fields_ok s e m ->
  f_neg (mk s e m) = (s =? 1) /\ f_exp (mk s e m) = e /\ f_man (mk s e m) = m /\ f_abs (mk s e m) = e * 2 ^ 52 + m.
Proof.
  unfold fields_ok, mk, f_neg, f_exp, f_man, f_abs. intros H. repeat split; lia.
Qed.

Definition gmag (e m : Z) : Z := if e =? 0 then m else (2 ^ 52 + m) * 2 ^ (e - 1).

Lemma fmag_mk s e m : fields_ok s e m -> fmag (mk s e m) = gmag e m.
Proof. intros H. destruct (f_fields s e m H) as (_ & E & M & _). unfold fmag, gmag. rewrite E, M. reflexivity. Qed.

Lemma pow2_pos n : 0 <= n -> 0 < 2 ^ n.
Proof. intros. apply Z.pow_pos_nonneg; lia. Qed.

Lemma pow2_double n : 0 <= n -> 2 ^ (n + 1) = 2 * 2 ^ n.
Proof. intros. rewrite Z.pow_add_r by lia. lia. Qed.

Lemma gmag_lt e1 m1 e2 m2 :
  0 <= e1 -> 0 <= m1 < 2 ^ 52 -> 0 <= e2 -> 0 <= m2 < 2 ^ 52 ->
  e1 * 2 ^ 52 + m1 < e2 * 2 ^ 52 + m2 -> gmag e1 m1 < gmag e2 m2.
Proof.
  intros He1 Hm1 He2 Hm2 H. unfold gmag.
  assert (e1 < e2 \/ (e1 = e2 /\ m1 < m2)) as [L|[-> L]] by lia.
  - destruct (e2 =? 0) eqn:E2; [lia|].
    pose proof (pow2_pos (e2 - 1) ltac:(lia)) as P2.
    destruct (e1 =? 0) eqn:E1.
    + nia.
    + pose proof (pow2_pos (e1 - 1) ltac:(lia)) as P1.
      assert (2 * 2 ^ (e1 - 1) <= 2 ^ (e2 - 1)).
      { rewrite <- pow2_double by lia. apply Z.pow_le_mono_r; lia. }
      remember (2 ^ (e1 - 1)) as p1. remember (2 ^ (e2 - 1)) as p2. nia.
  - destruct (e2 =? 0) eqn:E2; [lia|].
    pose proof (pow2_pos (e2 - 1) ltac:(lia)) as P2. remember (2 ^ (e2 - 1)) as p2. nia.
Qed.

Lemma gmag_nonneg e m : 0 <= e -> 0 <= m -> 0 <= gmag e m.
Proof.
  intros. unfold gmag. destruct (e =? 0) eqn:E; [lia|].
  pose proof (pow2_pos (e - 1) ltac:(lia)). remember (2 ^ (e - 1)) as p. nia.
Qed.

Lemma gmag_compare e1 m1 e2 m2 :
  0 <= e1 -> 0 <= m1 < 2 ^ 52 -> 0 <= e2 -> 0 <= m2 < 2 ^ 52 ->
  (gmag e1 m1 ?= gmag e2 m2) = (e1 * 2 ^ 52 + m1 ?= e2 * 2 ^ 52 + m2).
Proof.
  intros. destruct (Z.compare_spec (e1 * 2 ^ 52 + m1) (e2 * 2 ^ 52 + m2)) as [E|L|G].
  - assert (e1 = e2 /\ m1 = m2) as [-> ->] by lia. apply Z.compare_refl.
  - apply Z.compare_lt_iff. apply gmag_lt; auto.
  - apply Z.compare_gt_iff. apply gmag_lt; auto.
Qed.

Lemma gmag_zero e m : 0 <= e -> 0 <= m < 2 ^ 52 -> (gmag e m = 0 <-> e * 2 ^ 52 + m = 0).
Proof.
  intros. pose proof (gmag_compare e m 0 0 ltac:(lia) ltac:(lia) ltac:(lia) ltac:(lia)) as C.
  change (gmag 0 0) with 0 in C. split; intros E.
  - rewrite E in C. symmetry in C. apply Z.compare_eq in C. lia.
  - replace (e * 2 ^ 52 + m) with (0 * 2 ^ 52 + 0) in C by lia. rewrite Z.compare_refl in C. apply Z.compare_eq in C. exact C.
Qed.

Lemma gmag_iff e1 m1 e2 m2 :
  0 <= e1 -> 0 <= m1 < 2 ^ 52 -> 0 <= e2 -> 0 <= m2 < 2 ^ 52 ->
  (gmag e1 m1 < gmag e2 m2 <-> e1 * 2 ^ 52 + m1 < e2 * 2 ^ 52 + m2) /\
  (gmag e1 m1 = gmag e2 m2 <-> e1 * 2 ^ 52 + m1 = e2 * 2 ^ 52 + m2).
Proof.
  intros. pose proof (gmag_compare e1 m1 e2 m2 ltac:(lia) ltac:(lia) ltac:(lia) ltac:(lia)) as C.
  destruct (Z.compare_spec (gmag e1 m1) (gmag e2 m2)), (Z.compare_spec (e1 * 2 ^ 52 + m1) (e2 * 2 ^ 52 + m2)); try discriminate C; lia.
Qed.

(* F1: cmp_f64 is the comparison of the keys, for every pair of bit patterns (NaN included) *)
Lemma cmp_f64_key a b : f_valid a = true -> f_valid b = true -> cmp_f64 a b = (fkey a ?= fkey b).
Proof.
  intros Va Vb.
  destruct (f_decomp a Va) as (s1 & e1 & m1 & F1 & ->). destruct (f_decomp b Vb) as (s2 & e2 & m2 & F2 & ->).
  unfold cmp_f64, f_eq, f_is_nan, f_total_cmp, f_total_key, fkey.
  rewrite !fmag_mk by assumption.
  destruct (f_fields s1 e1 m1 F1) as (N1 & _ & _ & A1). destruct (f_fields s2 e2 m2 F2) as (N2 & _ & _ & A2).
  rewrite N1, N2, A1, A2.
  pose proof (gmag_iff e1 m1 e2 m2) as GC. pose proof (gmag_iff e2 m2 e1 m1) as GC'.
  pose proof (gmag_nonneg e1 m1) as G1. pose proof (gmag_nonneg e2 m2) as G2.
  pose proof (gmag_zero e1 m1) as Z1. pose proof (gmag_zero e2 m2) as Z2.
  unfold fields_ok, mk in *.
  destruct F1 as (S1 & He1 & Hm1); destruct F2 as (S2 & He2 & Hm2);
    specialize (GC ltac:(lia) ltac:(lia) ltac:(lia) ltac:(lia)); specialize (GC' ltac:(lia) ltac:(lia) ltac:(lia) ltac:(lia));
    specialize (G1 ltac:(lia) ltac:(lia)); specialize (G2 ltac:(lia) ltac:(lia));
    specialize (Z1 ltac:(lia) ltac:(lia)); specialize (Z2 ltac:(lia) ltac:(lia)).
  remember (gmag e1 m1) as g1. remember (gmag e2 m2) as g2.
  destruct S1 as [-> | ->]; destruct S2 as [-> | ->]; cbn [Z.eqb Pos.eqb];
    (destruct (negb _ && negb _ && _) eqn:EQ;
     [ match goal with |- Eq = (?x ?= ?y) => destruct (Z.compare_spec x y); try reflexivity; exfalso; lia end
     | match goal with |- (?u ?= ?v) = (?x ?= ?y) =>
         destruct (Z.compare_spec u v); destruct (Z.compare_spec x y); try reflexivity; exfalso; lia end ]).
Qed.


(* the integer a positive integer rounds to (round to nearest, ties to even, 53 bits) *)
Definition rne_pos (x : Z) : Z :=
  let L := Z.log2 x in
  if L <=? 52 then x
  else
    let k := L - 52 in
    let q := x / 2 ^ k in
    let r := x mod 2 ^ k in
    let h := 2 ^ (k - 1) in
    let q' := if (h <? r) || ((r =? h) && Z.odd q) then q + 1 else q in
    q' * 2 ^ k.
Definition rne_int (z : Z) : Z := if z =? 0 then 0 else if 0 <? z then rne_pos z else - rne_pos (- z).

Lemma gmag_pos e m : 1 <= e -> gmag e m = (2 ^ 52 + m) * 2 ^ (e - 1).
Proof. intros. unfold gmag. destruct (e =? 0) eqn:E; [lia|reflexivity]. Qed.

Lemma pow2_split a b : 0 <= a -> 0 <= b -> 2 ^ (a + b) = 2 ^ a * 2 ^ b.
Proof. intros. apply Z.pow_add_r; lia. Qed.

(* the pattern of a positive integer: fields and meaning *)
Lemma f_of_pos_fields x : 0 < x -> Z.log2 x <= 1000 ->
  exists e m, fields_ok 0 e m /\ f_of_pos x = mk 0 e m /\ 1023 <= e <= Z.log2 x + 1024 /\
    (2 ^ 52 + m) * 2 ^ (e - 1) = rne_pos x * SC /\
    (if 1075 <=? e then (2 ^ 52 + m) * 2 ^ (e - 1075) else (2 ^ 52 + m) / 2 ^ (1075 - e)) = rne_pos x /\
    (if 1075 <=? e then true else (2 ^ 52 + m) mod 2 ^ (1075 - e) =? 0) = true.
Proof.
  intros Hx HL. unfold f_of_pos, rne_pos, SC.
  pose proof (Z.log2_spec x Hx) as [L1 L2]. pose proof (Z.log2_nonneg x) as L0.
  remember (Z.log2 x) as L.
  destruct (L <=? 52) eqn:E52.
  - (* exact *)
    assert (P : 2 ^ L * 2 ^ (52 - L) = 2 ^ 52) by (rewrite <- pow2_split by lia; f_equal; lia).
    pose proof (pow2_pos (52 - L) ltac:(lia)) as Pp. pose proof (pow2_pos L ltac:(lia)) as PL.
    rewrite Z.pow_succ_r in L2 by lia.
    exists (L + 1023), (x * 2 ^ (52 - L) - 2 ^ 52).
    assert (R : 2 ^ 52 <= x * 2 ^ (52 - L) < 2 ^ 53).
    { remember (2 ^ (52 - L)) as p. remember (2 ^ L) as pl. change (2 ^ 53) with (2 * 2 ^ 52). nia. }
    split; [unfold fields_ok; lia|]. split; [unfold mk; lia|]. split; [rewrite <- ?HeqL; lia|].
    replace (2 ^ 52 + (x * 2 ^ (52 - L) - 2 ^ 52)) with (x * 2 ^ (52 - L)) by lia.
    split; [|split].
    + replace (L + 1023 - 1) with ((52 - L) + (L + 1022 - (52 - L))) by lia.
      rewrite <- Z.mul_assoc. f_equal. rewrite <- pow2_split by lia. f_equal. lia.
    + destruct (1075 <=? L + 1023) eqn:E.
      * replace (L + 1023 - 1075) with 0 by lia. replace (52 - L) with 0 by lia. rewrite !Z.pow_0_r. lia.
      * replace (1075 - (L + 1023)) with (52 - L) by lia. apply Z.div_mul. lia.
    + destruct (1075 <=? L + 1023) eqn:E; [reflexivity|].
      replace (1075 - (L + 1023)) with (52 - L) by lia. rewrite Z.mod_mul by lia. reflexivity.
  - (* rounded *)
    assert (Hk : 1 <= L - 52) by lia.
    pose proof (pow2_pos (L - 52) ltac:(lia)) as Pk.
    assert (P : 2 ^ L = 2 ^ 52 * 2 ^ (L - 52)) by (rewrite <- pow2_split by lia; f_equal; lia).
    rewrite Z.pow_succ_r in L2 by lia.
    pose proof (Z.div_mod x (2 ^ (L - 52)) ltac:(lia)) as DM.
    pose proof (Z.mod_pos_bound x (2 ^ (L - 52)) Pk) as MB.
    remember (x / 2 ^ (L - 52)) as q. remember (x mod 2 ^ (L - 52)) as r.
    assert (Q : 2 ^ 52 <= q < 2 ^ 53).
    { remember (2 ^ (L - 52)) as pk. change (2 ^ 53) with (2 * 2 ^ 52). nia. }
    remember (if (2 ^ (L - 52 - 1) <? r) || (r =? 2 ^ (L - 52 - 1)) && Z.odd q then q + 1 else q) as q'.
    assert (Hq' : q' = q \/ q' = q + 1) by (subst q'; destruct (_ || _); auto).
    clear Heqq'.
    assert (q' < 2 ^ 53 \/ q' = 2 ^ 53) as [C|C] by lia.
    + exists (L + 1023), (q' - 2 ^ 52).
      split; [unfold fields_ok; lia|]. split; [unfold mk; lia|]. split; [rewrite <- ?HeqL; lia|].
      replace (2 ^ 52 + (q' - 2 ^ 52)) with q' by lia.
      split; [|split].
      * rewrite <- Z.mul_assoc. f_equal. rewrite <- pow2_split by lia. f_equal. lia.
      * destruct (1075 <=? L + 1023) eqn:E; [|lia]. f_equal. f_equal. lia.
      * destruct (1075 <=? L + 1023) eqn:E; [reflexivity|lia].
    + exists (L + 1024), 0.
      split; [unfold fields_ok; lia|]. split; [unfold mk; lia|]. split; [rewrite <- ?HeqL; lia|].
      rewrite C. split; [|split].
      * replace (L + 1024 - 1) with (1 + ((L - 52) + 1074)) by lia.
        rewrite (pow2_split 1) by lia. rewrite (pow2_split (L - 52)) by lia. change (2 ^ 53) with (2 ^ 52 * 2 ^ 1). lia.
      * destruct (1075 <=? L + 1024) eqn:E; [|lia].
        replace (L + 1024 - 1075) with (1 + (L - 52)) by lia. rewrite (pow2_split 1) by lia. change (2 ^ 53) with (2 ^ 52 * 2 ^ 1). lia.
      * destruct (1075 <=? L + 1024) eqn:E; [reflexivity|lia].
Qed.

Record int_float_facts (z b : Z) : Prop := {
  iff_valid : f_valid b = true;
  iff_nan : f_is_nan b = false;
  iff_finite : f_is_finite b = true;
  iff_key : fkey b = rne_int z * SC;
  iff_trunc : f_trunc b = rne_int z;
  iff_frac : f_frac_sign b = Eq;
  iff_neg : f_neg b = (z <? 0);
}.

Lemma log2_bound x : 0 < x <= 2 ^ 128 -> Z.log2 x <= 128.
Proof. intros. replace 128 with (Z.log2 (2 ^ 128)) by (apply Z.log2_pow2; lia). apply Z.log2_le_mono. lia. Qed.

Lemma mk_facts s e m : fields_ok s e m -> 1 <= e <= 2046 ->
  f_valid (mk s e m) = true /\ f_is_nan (mk s e m) = false /\ f_is_finite (mk s e m) = true /\
  fkey (mk s e m) = (if s =? 1 then -1 else 1) * ((2 ^ 52 + m) * 2 ^ (e - 1)) /\
  f_trunc (mk s e m) = (if s =? 1 then -1 else 1) *
     (if 1075 <=? e then (2 ^ 52 + m) * 2 ^ (e - 1075) else (2 ^ 52 + m) / 2 ^ (1075 - e)) /\
  f_frac_sign (mk s e m) =
     (if (if 1075 <=? e then true else (2 ^ 52 + m) mod 2 ^ (1075 - e) =? 0) then Eq else if s =? 1 then Lt else Gt).
Proof.
  intros F He. destruct (f_fields s e m F) as (N & E & M & A).
  unfold f_valid, f_is_nan, f_is_finite, fkey, f_trunc, f_trunc_mag, f_frac_sign.
  rewrite (fmag_mk s e m F), (gmag_pos e m) by lia. rewrite N, E, M, A.
  unfold fields_ok, mk in *.
  replace (e =? 0) with false by lia.
  repeat split; try lia.
  - destruct (s =? 1); lia.
  - destruct (s =? 1); lia.
Qed.

Lemma f_of_int_facts z : Z.abs z <= 2 ^ 128 -> int_float_facts z (f_of_int z).
Proof.
  intros Hz. unfold f_of_int, rne_int.
  destruct (z =? 0) eqn:E0.
  - assert (z = 0) by lia. subst. constructor; reflexivity.
  - destruct (0 <? z) eqn:Ep.
    + destruct (f_of_pos_fields z ltac:(lia) ltac:(pose proof (log2_bound z); lia)) as (e & m & F & -> & He & K & T & I).
      pose proof (log2_bound z ltac:(lia)).
      destruct (mk_facts 0 e m F ltac:(lia)) as (A1 & A2 & A3 & A4 & A5 & A6).
      destruct (f_fields 0 e m F) as (N & _).
      assert (R : rne_int z = rne_pos z) by (unfold rne_int; rewrite E0, Ep; reflexivity).
      constructor; auto; rewrite ?R.
      * rewrite A4. cbn [Z.eqb]. lia.
      * rewrite A5. cbn [Z.eqb]. lia.
      * rewrite A6, I. reflexivity.
      * rewrite N. lia.
    + destruct (f_of_pos_fields (- z) ltac:(lia) ltac:(pose proof (log2_bound (- z)); lia)) as (e & m & F & -> & He & K & T & I).
      pose proof (log2_bound (- z) ltac:(lia)).
      assert (F' : fields_ok 1 e m) by (unfold fields_ok in *; lia).
      replace (2 ^ 63 + mk 0 e m) with (mk 1 e m) by (unfold mk; lia).
      destruct (mk_facts 1 e m F' ltac:(lia)) as (A1 & A2 & A3 & A4 & A5 & A6).
      destruct (f_fields 1 e m F') as (N & _).
      assert (R : rne_int z = - rne_pos (- z)) by (unfold rne_int; rewrite E0, Ep; reflexivity).
      constructor; auto; rewrite ?R.
      * rewrite A4. cbn [Z.eqb Pos.eqb]. lia.
      * rewrite A5. cbn [Z.eqb Pos.eqb]. lia.
      * rewrite A6, I. reflexivity.
      * rewrite N. lia.
Qed.

Lemma SC_pos : 0 < SC.
Proof. unfold SC. apply pow2_pos. lia. Qed.

(* a float key lies on the grid of multiples of 2^k * SC once it is at least 2^(52+k) * SC *)
Definition gridded (K : Z) : Prop :=
  forall k, 0 <= k -> 2 ^ (52 + k) * SC <= Z.abs K -> exists j, K = j * (2 ^ k * SC).

Lemma gridded_opp K : gridded K -> gridded (- K).
Proof.
  intros G k Hk H. rewrite Z.abs_opp in H. destruct (G k Hk H) as [j ->]. exists (- j). lia.
Qed.

Lemma gmag_gridded e m : 0 <= e -> 0 <= m < 2 ^ 52 -> gridded (gmag e m).
Proof.
  intros He Hm k Hk H. pose proof (gmag_nonneg e m He ltac:(lia)) as G0. rewrite Z.abs_eq in H by lia.
  pose proof SC_pos as SP. pose proof (pow2_pos (52 + k) ltac:(lia)) as P52k.
  unfold gmag in *. destruct (e =? 0) eqn:E0.
  - exfalso. assert (2 ^ 52 <= 2 ^ (52 + k)) by (apply Z.pow_le_mono_r; lia).
    remember (2 ^ (52 + k)) as p. nia.
  - assert (He1 : 0 <= e - 1) by lia. pose proof (pow2_pos (e - 1) He1) as Pe.
    assert (LT : 2 ^ (52 + k + 1074) < 2 ^ (53 + (e - 1))).
    { rewrite (pow2_split (52 + k) 1074) by lia. fold SC. rewrite (pow2_split 53 (e - 1)) by lia.
      remember (2 ^ (e - 1)) as pe. remember (2 ^ (52 + k)) as p. nia. }
    apply Z.pow_lt_mono_r_iff in LT; try lia.
    exists ((2 ^ 52 + m) * 2 ^ (e - 1 - (k + 1074))).
    replace (e - 1) with ((e - 1 - (k + 1074)) + (k + 1074)) at 1 by lia.
    rewrite (pow2_split (e - 1 - (k + 1074)) (k + 1074)) by lia. rewrite (pow2_split k 1074) by lia. fold SC. lia.
Qed.

Lemma fkey_gridded b : f_valid b = true -> gridded (fkey b).
Proof.
  intros V. destruct (f_decomp b V) as (s & e & m & F & ->). unfold fkey. rewrite (fmag_mk s e m F).
  destruct F as (_ & He & Hm). destruct (f_neg _); [apply gridded_opp|]; apply gmag_gridded; lia.
Qed.

(* rounding an integer never moves it across a float *)
Lemma rne_pos_sandwich K x : gridded K -> 0 < x ->
  (K < rne_pos x * SC -> K < x * SC) /\ (rne_pos x * SC < K -> x * SC < K).
Proof.
  intros G Hx. unfold rne_pos.
  pose proof (Z.log2_spec x Hx) as [L1 L2]. remember (Z.log2 x) as L.
  pose proof SC_pos as SP.
  destruct (L <=? 52) eqn:E52; [lia|].
  assert (Hk : 1 <= L - 52) by lia.
  pose proof (pow2_pos (L - 52) ltac:(lia)) as Pk.
  assert (P : 2 ^ L = 2 ^ 52 * 2 ^ (L - 52)) by (rewrite <- pow2_split by lia; f_equal; lia).
  rewrite Z.pow_succ_r in L2 by lia.
  pose proof (Z.div_mod x (2 ^ (L - 52)) ltac:(lia)) as DM.
  pose proof (Z.mod_pos_bound x (2 ^ (L - 52)) Pk) as MB.
  remember (x / 2 ^ (L - 52)) as q. remember (x mod 2 ^ (L - 52)) as r.
  assert (Q : 2 ^ 52 <= q < 2 ^ 53).
  { remember (2 ^ (L - 52)) as pk. change (2 ^ 53) with (2 * 2 ^ 52). nia. }
  pose proof (pow2_pos (L - 52 - 1) ltac:(lia)) as Ph.
  remember (if (2 ^ (L - 52 - 1) <? r) || (r =? 2 ^ (L - 52 - 1)) && Z.odd q then q + 1 else q) as q'.
  assert (Hq' : q' = q \/ (q' = q + 1 /\ 0 < r)).
  { subst q'. destruct (_ || _) eqn:C; [right|left; reflexivity]. split; [reflexivity|]. lia. }
  clear Heqq'.
  specialize (G (L - 52) ltac:(lia)).
  replace (52 + (L - 52)) with L in G by lia.
  remember (2 ^ (L - 52)) as pk.
  (* everything in units of U = 2^k * SC *)
  set (U := pk * SC) in *.
  assert (HU : 0 < U) by (unfold U; apply Z.mul_pos_pos; lia).
  assert (HxS : x * SC = q * U + r * SC) by (unfold U; rewrite DM; ring).
  assert (HV : 0 <= r * SC < U).
  { unfold U. split; [apply Z.mul_nonneg_nonneg; lia|apply Z.mul_lt_mono_pos_r; lia]. }
  assert (HV' : q' = q + 1 -> 0 < r * SC) by (intros; apply Z.mul_pos_pos; lia).
  assert (HLU : 2 ^ L * SC = 2 ^ 52 * U) by (unfold U; rewrite P; ring).
  replace (q' * pk * SC) with (q' * U) by (unfold U; ring).
  assert (HqU : 2 ^ 52 * U <= q * U) by (apply Z.mul_le_mono_nonneg_r; lia).
  rewrite HxS, HLU in *. clear HxS HLU DM P L1 L2.
  destruct (Z_lt_le_dec (Z.abs K) (2 ^ 52 * U)) as [Sm|Big].
  - destruct Hq' as [-> | [-> Hr]]; split; intros; lia.
  - destruct (G Big) as [j ->]. clear G Big. split; intros HH.
    + assert (J : j < q') by (apply (Z.mul_lt_mono_pos_r U); lia).
      assert (JU : j * U <= (q' - 1) * U) by (apply Z.mul_le_mono_nonneg_r; lia).
      destruct Hq' as [-> | [-> Hr]]; specialize (HV' ltac:(lia)) || clear HV'; lia.
    + assert (J : q' < j) by (apply (Z.mul_lt_mono_pos_r U); lia).
      assert (JU : (q' + 1) * U <= j * U) by (apply Z.mul_le_mono_nonneg_r; lia).
      destruct Hq' as [-> | [-> Hr]]; lia.
Qed.

Lemma rne_int_sandwich K z : gridded K ->
  (K < rne_int z * SC -> K < z * SC) /\ (rne_int z * SC < K -> z * SC < K).
Proof.
  intros G. unfold rne_int. destruct (z =? 0) eqn:E0; [lia|]. destruct (0 <? z) eqn:Ep.
  - apply rne_pos_sandwich; auto. lia.
  - destruct (rne_pos_sandwich (- K) (- z) (gridded_opp K G) ltac:(lia)) as [A B]. split; intros; lia.
Qed.

Lemma round_cmp K z : gridded K ->
  (K ?= rne_int z * SC) <> Eq -> (K ?= rne_int z * SC) = (K ?= z * SC).
Proof.
  intros G NE. destruct (rne_int_sandwich K z G) as [A B].
  destruct (Z.compare_spec K (rne_int z * SC)) as [E|L|L]; [congruence| |]; symmetry.
  - apply Z.compare_lt_iff. auto.
  - apply Z.compare_gt_iff. auto.
Qed.

(* keys determine the pattern up to the sign of zero *)
Lemma fkey_inj a b : f_valid a = true -> f_valid b = true -> fkey a = fkey b ->
  a = b \/ (f_abs a = 0 /\ f_abs b = 0).
Proof.
  intros Va Vb.
  destruct (f_decomp a Va) as (s1 & e1 & m1 & F1 & ->). destruct (f_decomp b Vb) as (s2 & e2 & m2 & F2 & ->).
  unfold fkey. rewrite !fmag_mk by assumption.
  destruct (f_fields s1 e1 m1 F1) as (N1 & _ & _ & A1). destruct (f_fields s2 e2 m2 F2) as (N2 & _ & _ & A2).
  rewrite N1, N2, A1, A2.
  pose proof (gmag_iff e1 m1 e2 m2) as GC.
  pose proof (gmag_nonneg e1 m1) as G1. pose proof (gmag_nonneg e2 m2) as G2.
  pose proof (gmag_zero e1 m1) as Z1. pose proof (gmag_zero e2 m2) as Z2.
  unfold fields_ok, mk in *.
  destruct F1 as (S1 & He1 & Hm1); destruct F2 as (S2 & He2 & Hm2);
    specialize (GC ltac:(lia) ltac:(lia) ltac:(lia) ltac:(lia));
    specialize (G1 ltac:(lia) ltac:(lia)); specialize (G2 ltac:(lia) ltac:(lia));
    specialize (Z1 ltac:(lia) ltac:(lia)); specialize (Z2 ltac:(lia) ltac:(lia)).
  remember (gmag e1 m1) as g1. remember (gmag e2 m2) as g2.
  destruct S1 as [-> | ->]; destruct S2 as [-> | ->]; cbn [Z.eqb Pos.eqb]; intros; lia.
Qed.

(* IEEE < on non-NaN patterns is < on the keys *)
Lemma f_lt_key a b : f_valid a = true -> f_valid b = true -> f_is_nan a = false -> f_is_nan b = false ->
  f_lt a b = (fkey a <? fkey b).
Proof.
  intros Va Vb Na Nb. unfold f_lt. rewrite Na, Nb. cbn [negb andb]. revert Na Nb.
  destruct (f_decomp a Va) as (s1 & e1 & m1 & F1 & ->). destruct (f_decomp b Vb) as (s2 & e2 & m2 & F2 & ->).
  unfold fkey, f_sm, f_is_nan. rewrite !fmag_mk by assumption.
  destruct (f_fields s1 e1 m1 F1) as (N1 & _ & _ & A1). destruct (f_fields s2 e2 m2 F2) as (N2 & _ & _ & A2).
  rewrite N1, N2, A1, A2.
  pose proof (gmag_iff e1 m1 e2 m2) as GC. pose proof (gmag_iff e2 m2 e1 m1) as GC'.
  pose proof (gmag_nonneg e1 m1) as G1. pose proof (gmag_nonneg e2 m2) as G2.
  pose proof (gmag_zero e1 m1) as Z1. pose proof (gmag_zero e2 m2) as Z2.
  unfold fields_ok, mk in *.
  destruct F1 as (S1 & He1 & Hm1); destruct F2 as (S2 & He2 & Hm2);
    specialize (GC ltac:(lia) ltac:(lia) ltac:(lia) ltac:(lia)); specialize (GC' ltac:(lia) ltac:(lia) ltac:(lia) ltac:(lia));
    specialize (G1 ltac:(lia) ltac:(lia)); specialize (G2 ltac:(lia) ltac:(lia));
    specialize (Z1 ltac:(lia) ltac:(lia)); specialize (Z2 ltac:(lia) ltac:(lia)).
  remember (gmag e1 m1) as g1. remember (gmag e2 m2) as g2.
  destruct S1 as [-> | ->]; destruct S2 as [-> | ->]; cbn [Z.eqb Pos.eqb]; intros; lia.
Qed.

(* inf and NaN have keys beyond every integer a value can hold *)
Lemma nonfinite_key b : f_valid b = true -> f_is_finite b = false -> 2 ^ 200 * SC <= Z.abs (fkey b).
Proof.
  intros V. destruct (f_decomp b V) as (s & e & m & F & ->). unfold fkey, f_is_finite. rewrite (fmag_mk s e m F).
  destruct (f_fields s e m F) as (N & _ & _ & A). rewrite A. intros NF.
  destruct F as (_ & He & Hm). assert (e = 2047) by lia. subst e.
  unfold gmag. cbn [Z.eqb]. replace (2047 - 1) with (972 + 1074) by lia. rewrite (pow2_split 972 1074) by lia. fold SC.
  pose proof SC_pos. assert (2 ^ 200 <= 2 ^ 972) by (apply Z.pow_le_mono_r; lia).
  assert (0 < 2 ^ 52) by (apply pow2_pos; lia).
  remember (2 ^ 972) as p. remember (2 ^ 200) as p2. remember (2 ^ 52) as p52.
  destruct (f_neg _); nia.
Qed.

Lemma zero_pattern b : f_valid b = true -> f_abs b = 0 -> b = 0 \/ b = 2 ^ 63.
Proof. unfold f_valid, f_abs. intros. lia. Qed.

Lemma finite_not_nan b : f_is_finite b = true -> f_is_nan b = false.
Proof. unfold f_is_finite, f_is_nan. lia. Qed.

Lemma scale_compare a b : (a * SC ?= b * SC) = (a ?= b).
Proof. symmetry. apply Zmult_compare_compat_r. pose proof SC_pos. lia. Qed.

Lemma then_with_Eq c : then_with c Eq = c.
Proof. destruct c; reflexivity. Qed.

(* a float whose key is the key of a rounded integer IS that float (up to the sign of zero) *)
Lemma key_eq_facts l z : f_valid l = true -> Z.abs z <= 2 ^ 128 -> fkey l = rne_int z * SC ->
  f_trunc l = rne_int z /\ f_frac_sign l = Eq /\ f_is_finite l = true.
Proof.
  intros V Hz K. pose proof (f_of_int_facts z Hz) as Fz.
  destruct (fkey_inj l (f_of_int z) V (iff_valid _ _ Fz)) as [-> | [Z1 Z2]].
  - rewrite K. symmetry. apply Fz.
  - split; [apply Fz|]. split; apply Fz.
  - assert (R0 : rne_int z = 0).
    { pose proof (iff_key _ _ Fz) as K2. pose proof SC_pos.
      destruct (zero_pattern _ (iff_valid _ _ Fz) Z2) as [E|E]; rewrite E in K2; change (fkey 0) with 0 in K2;
        change (fkey (2 ^ 63)) with 0 in K2; nia. }
    rewrite R0. destruct (zero_pattern _ V Z1) as [-> | ->]; repeat split; reflexivity.
Qed.

Lemma f_to_int_clamp lo hi b : f_is_nan b = false -> f_to_int lo hi b = Z.max lo (Z.min hi (f_trunc b)).
Proof. intros N. unfold f_to_int. rewrite N. reflexivity. Qed.

Lemma rne_i128_max : rne_int i128_max = 2 ^ 127. Proof. vm_compute. reflexivity. Qed.
Lemma rne_u128_max : rne_int u128_max = 2 ^ 128. Proof. vm_compute. reflexivity. Qed.
Lemma rne_i128_min : rne_int i128_min = i128_min. Proof. vm_compute. reflexivity. Qed.
Lemma rne_i64_min : rne_int i64_min = i64_min. Proof. vm_compute. reflexivity. Qed.

(* F3 *)
Lemma cmp_f64_i128_key l r : f_valid l = true -> i128_min <= r <= i128_max ->
  cmp_f64_i128 l r = (fkey l ?= r * SC).
Proof.
  intros V Hr. unfold cmp_f64_i128.
  assert (Hz : Z.abs r <= 2 ^ 128) by (unfold i128_min, i128_max in Hr; lia).
  pose proof (f_of_int_facts r Hz) as Fr.
  rewrite (cmp_f64_key l _ V (iff_valid _ _ Fr)), (iff_key _ _ Fr).
  destruct (fkey l ?= rne_int r * SC) eqn:C.
  - apply Z.compare_eq in C.
    destruct (key_eq_facts l r V Hz C) as (T & Fs & Fin). rewrite Fin.
    pose proof (finite_not_nan l Fin) as Nn. rewrite Nn. cbn [negb andb].
    assert (HM : Z.abs i128_max <= 2 ^ 128) by (unfold i128_max; lia).
    pose proof (f_of_int_facts i128_max HM) as FM.
    rewrite (f_lt_key l _ V (iff_valid _ _ FM) Nn (iff_nan _ _ FM)), (iff_key _ _ FM), rne_i128_max.
    rewrite (f_to_int_clamp _ _ l Nn), T, Fs, then_with_Eq. rewrite C, scale_compare.
    pose proof SC_pos as SP. pose proof rne_i128_min as Rm.
    unfold i128_min, i128_max in *.
    destruct (rne_int r * SC <? 2 ^ 127 * SC) eqn:LT; cbn [negb].
    + assert (rne_int r < 2 ^ 127) by nia.
      destruct (Z.compare_spec (Z.max (- 2 ^ 127) (Z.min (2 ^ 127 - 1) (rne_int r))) r);
      destruct (Z.compare_spec (rne_int r) r); try reflexivity; exfalso; try lia.
      all: assert (r = - 2 ^ 127) by lia; subst r; lia.
    + assert (2 ^ 127 <= rne_int r) by nia. symmetry. apply Z.compare_gt_iff. lia.
  - rewrite <- C. apply round_cmp; [apply fkey_gridded; auto|rewrite C; discriminate].
  - rewrite <- C. apply round_cmp; [apply fkey_gridded; auto|rewrite C; discriminate].
Qed.

(* F4 *)
Lemma cmp_f64_u128_key l r : f_valid l = true -> 0 <= r <= u128_max ->
  cmp_f64_u128 l r = (fkey l ?= r * SC).
Proof.
  intros V Hr. unfold cmp_f64_u128.
  assert (Hz : Z.abs r <= 2 ^ 128) by (unfold u128_max in Hr; lia).
  pose proof (f_of_int_facts r Hz) as Fr.
  rewrite (cmp_f64_key l _ V (iff_valid _ _ Fr)), (iff_key _ _ Fr).
  destruct (fkey l ?= rne_int r * SC) eqn:C.
  - apply Z.compare_eq in C.
    destruct (key_eq_facts l r V Hz C) as (T & Fs & Fin). rewrite Fin.
    pose proof (finite_not_nan l Fin) as Nn. rewrite Nn. cbn [negb andb].
    assert (HM : Z.abs u128_max <= 2 ^ 128) by (unfold u128_max; lia).
    pose proof (f_of_int_facts u128_max HM) as FM.
    rewrite (f_lt_key l 0 V eq_refl Nn eq_refl). change (fkey 0) with 0.
    rewrite (f_lt_key l _ V (iff_valid _ _ FM) Nn (iff_nan _ _ FM)), (iff_key _ _ FM), rne_u128_max.
    rewrite (f_to_int_clamp _ _ l Nn), T. rewrite C, scale_compare.
    pose proof SC_pos as SP.
    unfold u128_max in *.
    destruct (rne_int r * SC <? 0) eqn:L0.
    + assert (rne_int r < 0) by nia. symmetry. apply Z.compare_lt_iff. lia.
    + assert (0 <= rne_int r) by nia.
      destruct (rne_int r * SC <? 2 ^ 128 * SC) eqn:LT; cbn [negb].
      * assert (rne_int r < 2 ^ 128) by nia.
        replace (Z.max 0 (Z.min (2 ^ 128 - 1) (rne_int r))) with (rne_int r) by lia. reflexivity.
      * assert (2 ^ 128 <= rne_int r) by nia. symmetry. apply Z.compare_gt_iff. lia.
  - rewrite <- C. apply round_cmp; [apply fkey_gridded; auto|rewrite C; discriminate].
  - rewrite <- C. apply round_cmp; [apply fkey_gridded; auto|rewrite C; discriminate].
Qed.

Lemma rne_hi w : rne_int (int_hi w) = int_hi w + 1.
Proof. destruct w; vm_compute; reflexivity. Qed.

(* F2: when the lossless check of as_f64 succeeds the float is the integer *)
Lemma as_f64_exact w z : int_valid w z = true ->
  forall rv, as_f64 (VInt w z) false = Some rv -> f_valid rv = true /\ fkey rv = z * SC.
Proof.
  intros W rv. unfold as_f64. cbn [orb].
  assert (Hz : Z.abs z <= 2 ^ 128).
  { unfold int_valid in W. destruct w; cbn [int_lo int_hi] in W; unfold i64_min, i64_max, u64_max, i128_min, i128_max, u128_max in W; lia. }
  pose proof (f_of_int_facts z Hz) as Fz.
  destruct (_ && _) eqn:C; [|discriminate]. intros E. injection E as <-.
  split; [apply Fz|]. rewrite (iff_key _ _ Fz). f_equal.
  apply andb_prop in C. destruct C as [C1 C2].
  rewrite (f_to_int_clamp _ _ _ (iff_nan _ _ Fz)), (iff_trunc _ _ Fz) in C2.
  assert (HH : Z.abs (int_hi w) <= 2 ^ 128) by (destruct w; cbn; unfold i64_max, u64_max, i128_max, u128_max; lia).
  pose proof (f_of_int_facts (int_hi w) HH) as FH.
  rewrite (f_lt_key _ _ (iff_valid _ _ Fz) (iff_valid _ _ FH) (iff_nan _ _ Fz) (iff_nan _ _ FH)) in C1.
  rewrite (iff_key _ _ Fz), (iff_key _ _ FH), rne_hi in C1.
  assert (LE : rne_int z <= int_hi w) by (pose proof SC_pos; nia).
  assert (LO : rne_int (int_lo w) = int_lo w) by (destruct w; vm_compute; reflexivity).
  unfold int_valid in W.
  destruct (Z.eq_dec z (int_lo w)) as [->|NL]; [exact LO|]. lia.
Qed.


Lemma int_cmp_exact w1 x w2 y : int_valid w1 x = true -> int_valid w2 y = true ->
  scalar_cmp (VInt w1 x) (VInt w2 y) = (x ?= y).
Proof.
  unfold int_valid. intros W1 W2.
  destruct w1, w2; cbn [int_lo int_hi] in *;
    unfold scalar_cmp, coerce, to_i128, to_int, number_of, cmp_uncoercible, cmp_i128_u128;
    unfold i64_min, i64_max, u64_max, i128_min, i128_max, u128_max in *;
    repeat match goal with
           | |- context [if ?c then _ else _] => destruct c eqn:?
           end; try reflexivity; try lia;
    try (rewrite (Z.compare_antisym x y)); 
    try (destruct (Z.compare_spec x y); cbn; try reflexivity; exfalso; lia);
    try (destruct (Z.compare_spec y x); cbn; try reflexivity; exfalso; lia).
Qed.

Lemma int_valid_i128 w z : int_valid w z = true -> (w = W_I64 \/ w = W_I128) -> i128_min <= z <= i128_max.
Proof. unfold int_valid. intros H [-> | ->]; cbn [int_lo int_hi] in H; unfold i64_min, i64_max, i128_min, i128_max in *; lia. Qed.
Lemma int_valid_u128 w z : int_valid w z = true -> (w = W_U64 \/ w = W_U128) -> 0 <= z <= u128_max.
Proof. unfold int_valid. intros H [-> | ->]; cbn [int_lo int_hi] in H; unfold u64_max, u128_max in *; lia. Qed.

Lemma float_int_cmp x w z : f_valid x = true -> int_valid w z = true ->
  scalar_cmp (VFloat x) (VInt w z) = (fkey x ?= z * SC).
Proof.
  intros V W. unfold scalar_cmp, coerce.
  pose proof (as_f64_exact w z W) as EX.
  destruct (as_f64 (VInt w z) false) as [rv|] eqn:A.
  - destruct (EX rv eq_refl) as [Vr Kr]. rewrite (cmp_f64_key x rv V Vr), Kr. reflexivity.
  - cbn [number_of]. destruct w; cbn [cmp_uncoercible].
    + apply cmp_f64_i128_key; auto. eapply int_valid_i128; eauto.
    + apply cmp_f64_u128_key; auto. eapply int_valid_u128; eauto.
    + apply cmp_f64_i128_key; auto. eapply int_valid_i128; eauto.
    + apply cmp_f64_u128_key; auto. eapply int_valid_u128; eauto.
Qed.

Lemma int_float_cmp w z y : int_valid w z = true -> f_valid y = true ->
  scalar_cmp (VInt w z) (VFloat y) = (z * SC ?= fkey y).
Proof.
  intros W V. unfold scalar_cmp, coerce.
  pose proof (as_f64_exact w z W) as EX.
  destruct (as_f64 (VInt w z) false) as [rv|] eqn:A.
  - destruct (EX rv eq_refl) as [Vr Kr]. destruct w; rewrite (cmp_f64_key rv y Vr V), Kr; reflexivity.
  - rewrite (Z.compare_antisym (fkey y) (z * SC)).
    destruct w; cbn [number_of cmp_uncoercible]; f_equal.
    + apply cmp_f64_i128_key; auto. eapply int_valid_i128; eauto.
    + apply cmp_f64_u128_key; auto. eapply int_valid_u128; eauto.
    + apply cmp_f64_i128_key; auto. eapply int_valid_i128; eauto.
    + apply cmp_f64_u128_key; auto. eapply int_valid_u128; eauto.
Qed.

(* every comparison of two numbers is the comparison of their exact values *)
Theorem num_cmp_key a b : is_number a = true -> is_number b = true -> wf a = true -> wf b = true ->
  scalar_cmp a b = (nkey a ?= nkey b).
Proof.
  intros Na Nb Wa Wb.
  destruct a; try discriminate Na; destruct b; try discriminate Nb; cbn [wf nkey] in *.
  - rewrite int_cmp_exact by assumption. symmetry. apply scale_compare.
  - apply int_float_cmp; auto.
  - apply float_int_cmp; auto.
  - cbn. apply cmp_f64_key; auto.
Qed.
