(* C07: maps -- BuildMap yields a well-formed BTreeMap-backed map, and what carries over to the
   IndexMap-backed maps of feature `preserve_order`. *)
From MJ Require Import Common.Base C07.Model C07.Spec C07.Float C07.Proofs.

(* ------------------------------------------------------------------ *)
(* BuildMap yields a well-formed map (BTreeMap)                        *)
(* ------------------------------------------------------------------ *)
Definition wfpairs (kvs : list (value * value)) : Prop :=
  Forall (fun kv => wf (fst kv) = true /\ wf (snd kv) = true) kvs.

Definition head_lt (x : value) (l : list (value * value)) : Prop :=
  match l with [] => True | (k2, _) :: _ => vcmp x k2 = Lt end.

Lemma asc_cons k v l : keys_ascending ((k, v) :: l) = true <-> head_lt k l /\ keys_ascending l = true.
Proof.
  destruct l as [|[k2 v2] r]; cbn [keys_ascending head_lt].
  - split; auto.
  - split.
    + intros H. apply andb_prop in H. destruct H as [H1 H2]. split; auto. destruct (vcmp k k2); try discriminate; reflexivity.
    + intros [H1 H2]. rewrite H1. exact H2.
Qed.

Lemma head_lt_insert x k v l : head_lt x l -> vcmp x k = Lt -> head_lt x (map_insert k v l).
Proof.
  destruct l as [|[k2 v2] r]; cbn [map_insert head_lt]; auto.
  intros H L. destruct (vcmp k k2); cbn [head_lt]; auto.
Qed.

Lemma map_insert_asc k v l : wf k = true -> wfpairs l -> keys_ascending l = true ->
  keys_ascending (map_insert k v l) = true.
Proof.
  intros Wk. induction l as [|[k2 v2] r IH]; intros Wl A; cbn [map_insert]; [reflexivity|].
  apply Forall_cons_iff in Wl. destruct Wl as [[Wk2 _] Wr]. cbn [fst] in Wk2.
  apply asc_cons in A. destruct A as [H A].
  destruct (vcmp k k2) eqn:C.
  - apply asc_cons. split; auto.
  - apply asc_cons. split; [exact C|]. apply asc_cons. split; auto.
  - apply asc_cons. split; [|apply IH; auto].
    apply head_lt_insert; auto. rewrite (vcmp_anti k k2 Wk Wk2), C. reflexivity.
Qed.

Lemma map_insert_wfpairs k v l : wf k = true -> wf v = true -> wfpairs l -> wfpairs (map_insert k v l).
Proof.
  intros Wk Wv. induction l as [|[k2 v2] r IH]; intros Wl; cbn [map_insert].
  - constructor; [split; auto|constructor].
  - apply Forall_cons_iff in Wl. destruct Wl as [[Wk2 Wv2] Wr]. cbn [fst snd] in *.
    destruct (vcmp k k2); repeat (constructor; auto). apply IH; auto.
Qed.

Lemma wf_map_intro kvs : keys_ascending kvs = true -> wfpairs kvs -> wf (VMap kvs) = true.
Proof.
  intros A W. cbn [wf]. rewrite A. cbn [andb].
  induction W as [|[k x] r [Wk Wx] _ IH]; [reflexivity|]. cbn [fst snd] in *. rewrite Wk, Wx. cbn [andb].
  apply IH. destruct r as [|[k2 x2] r]; [reflexivity|]. cbn [keys_ascending] in A. apply andb_prop in A. apply A.
Qed.

Theorem map_build_wf_proof pairs : wfpairs pairs -> wf (VMap (map_build pairs)) = true.
Proof.
  intros W. unfold map_build.
  assert (G : forall m, wfpairs m -> keys_ascending m = true ->
              wfpairs (fold_left (fun m kv => map_insert (fst kv) (snd kv) m) pairs m) /\
              keys_ascending (fold_left (fun m kv => map_insert (fst kv) (snd kv) m) pairs m) = true).
  { induction W as [|[k v] r [Wk Wv] _ IH]; intros m Wm Am; cbn [fold_left]; [split; auto|].
    cbn [fst snd] in *. apply IH; [apply map_insert_wfpairs; auto|apply map_insert_asc; auto]. }
  destruct (G [] ltac:(constructor) eq_refl) as [G1 G2]. apply wf_map_intro; auto.
Qed.

(* ------------------------------------------------------------------ *)
(* IndexMap (feature preserve_order)                                   *)
(* ------------------------------------------------------------------ *)
Fixpoint map_free (v : value) : bool :=
  let all := fix all (xs : list value) : bool :=
    match xs with [] => true | x :: r => map_free x && all r end in
  match v with
  | VSeq xs | VTuple xs | VIter _ xs => all xs
  | VMap _ => false
  | _ => true
  end.

Lemma map_free_items v : map_free v = true -> Forall (fun x => map_free x = true) (items_of v).
Proof.
  destruct v; cbn [items_of]; try (intros; constructor); try discriminate.
  all: cbn [map_free]; induction vs; intros H; constructor; apply andb_prop in H; destruct H; auto.
Qed.

(* without maps inside, == does not depend on the map implementation *)
Lemma veq_i_map_free a : forall vb, map_free a = true -> veq_i a vb = veq a vb.
Proof.
  induction a using value_ind'; intros vb MF; try reflexivity; try discriminate MF.
  all: cbn [veq_i veq]; destruct vb; try reflexivity; f_equal;
    pose proof (map_free_items _ MF) as MI; cbn [items_of] in MI; clear MF;
    revert vs; induction H as [|x xs Hx _ IH]; intros [|y ys]; try reflexivity;
    apply Forall_cons_iff in MI; destruct MI as [Mx MI]; rewrite (Hx y Mx); f_equal; apply IH; exact MI.
Qed.


(* ------------------------------------------------------------------ *)
(* containment                                                         *)
(* ------------------------------------------------------------------ *)
Lemma is_prefix_spec t : forall s, is_prefix t s = true <-> exists post, s = t ++ post.
Proof.
  induction t as [|x t IH]; intros s; cbn [is_prefix].
  - split; [intros _; exists s; reflexivity|auto].
  - destruct s as [|y s]; [split; [discriminate|intros [post H]; discriminate H]|].
    split.
    + intros H. apply andb_prop in H. destruct H as [H1 H2]. apply Z.eqb_eq in H1. subst y.
      apply IH in H2. destruct H2 as [post ->]. exists post. reflexivity.
    + intros [post H]. cbn in H. injection H as -> ->. rewrite Z.eqb_refl. cbn. apply IH. exists post. reflexivity.
Qed.

Lemma is_infix_spec t : forall s, is_infix t s = true <-> exists pre post, s = pre ++ t ++ post.
Proof.
  intros s. induction s as [|y s IH]; cbn [is_infix].
  - rewrite orb_false_r. rewrite is_prefix_spec. split.
    + intros [post H]. exists [], post. exact H.
    + intros [pre [post H]]. destruct pre; [exists post; exact H|discriminate H].
  - split.
    + intros H. apply orb_prop in H. destruct H as [H|H].
      * apply is_prefix_spec in H. destruct H as [post H]. exists [], post. exact H.
      * apply IH in H. destruct H as [pre [post ->]]. exists (y :: pre), post. reflexivity.
    + intros [pre [post H]]. destruct pre as [|p pre].
      * apply orb_true_intro. left. apply is_prefix_spec. exists post. exact H.
      * apply orb_true_intro. right. cbn in H. injection H as -> ->. apply IH. exists pre, post. reflexivity.
Qed.

(* strings: substring semantics *)
Theorem contains_strings o f s g t :
  contains_o o (VStr f s) (VStr g t) = Ok (is_infix t s) /\
  (is_infix t s = true <-> exists pre post, s = pre ++ t ++ post).
Proof. split; [reflexivity|apply is_infix_spec]. Qed.

(* lists, tuples, lazy iterables: v in c iff some element is == v *)
Theorem contains_seq o c v xs : (c = VSeq xs \/ c = VTuple xs \/ exists sh, c = VIter sh xs) ->
  exists b, contains_o o c v = Ok b /\ (b = true <-> exists e, In e xs /\ veq_o o e v = true).
Proof.
  intros H. exists (existsb (fun e => veq_o o e v) xs). split.
  - destruct H as [-> | [-> | [sh ->]]]; reflexivity.
  - rewrite existsb_exists. reflexivity.
Qed.

Lemma map_get_some v kvs : (exists x, map_get v kvs = Some x) <-> exists kv, In kv kvs /\ vcmp v (fst kv) = Eq.
Proof.
  induction kvs as [|[k x] r IH]; cbn [map_get].
  - split; [intros [x H]; discriminate H|intros [kv [[] _]]].
  - destruct (vcmp v k) eqn:C.
    + split; [intros _; exists (k, x); split; [left; reflexivity|exact C]|intros _; exists x; reflexivity].
    + rewrite IH. split; intros [kv [H1 H2]]; [exists kv; split; [right|]; auto|].
      destruct H1 as [<- | H1]; [cbn in H2; congruence|exists kv; auto].
    + rewrite IH. split; intros [kv [H1 H2]]; [exists kv; split; [right|]; auto|].
      destruct H1 as [<- | H1]; [cbn in H2; congruence|exists kv; auto].
Qed.

(* maps (default build): v in m iff some key is == v -- outside the known pair classes, NaN
   aside -- and iff m[v] is defined *)
Theorem contains_map kvs v : wf (VMap kvs) = true -> wf v = true -> nan_free v = true ->
  (forall kv, In kv kvs -> cross_kind v (fst kv) = false) ->
  exists b, contains_o Sorted (VMap kvs) v = Ok b /\
            (b = true <-> exists kv, In kv kvs /\ veq v (fst kv) = true) /\
            (b = true <-> exists x, map_get v kvs = Some x).
Proof.
  intros W Wv NF NK.
  exists (match map_get v kvs with Some _ => true | None => false end). split; [reflexivity|].
  destruct (wf_map _ W) as [_ Wk]. unfold wfkeys in Wk. rewrite Forall_forall in Wk.
  assert (L : (match map_get v kvs with Some _ => true | None => false end) = true <-> exists x, map_get v kvs = Some x).
  { destruct (map_get v kvs) as [x|]; split; intros H; try discriminate H; [exists x; reflexivity|reflexivity|destruct H as [x H]; discriminate H]. }
  split; [|exact L].
  rewrite L, map_get_some. split; intros [kv [H1 H2]]; exists kv; split; auto.
  - apply cmp_eq_veq; auto.
  - apply veq_cmp_eq; auto.
Qed.

(* ------------------------------------------------------------------ *)
(* comparison chains                                                   *)
(* ------------------------------------------------------------------ *)
Lemma not_in_negates_in_proof o l r :
  cmp_link o ONotIn l r = bind (cmp_link o OIn l r) (fun b => Ok (negb b)).
Proof. reflexivity. Qed.

Lemma chain_two_proof o a op1 b op2 c :
  chain o a [(op1, b); (op2, c)] = Ok true <-> cmp_link o op1 a b = Ok true /\ cmp_link o op2 b c = Ok true.
Proof.
  cbn [chain]. destruct (cmp_link o op1 a b) as [[|]| | |]; cbn [bind].
  - destruct (cmp_link o op2 b c) as [[|]| | |]; cbn [bind]; split; intros H; try (destruct H as [_ H]); try discriminate H; auto.
  - split; intros H; [discriminate H|destruct H as [H _]; discriminate H].
  - split; intros H; [discriminate H|destruct H as [H _]; discriminate H].
  - split; intros H; [discriminate H|destruct H as [H _]; discriminate H].
  - split; intros H; [discriminate H|destruct H as [H _]; discriminate H].
Qed.
