(* C07 model: minijinja/src/value/mod.rs (impl PartialEq / Ord / Hash for Value, cmp_f64,
   f64_total_cmp, cmp_f64_i128, cmp_f64_u128, cmp_i128_u128, cmp_uncoercible_numbers),
   value/ops.rs (as_f64, coerce with lossy = false), value/argtypes.rs (TryFrom<Value> for
   i64 / i128), value/object.rs (Hash for DynObject, BTreeMap<Value, Value> lookups) and
   filters.rs (cmp_helper, sort, unique, groupby, batch, slice, reverse, min, max),
   mirrored function by function.  No proofs in this file.

   The model follows the code WITH the C07 fixes (commit 2952ae1 as_f64 round trip -- shared
   with C08 --, and the worktree commits: i64::try_from of the float 2^63, case folding only
   for strings, sort(attribute) with failing lookups, batch/slice capacity, reverse of a
   map); known/C07.json lists the hashes and what each of them repaired.  It also follows
   the C01 fixes that touch this code: two invalid values are ordered by kind, slice makes at
   most 100000 slices, batch pads with at most 100000 fill items.  Behaviour that stays as it is and
   is a known finding is modelled as it is (kind-first ordering vs ==, Enumerator::RevIter in
   Value::reverse, the groupby label).

   Floats are IEEE binary64 *bit patterns* (a Z in [0, 2^64)); every float operation the
   code uses (==, total_cmp, `as f64` of an integer with round-to-nearest-even, saturating
   `as i64/i128/u128`, trunc, is_finite, >=) is defined on the bit pattern with integer
   arithmetic only.  Strings are lists of code points (Rust compares UTF-8 bytes, which
   orders exactly like the code points). *)
From MJ Require Import Common.Base.

(* ------------------------------------------------------------------------------------ *)
(* values                                                                               *)
(* ------------------------------------------------------------------------------------ *)
Inductive iw := W_I64 | W_U64 | W_I128 | W_U128.    (* ValueRepr::{I64,U64,I128,U128} *)

(* how a lazy iterable enumerates: make_iterable with an unknown / exact size hint
   (Enumerator::Iter), or an object with a double-ended iterator (Enumerator::RevIter:
   LinkedList, BTreeSet values).  Only Value::reverse looks at it. *)
Inductive lazy_shape := LzUnsized | LzSized | LzRev.

Inductive value :=
| VUndef
| VNone
| VBool (b : bool)
| VInt (w : iw) (z : Z)
| VFloat (bits : Z)
| VStr (safe : bool) (s : list Z)        (* String / SmallStr; [safe] is never looked at by ==, cmp, hash *)
| VBytes (bs : list Z)
| VSeq (vs : list value)                 (* Vec<Value>: ObjectRepr::Seq *)
| VTuple (vs : list value)               (* Tuple: ObjectRepr::Seq, is_tuple *)
| VIter (sh : lazy_shape) (vs : list value) (* ObjectRepr::Iterable *)
| VMap (kvs : list (value * value))      (* ValueMap, pairs in iteration order *)
| VPlain (s : list Z)                    (* ObjectRepr::Plain object, [s] = its rendering *)
| VInvalid (detail : list Z).            (* ValueRepr::Invalid: an error of kind InvalidOperation carried as a value *)

(* ------------------------------------------------------------------------------------ *)
(* generic list helpers                                                                 *)
(* ------------------------------------------------------------------------------------ *)
Fixpoint zlist_eqb (a b : list Z) : bool :=
  match a, b with
  | [], [] => true
  | x :: a', y :: b' => (x =? y) && zlist_eqb a' b'
  | _, _ => false
  end.

(* Iterator::cmp / slice cmp / str cmp: lexicographic, a proper prefix is Less *)
Fixpoint zlist_cmp (a b : list Z) : comparison :=
  match a, b with
  | [], [] => Eq
  | [], _ :: _ => Lt
  | _ :: _, [] => Gt
  | x :: a', y :: b' => match x ?= y with Eq => zlist_cmp a' b' | r => r end
  end.

Definition bool_cmp (a b : bool) : comparison :=
  match a, b with
  | false, true => Lt
  | true, false => Gt
  | _, _ => Eq
  end.

(* ------------------------------------------------------------------------------------ *)
(* binary64 on bit patterns                                                             *)
(* ------------------------------------------------------------------------------------ *)
Definition f_neg (bits : Z) : bool := 2 ^ 63 <=? bits.
Definition f_exp (bits : Z) : Z := (bits / 2 ^ 52) mod 2 ^ 11.
Definition f_man (bits : Z) : Z := bits mod 2 ^ 52.
Definition f_abs (bits : Z) : Z := bits mod 2 ^ 63.
Definition f_is_nan (bits : Z) : bool := 2047 * 2 ^ 52 <? f_abs bits.
Definition f_is_finite (bits : Z) : bool := f_abs bits <? 2047 * 2 ^ 52.

(* IEEE `==`: false with a NaN; +0 == -0; otherwise equality of the patterns *)
Definition f_eq (a b : Z) : bool :=
  negb (f_is_nan a) && negb (f_is_nan b) && ((a =? b) || ((f_abs a =? 0) && (f_abs b =? 0))).

(* IEEE `<` (both operands non-NaN when the code uses it) *)
Definition f_sm (bits : Z) : Z := if f_neg bits then - f_abs bits else f_abs bits.
Definition f_lt (a b : Z) : bool :=
  negb (f_is_nan a) && negb (f_is_nan b) && (f_sm a <? f_sm b).

(* mod.rs::f64_total_cmp: `left ^= (((left >> 63) as u64) >> 1) as i64` maps the pattern to
   an i64 that orders like the IEEE totalOrder *)
Definition f_total_key (bits : Z) : Z :=
  if f_neg bits then - (bits - 2 ^ 63) - 1 else bits.
Definition f_total_cmp (a b : Z) : comparison := f_total_key a ?= f_total_key b.

(* mod.rs::cmp_f64 *)
Definition cmp_f64 (a b : Z) : comparison := if f_eq a b then Eq else f_total_cmp a b.

(* `x as f64` for an integer (round to nearest, ties to even); |x| <= 2^128 never overflows *)
Definition f_of_pos (x : Z) : Z :=
  let L := Z.log2 x in
  if L <=? 52 then (L + 1023) * 2 ^ 52 + (x * 2 ^ (52 - L) - 2 ^ 52)
  else
    let k := L - 52 in
    let q := x / 2 ^ k in
    let r := x mod 2 ^ k in
    let h := 2 ^ (k - 1) in
    let q' := if (h <? r) || ((r =? h) && Z.odd q) then q + 1 else q in
    (L + 1023) * 2 ^ 52 + (q' - 2 ^ 52).
Definition f_of_int (x : Z) : Z :=
  if x =? 0 then 0 else if 0 <? x then f_of_pos x else 2 ^ 63 + f_of_pos (- x).

(* f64::trunc as an integer (finite and infinite patterns; the magnitude of inf is beyond
   every integer type so the saturating casts below handle it uniformly) *)
Definition f_trunc_mag (bits : Z) : Z :=
  let e := f_exp bits in
  if e =? 0 then 0
  else
    let sig := 2 ^ 52 + f_man bits in
    if 1075 <=? e then sig * 2 ^ (e - 1075) else sig / 2 ^ (1075 - e).
Definition f_trunc (bits : Z) : Z := if f_neg bits then - f_trunc_mag bits else f_trunc_mag bits.

(* `f as <int type>`: NaN -> 0, otherwise truncate and saturate *)
Definition f_to_int (lo hi : Z) (bits : Z) : Z :=
  if f_is_nan bits then 0 else Z.max lo (Z.min hi (f_trunc bits)).

(* is the float an integer? (left.partial_cmp(&left.trunc())) *)
Definition f_frac_sign (bits : Z) : comparison :=
  (* compare left with trunc(left): Eq when integral, Gt for positive with fraction, Lt for negative with fraction *)
  let e := f_exp bits in
  let integral :=
    if e =? 0 then f_man bits =? 0
    else if 1075 <=? e then true
    else (2 ^ 52 + f_man bits) mod 2 ^ (1075 - e) =? 0 in
  if integral then Eq else if f_neg bits then Lt else Gt.

(* ------------------------------------------------------------------------------------ *)
(* conversions                                                                          *)
(* ------------------------------------------------------------------------------------ *)
Definition int_lo (w : iw) : Z :=
  match w with W_I64 => i64_min | W_U64 => 0 | W_I128 => i128_min | W_U128 => 0 end.
Definition int_hi (w : iw) : Z :=
  match w with W_I64 => i64_max | W_U64 => u64_max | W_I128 => i128_max | W_U128 => u128_max end.

(* `val as i64 as f64 == val && val < i64::MAX as f64` -- the guard of the F64 arm of
   primitive_int_try_from *)
Definition f_fits_i64 (bits : Z) : bool :=
  f_eq (f_of_int (f_to_int i64_min i64_max bits)) bits && f_lt bits (f_of_int i64_max).

(* argtypes.rs: TryFrom<Value> for i64 / i128 *)
Definition to_int (lo hi : Z) (v : value) : option Z :=
  let chk z := if (lo <=? z) && (z <=? hi) then Some z else None in
  match v with
  | VBool b => chk (if b then 1 else 0)
  | VInt _ z => chk z
  | VFloat bits => if f_fits_i64 bits then chk (f_to_int i64_min i64_max bits) else None
  | _ => None
  end.
Definition to_i64 := to_int i64_min i64_max.
Definition to_i128 := to_int i128_min i128_max.

(* ops.rs::as_f64 *)
Definition as_f64 (v : value) (lossy : bool) : option Z :=
  match v with
  | VBool b => Some (if b then f_of_int 1 else 0)
  | VInt w z =>
      let rv := f_of_int z in
      (* `rv < <$ty>::MAX as f64 && rv as $ty == $expr` (the cast back saturates) *)
      if lossy || (f_lt rv (f_of_int (int_hi w)) && (f_to_int (int_lo w) (int_hi w) rv =? z))
      then Some rv else None
  | VFloat bits => Some bits
  | _ => None
  end.

Inductive coerced :=
| CoI (a b : Z)
| CoF (a b : Z)
| CoS (a b : list Z).

(* ops.rs::coerce(a, b, lossy = false) *)
Definition coerce (a b : value) : option coerced :=
  match a, b with
  | VInt W_U64 x, VInt W_U64 y => Some (CoI x y)
  | VStr _ x, VStr _ y => Some (CoS x y)
  | VInt W_I64 x, VInt W_I64 y => Some (CoI x y)
  | VInt W_I128 x, VInt W_I128 y => Some (CoI x y)
  | VFloat x, VFloat y => Some (CoF x y)
  | VFloat x, _ => match as_f64 b false with Some y => Some (CoF x y) | None => None end
  | _, VFloat y => match as_f64 a false with Some x => Some (CoF x y) | None => None end
  | _, _ => match to_i128 a, to_i128 b with
            | Some x, Some y => Some (CoI x y)
            | _, _ => None
            end
  end.

(* ------------------------------------------------------------------------------------ *)
(* Ord                                                                                  *)
(* ------------------------------------------------------------------------------------ *)
(* ValueKind, in declaration order (derive(PartialOrd, Ord)) *)
Definition kind_rank (v : value) : Z :=
  match v with
  | VUndef => 0
  | VNone => 1
  | VBool _ => 2
  | VInt _ _ | VFloat _ => 3
  | VStr _ _ => 4
  | VBytes _ => 5
  | VSeq _ | VTuple _ => 6
  | VMap _ => 7
  | VIter _ _ => 8
  | VPlain _ => 9
  | VInvalid _ => 10
  end.

Definition is_tuple (v : value) : bool := match v with VTuple _ => true | _ => false end.

Inductive number := NI (z : Z) | NU (z : Z) | NF (bits : Z).
Definition number_of (v : value) : option number :=
  match v with
  | VInt W_U64 z | VInt W_U128 z => Some (NU z)
  | VInt W_I64 z | VInt W_I128 z => Some (NI z)
  | VFloat b => Some (NF b)
  | _ => None
  end.

Definition cmp_i128_u128 (l r : Z) : comparison := if l <? 0 then Lt else l ?= r.

Definition then_with (a b : comparison) : comparison := match a with Eq => b | _ => a end.

(* mod.rs::cmp_f64_i128 *)
Definition cmp_f64_i128 (l : Z) (r : Z) : comparison :=
  match cmp_f64 l (f_of_int r) with
  | Eq =>
      if f_is_finite l then
        if negb (f_lt l (f_of_int i128_max)) && negb (f_is_nan l) then Gt
        else then_with (f_to_int i128_min i128_max l ?= r) (f_frac_sign l)
      else Eq
  | rv => rv
  end.

(* mod.rs::cmp_f64_u128 *)
Definition cmp_f64_u128 (l : Z) (r : Z) : comparison :=
  match cmp_f64 l (f_of_int r) with
  | Eq =>
      if f_is_finite l then
        if f_lt l 0 then Lt
        else if negb (f_lt l (f_of_int u128_max)) && negb (f_is_nan l) then Gt
        else f_to_int 0 u128_max l ?= r
      else Eq
  | rv => rv
  end.

(* mod.rs::cmp_uncoercible_numbers *)
Definition cmp_uncoercible (a b : number) : comparison :=
  match a, b with
  | NF x, NF y => cmp_f64 x y
  | NF x, NI y => cmp_f64_i128 x y
  | NI x, NF y => CompOpp (cmp_f64_i128 y x)
  | NF x, NU y => cmp_f64_u128 x y
  | NU x, NF y => CompOpp (cmp_f64_u128 y x)
  | NI x, NI y => x ?= y
  | NU x, NU y => x ?= y
  | NI x, NU y => cmp_i128_u128 x y
  | NU x, NI y => CompOpp (cmp_i128_u128 y x)
  end.

(* the non-object arms of Ord::cmp; both values have the same kind *)
Definition scalar_cmp (a b : value) : comparison :=
  match a, b with
  | VNone, VNone => Eq
  | VUndef, VUndef => Eq
  | VStr _ x, VStr _ y => zlist_cmp x y
  | VBytes x, VBytes y => zlist_cmp x y
  | VInt W_U128 x, VInt W_U128 y => x ?= y
  | _, _ =>
      match coerce a b with
      | Some (CoF x y) => cmp_f64 x y
      | Some (CoI x y) => x ?= y
      | Some (CoS x y) => zlist_cmp x y
      | None =>
          match number_of a, number_of b with
          | Some x, Some y => cmp_uncoercible x y
          | _, _ => Eq   (* two invalid values: `return kind_ordering` (Equal) *)
          end
      end
  end.

Fixpoint vcmp (a b : value) {struct a} : comparison :=
  match kind_rank a ?= kind_rank b with
  | Lt => Lt
  | Gt => Gt
  | Eq =>
      let lex := fix lex (xs ys : list value) {struct xs} : comparison :=
        match xs, ys with
        | [], [] => Eq
        | [], _ :: _ => Lt
        | _ :: _, [] => Gt
        | x :: xs', y :: ys' => match vcmp x y with Eq => lex xs' ys' | r => r end
        end in
      let seq xs :=
        match bool_cmp (is_tuple a) (is_tuple b) with
        | Eq => match b with
                | VSeq ys | VTuple ys | VIter _ ys => lex xs ys
                | _ => Eq
                end
        | r => r
        end in
      match a with
      | VSeq xs => seq xs
      | VTuple xs => seq xs
      | VIter _ xs => seq xs
      | VMap kvs =>
          match b with
          | VMap kvs2 =>
              (fix lexp (xs : list (value * value)) (ys : list (value * value)) {struct xs} : comparison :=
                 match xs, ys with
                 | [], [] => Eq
                 | [], _ :: _ => Lt
                 | _ :: _, [] => Gt
                 | (k1, v1) :: xs', (k2, v2) :: ys' =>
                     match vcmp k1 k2 with
                     | Eq => match vcmp v1 v2 with Eq => lexp xs' ys' | r => r end
                     | r => r
                     end
                 end) kvs kvs2
          | _ => Eq
          end
      | VPlain s => match b with VPlain t => zlist_cmp s t | _ => Eq end
      | _ => scalar_cmp a b
      end
  end.

(* ------------------------------------------------------------------------------------ *)
(* BTreeMap<Value, Value> (the default ValueMap)                                        *)
(* ------------------------------------------------------------------------------------ *)
(* BTreeMap::get: the entry whose key compares Equal to the probe (keys are strictly ascending) *)
Fixpoint map_get (k : value) (kvs : list (value * value)) : option value :=
  match kvs with
  | [] => None
  | (k2, v2) :: r => match vcmp k k2 with Eq => Some v2 | _ => map_get k r end
  end.

(* BTreeMap::insert: an existing Equal key keeps its key and takes the new value *)
Fixpoint map_insert (k v : value) (kvs : list (value * value)) : list (value * value) :=
  match kvs with
  | [] => [(k, v)]
  | (k2, v2) :: r =>
      match vcmp k k2 with
      | Lt => (k, v) :: kvs
      | Eq => (k2, v) :: r
      | Gt => (k2, v2) :: map_insert k v r
      end
  end.

(* vm: Instruction::BuildMap -- pairs are inserted in source order *)
Definition map_build (pairs : list (value * value)) : list (value * value) :=
  fold_left (fun m kv => map_insert (fst kv) (snd kv) m) pairs [].

(* ------------------------------------------------------------------------------------ *)
(* PartialEq                                                                            *)
(* ------------------------------------------------------------------------------------ *)
Definition scalar_eq (a b : value) : bool :=
  match a, b with
  | VNone, VNone => true
  | VUndef, VUndef => true
  | VStr _ x, VStr _ y => zlist_eqb x y
  | VBytes x, VBytes y => zlist_eqb x y
  | VInt W_U128 x, VInt W_U128 y => x =? y
  | _, _ =>
      match coerce a b with
      | Some (CoF x y) => f_eq x y
      | Some (CoI x y) => x =? y
      | Some (CoS x y) => zlist_eqb x y
      | None => false
      end
  end.

(* Note on the Map arm: the code evaluates `b.get_value(&k) == Some(v1)`, i.e.
   Value::eq(found, v1); the model calls [veq v1 found] (structural recursion on the first
   argument).  The two coincide where == is symmetric (theorem veq_sym: well-formed values
   outside the known pair classes, NaN aside); the correspondence run compares both argument
   orders of every pair of the pool. *)
Fixpoint veq (a b : value) {struct a} : bool :=
  let elems := fix elems (xs ys : list value) {struct xs} : bool :=
    match xs, ys with
    | [], [] => true
    | x :: xs', y :: ys' => veq x y && elems xs' ys'
    | _, _ => false
    end in
  let seq xs :=
    match b with
    | VSeq ys | VTuple ys | VIter _ ys => Bool.eqb (is_tuple a) (is_tuple b) && elems xs ys
    | _ => false
    end in
  match a with
  | VSeq xs => seq xs
  | VTuple xs => seq xs
  | VIter _ xs => seq xs
  | VMap kvs =>
      match b with
      | VMap kvs2 =>
          (length kvs =? length kvs2)%nat &&
          (fix all (xs : list (value * value)) : bool :=
             match xs with
             | [] => true
             | (k, v1) :: r =>
                 match map_get k kvs2 with
                 | Some v2 => veq v1 v2
                 | None => false
                 end && all r
             end) kvs
      | _ => false
      end
  | VPlain s => match b with VPlain t => zlist_eqb s t | _ => false end
  | _ => scalar_eq a b
  end.

(* ------------------------------------------------------------------------------------ *)
(* Hash: the byte stream fed to the Hasher (std's SipHasher concatenates writes)        *)
(* ------------------------------------------------------------------------------------ *)
Fixpoint le_bytes (n : nat) (z : Z) : list Z :=
  match n with
  | O => []
  | S n => z mod 256 :: le_bytes n (z / 256)
  end.
Definition le64 (z : Z) : list Z := le_bytes 8 (z mod 2 ^ 64).

Definition utf8 (c : Z) : list Z :=
  if c <? 128 then [c]
  else if c <? 2048 then [192 + c / 64; 128 + c mod 64]
  else if c <? 65536 then [224 + c / 4096; 128 + (c / 64) mod 64; 128 + c mod 64]
  else [240 + c / 262144; 128 + (c / 4096) mod 64; 128 + (c / 64) mod 64; 128 + c mod 64].

(* the numeric arm of Hash::hash *)
Definition num_hash (v : value) : list Z :=
  match to_i64 v with
  | Some z => le64 z
  | None =>
      match as_f64 v true with
      | Some bits => le64 1 ++ le64 bits       (* Option<u64>: discriminant, then the bits *)
      | None => le64 0
      end
  end.

Fixpoint vhash (v : value) : list Z :=
  let pairs := fix pairs (i : Z) (xs : list value) : list Z :=
    match xs with
    | [] => []
    | x :: r => le64 i ++ vhash x ++ pairs (i + 1) r
    end in
  match v with
  | VNone | VUndef => [0]
  | VStr _ s => flat_map utf8 s ++ [255]
  | VBool b => [if b then 1 else 0]
  | VBytes bs => le64 (lenZ bs) ++ bs
  | VSeq xs => 0 :: pairs 0 xs
  | VTuple xs => 1 :: pairs 0 xs
  | VIter _ xs => 0 :: pairs 0 xs
  | VMap kvs =>
      0 :: (fix mp (xs : list (value * value)) : list Z :=
              match xs with
              | [] => []
              | (k, x) :: r => vhash k ++ vhash x ++ mp r
              end) kvs
  | VPlain _ => [0]
  | VInt _ _ | VFloat _ => num_hash v
  | VInvalid d => le64 3 ++ le64 1 ++ flat_map utf8 d ++ [255]     (* (e.kind(), e.detail()).hash *)
  end.

Definition hash_eq (a b : value) : bool := zlist_eqb (vhash a) (vhash b).

(* ------------------------------------------------------------------------------------ *)
(* feature `preserve_order`: ValueMap = IndexMap<Value, Value>                          *)
(* ------------------------------------------------------------------------------------ *)
(* Which map implementation backs ValueMap.  Ord::cmp and Hash::hash walk the pairs in
   iteration order in both cases (no parameter needed: a [VMap] lists its pairs in iteration
   order); what changes is how a map is built and how a key is looked up, and with it the
   Map arm of PartialEq. *)
Inductive map_order := Sorted | Insertion.

(* IndexMap::get: the first entry whose hash equals the probe's and whose key is == to it
   (`probe.equivalent(stored)`); a map with a single entry is compared with == alone.
   Modelled with full hashes: hashbrown really compares 7 hash
   bits before calling ==, so for two keys that are == but hash differently (the bool /
   number known finding) the real answer depends on the map's random hasher state; the
   correspondence run leaves such lookups out. *)
Fixpoint veq_i (a b : value) {struct a} : bool :=
  let elems := fix elems (xs ys : list value) {struct xs} : bool :=
    match xs, ys with
    | [], [] => true
    | x :: xs', y :: ys' => veq_i x y && elems xs' ys'
    | _, _ => false
    end in
  let seq xs :=
    match b with
    | VSeq ys | VTuple ys | VIter _ ys => Bool.eqb (is_tuple a) (is_tuple b) && elems xs ys
    | _ => false
    end in
  match a with
  | VSeq xs => seq xs
  | VTuple xs => seq xs
  | VIter _ xs => seq xs
  | VMap kvs =>
      match b with
      | VMap kvs2 =>
          (length kvs =? length kvs2)%nat &&
          (fix all (xs : list (value * value)) : bool :=
             match xs with
             | [] => true
             | (k, v1) :: r =>
                 match kvs2 with
                 | [(k2, v2)] => veq_i k k2 && veq_i v1 v2     (* get_index_of: a single entry is compared with == only *)
                 | _ =>
                     (fix find (l : list (value * value)) : bool :=
                        match l with
                        | [] => false
                        | (k2, v2) :: l' => if hash_eq k k2 && veq_i k k2 then veq_i v1 v2 else find l'
                        end) kvs2
                 end && all r
             end) kvs
      | _ => false
      end
  | VPlain s => match b with VPlain t => zlist_eqb s t | _ => false end
  | _ => scalar_eq a b
  end.

Fixpoint imap_find (k : value) (kvs : list (value * value)) : option value :=
  match kvs with
  | [] => None
  | (k2, v2) :: r => if hash_eq k k2 && veq_i k k2 then Some v2 else imap_find k r
  end.
(* IndexMap::get_index_of: `[x] => key.equivalent(&x.key)` -- no hashing for a single entry *)
Definition imap_get (k : value) (kvs : list (value * value)) : option value :=
  match kvs with
  | [(k2, v2)] => if veq_i k k2 then Some v2 else None
  | _ => imap_find k kvs
  end.

(* IndexMap::insert: an existing equal key keeps its key and position and takes the new
   value; a new key goes to the end *)
Fixpoint imap_insert (k v : value) (kvs : list (value * value)) : list (value * value) :=
  match kvs with
  | [] => [(k, v)]
  | (k2, v2) :: r => if hash_eq k k2 && veq_i k k2 then (k2, v) :: r else (k2, v2) :: imap_insert k v r
  end.

Definition map_build_o (o : map_order) (pairs : list (value * value)) : list (value * value) :=
  match o with
  | Sorted => map_build pairs
  | Insertion => fold_left (fun m kv => imap_insert (fst kv) (snd kv) m) pairs []
  end.
Definition map_get_o (o : map_order) := match o with Sorted => map_get | Insertion => imap_get end.
Definition veq_o (o : map_order) := match o with Sorted => veq | Insertion => veq_i end.

(* ------------------------------------------------------------------------------------ *)
(* the collection filters, over any element type                                        *)
(* ------------------------------------------------------------------------------------ *)
Section Filters.
  Context {A : Type}.
  Variable cmp : A -> A -> comparison.

  (* slice::sort_by is a stable sort; modelled as insertion sort that keeps an earlier
     element in front of every later element it does not compare Greater to *)
  Fixpoint insert_sorted (x : A) (l : list A) : list A :=
    match l with
    | [] => [x]
    | y :: r => match cmp x y with Gt => y :: insert_sorted x r | _ => x :: l end
    end.
  Fixpoint stable_sort (l : list A) : list A :=
    match l with
    | [] => []
    | x :: r => insert_sorted x (stable_sort r)
    end.

  (* Iterator::min / max: min keeps the first of several minima, max the last of several maxima *)
  Definition min_of (l : list A) : option A :=
    match l with
    | [] => None
    | x :: r => Some (fold_left (fun m y => match cmp m y with Gt => y | _ => m end) r x)
    end.
  Definition max_of (l : list A) : option A :=
    match l with
    | [] => None
    | x :: r => Some (fold_left (fun m y => match cmp m y with Gt => m | _ => y end) r x)
    end.

  (* filters.rs::unique -- [key] is the memorized value, the BTreeSet is searched with cmp *)
  Variable key : A -> A.
  Definition seen_before (k : A) (seen : list A) : bool :=
    existsb (fun s => match cmp k s with Eq => true | _ => false end) seen.
  Fixpoint unique_go (seen : list A) (l : list A) : list A :=
    match l with
    | [] => []
    | x :: r =>
        if seen_before (key x) seen then unique_go seen r
        else x :: unique_go (key x :: seen) r
    end.
  Definition unique_of (l : list A) : list A := unique_go [] l.

  (* filters.rs::groupby, the grouping loop over the sorted items; a group is (grouper, items).
     [cur] is the open group: the last grouper seen and the items collected so far (reversed) *)
  Fixpoint group_go (cur : option (A * list A)) (l : list A) : list (A * list A) :=
    match l with
    | [] => match cur with Some (g, acc) => [(g, rev acc)] | None => [] end
    | x :: r =>
        match cur with
        | None => group_go (Some (key x, [x])) r
        | Some (g, acc) =>
            match cmp g (key x) with
            | Eq => group_go (Some (key x, x :: acc)) r
            | _ => (g, rev acc) :: group_go (Some (key x, [x])) r
            end
        end
    end.
End Filters.

Section Runs.
  Context {A : Type}.

  (* filters.rs::batch.  [tmp] (reversed) is the open run. *)
  Fixpoint batch_go (count : Z) (tmp : list A) (n : Z) (l : list A) : list (list A) * (list A * Z) :=
    match l with
    | [] => ([], (tmp, n))
    | x :: r =>
        if n =? count then
          let '(rv, fin) := batch_go count [x] 1 r in (rev tmp :: rv, fin)
        else batch_go count (x :: tmp) (n + 1) r
    end.

  Fixpoint repeatZ (fuel : nat) (x : A) (n : Z) : list A :=
    match fuel with
    | O => []
    | S f => if n <=? 0 then [] else x :: repeatZ f x (n - 1)
    end.

  (* filters.rs::batch, 0 < count *)
  Definition batch_of (count : Z) (fill : option A) (l : list A) : list (list A) :=
    let '(rv, (tmp, n)) := batch_go count [] 0 l in
    match tmp with
    | [] => rv
    | _ =>
        rv ++ [rev tmp ++ match fill with
                          | Some f => repeatZ (Z.to_nat (count - n)) f (count - n)   (* as many fillers as the run is short *)
                          | None => []
                          end]
    end.

  (* how many fill items the last run of batch needs: 0 when there is no open run *)
  Definition batch_missing (count : Z) (l : list A) : Z :=
    let '(_, (tmp, n)) := batch_go count [] 0 l in
    match tmp with [] => 0 | _ => count - n end.

  (* filters.rs::slice.  [slice] runs over 0..count. *)
  Fixpoint slice_go (fuel : nat) (items : list A) (count per extra : Z) (fill : option A)
           (slice offset : Z) : list (list A) :=
    match fuel with
    | O => []
    | S fuel =>
        if count <=? slice then []
        else
          let start := offset + slice * per in
          let offset' := if slice <? extra then offset + 1 else offset in
          let stop := offset' + (slice + 1) * per in
          let tmp := takeZ (stop - start) (skipZ start items) in
          let run := match fill with
                     | Some f => if extra <=? slice then tmp ++ [f] else tmp
                     | None => tmp
                     end in
          run :: slice_go fuel items count per extra fill (slice + 1) offset'
    end.

  (* 0 < count; the result has [count] runs, so [count] is also the recursion depth *)
  Definition slice_of (count : Z) (fill : option A) (l : list A) : list (list A) :=
    let len := lenZ l in
    slice_go (Z.to_nat count) l count (len / count) (len mod count) fill 0 0.
End Runs.

(* ------------------------------------------------------------------------------------ *)
(* the filters on values                                                                *)
(* ------------------------------------------------------------------------------------ *)
Definition ascii_lower (c : Z) : Z := if (65 <=? c) && (c <=? 90) then c + 32 else c.

(* filters.rs::string_for_fold: only values of kind String are case-folded *)
Definition string_for_fold (v : value) : option (list Z) :=
  match v with
  | VStr _ s => Some s
  | _ => None
  end.

(* filters.rs::cmp_helper (feature `unicode` off: to_ascii_lowercase) *)
Definition cmp_helper (case_sensitive reverse : bool) (a b : value) : comparison :=
  let o :=
    if case_sensitive then vcmp a b
    else match string_for_fold a, string_for_fold b with
         | Some x, Some y => zlist_cmp (map ascii_lower x) (map ascii_lower y)
         | _, _ => vcmp a b
         end in
  if reverse then CompOpp o else o.

(* Value::try_iter under the lenient undefined behaviour *)
Definition iter_items (v : value) : outcome (list value) :=
  match v with
  | VUndef | VNone => Ok []
  | VStr _ s => Ok (map (fun c => VStr false [c]) s)
  | VSeq xs | VTuple xs | VIter _ xs => Ok xs
  | VMap kvs => Ok (map fst kvs)
  | _ => Err E_InvalidOperation
  end.

(* Value::get_attr for a key that is not a number; None = Err *)
Fixpoint str_lookup (key : list Z) (kvs : list (value * value)) : option value :=
  match kvs with
  | [] => None
  | (VStr _ s, v) :: r => if zlist_eqb s key then Some v else str_lookup key r
  | _ :: r => str_lookup key r
  end.
Definition get_attr (key : list Z) (v : value) : option value :=
  match v with
  | VUndef => None
  | VMap kvs => Some (match str_lookup key kvs with Some x => x | None => VUndef end)
  | _ => Some VUndef
  end.
Definition get_path_or_default (key : list Z) (dflt : value) (v : value) : value :=
  match get_attr key v with
  | None => dflt
  | Some VUndef => dflt
  | Some x => x
  end.

(* filters.rs::sort *)
Definition sort_cmp (cs rev : bool) (attr : option (list Z)) (a b : value) : comparison :=
  match attr with
  | None => cmp_helper cs rev a b
  | Some key => cmp_helper cs rev (get_path_or_default key VUndef a) (get_path_or_default key VUndef b)
  end.
Definition f_sort (cs rev : bool) (attr : option (list Z)) (v : value) : outcome value :=
  bind (iter_items v) (fun items => Ok (VSeq (stable_sort (sort_cmp cs rev attr) items))).

(* filters.rs::unique (str::to_lowercase is modelled for ASCII only) *)
Definition unique_key (cs : bool) (attr : option (list Z)) (v : value) : value :=
  let k := match attr with Some key => get_path_or_default key VUndef v | None => v end in
  if cs then k else match string_for_fold k with Some s => VStr false (map ascii_lower s) | None => k end.
Definition f_unique (cs : bool) (attr : option (list Z)) (v : value) : outcome value :=
  bind (iter_items v) (fun items => Ok (VSeq (unique_of vcmp (unique_key cs attr) items))).

(* filters.rs::groupby: Value::try_iter (None / Undefined iterate as empty) *)
Definition f_groupby (cs : bool) (key : list Z) (dflt : value) (v : value) : outcome value :=
  bind (iter_items v) (fun items =>
    let k := get_path_or_default key dflt in
    let c := cmp_helper cs false in
    let sorted := stable_sort (fun a b => c (k a) (k b)) items in
    Ok (VSeq (map (fun g => VSeq [fst g; VIter LzUnsized (snd g)]) (group_go c k None sorted)))).

(* the filler is pushed count - tmp.len() times, at most 100000 times *)
Definition f_batch (count : Z) (fill : option value) (v : value) : outcome value :=
  if count =? 0 then Err E_InvalidOperation
  else bind (iter_items v) (fun items =>
         match fill with
         | Some _ => if 100000 <? batch_missing count items then Err E_InvalidOperation
                     else Ok (VSeq (map VSeq (batch_of count fill items)))
         | None => Ok (VSeq (map VSeq (batch_of count fill items)))
         end).

(* at most 100000 slices *)
Definition f_slice (count : Z) (fill : option value) (v : value) : outcome value :=
  if count =? 0 then Err E_InvalidOperation
  else if 100000 <? count then Err E_InvalidOperation
  else bind (iter_items v) (fun items => Ok (VSeq (map VSeq (slice_of count fill items)))).

(* filters.rs::reverse + Value::reverse *)
Definition f_reverse (v : value) : outcome value :=
  match v with
  | VStr safe s => Ok (VStr safe (rev s))
  | VUndef | VNone => Ok v
  | VBytes bs => Ok (VBytes (rev bs))
  | VIter LzRev xs => Ok (VIter LzSized xs)       (* Enumerator::RevIter: the iterator is used as it is *)
  | VSeq xs | VTuple xs | VIter _ xs => Ok (VIter LzSized (rev xs))     (* the reversed iterables report an exact size *)
  | VMap kvs => Ok (VIter LzSized (rev (map fst kvs)))
  | _ => Err E_InvalidOperation
  end.

Definition f_min (v : value) : outcome value :=
  bind (iter_items v) (fun items => Ok (match min_of vcmp items with Some x => x | None => VUndef end)).
Definition f_max (v : value) : outcome value :=
  bind (iter_items v) (fun items => Ok (match max_of vcmp items with Some x => x | None => VUndef end)).

(* filters.rs::last *)
Definition f_last (v : value) : outcome value :=
  match v with
  | VStr safe s => Ok (match rev s with c :: _ => VStr safe [c] | [] => VUndef end)
  | VBytes bs =>
      (* Value::as_str also returns well-formed UTF-8 bytes; modelled for pure ASCII bytes
         (well-formed) and bytes containing a byte >= 128 from the pool (0xFF: never well-formed) *)
      if forallb (fun b => b <? 128) bs
      then Ok (match rev bs with c :: _ => VStr false [c] | [] => VUndef end)
      else Err E_InvalidOperation
  | VSeq _ | VTuple _ | VIter _ _ =>
      bind (f_reverse v) (fun r => bind (iter_items r) (fun items =>
        Ok (match items with x :: _ => x | [] => VUndef end)))
  | _ => Err E_InvalidOperation
  end.

(* ------------------------------------------------------------------------------------ *)
(* dictsort, items, map(attribute=..), select / reject, sum, join                       *)
(* ------------------------------------------------------------------------------------ *)
(* Value::from((k, v)): a two-element Tuple *)
Definition pair_value (kv : value * value) : value := VTuple [fst kv; snd kv].

(* filters.rs::dictsort -- the pairs in iteration order, stably sorted by key or by value *)
Definition dictsort_cmp (by_value cs rev : bool) (p q : value * value) : comparison :=
  if by_value then cmp_helper cs rev (snd p) (snd q) else cmp_helper cs rev (fst p) (fst q).
Definition f_dictsort (by_value cs rev : bool) (v : value) : outcome value :=
  match v with
  | VMap kvs => Ok (VSeq (map pair_value (stable_sort (dictsort_cmp by_value cs rev) kvs)))
  | _ => Err E_InvalidOperation
  end.

(* filters.rs::items *)
Definition f_items (v : value) : outcome value :=
  match v with
  | VMap kvs => Ok (VIter LzSized (map pair_value kvs))
  | _ => Err E_InvalidOperation
  end.

(* filters.rs::map with attribute= (a name that is not a number) and an optional default=.
   A failing lookup (an undefined item) is an error unless a default is given. *)
Fixpoint map_attr_go (key : list Z) (dflt : value) (items : list value) : outcome (list value) :=
  match items with
  | [] => Ok []
  | x :: r =>
      match get_attr key x with
      | Some a => bind (map_attr_go key dflt r) (fun rest => Ok ((match a with VUndef => dflt | _ => a end) :: rest))
      | None => match dflt with
                | VUndef => Err E_UndefinedError
                | _ => bind (map_attr_go key dflt r) (fun rest => Ok (dflt :: rest))
                end
      end
  end.
Definition f_map_attr (key : list Z) (dflt : value) (v : value) : outcome value :=
  bind (iter_items v) (fun items => bind (map_attr_go key dflt items) (fun out => Ok (VSeq out))).

(* Value::is_true.  Objects: enumerator_len() != Some(0); every seq-like value of this
   universe knows when it is empty (an unsized lazy iterable over nothing reports the exact
   size hint (0, Some(0))), a plain object has no length. *)
Definition is_true (v : value) : bool :=
  match v with
  | VBool b => b
  | VInt _ z => negb (z =? 0)
  | VFloat b => negb (f_eq b 0)
  | VStr _ s => match s with [] => false | _ => true end
  | VBytes s => match s with [] => false | _ => true end
  | VNone | VUndef | VInvalid _ => false
  | VSeq xs | VTuple xs | VIter _ xs => match xs with [] => false | _ => true end
  | VMap kvs => match kvs with [] => false | _ => true end
  | VPlain _ => true
  end.

(* filters.rs::select / reject without a test: `passed != invert` *)
Definition f_select (invert : bool) (v : value) : outcome value :=
  bind (iter_items v) (fun items => Ok (VSeq (filter (fun x => negb (Bool.eqb (is_true x) invert)) items))).

(* filters.rs::sum over integers that fit i128 (ops::add: checked i128 addition, the result
   is stored in the narrowest representation); undefined items are skipped, other kinds are
   an error.  Floats and u128 values beyond i128 are outside this model: OutOfGas. *)
Fixpoint sum_go (acc : Z) (items : list value) : outcome Z :=
  match items with
  | [] => Ok acc
  | VUndef :: r => sum_go acc r
  | VInt _ z :: r =>
      if negb (in_i128 z) then OutOfGas
      else if in_i128 (acc + z) then sum_go (acc + z) r else Err E_InvalidOperation
  | VFloat _ :: _ => OutOfGas
  | _ :: _ => Err E_InvalidOperation
  end.
Definition f_sum (v : value) : outcome value :=
  bind (iter_items v) (fun items => bind (sum_go 0 items) (fun z => Ok (VInt W_I128 z))).

(* filters.rs::join without auto-escaping, for items that are strings or integers (other
   kinds need the Display impl, outside this model: OutOfGas) *)
Fixpoint dec_digits (fuel : nat) (n : Z) (acc : list Z) : list Z :=
  match fuel with
  | O => acc
  | S f => if n <? 10 then (48 + n) :: acc else dec_digits f (n / 10) ((48 + n mod 10) :: acc)
  end.
Definition decimal (z : Z) : list Z :=
  if z <? 0 then 45 :: dec_digits 50 (- z) [] else dec_digits 50 z [].
Definition render (v : value) : option (list Z) :=
  match v with
  | VStr _ s => Some s
  | VInt _ z => Some (decimal z)
  | _ => None
  end.
Fixpoint join_go (joiner : list Z) (first : bool) (items : list value) : option (list Z) :=
  match items with
  | [] => Some []
  | x :: r =>
      match render x, join_go joiner false r with
      | Some s, Some rest => Some ((if first then [] else joiner) ++ s ++ rest)
      | _, _ => None
      end
  end.
Definition f_join (joiner : list Z) (v : value) : outcome value :=
  bind (iter_items v) (fun items =>
    match join_go joiner true items with
    | Some s => Ok (VStr false s)
    | None => OutOfGas
    end).

(* ------------------------------------------------------------------------------------ *)
(* containment: ops.rs::contains (the `in` / `not in` operators, the `in` test)         *)
(* ------------------------------------------------------------------------------------ *)
Fixpoint is_prefix (t s : list Z) : bool :=
  match t, s with
  | [], _ => true
  | x :: t', y :: s' => (x =? y) && is_prefix t' s'
  | _ :: _, [] => false
  end.
(* str::contains *)
Fixpoint is_infix (t s : list Z) : bool :=
  is_prefix t s || match s with [] => false | _ :: s' => is_infix t s' end.

(* Value::as_str: strings, and bytes that are well-formed UTF-8.  Modelled for byte strings
   that are pure ASCII (well-formed, decode to themselves); other byte strings of the pools
   contain 0xFF and are never well-formed. *)
Definition as_str_of (v : value) : option (list Z) :=
  match v with
  | VStr _ s => Some s
  | VBytes bs => if forallb (fun b => b <? 128) bs then Some bs else None
  | _ => None
  end.

(* a needle that is not a string is searched by its rendering (modelled for integers) *)
Definition contains_o (o : map_order) (c v : value) : outcome bool :=
  match c with
  | VUndef => Ok false
  | _ =>
      match as_str_of c with
      | Some s =>
          match as_str_of v with
          | Some t => Ok (is_infix t s)
          | None => match v with VInt _ z => Ok (is_infix (decimal z) s) | _ => OutOfGas end
          end
      | None =>
          match c with
          | VPlain _ => Ok false
          | VMap kvs => Ok (match map_get_o o v kvs with Some _ => true | None => false end)
          | VSeq xs | VTuple xs | VIter _ xs => Ok (existsb (fun e => veq_o o e v) xs)     (* any(|e| &e == value) *)
          | _ => Err E_InvalidOperation
          end
      end
  end.

(* ------------------------------------------------------------------------------------ *)
(* comparison chains: a OP1 b OP2 c = (a OP1 b) and (b OP2 c), left to right, stopping at   *)
(* the first false link (vm: CompareAndPreserve; compiler/ast.rs folds constant chains)  *)
(* ------------------------------------------------------------------------------------ *)
Inductive cop := OEq | ONe | OLt | OLe | OGt | OGe | OIn | ONotIn.

Definition cmp_link (o : map_order) (op : cop) (l r : value) : outcome bool :=
  match op with
  | OEq => Ok (veq_o o l r)
  | ONe => Ok (negb (veq_o o l r))
  | OLt => Ok (match vcmp l r with Lt => true | _ => false end)
  | OLe => Ok (match vcmp l r with Gt => false | _ => true end)
  | OGt => Ok (match vcmp l r with Gt => true | _ => false end)
  | OGe => Ok (match vcmp l r with Lt => false | _ => true end)
  | OIn => contains_o o r l
  | ONotIn => bind (contains_o o r l) (fun b => Ok (negb b))
  end.

Fixpoint chain (o : map_order) (left : value) (links : list (cop * value)) : outcome bool :=
  match links with
  | [] => Ok true
  | (op, r) :: rest => bind (cmp_link o op left r) (fun b => if b then chain o r rest else Ok false)
  end.

(* filters.rs::length (Value::len): lazy iterables only when their size hint is exact *)
Definition f_length (v : value) : outcome value :=
  match v with
  | VStr _ s => Ok (VInt W_I64 (lenZ s))
  | VBytes s => Ok (VInt W_I64 (lenZ s))
  | VSeq xs | VTuple xs => Ok (VInt W_I64 (lenZ xs))
  | VIter LzUnsized (_ :: _) => Err E_InvalidOperation      (* an empty one reports the exact hint (0, Some(0)) *)
  | VIter _ xs => Ok (VInt W_I64 (lenZ xs))
  | VMap kvs => Ok (VInt W_I64 (lenZ kvs))
  | _ => Err E_InvalidOperation
  end.

(* filters.rs::list *)
Definition f_list (v : value) : outcome value := bind (iter_items v) (fun items => Ok (VSeq items)).
