(* C07 proofs: the order / equality / hash laws of Value and the filter algebra. *)
From Coq Require Import Sorting.Permutation.
From MJ Require Import Common.Base C07.Model C07.Spec C07.Float.


(* ------------------------------------------------------------------ *)
(* generic comparison tables                                           *)
(* ------------------------------------------------------------------ *)
Fixpoint lex_cmp {A} (cmp : A -> A -> comparison) (xs ys : list A) : comparison :=
  match xs, ys with
  | [], [] => Eq
  | [], _ :: _ => Lt
  | _ :: _, [] => Gt
  | x :: xs', y :: ys' => match cmp x y with Eq => lex_cmp cmp xs' ys' | r => r end
  end.

Definition tbl {A} (cmp : A -> A -> comparison) (x y z : A) : Prop :=
  (cmp x y = Eq -> cmp x z = cmp y z) /\
  (cmp y z = Eq -> cmp x y = cmp x z) /\
  (cmp x y = Lt -> cmp y z = Lt -> cmp x z = Lt) /\
  (cmp x y = Gt -> cmp y z = Gt -> cmp x z = Gt).

Lemma tbl_Zcompare_key {A} (k : A -> Z) x y z : tbl (fun a b => k a ?= k b) x y z.
Proof.
  unfold tbl. repeat split; intros.
  - apply Z.compare_eq in H. rewrite H. reflexivity.
  - apply Z.compare_eq in H. rewrite H. reflexivity.
  - rewrite Z.compare_lt_iff in *. lia.
  - rewrite Z.compare_gt_iff in *. lia.
Qed.

Lemma lex_tbl {A} (cmp : A -> A -> comparison) (xs : list A) :
  Forall (fun x => forall y z, tbl cmp x y z) xs ->
  forall ys zs, tbl (lex_cmp cmp) xs ys zs.
Proof.
  induction 1 as [|x xs Hx Hxs IH]; intros ys zs.
  - destruct ys, zs; unfold tbl; cbn; repeat split; intros; try congruence.
  - destruct ys as [|y ys], zs as [|z zs].
    1-3: unfold tbl; cbn; repeat split; intros; try congruence; destruct (cmp x y); congruence.
    specialize (Hx y z). specialize (IH ys zs). unfold tbl in *. cbn.
    destruct Hx as (H1 & H2 & H3 & H4). destruct IH as (I1 & I2 & I3 & I4).
    destruct (cmp x y) eqn:Exy; destruct (cmp y z) eqn:Eyz;
      try (rewrite (H1 eq_refl) in * ); try (rewrite <- (H2 eq_refl) in * );
      try (rewrite (H3 eq_refl eq_refl) in * ); try (rewrite (H4 eq_refl eq_refl) in * );
      try rewrite Eyz; try rewrite Exy;
      repeat split; intros; try congruence; auto.
Qed.

Lemma lex_anti {A} (cmp : A -> A -> comparison) (xs : list A) :
  Forall (fun x => forall y, cmp y x = CompOpp (cmp x y)) xs ->
  forall ys, lex_cmp cmp ys xs = CompOpp (lex_cmp cmp xs ys).
Proof.
  induction 1 as [|x xs Hx _ IH]; intros [|y ys]; cbn; auto.
  rewrite Hx. destruct (cmp x y); cbn; auto.
Qed.

Lemma lex_refl {A} (cmp : A -> A -> comparison) (xs : list A) :
  Forall (fun x => cmp x x = Eq) xs -> lex_cmp cmp xs xs = Eq.
Proof. induction 1; cbn; auto. rewrite H. auto. Qed.

Definition ranked {A} (r : A -> Z) (body : A -> A -> comparison) (a b : A) : comparison :=
  match r a ?= r b with Eq => body a b | o => o end.

Lemma ranked_tbl {A} (r : A -> Z) body (x y z : A) :
  (r x = r y -> r y = r z -> tbl body x y z) -> tbl (ranked r body) x y z.
Proof.
  intros H. unfold tbl, ranked.
  destruct (Z.compare_spec (r x) (r y)) as [E1|E1|E1], (Z.compare_spec (r y) (r z)) as [E2|E2|E2],
    (Z.compare_spec (r x) (r z)) as [E3|E3|E3]; try lia;
    try (destruct (H E1 E2) as (H1 & H2 & H3 & H4)); repeat split; intros; try congruence; auto.
Qed.

Lemma ranked_anti {A} (r : A -> Z) body (x y : A) :
  (r x = r y -> body y x = CompOpp (body x y)) -> ranked r body y x = CompOpp (ranked r body x y).
Proof.
  intros H. unfold ranked. rewrite (Z.compare_antisym (r x) (r y)).
  destruct (Z.compare_spec (r x) (r y)); cbn; auto.
Qed.

Lemma ranked_refl {A} (r : A -> Z) body (x : A) : body x x = Eq -> ranked r body x x = Eq.
Proof. intros H. unfold ranked. rewrite Z.compare_refl. auto. Qed.

(* ------------------------------------------------------------------ *)
(* induction principle for the nested type                             *)
(* ------------------------------------------------------------------ *)
Section ValueInd.
  Variable P : value -> Prop.
  Hypothesis HUndef : P VUndef.
  Hypothesis HNone : P VNone.
  Hypothesis HBool : forall b, P (VBool b).
  Hypothesis HInt : forall w z, P (VInt w z).
  Hypothesis HFloat : forall b, P (VFloat b).
  Hypothesis HStr : forall f s, P (VStr f s).
  Hypothesis HBytes : forall s, P (VBytes s).
  Hypothesis HSeq : forall xs, Forall P xs -> P (VSeq xs).
  Hypothesis HTuple : forall xs, Forall P xs -> P (VTuple xs).
  Hypothesis HIter : forall sh xs, Forall P xs -> P (VIter sh xs).
  Hypothesis HMap : forall kvs, Forall (fun kv => P (fst kv) /\ P (snd kv)) kvs -> P (VMap kvs).
  Hypothesis HPlain : forall s, P (VPlain s).
  Hypothesis HInvalid : forall d, P (VInvalid d).

  Fixpoint value_ind' (v : value) : P v :=
    let many := fix many (xs : list value) : Forall P xs :=
      match xs with
      | [] => Forall_nil _
      | x :: r => Forall_cons _ (value_ind' x) (many r)
      end in
    match v with
    | VUndef => HUndef
    | VNone => HNone
    | VBool b => HBool b
    | VInt w z => HInt w z
    | VFloat b => HFloat b
    | VStr f s => HStr f s
    | VBytes s => HBytes s
    | VSeq xs => HSeq xs (many xs)
    | VTuple xs => HTuple xs (many xs)
    | VIter sh xs => HIter sh xs (many xs)
    | VMap kvs => HMap kvs
        ((fix manyp (xs : list (value * value)) : Forall (fun kv => P (fst kv) /\ P (snd kv)) xs :=
            match xs with
            | [] => Forall_nil _
            | kv :: r => Forall_cons kv (conj (value_ind' (fst kv)) (value_ind' (snd kv))) (manyp r)
            end) kvs)
    | VPlain s => HPlain s
    | VInvalid d => HInvalid d
    end.
End ValueInd.

(* ------------------------------------------------------------------ *)
(* equations for vcmp                                                  *)
(* ------------------------------------------------------------------ *)
Fixpoint flat_pairs (kvs : list (value * value)) : list value :=
  match kvs with
  | [] => []
  | (k, v) :: r => k :: v :: flat_pairs r
  end.

Definition items_of (v : value) : list value :=
  match v with
  | VSeq xs | VTuple xs | VIter _ xs => xs
  | VMap kvs => flat_pairs kvs
  | _ => []
  end.

Definition vbody (a b : value) : comparison :=
  match a with
  | VSeq _ | VTuple _ | VIter _ _ =>
      match bool_cmp (is_tuple a) (is_tuple b) with
      | Eq => match b with
              | VSeq _ | VTuple _ | VIter _ _ => lex_cmp vcmp (items_of a) (items_of b)
              | _ => Eq
              end
      | r => r
      end
  | VMap _ => match b with VMap _ => lex_cmp vcmp (items_of a) (items_of b) | _ => Eq end
  | VPlain s => match b with VPlain t => zlist_cmp s t | _ => Eq end
  | _ => scalar_cmp a b
  end.

Lemma vcmp_eqn a b : vcmp a b = ranked kind_rank vbody a b.
Proof.
  assert (L : forall xs ys,
    (fix lex (xs ys : list value) {struct xs} : comparison :=
        match xs, ys with
        | [], [] => Eq
        | [], _ :: _ => Lt
        | _ :: _, [] => Gt
        | x :: xs', y :: ys' => match vcmp x y with Eq => lex xs' ys' | r => r end
        end) xs ys = lex_cmp vcmp xs ys).
  { induction xs; destruct ys; cbn; auto. rewrite IHxs. reflexivity. }
  assert (LP : forall xs ys,
    (fix lexp (xs : list (value * value)) (ys : list (value * value)) {struct xs} : comparison :=
                 match xs, ys with
                 | [], [] => Eq
                 | [], _ :: _ => Lt
                 | _ :: _, [] => Gt
                 | (k1, v1) :: xs', (k2, v2) :: ys' =>
                     match vcmp k1 k2 with
                     | Eq => match vcmp v1 v2 with Eq => lexp xs' ys' | r => r end
                     | r => r
                     end
                 end) xs ys = lex_cmp vcmp (flat_pairs xs) (flat_pairs ys)).
  { induction xs as [|[k1 v1] xs IH]; destruct ys as [|[k2 v2] ys]; cbn; auto. rewrite IH. reflexivity. }
  unfold ranked.
  destruct a; cbn [vcmp]; destruct (kind_rank _ ?= kind_rank b) eqn:E; try reflexivity;
    destruct b; cbn in E; try discriminate E; cbn [vbody is_tuple bool_cmp items_of]; try reflexivity;
    rewrite ?L, ?LP; reflexivity.
Qed.

Lemma tbl_ext {A} (c1 c2 : A -> A -> comparison) x y z :
  c1 x y = c2 x y -> c1 y z = c2 y z -> c1 x z = c2 x z -> tbl c2 x y z -> tbl c1 x y z.
Proof. unfold tbl. intros -> -> ->. auto. Qed.

Lemma lex_tbl_q {A} (Q : A -> Prop) (cmp : A -> A -> comparison) (xs : list A) :
  Forall (fun x => forall y z, Q y -> Q z -> tbl cmp x y z) xs ->
  forall ys zs, Forall Q ys -> Forall Q zs -> tbl (lex_cmp cmp) xs ys zs.
Proof.
  induction 1 as [|x xs Hx Hxs IH]; intros ys zs Qy Qz.
  - destruct ys, zs; unfold tbl; cbn; repeat split; intros; try congruence.
  - destruct ys as [|y ys], zs as [|z zs].
    1-3: unfold tbl; cbn; repeat split; intros; try congruence; destruct (cmp x y); congruence.
    apply Forall_cons_iff in Qy; destruct Qy as [Qy1 Qy2]. apply Forall_cons_iff in Qz; destruct Qz as [Qz1 Qz2].
    specialize (Hx y z Qy1 Qz1). specialize (IH ys zs Qy2 Qz2).
    unfold tbl in *. cbn.
    destruct Hx as (H1 & H2 & H3 & H4). destruct IH as (I1 & I2 & I3 & I4).
    destruct (cmp x y) eqn:Exy; destruct (cmp y z) eqn:Eyz;
      try (rewrite (H1 eq_refl) in * ); try (rewrite <- (H2 eq_refl) in * );
      try (rewrite (H3 eq_refl eq_refl) in * ); try (rewrite (H4 eq_refl eq_refl) in * );
      try rewrite Eyz; try rewrite Exy;
      repeat split; intros; try congruence; auto.
Qed.

Lemma lex_anti_q {A} (Q : A -> Prop) (cmp : A -> A -> comparison) (xs : list A) :
  Forall (fun x => forall y, Q y -> cmp y x = CompOpp (cmp x y)) xs ->
  forall ys, Forall Q ys -> lex_cmp cmp ys xs = CompOpp (lex_cmp cmp xs ys).
Proof.
  induction 1 as [|x xs Hx _ IH]; intros [|y ys] Qy; cbn; auto.
  apply Forall_cons_iff in Qy; destruct Qy as [Qy1 Qy2]. rewrite Hx by assumption. rewrite IH by assumption. destruct (cmp x y); cbn; auto.
Qed.

Lemma zlist_cmp_lex a b : zlist_cmp a b = lex_cmp Z.compare a b.
Proof. revert b; induction a; destruct b; cbn; auto. rewrite IHa. reflexivity. Qed.

Lemma tbl_Z x y z : tbl Z.compare x y z.
Proof. exact (tbl_Zcompare_key (fun x => x) x y z). Qed.

Lemma zlist_tbl a b c : tbl zlist_cmp a b c.
Proof.
  apply (tbl_ext _ (lex_cmp Z.compare)); try apply zlist_cmp_lex.
  apply lex_tbl. apply Forall_forall. intros. apply tbl_Z.
Qed.

Lemma zlist_anti a b : zlist_cmp b a = CompOpp (zlist_cmp a b).
Proof.
  rewrite !zlist_cmp_lex. apply lex_anti. apply Forall_forall. intros x _ y. apply Z.compare_antisym.
Qed.

Lemma zlist_refl a : zlist_cmp a a = Eq.
Proof. rewrite zlist_cmp_lex. apply lex_refl. apply Forall_forall. intros. apply Z.compare_refl. Qed.

(* wfn, unfolded *)
Lemma wfn_items v : wfn v = true -> Forall (fun x => wfn x = true) (items_of v).
Proof.
  destruct v; cbn [items_of]; try (intros; constructor).
  1-3: cbn [wfn]; induction vs; intros H; constructor; apply andb_prop in H; destruct H; auto.
  cbn [wfn]. intros H.
  induction kvs as [|[k x] r IH]; cbn [flat_pairs]; [constructor|].
  apply andb_prop in H. destruct H as [H H3]. apply andb_prop in H. destruct H. repeat constructor; auto.
Qed.

Lemma flat_pairs_Forall (P : value -> Prop) kvs :
  Forall (fun kv => P (fst kv) /\ P (snd kv)) kvs -> Forall P (flat_pairs kvs).
Proof. induction 1 as [|[k v] r [H1 H2] _ IH]; cbn; repeat constructor; auto. Qed.

Definition is_scalar (v : value) : bool :=
  match v with
  | VSeq _ | VTuple _ | VIter _ _ | VMap _ | VPlain _ => false
  | _ => true
  end.

Definition trank (v : value) : Z := if is_tuple v then 1 else 0.

Lemma bool_cmp_Z a b : bool_cmp a b = ((if a then 1 else 0) ?= (if b then 1 else 0)).
Proof. destruct a, b; reflexivity. Qed.

Definition is_seqlike (v : value) : bool :=
  match v with VSeq _ | VTuple _ | VIter _ _ => true | _ => false end.

Lemma vbody_seqlike a b : is_seqlike a = true -> is_seqlike b = true ->
  vbody a b = ranked trank (fun a b => lex_cmp vcmp (items_of a) (items_of b)) a b.
Proof.
  unfold ranked, trank. intros Ha Hb.
  destruct a; try discriminate; destruct b; try discriminate; cbn; reflexivity.
Qed.

Lemma Forall_mp {A} (P R : A -> Prop) xs : Forall (fun x => P x -> R x) xs -> Forall P xs -> Forall R xs.
Proof. induction 1; intros HP; constructor; apply Forall_cons_iff in HP; destruct HP; auto. Qed.

Section Structural.
  (* the laws of the scalar comparisons (proved below, separately for every scalar kind) *)
  Hypothesis scalar_tbl : forall a b c, is_scalar a = true -> is_scalar b = true -> is_scalar c = true ->
    kind_rank a = kind_rank b -> kind_rank b = kind_rank c ->
    wfn a = true -> wfn b = true -> wfn c = true -> tbl scalar_cmp a b c.
  Hypothesis scalar_anti : forall a b, is_scalar a = true -> is_scalar b = true ->
    kind_rank a = kind_rank b -> wfn a = true -> wfn b = true -> scalar_cmp b a = CompOpp (scalar_cmp a b).

  Lemma lex_items_tbl a b c :
    Forall (fun x => forall b c, wfn x = true -> wfn b = true -> wfn c = true -> tbl vcmp x b c) (items_of a) ->
    wfn a = true -> wfn b = true -> wfn c = true ->
    tbl (fun a b => lex_cmp vcmp (items_of a) (items_of b)) a b c.
  Proof.
    intros H Wa Wb Wc.
    assert (T : tbl (lex_cmp vcmp) (items_of a) (items_of b) (items_of c)).
    { apply (lex_tbl_q (fun x => wfn x = true)); try (apply wfn_items; assumption).
      eapply Forall_mp; [|apply wfn_items; exact Wa].
      eapply Forall_impl; [|exact H]. cbn. intros x Hx Wx y z Wy Wz. apply Hx; auto. }
    exact T.
  Qed.

  Lemma vcmp_tbl_struct a : forall vy vz, wfn a = true -> wfn vy = true -> wfn vz = true -> tbl vcmp a vy vz.
  Proof.
    induction a using value_ind'; intros vy vz Wa Wb Wc;
      (apply (tbl_ext _ (ranked kind_rank vbody)); try apply vcmp_eqn; apply ranked_tbl; intros R1 R2).
    1-7: (destruct vy; try discriminate R1; destruct vz; try discriminate R2;
          apply scalar_tbl; auto).
    1-3: (destruct vy; try discriminate R1; destruct vz; try discriminate R2;
      (apply (tbl_ext _ (ranked trank (fun a b => lex_cmp vcmp (items_of a) (items_of b)))); try (apply vbody_seqlike; reflexivity);
       apply ranked_tbl; intros _ _; apply lex_items_tbl; auto)).
    - destruct vy; try discriminate R1; destruct vz; try discriminate R2.
      apply (tbl_ext _ (fun a b => lex_cmp vcmp (items_of a) (items_of b))); try reflexivity.
      apply lex_items_tbl; auto. cbn [items_of]. apply flat_pairs_Forall.
      eapply Forall_impl; [|exact H]. cbn. intros kv [H1 H2]. split; auto.
    - destruct vy; try discriminate R1; destruct vz; try discriminate R2. cbn [vbody]. apply zlist_tbl.
    - destruct vy; try discriminate R1; destruct vz; try discriminate R2; apply scalar_tbl; auto.
  Qed.

  Lemma lex_items_anti a y :
    Forall (fun x => forall y, wfn x = true -> wfn y = true -> vcmp y x = CompOpp (vcmp x y)) (items_of a) ->
    wfn a = true -> wfn y = true ->
    lex_cmp vcmp (items_of y) (items_of a) = CompOpp (lex_cmp vcmp (items_of a) (items_of y)).
  Proof.
    intros H Wa Wy. apply (lex_anti_q (fun x => wfn x = true)); try (apply wfn_items; assumption).
    eapply Forall_mp; [|apply wfn_items; exact Wa].
    eapply Forall_impl; [|exact H]. cbn. intros x Hx Wx v Wv. apply Hx; auto.
  Qed.

  Lemma vcmp_anti_struct a : forall vy, wfn a = true -> wfn vy = true -> vcmp vy a = CompOpp (vcmp a vy).
  Proof.
    induction a using value_ind'; intros vy Wa Wb;
      (rewrite !vcmp_eqn; apply ranked_anti; intros R1).
    1-7: (destruct vy; try discriminate R1; apply scalar_anti; auto).
    1-3: (destruct vy; try discriminate R1;
      (rewrite !vbody_seqlike by reflexivity; apply ranked_anti; intros _; apply lex_items_anti; auto)).
    - destruct vy; try discriminate R1. cbn [vbody].
      apply (lex_items_anti (VMap kvs) (VMap kvs0)); auto. cbn [items_of]. apply flat_pairs_Forall.
      eapply Forall_impl; [|exact H]. cbn. intros kv [H1 H2]. split; auto.
    - destruct vy; try discriminate R1. cbn [vbody]. apply zlist_anti.
    - destruct vy; try discriminate R1; apply scalar_anti; auto.
  Qed.

  Lemma vcmp_refl_struct a : wfn a = true -> vcmp a a = Eq.
  Proof.
    intros W. pose proof (vcmp_anti_struct a a W W) as H. destruct (vcmp a a); cbn in H; congruence.
  Qed.
End Structural.

(* ------------------------------------------------------------------ *)
(* scalars; the order theorems                                        *)
(* ------------------------------------------------------------------ *)

Lemma tbl_key {A} (cmp : A -> A -> comparison) (k : A -> Z) x y z :
  cmp x y = (k x ?= k y) -> cmp y z = (k y ?= k z) -> cmp x z = (k x ?= k z) -> tbl cmp x y z.
Proof.
  intros E1 E2 E3. apply (tbl_ext _ (fun a b => k a ?= k b)); auto. apply tbl_Zcompare_key.
Qed.

Lemma scalar_tbl : forall a b c, is_scalar a = true -> is_scalar b = true -> is_scalar c = true ->
    kind_rank a = kind_rank b -> kind_rank b = kind_rank c ->
    wfn a = true -> wfn b = true -> wfn c = true -> tbl scalar_cmp a b c.
Proof.
  intros a b c Sa Sb Sc R1 R2 Wa Wb Wc.
  destruct a; try discriminate Sa; destruct b; try discriminate Sb; try discriminate R1;
    destruct c; try discriminate Sc; try discriminate R2.
  all: try (apply (tbl_key _ nkey); apply num_cmp_key; auto; fail).
  - unfold tbl; cbn; repeat split; congruence.
  - unfold tbl; cbn; repeat split; congruence.
  - destruct b, b0, b1; vm_compute; repeat split; congruence.
  - apply (tbl_ext _ (fun a b => zlist_cmp (match a with VStr _ s => s | _ => [] end) (match b with VStr _ s => s | _ => [] end)));
      try reflexivity. apply zlist_tbl.
  - apply (tbl_ext _ (fun a b => zlist_cmp (match a with VBytes s => s | _ => [] end) (match b with VBytes s => s | _ => [] end)));
      try reflexivity. apply zlist_tbl.
  - unfold tbl; cbn; repeat split; congruence.
Qed.

Lemma scalar_anti : forall a b, is_scalar a = true -> is_scalar b = true ->
    kind_rank a = kind_rank b -> wfn a = true -> wfn b = true -> scalar_cmp b a = CompOpp (scalar_cmp a b).
Proof.
  intros a b Sa Sb R1 Wa Wb.
  destruct a; try discriminate Sa; destruct b; try discriminate Sb; try discriminate R1.
  all: try (rewrite !num_cmp_key by auto; apply Z.compare_antisym; fail).
  - reflexivity.
  - reflexivity.
  - destruct b, b0; reflexivity.
  - cbn. apply zlist_anti.
  - cbn. apply zlist_anti.
  - reflexivity.
Qed.

Theorem vcmp_tbl_n a b c : wfn a = true -> wfn b = true -> wfn c = true -> tbl vcmp a b c.
Proof. apply vcmp_tbl_struct. exact scalar_tbl. Qed.

Theorem vcmp_anti_n a b : wfn a = true -> wfn b = true -> vcmp b a = CompOpp (vcmp a b).
Proof. apply vcmp_anti_struct. exact scalar_anti. Qed.

Theorem vcmp_refl_n a : wfn a = true -> vcmp a a = Eq.
Proof. apply vcmp_refl_struct. exact scalar_anti. Qed.

Theorem vcmp_trans_n a b c : wfn a = true -> wfn b = true -> wfn c = true ->
  vcmp a b <> Gt -> vcmp b c <> Gt -> vcmp a c <> Gt.
Proof.
  intros Wa Wb Wc H1 H2. destruct (vcmp_tbl_n a b c Wa Wb Wc) as (T1 & T2 & T3 & T4).
  destruct (vcmp a b) eqn:E1; [|destruct (vcmp b c) eqn:E2|]; try congruence.
  - rewrite (T1 eq_refl). exact H2.
  - rewrite <- (T2 eq_refl). congruence.
  - rewrite (T3 eq_refl eq_refl). congruence.
Qed.

Theorem vcmp_total_n a b : wfn a = true -> wfn b = true -> vcmp a b <> Gt \/ vcmp b a <> Gt.
Proof.
  intros Wa Wb. rewrite (vcmp_anti_n a b Wa Wb). destruct (vcmp a b); cbn; [left|left|right]; congruence.
Qed.


(* the full invariant (BTreeMap maps) implies the numeric part; the order laws restated *)
Lemma wf_wfn v : wf v = true -> wfn v = true.
Proof.
  induction v using value_ind'; cbn [wf wfn]; auto.
  1-3: (intros W; induction H as [|x xs Hx _ IH]; [reflexivity|]; apply andb_prop in W; destruct W as [W1 W2];
        rewrite (Hx W1); cbn [andb]; apply IH; exact W2).
  intros W. apply andb_prop in W. destruct W as [_ W].
  induction H as [|[k x] r [Hk Hx] _ IH]; [reflexivity|]. cbn [fst snd] in *.
  apply andb_prop in W. destruct W as [W W3]. apply andb_prop in W. destruct W as [W1 W2].
  rewrite (Hk W1), (Hx W2). cbn [andb]. apply IH. exact W3.
Qed.

Lemma wf_items v : wf v = true -> Forall (fun x => wf x = true) (items_of v).
Proof.
  destruct v; cbn [items_of]; try (intros; constructor).
  1-3: cbn [wf]; induction vs; intros H; constructor; apply andb_prop in H; destruct H; auto.
  cbn [wf]. intros H. apply andb_prop in H. destruct H as [_ H].
  induction kvs as [|[k x] r IH]; cbn [flat_pairs]; [constructor|].
  apply andb_prop in H. destruct H as [H H3]. apply andb_prop in H. destruct H. repeat constructor; auto.
Qed.


Theorem vcmp_tbl a b c : wf a = true -> wf b = true -> wf c = true -> tbl vcmp a b c.
Proof. intros. apply vcmp_tbl_n; apply wf_wfn; auto. Qed.
Theorem vcmp_anti a b : wf a = true -> wf b = true -> vcmp b a = CompOpp (vcmp a b).
Proof. intros. apply vcmp_anti_n; apply wf_wfn; auto. Qed.
Theorem vcmp_refl a : wf a = true -> vcmp a a = Eq.
Proof. intros. apply vcmp_refl_n; apply wf_wfn; auto. Qed.

(* ------------------------------------------------------------------ *)
(* equality and hashing                                               *)
(* ------------------------------------------------------------------ *)
Ltac Zify.zify_post_hook ::= Z.div_mod_to_equations.

Fixpoint all2 {A} (f : A -> A -> bool) (xs ys : list A) : bool :=
  match xs, ys with
  | [], [] => true
  | x :: xs', y :: ys' => f x y && all2 f xs' ys'
  | _, _ => false
  end.

Fixpoint any2 {A} (f : A -> A -> bool) (xs ys : list A) : bool :=
  match xs, ys with
  | x :: xs', y :: ys' => f x y || any2 f xs' ys'
  | _, _ => false
  end.

Definition map_of (v : value) : list (value * value) := match v with VMap kvs => kvs | _ => [] end.

Definition veq_body (a b : value) : bool :=
  match a with
  | VSeq _ | VTuple _ | VIter _ _ =>
      is_seqlike b && Bool.eqb (is_tuple a) (is_tuple b) && all2 veq (items_of a) (items_of b)
  | VMap kvs =>
      match b with
      | VMap kvs2 =>
          (length kvs =? length kvs2)%nat &&
          forallb (fun kv => match map_get (fst kv) kvs2 with Some v2 => veq (snd kv) v2 | None => false end) kvs
      | _ => false
      end
  | VPlain s => match b with VPlain t => zlist_eqb s t | _ => false end
  | _ => scalar_eq a b
  end.

Lemma veq_eqn a b : veq a b = veq_body a b.
Proof.
  assert (L : forall xs ys,
    (fix elems (xs ys : list value) {struct xs} : bool :=
       match xs, ys with
       | [], [] => true
       | x :: xs', y :: ys' => veq x y && elems xs' ys'
       | _, _ => false
       end) xs ys = all2 veq xs ys).
  { induction xs; destruct ys; cbn; auto. rewrite IHxs. reflexivity. }
  assert (LM : forall kvs2 xs,
    (fix all (xs : list (value * value)) : bool :=
             match xs with
             | [] => true
             | (k, v1) :: r =>
                 match map_get k kvs2 with
                 | Some v2 => veq v1 v2
                 | None => false
                 end && all r
             end) xs = forallb (fun kv => match map_get (fst kv) kvs2 with Some v2 => veq (snd kv) v2 | None => false end) xs).
  { induction xs as [|[k v] r IH]; cbn; auto. rewrite IH. reflexivity. }
  destruct a; cbn [veq veq_body]; try reflexivity;
    destruct b; cbn [is_seqlike is_tuple items_of andb Bool.eqb]; rewrite ?L, ?LM; try reflexivity.
Qed.

Definition cross_body (a b : value) : bool :=
  (is_bool a && is_number b) || (is_number a && is_bool b) ||
  match a with
  | VSeq _ => match b with VIter _ _ => true | VSeq _ => any2 cross_kind (items_of a) (items_of b) | _ => false end
  | VIter _ _ => match b with VSeq _ => true | VIter _ _ => any2 cross_kind (items_of a) (items_of b) | _ => false end
  | VTuple _ => match b with VTuple _ => any2 cross_kind (items_of a) (items_of b) | _ => false end
  | VMap _ => match b with VMap _ => any2 cross_kind (items_of a) (items_of b) | _ => false end
  | _ => false
  end.

Lemma cross_kind_eqn a b : cross_kind a b = cross_body a b.
Proof.
  assert (L : forall xs ys,
    (fix any (xs ys : list value) {struct xs} : bool :=
       match xs, ys with
       | x :: xs', y :: ys' => cross_kind x y || any xs' ys'
       | _, _ => false
       end) xs ys = any2 cross_kind xs ys).
  { induction xs; destruct ys; cbn; auto. rewrite IHxs. reflexivity. }
  assert (LP : forall xs ys,
    (fix anyp (xs ys : list (value * value)) {struct xs} : bool :=
             match xs, ys with
             | (k1, v1) :: xs', (k2, v2) :: ys' => cross_kind k1 k2 || cross_kind v1 v2 || anyp xs' ys'
             | _, _ => false
             end) xs ys = any2 cross_kind (flat_pairs xs) (flat_pairs ys)).
  { induction xs as [|[k1 v1] xs IH]; destruct ys as [|[k2 v2] ys]; cbn; auto. rewrite IH. rewrite orb_assoc. reflexivity. }
  destruct a; cbn [cross_kind cross_body]; try reflexivity;
    destruct b; cbn [is_bool is_number items_of andb orb]; rewrite ?L, ?LP; try reflexivity.
Qed.

Fixpoint hpairs (i : Z) (xs : list value) : list Z :=
  match xs with
  | [] => []
  | x :: r => le64 i ++ vhash x ++ hpairs (i + 1) r
  end.
Fixpoint hflat (xs : list value) : list Z :=
  match xs with
  | [] => []
  | x :: r => vhash x ++ hflat r
  end.

Definition vhash_body (v : value) : list Z :=
  match v with
  | VNone | VUndef => [0]
  | VStr _ s => flat_map utf8 s ++ [255]
  | VBool b => [if b then 1 else 0]
  | VBytes bs => le64 (lenZ bs) ++ bs
  | VSeq xs => 0 :: hpairs 0 xs
  | VTuple xs => 1 :: hpairs 0 xs
  | VIter _ xs => 0 :: hpairs 0 xs
  | VMap kvs => 0 :: hflat (flat_pairs kvs)
  | VPlain _ => [0]
  | VInt _ _ | VFloat _ => num_hash v
  | VInvalid d => le64 3 ++ le64 1 ++ flat_map utf8 d ++ [255]
  end.

Lemma vhash_eqn v : vhash v = vhash_body v.
Proof.
  assert (L : forall xs i,
    (fix pairs (i : Z) (xs : list value) : list Z :=
       match xs with
       | [] => []
       | x :: r => le64 i ++ vhash x ++ pairs (i + 1) r
       end) i xs = hpairs i xs).
  { induction xs; intros; cbn; auto; rewrite IHxs; reflexivity. }
  assert (LM : forall xs,
    (fix mp (xs : list (value * value)) : list Z :=
              match xs with
              | [] => []
              | (k, x) :: r => vhash k ++ vhash x ++ mp r
              end) xs = hflat (flat_pairs xs)).
  { induction xs as [|[k x] r IH]; cbn; auto; rewrite IH; reflexivity. }
  destruct v; cbn [vhash vhash_body]; rewrite ?L, ?LM; try reflexivity.
Qed.

Lemma nan_free_items v : nan_free v = true -> Forall (fun x => nan_free x = true) (items_of v).
Proof.
  destruct v; cbn [items_of]; try (intros; constructor).
  1-3: cbn [nan_free]; induction vs; intros H; constructor; apply andb_prop in H; destruct H; auto.
  cbn [nan_free]. induction kvs as [|[k x] r IH]; cbn [flat_pairs]; intros H; [constructor|].
  apply andb_prop in H. destruct H as [H H3]. apply andb_prop in H. destruct H. repeat constructor; auto.
Qed.

Lemma zlist_eqb_eq a b : zlist_eqb a b = true <-> a = b.
Proof.
  revert b; induction a; destruct b; cbn; split; intros H; try congruence; try discriminate.
  - apply andb_prop in H. destruct H as [H1 H2]. apply Z.eqb_eq in H1. apply IHa in H2. congruence.
  - injection H as -> ->. rewrite Z.eqb_refl. apply IHa. reflexivity.
Qed.

Lemma zlist_cmp_eq a b : zlist_cmp a b = Eq <-> a = b.
Proof.
  revert b; induction a; destruct b; cbn; split; intros H; try congruence; try discriminate.
  - destruct (Z.compare_spec a z); try discriminate. apply IHa in H. congruence.
  - injection H as -> ->. rewrite Z.compare_refl. apply IHa. reflexivity.
Qed.

Lemma zero_not_nan b : f_abs b = 0 -> f_is_nan b = false.
Proof. unfold f_is_nan. intros ->. reflexivity. Qed.

Lemma zero_key b : f_valid b = true -> f_abs b = 0 -> fkey b = 0.
Proof. intros V Z. destruct (zero_pattern b V Z) as [-> | ->]; reflexivity. Qed.

Lemma f_eq_key a b : f_valid a = true -> f_valid b = true -> f_eq a b = true -> fkey a = fkey b.
Proof.
  intros Va Vb H. unfold f_eq in H. apply andb_prop in H. destruct H as [_ H].
  apply orb_prop in H. destruct H as [H|H].
  - apply Z.eqb_eq in H. congruence.
  - apply andb_prop in H. destruct H as [H1 H2]. rewrite !zero_key; auto; lia.
Qed.

Lemma key_eq_f_eq a b : f_valid a = true -> f_valid b = true -> f_is_nan a = false ->
  fkey a = fkey b -> f_eq a b = true.
Proof.
  intros Va Vb Na K. unfold f_eq. rewrite Na.
  destruct (fkey_inj a b Va Vb K) as [-> | [Z1 Z2]].
  - rewrite Na, Z.eqb_refl. reflexivity.
  - rewrite (zero_not_nan b Z2), Z1, Z2. cbn. apply orb_true_r.
Qed.

(* a float whose value is an integer: that integer rounds to itself *)
Lemma key_int_exact x z : f_valid x = true -> fkey x = z * SC -> rne_int z = z.
Proof.
  intros V K. destruct (rne_int_sandwich (fkey x) z (fkey_gridded x V)) as [A B].
  pose proof SC_pos. rewrite K in *. nia.
Qed.

Lemma int_abs_bound w z : int_valid w z = true -> Z.abs z <= 2 ^ 128.
Proof.
  unfold int_valid. destruct w; cbn [int_lo int_hi]; unfold i64_min, i64_max, u64_max, i128_min, i128_max, u128_max; lia.
Qed.

(* converse of as_f64_exact: an integer that IS a float passes the lossless check *)
Lemma as_f64_complete w z : int_valid w z = true -> rne_int z = z ->
  as_f64 (VInt w z) false = Some (f_of_int z).
Proof.
  intros W R. unfold as_f64. cbn [orb].
  pose proof (f_of_int_facts z (int_abs_bound w z W)) as Fz.
  assert (HH : Z.abs (int_hi w) <= 2 ^ 128) by (destruct w; cbn; unfold i64_max, u64_max, i128_max, u128_max; lia).
  pose proof (f_of_int_facts (int_hi w) HH) as FH.
  rewrite (f_to_int_clamp _ _ _ (iff_nan _ _ Fz)), (iff_trunc _ _ Fz), R.
  rewrite (f_lt_key _ _ (iff_valid _ _ Fz) (iff_valid _ _ FH) (iff_nan _ _ Fz) (iff_nan _ _ FH)).
  rewrite (iff_key _ _ Fz), (iff_key _ _ FH), rne_hi, R.
  unfold int_valid in W. pose proof SC_pos.
  replace (Z.max (int_lo w) (Z.min (int_hi w) z) =? z) with true by lia.
  replace (z * SC <? (int_hi w + 1) * SC) with true by nia. reflexivity.
Qed.

Lemma num_A a b : is_number a = true -> is_number b = true -> wf a = true -> wf b = true ->
  nan_free a = true -> nkey a = nkey b -> scalar_eq a b = true.
Proof.
  intros Na Nb Wa Wb NF K.
  destruct a; try discriminate Na; destruct b; try discriminate Nb; cbn [wf nkey nan_free] in *.
  - assert (z = z0) by (pose proof SC_pos; nia). subst z0. unfold int_valid in *.
    destruct w, w0; cbn [int_lo int_hi] in *;
      unfold scalar_eq, coerce, to_i128, to_int;
      unfold i64_min, i64_max, u64_max, i128_min, i128_max, u128_max in *;
      repeat match goal with
           | |- context [if ?c then _ else _] => destruct c eqn:?
           end; try lia.
  - (* int, float *)
    pose proof (key_int_exact bits z Wb (eq_sym K)) as R.
    pose proof (f_of_int_facts z (int_abs_bound w z Wa)) as Fz.
    unfold scalar_eq, coerce. destruct w; rewrite (as_f64_complete _ z Wa R);
      apply key_eq_f_eq; try apply Fz; auto; rewrite (iff_key _ _ Fz), R; auto.
  - pose proof (key_int_exact bits z Wa K) as R.
    pose proof (f_of_int_facts z (int_abs_bound w z Wb)) as Fz.
    unfold scalar_eq, coerce. rewrite (as_f64_complete _ z Wb R).
    apply key_eq_f_eq; try apply Fz; auto; try (rewrite (iff_key _ _ Fz), R; auto).
    destruct (f_is_nan bits); [discriminate NF|reflexivity].
  - cbn. apply key_eq_f_eq; auto. destruct (f_is_nan bits); [discriminate NF|reflexivity].
Qed.

Lemma scalar_A a b : is_scalar a = true -> is_scalar b = true -> kind_rank a = kind_rank b ->
  wf a = true -> wf b = true -> nan_free a = true -> scalar_cmp a b = Eq -> scalar_eq a b = true.
Proof.
  intros Sa Sb R Wa Wb NF C.
  destruct a; try discriminate Sa; destruct b; try discriminate Sb; try discriminate R.
  all: try (apply num_A; auto; rewrite num_cmp_key in C by auto; apply Z.compare_eq in C; exact C).
  - reflexivity.
  - reflexivity.
  - destruct b, b0; try reflexivity; discriminate C.
  - cbn in *. apply zlist_eqb_eq. apply zlist_cmp_eq. exact C.
  - cbn in *. apply zlist_eqb_eq. apply zlist_cmp_eq. exact C.
Qed.

(* == on two scalars of one kind implies cmp = Equal: both go through the same coercion *)
Lemma scalar_B_same a b : is_scalar a = true -> is_scalar b = true -> kind_rank a = kind_rank b ->
  wf a = true -> wf b = true -> scalar_eq a b = true -> scalar_cmp a b = Eq.
Proof.
  intros Sa Sb R Wa Wb E.
  destruct a; try discriminate Sa; destruct b; try discriminate Sb; try discriminate R.
  - reflexivity.
  - reflexivity.
  - destruct b, b0; try reflexivity; discriminate E.
  - (* int int *)
    cbn [wf] in *. unfold int_valid in *.
    destruct w, w0; cbn [int_lo int_hi] in *; unfold scalar_eq, scalar_cmp in *;
      try (destruct (coerce _ _) as [[x' y'|x' y'|x' y']|]; try discriminate E;
           [apply Z.compare_eq_iff; lia | unfold cmp_f64; rewrite E; reflexivity | apply zlist_cmp_eq; apply zlist_eqb_eq; exact E]).
    apply Z.compare_eq_iff. lia.
  - try destruct w; unfold scalar_eq, scalar_cmp in *;
    (destruct (coerce _ _) as [[x' y'|x' y'|x' y']|]; try discriminate E;
      [apply Z.compare_eq_iff; lia | unfold cmp_f64; rewrite E; reflexivity | apply zlist_cmp_eq; apply zlist_eqb_eq; exact E]).
  - try destruct w; unfold scalar_eq, scalar_cmp in *;
    (destruct (coerce _ _) as [[x' y'|x' y'|x' y']|]; try discriminate E;
      [apply Z.compare_eq_iff; lia | unfold cmp_f64; rewrite E; reflexivity | apply zlist_cmp_eq; apply zlist_eqb_eq; exact E]).
  - try destruct w; unfold scalar_eq, scalar_cmp in *;
    (destruct (coerce _ _) as [[x' y'|x' y'|x' y']|]; try discriminate E;
      [apply Z.compare_eq_iff; lia | unfold cmp_f64; rewrite E; reflexivity | apply zlist_cmp_eq; apply zlist_eqb_eq; exact E]).
  - cbn in *. apply zlist_cmp_eq. apply zlist_eqb_eq. exact E.
  - cbn in *. apply zlist_cmp_eq. apply zlist_eqb_eq. exact E.
  - reflexivity.
Qed.

(* == between scalars of different kinds happens only between a bool and a number *)
Lemma scalar_B_rank a b : is_scalar a = true -> scalar_eq a b = true ->
  kind_rank a = kind_rank b \/ (is_bool a && is_number b) || (is_number a && is_bool b) = true.
Proof.
  intros Sa E.
  destruct a; try discriminate Sa; destruct b; cbn [kind_rank is_bool is_number andb orb]; auto;
    exfalso; unfold scalar_eq, coerce, to_i128, to_int, as_f64 in E;
    repeat match type of E with
           | context [match ?w with W_I64 => _ | _ => _ end] => destruct w
           | context [if ?c then _ else _] => destruct c
           end; discriminate E.
Qed.

Lemma scalar_eq_scalar a b : is_scalar a = true -> scalar_eq a b = true -> is_scalar b = true.
Proof.
  intros Sa E. destruct b; try reflexivity; exfalso;
  destruct a; try discriminate Sa; unfold scalar_eq, coerce, to_i128, to_int, as_f64 in E;
    repeat match type of E with
           | context [match ?w with W_I64 => _ | _ => _ end] => destruct w
           | context [if ?c then _ else _] => destruct c
           end; discriminate E.
Qed.

(* ------------------------------------------------------------------ *)
(* maps: the BTreeMap invariant                                        *)
(* ------------------------------------------------------------------ *)
Definition wfkeys (kvs : list (value * value)) : Prop := Forall (fun kv => wf (fst kv) = true) kvs.

Lemma keys_ascending_tail kv r : keys_ascending (kv :: r) = true -> keys_ascending r = true.
Proof. destruct kv as [k v]. cbn [keys_ascending]. intros H. apply andb_prop in H. apply H. Qed.

Lemma asc_head k v r : keys_ascending ((k, v) :: r) = true -> wf k = true -> wfkeys r ->
  Forall (fun kv => vcmp k (fst kv) = Lt) r.
Proof.
  revert k v. induction r as [|[k2 v2] r IH]; intros k v A Wk Wr; [constructor|].
  pose proof (keys_ascending_tail _ _ A) as A2.
  cbn [keys_ascending] in A. apply andb_prop in A. destruct A as [A _].
  apply Forall_cons_iff in Wr. destruct Wr as [Wk2 Wr]. cbn [fst] in Wk2.
  assert (L : vcmp k k2 = Lt) by (destruct (vcmp k k2); try discriminate A; reflexivity).
  constructor; [exact L|].
  specialize (IH k2 v2 A2 Wk2 Wr).
  eapply Forall_impl; [|apply (Forall_and IH Wr)]. cbn. intros [k3 v3] [L2 W3]. cbn [fst] in *.
  destruct (vcmp_tbl k k2 k3 Wk Wk2 W3) as (_ & _ & T3 & _). auto.
Qed.

Lemma map_get_pos pre : forall k k2 v2 post,
  wfkeys (pre ++ (k2, v2) :: post) -> keys_ascending (pre ++ (k2, v2) :: post) = true ->
  wf k = true -> vcmp k k2 = Eq -> map_get k (pre ++ (k2, v2) :: post) = Some v2.
Proof.
  induction pre as [|[kp vp] pre IH]; intros k k2 v2 post W A Wk E; cbn [app map_get].
  - rewrite E. reflexivity.
  - apply Forall_cons_iff in W. destruct W as [Wp W]. cbn [fst] in Wp.
    pose proof (asc_head kp vp _ A Wp W) as H.
    apply Forall_app in H. destruct H as [_ H]. apply Forall_cons_iff in H. destruct H as [L _]. cbn [fst] in L.
    assert (Wk2 : wf k2 = true).
    { apply Forall_app in W. destruct W as [_ W]. apply Forall_cons_iff in W. apply W. }
    destruct (vcmp_tbl k k2 kp Wk Wk2 Wp) as (T1 & _). rewrite (T1 E).
    rewrite (vcmp_anti kp k2 Wp Wk2), L. cbn.
    apply IH; auto. eapply keys_ascending_tail; eauto.
Qed.

Lemma wf_map kvs : wf (VMap kvs) = true -> keys_ascending kvs = true /\ wfkeys kvs.
Proof.
  cbn [wf]. intros H. apply andb_prop in H. destruct H as [A H]. split; [exact A|].
  induction kvs as [|[k x] r IH]; [constructor|].
  apply andb_prop in H. destruct H as [H H3]. apply andb_prop in H. destruct H.
  constructor; auto. apply IH; auto.
  destruct r as [|[k2 x2] r]; [reflexivity|]. cbn [keys_ascending] in A. apply andb_prop in A. apply A.
Qed.

(* ------------------------------------------------------------------ *)
(* (A) cmp = Equal implies ==                                          *)
(* ------------------------------------------------------------------ *)
Lemma lex_Eq_all2 {A} (P Q : A -> Prop) (cmp : A -> A -> comparison) (f : A -> A -> bool) xs :
  Forall (fun x => P x -> forall y, Q y -> cmp x y = Eq -> f x y = true) xs ->
  forall ys, Forall P xs -> Forall Q ys -> lex_cmp cmp xs ys = Eq -> all2 f xs ys = true.
Proof.
  induction 1 as [|x xs Hx _ IH]; intros [|y ys] HP HQ E; cbn in *; try discriminate; auto.
  apply Forall_cons_iff in HP. destruct HP as [Px HP]. apply Forall_cons_iff in HQ. destruct HQ as [Qy HQ].
  destruct (cmp x y) eqn:C; try discriminate. rewrite (Hx Px y Qy C). cbn. apply IH; auto.
Qed.

Lemma lex_Eq_length {A} (cmp : A -> A -> comparison) xs : forall ys, lex_cmp cmp xs ys = Eq -> length xs = length ys.
Proof.
  induction xs; intros [|y ys] E; cbn in *; try discriminate; auto.
  destruct (cmp a y); try discriminate. f_equal. auto.
Qed.

Lemma flat_pairs_length kvs : length (flat_pairs kvs) = (2 * length kvs)%nat.
Proof. induction kvs as [|[k v] r IH]; cbn; lia. Qed.

Definition WN (x : value) : Prop := wf x = true /\ nan_free x = true.

Lemma map_A kvs : forall pre2 suf2,
  Forall (fun x => WN x -> forall y, wf y = true -> vcmp x y = Eq -> veq x y = true) (flat_pairs kvs) ->
  Forall WN (flat_pairs kvs) -> Forall (fun y => wf y = true) (flat_pairs suf2) ->
  wfkeys (pre2 ++ suf2) -> keys_ascending (pre2 ++ suf2) = true ->
  lex_cmp vcmp (flat_pairs kvs) (flat_pairs suf2) = Eq ->
  forallb (fun kv => match map_get (fst kv) (pre2 ++ suf2) with Some v2 => veq (snd kv) v2 | None => false end) kvs = true.
Proof.
  induction kvs as [|[k v] r IH]; intros pre2 suf2 H HP HQ W A E; [reflexivity|].
  destruct suf2 as [|[k2 v2] r2]; [discriminate E|].
  cbn [flat_pairs] in *.
  apply Forall_cons_iff in H. destruct H as [Hk H]. apply Forall_cons_iff in H. destruct H as [Hv H].
  apply Forall_cons_iff in HP. destruct HP as [Pk HP]. apply Forall_cons_iff in HP. destruct HP as [Pv HP].
  apply Forall_cons_iff in HQ. destruct HQ as [Qk HQ]. apply Forall_cons_iff in HQ. destruct HQ as [Qv HQ].
  cbn [lex_cmp] in E. destruct (vcmp k k2) eqn:Ck; try discriminate E. destruct (vcmp v v2) eqn:Cv; try discriminate E.
  cbn [forallb fst snd]. rewrite (map_get_pos pre2 k k2 v2 r2 W A (proj1 Pk) Ck).
  rewrite (Hv Pv v2 Qv Cv). cbn [andb].
  replace (pre2 ++ (k2, v2) :: r2) with ((pre2 ++ [(k2, v2)]) ++ r2) in * by (rewrite <- app_assoc; reflexivity).
  apply IH; auto.
Qed.

Theorem cmp_eq_veq a : forall vb, wf a = true -> wf vb = true -> nan_free a = true ->
  vcmp a vb = Eq -> veq a vb = true.
Proof.
  induction a using value_ind'; intros vb Wa Wb NF C; rewrite vcmp_eqn in C; unfold ranked in C;
    (destruct (kind_rank _ ?= kind_rank vb) eqn:R; try discriminate C); apply Z.compare_eq in R; rewrite veq_eqn.
  1-7: (destruct vb; try discriminate R; cbn [vbody veq_body] in *; apply scalar_A; auto).
  1-3: (destruct vb; try discriminate R; cbn [vbody veq_body is_tuple bool_cmp is_seqlike andb Bool.eqb] in *; try discriminate C;
        apply (lex_Eq_all2 WN (fun y => wf y = true) vcmp veq) with (4 := C);
        [ eapply Forall_impl; [|exact H]; cbn; intros x Hx [W1 W2] y Wy; apply Hx; auto
        | apply (Forall_and (wf_items _ Wa) (nan_free_items _ NF))
        | apply (wf_items _ Wb) ]).
  - destruct vb; try discriminate R. cbn [vbody veq_body items_of] in *.
    pose proof (lex_Eq_length _ _ _ C) as Len. rewrite !flat_pairs_length in Len.
    replace (length kvs =? length kvs0)%nat with true by (symmetry; apply Nat.eqb_eq; lia). cbn [andb].
    destruct (wf_map _ Wb) as [Asc Wk].
    apply (map_A kvs [] kvs0); auto.
    + apply flat_pairs_Forall. eapply Forall_impl; [|exact H]. cbn. intros [k v] [H1 H2]. cbn [fst snd] in *.
      split; intros [W1 W2] y Wy; [apply H1|apply H2]; auto.
    + apply (Forall_and (wf_items _ Wa) (nan_free_items _ NF)).
    + apply (wf_items _ Wb).
  - destruct vb; try discriminate R. cbn [vbody veq_body] in *. apply zlist_eqb_eq. apply zlist_cmp_eq. exact C.
  - discriminate NF.
Qed.

Definition kmem (k : value) (l : list (value * value)) : bool :=
  existsb (fun kv => match vcmp k (fst kv) with Eq => true | _ => false end) l.

Lemma map_get_kmem k l : map_get k l <> None -> kmem k l = true.
Proof.
  induction l as [|[k2 v2] r IH]; cbn; [congruence|]. destruct (vcmp k k2); cbn; auto.
Qed.

Lemma kmem_above k l : Forall (fun kv => vcmp k (fst kv) = Lt) l -> kmem k l = false.
Proof.
  induction 1 as [|[k2 v2] r Hd _ IH]; cbn; auto. cbn in Hd. rewrite Hd. cbn. exact IH.
Qed.

(* keys below k2 are not found among keys above k2 *)
Lemma kmem_lt_head k k2 v2 r2 : wf k = true -> wf k2 = true -> wfkeys r2 ->
  keys_ascending ((k2, v2) :: r2) = true -> vcmp k k2 = Lt -> kmem k ((k2, v2) :: r2) = false.
Proof.
  intros Wk Wk2 Wr A L. cbn. rewrite L. cbn.
  apply kmem_above.
  pose proof (asc_head k2 v2 r2 A Wk2 Wr) as H.
  eapply Forall_impl; [|apply (Forall_and H Wr)]. cbn. intros [k3 v3] [L3 W3]. cbn [fst] in *.
  destruct (vcmp_tbl k k2 k3 Wk Wk2 W3) as (_ & _ & T3 & _). auto.
Qed.

(* if the head keys are Equal, the later keys of a are found among the later keys of b *)
Lemma kmem_tail k1 v1 r k2 v2 r2 :
  wf k1 = true -> wf k2 = true -> wfkeys r -> keys_ascending ((k1, v1) :: r) = true ->
  vcmp k1 k2 <> Lt ->
  Forall (fun kv => kmem (fst kv) ((k2, v2) :: r2) = true) r ->
  Forall (fun kv => kmem (fst kv) r2 = true) r.
Proof.
  intros W1 W2 Wr A NL H.
  pose proof (asc_head k1 v1 r A W1 Wr) as L.
  eapply Forall_impl; [|apply (Forall_and H (Forall_and L Wr))]. cbn. intros [k v] (M & Lk & Wk). cbn [fst] in *.
  destruct (vcmp k k2) eqn:C; auto. exfalso.
  (* k = k2 and k1 < k, so k1 < k2 *)
  destruct (vcmp_tbl k1 k k2 W1 Wk W2) as (_ & T2 & _). rewrite <- (T2 C) in NL. congruence.
Qed.

Lemma emb_len b : forall a, wfkeys a -> wfkeys b -> keys_ascending a = true -> keys_ascending b = true ->
  Forall (fun kv => kmem (fst kv) b = true) a -> (length a <= length b)%nat.
Proof.
  induction b as [|[k2 v2] r2 IH]; intros a Wa Wb Aa Ab M.
  - destruct a; [cbn; lia|]. apply Forall_cons_iff in M. destruct M as [M _]. discriminate M.
  - destruct a as [|[k1 v1] r]; [cbn; lia|].
    apply Forall_cons_iff in Wa. destruct Wa as [W1 Wr]. apply Forall_cons_iff in Wb. destruct Wb as [W2 Wr2]. cbn [fst] in *.
    pose proof (keys_ascending_tail _ _ Ab) as Ab2. pose proof (keys_ascending_tail _ _ Aa) as Aa2.
    apply Forall_cons_iff in M. destruct M as [M1 M]. cbn [fst] in M1.
    destruct (vcmp k1 k2) eqn:C.
    + cbn [length]. apply le_n_S. apply IH; auto.
      apply (kmem_tail k1 v1 r k2 v2 r2); auto; congruence.
    + rewrite (kmem_lt_head k1 k2 v2 r2 W1 W2 Wr2 Ab C) in M1. discriminate M1.
    + cbn [length]. apply le_S. apply (IH ((k1, v1) :: r)); auto.
      * constructor; auto.
      * constructor.
        -- cbn [fst]. cbn in M1. rewrite C in M1. exact M1.
        -- apply (kmem_tail k1 v1 r k2 v2 r2); auto; congruence.
Qed.

Lemma map_positional a : forall pre2 suf2,
  wfkeys a -> wfkeys (pre2 ++ suf2) -> keys_ascending a = true -> keys_ascending (pre2 ++ suf2) = true ->
  keys_ascending suf2 = true ->
  length a = length suf2 ->
  Forall (fun kv => kmem (fst kv) suf2 = true) a ->
  forallb (fun kv => match map_get (fst kv) (pre2 ++ suf2) with Some v2 => veq (snd kv) v2 | None => false end) a = true ->
  Forall2 (fun kv kv2 => vcmp (fst kv) (fst kv2) = Eq /\ veq (snd kv) (snd kv2) = true) a suf2.
Proof.
  induction a as [|[k1 v1] r IH]; intros pre2 suf2 Wa Wb Aa Ab As Len M F.
  - destruct suf2; [constructor|discriminate Len].
  - destruct suf2 as [|[k2 v2] r2]; [discriminate Len|].
    apply Forall_cons_iff in Wa. destruct Wa as [W1 Wr]. cbn [fst] in W1.
    assert (Wb' := Wb). apply Forall_app in Wb'. destruct Wb' as [_ Wb']. apply Forall_cons_iff in Wb'. destruct Wb' as [W2 Wr2]. cbn [fst] in W2.
    pose proof (keys_ascending_tail _ _ As) as As2. pose proof (keys_ascending_tail _ _ Aa) as Aa2.
    apply Forall_cons_iff in M. destruct M as [M1 M]. cbn [fst] in M1.
    cbn [forallb fst snd] in F. apply andb_prop in F. destruct F as [F1 F].
    destruct (vcmp k1 k2) eqn:C.
    + rewrite (map_get_pos pre2 k1 k2 v2 r2 Wb Ab W1 C) in F1.
      constructor; [cbn [fst snd]; auto|].
      replace (pre2 ++ (k2, v2) :: r2) with ((pre2 ++ [(k2, v2)]) ++ r2) in * by (rewrite <- app_assoc; reflexivity).
      apply (IH (pre2 ++ [(k2, v2)]) r2); auto.
      apply (kmem_tail k1 v1 r k2 v2 r2); auto; congruence.
    + rewrite (kmem_lt_head k1 k2 v2 r2 W1 W2 Wr2 As C) in M1. discriminate M1.
    + exfalso.
      assert (L : (length ((k1, v1) :: r) <= length r2)%nat).
      { apply emb_len; auto.
        - constructor; auto.
        - constructor.
          + cbn [fst]. cbn in M1. rewrite C in M1. exact M1.
          + apply (kmem_tail k1 v1 r k2 v2 r2); auto; congruence. }
      cbn [length] in *. lia.
Qed.

Lemma forallb_lookup_kmem kvs kvs2 :
  forallb (fun kv => match map_get (fst kv) kvs2 with Some v2 => veq (snd kv) v2 | None => false end) kvs = true ->
  Forall (fun kv => kmem (fst kv) kvs2 = true) kvs.
Proof.
  induction kvs as [|[k v] r IH]; cbn; intros H; constructor; apply andb_prop in H; destruct H as [H1 H2]; auto.
  cbn [fst]. apply map_get_kmem. destruct (map_get k kvs2); congruence.
Qed.

(* == on two maps: the entries correspond position by position *)
Lemma map_veq_positional kvs kvs2 : wf (VMap kvs) = true -> wf (VMap kvs2) = true ->
  veq_body (VMap kvs) (VMap kvs2) = true ->
  Forall2 (fun kv kv2 => vcmp (fst kv) (fst kv2) = Eq /\ veq (snd kv) (snd kv2) = true) kvs kvs2.
Proof.
  intros Wa Wb E. cbn [veq_body] in E. apply andb_prop in E. destruct E as [Len F]. apply Nat.eqb_eq in Len.
  destruct (wf_map _ Wa) as [Aa Ka]. destruct (wf_map _ Wb) as [Ab Kb].
  apply (map_positional kvs [] kvs2); auto. apply forallb_lookup_kmem. exact F.
Qed.

Lemma all2_lex_Eq {A} (P Q : A -> Prop) (cmp : A -> A -> comparison) (f g : A -> A -> bool) xs :
  Forall (fun x => P x -> forall y, Q y -> f x y = true -> g x y = false -> cmp x y = Eq) xs ->
  forall ys, Forall P xs -> Forall Q ys -> all2 f xs ys = true -> any2 g xs ys = false -> lex_cmp cmp xs ys = Eq.
Proof.
  induction 1 as [|x xs Hx _ IH]; intros [|y ys] HP HQ E G; cbn in *; try discriminate; auto.
  apply Forall_cons_iff in HP. destruct HP as [Px HP]. apply Forall_cons_iff in HQ. destruct HQ as [Qy HQ].
  apply andb_prop in E. destruct E as [E1 E2]. apply orb_false_elim in G. destruct G as [G1 G2].
  rewrite (Hx Px y Qy E1 G1). apply IH; auto.
Qed.

Lemma positional_lex kvs kvs2 :
  Forall2 (fun kv kv2 => vcmp (fst kv) (fst kv2) = Eq /\ veq (snd kv) (snd kv2) = true) kvs kvs2 ->
  Forall (fun kv => forall y, wf (snd kv) = true -> wf y = true -> veq (snd kv) y = true -> cross_kind (snd kv) y = false -> vcmp (snd kv) y = Eq) kvs ->
  Forall (fun x => wf x = true) (flat_pairs kvs) -> Forall (fun x => wf x = true) (flat_pairs kvs2) ->
  any2 cross_kind (flat_pairs kvs) (flat_pairs kvs2) = false ->
  lex_cmp vcmp (flat_pairs kvs) (flat_pairs kvs2) = Eq.
Proof.
  induction 1 as [|[k v] [k2 v2] r r2 [Hk Hv] _ IH]; intros H W1 W2 G; [reflexivity|].
  cbn [flat_pairs fst snd] in *.
  apply Forall_cons_iff in H. destruct H as [H1 H]. cbn [snd] in H1.
  apply Forall_cons_iff in W1. destruct W1 as [Wk W1]. apply Forall_cons_iff in W1. destruct W1 as [Wv W1].
  apply Forall_cons_iff in W2. destruct W2 as [Wk2 W2]. apply Forall_cons_iff in W2. destruct W2 as [Wv2 W2].
  cbn [any2] in G. apply orb_false_elim in G. destruct G as [G1 G]. apply orb_false_elim in G. destruct G as [G2 G].
  cbn [lex_cmp]. rewrite Hk, (H1 v2 Wv Wv2 Hv G2). apply IH; auto.
Qed.

Theorem veq_cmp_eq a : forall vb, wf a = true -> wf vb = true ->
  veq a vb = true -> cross_kind a vb = false -> vcmp a vb = Eq.
Proof.
  induction a using value_ind'; intros vb Wa Wb E G; rewrite veq_eqn in E; rewrite cross_kind_eqn in G; rewrite vcmp_eqn; unfold ranked.
  1-7: (cbn [veq_body] in E;
        match type of E with scalar_eq ?x _ = true =>
          pose proof (scalar_eq_scalar x vb eq_refl E) as Sb; destruct (scalar_B_rank x vb eq_refl E) as [R|X] end;
        [ rewrite R, Z.compare_refl; destruct vb; try discriminate Sb; try discriminate R; cbn [vbody]; apply scalar_B_same; auto
        | unfold cross_body in G; rewrite X in G; discriminate G ]).
  1-3: (cbn [veq_body] in E; apply andb_prop in E; destruct E as [E E3]; apply andb_prop in E; destruct E as [E1 E2];
        destruct vb; try discriminate E1; try discriminate E2; cbn [cross_body is_bool is_number andb orb] in G; try discriminate G;
        cbn [kind_rank Z.compare Pos.compare Pos.compare_cont vbody is_tuple bool_cmp];
        apply (all2_lex_Eq (fun x => wf x = true) (fun y => wf y = true) vcmp veq cross_kind) with (4 := E3) (5 := G);
        [ eapply Forall_impl; [|exact H]; cbn; intros x Hx W1 y Wy; apply Hx; auto
        | apply (wf_items _ Wa) | apply (wf_items _ Wb) ]).
  - destruct vb; try discriminate E. cbn [cross_body is_bool is_number andb orb] in G.
    cbn [kind_rank Z.compare Pos.compare Pos.compare_cont vbody].
    apply positional_lex; auto.
    + apply map_veq_positional; auto.
    + eapply Forall_impl; [|exact H]. cbn. intros [k v] [H1 H2] y W1 W2. cbn [snd] in *. apply H2; auto.
    + apply (wf_items _ Wa).
    + apply (wf_items _ Wb).
  - destruct vb; try discriminate E. cbn [veq_body] in E. cbn. apply zlist_cmp_eq. apply zlist_eqb_eq. exact E.
  - (cbn [veq_body] in E;
        match type of E with scalar_eq ?x _ = true =>
          pose proof (scalar_eq_scalar x vb eq_refl E) as Sb; destruct (scalar_B_rank x vb eq_refl E) as [R|X] end;
        [ rewrite R, Z.compare_refl; destruct vb; try discriminate Sb; try discriminate R; cbn [vbody]; apply scalar_B_same; auto
        | unfold cross_body in G; rewrite X in G; discriminate G ]).
Qed.

Lemma rne_i64_max : rne_int i64_max = 2 ^ 63. Proof. vm_compute. reflexivity. Qed.

Lemma f_eq_false_key a b : f_valid a = true -> f_valid b = true -> fkey a <> fkey b -> f_eq a b = false.
Proof.
  intros Va Vb N. destruct (f_eq a b) eqn:E; [|reflexivity]. exfalso. apply N. apply f_eq_key; auto.
Qed.

(* hashing a float that is an integer: same stream as the integer *)
Lemma float_int_hash x w z : f_valid x = true -> int_valid w z = true -> f_is_nan x = false ->
  fkey x = z * SC -> num_hash (VFloat x) = num_hash (VInt w z).
Proof.
  intros V W Nn K.
  pose proof (key_int_exact x z V K) as R.
  pose proof (int_abs_bound w z W) as Hz.
  destruct (key_eq_facts x z V Hz ltac:(rewrite R; exact K)) as (T & _ & Fin). rewrite R in T.
  pose proof (f_of_int_facts z Hz) as Fz.
  assert (HM : Z.abs i64_max <= 2 ^ 128) by (unfold i64_max; lia).
  pose proof (f_of_int_facts i64_max HM) as FM.
  assert (Hm : Z.abs i64_min <= 2 ^ 128) by (unfold i64_min; lia).
  pose proof (f_of_int_facts i64_min Hm) as Fm.
  pose proof SC_pos as SP.
  unfold num_hash.
  assert (T64 : to_i64 (VFloat x) = to_i64 (VInt w z)).
  { unfold to_i64, to_int, f_fits_i64. rewrite (f_to_int_clamp _ _ x Nn), T.
    rewrite (f_lt_key x _ V (iff_valid _ _ FM) Nn (iff_nan _ _ FM)), (iff_key _ _ FM), rne_i64_max, K.
    destruct ((i64_min <=? z) && (z <=? i64_max)) eqn:In.
    - replace (Z.max i64_min (Z.min i64_max z)) with z by lia.
      rewrite (key_eq_f_eq (f_of_int z) x (iff_valid _ _ Fz) V (iff_nan _ _ Fz)) by (rewrite (iff_key _ _ Fz), R; auto).
      replace (z * SC <? 2 ^ 63 * SC) with true by (unfold i64_max in *; nia). cbn [andb]. rewrite In. reflexivity.
    - destruct (Z_lt_le_dec i64_max z) as [Big|Small].
      + replace (Z.max i64_min (Z.min i64_max z)) with i64_max by (unfold i64_min, i64_max in *; lia).
        destruct (Z.eq_dec z (2 ^ 63)) as [->|NE].
        * rewrite Z.ltb_irrefl. rewrite andb_false_r. reflexivity.
        * rewrite (f_eq_false_key _ x (iff_valid _ _ FM) V); [reflexivity|].
          rewrite (iff_key _ _ FM), rne_i64_max, K. nia.
      + replace (Z.max i64_min (Z.min i64_max z)) with i64_min by (unfold i64_min, i64_max in *; lia).
        rewrite (f_eq_false_key _ x (iff_valid _ _ Fm) V); [reflexivity|].
        rewrite (iff_key _ _ Fm), rne_i64_min, K. unfold i64_min, i64_max in *. nia. }
  rewrite T64. destruct (to_i64 (VInt w z)) eqn:E; [reflexivity|].
  unfold as_f64. cbn [orb].
  destruct (fkey_inj x (f_of_int z) V (iff_valid _ _ Fz)) as [-> | [Z1 Z2]]; [rewrite (iff_key _ _ Fz), R; auto|reflexivity|].
  exfalso. rewrite (zero_key x V Z1) in K. assert (Hz0 : z = 0) by nia. rewrite Hz0 in E.
  vm_compute in E. discriminate E.
Qed.

Lemma scalar_C a b : is_scalar a = true -> is_scalar b = true -> kind_rank a = kind_rank b ->
  wf a = true -> wf b = true -> scalar_eq a b = true -> vhash a = vhash b.
Proof.
  intros Sa Sb R Wa Wb E.
  pose proof (scalar_B_same a b Sa Sb R Wa Wb E) as C.
  destruct a; try discriminate Sa; destruct b; try discriminate Sb; try discriminate R; rewrite !vhash_eqn; cbn [vhash_body].
  - reflexivity.
  - reflexivity.
  - destruct b, b0; try reflexivity; discriminate E.
  - rewrite int_cmp_exact in C by auto. apply Z.compare_eq in C. subst. reflexivity.
  - (* int, float *)
    cbn [wf] in *. rewrite num_cmp_key in C by auto. apply Z.compare_eq in C. cbn [nkey] in C.
    symmetry. apply float_int_hash; auto.
    unfold scalar_eq, coerce in E. destruct w; destruct (as_f64 _ false); try discriminate E;
      unfold f_eq in E; destruct (f_is_nan bits); auto; rewrite andb_false_r in E; discriminate E.
  - cbn [wf] in *. rewrite num_cmp_key in C by auto. apply Z.compare_eq in C. cbn [nkey] in C.
    apply float_int_hash; auto.
    unfold scalar_eq, coerce in E. destruct (as_f64 _ false); try discriminate E;
      unfold f_eq in E; destruct (f_is_nan bits); auto; discriminate E.
  - cbn in E. cbn [wf] in *. unfold f_eq in E. apply andb_prop in E. destruct E as [E1 E2].
    apply orb_prop in E2. destruct E2 as [E2|E2].
    + apply Z.eqb_eq in E2. subst. reflexivity.
    + apply andb_prop in E2. destruct E2 as [Z1 Z2]. apply Z.eqb_eq in Z1, Z2.
      destruct (zero_pattern _ Wa Z1) as [-> | ->]; destruct (zero_pattern _ Wb Z2) as [-> | ->]; vm_compute; reflexivity.
  - cbn in E. apply zlist_eqb_eq in E. subst. reflexivity.
  - cbn in E. apply zlist_eqb_eq in E. subst. reflexivity.
  - discriminate E.
Qed.

Lemma all2_hpairs xs : forall ys i,
  Forall (fun x => wf x = true -> forall y, wf y = true -> veq x y = true -> cross_kind x y = false -> vhash x = vhash y) xs ->
  Forall (fun x => wf x = true) xs -> Forall (fun y => wf y = true) ys ->
  all2 veq xs ys = true -> any2 cross_kind xs ys = false -> hpairs i xs = hpairs i ys.
Proof.
  induction xs as [|x xs IH]; intros [|y ys] i H W1 W2 E G; cbn [hpairs all2 any2] in *; try discriminate; auto.
  apply Forall_cons_iff in H. destruct H as [Hx H].
  apply Forall_cons_iff in W1. destruct W1 as [Wx W1]. apply Forall_cons_iff in W2. destruct W2 as [Wy W2].
  apply andb_prop in E. destruct E as [E1 E2]. apply orb_false_elim in G. destruct G as [G1 G2].
  rewrite (Hx Wx y Wy E1 G1). f_equal. f_equal. apply IH; auto.
Qed.

Lemma positional_hflat kvs kvs2 :
  Forall2 (fun kv kv2 => vcmp (fst kv) (fst kv2) = Eq /\ veq (snd kv) (snd kv2) = true) kvs kvs2 ->
  Forall (fun x => WN x -> forall y, wf y = true -> veq x y = true -> cross_kind x y = false -> vhash x = vhash y) (flat_pairs kvs) ->
  Forall WN (flat_pairs kvs) -> Forall (fun x => wf x = true) (flat_pairs kvs2) ->
  any2 cross_kind (flat_pairs kvs) (flat_pairs kvs2) = false ->
  hflat (flat_pairs kvs) = hflat (flat_pairs kvs2).
Proof.
  induction 1 as [|[k v] [k2 v2] r r2 [Hk Hv] _ IH]; intros H W1 W2 G; [reflexivity|].
  cbn [flat_pairs fst snd] in *.
  apply Forall_cons_iff in H. destruct H as [H1 H]. apply Forall_cons_iff in H. destruct H as [H2 H].
  apply Forall_cons_iff in W1. destruct W1 as [Wk W1]. apply Forall_cons_iff in W1. destruct W1 as [Wv W1].
  apply Forall_cons_iff in W2. destruct W2 as [Wk2 W2]. apply Forall_cons_iff in W2. destruct W2 as [Wv2 W2].
  cbn [any2] in G. apply orb_false_elim in G. destruct G as [G1 G]. apply orb_false_elim in G. destruct G as [G2 G].
  cbn [hflat].
  rewrite (H1 Wk k2 Wk2 (cmp_eq_veq k k2 (proj1 Wk) Wk2 (proj2 Wk) Hk) G1).
  rewrite (H2 Wv v2 Wv2 Hv G2). f_equal. f_equal. apply IH; auto.
Qed.

Theorem veq_hash_eq a : forall vb, wf a = true -> wf vb = true -> nan_free a = true ->
  veq a vb = true -> cross_kind a vb = false -> vhash a = vhash vb.
Proof.
  induction a using value_ind'; intros vb Wa Wb NF E G; rewrite veq_eqn in E; rewrite cross_kind_eqn in G.
  1-7: (cbn [veq_body] in E;
        match type of E with scalar_eq ?x _ = true =>
          pose proof (scalar_eq_scalar x vb eq_refl E) as Sb; destruct (scalar_B_rank x vb eq_refl E) as [R|X] end;
        [ apply scalar_C; auto
        | unfold cross_body in G; rewrite X in G; discriminate G ]).
  1-3: (cbn [veq_body] in E; apply andb_prop in E; destruct E as [E E3]; apply andb_prop in E; destruct E as [E1 E2];
        destruct vb; try discriminate E1; try discriminate E2; cbn [cross_body is_bool is_number andb orb] in G; try discriminate G;
        rewrite !vhash_eqn; cbn [vhash_body]; f_equal; cbn [items_of] in *;
        apply all2_hpairs; auto;
        [ eapply Forall_mp; [|apply (nan_free_items _ NF)]; eapply Forall_impl; [|exact H]; cbn; intros x Hx N1 W1 y Wy; apply Hx; auto
        | apply (wf_items _ Wa) | apply (wf_items _ Wb) ]).
  - destruct vb; try discriminate E. cbn [cross_body is_bool is_number andb orb] in G.
    rewrite !vhash_eqn; cbn [vhash_body]; f_equal.
    apply positional_hflat; auto.
    + apply map_veq_positional; auto.
    + apply flat_pairs_Forall. eapply Forall_impl; [|exact H]. cbn. intros [k v] [H1 H2]. cbn [fst snd] in *.
      split; intros [W1 W2] y Wy; [apply H1|apply H2]; auto.
    + apply (Forall_and (wf_items _ Wa) (nan_free_items _ NF)).
    + apply (wf_items _ Wb).
  - destruct vb; try discriminate E. rewrite !vhash_eqn. reflexivity.
  - discriminate NF.
Qed.

(* == is symmetric (outside the known classes, NaN aside) *)
Theorem veq_sym_proof a b : wf a = true -> wf b = true -> nan_free b = true ->
  cross_kind a b = false -> veq a b = true -> veq b a = true.
Proof.
  intros Wa Wb NF G E. apply cmp_eq_veq; auto.
  rewrite (vcmp_anti a b Wa Wb), (veq_cmp_eq a b Wa Wb E G). reflexivity.
Qed.
