(* C07 proofs *)
From MJ Require Import Common.Base C07.Model C07.Spec.
