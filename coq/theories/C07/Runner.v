(* Executable entry points of the C07 model, in the integer-list protocol shared with the
   Rust harness (harness/src/bin/c07.rs; the value description is documented there).
   Encoders/decoders here are unverified glue of the correspondence check. *)
From Coq Require Import String.
From MJ Require Import Common.Base.
From MJ Require Import C07.Model C07.Spec.

Definition width_of (z : Z) : iw :=
  match z with 0 => W_I64 | 1 => W_U64 | 2 => W_I128 | _ => W_U128 end.

Fixpoint pair_up (l : list value) : list (value * value) :=
  match l with
  | k :: v :: r => (k, v) :: pair_up r
  | _ => []
  end.

Fixpoint dec_sh (o : map_order) (sh : option value) (fuel : nat) (l : list Z) : option (value * list Z) :=
  match fuel with
  | O => None
  | S fuel =>
      let many := fix many (n : nat) (l : list Z) : option (list value * list Z) :=
        match n with
        | O => Some ([], l)
        | S n => match dec_sh o sh fuel l with
                 | Some (v, l') => match many n l' with
                                   | Some (vs, l'') => Some (v :: vs, l'')
                                   | None => None
                                   end
                 | None => None
                 end
        end in
      match l with
      | 0 :: r => Some (VUndef, r)
      | 1 :: r => Some (VNone, r)
      | 2 :: b :: r => Some (VBool (negb (b =? 0)), r)
      | 3 :: w :: z :: r => Some (VInt (width_of w) z, r)
      | 4 :: bits :: r => Some (VFloat bits, r)
      | 5 :: f :: n :: r => Some (VStr (f =? 1) (takeZ n r), skipZ n r)   (* f = 0 / 2 / 3: the same string in another representation *)
      | 6 :: n :: r => Some (VBytes (takeZ n r), skipZ n r)
      | 7 :: n :: r => match many (Z.to_nat n) r with Some (vs, r') => Some (VSeq vs, r') | None => None end
      | 8 :: n :: r => match many (Z.to_nat n) r with Some (vs, r') => Some (VTuple vs, r') | None => None end
      | 9 :: s :: n :: r => match many (Z.to_nat n) r with Some (vs, r') => Some (VIter (match s with 0 => LzUnsized | 1 => LzSized | _ => LzRev end) vs, r') | None => None end
      | 10 :: n :: r => match many (Z.to_nat (2 * n)) r with
                        | Some (vs, r') => Some (VMap (map_build_o o (pair_up vs)), r')
                        | None => None
                        end
      | 11 :: n :: r => Some (VPlain (takeZ n r), skipZ n r)
      | 12 :: n :: r => Some (VInvalid (takeZ n r), skipZ n r)
      | 14 :: r => match sh with Some x => Some (x, r) | None => None end     (* the shared value of mode 4: structurally just that value *)
      | _ => None
      end
  end.

Definition dec (o : map_order) := dec_sh o None.

(* canonical form: integer width and iterable sizedness erased *)
Fixpoint enc (v : value) : list Z :=
  let many := fix many (xs : list value) : list Z :=
    match xs with [] => [] | x :: r => enc x ++ many r end in
  match v with
  | VUndef => [0]
  | VNone => [1]
  | VBool b => [2; if b then 1 else 0]
  | VInt _ z => [3; 0; z]
  | VFloat bits => [4; bits]
  | VStr safe s => 5 :: (if safe then 1 else 0) :: lenZ s :: s
  | VBytes bs => 6 :: lenZ bs :: bs
  | VSeq xs => 7 :: lenZ xs :: many xs
  | VTuple xs => 8 :: lenZ xs :: many xs
  | VIter _ xs => 9 :: 0 :: lenZ xs :: many xs
  | VMap kvs => 10 :: lenZ kvs ::
      (fix mp (xs : list (value * value)) : list Z :=
         match xs with [] => [] | (k, x) :: r => enc k ++ enc x ++ mp r end) kvs
  | VPlain s => 11 :: lenZ s :: s
  | VInvalid _ => [12]
  end.

Definition enc_out (o : outcome value) : list Z :=
  match o with
  | Ok v => 0 :: enc v
  | Err c => [1; c]
  | Panic => [2]
  | OutOfGas => [8]
  end.

Definition b2z (b : bool) : Z := if b then 1 else 0.
Definition c2z (c : comparison) : Z := match c with Lt => 0 | Eq => 1 | Gt => 2 end.

Definition flag (dflt : bool) (z : Z) : bool :=
  match z with 0 => false | 1 => true | _ => dflt end.

Definition run_filter (fid : Z) (rev cs : Z) (count : Z) (attr : option (list Z)) (fill : option value)
           (x : value) : outcome value :=
  let rev := flag false rev in
  let cs := flag false cs in
  match fid with
  | 0 => f_sort cs rev attr x
  | 1 => f_unique cs attr x
  | 2 => match attr with
         | Some key => f_groupby cs key (match fill with Some d => d | None => VUndef end) x
         | None => Err E_MissingArgument
         end
  | 3 => f_batch count (match fill with Some VUndef | Some VNone => None | o => o end) x
  | 4 => f_slice count (match fill with Some VUndef | Some VNone => None | o => o end) x
  | 5 => f_reverse x
  | 6 => f_min x
  | 7 => f_max x
  | 9 => f_last x
  | 10 => f_dictsort (negb (count =? 0)) cs rev x
  | 11 => f_items x
  | 12 => match attr with
          | Some key => f_map_attr key (match fill with Some d => d | None => VUndef end) x
          | None => Err E_MissingArgument
          end
  | 13 => f_select false x
  | 14 => f_select true x
  | 15 => f_sum x
  | 16 => f_join (match attr with Some d => d | None => [] end) x
  | _ => bind (f_reverse x) f_reverse
  end.

Definition run_o (o : map_order) (inp : list Z) : list Z :=
  let fuel := S (length inp) in
  match inp with
  | 0 :: r =>
      match dec o fuel r with
      | Some (a, r') =>
          match dec o fuel r' with
          | Some (b, _) =>
              let c := vcmp a b in
              (* loading an invalid value from the context raises its error *)
              if (match a with VInvalid _ => true | _ => false end) || (match b with VInvalid _ => true | _ => false end)
              then [b2z (veq_o o a b); c2z c; b2z (hash_eq a b); 103; 103; 103; 103] else
              [b2z (veq_o o a b); c2z c; b2z (hash_eq a b);
               b2z (match c with Lt => true | _ => false end);   (* a < b *)
               b2z (veq_o o a b);                                 (* a == b *)
               b2z (veq_o o b a);                                 (* a in [b]: any(|v| &v == value) *)
               b2z (match map_get_o o a [(b, VNone)] with Some _ => true | None => false end)]  (* {b: 1}[a] *)
          | None => [9]
          end
      | None => [9]
      end
  | 4 :: r =>
      (* aliasing: structurally the same as mode 0 on the expanded values *)
      match dec o fuel r with
      | Some (x, r1) =>
          match dec_sh o (Some x) fuel r1 with
          | Some (a, r2) =>
              match dec_sh o (Some x) fuel r2 with
              | Some (b, _) =>
                  let c := vcmp a b in
                  [b2z (veq_o o a b); c2z c; b2z (hash_eq a b);
                   b2z (match c with Lt => true | _ => false end); b2z (veq_o o a b); b2z (veq_o o b a);
                   b2z (match map_get_o o a [(b, VNone)] with Some _ => true | None => false end)]
              | None => [9]
              end
          | None => [9]
          end
      | None => [9]
      end
  | 5 :: opid :: r =>
      (* repeatable enumeration: values are immutable, every observation of r sees the same items *)
      match dec o fuel r with
      | Some (x, _) =>
          if 100 <=? opid then [7] else
          let res :=
            match opid with
            | 0 => f_reverse x
            | 1 => f_items x
            | 2 => f_dictsort false false false x
            | 3 => f_slice 2 None x
            | 4 => f_batch 2 None x
            | 5 => f_map_attr [97] VNone x
            | 6 => f_select false x
            | 7 => f_select true x
            | 8 => f_sort false false None x
            | 9 => f_unique false None x
            | 10 => f_list x
            | 11 => bind (f_reverse x) f_reverse
            | _ => Ok x
            end in
          match res with
          | Ok rv =>
              0 :: enc_out (f_list rv) ++ enc_out (f_list rv) ++ enc_out (f_length rv) ++ enc_out (f_list rv) ++
                   enc_out (bind (f_reverse rv) f_list) ++ enc_out (f_list rv)
          | Err c => [1; c]
          | Panic => [2]
          | OutOfGas => [8]
          end
      | None => [9]
      end
  | 3 :: r =>
      (* chains over a, b, c (harness CHAINS, same order); the literal spelling must give the same answers *)
      match dec o fuel r with
      | Some (a, r1) =>
          match dec o fuel r1 with
          | Some (b, r2) =>
              match dec o fuel r2 with
              | Some (c, r3) =>
                  let e (x : outcome bool) : Z := match x with Ok t => b2z t | Err _ => 103 | _ => 8 end in
                  let ch l links := e (chain o l links) in
                  let res :=
                    [ ch a [(OIn, b)]; ch a [(ONotIn, b)]; ch a [(ONotIn, b); (ONe, c)]; ch a [(OIn, b); (ONe, c)];
                      ch a [(OIn, b); (OEq, c)]; ch a [(ONotIn, b); (OEq, c)];
                      ch c [(ONe, a); (ONotIn, b)]; ch c [(OEq, a); (OIn, b)]; ch a [(OLt, c); (OIn, b)]; ch a [(OLe, c); (ONotIn, b)];
                      ch a [(OEq, c)]; ch a [(ONe, c)]; ch a [(OLt, c)]; ch a [(OLe, c)]; ch a [(OGt, c)]; ch a [(OGe, c)];
                      ch a [(OLt, c); (OLt, a)]; ch a [(OLe, c); (OLe, a)]; ch a [(OEq, c); (OEq, a)]; ch a [(ONe, c); (ONe, a)];
                      ch a [(OLt, c); (ONe, a)]; ch a [(OGe, c); (OGt, a)] ] in
                  if existsb (fun z => z =? 8) res then [8]
                  else match r3 with
                       | 0 :: _ => res
                       | _ => res ++ res
                       end
              | None => [9]
              end
          | None => [9]
          end
      | None => [9]
      end
  | 2 :: r =>
      (* containment: [v in c; v not in c; v is in(c); v in (c|list); c[v] is defined (maps only, else 9)] *)
      match dec o fuel r with
      | Some (c, r') =>
          match dec o fuel r' with
          | Some (v, _) =>
              let lookup := match c with
                            | VMap kvs => b2z (match map_get_o o v kvs with Some _ => true | None => false end)
                            | _ => 9
                            end in
              if (match c with VInvalid _ => true | _ => false end) || (match v with VInvalid _ => true | _ => false end)
              then [103; 103; 103; 103; match c with VMap _ => 103 | _ => 9 end] else
              let enc_b (neg : bool) (dflt : Z) (x : outcome bool) : list Z :=
                match x with
                | Ok b => [b2z (if neg then negb b else b)]
                | Err _ => [dflt]
                | _ => [8]
                end in
              let r1 := contains_o o c v in
              let r2 := bind (iter_items c) (fun items => contains_o o (VSeq items) v) in
              match r1, r2 with
              | OutOfGas, _ | _, OutOfGas => [8]
              | _, _ => enc_b false 103 r1 ++ enc_b true 103 r1 ++ enc_b false 0 r1 ++ enc_b false 103 r2 ++ [lookup]
              end
          | None => [9]
          end
      | None => [9]
      end
  | 1 :: fid :: rev :: cs :: count :: atag :: r =>
      let '(attr, r1) := if atag =? 0 then (None, r)
                         else match r with n :: r' => (Some (takeZ n r'), skipZ n r') | [] => (None, r) end in
      match r1 with
      | ft :: r2 =>
          match (if ft =? 0 then Some (None, r2)
                 else match dec o fuel r2 with Some (f, r3) => Some (Some f, r3) | None => None end) with
          | Some (fill, r3) =>
              match dec o fuel r3 with
              | Some (x, _) => enc_out (run_filter fid rev cs count attr fill x)
              | None => [9]
              end
          | None => [9]
          end
      | [] => [9]
      end
  | _ => [9]
  end.

(* classification of a pair for the check: [known-finding class; nan_free a && nan_free b] *)
Definition run := run_o Sorted.

Definition classify_o (o : map_order) (inp : list Z) : list Z :=
  let fuel := S (length inp) in
  match inp with
  | 0 :: r =>
      match dec o fuel r with
      | Some (a, r') =>
          match dec o fuel r' with
          | Some (b, _) => [b2z (cross_kind a b); b2z (nan_free a && nan_free b); b2z (reordered a b)]
          | None => [9]
          end
      | None => [9]
      end
  | _ => [9]
  end.

Definition classify := classify_o Sorted.

Open Scope string_scope.
Definition runners : list (string * (list Z -> list Z)) :=
  [ ("c07", run); ("c07-classify", classify);
    ("c07-po", run_o Insertion); ("c07-po-classify", classify_o Insertion) ].
