(* C07 specification: the laws of the property text, stated over an arbitrary comparison /
   equality / hash and over arbitrary lists, plus the decidable description of the
   known-finding pair classes.  Written from the property, not from the code; no proofs. *)
From Coq Require Import Sorting.Permutation.
From MJ Require Import Common.Base.
From MJ Require Import C07.Model.

(* ------------------------------------------------------------------------------------ *)
(* order / equality / hash laws                                                         *)
(* ------------------------------------------------------------------------------------ *)
Section OrderLaws.
  Context {A : Type}.
  Variable cmp : A -> A -> comparison.

  Definition le (a b : A) : Prop := cmp a b <> Gt.

  Definition Reflexive_cmp : Prop := forall a, cmp a a = Eq.
  Definition Antisymmetric_cmp : Prop := forall a b, cmp b a = CompOpp (cmp a b).
  Definition Transitive_cmp : Prop := forall a b c, le a b -> le b c -> le a c.
  (* "defined for every pair": with a total [comparison]-valued function this is a <= b \/ b <= a *)
  Definition Total_cmp : Prop := forall a b, le a b \/ le b a.
  (* Equal is a congruence for the order (needed so that equal keys are interchangeable) *)
  Definition Eq_compat_cmp : Prop := forall a b c, cmp a b = Eq -> cmp a c = cmp b c.

  Record TotalPreorder : Prop := {
    tp_refl : Reflexive_cmp;
    tp_antisym : Antisymmetric_cmp;
    tp_trans : Transitive_cmp;
  }.
End OrderLaws.

(* ------------------------------------------------------------------------------------ *)
(* the exact value of a number                                                          *)
(* ------------------------------------------------------------------------------------ *)
(* Every finite binary64 value is an integer multiple of 2^-1074.  [fkey] is the value of a
   bit pattern in that unit (sign * significand * 2^(biased exponent - 1)); the formula
   also orders the infinities beyond every finite value and the NaNs beyond the infinities
   (by payload), like IEEE totalOrder.  Integers are scaled by SC = 2^1074, so two numbers
   of any representation compare by [nkey]. *)
Definition fmag (bits : Z) : Z :=
  let e := f_exp bits in let m := f_man bits in
  if e =? 0 then m else (2 ^ 52 + m) * 2 ^ (e - 1).
Definition fkey (bits : Z) : Z := if f_neg bits then - fmag bits else fmag bits.
Definition SC : Z := 2 ^ 1074.
Definition nkey (v : value) : Z :=
  match v with
  | VInt _ z => z * SC
  | VFloat b => fkey b
  | _ => 0
  end.

(* ------------------------------------------------------------------------------------ *)
(* the domain: well-formed values                                                       *)
(* ------------------------------------------------------------------------------------ *)
Definition f_valid (bits : Z) : bool := (0 <=? bits) && (bits <? 2 ^ 64).

Definition int_valid (w : iw) (z : Z) : bool := (int_lo w <=? z) && (z <=? int_hi w).

(* strictly ascending keys: the BTreeMap invariant *)
Fixpoint keys_ascending (kvs : list (value * value)) : bool :=
  match kvs with
  | [] => true
  | (k, _) :: r =>
      match r with
      | [] => true
      | (k2, _) :: _ => match vcmp k k2 with Lt => true | _ => false end
      end && keys_ascending r
  end.

(* machine integers in range, floats are 64-bit patterns, maps satisfy the BTreeMap invariant *)
Fixpoint wf (v : value) : bool :=
  let all := fix all (xs : list value) : bool :=
    match xs with [] => true | x :: r => wf x && all r end in
  match v with
  | VInt w z => int_valid w z
  | VFloat b => f_valid b
  | VSeq xs | VTuple xs | VIter _ xs => all xs
  | VMap kvs =>
      keys_ascending kvs &&
      (fix allp (xs : list (value * value)) : bool :=
         match xs with [] => true | (k, x) :: r => wf k && wf x && allp r end) kvs
  | _ => true
  end.

(* the part of [wf] the order laws need: numbers are valid, nothing is asked of the maps
   (so it also holds for insertion-ordered maps) *)
Fixpoint wfn (v : value) : bool :=
  let all := fix all (xs : list value) : bool :=
    match xs with [] => true | x :: r => wfn x && all r end in
  match v with
  | VInt w z => int_valid w z
  | VFloat b => f_valid b
  | VSeq xs | VTuple xs | VIter _ xs => all xs
  | VMap kvs =>
      (fix allp (xs : list (value * value)) : bool :=
         match xs with [] => true | (k, x) :: r => wfn k && wfn x && allp r end) kvs
  | _ => true
  end.

(* no NaN anywhere inside ("NaN aside") -- and no invalid value, which like NaN is not ==
   to itself (it stands for an error, not for a value) *)
Fixpoint nan_free (v : value) : bool :=
  let all := fix all (xs : list value) : bool :=
    match xs with [] => true | x :: r => nan_free x && all r end in
  match v with
  | VFloat b => negb (f_is_nan b)
  | VInvalid _ => false
  | VSeq xs | VTuple xs | VIter _ xs => all xs
  | VMap kvs =>
      (fix allp (xs : list (value * value)) : bool :=
         match xs with [] => true | (k, x) :: r => nan_free k && nan_free x && allp r end) kvs
  | _ => true
  end.

(* ------------------------------------------------------------------------------------ *)
(* known findings: the pair classes on which `==` and the order disagree                *)
(* ------------------------------------------------------------------------------------ *)
Definition is_number (v : value) : bool := match v with VInt _ _ | VFloat _ => true | _ => false end.
Definition is_bool (v : value) : bool := match v with VBool _ => true | _ => false end.
Definition is_list (v : value) : bool := match v with VSeq _ => true | _ => false end.
Definition is_lazy (v : value) : bool := match v with VIter _ _ => true | _ => false end.

(* a bool facing a number, or a list facing a lazy iterable, at the top or at corresponding
   positions inside two containers *)
Fixpoint cross_kind (a b : value) {struct a} : bool :=
  let any := fix any (xs ys : list value) {struct xs} : bool :=
    match xs, ys with
    | x :: xs', y :: ys' => cross_kind x y || any xs' ys'
    | _, _ => false
    end in
  (is_bool a && is_number b) || (is_number a && is_bool b) ||
  match a with
  | VSeq xs => match b with
               | VIter _ ys => true
               | VSeq ys => any xs ys
               | _ => false
               end
  | VIter _ xs => match b with
                  | VSeq ys => true
                  | VIter _ ys => any xs ys
                  | _ => false
                  end
  | VTuple xs => match b with VTuple ys => any xs ys | _ => false end
  | VMap kvs =>
      match b with
      | VMap kvs2 =>
          (fix anyp (xs ys : list (value * value)) {struct xs} : bool :=
             match xs, ys with
             | (k1, v1) :: xs', (k2, v2) :: ys' => cross_kind k1 k2 || cross_kind v1 v2 || anyp xs' ys'
             | _, _ => false
             end) kvs kvs2
      | _ => false
      end
  | _ => false
  end.

Definition Known (a b : value) : Prop := cross_kind a b = true.

(* With insertion-ordered maps (feature `preserve_order`) one more class: two maps whose
   keys do not line up in iteration order, at the top or at corresponding positions.  Such
   maps can be == (same content, inserted in another order) while cmp and the hash, which
   walk the pairs in iteration order, tell them apart. *)
Fixpoint reordered (a b : value) {struct a} : bool :=
  let any := fix any (xs ys : list value) {struct xs} : bool :=
    match xs, ys with
    | x :: xs', y :: ys' => reordered x y || any xs' ys'
    | _, _ => false
    end in
  match a with
  | VSeq xs | VTuple xs | VIter _ xs =>
      match b with
      | VSeq ys | VTuple ys | VIter _ ys => any xs ys
      | _ => false
      end
  | VMap kvs =>
      match b with
      | VMap kvs2 =>
          (fix anyp (xs ys : list (value * value)) {struct xs} : bool :=
             match xs, ys with
             | (k1, v1) :: xs', (k2, v2) :: ys' =>
                 match vcmp k1 k2 with Eq => false | _ => true end || reordered v1 v2 || anyp xs' ys'
             | _, _ => false
             end) kvs kvs2
      | _ => false
      end
  | _ => false
  end.

Definition Known_o (o : map_order) (a b : value) : Prop :=
  cross_kind a b = true \/ (o = Insertion /\ reordered a b = true).

(* ------------------------------------------------------------------------------------ *)
(* filter laws                                                                          *)
(* ------------------------------------------------------------------------------------ *)
Section FilterLaws.
  Context {A : Type}.
  Variable cmp : A -> A -> comparison.

  (* ascending: every element is <= every later element *)
  Inductive Ordered : list A -> Prop :=
  | Ordered_nil : Ordered []
  | Ordered_cons : forall x l, Forall (fun y => cmp x y <> Gt) l -> Ordered l -> Ordered (x :: l).

  (* stability: the elements that compare Equal to an input element appear in input order *)
  Definition equals_of (x : A) (l : list A) : list A :=
    filter (fun y => match cmp x y with Eq => true | _ => false end) l.
  Definition Stable (input output : list A) : Prop :=
    forall x, In x input -> equals_of x output = equals_of x input.

  (* sort: a stable ordered permutation.  With reverse=true [cmp] is the reversed comparison,
     so "ordered" reads descending and stability is unchanged. *)
  Definition SortedStablePerm (input output : list A) : Prop :=
    Permutation input output /\ Ordered output /\ Stable input output.

  (* [s] is a subsequence of [l] *)
  Inductive Subseq : list A -> list A -> Prop :=
  | Subseq_nil : forall l, Subseq [] l
  | Subseq_take : forall x s l, Subseq s l -> Subseq (x :: s) (x :: l)
  | Subseq_skip : forall x s l, Subseq s l -> Subseq s (x :: l).

  (* no two elements with Equal keys *)
  Inductive NoDupKey (key : A -> A) : list A -> Prop :=
  | NoDupKey_nil : NoDupKey key []
  | NoDupKey_cons : forall x l, Forall (fun y => cmp (key x) (key y) <> Eq) l -> NoDupKey key l -> NoDupKey key (x :: l).

  (* unique: an order-preserving duplicate-free subsequence that still represents every key *)
  Definition UniqueLaw (key : A -> A) (input output : list A) : Prop :=
    Subseq output input /\ NoDupKey key output /\
    Forall (fun x => Exists (fun y => cmp (key x) (key y) = Eq) output) input.

  (* min / max: a member that bounds all others *)
  Definition IsMin (l : list A) (m : A) : Prop := In m l /\ Forall (fun y => cmp m y <> Gt) l.
  Definition IsMax (l : list A) (m : A) : Prop := In m l /\ Forall (fun y => cmp y m <> Gt) l.

  (* groupby: a partition by key.  The groups, concatenated, are the input stably sorted by
     key; a group is non-empty and all its keys are Equal to its label; the labels are
     strictly ascending (so no two groups share a key). *)
  Inductive StrictAsc : list A -> Prop :=
  | SA_nil : StrictAsc []
  | SA_one : forall a, StrictAsc [a]
  | SA_cons : forall a b l, cmp a b = Lt -> StrictAsc (b :: l) -> StrictAsc (a :: b :: l).

  Definition group_ok (key : A -> A) (g : A * list A) : Prop :=
    snd g <> [] /\ Forall (fun x => cmp (fst g) (key x) = Eq) (snd g).
End FilterLaws.

Definition GroupLaw {A} (cmp : A -> A -> comparison) (key : A -> A) (input : list A) (groups : list (A * list A)) : Prop :=
  SortedStablePerm (fun a b => cmp (key a) (key b)) input (concat (map snd groups)) /\
  Forall (group_ok cmp key) groups /\
  StrictAsc cmp (map fst groups).

(* batch / slice: runs whose concatenation is the input *)
Definition BatchLaw {A} (count : Z) (fill : option A) (l : list A) (runs : list (list A)) : Prop :=
  match fill with
  | None => concat runs = l /\ Forall (fun r => 0 < lenZ r <= count) runs /\
            Forall (fun r => lenZ r = count) (removelast runs)
  | Some f => exists pad, concat runs = l ++ repeat f pad /\ Z.of_nat pad < count /\
              Forall (fun r => lenZ r = count) runs
  end.

Definition with_fill {A} (fill : option A) (b : list (list A)) : list (list A) :=
  match fill with Some f => map (fun c => c ++ [f]) b | None => b end.

(* slice: exactly [count] runs; the first [len mod count] have one item more than the others
   (so run lengths differ by at most 1); the chunks concatenate to the input; with a fill
   value exactly the short runs are extended by it *)
Definition SliceLaw {A} (count : Z) (fill : option A) (l : list A) (runs : list (list A)) : Prop :=
  exists a b, runs = a ++ with_fill fill b /\ concat (a ++ b) = l /\
              lenZ a = lenZ l mod count /\ lenZ (a ++ b) = count /\
              Forall (fun c => lenZ c = lenZ l / count + 1) a /\ Forall (fun c => lenZ c = lenZ l / count) b.

(* "none of them panics": the outcome is a value or an error of the template engine *)
Definition safe {A} (o : outcome A) : Prop :=
  match o with Panic | OutOfGas => False | _ => True end.

(* ------------------------------------------------------------------------------------ *)
(* sum / join vocabulary                                                                *)
(* ------------------------------------------------------------------------------------ *)
Definition int_of (v : value) : Z := match v with VInt _ z => z | _ => 0 end.
Definition zsum (items : list value) : Z := fold_right (fun v acc => int_of v + acc) 0 items.
Definition is_i64_int (v : value) : Prop := match v with VInt _ z => i64_min <= z <= i64_max | _ => False end.

Fixpoint intercalate (d : list Z) (parts : list (list Z)) : list Z :=
  match parts with
  | [] => []
  | [p] => p
  | p :: r => p ++ d ++ intercalate d r
  end.

(* the renderings of the items (strings as they are, integers in decimal); None when some
   item is of another kind *)
Definition rendered (items : list value) : option (list (list Z)) :=
  fold_right (fun x acc => match render x, acc with Some s, Some r => Some (s :: r) | _, _ => None end) (Some []) items.
