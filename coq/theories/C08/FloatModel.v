(* C08 float model: IEEE-754 binary64 through Flocq's executable BinarySingleNaN operations.
   Mirrors core::f64::{rem_euclid, div_euclid}, the `%` of two f64 (fmod, exact by definition),
   f64::round (nearest, ties away from zero), f64::trunc, `as f64` of an integer, and
   minijinja/src/value/ops.rs::{rem (float arm), float_div_euclid, int_div (float arm)}.
   No proofs about the model in this file (two instance obligations only). *)
From Coq Require Import ZArith Bool Lia.
From Flocq Require Import Core BinarySingleNaN.
Open Scope Z_scope.

Definition prec := 53.
Definition emax := 1024.
#[global] Instance Hprec : FLX.Prec_gt_0 prec. Proof. unfold FLX.Prec_gt_0, prec. lia. Qed.
#[global] Instance Hemax : Prec_lt_emax prec emax. Proof. unfold Prec_lt_emax, prec, emax. lia. Qed.
Definition b64 := binary_float prec emax.

(* round-to-nearest-even of the dyadic m * 2^e ([szero]: sign of a zero result) *)
Definition bnorm (m e : Z) (szero : bool) : b64 := binary_normalize prec emax Hprec Hemax mode_NE m e szero.
Definition zero64 : b64 := B754_zero false.
Definition one64 : b64 := bnorm 1 0 false.
(* `x as f64` *)
Definition of_int (z : Z) : b64 := bnorm z 0 false.

(* `x % y` on f64 (C fmod): the exact remainder of the truncating division, sign of x.
   The mantissa arithmetic is exact; [bnorm] does not round here (Proofs: Bfmod_correct). *)
Definition Bfmod (x y : b64) : b64 :=
  match x, y with
  | B754_nan, _ | _, B754_nan => B754_nan
  | B754_infinity _, _ => B754_nan
  | _, B754_zero _ => B754_nan
  | B754_zero _, _ => x
  | B754_finite _ _ _ _, B754_infinity _ => x
  | B754_finite sx mx ex _, B754_finite sy my ey _ =>
      let r := if ey <=? ex then Z.rem (Zpos mx * 2 ^ (ex - ey)) (Zpos my)
               else Z.rem (Zpos mx) (Zpos my * 2 ^ (ey - ex)) in
      bnorm (cond_Zopp sx r) (Z.min ex ey) sx
  end.

(* f64::rem_euclid:  let r = self % rhs; if r < 0.0 { r + rhs.abs() } else { r } *)
Definition Brem_euclid (a b : b64) : b64 :=
  let r := Bfmod a b in
  if Bltb r zero64 then Bplus mode_NE r (Babs b) else r.

(* f64::div_euclid:  let q = (self / rhs).trunc();
                     if self % rhs < 0.0 { return if rhs > 0.0 { q - 1.0 } else { q + 1.0 } } q *)
Definition Bdiv_euclid_std (a b : b64) : b64 :=
  let q := Bnearbyint mode_ZR (Bdiv mode_NE a b) in
  if Bltb (Bfmod a b) zero64 then (if Bltb zero64 b then Bminus mode_NE q one64 else Bplus mode_NE q one64) else q.

(* ops.rs::float_div_euclid:
     let r = a % b; if r.is_nan() { return a.div_euclid(b) }
     let q = ((a - r) / b).round();
     if r < 0.0 { if b > 0.0 { q - 1.0 } else { q + 1.0 } } else { q }                        *)
Definition Bdiv_euclid (a b : b64) : b64 :=
  let r := Bfmod a b in
  if is_nan r then Bdiv_euclid_std a b
  else let q := Bnearbyint mode_NA (Bdiv mode_NE (Bminus mode_NE a r) b) in
       if Bltb r zero64 then (if Bltb zero64 b then Bminus mode_NE q one64 else Bplus mode_NE q one64) else q.

(* bit patterns (glue of the correspondence run; NaN is canonicalised) *)
Definition of_bits (z : Z) : b64 :=
  let s := Z.eqb (z / 2 ^ 63) 1 in
  let e := (z / 2 ^ 52) mod 2 ^ 11 in
  let m := z mod 2 ^ 52 in
  if e =? 2047 then (if m =? 0 then B754_infinity s else B754_nan)
  else if e =? 0 then bnorm (cond_Zopp s m) (-1074) s
  else bnorm (cond_Zopp s (m + 2 ^ 52)) (e - 1075) s.
Definition to_bits (x : b64) : Z :=
  let sb (s : bool) := if s then 2 ^ 63 else 0 in
  match x with
  | B754_zero s => sb s
  | B754_infinity s => sb s + 2047 * 2 ^ 52
  | B754_nan => 9221120237041090560
  | B754_finite s m e _ =>
      if (e =? -1074) && (Zpos m <? 2 ^ 52) then sb s + Zpos m
      else sb s + (e + 1075) * 2 ^ 52 + (Zpos m - 2 ^ 52)
  end.
