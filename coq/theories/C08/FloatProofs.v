(* C08 float proofs: f64 `%` (fmod) is exact, f64::rem_euclid returns the correctly rounded exact
   Euclidean remainder, and ops.rs::float_div_euclid returns the exact Euclidean quotient whenever
   the truncated quotient is below 2^51.  Flocq binary64 (BinarySingleNaN); real-number reasoning,
   hence the classical axioms of Coq's Reals (see tools/axiom_allowlist.txt). *)
From Coq Require Import ZArith Reals Bool Lia Lra Psatz.
From Flocq Require Import Core BinarySingleNaN Relative Plus_error.
From MJ Require Import C08.FloatModel C08.FloatSpec.
Open Scope R_scope.

Notation fexp64 := (FLT_exp (-1074) 53).
Notation format64 := (generic_format radix2 fexp64).
Notation rnd := (round radix2 fexp64 ZnearestE).
Notation B2R64 := (B2R (prec:=prec) (emax:=emax)).

#[global] Instance P53 : Prec_gt_0 53 := Hprec.

Lemma fexp_eq : forall e, SpecFloat.fexp prec emax e = fexp64 e.
Proof. reflexivity. Qed.

(* mantissa and exponent bounds of a finite binary64 *)
Lemma bounded_bounds m e : SpecFloat.bounded prec emax m e = true -> (Zpos m < 2 ^ 53 /\ -1074 <= e <= 971)%Z.
Proof.
  unfold SpecFloat.bounded, SpecFloat.canonical_mantissa. intros H.
  apply andb_prop in H as [H1 H2]. apply Zeq_bool_eq in H1. apply Zle_bool_imp_le in H2.
  unfold SpecFloat.fexp, SpecFloat.emin, prec, emax in *.
  rewrite Digits.Zpos_digits2_pos in H1.
  pose proof (Digits.Zdigits_correct radix2 (Zpos m)) as [_ Hd].
  assert (Hle : (Digits.Zdigits radix2 (Zpos m) <= 53)%Z) by lia.
  split; [|lia].
  apply Z.lt_le_trans with (1 := Hd). change (Z.abs (Zpos m)) with (Zpos m) in *.
  apply (Zpower_le radix2). exact Hle.
Qed.

Lemma format64_F2R m e : (Z.abs m < 2 ^ 53)%Z -> (-1074 <= e)%Z -> format64 (F2R (Float radix2 m e)).
Proof.
  intros Hm He. apply generic_format_FLT. exists (Float radix2 m e); [reflexivity|exact Hm|exact He].
Qed.

(* bnorm does not round a representable dyadic *)
Lemma bnorm_exact m e szero :
  format64 (F2R (Float radix2 m e)) -> Rabs (F2R (Float radix2 m e)) < bpow radix2 1024 ->
  B2R64 (bnorm m e szero) = F2R (Float radix2 m e) /\ is_finite (bnorm m e szero) = true /\
  Bsign (bnorm m e szero) = match Rcompare (F2R (Float radix2 m e)) 0 with Eq => szero | Lt => true | Gt => false end.
Proof.
  intros Hf Hb. unfold bnorm.
  generalize (binary_normalize_correct prec emax Hprec Hemax mode_NE m e szero).
  cbv zeta. change (round_mode mode_NE) with ZnearestE.
  rewrite round_generic; [|auto with typeclass_instances|exact Hf].
  rewrite Rlt_bool_true by exact Hb. tauto.
Qed.

(* Ztrunc of a quotient of integers is the truncating integer quotient *)
Lemma Ztrunc_div_pos a b : (0 <= a)%Z -> (0 < b)%Z -> Ztrunc (IZR a / IZR b) = Z.quot a b.
Proof.
  intros Ha Hb. rewrite Ztrunc_floor.
  - rewrite Zfloor_div by lia. symmetry. apply Z.quot_div_nonneg; lia.
  - apply Rmult_le_pos; [apply IZR_le; exact Ha|]. apply Rlt_le, Rinv_0_lt_compat, IZR_lt. exact Hb.
Qed.

Lemma cond_Zopp_IZR s z : IZR (cond_Zopp s z) = (if s then -1 else 1) * IZR z.
Proof. destruct s; cbn [cond_Zopp]; [rewrite opp_IZR|]; ring. Qed.

(* the exact remainder of two dyadics with a common exponent *)
Lemma fmod_real sx sy MX MY e : (0 < MX)%Z -> (0 < MY)%Z ->
  let X := F2R (Float radix2 (cond_Zopp sx MX) e) in
  let Y := F2R (Float radix2 (cond_Zopp sy MY) e) in
  F2R (Float radix2 (cond_Zopp sx (Z.rem MX MY)) e) = X - IZR (Ztrunc (X / Y)) * Y.
Proof.
  intros HX HY X Y. unfold X, Y, F2R. cbn [Fnum Fexp].
  set (P := bpow radix2 e). assert (HP : 0 < P) by apply bpow_gt_0.
  rewrite !cond_Zopp_IZR.
  assert (HMY : IZR MY <> 0) by (apply not_0_IZR; lia).
  assert (Hq : Ztrunc (IZR MX / IZR MY) = Z.quot MX MY) by (apply Ztrunc_div_pos; lia).
  pose proof (Z.quot_rem' MX MY) as Hqr.
  assert (Hr : IZR (Z.rem MX MY) = IZR MX - IZR MY * IZR (Z.quot MX MY)).
  { rewrite <- mult_IZR, <- minus_IZR. f_equal. lia. }
  rewrite Hr.
  destruct sx, sy.
  - replace (-1 * IZR MX * P / (-1 * IZR MY * P)) with (IZR MX / IZR MY) by (field; split; lra).
    rewrite Hq. ring.
  - replace (-1 * IZR MX * P / (1 * IZR MY * P)) with (- (IZR MX / IZR MY)) by (field; split; lra).
    rewrite Ztrunc_opp, Hq, opp_IZR. ring.
  - replace (1 * IZR MX * P / (-1 * IZR MY * P)) with (- (IZR MX / IZR MY)) by (field; split; lra).
    rewrite Ztrunc_opp, Hq, opp_IZR. ring.
  - replace (1 * IZR MX * P / (1 * IZR MY * P)) with (IZR MX / IZR MY) by (field; split; lra).
    rewrite Hq. ring.
Qed.

Lemma cond_Zopp_mul s m k : (cond_Zopp s m * k = cond_Zopp s (m * k))%Z.
Proof. destruct s; cbn [cond_Zopp]; ring. Qed.

Lemma F2R_lt_emax m e : (Z.abs m < 2 ^ 53)%Z -> (e <= 971)%Z -> Rabs (F2R (Float radix2 m e)) < bpow radix2 1024.
Proof.
  intros Hm He. apply (F2R_lt_bpow radix2 (Float radix2 m e) 1024). cbn [Fnum Fexp].
  apply Z.lt_le_trans with (1 := Hm). change (2 ^ 53)%Z with (Zpower radix2 53).
  apply Zpower_le. lia.
Qed.

(* the truncated-division remainder as a real function *)
Definition Rfmod (x y : R) : R := x - IZR (Ztrunc (x / y)) * y.

Lemma Rfmod_0_l y : Rfmod 0 y = 0.
Proof. unfold Rfmod. unfold Rdiv. rewrite Rmult_0_l. rewrite Ztrunc_IZR. simpl. ring. Qed.

Lemma Bfmod_finite sx mx ex Hx sy my ey Hy :
  let x := B754_finite sx mx ex Hx : b64 in let y := B754_finite sy my ey Hy : b64 in
  B2R64 (Bfmod x y) = Rfmod (B2R64 x) (B2R64 y) /\ is_finite (Bfmod x y) = true /\
  Bsign (Bfmod x y) = match Rcompare (Rfmod (B2R64 x) (B2R64 y)) 0 with Eq => sx | Lt => true | Gt => false end.
Proof.
  intros x y. destruct (bounded_bounds mx ex Hx) as [Hmx Hex]. destruct (bounded_bounds my ey Hy) as [Hmy Hey].
  unfold x, y, Bfmod. cbn [B2R]. unfold Rfmod.
  destruct (ey <=? ex)%Z eqn:E.
  - apply Z.leb_le in E. rewrite Z.min_r by lia.
    rewrite (F2R_change_exp radix2 ey (cond_Zopp sx (Zpos mx)) ex E).
    rewrite cond_Zopp_mul. change (Zpower radix2 (ex - ey)) with (2 ^ (ex - ey))%Z.
    set (MX := (Zpos mx * 2 ^ (ex - ey))%Z).
    assert (HMX : (0 < MX)%Z) by (unfold MX; apply Z.mul_pos_pos; [lia|apply Z.pow_pos_nonneg; lia]).
    pose proof (fmod_real sx sy MX (Zpos my) ey HMX ltac:(lia)) as Hr. cbv zeta in Hr.
    rewrite <- Hr.
    assert (Hrem : (0 <= Z.rem MX (Zpos my) < Zpos my)%Z) by (apply Z.rem_bound_pos; lia).
    apply bnorm_exact.
    + apply format64_F2R; [|lia]. rewrite abs_cond_Zopp. lia.
    + apply F2R_lt_emax; [|lia]. rewrite abs_cond_Zopp. lia.
  - apply Z.leb_gt in E. rewrite Z.min_l by lia.
    rewrite (F2R_change_exp radix2 ex (cond_Zopp sy (Zpos my)) ey ltac:(lia)).
    rewrite cond_Zopp_mul. change (Zpower radix2 (ey - ex)) with (2 ^ (ey - ex))%Z.
    set (MY := (Zpos my * 2 ^ (ey - ex))%Z).
    assert (HMY : (0 < MY)%Z) by (unfold MY; apply Z.mul_pos_pos; [lia|apply Z.pow_pos_nonneg; lia]).
    pose proof (fmod_real sx sy (Zpos mx) MY ex ltac:(lia) HMY) as Hr. cbv zeta in Hr.
    rewrite <- Hr.
    assert (Hrem : (0 <= Z.rem (Zpos mx) MY <= Zpos mx)%Z).
    { split; [apply Z.rem_nonneg; lia|]. apply Z.rem_le; lia. }
    apply bnorm_exact.
    + apply format64_F2R; [|lia]. rewrite abs_cond_Zopp. lia.
    + apply F2R_lt_emax; [|lia]. rewrite abs_cond_Zopp. lia.
Qed.

Lemma Bfmod_correct (x y : b64) : is_finite x = true -> is_finite_strict y = true ->
  B2R64 (Bfmod x y) = Rfmod (B2R64 x) (B2R64 y) /\ is_finite (Bfmod x y) = true.
Proof.
  destruct x as [sx|sx| |sx mx ex Hx]; destruct y as [sy|sy| |sy my ey Hy]; cbn [is_finite is_finite_strict]; try discriminate; intros _ _.
  - cbn [Bfmod B2R]. rewrite Rfmod_0_l. split; reflexivity.
  - destruct (Bfmod_finite sx mx ex Hx sy my ey Hy) as (H1 & H2 & _). split; assumption.
Qed.

(* ---- real-number facts about the truncated remainder ---- *)
Lemma Rfmod_bounds x y : y <> 0 ->
  Rabs (Rfmod x y) < Rabs y /\ (0 <= x -> 0 <= Rfmod x y) /\ (x <= 0 -> Rfmod x y <= 0).
Proof.
  intros Hy. unfold Rfmod. set (t := x / y).
  assert (Hx : x = t * y) by (unfold t; field; exact Hy).
  destruct (Rle_or_lt 0 t) as [Ht|Ht].
  - rewrite (Ztrunc_floor t Ht). pose proof (Zfloor_lb t) as H1. pose proof (Zfloor_ub t) as H2.
    set (n := IZR (Zfloor t)) in *. rewrite Hx. replace (t * y - n * y) with ((t - n) * y) by ring.
    destruct (Rtotal_order y 0) as [Hn|[Hn|Hn]]; [|lra|].
    + rewrite (Rabs_left y Hn). repeat split.
      * apply Rabs_def1; nra.
      * intros H0. assert (t = 0) by nra. assert (n <= 0) by lra.
        assert (0 <= n) by (unfold n; apply IZR_le, Zfloor_lub; simpl; lra). nra.
      * intros _. nra.
    + rewrite (Rabs_right y) by lra. repeat split.
      * apply Rabs_def1; nra.
      * intros _. nra.
      * intros H0. assert (t = 0) by nra. assert (0 <= n) by (unfold n; apply IZR_le, Zfloor_lub; simpl; lra). nra.
  - rewrite (Ztrunc_ceil t (Rlt_le _ _ Ht)). pose proof (Zceil_ub t) as H1. pose proof (Zceil_lb t) as H2.
    set (n := IZR (Zceil t)) in *. rewrite Hx. replace (t * y - n * y) with ((t - n) * y) by ring.
    destruct (Rtotal_order y 0) as [Hn|[Hn|Hn]]; [|lra|].
    + rewrite (Rabs_left y Hn). repeat split.
      * apply Rabs_def1; nra.
      * intros _. nra.
      * intros H0. nra.
    + rewrite (Rabs_right y) by lra. repeat split.
      * apply Rabs_def1; nra.
      * intros H0. nra.
      * intros _. nra.
Qed.

(* ---- the Euclidean convention on the reals (FloatSpec): existence and uniqueness ---- *)

Lemma euclid_R x y : y <> 0 -> x = IZR (Zdiv_e x y) * y + Rmod_e x y /\ 0 <= Rmod_e x y < Rabs y.
Proof.
  intros Hy. unfold Rmod_e, Zdiv_e.
  assert (Ha : 0 < Rabs y) by (apply Rabs_pos_lt; exact Hy).
  set (t := x / Rabs y). assert (Hx : x = t * Rabs y) by (unfold t; field; lra). clearbody t.
  pose proof (Zfloor_lb t) as H1. pose proof (Zfloor_ub t) as H2. set (n := Zfloor t) in *. clearbody n.
  split.
  - rewrite mult_IZR. destruct (Rlt_bool_spec 0 y) as [Hp|Hn].
    + rewrite (Rabs_right y) by lra. simpl. ring.
    + rewrite (Rabs_left y) by lra. simpl. ring.
  - rewrite Hx. nra.
Qed.

Lemma euclid_R_unique y q1 r1 q2 r2 : y <> 0 ->
  IZR q1 * y + r1 = IZR q2 * y + r2 -> 0 <= r1 < Rabs y -> 0 <= r2 < Rabs y -> q1 = q2 /\ r1 = r2.
Proof.
  intros Hy He H1 H2.
  assert (Hq : q1 = q2).
  { assert (Hd : IZR (q1 - q2) * y = r2 - r1) by (rewrite minus_IZR; lra).
    destruct (Z.eq_dec q1 q2) as [|Hne]; [assumption|exfalso].
    assert (Hone : 1 <= Rabs (IZR (q1 - q2))).
    { rewrite <- abs_IZR. apply (IZR_le 1). lia. }
    assert (Habs : Rabs (r2 - r1) < Rabs y) by (apply Rabs_def1; lra).
    rewrite <- Hd, Rabs_mult in Habs. assert (0 < Rabs y) by (apply Rabs_pos_lt; exact Hy). nra. }
  subst q2. split; [reflexivity|lra].
Qed.

Definition Rsgn_Z (y : R) : Z := if Rlt_bool 0 y then 1%Z else (-1)%Z.

(* the truncated decomposition against the Euclidean one *)
Lemma euclid_of_trunc x y : y <> 0 ->
  let n := Ztrunc (x / y) in let r0 := Rfmod x y in
  if Rlt_bool r0 0 then Rmod_e x y = r0 + Rabs y /\ Zdiv_e x y = (n - Rsgn_Z y)%Z
  else Rmod_e x y = r0 /\ Zdiv_e x y = n.
Proof.
  intros Hy n r0. destruct (euclid_R x y Hy) as [He Hb].
  destruct (Rfmod_bounds x y Hy) as (Hlt & _ & _). fold r0 in Hlt.
  assert (Hx : x = IZR n * y + r0) by (unfold r0, Rfmod, n; ring).
  assert (Ha : 0 < Rabs y) by (apply Rabs_pos_lt; exact Hy).
  destruct (Rlt_bool_spec r0 0) as [Hneg|Hpos].
  - assert (Hs : IZR (Rsgn_Z y) * y = Rabs y).
    { unfold Rsgn_Z. destruct (Rlt_bool_spec 0 y); [rewrite Rabs_right by lra|rewrite Rabs_left by lra]; simpl; ring. }
    assert (Hx' : x = IZR (n - Rsgn_Z y) * y + (r0 + Rabs y)) by (rewrite minus_IZR; lra).
    assert (Hb' : 0 <= r0 + Rabs y < Rabs y).
    { split; [|lra]. apply Rabs_def2 in Hlt. lra. }
    destruct (euclid_R_unique y _ _ _ _ Hy (eq_trans (eq_sym He) Hx') Hb Hb') as [H1 H2]. split; assumption.
  - assert (Hb' : 0 <= r0 < Rabs y) by (split; [exact Hpos|apply Rabs_def2 in Hlt; lra]).
    destruct (euclid_R_unique y _ _ _ _ Hy (eq_trans (eq_sym He) Hx) Hb Hb') as [H1 H2]. split; assumption.
Qed.

Lemma is_finite_strict_finite (y : b64) : is_finite_strict y = true -> is_finite y = true /\ B2R64 y <> 0.
Proof.
  destruct y as [s|s| |s m e H]; cbn; try discriminate. intros _. split; [reflexivity|].
  apply F2R_neq_0. destruct s; discriminate.
Qed.

Lemma B2R_zero64 : B2R64 zero64 = 0. Proof. reflexivity. Qed.

(* f64::rem_euclid: the exact Euclidean remainder, rounded once (and not at all when it is
   the truncated remainder itself, in particular for a non-negative dividend) *)
Lemma Brem_euclid_correct (a b : b64) : is_finite a = true -> is_finite_strict b = true ->
  let A := B2R64 a in let B := B2R64 b in
  B2R64 (Brem_euclid a b) = rnd (Rmod_e A B) /\
  is_finite (Brem_euclid a b) = true /\
  (0 <= Rfmod A B -> B2R64 (Brem_euclid a b) = Rmod_e A B) /\
  0 <= B2R64 (Brem_euclid a b) <= Rabs B.
Proof.
  intros Fa Fb A B. destruct (is_finite_strict_finite b Fb) as [Fb' HB].
  destruct (Bfmod_correct a b Fa Fb) as [Hr Fr]. fold A B in Hr.
  pose proof (euclid_of_trunc A B HB) as He. cbv zeta in He.
  destruct (Rfmod_bounds A B HB) as (Hlt & _ & _).
  destruct (euclid_R A B HB) as [_ Hb].
  assert (FabsB : format64 (Rabs B)) by (apply generic_format_abs; apply (generic_format_B2R prec emax b)).
  assert (Hrange : 0 <= rnd (Rmod_e A B) <= Rabs B).
  { split; [apply round_ge_generic; auto with typeclass_instances; [apply generic_format_0|lra]
           |apply round_le_generic; auto with typeclass_instances; lra]. }
  unfold Brem_euclid. rewrite (Bltb_correct prec emax _ zero64 Fr eq_refl). rewrite Hr, B2R_zero64.
  destruct (Rlt_bool_spec (Rfmod A B) 0) as [Hneg|Hpos]; destruct He as [He1 He2].
  - pose proof (Bplus_correct prec emax Hprec Hemax mode_NE (Bfmod a b) (Babs b) Fr) as Hp.
    rewrite is_finite_Babs in Hp. specialize (Hp Fb'). rewrite B2R_Babs, Hr in Hp. fold B in Hp.
    change (round_mode mode_NE) with ZnearestE in Hp. change (SpecFloat.fexp prec emax) with fexp64 in Hp. rewrite <- He1 in Hp.
    rewrite Rlt_bool_true in Hp.
    + destruct Hp as (Hp1 & Hp2 & _). rewrite Hp1. repeat split; try assumption; try lra.
    + apply Rle_lt_trans with (Rabs B); [|apply (abs_B2R_lt_emax prec emax b)].
      rewrite Rabs_right by lra. lra.
  - assert (Hfmt : rnd (Rmod_e A B) = Rmod_e A B).
    { apply round_generic; auto with typeclass_instances. rewrite He1, <- Hr. apply (generic_format_B2R prec emax). }
    rewrite Hr. rewrite Hfmt in *. repeat split; try assumption; try lra.
Qed.

Lemma Ztrunc_mul_le x y : y <> 0 -> Rabs (IZR (Ztrunc (x / y)) * y) <= Rabs x.
Proof.
  intros Hy. set (t := x / y). assert (Hx : x = t * y) by (unfold t; field; exact Hy). clearbody t.
  rewrite Hx, !Rabs_mult. apply Rmult_le_compat_r; [apply Rabs_pos|].
  destruct (Rle_or_lt 0 t) as [Ht|Ht].
  - rewrite (Ztrunc_floor t Ht). pose proof (Zfloor_lb t).
    assert (0 <= IZR (Zfloor t)) by (apply IZR_le, Zfloor_lub; simpl; lra).
    rewrite !Rabs_right by lra. lra.
  - rewrite (Ztrunc_ceil t (Rlt_le _ _ Ht)). pose proof (Zceil_ub t).
    assert (IZR (Zceil t) <= 0) by (apply IZR_le, Zceil_glb; simpl; lra).
    rewrite !Rabs_left1 by lra. lra.
Qed.

Lemma F2R_0exp k : F2R (Float radix2 k 0) = IZR k.
Proof. unfold F2R. cbn [Fnum Fexp bpow]. ring. Qed.

Lemma format64_IZR k : (Z.abs k < 2 ^ 53)%Z -> format64 (IZR k).
Proof. intros H. rewrite <- F2R_0exp. apply format64_F2R; lia. Qed.

Lemma IZR_lt_emax k : (Z.abs k < 2 ^ 53)%Z -> Rabs (IZR k) < bpow radix2 1024.
Proof. intros H. rewrite <- F2R_0exp. apply F2R_lt_emax; lia. Qed.

Lemma one64_correct : B2R64 one64 = 1 /\ is_finite one64 = true.
Proof.
  unfold one64. destruct (bnorm_exact 1 0 false) as (H1 & H2 & _).
  - rewrite F2R_0exp. apply format64_IZR. lia.
  - rewrite F2R_0exp. apply IZR_lt_emax. lia.
  - rewrite F2R_0exp in H1. split; assumption.
Qed.

(* one rounding to nearest of the difference of two doubles: relative error 2^-53, or none *)
Lemma rnd_minus_error x y : format64 x -> format64 y ->
  exists eps, Rabs eps <= / 2 * bpow radix2 (-52) /\ rnd (x - y) = (x - y) * (1 + eps).
Proof.
  intros Fx Fy. destruct (Rle_or_lt (bpow radix2 (-1074 + 53 - 1)) (Rabs (x - y))) as [H|H].
  - destruct (@relative_error_N_FLT_ex radix2 (-1074) 53 P53 (fun x => negb (Z.even x)) (x - y) H) as [eps [He1 He2]].
    exists eps. split; [exact He1|exact He2].
  - exists 0. split; [rewrite Rabs_R0; apply Rmult_le_pos; [lra|apply bpow_ge_0]|].
    rewrite Rplus_0_r, Rmult_1_r. apply round_generic; auto with typeclass_instances.
    unfold Rminus. apply FLT_format_plus_small; auto with typeclass_instances.
    + apply generic_format_opp. exact Fy.
    + apply Rlt_le. apply Rlt_le_trans with (1 := H). apply bpow_le. lia.
Qed.

Lemma is_finite_not_nan (x : b64) : is_finite x = true -> is_nan x = false.
Proof. destruct x; cbn; congruence. Qed.

(* n -/+ 1/4 are doubles when |n| < 2^51 *)
Lemma format64_quarter k : (Z.abs k < 2 ^ 53)%Z -> format64 (IZR k * / 4).
Proof.
  intros H. replace (IZR k * / 4) with (F2R (Float radix2 k (-2))).
  - apply format64_F2R; lia.
  - unfold F2R. cbn [Fnum Fexp bpow]. simpl. lra.
Qed.

(* ops.rs::float_div_euclid: the exact Euclidean quotient whenever the truncated quotient is
   below 2^51 in magnitude.  Three operations can round - the difference a - r, the division
   by b, and round() - and under this bound their combined error stays below 1/2, which
   round() removes; the final -/+ 1.0 is exact. *)
Lemma Bdiv_euclid_correct (a b : b64) : is_finite a = true -> is_finite_strict b = true ->
  let A := B2R64 a in let B := B2R64 b in
  (Z.abs (Ztrunc (A / B)) < 2 ^ 51)%Z ->
  B2R64 (Bdiv_euclid a b) = IZR (Zdiv_e A B) /\ is_finite (Bdiv_euclid a b) = true.
Proof.
  intros Fa Fb A B Hn. destruct (is_finite_strict_finite b Fb) as [Fb' HB].
  destruct (Bfmod_correct a b Fa Fb) as [Hr Fr]. fold A B in Hr.
  pose proof (euclid_of_trunc A B HB) as He. cbv zeta in He.
  set (n := Ztrunc (A / B)) in *.
  assert (HnB : A - Rfmod A B = IZR n * B) by (unfold Rfmod, n; ring).
  unfold Bdiv_euclid. rewrite (is_finite_not_nan _ Fr).
  (* d = a - r *)
  pose proof (Bminus_correct prec emax Hprec Hemax mode_NE a (Bfmod a b) Fa Fr) as Hd.
  change (round_mode mode_NE) with ZnearestE in Hd. change (SpecFloat.fexp prec emax) with fexp64 in Hd.
  rewrite Hr in Hd. fold A in Hd. rewrite HnB in Hd.
  assert (HabsD : Rabs (rnd (IZR n * B)) <= Rabs A).
  { apply abs_round_le_generic; auto with typeclass_instances.
    - apply generic_format_abs. apply (generic_format_B2R prec emax a).
    - unfold n. apply Ztrunc_mul_le. exact HB. }
  rewrite Rlt_bool_true in Hd by (apply Rle_lt_trans with (1 := HabsD); apply (abs_B2R_lt_emax prec emax a)).
  destruct Hd as (Hd & Fd & _).
  set (d := Bminus mode_NE a (Bfmod a b)) in *.
  destruct (rnd_minus_error A (Rfmod A B)) as (eps & Heps & Herr).
  { apply (generic_format_B2R prec emax a). } { rewrite <- Hr. apply (generic_format_B2R prec emax). }
  rewrite HnB in Herr.
  (* t = d / b lies within 1/4 of n *)
  assert (Hx : B2R64 d / B = IZR n * (1 + eps)) by (rewrite Hd, Herr; field; exact HB).
  assert (Hn' : Rabs (IZR n) < 2 ^ 51).
  { rewrite <- abs_IZR. replace (2 ^ 51) with (IZR (2 ^ 51)) by (simpl; lra). apply IZR_lt. exact Hn. }
  assert (Heps' : Rabs eps <= / 2 ^ 53).
  { eapply Rle_trans; [exact Heps|]. replace (bpow radix2 (-52)) with (/ 2 ^ 52) by (simpl; lra). lra. }
  assert (Hq : IZR n - / 4 <= B2R64 d / B <= IZR n + / 4).
  { rewrite Hx. assert (Rabs (IZR n * eps) <= / 4).
    { rewrite Rabs_mult. apply Rle_trans with (2 ^ 51 * / 2 ^ 53); [|lra].
      apply Rmult_le_compat; try apply Rabs_pos; lra. }
    apply Rabs_le_inv in H. lra. }
  assert (Fl : format64 (IZR n - / 4)).
  { replace (IZR n - / 4) with (IZR (4 * n - 1) * / 4) by (rewrite minus_IZR, mult_IZR; simpl; lra).
    apply format64_quarter. lia. }
  assert (Fu : format64 (IZR n + / 4)).
  { replace (IZR n + / 4) with (IZR (4 * n + 1) * / 4) by (rewrite plus_IZR, mult_IZR; simpl; lra).
    apply format64_quarter. lia. }
  assert (Ht : IZR n - / 4 <= rnd (B2R64 d / B) <= IZR n + / 4).
  { split; [apply round_ge_generic|apply round_le_generic]; auto with typeclass_instances; lra. }
  pose proof (Bdiv_correct prec emax Hprec Hemax mode_NE d b HB) as Hdiv.
  change (round_mode mode_NE) with ZnearestE in Hdiv. change (SpecFloat.fexp prec emax) with fexp64 in Hdiv.
  fold B in Hdiv.
  rewrite Rlt_bool_true in Hdiv.
  2:{ apply Rle_lt_trans with (bpow radix2 52); [|apply bpow_lt; unfold emax; lia].
      rewrite <- IZR_Zpower by lia. change (Zpower radix2 52) with 4503599627370496%Z.
      apply Rabs_le. apply Rabs_def2 in Hn'. lra. }
  destruct Hdiv as (Ht1 & Ft & _). rewrite Fd in Ft.
  set (t := Bdiv mode_NE d b) in *.
  (* q0 = round(t) = n *)
  destruct (Bnearbyint_correct prec emax Hemax mode_NA t) as (Hq0 & Fq0 & _).
  rewrite round_FIX_IZR in Hq0. change (round_mode mode_NA) with ZnearestA in Hq0.
  assert (Hnear : ZnearestA (B2R64 t) = n).
  { apply Znearest_imp. rewrite Ht1. apply Rabs_def1; lra. }
  rewrite Hnear in Hq0. rewrite Ft in Fq0.
  set (q0 := Bnearbyint mode_NA t) in *.
  destruct one64_correct as [H1 F1].
  rewrite (Bltb_correct prec emax _ zero64 Fr eq_refl). rewrite Hr, B2R_zero64.
  destruct (Rlt_bool_spec (Rfmod A B) 0) as [Hneg|Hpos]; destruct He as [_ He2]; rewrite He2.
  - rewrite (Bltb_correct prec emax zero64 b eq_refl Fb'). rewrite B2R_zero64. fold B. unfold Rsgn_Z.
    destruct (Rlt_bool_spec 0 B) as [Hp|Hm].
    + pose proof (Bminus_correct prec emax Hprec Hemax mode_NE q0 one64 Fq0 F1) as Hm1.
      change (round_mode mode_NE) with ZnearestE in Hm1. change (SpecFloat.fexp prec emax) with fexp64 in Hm1.
      rewrite Hq0, H1 in Hm1. replace (IZR n - 1) with (IZR (n - 1)) in Hm1 by (rewrite minus_IZR; reflexivity).
      rewrite round_generic in Hm1; auto with typeclass_instances; [|apply format64_IZR; lia].
      rewrite Rlt_bool_true in Hm1 by (apply IZR_lt_emax; lia). destruct Hm1 as (Hv & Hf & _). split; assumption.
    + pose proof (Bplus_correct prec emax Hprec Hemax mode_NE q0 one64 Fq0 F1) as Hp1.
      change (round_mode mode_NE) with ZnearestE in Hp1. change (SpecFloat.fexp prec emax) with fexp64 in Hp1.
      rewrite Hq0, H1 in Hp1. replace (IZR n + 1) with (IZR (n - -1)) in Hp1 by (rewrite minus_IZR; simpl; lra).
      rewrite round_generic in Hp1; auto with typeclass_instances; [|apply format64_IZR; lia].
      rewrite Rlt_bool_true in Hp1 by (apply IZR_lt_emax; lia). destruct Hp1 as (Hv & Hf & _). split; assumption.
  - split; assumption.
Qed.


(* ---- large quotients: error analysis of the three roundings ---- *)

(* three relative errors of at most U and an absolute error of at most 1/2 on a quantity of
   magnitude at least 1/(4U): the total stays below 8U relative to the exact value *)
Lemma err_bound U N d1 d2 d3 rho s :
  0 < U <= / 1000 -> / 4 <= Rabs N * U ->
  Rabs d1 <= U -> Rabs d2 <= U -> Rabs d3 <= U -> Rabs rho <= / 2 -> Rabs s <= 1 ->
  Rabs ((N * (1 + d1) * (1 + d2) + rho - s) * (1 + d3) - (N - s)) <= 8 * U * Rabs (N - s).
Proof.
  intros HU HN H1 H2 H3 Hr Hs.
  set (p12 := d1 + d2 + d1 * d2).
  assert (Hp12 : Rabs p12 <= 2 * U + U * U).
  { unfold p12. eapply Rle_trans; [apply Rabs_triang|]. eapply Rle_trans; [apply Rplus_le_compat_r, Rabs_triang|].
    rewrite Rabs_mult. assert (0 <= Rabs d1) by apply Rabs_pos. assert (0 <= Rabs d2) by apply Rabs_pos. nra. }
  set (P := p12 + d3 + p12 * d3).
  assert (HP : Rabs P <= 3 * U + 3 * U * U + U * U * U).
  { unfold P. eapply Rle_trans; [apply Rabs_triang|]. eapply Rle_trans; [apply Rplus_le_compat_r, Rabs_triang|].
    rewrite Rabs_mult. assert (0 <= Rabs p12) by apply Rabs_pos. assert (0 <= Rabs d3) by apply Rabs_pos. nra. }
  replace ((N * (1 + d1) * (1 + d2) + rho - s) * (1 + d3) - (N - s))
    with (N * P + rho * (1 + d3) - s * d3) by (unfold P, p12; ring).
  assert (HE : Rabs (N * P + rho * (1 + d3) - s * d3) <= Rabs N * (3 * U + 3 * U * U + U * U * U) + / 2 * (1 + U) + U).
  { unfold Rminus. eapply Rle_trans; [apply Rabs_triang|]. eapply Rle_trans; [apply Rplus_le_compat_r, Rabs_triang|].
    rewrite Rabs_Ropp, !Rabs_mult.
    assert (0 <= Rabs N) by apply Rabs_pos. assert (0 <= Rabs P) by apply Rabs_pos.
    assert (0 <= Rabs rho) by apply Rabs_pos. assert (0 <= Rabs s) by apply Rabs_pos. assert (0 <= Rabs d3) by apply Rabs_pos.
    assert (Rabs (1 + d3) <= 1 + U) by (eapply Rle_trans; [apply Rabs_triang|]; rewrite Rabs_R1; lra).
    assert (0 <= Rabs (1 + d3)) by apply Rabs_pos.
    nra. }
  eapply Rle_trans; [exact HE|].
  assert (HQ : Rabs N - 1 <= Rabs (N - s)).
  { eapply Rle_trans; [|apply Rabs_triang_inv]. lra. }
  assert (0 <= Rabs N) by apply Rabs_pos.
  apply Rle_trans with (8 * U * (Rabs N - 1)); [|apply Rmult_le_compat_l; lra].
  set (W := Rabs N * U) in *.
  replace (Rabs N * (3 * U + 3 * U * U + U * U * U)) with (W * (3 + 3 * U + U * U)) by (unfold W; ring).
  replace (8 * U * (Rabs N - 1)) with (8 * W - 8 * U) by (unfold W; ring).
  assert (W * (3 * U + U * U) <= W * / 100) by (apply Rmult_le_compat_l; nra).
  nra.
Qed.

Lemma SF_overflow_infinite (x : b64) s : B2SF x = binary_overflow prec emax mode_NE s -> is_finite x = false.
Proof. unfold binary_overflow. cbn [overflow_to_inf]. destruct x; cbn; congruence. Qed.

Lemma one64_shape : exists s m e H, one64 = B754_finite s m e H.
Proof.
  destruct one64_correct as [H1 F1]. destruct one64 as [s|s| |s m e H]; try discriminate F1.
  - cbn in H1. lra.
  - exists s, m, e, H. reflexivity.
Qed.

Lemma Bminus_inf_one s : is_finite (Bminus mode_NE (B754_infinity s : b64) one64) = false.
Proof. destruct one64_shape as (s1 & m & e & H & ->). reflexivity. Qed.
Lemma Bplus_inf_one s : is_finite (Bplus mode_NE (B754_infinity s : b64) one64) = false.
Proof. destruct one64_shape as (s1 & m & e & H & ->). reflexivity. Qed.

Lemma rnd_rel_error x : bpow radix2 (-1022) <= Rabs x ->
  exists eps, Rabs eps <= / 2 * bpow radix2 (-52) /\ rnd x = x * (1 + eps).
Proof.
  intros H. destruct (@relative_error_N_FLT_ex radix2 (-1074) 53 P53 (fun x => negb (Z.even x)) x H) as [eps [He1 He2]].
  exists eps. split; [exact He1|exact He2].
Qed.

Lemma Rabs_plus_lower a b : Rabs a - Rabs b <= Rabs (a + b).
Proof. replace (a + b) with (a - (- b)) by ring. rewrite <- (Rabs_Ropp b). apply Rabs_triang_inv. Qed.

Lemma U53 : / 2 * bpow radix2 (-52) = / 2 ^ 53.
Proof. simpl. lra. Qed.

(* ops.rs::float_div_euclid for large quotients: within 2^-50 relative of the exact Euclidean quotient
   whenever the result is finite *)
Lemma Bdiv_euclid_large (a b : b64) : is_finite a = true -> is_finite_strict b = true ->
  let A := B2R64 a in let B := B2R64 b in
  (2 ^ 51 <= Z.abs (Ztrunc (A / B)))%Z -> is_finite (Bdiv_euclid a b) = true ->
  Rabs (B2R64 (Bdiv_euclid a b) - IZR (Zdiv_e A B)) <= / 2 ^ 50 * Rabs (IZR (Zdiv_e A B)).
Proof.
  intros Fa Fb A B Hn Hfin. destruct (is_finite_strict_finite b Fb) as [Fb' HB].
  destruct (Bfmod_correct a b Fa Fb) as [Hr Fr]. fold A B in Hr.
  pose proof (euclid_of_trunc A B HB) as He. cbv zeta in He.
  set (n := Ztrunc (A / B)) in *.
  assert (HnB : A - Rfmod A B = IZR n * B) by (unfold Rfmod, n; ring).
  unfold Bdiv_euclid in *. rewrite (is_finite_not_nan _ Fr) in *.
  pose proof (Bminus_correct prec emax Hprec Hemax mode_NE a (Bfmod a b) Fa Fr) as Hd.
  change (round_mode mode_NE) with ZnearestE in Hd. change (SpecFloat.fexp prec emax) with fexp64 in Hd.
  rewrite Hr in Hd. fold A in Hd. rewrite HnB in Hd.
  assert (HabsD : Rabs (rnd (IZR n * B)) <= Rabs A).
  { apply abs_round_le_generic; auto with typeclass_instances.
    - apply generic_format_abs. apply (generic_format_B2R prec emax a).
    - unfold n. apply Ztrunc_mul_le. exact HB. }
  rewrite Rlt_bool_true in Hd by (apply Rle_lt_trans with (1 := HabsD); apply (abs_B2R_lt_emax prec emax a)).
  destruct Hd as (Hd & Fd & _).
  set (d := Bminus mode_NE a (Bfmod a b)) in *.
  destruct (rnd_minus_error A (Rfmod A B)) as (e1 & He1 & Herr).
  { apply (generic_format_B2R prec emax a). } { rewrite <- Hr. apply (generic_format_B2R prec emax). }
  rewrite HnB in Herr. rewrite U53 in He1.
  set (N := IZR n) in *.
  assert (HN : 2 ^ 51 <= Rabs N).
  { unfold N. rewrite <- abs_IZR. replace (2 ^ 51) with (IZR (2 ^ 51)) by (simpl; lra). apply IZR_le. exact Hn. }
  assert (Hx : B2R64 d / B = N * (1 + e1)) by (rewrite Hd, Herr; field; exact HB).
  assert (Hx1 : 2 ^ 50 <= Rabs (N * (1 + e1))).
  { rewrite Rabs_mult. assert (/ 2 <= Rabs (1 + e1)).
    { apply Rabs_le_inv in He1. rewrite Rabs_right; lra. }
    assert (0 <= Rabs N) by apply Rabs_pos. nra. }
  (* the division *)
  pose proof (Bdiv_correct prec emax Hprec Hemax mode_NE d b HB) as Hdiv.
  change (round_mode mode_NE) with ZnearestE in Hdiv. change (SpecFloat.fexp prec emax) with fexp64 in Hdiv.
  fold B in Hdiv. set (t := Bdiv mode_NE d b) in *.
  destruct (Rlt_bool (Rabs (rnd (B2R64 d / B))) (bpow radix2 emax)).
  2:{ exfalso. apply SF_overflow_infinite in Hdiv. destruct t as [st|st| |st mt et Ht]; try discriminate Hdiv.
      - cbn [Bnearbyint] in Hfin. destruct (Bltb (Bfmod a b) zero64); [destruct (Bltb zero64 b)|];
          [rewrite Bminus_inf_one in Hfin|rewrite Bplus_inf_one in Hfin|]; discriminate Hfin.
      - cbn [Bnearbyint] in Hfin. destruct (Bltb (Bfmod a b) zero64); [destruct (Bltb zero64 b)|]; cbn in Hfin; discriminate Hfin. }
  destruct Hdiv as (Ht1 & Ft & _). rewrite Fd in Ft. rewrite Hx in Ht1.
  destruct (rnd_rel_error (N * (1 + e1))) as (e2 & He2 & Herr2).
  { apply Rle_trans with (2 := Hx1). apply Rle_trans with (bpow radix2 0); [apply bpow_le; lia|simpl; lra]. }
  rewrite U53 in He2. rewrite Herr2 in Ht1.
  (* round() *)
  destruct (Bnearbyint_correct prec emax Hemax mode_NA t) as (Hq0 & Fq0 & _).
  rewrite round_FIX_IZR in Hq0. change (round_mode mode_NA) with ZnearestA in Hq0. rewrite Ft in Fq0.
  set (q0 := Bnearbyint mode_NA t) in *.
  set (rho := IZR (ZnearestA (B2R64 t)) - B2R64 t).
  assert (Hrho : Rabs rho <= / 2).
  { unfold rho. rewrite <- Rabs_Ropp. replace (- (IZR (ZnearestA (B2R64 t)) - B2R64 t)) with (B2R64 t - IZR (ZnearestA (B2R64 t))) by ring.
    apply Znearest_half. }
  assert (Hq0' : B2R64 q0 = N * (1 + e1) * (1 + e2) + rho) by (rewrite Hq0; unfold rho; rewrite Ht1; ring).
  assert (HU : 0 < / 2 ^ 53 <= / 1000) by (split; [apply Rinv_0_lt_compat; lra|apply Rinv_le_contravar; lra]).
  assert (HNU : / 4 <= Rabs N * / 2 ^ 53).
  { apply Rle_trans with (2 ^ 51 * / 2 ^ 53); [lra|]. apply Rmult_le_compat_r; lra. }
  assert (H8 : 8 * / 2 ^ 53 = / 2 ^ 50) by lra.
  destruct one64_correct as [H1 F1].
  rewrite (Bltb_correct prec emax _ zero64 Fr eq_refl) in *. rewrite Hr, B2R_zero64 in *.
  destruct (Rlt_bool_spec (Rfmod A B) 0) as [Hneg|Hpos]; destruct He as [_ He2']; rewrite He2'.
  - rewrite (Bltb_correct prec emax zero64 b eq_refl Fb') in *. rewrite B2R_zero64 in *. fold B in Hfin |- *. unfold Rsgn_Z.
    assert (Hq0big : bpow radix2 (-1022) <= Rabs (B2R64 q0 - 1) /\ bpow radix2 (-1022) <= Rabs (B2R64 q0 + 1)).
    { assert (2 ^ 49 <= Rabs (B2R64 q0)).
      { rewrite Hq0'. eapply Rle_trans; [|apply Rabs_plus_lower]. rewrite Rabs_mult.
        assert (99 / 100 <= Rabs (1 + e2)) by (apply Rabs_le_inv in He2; rewrite Rabs_right; lra).
        assert (Rabs (N * (1 + e1)) * (99 / 100) <= Rabs (N * (1 + e1)) * Rabs (1 + e2)) by (apply Rmult_le_compat_l; [apply Rabs_pos|lra]).
        lra. }
      assert (bpow radix2 (-1022) <= 1) by (apply Rle_trans with (bpow radix2 0); [apply bpow_le; lia|simpl; lra]).
      split; [eapply Rle_trans; [|apply Rabs_triang_inv]|eapply Rle_trans; [|apply Rabs_plus_lower]]; rewrite Rabs_R1; lra. }
    destruct (Rlt_bool_spec 0 B) as [Hp|Hm].
    + pose proof (Bminus_correct prec emax Hprec Hemax mode_NE q0 one64 Fq0 F1) as Hm1.
      change (round_mode mode_NE) with ZnearestE in Hm1. change (SpecFloat.fexp prec emax) with fexp64 in Hm1.
      rewrite H1 in Hm1.
      destruct (Rlt_bool (Rabs (rnd (B2R64 q0 - 1))) (bpow radix2 emax)).
      2:{ exfalso. destruct Hm1 as [Hm1 _]. apply SF_overflow_infinite in Hm1. congruence. }
      destruct Hm1 as (Hv & _). rewrite Hv.
      destruct (rnd_rel_error (B2R64 q0 - 1) (proj1 Hq0big)) as (e3 & He3 & Herr3). rewrite U53 in He3.
      rewrite Herr3, Hq0', minus_IZR. fold N. rewrite <- H8.
      apply (err_bound (/ 2 ^ 53) N e1 e2 e3 rho 1); try assumption. rewrite Rabs_R1. lra.
    + pose proof (Bplus_correct prec emax Hprec Hemax mode_NE q0 one64 Fq0 F1) as Hp1.
      change (round_mode mode_NE) with ZnearestE in Hp1. change (SpecFloat.fexp prec emax) with fexp64 in Hp1.
      rewrite H1 in Hp1.
      destruct (Rlt_bool (Rabs (rnd (B2R64 q0 + 1))) (bpow radix2 emax)).
      2:{ exfalso. destruct Hp1 as [Hp1 _]. apply SF_overflow_infinite in Hp1. congruence. }
      destruct Hp1 as (Hv & _). rewrite Hv.
      destruct (rnd_rel_error (B2R64 q0 + 1) (proj2 Hq0big)) as (e3 & He3 & Herr3). rewrite U53 in He3.
      rewrite Herr3, Hq0', minus_IZR. fold N. rewrite <- H8.
      replace (N * (1 + e1) * (1 + e2) + rho + 1) with (N * (1 + e1) * (1 + e2) + rho - -1) by ring.
      replace (IZR (-1)) with (-1) by reflexivity.
      apply (err_bound (/ 2 ^ 53) N e1 e2 e3 rho (-1)); try assumption. apply Rabs_le. lra.
  - rewrite Hq0'. fold N. rewrite <- H8.
    replace (N * (1 + e1) * (1 + e2) + rho - N) with ((N * (1 + e1) * (1 + e2) + rho - 0) * (1 + 0) - (N - 0)) by ring.
    replace N with (N - 0) at 3 by ring.
    apply (err_bound (/ 2 ^ 53) N e1 e2 0 rho 0); try assumption; rewrite Rabs_R0; lra.
Qed.

(* ---- the statements of Props/C08.v ---- *)
Lemma euclid_float_remainder_proof (a b : b64) : is_finite a = true -> is_finite_strict b = true ->
  let A := B2R64 a in let B := B2R64 b in
  (A = IZR (Zdiv_e A B) * B + Rmod_e A B /\ 0 <= Rmod_e A B < Rabs B) /\
  B2R64 (Brem_euclid a b) = rnd (Rmod_e A B) /\
  is_finite (Brem_euclid a b) = true /\
  (0 <= A -> B2R64 (Brem_euclid a b) = Rmod_e A B) /\
  0 <= B2R64 (Brem_euclid a b) <= Rabs B.
Proof.
  intros Fa Fb A B. destruct (is_finite_strict_finite b Fb) as [_ HB].
  destruct (Brem_euclid_correct a b Fa Fb) as (H1 & H2 & H3 & H4). fold A B in H1, H3, H4.
  split; [apply euclid_R; exact HB|]. repeat split; try assumption; try apply H4.
  intros HA. apply H3. destruct (Rfmod_bounds A B HB) as (_ & Hp & _). apply Hp. exact HA.
Qed.

Lemma trunc_quotient_bound x y : y <> 0 -> (Z.abs (Ztrunc (x / y)) <= Z.abs (Zdiv_e x y) + 1)%Z.
Proof.
  intros Hy. pose proof (euclid_of_trunc x y Hy) as He. cbv zeta in He.
  destruct (Rlt_bool (Rfmod x y) 0); destruct He as [_ He]; rewrite He; [|lia].
  unfold Rsgn_Z. destruct (Rlt_bool 0 y); lia.
Qed.

Lemma euclid_float_quotient_proof (a b : b64) : is_finite a = true -> is_finite_strict b = true ->
  let A := B2R64 a in let B := B2R64 b in let Q := Zdiv_e A B in
  ((Z.abs Q < 2 ^ 51 - 1)%Z -> B2R64 (Bdiv_euclid a b) = IZR Q /\ is_finite (Bdiv_euclid a b) = true) /\
  (is_finite (Bdiv_euclid a b) = true -> Rabs (B2R64 (Bdiv_euclid a b) - IZR Q) <= / 2 ^ 50 * Rabs (IZR Q)).
Proof.
  intros Fa Fb A B Q. destruct (is_finite_strict_finite b Fb) as [_ HB].
  assert (Hsmall : (Z.abs (Ztrunc (A / B)) < 2 ^ 51)%Z -> B2R64 (Bdiv_euclid a b) = IZR Q /\ is_finite (Bdiv_euclid a b) = true).
  { intros Hn. apply Bdiv_euclid_correct; assumption. }
  split.
  - intros Hq. apply Hsmall. pose proof (trunc_quotient_bound A B HB). fold Q in H. lia.
  - intros Hfin. destruct (Z_lt_le_dec (Z.abs (Ztrunc (A / B))) (2 ^ 51)) as [Hn|Hn].
    + destruct (Hsmall Hn) as [-> _]. unfold Rminus. rewrite Rplus_opp_r, Rabs_R0.
      apply Rmult_le_pos; [apply Rlt_le, Rinv_0_lt_compat; lra|apply Rabs_pos].
    + apply Bdiv_euclid_large; assumption.
Qed.

Lemma euclid_float_convention_proof (a b : b64) : is_finite a = true -> is_finite_strict b = true ->
  let A := B2R64 a in let B := B2R64 b in
  exists (Q : Z) (R : R),
    (A = IZR Q * B + R /\ 0 <= R < Rabs B) /\
    (B2R64 (Brem_euclid a b) = rnd R /\ (0 <= A -> B2R64 (Brem_euclid a b) = R) /\ is_finite (Brem_euclid a b) = true) /\
    ((Z.abs Q < 2 ^ 51 - 1)%Z -> B2R64 (Bdiv_euclid a b) = IZR Q /\ is_finite (Bdiv_euclid a b) = true) /\
    (is_finite (Bdiv_euclid a b) = true -> Rabs (B2R64 (Bdiv_euclid a b) - IZR Q) <= / 2 ^ 50 * Rabs (IZR Q)).
Proof.
  intros Fa Fb A B.
  destruct (euclid_float_remainder_proof a b Fa Fb) as ((H1 & H2) & H3 & H4 & H5 & _). fold A B in H1, H2, H3, H5.
  destruct (euclid_float_quotient_proof a b Fa Fb) as (H6 & H7). fold A B in H6, H7.
  exists (Zdiv_e A B), (Rmod_e A B). repeat split; try assumption; try apply H2; try (apply H6; assumption).
Qed.
