(* C08 float specification: the Euclidean convention on the real numbers, written from the
   documentation ("divisions in MiniJinja are ... using euclidean division", syntax.rs;
   IntDiv in instructions.rs): a = q * b + r with q an integer and 0 <= r < |b|.
   No proofs in this file. *)
From Coq Require Import ZArith Reals.
From Flocq Require Import Core.
Open Scope R_scope.

(* the remainder and the (integer) quotient of the Euclidean division of x by y <> 0 *)
Definition Rmod_e (x y : R) : R := x - IZR (Zfloor (x / Rabs y)) * Rabs y.
Definition Zdiv_e (x y : R) : Z := ((if Rlt_bool 0 y then 1 else -1) * Zfloor (x / Rabs y))%Z.
