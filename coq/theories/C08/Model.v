(* C08 model: the integer side of minijinja/src/value/ops.rs::{coerce, math_binop!, add, mul,
   int_div, rem, pow, neg, int_as_value}, value/argtypes.rs::TryFrom<Value> for i128,
   value/mod.rs::{PartialEq, Ord} restricted to integers, compiler/lexer.rs::eat_number
   (integer branch) and the literal negation of compiler/codegen.rs, mirrored function by
   function.  An integer value is the pair of the ValueRepr variant it is stored in and the
   number it holds.  No proofs in this file. *)
From MJ Require Import Common.Base.
From MJ Require Export C08.Ops.

Inductive width := U64 | I64 | U128 | I128.
Inductive num := VInt (w : width) (z : Z).

Definition fits (w : width) (z : Z) : bool :=
  match w with U64 => in_u64 z | I64 => in_i64 z | U128 => in_u128 z | I128 => in_i128 z end.
Definition num_val (v : num) : Z := match v with VInt _ z => z end.
Definition num_ok (v : num) : bool := match v with VInt w z => fits w z end.

(* `x as i128` for a u128 (two's complement reinterpretation) *)
Definition wrap_i128 (z : Z) : Z := (z + 2 ^ 127) mod 2 ^ 128 - 2 ^ 127.

(* argtypes.rs: i128::try_from(Value) for the four integer reprs *)
Definition try_i128 (v : num) : option Z :=
  match v with
  | VInt U128 z => if z <=? i128_max then Some z else None
  | VInt _ z => Some z
  end.

(* ops.rs::coerce on two integers.  The (U128, U128) arm used to be `a.0 as i128, b.0 as i128`
   ([coerce_before_fix]); it now goes through the checked conversion like every mixed pair. *)
Definition coerce (a b : num) : option (Z * Z) :=
  match a, b with
  | VInt U64 x, VInt U64 y => Some (x, y)
  | VInt I64 x, VInt I64 y => Some (x, y)
  | VInt I128 x, VInt I128 y => Some (x, y)
  | _, _ => match try_i128 a, try_i128 b with
            | Some x, Some y => Some (x, y)
            | _, _ => None
            end
  end.

Definition coerce_before_fix (a b : num) : option (Z * Z) :=
  match a, b with
  | VInt U128 x, VInt U128 y => Some (wrap_i128 x, wrap_i128 y)
  | _, _ => coerce a b
  end.

(* i128 checked arithmetic *)
Definition chk (z : Z) : option Z := if in_i128 z then Some z else None.
Definition checked_add (a b : Z) := chk (a + b).
Definition checked_sub (a b : Z) := chk (a - b).
Definition checked_mul (a b : Z) := chk (a * b).

(* core::num: div_euclid / rem_euclid are defined through the truncating `/` and `%` *)
Definition rust_div_euclid (a b : Z) : Z :=
  let q := Z.quot a b in
  if Z.rem a b <? 0 then (if 0 <? b then q - 1 else q + 1) else q.
Definition rust_rem_euclid (a b : Z) : Z :=
  let r := Z.rem a b in
  if r <? 0 then (if b <? 0 then r - b else r + b) else r.

(* None for a zero divisor and for MIN / -1 *)
Definition checked_div_euclid (a b : Z) : option Z :=
  if b =? 0 then None else chk (rust_div_euclid a b).
(* i128::checked_rem_euclid also answers None for MIN % -1 (it is implemented through the division) *)
Definition checked_rem_euclid (a b : Z) : option Z :=
  if (b =? 0) || ((a =? i128_min) && (b =? -1)) then None else Some (rust_rem_euclid a b).
(* what ops.rs::rem uses since the fix: the remainder itself can never overflow *)
Definition rem_i128 (a b : Z) : option Z :=
  if b =? 0 then None else Some (rust_rem_euclid a b).

(* i128::checked_pow: square-and-multiply, every product checked.
     loop { if exp & 1 == 1 { acc = acc.checked_mul(base)?; if exp == 1 { return Some(acc) } }
            exp /= 2; base = base.checked_mul(base)?; }                                         *)
Fixpoint pow_loop (acc base : Z) (e : positive) : option Z :=
  match e with
  | xH => checked_mul acc base
  | xO e' => match checked_mul base base with
             | Some b2 => pow_loop acc b2 e'
             | None => None
             end
  | xI e' => match checked_mul acc base with
             | Some acc' => match checked_mul base base with
                            | Some b2 => pow_loop acc' b2 e'
                            | None => None
                            end
             | None => None
             end
  end.
Definition u32_max := 2 ^ 32 - 1.
(* ops.rs::pow before the fix: u32::try_from(b).ok().and_then(|b| a.checked_pow(b)) *)
Definition checked_pow (a b : Z) : option Z :=
  if (b <? 0) || (u32_max <? b) then None
  else match b with
       | Zpos e => pow_loop 1 a e
       | _ => Some 1
       end.
(* ops.rs::pow now: an exponent beyond u32 is kept through its parity for the bases -1, 0, 1
     u32::try_from(b).ok().or_else(|| (b > 0 && (-1..=1).contains(&a)).then_some(2 + (b & 1) as u32)) *)
Definition pow_exponent (a b : Z) : option Z :=
  if (0 <=? b) && (b <=? u32_max) then Some b
  else if (0 <? b) && (-1 <=? a) && (a <=? 1) then Some (2 + b mod 2)
  else None.
Definition pow_i128 (a b : Z) : option Z :=
  match pow_exponent a b with
  | Some (Zpos e) => pow_loop 1 a e
  | Some _ => Some 1
  | None => None
  end.

(* ops.rs::int_as_value *)
Definition int_as_value (z : Z) : num := if in_i64 z then VInt I64 z else VInt I128 z.

Definition int_op (fixed : bool) (op : binop) (a b : Z) : option Z :=
  match op with
  | Add => checked_add a b
  | Sub => checked_sub a b
  | Mul => checked_mul a b
  | FloorDiv => checked_div_euclid a b
  | Rem => if fixed then rem_i128 a b else checked_rem_euclid a b
  | Pow => if fixed then pow_i128 a b else checked_pow a b
  end.

(* ops.rs::{add, sub, mul, int_div, rem, pow} on two integer values.  A failed coercion is
   `impossible_op`, a failed checked operation is `failed_op`: both ErrorKind::InvalidOperation. *)
Definition binop_with (co : num -> num -> option (Z * Z)) (fixed : bool) (op : binop) (a b : num) : outcome num :=
  match co a b with
  | None => Err E_InvalidOperation
  | Some (x, y) => match int_op fixed op x y with
                   | Some r => Ok (int_as_value r)
                   | None => Err E_InvalidOperation
                   end
  end.
Definition model_binop := binop_with coerce true.
Definition model_binop_before_fix := binop_with coerce_before_fix false.

(* ops.rs::neg on an integer value, with its special case for the u128 2^127 *)
Definition model_neg (v : num) : outcome num :=
  match v with
  | VInt U128 z =>
      if z =? 2 ^ 127 then Ok (VInt U128 (2 ^ 127))
      else match try_i128 v with
           | Some x => match checked_mul x (-1) with Some r => Ok (int_as_value r) | None => Err E_InvalidOperation end
           | None => Err E_InvalidOperation
           end
  | _ => match try_i128 v with
         | Some x => match checked_mul x (-1) with Some r => Ok (int_as_value r) | None => Err E_InvalidOperation end
         | None => Err E_InvalidOperation
         end
  end.

(* value/mod.rs: Ord::cmp and PartialEq::eq on two integer values *)
Definition model_cmp (a b : num) : comparison :=
  match a, b with
  | VInt U128 x, VInt U128 y => x ?= y
  | _, _ => match coerce a b with
            | Some (x, y) => x ?= y
            | None =>
                (* cmp_uncoercible_numbers: U64/U128 as u128, I64/I128 as i128 *)
                match a, b with
                | VInt (U64 | U128) x, VInt (U64 | U128) y => x ?= y
                | VInt (I64 | I128) x, VInt (I64 | I128) y => x ?= y
                | VInt (I64 | I128) x, VInt (U64 | U128) y => if x <? 0 then Lt else x ?= y
                | VInt (U64 | U128) x, VInt (I64 | I128) y => CompOpp (if y <? 0 then Lt else y ?= x)
                end
            end
  end.
Definition model_eq (a b : num) : bool :=
  match a, b with
  | VInt U128 x, VInt U128 y => x =? y
  | _, _ => match coerce a b with
            | Some (x, y) => x =? y
            | None => false       (* neither is an object *)
            end
  end.

(* ---- literals ---- *)
(* {u64,u128}::from_str_radix: digits most significant first, every step checked *)
Fixpoint parse_uint (radix max acc : Z) (ds : list Z) : option Z :=
  match ds with
  | [] => Some acc
  | d :: r =>
      let m := acc * radix in
      if max <? m then None
      else let s := m + d in
           if max <? s then None else parse_uint radix max s r
  end.
(* lexer.rs::eat_number, integer branch: u64 first, then u128, else "invalid integer (too large)" *)
Definition lex_int (radix : Z) (ds : list Z) : outcome num :=
  match parse_uint radix u64_max 0 ds with
  | Some n => Ok (VInt U64 n)
  | None => match parse_uint radix u128_max 0 ds with
            | Some n => Ok (VInt U128 n)
            | None => Err E_SyntaxError
            end
  end.
(* the same on the number the digits denote *)
Definition lit (n : Z) : outcome num :=
  if n <=? u64_max then Ok (VInt U64 n)
  else if n <=? u128_max then Ok (VInt U128 n)
  else Err E_SyntaxError.

(* ---- operands and whole cases, as the harness builds them ---- *)
Inductive form := FLit | FI64 | FU64 | FI128 | FU128.
Definition form_width (f : form) : width :=
  match f with FLit => U128 | FI64 => I64 | FU64 => U64 | FI128 => I128 | FU128 => U128 end.

(* `-N` in the template text is the unary minus applied to the literal N: codegen.rs folds it
   with ops::neg when that succeeds and emits Instruction::Neg (same function, at run time)
   when it does not.  A literal that does not lex is a compile error, reported before anything runs. *)
Definition syntax_ok (f : form) (z : Z) : bool :=
  match f with FLit => Z.abs z <=? u128_max | _ => true end.
Definition operand (f : form) (z : Z) : outcome num :=
  match f with
  | FLit => if z <? 0 then bind (lit (- z)) model_neg else lit z
  | _ => Ok (VInt (form_width f) z)
  end.

Inductive op := Bin (o : binop) | Neg.

Definition case_with (bin : binop -> num -> num -> outcome num)
    (o : op) (fa : form) (a : Z) (fb : form) (b : Z) : outcome num :=
  match o with
  | Bin o =>
      if negb (syntax_ok fa a && syntax_ok fb b) then Err E_SyntaxError
      else bind (operand fa a) (fun x => bind (operand fb b) (fun y => bin o x y))
  | Neg =>
      if negb (syntax_ok fa a) then Err E_SyntaxError
      else bind (operand fa a) model_neg
  end.
Definition model_case := case_with model_binop.
Definition model_case_before_fix := case_with model_binop_before_fix.

(* comparison case: (a < b, a == b, a > b) *)
Definition model_compare (fa : form) (a : Z) (fb : form) (b : Z) : outcome (bool * bool * bool) :=
  if negb (syntax_ok fa a && syntax_ok fb b) then Err E_SyntaxError
  else bind (operand fa a) (fun x => bind (operand fb b) (fun y =>
         Ok (match model_cmp x y with Lt => true | _ => false end,
             model_eq x y,
             match model_cmp x y with Gt => true | _ => false end))).

(* ---- integer / float comparison: value/mod.rs::{Ord::cmp, PartialEq::eq, cmp_f64, cmp_f64_i128,
        cmp_f64_u128, cmp_uncoercible_numbers} and ops.rs::{coerce (lossy = false), as_f64} ----
   An f64 is decoded from its bit pattern into sign * mantissa * 2^exponent; all arithmetic on it
   below is exact integer arithmetic. *)
Inductive f64 := FFin (m e : Z) (* the number m * 2^e, |m| < 2^53, -1074 <= e <= 971 *) | FInf (neg : bool) | FNan.

Definition decode (bits : Z) : f64 :=
  let s := bits / 2 ^ 63 in
  let e := (bits / 2 ^ 52) mod 2 ^ 11 in
  let m := bits mod 2 ^ 52 in
  if e =? 2047 then (if m =? 0 then FInf (s =? 1) else FNan)
  else let M := if e =? 0 then m else 2 ^ 52 + m in
       let E := if e =? 0 then -1074 else e - 1075 in
       FFin (if s =? 1 then - M else M) E.

(* `x as f64` for an integer (round to nearest, ties to even), as the integer it denotes; |x| < 2^128 cannot overflow *)
Definition rne_nat (n : Z) : Z :=
  if n <? 2 ^ 53 then n
  else let k := Z.log2 n - 52 in
       let q := n / 2 ^ k in
       let r := n mod 2 ^ k in
       let half := 2 ^ (k - 1) in
       (if (half <? r) || ((r =? half) && Z.odd q) then q + 1 else q) * 2 ^ k.
Definition rne_int (z : Z) : Z := if z <? 0 then - rne_nat (- z) else rne_nat z.

Definition ty_min (w : width) : Z := match w with U64 | U128 => 0 | I64 => i64_min | I128 => i128_min end.
Definition ty_max (w : width) : Z := match w with U64 => u64_max | U128 => u128_max | I64 => i64_max | I128 => i128_max end.
(* as_f64(value, lossy = false): `rv < MAX as f64 && rv as ty == x` (the cast back saturates;
   the first test was added by a fix: commit - [as_f64_exact_before_fix] is the old code) *)
Definition as_f64_exact (v : num) : option Z :=
  match v with VInt w z =>
    let rv := rne_int z in
    if (rv <? ty_max w + 1) && (Z.max (ty_min w) (Z.min (ty_max w) rv) =? z) then Some rv else None
  end.
Definition as_f64_exact_before_fix (v : num) : option Z :=
  match v with VInt w z =>
    let rv := rne_int z in
    if Z.max (ty_min w) (Z.min (ty_max w) rv) =? z then Some rv else None
  end.

(* cmp_f64 of the finite float m * 2^e with an integer-valued float n *)
Definition cmp_fin (m e n : Z) : comparison :=
  if 0 <=? e then m * 2 ^ e ?= n else m ?= n * 2 ^ (- e).

(* Ord::cmp(float, integer) *)
Definition cmp_float_int (exactf : num -> option Z) (f : f64) (v : num) : option comparison :=
  match f with
  | FNan => None                                   (* not modelled *)
  | FInf neg => Some (if neg then Lt else Gt)
  | FFin m e =>
      match exactf v with
      | Some rv => Some (cmp_fin m e rv)           (* coerce -> F64(a, b) -> cmp_f64 *)
      | None =>                                    (* cmp_uncoercible_numbers *)
          match v with VInt w z =>
            let rv := rne_int z in
            match cmp_fin m e rv with
            | Eq =>                                (* left == right as f64, so left is the integer rv *)
                match w with
                | I64 | I128 => Some (if 2 ^ 127 <=? rv then Gt else rv ?= z)
                | U64 | U128 => Some (if rv <? 0 then Lt else if 2 ^ 128 <=? rv then Gt else rv ?= z)
                end
            | c => Some c
            end
          end
      end
  end.
(* PartialEq::eq(float, integer) *)
Definition eq_float_int (exactf : num -> option Z) (f : f64) (v : num) : option bool :=
  match f with
  | FNan => None
  | FInf _ => Some false
  | FFin m e => match exactf v with
                | Some rv => Some (match cmp_fin m e rv with Eq => true | _ => false end)
                | None => Some false
                end
  end.

(* comparison case with the float on the left ([swap] = false) or on the right *)
Definition model_compare_float (exactf : num -> option Z) (swap : bool) (bits : Z) (fi : form) (z : Z)
  : option (outcome (bool * bool * bool)) :=
  if negb (syntax_ok fi z) then Some (Err E_SyntaxError) else
  match operand fi z with
  | Ok v =>
      match cmp_float_int exactf (decode bits) v, eq_float_int exactf (decode bits) v with
      | Some c, Some e =>
          let c := if swap then CompOpp c else c in
          Some (Ok (match c with Lt => true | _ => false end, e, match c with Gt => true | _ => false end))
      | _, _ => None
      end
  | Err c => Some (Err c)
  | Panic => Some Panic
  | OutOfGas => Some OutOfGas
  end.

(* ---- integer literals from their source text: lexer.rs::eat_number (integer states) ----
   Characters are code points.  The radix comes from the two-character prefix 0b/0B, 0o/0O, 0x/0X
   (else 10); the scan accepts decimal digits in every state (whatever the radix), a-f/A-F in the
   hexadecimal state, and `_` anywhere; `_` at the end is an error, all others are dropped; then
   u64::from_str_radix, else u128::from_str_radix, else "invalid integer (too large)" - also for an
   empty digit string and for a digit the radix does not have.  [None]: the text is not one integer
   token (a float, or something follows the number): not modelled. *)
Definition is_dec (c : Z) : bool := (48 <=? c) && (c <=? 57).
Definition is_hexletter (c : Z) : bool := ((97 <=? c) && (c <=? 102)) || ((65 <=? c) && (c <=? 70)).
Definition digit_val (c : Z) : Z := if is_dec c then c - 48 else if 97 <=? c then c - 87 else c - 55.

(* the scan loop: (characters of the number, rest); None when the number becomes a float *)
Fixpoint scan_number (radix : Z) (cs : list Z) : option (list Z * list Z) :=
  match cs with
  | [] => Some ([], [])
  | c :: r =>
      if (radix =? 10) && ((c =? 46) || (c =? 69) || (c =? 101)) then None
      else if is_dec c || ((radix =? 16) && is_hexletter c) || (c =? 95) then
        match scan_number radix r with
        | Some (acc, rest) => Some (c :: acc, rest)
        | None => None
        end
      else Some ([], cs)
  end.

Definition split_radix (cs : list Z) : Z * list Z :=
  match cs with
  | z :: p :: r =>
      if negb (z =? 48) then (10, cs)
      else if (p =? 98) || (p =? 66) then (2, r)
      else if (p =? 111) || (p =? 79) then (8, r)
      else if (p =? 120) || (p =? 88) then (16, r)
      else (10, cs)
  | _ => (10, cs)
  end.

(* {u64,u128}::from_str_radix on the characters: empty and foreign digits are errors like overflow *)
Definition lex_digits (radix : Z) (ds : list Z) : outcome num :=
  match ds with
  | [] => Err E_SyntaxError
  | _ => if forallb (fun c => digit_val c <? radix) ds then lex_int radix (map digit_val ds) else Err E_SyntaxError
  end.

Definition lex_number_text (cs : list Z) : option (outcome num) :=
  let '(radix, body) := split_radix cs in
  match scan_number radix body with
  | None => None
  | Some (tok, rest) =>
      match rest with
      | _ :: _ => None
      | [] =>
          if existsb (Z.eqb 95) tok then
            if last tok 0 =? 95 then Some (Err E_SyntaxError)
            else Some (lex_digits radix (filter (fun c => negb (c =? 95)) tok))
          else Some (lex_digits radix tok)
      end
  end.
