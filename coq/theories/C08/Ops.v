(* C08: the operator names shared by model and specification. *)
Inductive binop := Add | Sub | Mul | FloorDiv | Rem | Pow.
