(* C08 proofs: the model of the integer operators answers the exact result of unbounded
   arithmetic or an error, the exact result whenever operands and result are in the i128
   range, and the answer depends on the numbers only, not on the widths they are stored in. *)
From MJ Require Import Common.Base C08.Model C08.Spec.

Ltac Zify.zify_post_hook ::= Z.to_euclidean_division_equations.

(* ---- Euclidean division: the specification's own law, and core's definitions against it ---- *)

Lemma euclid_law a b : b <> 0 -> ediv a b * b + emod a b = a /\ 0 <= emod a b < Z.abs b.
Proof. intros Hb. unfold ediv, emod. nia. Qed.

Lemma euclid_unique a b q r : q * b + r = a -> 0 <= r < Z.abs b -> q = ediv a b /\ r = emod a b.
Proof.
  intros H1 H2. assert (b <> 0) by lia.
  destruct (euclid_law a b H) as [L1 L2].
  remember (ediv a b) as q'. remember (emod a b) as r'. clear Heqq' Heqr'.
  assert (q = q') by nia. subst. split; [reflexivity | nia].
Qed.

Lemma rust_div_rem_euclid a b : b <> 0 ->
  rust_div_euclid a b * b + rust_rem_euclid a b = a /\ 0 <= rust_rem_euclid a b < Z.abs b.
Proof.
  intros Hb. unfold rust_div_euclid, rust_rem_euclid.
  pose proof (Z.quot_rem' a b) as Hqr.
  pose proof (Z.rem_bound_abs a b Hb) as Hab.
  remember (Z.quot a b) as q. remember (Z.rem a b) as r. clear Heqq Heqr.
  destruct (r <? 0) eqn:E1; destruct (0 <? b) eqn:E2; destruct (b <? 0) eqn:E3; try lia; split; nia.
Qed.

Lemma rust_div_euclid_spec a b : b <> 0 -> rust_div_euclid a b = ediv a b.
Proof. intros Hb. destruct (rust_div_rem_euclid a b Hb) as [H1 H2]. apply (euclid_unique a b _ _ H1 H2). Qed.
Lemma rust_rem_euclid_spec a b : b <> 0 -> rust_rem_euclid a b = emod a b.
Proof. intros Hb. destruct (rust_div_rem_euclid a b Hb) as [H1 H2]. apply (euclid_unique a b _ _ H1 H2). Qed.

Lemma chk_some z r : chk z = Some r -> in_i128 z = true /\ r = z.
Proof. unfold chk. destruct (in_i128 z); intros H; inversion H; auto. Qed.
Lemma chk_in z : in_i128 z = true -> chk z = Some z.
Proof. unfold chk. intros ->. reflexivity. Qed.
Lemma chk_out z : in_i128 z = false -> chk z = None.
Proof. unfold chk. intros ->. reflexivity. Qed.

Lemma in_i128_iff z : in_i128 z = true <-> - 2 ^ 127 <= z <= 2 ^ 127 - 1.
Proof. unfold in_i128, i128_min, i128_max. lia. Qed.

(* soundness: whatever the loop returns is acc * base ^ e *)
Lemma pow_loop_sound e : forall acc base r, pow_loop acc base e = Some r -> r = acc * base ^ Zpos e.
Proof.
  induction e as [e IH|e IH|]; intros acc base r; cbn [pow_loop]; unfold checked_mul.
  - destruct (chk (acc * base)) as [acc'|] eqn:E1; [|discriminate].
    destruct (chk (base * base)) as [b2|] eqn:E2; [|discriminate].
    apply chk_some in E1 as [_ ->]. apply chk_some in E2 as [_ ->].
    intros H. apply IH in H. subst r.
    rewrite Pos2Z.inj_xI. rewrite Z.pow_add_r, Z.pow_mul_r, Z.pow_2_r, Z.pow_1_r by lia. ring.
  - destruct (chk (base * base)) as [b2|] eqn:E2; [|discriminate].
    apply chk_some in E2 as [_ ->].
    intros H. apply IH in H. subst r.
    rewrite Pos2Z.inj_xO. rewrite Z.pow_mul_r, Z.pow_2_r by lia. ring.
  - intros H. apply chk_some in H as [_ ->]. rewrite Z.pow_1_r. reflexivity.
Qed.

(* 2^127 is not a square *)
Lemma not_square_2_127 x : x * x <> 2 ^ 127.
Proof.
  intros H.
  assert (Hs : Z.sqrt (2 ^ 127) = Z.abs x).
  { rewrite <- H. replace (x * x) with (Z.abs x * Z.abs x) by lia. apply Z.sqrt_square. lia. }
  assert (Hc : Z.sqrt (2 ^ 127) * Z.sqrt (2 ^ 127) <> 2 ^ 127) by (vm_compute; discriminate).
  apply Hc. rewrite Hs. lia.
Qed.

Lemma pow_ge_1 x n : 1 <= x -> 0 <= n -> 1 <= x ^ n.
Proof. intros. replace 1 with (1 ^ n) at 1 by (apply Z.pow_1_l; lia). apply Z.pow_le_mono_l. lia. Qed.

(* completeness: when the final product fits, so does every intermediate one *)
Lemma pow_loop_complete e : forall acc base, acc <> 0 -> base <> 0 ->
  in_i128 acc = true -> in_i128 base = true ->
  in_i128 (acc * base ^ Zpos e) = true -> pow_loop acc base e = Some (acc * base ^ Zpos e).
Proof.
  induction e as [e IH|e IH|]; intros acc base Ha Hb Hia Hib Hf; cbn [pow_loop]; unfold checked_mul.
  - rewrite Pos2Z.inj_xI in *.
    assert (Hpow : base ^ (2 * Zpos e + 1) = base * (base * base) ^ Zpos e).
    { rewrite Z.pow_add_r, Z.pow_mul_r, Z.pow_2_r, Z.pow_1_r by lia. ring. }
    rewrite Hpow in *.
    assert (Hp : 1 <= (base * base) ^ Zpos e) by (apply pow_ge_1; nia).
    assert (Hp2 : base * base <= (base * base) ^ Zpos e).
    { replace (base * base) with ((base * base) ^ 1) at 1 by apply Z.pow_1_r. apply Z.pow_le_mono_r; nia. }
    remember ((base * base) ^ Zpos e) as P.
    apply in_i128_iff in Hf.
    assert (H1 : in_i128 (acc * base) = true) by (apply in_i128_iff; nia).
    assert (Hne : base * base <> 2 ^ 127) by apply not_square_2_127.
    assert (H2 : in_i128 (base * base) = true).
    { apply in_i128_iff. assert (1 <= Z.abs (acc * base)) by nia. nia. }
    rewrite (chk_in _ H1), (chk_in _ H2). rewrite IH; try assumption; try nia.
    + subst P. f_equal. ring.
    + apply in_i128_iff. subst P. replace (acc * base * (base * base) ^ Zpos e) with (acc * (base * (base * base) ^ Zpos e)) by ring. lia.
  - rewrite Pos2Z.inj_xO in *.
    assert (Hpow : base ^ (2 * Zpos e) = (base * base) ^ Zpos e).
    { rewrite Z.pow_mul_r, Z.pow_2_r by lia. ring. }
    rewrite Hpow in *.
    assert (Hp2 : base * base <= (base * base) ^ Zpos e).
    { replace (base * base) with ((base * base) ^ 1) at 1 by apply Z.pow_1_r. apply Z.pow_le_mono_r; nia. }
    remember ((base * base) ^ Zpos e) as P.
    apply in_i128_iff in Hf.
    assert (Hne : base * base <> 2 ^ 127) by apply not_square_2_127.
    assert (H2 : in_i128 (base * base) = true).
    { apply in_i128_iff. nia. }
    rewrite (chk_in _ H2). rewrite IH; try assumption; try nia.
    + subst P. reflexivity.
    + apply in_i128_iff. subst P. lia.
  - rewrite Z.pow_1_r in *. apply chk_in. exact Hf.
Qed.

Lemma pow_loop_range e : forall acc base r, pow_loop acc base e = Some r -> in_i128 r = true.
Proof.
  induction e as [e IH|e IH|]; intros acc base r; cbn [pow_loop]; unfold checked_mul.
  - destruct (chk (acc * base)) as [acc'|]; [|discriminate].
    destruct (chk (base * base)) as [b2|]; [|discriminate]. apply IH.
  - destruct (chk (base * base)) as [b2|]; [|discriminate]. apply IH.
  - intros H. apply chk_some in H as [H ->]. exact H.
Qed.

Lemma pow_loop_zero e : forall acc, in_i128 acc = true -> pow_loop acc 0 e = Some 0.
Proof.
  induction e as [e IH|e IH|]; intros acc Ha; cbn [pow_loop]; unfold checked_mul.
  - rewrite Z.mul_0_r. cbn [Z.mul]. rewrite (chk_in 0) by reflexivity. apply IH. reflexivity.
  - cbn [Z.mul]. rewrite (chk_in 0) by reflexivity. apply IH. exact Ha.
  - rewrite Z.mul_0_r. apply chk_in. reflexivity.
Qed.

(* the inputs on which ops.rs::pow failed before its fix although the result fits *)
Definition pow_known (a b : Z) : Prop := Z.abs a <= 1 /\ u32_max < b.

Lemma big_pow_out a b : 2 <= Z.abs a -> 128 <= b -> in_i128 (a ^ b) = false.
Proof.
  intros Ha Hb. destruct (in_i128 (a ^ b)) eqn:E; [|reflexivity]. exfalso.
  apply in_i128_iff in E.
  assert (H1 : Z.abs (a ^ b) = Z.abs a ^ b) by (apply Z.abs_pow).
  assert (H2 : 2 ^ 128 <= 2 ^ b) by (apply Z.pow_le_mono_r; lia).
  assert (H3 : 2 ^ b <= Z.abs a ^ b) by (apply Z.pow_le_mono_l; lia).
  assert (H4 : 2 ^ 127 < 2 ^ 128) by (vm_compute; reflexivity).
  lia.
Qed.

Lemma checked_pow_spec a b : in_i128 a = true -> ~ pow_known a b ->
  checked_pow a b = if b <? 0 then None else chk (a ^ b).
Proof.
  intros Ha Hk. unfold checked_pow.
  destruct (b <? 0) eqn:E1; [reflexivity|]. cbn [orb].
  destruct (u32_max <? b) eqn:E2.
  - symmetry. apply chk_out. apply big_pow_out; [|unfold u32_max in *; lia].
    unfold pow_known in Hk. lia.
  - destruct b as [|e|e]; [reflexivity| |lia].
    destruct (Z.eq_dec a 0) as [->|Hne].
    + rewrite pow_loop_zero by reflexivity. rewrite Z.pow_0_l by lia. reflexivity.
    + destruct (in_i128 (a ^ Zpos e)) eqn:E3.
      * rewrite (pow_loop_complete e 1 a); try assumption; try lia; try reflexivity.
        -- rewrite Z.mul_1_l. symmetry. apply chk_in. exact E3.
        -- rewrite Z.mul_1_l. exact E3.
      * rewrite (chk_out _ E3). destruct (pow_loop 1 a e) as [r|] eqn:E4; [|reflexivity].
        pose proof (pow_loop_range _ _ _ _ E4) as Hr. apply pow_loop_sound in E4.
        rewrite Z.mul_1_l in E4. congruence.
Qed.

(* powers of -1, 0, 1 *)
Lemma pow_unit a b : Z.abs a <= 1 -> 0 < b -> a ^ b = if Z.even b then a * a else a.
Proof.
  intros Ha Hb. assert (Hc : a = -1 \/ a = 0 \/ a = 1) by lia.
  destruct (Z.even b) eqn:E.
  - apply Z.even_spec in E. destruct E as [k Hk]. subst b.
    rewrite Z.pow_mul_r by lia. rewrite Z.pow_2_r.
    destruct Hc as [-> | [-> | ->]]; cbn [Z.mul Pos.mul Z.opp]; [rewrite Z.pow_1_l by lia; reflexivity|rewrite Z.pow_0_l by lia; reflexivity|rewrite Z.pow_1_l by lia; reflexivity].
  - assert (Ho : Z.odd b = true) by (rewrite <- Z.negb_even, E; reflexivity).
    apply Z.odd_spec in Ho. destruct Ho as [k Hk]. subst b.
    rewrite Z.pow_add_r, Z.pow_1_r, Z.pow_mul_r, Z.pow_2_r by lia.
    destruct Hc as [-> | [-> | ->]]; cbn [Z.mul Pos.mul Z.opp]; [rewrite Z.pow_1_l by lia; reflexivity|lia|rewrite Z.pow_1_l by lia; reflexivity].
Qed.

(* ops.rs::pow since its fix: exact or an error for every exponent *)
Lemma pow_i128_spec a b : in_i128 a = true -> pow_i128 a b = if b <? 0 then None else chk (a ^ b).
Proof.
  intros Ha. unfold pow_i128, pow_exponent.
  destruct ((0 <=? b) && (b <=? u32_max)) eqn:E1.
  - rewrite <- (checked_pow_spec a b Ha) by (unfold pow_known; lia).
    unfold checked_pow. destruct ((b <? 0) || (u32_max <? b)) eqn:E2; [lia|]. reflexivity.
  - destruct (b <? 0) eqn:E2.
    + destruct ((0 <? b) && (-1 <=? a) && (a <=? 1)) eqn:E3; [lia|reflexivity].
    + destruct ((0 <? b) && (-1 <=? a) && (a <=? 1)) eqn:E3.
      * rewrite pow_unit by lia. rewrite Zmod_even.
        assert (Hc : a = -1 \/ a = 0 \/ a = 1) by lia.
        destruct (Z.even b); destruct Hc as [-> | [-> | ->]]; vm_compute; reflexivity.
      * symmetry. apply chk_out. apply big_pow_out; unfold u32_max in *; lia.
Qed.

(* ---- the i128 operations against the exact results ---- *)
Definition chk_opt (o : option Z) : option Z := match o with Some r => chk r | None => None end.

Lemma int_op_spec op a b : in_i128 a = true -> in_i128 b = true ->
  int_op true op a b = chk_opt (exact op a b).
Proof.
  intros Ha Hb. destruct op; cbn [int_op exact chk_opt]; try reflexivity.
  - unfold checked_div_euclid. destruct (b =? 0) eqn:E; [reflexivity|].
    rewrite rust_div_euclid_spec by lia. reflexivity.
  - unfold rem_i128. destruct (b =? 0) eqn:E; [reflexivity|]. cbn [chk_opt].
    rewrite rust_rem_euclid_spec by lia.
    symmetry. apply chk_in. apply in_i128_iff. apply in_i128_iff in Hb.
    destruct (euclid_law a b ltac:(lia)) as [_ H]. lia.
  - rewrite pow_i128_spec by assumption. destruct (b <? 0); reflexivity.
Qed.

(* the operators as they were before their fixes differ exactly at [pow_known] and at MIN % -1 *)
Lemma pow_before_fix a b : in_i128 a = true -> ~ pow_known a b -> int_op false Pow a b = int_op true Pow a b.
Proof. intros Ha Hk. cbn [int_op]. rewrite checked_pow_spec, pow_i128_spec by assumption. reflexivity. Qed.

Lemma rem_before_fix a b : in_i128 a = true -> in_i128 b = true ->
  int_op false Rem a b = if (a =? i128_min) && (b =? -1) then None else int_op true Rem a b.
Proof.
  intros _ _. cbn [int_op]. unfold checked_rem_euclid, rem_i128.
  destruct (b =? 0) eqn:E1; destruct ((a =? i128_min) && (b =? -1)) eqn:E2; try reflexivity; lia.
Qed.

(* ---- coercion depends on the numbers only ---- *)
Lemma fits_small w z : fits w z = true -> w <> U128 -> in_i128 z = true.
Proof.
  destruct w; cbn [fits]; unfold in_u64, in_i64, in_i128, u64_max, i64_min, i64_max, i128_min, i128_max; intros; try congruence; lia.
Qed.

Lemma try_i128_spec v : num_ok v = true -> try_i128 v = if in_i128 (num_val v) then Some (num_val v) else None.
Proof.
  destruct v as [w z]. cbn [num_ok num_val]. intros Hf.
  destruct w; cbn [try_i128]; try (rewrite (fits_small _ _ Hf) by congruence; reflexivity).
  cbn [fits] in Hf.
  assert (H : (z <=? i128_max) = in_i128 z) by (unfold in_u128, in_i128, i128_min, i128_max, u128_max in *; lia).
  rewrite H. reflexivity.
Qed.

Lemma coerce_spec a b : num_ok a = true -> num_ok b = true ->
  coerce a b = if in_i128 (num_val a) && in_i128 (num_val b) then Some (num_val a, num_val b) else None.
Proof.
  intros Ha Hb.
  assert (Hgen : match try_i128 a, try_i128 b with Some x, Some y => Some (x, y) | _, _ => None end
                 = if in_i128 (num_val a) && in_i128 (num_val b) then Some (num_val a, num_val b) else None).
  { rewrite !try_i128_spec by assumption. destruct (in_i128 (num_val a)), (in_i128 (num_val b)); reflexivity. }
  destruct a as [wa x], b as [wb y]. cbn [num_val num_ok] in *.
  destruct wa, wb; cbn [coerce]; try exact Hgen;
    rewrite (fits_small _ _ Ha), (fits_small _ _ Hb) by congruence; reflexivity.
Qed.

Lemma model_binop_by_value op a b : num_ok a = true -> num_ok b = true ->
  model_binop op a b =
    if in_i128 (num_val a) && in_i128 (num_val b)
    then match int_op true op (num_val a) (num_val b) with
         | Some r => Ok (int_as_value r)
         | None => Err E_InvalidOperation
         end
    else Err E_InvalidOperation.
Proof.
  intros Ha Hb. unfold model_binop, binop_with. rewrite coerce_spec by assumption.
  destruct (in_i128 (num_val a) && in_i128 (num_val b)); reflexivity.
Qed.

Lemma int_as_value_val z : num_val (int_as_value z) = z.
Proof. unfold int_as_value. destruct (in_i64 z); reflexivity. Qed.
Lemma int_as_value_ok z : in_i128 z = true -> num_ok (int_as_value z) = true.
Proof. unfold int_as_value. destruct (in_i64 z) eqn:E; cbn [num_ok fits]; auto. Qed.

(* what a binary operator may answer for the exact result [want] *)
Definition answer (want : option Z) : outcome num :=
  match want with
  | Some r => if in_i128 r then Ok (int_as_value r) else Err E_InvalidOperation
  | None => Err E_InvalidOperation
  end.

Lemma model_binop_spec op a b : num_ok a = true -> num_ok b = true ->
  model_binop op a b =
    if in_i128 (num_val a) && in_i128 (num_val b) then answer (exact op (num_val a) (num_val b))
    else Err E_InvalidOperation.
Proof.
  intros Ha Hb. rewrite model_binop_by_value by assumption.
  destruct (in_i128 (num_val a)) eqn:E1; [|reflexivity].
  destruct (in_i128 (num_val b)) eqn:E2; [|reflexivity]. cbn [andb].
  rewrite int_op_spec by assumption.
  destruct (exact op (num_val a) (num_val b)) as [r|]; [|reflexivity].
  cbn [chk_opt answer]. unfold chk. destruct (in_i128 r); reflexivity.
Qed.

(* ---- unary minus ---- *)
Lemma model_neg_spec v : num_ok v = true -> num_val v <> 2 ^ 127 ->
  model_neg v = if in_i128 (num_val v) then answer (Some (- num_val v)) else Err E_InvalidOperation.
Proof.
  intros Hv Hk.
  assert (Hgen : match try_i128 v with
                 | Some x => match checked_mul x (-1) with Some r => Ok (int_as_value r) | None => Err E_InvalidOperation end
                 | None => Err E_InvalidOperation
                 end = if in_i128 (num_val v) then answer (Some (- num_val v)) else Err E_InvalidOperation).
  { rewrite try_i128_spec by assumption. destruct (in_i128 (num_val v)); [|reflexivity].
    unfold checked_mul, chk, answer. replace (num_val v * -1) with (- num_val v) by ring.
    destruct (in_i128 (- num_val v)); reflexivity. }
  destruct v as [w z]. cbn [num_val] in *. destruct w; cbn [model_neg]; try exact Hgen.
  destruct (z =? 2 ^ 127) eqn:E; [lia|exact Hgen].
Qed.

Lemma model_neg_known : model_neg (VInt U128 (2 ^ 127)) = Ok (VInt U128 (2 ^ 127)).
Proof. vm_compute. reflexivity. Qed.

(* ---- comparison of integers ---- *)
Lemma model_cmp_spec a b : num_ok a = true -> num_ok b = true -> model_cmp a b = (num_val a ?= num_val b).
Proof.
  intros Ha Hb. pose proof (coerce_spec a b Ha Hb) as Hc.
  destruct a as [wa x], b as [wb y]. cbn [num_val num_ok] in *.
  assert (Hn : forall z w, fits w z = true -> in_i128 z = false -> w = U128 /\ 0 <= z).
  { intros z w Hf Hi. destruct w; try (rewrite (fits_small _ _ Hf) in Hi by congruence; discriminate).
    split; [reflexivity|]. cbn [fits] in Hf. unfold in_u128 in Hf. lia. }
  assert (Hu : forall z w, fits w z = true -> match w with U64 | U128 => 0 <= z | _ => True end).
  { intros z w Hf. destruct w; cbn [fits] in Hf; unfold in_u64, in_u128 in Hf; try exact I; lia. }
  pose proof (Hu _ _ Ha) as Hua. pose proof (Hu _ _ Hb) as Hub.
  unfold model_cmp.
  destruct (in_i128 x) eqn:E1; destruct (in_i128 y) eqn:E2; cbn [andb] in Hc.
  - destruct wa, wb; try reflexivity; rewrite Hc; reflexivity.
  - destruct (Hn _ _ Hb E2) as [-> Hy]. destruct wa; try reflexivity; rewrite Hc;
      try reflexivity.
    + destruct (x <? 0) eqn:E3; [symmetry; apply Z.compare_lt_iff; lia|reflexivity].
    + destruct (x <? 0) eqn:E3; [symmetry; apply Z.compare_lt_iff; lia|reflexivity].
  - destruct (Hn _ _ Ha E1) as [-> Hx]. destruct wb; try reflexivity; rewrite Hc; try reflexivity.
    + destruct (y <? 0) eqn:E3; cbn [CompOpp]; [symmetry; apply Z.compare_gt_iff; lia|rewrite <- Z.compare_antisym; reflexivity].
    + destruct (y <? 0) eqn:E3; cbn [CompOpp]; [symmetry; apply Z.compare_gt_iff; lia|rewrite <- Z.compare_antisym; reflexivity].
  - destruct (Hn _ _ Ha E1) as [-> Hx]. destruct (Hn _ _ Hb E2) as [-> Hy]. reflexivity.
Qed.

Lemma eq_false_when_uncoercible wa x wb y : fits wa x = true -> fits wb y = true ->
  in_i128 x && in_i128 y = false -> wa <> U128 \/ wb <> U128 -> (x =? y) = false.
Proof.
  intros Ha Hb H1 H2. destruct H2 as [H2|H2].
  - pose proof (fits_small _ _ Ha H2) as Hx. rewrite Hx in H1. cbn [andb] in H1.
    destruct (x =? y) eqn:E; [|reflexivity]. assert (x = y) by lia. subst. congruence.
  - pose proof (fits_small _ _ Hb H2) as Hy. rewrite Hy in H1. rewrite andb_true_r in H1.
    destruct (x =? y) eqn:E; [|reflexivity]. assert (x = y) by lia. subst. congruence.
Qed.

Lemma model_eq_spec a b : num_ok a = true -> num_ok b = true -> model_eq a b = (num_val a =? num_val b).
Proof.
  intros Ha Hb. pose proof (coerce_spec a b Ha Hb) as Hc.
  destruct a as [wa x], b as [wb y]. cbn [num_val num_ok] in *.
  pose proof (eq_false_when_uncoercible wa x wb y Ha Hb) as Hne.
  unfold model_eq.
  destruct wa, wb; try reflexivity; rewrite Hc;
    (destruct (in_i128 x && in_i128 y); [reflexivity|symmetry; apply Hne; [reflexivity|]; (left; congruence) || (right; congruence)]).
Qed.

(* ---- operands as the harness builds them ---- *)
Definition is_lit (f : form) : bool := match f with FLit => true | _ => false end.
Definition expressible (f : form) (z : Z) : bool :=
  match f with FLit => true | _ => fits (form_width f) z end.

Lemma small_in_i128 z : small z = in_i128 z.
Proof. unfold small, in_i128, i128_min, i128_max. lia. Qed.

Lemma lit_spec n : 0 <= n -> n <= u128_max ->
  exists w, lit n = Ok (VInt w n) /\ fits w n = true.
Proof.
  intros H0 H1. unfold lit. destruct (n <=? u64_max) eqn:E1.
  - exists U64. split; [reflexivity|]. cbn [fits]. unfold in_u64. lia.
  - destruct (n <=? u128_max) eqn:E2; [|lia]. exists U128. split; [reflexivity|]. cbn [fits]. unfold in_u128. lia.
Qed.

Lemma denotable_iff z : denotable z = true <-> - 2 ^ 127 <= z < 2 ^ 128.
Proof. unfold denotable. lia. Qed.

Lemma syntax_ok_denotable f z : denotable z = true -> syntax_ok f z = true.
Proof. intros H. apply denotable_iff in H. destruct f; cbn [syntax_ok]; try reflexivity. unfold u128_max. lia. Qed.

Lemma operand_spec f z : denotable z = true -> expressible f z = true -> known_operand (is_lit f) z = false ->
  exists v, operand f z = Ok v /\ num_val v = z /\ num_ok v = true.
Proof.
  intros Hd He Hk. apply denotable_iff in Hd.
  destruct f; cbn [operand expressible is_lit form_width] in *;
    try (eexists; split; [reflexivity|split; [reflexivity|exact He]]).
  unfold known_operand in Hk. cbn [andb] in Hk.
  destruct (z <? 0) eqn:E.
  - destruct (lit_spec (- z)) as (w & Hl & Hf); [lia|unfold u128_max; lia|].
    rewrite Hl. cbn [bind].
    rewrite model_neg_spec; [|exact Hf|cbn [num_val]; lia]. cbn [num_val].
    assert (H1 : in_i128 (- z) = true) by (apply in_i128_iff; lia).
    assert (H2 : in_i128 (- - z) = true) by (apply in_i128_iff; lia).
    rewrite H1. cbn [answer]. rewrite H2. eexists. split; [reflexivity|].
    split; [rewrite int_as_value_val; lia|apply int_as_value_ok; exact H2].
  - destruct (lit_spec z) as (w & Hl & Hf); [lia|unfold u128_max; lia|].
    rewrite Hl. eexists. split; [reflexivity|]. split; [reflexivity|exact Hf].
Qed.

Section Case.
Variables (fa : form) (a : Z) (fb : form) (b : Z).
Hypothesis Hda : denotable a = true.
Hypothesis Hdb : denotable b = true.
Hypothesis Hea : expressible fa a = true.
Hypothesis Heb : expressible fb b = true.
Hypothesis Hka : known_operand (is_lit fa) a = false.
Hypothesis Hkb : known_operand (is_lit fb) b = false.

Lemma case_binop_by_value op :
  model_case (Bin op) fa a fb b =
    if in_i128 a && in_i128 b
    then match int_op true op a b with Some r => Ok (int_as_value r) | None => Err E_InvalidOperation end
    else Err E_InvalidOperation.
Proof.
  unfold model_case, case_with. rewrite !syntax_ok_denotable by assumption. cbn [andb negb].
  destruct (operand_spec fa a Hda Hea Hka) as (x & Hx & Hvx & Hox).
  destruct (operand_spec fb b Hdb Heb Hkb) as (y & Hy & Hvy & Hoy).
  rewrite Hx, Hy. cbn [bind]. rewrite model_binop_by_value by assumption. rewrite Hvx, Hvy. reflexivity.
Qed.

Lemma case_binop_spec op :
  model_case (Bin op) fa a fb b =
    if in_i128 a && in_i128 b then answer (exact op a b) else Err E_InvalidOperation.
Proof.
  rewrite case_binop_by_value.
  destruct (in_i128 a) eqn:E1; [|reflexivity]. destruct (in_i128 b) eqn:E2; [|reflexivity]. cbn [andb].
  rewrite int_op_spec by assumption.
  destruct (exact op a b) as [r|]; [|reflexivity].
  cbn [chk_opt answer]. unfold chk. destruct (in_i128 r); reflexivity.
Qed.

Lemma case_compare_spec : model_compare fa a fb b = Ok (exact_cmp a b).
Proof.
  unfold model_compare. rewrite !syntax_ok_denotable by assumption. cbn [andb negb].
  destruct (operand_spec fa a Hda Hea Hka) as (x & Hx & Hvx & Hox).
  destruct (operand_spec fb b Hdb Heb Hkb) as (y & Hy & Hvy & Hoy).
  rewrite Hx, Hy. cbn [bind]. rewrite model_cmp_spec, model_eq_spec by assumption. rewrite Hvx, Hvy.
  assert (L : match a ?= b with Lt => true | _ => false end = (a <? b)).
  { destruct (a ?= b) eqn:E; destruct (a <? b) eqn:E'; try reflexivity;
      rewrite ?Z.compare_eq_iff, ?Z.compare_lt_iff, ?Z.compare_gt_iff in E; lia. }
  assert (G : match a ?= b with Gt => true | _ => false end = (b <? a)).
  { destruct (a ?= b) eqn:E; destruct (b <? a) eqn:E'; try reflexivity;
      rewrite ?Z.compare_eq_iff, ?Z.compare_lt_iff, ?Z.compare_gt_iff in E; lia. }
  rewrite L, G. reflexivity.
Qed.

Lemma case_neg_spec : known_neg a = false ->
  model_case Neg fa a fb b = if in_i128 a then answer (Some (- a)) else Err E_InvalidOperation.
Proof.
  intros Hn. unfold model_case, case_with. rewrite syntax_ok_denotable by assumption. cbn [negb].
  destruct (operand_spec fa a Hda Hea Hka) as (x & Hx & Hvx & Hox).
  rewrite Hx. cbn [bind]. rewrite model_neg_spec; [|exact Hox|rewrite Hvx; unfold known_neg in Hn; lia].
  rewrite Hvx. reflexivity.
Qed.
End Case.

(* ---- literals: the checked digit loop against the number the digits denote ---- *)
Definition digits_value (radix : Z) (acc : Z) (ds : list Z) : Z := fold_left (fun acc d => acc * radix + d) ds acc.

Lemma digits_value_mono radix ds : 2 <= radix -> Forall (fun d => 0 <= d < radix) ds ->
  forall acc, 0 <= acc -> acc <= digits_value radix acc ds.
Proof.
  intros Hr. induction 1 as [|d ds Hd _ IH]; intros acc Ha; cbn [digits_value fold_left].
  - lia.
  - fold (digits_value radix (acc * radix + d) ds). specialize (IH (acc * radix + d) ltac:(nia)). nia.
Qed.

Lemma parse_uint_spec radix max ds : 2 <= radix -> Forall (fun d => 0 <= d < radix) ds ->
  forall acc, 0 <= acc <= max ->
  parse_uint radix max acc ds = if digits_value radix acc ds <=? max then Some (digits_value radix acc ds) else None.
Proof.
  intros Hr. induction 1 as [|d ds Hd Hds IH]; intros acc Ha; cbn [parse_uint digits_value fold_left].
  - destruct (acc <=? max) eqn:E; [reflexivity|lia].
  - fold (digits_value radix (acc * radix + d) ds).
    pose proof (digits_value_mono radix ds Hr Hds (acc * radix + d) ltac:(nia)) as Hm.
    destruct (max <? acc * radix) eqn:E1.
    + destruct (digits_value radix (acc * radix + d) ds <=? max) eqn:E2; [lia|reflexivity].
    + destruct (max <? acc * radix + d) eqn:E2.
      * destruct (digits_value radix (acc * radix + d) ds <=? max) eqn:E3; [lia|reflexivity].
      * apply IH. nia.
Qed.

Lemma lex_int_spec radix ds : 2 <= radix -> Forall (fun d => 0 <= d < radix) ds ->
  lex_int radix ds = lit (digits_value radix 0 ds).
Proof.
  intros Hr Hd. unfold lex_int, lit.
  rewrite !parse_uint_spec by (try assumption; unfold u64_max, u128_max; lia).
  destruct (digits_value radix 0 ds <=? u64_max) eqn:E1; [reflexivity|].
  destruct (digits_value radix 0 ds <=? u128_max) eqn:E2; reflexivity.
Qed.

(* ---- the oracle's capped power ---- *)
Lemma pow_capped_some a b r : 0 <= b -> pow_capped a b = Some r -> r = a ^ b.
Proof.
  intros Hb. unfold pow_capped. destruct (Z.abs a <=? 1) eqn:E1.
  - intros H. inversion H; subst; clear H.
    destruct (b =? 0) eqn:E2; [assert (b = 0) by lia; subst; reflexivity|].
    assert (Ha : a = -1 \/ a = 0 \/ a = 1) by lia.
    destruct (Z.even b) eqn:E3.
    + apply Z.even_spec in E3. destruct E3 as [k Hk]. subst b.
      rewrite Z.pow_mul_r by lia. rewrite Z.pow_2_r.
      destruct Ha as [-> | [-> | ->]]; cbn [Z.mul Pos.mul Z.opp]; [rewrite Z.pow_1_l by lia; reflexivity|rewrite Z.pow_0_l by lia; reflexivity|rewrite Z.pow_1_l by lia; reflexivity].
    + assert (Ho : Z.odd b = true) by (rewrite <- Z.negb_even, E3; reflexivity).
      apply Z.odd_spec in Ho. destruct Ho as [k Hk]. subst b.
      rewrite Z.pow_add_r, Z.pow_1_r, Z.pow_mul_r, Z.pow_2_r by lia.
      destruct Ha as [-> | [-> | ->]]; cbn [Z.mul Pos.mul Z.opp]; [rewrite Z.pow_1_l by lia; reflexivity|lia|rewrite Z.pow_1_l by lia; reflexivity].
  - destruct (256 <? b * Z.log2 (Z.abs a)); intros H; inversion H. reflexivity.
Qed.

Lemma pow_capped_none a b : 0 <= b -> pow_capped a b = None -> 2 ^ 256 < Z.abs (a ^ b).
Proof.
  intros Hb. unfold pow_capped. destruct (Z.abs a <=? 1) eqn:E1; [discriminate|].
  destruct (256 <? b * Z.log2 (Z.abs a)) eqn:E2; [|discriminate]. intros _.
  rewrite Z.abs_pow.
  pose proof (Z.log2_spec (Z.abs a) ltac:(lia)) as [Hl _].
  pose proof (Z.log2_nonneg (Z.abs a)) as Hn.
  remember (Z.log2 (Z.abs a)) as l.
  assert (H2 : 2 ^ 257 <= 2 ^ (l * b)) by (apply Z.pow_le_mono_r; lia).
  assert (H3 : (2 ^ l) ^ b <= Z.abs a ^ b) by (apply Z.pow_le_mono_l; lia).
  rewrite <- Z.pow_mul_r in H3 by lia.
  assert (H4 : 2 ^ 256 < 2 ^ 257) by (vm_compute; reflexivity).
  lia.
Qed.

(* ---- the statements of Props/C08.v ---- *)
(* the operand can be written: a number of [-2^127, 2^128) in a form able to hold it *)
Definition in_range (f : form) (z : Z) : Prop := denotable z = true /\ expressible f z = true.
(* the cases of the listed known finding neg-2p127 *)
Definition known_bin (fa : form) (a : Z) (fb : form) (b : Z) : bool := known false (is_lit fa) a (is_lit fb) b.
Definition known_un (fa : form) (a : Z) : bool := known true (is_lit fa) a false 0.
(* internal: range + the operand is not the literal -2^127 *)
Definition in_domain (f : form) (z : Z) : Prop :=
  denotable z = true /\ expressible f z = true /\ known_operand (is_lit f) z = false.

Lemma is_lit_true f : is_lit f = true <-> f = FLit.
Proof. destruct f; cbn; split; intros H; congruence. Qed.

(* [known] holds of exactly the listed inputs *)
Lemma known_characterised_proof unary fa a fb b :
  known unary (is_lit fa) a (is_lit fb) b = true <->
    (fa = FLit /\ a = - 2 ^ 127) \/ (unary = false /\ fb = FLit /\ b = - 2 ^ 127) \/ (unary = true /\ a = 2 ^ 127).
Proof.
  unfold known, known_operand, known_neg. rewrite <- !is_lit_true.
  destruct unary, (is_lit fa), (is_lit fb); cbn [andb orb negb]; split; intros H;
    repeat match goal with H : _ \/ _ |- _ => destruct H | H : _ /\ _ |- _ => destruct H end;
    try discriminate; try lia; try (left; split; [reflexivity|lia]);
    try (destruct (a =? - 2 ^ 127) eqn:E; [left; split; [reflexivity|lia]|]);
    try (right; left; repeat split; lia); try (right; right; split; [reflexivity|lia]).
Qed.

Lemma known_bin_false fa a fb b : known_bin fa a fb b = false ->
  known_operand (is_lit fa) a = false /\ known_operand (is_lit fb) b = false.
Proof.
  unfold known_bin, known. cbn [negb andb]. rewrite orb_false_r.
  destruct (known_operand (is_lit fa) a), (known_operand (is_lit fb) b); cbn; intros H; try discriminate; auto.
Qed.
Lemma known_un_false fa a : known_un fa a = false ->
  known_operand (is_lit fa) a = false /\ known_neg a = false.
Proof.
  unfold known_un, known. cbn [negb andb]. rewrite orb_false_r.
  destruct (known_operand (is_lit fa) a), (known_neg a); cbn; intros H; try discriminate; auto.
Qed.

Lemma exact_or_error_proof op fa a fb b :
  in_range fa a -> in_range fb b -> known_bin fa a fb b = false ->
  match model_case (Bin op) fa a fb b with
  | Ok v => exact op a b = Some (num_val v) /\ num_ok v = true
  | Err _ => ~ (small a = true /\ small b = true /\ exists r, exact op a b = Some r /\ small r = true)
  | Panic | OutOfGas => False
  end.
Proof.
  intros (Hda & Hea) (Hdb & Heb) Hk. apply known_bin_false in Hk as [Hka Hkb].
  rewrite case_binop_spec; try assumption.
  rewrite !small_in_i128.
  destruct (in_i128 a) eqn:E1; [|cbn [andb]; intros (H & _); discriminate].
  destruct (in_i128 b) eqn:E2; [|cbn [andb]; intros (_ & H & _); discriminate].
  cbn [andb]. destruct (exact op a b) as [r|]; cbn [answer].
  - destruct (in_i128 r) eqn:E3.
    + rewrite int_as_value_val. split; [reflexivity|apply int_as_value_ok; exact E3].
    + intros (_ & _ & r' & Hr & Hs). inversion Hr; subst. rewrite small_in_i128 in Hs. congruence.
  - intros (_ & _ & r' & Hr & _). discriminate.
Qed.

Lemma width_independent_proof op fa fa' a fb fb' b :
  in_range fa a -> in_range fa' a -> in_range fb b -> in_range fb' b ->
  known_bin fa a fb b = false -> known_bin fa' a fb' b = false ->
  model_case (Bin op) fa a fb b = model_case (Bin op) fa' a fb' b.
Proof.
  intros (Hda & Hea) (_ & Hea') (Hdb & Heb) (_ & Heb') Hk Hk'.
  apply known_bin_false in Hk as [Hka Hkb]. apply known_bin_false in Hk' as [Hka' Hkb'].
  rewrite !case_binop_by_value by assumption. reflexivity.
Qed.

Lemma neg_exact_proof fa a fb b : in_range fa a -> known_un fa a = false ->
  match model_case Neg fa a fb b with
  | Ok v => num_val v = exact_neg a /\ num_ok v = true
  | Err _ => ~ (small a = true /\ small (exact_neg a) = true)
  | Panic | OutOfGas => False
  end.
Proof.
  intros (Hda & Hea) Hk. apply known_un_false in Hk as [Hka Hn].
  rewrite case_neg_spec by assumption. unfold exact_neg.
  rewrite !small_in_i128.
  destruct (in_i128 a) eqn:E1; [|intros (H & _); discriminate]. cbn [answer].
  destruct (in_i128 (- a)) eqn:E2; [|intros (_ & H); discriminate].
  rewrite int_as_value_val. split; [reflexivity|apply int_as_value_ok; exact E2].
Qed.

(* holds for a = 2^127 as well: every form that can hold it shows the same (listed) behaviour *)
Lemma neg_width_independent_proof fa fa' a fb fb' b b' : in_range fa a -> in_range fa' a ->
  known_operand (is_lit fa) a = false -> known_operand (is_lit fa') a = false ->
  model_case Neg fa a fb b = model_case Neg fa' a fb' b'.
Proof.
  intros (Hda & Hea) (_ & Hea') Hka Hka'.
  destruct (known_neg a) eqn:Hn.
  - unfold known_neg in Hn. assert (a = 2 ^ 127) by lia. subst a.
    destruct fa; try (vm_compute in Hea; discriminate); destruct fa'; try (vm_compute in Hea'; discriminate);
      vm_compute; reflexivity.
  - rewrite !case_neg_spec by assumption. reflexivity.
Qed.

Lemma euclid_int_proof fa a fb b q r : in_range fa a -> in_range fb b -> known_bin fa a fb b = false ->
  model_case (Bin FloorDiv) fa a fb b = Ok q -> model_case (Bin Rem) fa a fb b = Ok r ->
  b <> 0 /\ num_val q * b + num_val r = a /\ 0 <= num_val r < Z.abs b.
Proof.
  intros Ha Hb Hk Hq Hr.
  pose proof (exact_or_error_proof FloorDiv fa a fb b Ha Hb Hk) as H1.
  pose proof (exact_or_error_proof Rem fa a fb b Ha Hb Hk) as H2.
  rewrite Hq in H1. rewrite Hr in H2. destruct H1 as [H1 _], H2 as [H2 _].
  cbn [exact] in H1, H2. destruct (b =? 0) eqn:E; [discriminate|].
  inversion H1. inversion H2. split; [lia|]. apply euclid_law. lia.
Qed.

Lemma rem_total_proof fa a fb b : in_range fa a -> in_range fb b -> known_bin fa a fb b = false ->
  small a = true -> small b = true -> b <> 0 ->
  exists v, model_case (Bin Rem) fa a fb b = Ok v /\ num_val v = emod a b.
Proof.
  intros (Hda & Hea) (Hdb & Heb) Hk Sa Sb Hb0. apply known_bin_false in Hk as [Hka Hkb].
  rewrite case_binop_spec; try assumption.
  rewrite small_in_i128 in Sa, Sb. rewrite Sa, Sb. cbn [andb exact].
  destruct (b =? 0) eqn:E; [lia|]. cbn [answer].
  assert (Hr : in_i128 (emod a b) = true).
  { apply in_i128_iff. apply in_i128_iff in Sb. destruct (euclid_law a b Hb0) as [_ H]. lia. }
  rewrite Hr. eexists. split; [reflexivity|apply int_as_value_val].
Qed.

Lemma int_cmp_exact_proof fa a fb b : in_range fa a -> in_range fb b -> known_bin fa a fb b = false ->
  model_compare fa a fb b = Ok (exact_cmp a b).
Proof.
  intros (Hda & Hea) (Hdb & Heb) Hk. apply known_bin_false in Hk as [Hka Hkb].
  apply case_compare_spec; assumption.
Qed.

(* ---- integer / float comparison is exact (pure integer reasoning about round-to-nearest-even) ---- *)

(* the doubles around an integer n >= 2^53 lie on the grid of spacing 2^k; nothing strictly inside a cell *)
Lemma grid_nonneg_exp m e q k : Z.abs m < 2 ^ 53 -> 0 <= e -> 1 <= k -> 2 ^ 52 <= q ->
  m * 2 ^ e <= q * 2 ^ k \/ (q + 1) * 2 ^ k <= m * 2 ^ e.
Proof.
  intros Hm He Hk Hq.
  destruct (Z_lt_le_dec e k) as [Hlt|Hge].
  - left. assert (H1 : 2 ^ e <= 2 ^ (k - 1)) by (apply Z.pow_le_mono_r; lia).
    assert (H2 : 2 ^ k = 2 * 2 ^ (k - 1)).
    { replace k with (1 + (k - 1)) at 1 by lia. rewrite Z.pow_add_r by lia. reflexivity. }
    assert (H3 : 0 < 2 ^ e) by (apply Z.pow_pos_nonneg; lia).
    assert (H4 : 0 < 2 ^ (k - 1)) by (apply Z.pow_pos_nonneg; lia).
    remember (2 ^ e) as A. remember (2 ^ (k - 1)) as B. rewrite H2.
    assert (m * A <= (2 ^ 53 - 1) * A) by nia.
    assert ((2 ^ 53 - 1) * A <= (2 ^ 53 - 1) * B) by nia.
    assert (2 ^ 53 * B <= q * (2 * B)) by nia. lia.
  - assert (H2 : 2 ^ e = 2 ^ (e - k) * 2 ^ k).
    { rewrite <- Z.pow_add_r by lia. f_equal. lia. }
    assert (H3 : 0 < 2 ^ k) by (apply Z.pow_pos_nonneg; lia).
    rewrite H2. remember (2 ^ k) as P. remember (m * 2 ^ (e - k)) as t.
    replace (m * (2 ^ (e - k) * P)) with (t * P) by (subst t; ring).
    destruct (Z_le_gt_dec t q); [left|right]; nia.
Qed.

Lemma grid_neg_exp m d q k : Z.abs m < 2 ^ 53 -> 2 <= d -> 1 <= k -> 2 ^ 52 <= q ->
  m <= q * 2 ^ k * d.
Proof.
  intros Hm Hd Hk Hq.
  assert (H3 : 2 <= 2 ^ k).
  { replace 2 with (2 ^ 1) at 1 by reflexivity. apply Z.pow_le_mono_r; lia. }
  remember (2 ^ k) as P. assert (2 ^ 52 * 2 * 2 <= q * P * d) by nia. lia.
Qed.

Lemma rne_nat_small n : n < 2 ^ 53 -> rne_nat n = n.
Proof. intros H. unfold rne_nat. destruct (n <? 2 ^ 53) eqn:E; [reflexivity|lia]. Qed.

Lemma rne_nat_cases n : 2 ^ 53 <= n ->
  exists q k r, 1 <= k /\ 2 ^ 52 <= q /\ n = q * 2 ^ k + r /\ 0 <= r < 2 ^ k /\
    (rne_nat n = q * 2 ^ k \/ (rne_nat n = (q + 1) * 2 ^ k /\ 0 < r)).
Proof.
  intros Hn. unfold rne_nat. destruct (n <? 2 ^ 53) eqn:E; [lia|]. clear E.
  assert (Hl : 53 <= Z.log2 n).
  { replace 53 with (Z.log2 (2 ^ 53)) by (apply Z.log2_pow2; lia). apply Z.log2_le_mono. exact Hn. }
  assert (Hn0 : 0 < n) by (assert (0 < 2 ^ 53) by (apply Z.pow_pos_nonneg; lia); lia).
  destruct (Z.log2_spec n Hn0) as [Hlo _].
  set (k := Z.log2 n - 52) in *.
  assert (Hk : 1 <= k) by (unfold k; lia).
  assert (HP : 0 < 2 ^ k) by (apply Z.pow_pos_nonneg; lia).
  exists (n / 2 ^ k), k, (n mod 2 ^ k).
  split; [exact Hk|]. split.
  { apply Z.div_le_lower_bound; [exact HP|]. rewrite <- Z.pow_add_r by lia. replace (k + 52) with (Z.log2 n) by (unfold k; lia). exact Hlo. }
  split. { rewrite Z.mul_comm. apply Z.div_mod. lia. }
  split. { apply Z.mod_pos_bound. exact HP. }
  assert (Hh : 0 < 2 ^ (k - 1)) by (apply Z.pow_pos_nonneg; lia).
  destruct ((2 ^ (k - 1) <? n mod 2 ^ k) || ((n mod 2 ^ k =? 2 ^ (k - 1)) && Z.odd (n / 2 ^ k))) eqn:E.
  - right. split; [reflexivity|]. lia.
  - left. reflexivity.
Qed.

Ltac cmp_solve :=
  repeat match goal with
         | |- context [?a ?= ?b] => destruct (Z.compare_spec a b)
         | H : context [?a ?= ?b] |- _ => destruct (Z.compare_spec a b)
         end; try reflexivity; try congruence; try lia.

Lemma cmp_fin_rne_nat m e n : Z.abs m < 2 ^ 53 -> 0 <= n ->
  cmp_fin m e (rne_nat n) <> Eq -> cmp_fin m e (rne_nat n) = cmp_fin m e n.
Proof.
  intros Hm Hn.
  destruct (Z_lt_le_dec n (2 ^ 53)) as [Hs|Hb]; [rewrite rne_nat_small by exact Hs; reflexivity|].
  destruct (rne_nat_cases n Hb) as (q & k & r & Hk & Hq & Hnq & Hr & HR).
  unfold cmp_fin. destruct (0 <=? e) eqn:Ee.
  - pose proof (grid_nonneg_exp m e q k Hm ltac:(lia) Hk Hq) as Hg.
    remember (m * 2 ^ e) as V. remember (2 ^ k) as P.
    destruct HR as [-> | [-> Hr0]]; subst n; intros Hne.
    + remember (q * P) as L. remember ((q + 1) * P) as U. assert (U = L + P) by (subst; ring). cmp_solve.
    + remember (q * P) as L. remember ((q + 1) * P) as U. assert (U = L + P) by (subst; ring). cmp_solve.
  - assert (Hd : 2 <= 2 ^ (- e)).
    { replace 2 with (2 ^ 1) at 1 by reflexivity. apply Z.pow_le_mono_r; lia. }
    pose proof (grid_neg_exp m (2 ^ (- e)) q k Hm Hd Hk Hq) as Hg.
    remember (2 ^ (- e)) as d. remember (2 ^ k) as P.
    destruct HR as [-> | [-> Hr0]]; subst n; intros Hne.
    + assert (q * P * d <= (q * P + r) * d) by nia.
      remember (q * P * d) as L. remember ((q * P + r) * d) as N. cmp_solve.
    + assert (q * P * d < (q * P + r) * d) by nia. assert (q * P * d < (q + 1) * P * d) by nia.
      remember (q * P * d) as L. remember ((q * P + r) * d) as N. remember ((q + 1) * P * d) as U. cmp_solve.
Qed.

Lemma cmp_fin_opp m e n : cmp_fin m e n = CompOpp (cmp_fin (- m) e (- n)).
Proof.
  unfold cmp_fin. destruct (0 <=? e).
  - replace (- m * 2 ^ e) with (- (m * 2 ^ e)) by ring. rewrite Z.compare_opp. rewrite <- Z.compare_antisym. reflexivity.
  - replace (- n * 2 ^ (- e)) with (- (n * 2 ^ (- e))) by ring. rewrite Z.compare_opp. rewrite <- Z.compare_antisym. reflexivity.
Qed.

Lemma cmp_fin_rne_int m e z : Z.abs m < 2 ^ 53 ->
  cmp_fin m e (rne_int z) <> Eq -> cmp_fin m e (rne_int z) = cmp_fin m e z.
Proof.
  intros Hm. unfold rne_int. destruct (z <? 0) eqn:E.
  - rewrite (cmp_fin_opp m e (- rne_nat (- z))), (cmp_fin_opp m e z). rewrite Z.opp_involutive.
    intros Hne. f_equal. apply cmp_fin_rne_nat; try lia.
    intros Heq. apply Hne. rewrite Heq. reflexivity.
  - apply cmp_fin_rne_nat; lia.
Qed.

(* if the float equals the integer R, comparing it with any integer is comparing R *)
Lemma cmp_fin_eq m e R n : cmp_fin m e R = Eq -> cmp_fin m e n = (R ?= n).
Proof.
  unfold cmp_fin. destruct (0 <=? e) eqn:Ee.
  - intros H. apply Z.compare_eq in H. rewrite H. reflexivity.
  - intros H. apply Z.compare_eq in H. rewrite H.
    assert (0 < 2 ^ (- e)) by (apply Z.pow_pos_nonneg; lia).
    symmetry. apply Zmult_compare_compat_r. lia.
Qed.

Lemma rne_nat_repr m e n : Z.abs m < 2 ^ 53 -> 0 <= n -> cmp_fin m e n = Eq -> rne_nat n = n.
Proof.
  intros Hm Hn Hc.
  destruct (Z_lt_le_dec n (2 ^ 53)) as [Hs|Hb]; [apply rne_nat_small; exact Hs|].
  destruct (rne_nat_cases n Hb) as (q & k & r & Hk & Hq & Hnq & Hr & HR).
  assert (r = 0).
  { unfold cmp_fin in Hc. destruct (0 <=? e) eqn:Ee.
    - apply Z.compare_eq in Hc.
      pose proof (grid_nonneg_exp m e q k Hm ltac:(lia) Hk Hq) as Hg.
      remember (2 ^ k) as P. rewrite Hc in Hg. nia.
    - apply Z.compare_eq in Hc.
      assert (Hd : 2 <= 2 ^ (- e)).
      { replace 2 with (2 ^ 1) at 1 by reflexivity. apply Z.pow_le_mono_r; lia. }
      remember (2 ^ (- e)) as d. assert (2 ^ 53 * 2 <= n * d) by nia. lia. }
  subst r. destruct HR as [HR | [_ HR]]; [|lia]. rewrite HR. lia.
Qed.

Lemma rne_int_repr m e z : Z.abs m < 2 ^ 53 -> cmp_fin m e z = Eq -> rne_int z = z.
Proof.
  intros Hm Hc. unfold rne_int. destruct (z <? 0) eqn:E.
  - rewrite (rne_nat_repr (- m) e (- z)); try lia.
    rewrite cmp_fin_opp in Hc. destruct (cmp_fin (- m) e (- z)); cbn in Hc; congruence.
  - apply (rne_nat_repr m e z); try lia. exact Hc.
Qed.

Lemma ty_range w z : fits w z = true -> ty_min w <= z <= ty_max w.
Proof.
  destruct w; cbn [fits ty_min ty_max]; unfold in_u64, in_i64, in_u128, in_i128; lia.
Qed.

Lemma as_f64_exact_some w z R : fits w z = true -> as_f64_exact (VInt w z) = Some R -> R = z.
Proof.
  intros Hf. pose proof (ty_range w z Hf) as Hr. unfold as_f64_exact.
  destruct ((rne_int z <? ty_max w + 1) && (Z.max (ty_min w) (Z.min (ty_max w) (rne_int z)) =? z)) eqn:E; [|discriminate].
  intros H. inversion H; subst R; clear H.
  destruct (Z_le_gt_dec (ty_min w) (rne_int z)) as [Hge|Hlt]; [lia|].
  assert (Hz : z = ty_min w) by lia.
  exfalso. rewrite Hz in Hlt. destruct w; vm_compute in Hlt; discriminate.
Qed.

Lemma as_f64_exact_repr w z m e : fits w z = true -> Z.abs m < 2 ^ 53 -> cmp_fin m e z = Eq ->
  as_f64_exact (VInt w z) = Some z.
Proof.
  intros Hf Hm Hc. pose proof (ty_range w z Hf) as Hr. unfold as_f64_exact.
  rewrite (rne_int_repr m e z Hm Hc).
  destruct ((z <? ty_max w + 1) && (Z.max (ty_min w) (Z.min (ty_max w) z) =? z)) eqn:E; [reflexivity|lia].
Qed.

Lemma cmp_float_int_exact w z m e : fits w z = true -> Z.abs m < 2 ^ 53 ->
  cmp_float_int as_f64_exact (FFin m e) (VInt w z) = Some (cmp_fin m e z).
Proof.
  intros Hf Hm. pose proof (ty_range w z Hf) as Hr. unfold cmp_float_int.
  destruct (as_f64_exact (VInt w z)) as [R|] eqn:Ex.
  - rewrite (as_f64_exact_some w z R Hf Ex). reflexivity.
  - destruct (cmp_fin m e (rne_int z)) eqn:Ec.
    + rewrite (cmp_fin_eq m e _ z Ec).
      destruct w; cbn [ty_min ty_max] in Hr; unfold i64_min, i64_max, i128_min, i128_max, u64_max, u128_max in Hr.
      * destruct (rne_int z <? 0) eqn:E1; [f_equal; symmetry; apply Z.compare_lt_iff; lia|].
        destruct (2 ^ 128 <=? rne_int z) eqn:E2; [f_equal; symmetry; apply Z.compare_gt_iff; lia|reflexivity].
      * destruct (2 ^ 127 <=? rne_int z) eqn:E2; [f_equal; symmetry; apply Z.compare_gt_iff; lia|reflexivity].
      * destruct (rne_int z <? 0) eqn:E1; [f_equal; symmetry; apply Z.compare_lt_iff; lia|].
        destruct (2 ^ 128 <=? rne_int z) eqn:E2; [f_equal; symmetry; apply Z.compare_gt_iff; lia|reflexivity].
      * destruct (2 ^ 127 <=? rne_int z) eqn:E2; [f_equal; symmetry; apply Z.compare_gt_iff; lia|reflexivity].
    + rewrite <- Ec. f_equal. apply cmp_fin_rne_int; [exact Hm|rewrite Ec; discriminate].
    + rewrite <- Ec. f_equal. apply cmp_fin_rne_int; [exact Hm|rewrite Ec; discriminate].
Qed.

Lemma eq_float_int_exact w z m e : fits w z = true -> Z.abs m < 2 ^ 53 ->
  eq_float_int as_f64_exact (FFin m e) (VInt w z) = Some (match cmp_fin m e z with Eq => true | _ => false end).
Proof.
  intros Hf Hm. unfold eq_float_int.
  destruct (as_f64_exact (VInt w z)) as [R|] eqn:Ex.
  - rewrite (as_f64_exact_some w z R Hf Ex). reflexivity.
  - destruct (cmp_fin m e z) eqn:Ec; try reflexivity.
    rewrite (as_f64_exact_repr w z m e Hf Hm Ec) in Ex. discriminate.
Qed.

Definition fin_m (f : f64) : Z := match f with FFin a _ => a | _ => 0 end.
Lemma decode_mantissa bits m e : decode bits = FFin m e -> Z.abs m < 2 ^ 53.
Proof.
  unfold decode.
  assert (H : 0 <= bits mod 2 ^ 52 < 2 ^ 52) by (apply Z.mod_pos_bound; reflexivity).
  generalize dependent (bits mod 2 ^ 52). intros mm H.
  generalize ((bits / 2 ^ 52) mod 2 ^ 11). intros ee.
  generalize (bits / 2 ^ 63). intros ss.
  cbv zeta.
  destruct (ee =? 2047); [destruct (mm =? 0); discriminate|].
  intros Hd. apply (f_equal fin_m) in Hd. unfold fin_m in Hd. subst m.
  destruct (ss =? 1); destruct (ee =? 0); lia.
Qed.

Lemma exact_cmp_rat_cmp_fin m e n :
  exact_cmp_rat m e n =
    (match cmp_fin m e n with Lt => true | _ => false end,
     match cmp_fin m e n with Eq => true | _ => false end,
     match cmp_fin m e n with Gt => true | _ => false end).
Proof.
  unfold exact_cmp_rat, cmp_fin, exact_cmp. destruct (0 <=? e).
  - destruct (Z.compare_spec (m * 2 ^ e) n); repeat f_equal; lia.
  - destruct (Z.compare_spec m (n * 2 ^ (- e))); repeat f_equal; lia.
Qed.

Definition swap_cmp (swap : bool) (t : bool * bool * bool) : bool * bool * bool :=
  let '(l, q, g) := t in if swap then (g, q, l) else (l, q, g).

Lemma int_float_cmp_exact_proof swap bits fi z m e :
  in_range fi z -> known_operand (is_lit fi) z = false -> decode bits = FFin m e ->
  model_compare_float as_f64_exact swap bits fi z = Some (Ok (swap_cmp swap (exact_cmp_rat m e z))).
Proof.
  intros (Hd & He) Hk Hdec. pose proof (decode_mantissa bits m e Hdec) as Hm.
  unfold model_compare_float. rewrite syntax_ok_denotable by assumption. cbn [negb].
  destruct (operand_spec fi z Hd He Hk) as (v & Hv & Hval & Hok). rewrite Hv, Hdec.
  destruct v as [w z']. cbn [num_val num_ok] in *. subst z'.
  rewrite cmp_float_int_exact, eq_float_int_exact by assumption.
  rewrite exact_cmp_rat_cmp_fin. unfold swap_cmp.
  destruct swap; destruct (cmp_fin m e z); reflexivity.
Qed.

(* ---- integer literals from their source text ---- *)
Definition valid_char (radix c : Z) : Prop :=
  c = 95 \/ (is_dec c = true /\ digit_val c < radix) \/ (radix = 16 /\ is_hexletter c = true).
Definition radix_prefix (radix : Z) (p : list Z) : Prop :=
  (radix = 10 /\ p = []) \/
  (radix = 2 /\ (p = [48; 98] \/ p = [48; 66])) \/
  (radix = 8 /\ (p = [48; 111] \/ p = [48; 79])) \/
  (radix = 16 /\ (p = [48; 120] \/ p = [48; 88])).
Definition strip_ (cs : list Z) : list Z := filter (fun c => negb (c =? 95)) cs.

Lemma valid_char_digit radix c : 2 <= radix <= 16 -> valid_char radix c -> c <> 95 -> 0 <= digit_val c < radix.
Proof.
  intros Hr [H|[[H1 H2]|[H1 H2]]] Hc; [congruence| |].
  - unfold digit_val, is_dec in *. rewrite H1 in *. unfold is_dec in H1. lia.
  - subst radix. unfold digit_val, is_hexletter, is_dec in *.
    destruct ((48 <=? c) && (c <=? 57)) eqn:E1; [lia|]. destruct (97 <=? c) eqn:E2; lia.
Qed.

Lemma valid_char_not_special radix c : valid_char radix c ->
  (radix =? 10) && ((c =? 46) || (c =? 69) || (c =? 101)) = false /\
  is_dec c || ((radix =? 16) && is_hexletter c) || (c =? 95) = true.
Proof.
  intros [H|[[H1 H2]|[H1 H2]]].
  - subst c. split; [destruct (radix =? 10); reflexivity|]. rewrite orb_true_r. reflexivity.
  - split; [unfold is_dec in H1; destruct (radix =? 10); cbn; lia|]. rewrite H1. reflexivity.
  - subst radix. split; [reflexivity|]. rewrite H2. cbn. rewrite orb_true_r. reflexivity.
Qed.

Lemma scan_number_valid radix body : Forall (valid_char radix) body -> scan_number radix body = Some (body, []).
Proof.
  induction 1 as [|c r Hc _ IH]; [reflexivity|]. cbn [scan_number].
  destruct (valid_char_not_special radix c Hc) as [H1 H2]. rewrite H1, H2, IH. reflexivity.
Qed.

Lemma strip_no_underscore cs : existsb (Z.eqb 95) cs = false -> strip_ cs = cs.
Proof.
  induction cs as [|c r IH]; [reflexivity|]. cbn [existsb strip_ filter]. intros H.
  apply orb_false_elim in H as [H1 H2]. replace (c =? 95) with false by lia. cbn [negb].
  fold (strip_ r). rewrite IH by exact H2. reflexivity.
Qed.

Lemma split_radix_dec body : Forall (valid_char 10) body -> split_radix body = (10, body).
Proof.
  intros Hb. destruct body as [|c0 [|c1 r]]; try reflexivity.
  inversion Hb as [|? ? _ Hr]; subst. inversion Hr as [|? ? Hc1 _]; subst.
  assert (Hn : c1 = 95 \/ (48 <= c1 <= 57)).
  { destruct Hc1 as [H|[[H1 _]|[H1 _]]]; [left; exact H|right; unfold is_dec in H1; lia|discriminate]. }
  unfold split_radix.
  replace ((c1 =? 98) || (c1 =? 66)) with false by lia.
  replace ((c1 =? 111) || (c1 =? 79)) with false by lia.
  replace ((c1 =? 120) || (c1 =? 88)) with false by lia.
  destruct (negb (c0 =? 48)); reflexivity.
Qed.

Lemma split_radix_prefix radix p body : radix_prefix radix p -> Forall (valid_char radix) body ->
  split_radix (p ++ body) = (radix, body).
Proof.
  intros Hp Hb. destruct Hp as [[-> ->]|[[-> [-> | ->]]|[[-> [-> | ->]]|[-> [-> | ->]]]]]; try reflexivity.
  apply split_radix_dec. exact Hb.
Qed.

Lemma lex_number_text_value radix p body :
  radix_prefix radix p -> Forall (valid_char radix) body -> last body 0 <> 95 -> strip_ body <> [] ->
  lex_number_text (p ++ body) = Some (lit (digits_value radix 0 (map digit_val (strip_ body)))).
Proof.
  intros Hp Hb Hl Hne.
  assert (Hr : 2 <= radix <= 16) by (destruct Hp as [[-> _]|[[-> _]|[[-> _]|[-> _]]]]; lia).
  unfold lex_number_text. rewrite (split_radix_prefix radix p body Hp Hb), (scan_number_valid radix body Hb).
  assert (Hd : lex_digits radix (strip_ body) = lit (digits_value radix 0 (map digit_val (strip_ body)))).
  { assert (Hv : Forall (fun c => 0 <= digit_val c < radix) (strip_ body)).
    { unfold strip_. apply Forall_forall. intros c Hc. apply filter_In in Hc as [Hin Hc].
      rewrite Forall_forall in Hb. apply valid_char_digit; [exact Hr|apply Hb; exact Hin|lia]. }
    unfold lex_digits. destruct (strip_ body) as [|c0 r0] eqn:E; [congruence|].
    replace (forallb (fun c => digit_val c <? radix) (c0 :: r0)) with true.
    - apply lex_int_spec; [lia|]. rewrite Forall_forall in *. intros d Hin. apply in_map_iff in Hin as (c & <- & Hc). apply Hv. exact Hc.
    - symmetry. apply forallb_forall. intros c Hc. rewrite Forall_forall in Hv. specialize (Hv c Hc). lia. }
  destruct (existsb (Z.eqb 95) body) eqn:E.
  - destruct (last body 0 =? 95) eqn:E2; [lia|]. fold (strip_ body). rewrite Hd. reflexivity.
  - rewrite <- (strip_no_underscore body E) at 1. rewrite Hd. reflexivity.
Qed.
