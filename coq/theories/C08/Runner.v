(* Executable entry points of the C08 model and oracle, in the integer-list protocol shared
   with harness/src/bin/c08.rs.  Encoders/decoders here are unverified glue.
   case:  op fa a fb b     op: 0 + | 1 - | 2 * | 3 // | 4 % | 5 ** | 6 unary minus | 7 comparison
                           form: 0 literal | 1 i64 | 2 u64 | 3 i128 | 4 u128 | 5,6 float
                           100*route + type: the integer supplied by another route (From at a narrow
                           width, the serde serializer, a struct field, ...).  The model has no routes:
                           by width_independent the outcome depends on the number only, so a routed
                           operand is the same number in the value form of its type class. *)
From Coq Require Import String.
From MJ Require Import Common.Base.
From MJ Require Import C08.Model C08.Spec C08.FloatModel.

(* type 0 i8 1 i16 2 i32 3 i64 4 i128 5 isize 6 u8 7 u16 8 u32 9 u64 10 u128 11 usize -> (value form, min, max) *)
Definition route_type (t : Z) : option (Z * Z * Z) :=
  match t with
  | 0 => Some (1, - 2 ^ 7, 2 ^ 7 - 1) | 1 => Some (1, - 2 ^ 15, 2 ^ 15 - 1) | 2 => Some (1, - 2 ^ 31, 2 ^ 31 - 1)
  | 3 | 5 => Some (1, - 2 ^ 63, 2 ^ 63 - 1) | 4 => Some (3, - 2 ^ 127, 2 ^ 127 - 1)
  | 6 => Some (2, 0, 2 ^ 8 - 1) | 7 => Some (2, 0, 2 ^ 16 - 1) | 8 => Some (2, 0, 2 ^ 32 - 1)
  | 9 | 11 => Some (2, 0, 2 ^ 64 - 1) | 10 => Some (4, 0, 2 ^ 128 - 1)
  | _ => None
  end.
(* None: the harness cannot build this operand *)
Definition norm_form (f v : Z) : option Z :=
  if f <? 100 then Some f
  else if 800 <=? f then None
  else match route_type (f mod 100) with
       | Some (base, lo, hi) => if (lo <=? v) && (v <=? hi) then Some base else None
       | None => None
       end.
Definition norm_case (inp : list Z) : option (list Z) :=
  match inp with
  | o :: fa :: a :: fb :: b :: rest =>
      match norm_form fa a, (if o =? 6 then Some fb else norm_form fb b) with
      | Some fa', Some fb' => Some (o :: fa' :: a :: fb' :: b :: rest)
      | _, _ => None
      end
  | _ => None
  end.

Definition form_of (z : Z) : option form :=
  match z with 0 => Some FLit | 1 => Some FI64 | 2 => Some FU64 | 3 => Some FI128 | 4 => Some FU128 | _ => None end.
Definition binop_of (z : Z) : option binop :=
  match z with 0 => Some Add | 1 => Some Sub | 2 => Some Mul | 3 => Some FloorDiv | 4 => Some Rem | 5 => Some Pow | _ => None end.
(* can the harness build this operand at all? *)
Definition expressible (f : form) (z : Z) : bool :=
  match f with FLit => true | _ => fits (form_width f) z end.

Definition enc_num (o : outcome num) : list Z :=
  match o with
  | Ok v => [0; num_val v]
  | Err c => [1; c]
  | Panic => [2]
  | OutOfGas => [8]
  end.
Definition b2z (b : bool) : Z := if b then 1 else 0.
Definition enc_cmp (o : outcome (bool * bool * bool)) : list Z :=
  match o with
  | Ok (l, e, g) => [5; b2z l; b2z e; b2z g]
  | Err c => [5; 100 + c; 100 + c; 100 + c]
  | Panic => [2]
  | OutOfGas => [8]
  end.

(* float // and %: an operand is a float (by bit pattern) or an integer in any form, converted with `as f64` *)
Definition float_operand (f v : Z) : option (outcome b64) :=
  if (f =? 5) || (f =? 6) then Some (Ok (of_bits v))
  else match form_of f with
       | Some fi => if expressible fi v then
                      Some (if negb (syntax_ok fi v) then Err E_SyntaxError
                            else bind (operand fi v) (fun x => Ok (of_int (num_val x))))
                    else None
       | None => None
       end.
Definition is_syntax_err {A} (o : outcome A) : bool := match o with Err c => c =? E_SyntaxError | _ => false end.
Definition run_float (o fa a fb b : Z) : list Z :=
  match float_operand fa a, float_operand fb b with
  | Some x, Some y =>
      if is_syntax_err x || is_syntax_err y then [1; E_SyntaxError] else
      match bind x (fun x => bind y (fun y => Ok (if o =? 3 then Bdiv_euclid x y else Brem_euclid x y))) with
      | Ok r => [4; to_bits r]
      | Err c => [1; c]
      | Panic => [2]
      | OutOfGas => [8]
      end
  | _, _ => [9]
  end.
Definition is_float_form (f : Z) : bool := (f =? 5) || (f =? 6).

Definition run_with (bin : binop -> num -> num -> outcome num) (exactf : num -> option Z) (inp : list Z) : list Z :=
  match inp with
  | o :: fa :: a :: fb :: b :: _ =>
      if ((o =? 3) || (o =? 4)) && (is_float_form fa || is_float_form fb) then run_float o fa a fb b else
      match form_of fa, (if o =? 6 then Some FLit else form_of fb) with
      | Some fa, Some fb =>
          if negb (expressible fa a && ((o =? 6) || expressible fb b)) then [9]
          else if o =? 6 then enc_num (case_with bin Neg fa a fb b)
          else if o =? 7 then enc_cmp (model_compare fa a fb b)
          else match binop_of o with
               | Some bo => enc_num (case_with bin (Bin bo) fa a fb b)
               | None => [9]
               end
      | Some fi, None =>      (* integer OP float: only the comparison is modelled *)
          if (o =? 7) && ((fb =? 5) || (fb =? 6)) && expressible fi a then
            match model_compare_float exactf true b fi a with Some r => enc_cmp r | None => [7] end
          else [7]
      | None, Some fi =>
          if (o =? 7) && ((fa =? 5) || (fa =? 6)) && expressible fi b then
            match model_compare_float exactf false a fi b with Some r => enc_cmp r | None => [7] end
          else [7]
      | _, _ => [7]
      end
  | _ => [9]
  end.
(* literal family: `20 op pos fb b n c1..cn` - one operand is an integer literal given by its source text.
   The literal is lexed by [lex_number_text]; from there on it is the literal operand of its value
   (Props literal_text_value: a well-formed text denotes exactly the number its digits spell). *)
Definition run_literal (run0 : list Z -> list Z) (inp : list Z) : list Z :=
  match inp with
  | o :: pos :: fb :: b :: n :: cs =>
      if negb (n =? lenZ cs) then [9] else
      match lex_number_text cs with
      | None => [7]
      | Some (Err c) => if o =? 7 then [5; 100 + c; 100 + c; 100 + c] else [1; c]
      | Some (Ok v) =>
          let z := num_val v in
          if o =? 8 then [0; z]
          else if o =? 6 then run0 [6; 0; z; 0; 0]
          else if pos =? 0 then run0 [o; 0; z; fb; b] else run0 [o; fb; b; 0; z]
      | Some _ => [9]
      end
  | _ => [9]
  end.
(* the code as it is now, and as it was before the fix: commits (kept to show what they repaired) *)
Definition run0 (inp : list Z) : list Z := match norm_case inp with Some i => run_with model_binop as_f64_exact i | None => [9] end.
Definition run (inp : list Z) : list Z := match inp with 20 :: rest => run_literal run0 rest | _ => run0 inp end.
Definition run_before_fix0 (inp : list Z) : list Z := match norm_case inp with Some i => run_with model_binop_before_fix as_f64_exact_before_fix i | None => [9] end.
Definition run_before_fix (inp : list Z) : list Z := match inp with 20 :: rest => run_literal run_before_fix0 rest | _ => run_before_fix0 inp end.

(* ---- the oracle: is [out] an acceptable answer for the case? ----
   [1] yes | [0; reason] no (2 crash, 4 wrong integer, 5 error where the exact result is due,
   6 answer of another kind) | [3; id] the case is one of the listed known findings
   (1: unary minus of 2^127) | [7] not judged here *)
Definition got_of (out : list Z) : option (option Z) :=
  match out with
  | [0; r] => Some (Some r)
  | [1; _] => Some None
  | _ => None
  end.
Definition verdict (operands_small : bool) (want : option Z) (out : list Z) : list Z :=
  match got_of out with
  | None => match out with [2] => [0; 2] | _ => [0; 6] end
  | Some got =>
      if acceptable operands_small want got then [1]
      else match got with Some _ => [0; 4] | None => [0; 5] end
  end.
Definition is_lit (f : form) : bool := match f with FLit => true | _ => false end.
Definition known_case (o : Z) (fa : form) (a : Z) (fb : form) (b : Z) : Z :=
  if known (o =? 6) (is_lit fa) a (is_lit fb) b then 1 else 0.
(* integer/float comparison: exact comparison of the integer with the rational the float denotes *)
Definition judge_float_cmp (use_known : bool) (o : Z) (fi : form) (z : Z) (ff bits : Z) (int_first : bool) (out : list Z) : list Z :=
  if negb ((o =? 7) && ((ff =? 5) || (ff =? 6)) && expressible fi z && denotable z) then [7]
  else if use_known && known_operand (is_lit fi) z then [3; 1]
  else match decode bits with
       | FFin m e =>
           let '(l, q, g) := exact_cmp_rat m e z in        (* float < int, =, > *)
           let '(l, g) := if int_first then (g, l) else (l, g) in
           match out with
           | [5; l'; e'; g'] => if (l' =? b2z l) && (e' =? b2z q) && (g' =? b2z g) then [1] else [0; 4]
           | [2] => [0; 2]
           | _ => [0; 6]
           end
       | _ => [7]
       end.
Definition judge_with (use_known : bool) (inp : list Z) : list Z :=
  match inp with
  | o :: fa :: a :: fb :: b :: out =>
      match form_of fa, (if o =? 6 then Some FLit else form_of fb) with
      | Some fa, Some fb =>
          if negb (expressible fa a && denotable a && ((o =? 6) || (expressible fb b && denotable b))) then [9]
          else if use_known && negb (known_case o fa a fb b =? 0) then [3; known_case o fa a fb b]
          else if o =? 6 then verdict (small a) (Some (exact_neg a)) out
          else if o =? 7 then
            let '(l, e, g) := exact_cmp a b in
            match out with
            | [5; l'; e'; g'] => if (l' =? b2z l) && (e' =? b2z e) && (g' =? b2z g) then [1] else [0; 4]
            | [2] => [0; 2]
            | _ => [0; 6]
            end
          else match binop_of o with
               | Some Pow =>
                   if b <? 0 then verdict (small a && small b) None out
                   else match pow_capped a b with
                        | Some v => verdict (small a && small b) (Some v) out
                        | None => (* result beyond 2^256: only an error is acceptable *)
                            match got_of out with
                            | Some None => [1]
                            | Some (Some _) => [0; 4]
                            | None => match out with [2] => [0; 2] | _ => [0; 6] end
                            end
                        end
               | Some bo => verdict (small a && small b) (exact bo a b) out
               | None => [9]
               end
      | Some fi, None => judge_float_cmp use_known o fi a fb b true out
      | None, Some fi => judge_float_cmp use_known o fi b fa a false out
      | _, _ => [7]
      end
  | _ => [9]
  end.

Definition judge (inp : list Z) : list Z := match norm_case inp with Some i => judge_with true i | None => [9] end.
(* the same without the exclusions: says what is wrong inside a known-finding class *)
Definition judge_raw (inp : list Z) : list Z := match norm_case inp with Some i => judge_with false i | None => [9] end.

Open Scope string_scope.
Definition runners : list (string * (list Z -> list Z)) :=
  [ ("c08", run); ("c08-before-fix", run_before_fix); ("c08-judge", judge); ("c08-judge-raw", judge_raw) ].
