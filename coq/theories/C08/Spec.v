(* C08 specification: arithmetic on the unbounded integers, written from the property text and
   the documentation ("divisions in MiniJinja are ... using euclidean division", syntax.rs;
   "euclidean division to match the rem implementation", instructions.rs::IntDiv).
   No proofs in this file. *)
From MJ Require Import Common.Base.
From MJ Require Export C08.Ops.

(* Euclidean division: the unique q, r with a = q * b + r and 0 <= r < |b| *)
Definition emod (a b : Z) : Z := a mod Z.abs b.
Definition ediv (a b : Z) : Z := Z.sgn b * (a / Z.abs b).

(* the mathematically exact result; None where there is no integer result at all
   (zero divisor, negative exponent) *)
Definition exact (o : binop) (a b : Z) : option Z :=
  match o with
  | Add => Some (a + b)
  | Sub => Some (a - b)
  | Mul => Some (a * b)
  | FloorDiv => if b =? 0 then None else Some (ediv a b)
  | Rem => if b =? 0 then None else Some (emod a b)
  | Pow => if b <? 0 then None else Some (a ^ b)
  end.
Definition exact_neg (a : Z) : Z := - a.

(* 128-bit signed range of the property text *)
Definition small (z : Z) : bool := (- 2 ^ 127 <=? z) && (z <? 2 ^ 127).
(* integers a template can denote: [-2^127, 2^128) *)
Definition denotable (z : Z) : bool := (- 2 ^ 127 <=? z) && (z <? 2 ^ 128).

(* "exact or fail; exact whenever operands and result are small":
   what an implementation may answer, [None] standing for an error *)
Definition acceptable (operands_small : bool) (want : option Z) (got : option Z) : bool :=
  match got with
  | Some r => match want with Some e => r =? e | None => false end
  | None => match want with
            | Some e => negb (operands_small && small e)
            | None => true
            end
  end.

(* an executable stand-in for [a ^ b] that never builds an astronomically large number:
   [Some (a^b)], or [None] when |a^b| certainly exceeds 2^256 (used only by the run-time oracle;
   Proofs.pow_capped_spec relates it to [Z.pow]) *)
Definition pow_capped (a b : Z) : option Z :=
  if Z.abs a <=? 1 then Some (if b =? 0 then 1 else if Z.even b then a * a else a)
  else if 256 <? b * Z.log2 (Z.abs a) then None else Some (a ^ b).

(* ---- the listed known finding (known/C08.json), as a decidable description of the inputs ----
   neg-2p127: the unary minus of 2^127 - as the operator applied to that number, or as the
              literal -170141183460469231731687303715884105728 used as an operand. *)
Definition known_operand (is_literal : bool) (z : Z) : bool := is_literal && (z =? - 2 ^ 127).
Definition known_neg (a : Z) : bool := a =? 2 ^ 127.
(* a whole case: `-a` ([unary]) or `a OP b` / a comparison; [a_lit], [b_lit]: the operand is a literal in the text *)
Definition known (unary a_lit : bool) (a : Z) (b_lit : bool) (b : Z) : bool :=
  known_operand a_lit a || negb unary && known_operand b_lit b || unary && known_neg a.

(* the exact comparison *)
Definition exact_cmp (a b : Z) : bool * bool * bool := (a <? b, a =? b, b <? a).

(* exact comparison of the rational m * 2^e with the integer n: (m*2^e < n, =, >) *)
Definition exact_cmp_rat (m e n : Z) : bool * bool * bool :=
  if 0 <=? e then exact_cmp (m * 2 ^ e) n else exact_cmp m (n * 2 ^ (- e)).
