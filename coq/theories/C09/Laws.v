(* C09 laws: consequences of slice_python that read like Python's documentation, proved of the
   specification [py_slice] and - through slice_python_proof - of the model of ops.rs::slice.
   They also validate the hand-written specification: a mis-transcribed py_bound / py_count would
   break one of them. *)
From MJ Require Import Common.Base Common.ListLemmas C09.Model C09.Spec C09.Proofs.

Ltac Zify.zify_post_hook ::= Z.div_mod_to_equations.

Lemma list_ext_nth_error {A} (l1 l2 : list A) :
  (forall n, nth_error l1 n = nth_error l2 n) -> l1 = l2.
Proof.
  revert l2; induction l1 as [|x l1 IH]; intros [|y l2] H; try reflexivity.
  - specialize (H 0%nat); discriminate H.
  - specialize (H 0%nat); discriminate H.
  - f_equal; [specialize (H 0%nat); cbn in H; congruence|].
    apply IH; intros n; exact (H (S n)).
Qed.

(* v[:] / v[::] / v[::1] is v *)
Lemma py_slice_full l : py_slice l None None 1 = l.
Proof.
  apply list_ext_nth_error; intros n. rewrite nth_error_py_slice. cbv zeta.
  unfold py_a, py_b, py_bound, py_count. cbn [Z.ltb Z.compare].
  assert (Hl : 0 <= lenZ l) by (unfold lenZ; lia).
  replace (1 <? 0) with false by reflexivity. replace (0 <? 1) with true by reflexivity.
  destruct (0 <? lenZ l) eqn:E0.
  - replace ((lenZ l - 0 - 1) / 1 + 1) with (lenZ l) by (rewrite Z.div_1_r; lia).
    destruct (Z.of_nat n <? lenZ l) eqn:E1.
    + replace (Z.to_nat (0 + Z.of_nat n * 1)) with n by lia.
      symmetry; apply nth_error_nth_in. unfold lenZ in E1; lia.
    + symmetry; apply nth_error_None. unfold lenZ in E1; lia.
  - replace (Z.of_nat n <? 0) with false by lia.
    symmetry; apply nth_error_None. unfold lenZ in E0; lia.
Qed.

(* v[::-1] is v reversed *)
Lemma py_slice_rev l : py_slice l None None (-1) = rev l.
Proof.
  apply list_ext_nth_error; intros n. rewrite nth_error_py_slice. cbv zeta.
  unfold py_a, py_b, py_bound, py_count.
  assert (Hl : 0 <= lenZ l) by (unfold lenZ; lia).
  replace (-1 <? 0) with true by reflexivity. replace (0 <? -1) with false by reflexivity.
  destruct (-1 <? lenZ l - 1) eqn:E0.
  - replace ((lenZ l - 1 - -1 - 1) / - -1 + 1) with (lenZ l) by (cbn [Z.opp]; rewrite Z.div_1_r; lia).
    destruct (Z.of_nat n <? lenZ l) eqn:E1.
    + assert (Hn : (n < length l)%nat) by (unfold lenZ in E1; lia).
      rewrite (nth_error_nth_in (rev l) n 0) by (rewrite rev_length; exact Hn).
      rewrite rev_nth by exact Hn. do 2 f_equal. unfold lenZ. lia.
    + symmetry; apply nth_error_None. rewrite rev_length. unfold lenZ in E1; lia.
  - replace (Z.of_nat n <? 0) with false by lia.
    symmetry; apply nth_error_None. rewrite rev_length. unfold lenZ in E0; lia.
Qed.

(* a slice never invents an element: everything selected is an element of the input ... *)
Lemma py_slice_incl l start stop step : step <> 0 -> incl (py_slice l start stop step) l.
Proof.
  intros Hs x Hx. apply In_nth_error in Hx. destruct Hx as [n Hn].
  rewrite nth_error_py_slice in Hn. cbv zeta in Hn.
  destruct (Z.of_nat n <? _) eqn:E; [|discriminate Hn]. injection Hn as <-.
  assert (Hl : 0 <= lenZ l) by (unfold lenZ; lia).
  pose proof (py_index_in_range (lenZ l) start stop step (Z.of_nat n) Hl Hs ltac:(lia) ltac:(lia)) as Hr.
  apply nth_In. unfold lenZ in *. lia.
Qed.

(* ... and never selects more elements than there are *)
Lemma py_slice_length l start stop step :
  lenZ (py_slice l start stop step) =
    Z.max 0 (py_count (py_a (lenZ l) start step) (py_b (lenZ l) stop step) step).
Proof.
  unfold py_slice, py_indices, lenZ. rewrite !map_length, seq_length.
  fold (lenZ l). fold (py_a (lenZ l) start step). fold (py_b (lenZ l) stop step). lia.
Qed.

Lemma py_slice_length_le l start stop step : step <> 0 ->
  lenZ (py_slice l start stop step) <= lenZ l.
Proof.
  intros Hs. rewrite py_slice_length.
  assert (Hl : 0 <= lenZ l) by (unfold lenZ; lia).
  set (c := py_count _ _ _).
  destruct (Z.leb_spec c 0) as [Hc|Hc]; [lia|].
  (* the first and the last selected index are distinct positions |step| * (c-1) apart inside [0, len) *)
  pose proof (py_index_in_range (lenZ l) start stop step 0 Hl Hs ltac:(lia) ltac:(fold c; lia)) as H0.
  pose proof (py_index_in_range (lenZ l) start stop step (c - 1) Hl Hs ltac:(lia) ltac:(fold c; lia)) as H1.
  nia.
Qed.

(* the laws, for the model of the implementation *)
Lemma model_slice_full k items : lenZ items <= i64_max ->
  model_slice k items None None None = Ok (rkind k, items).
Proof.
  intros Hl. rewrite slice_python_proof by (assumption || exact I).
  cbn. rewrite py_slice_full. reflexivity.
Qed.

Lemma model_slice_rev k items : lenZ items <= i64_max ->
  model_slice k items None None (Some (-1)) = Ok (rkind k, rev items).
Proof.
  intros Hl. rewrite slice_python_proof; try assumption; try exact I.
  - cbn. rewrite py_slice_rev. reflexivity.
  - cbn. unfold valid_int, i128_min, u128_max. lia.
Qed.

Lemma model_slice_selects k items start stop step r :
  lenZ items <= i64_max -> valid_opt start -> valid_opt stop -> valid_opt step ->
  model_slice k items start stop step = Ok r ->
  fst r = rkind k /\ incl (snd r) items /\ lenZ (snd r) <= lenZ items.
Proof.
  intros Hl H1 H2 H3. rewrite slice_python_proof by assumption.
  destruct (step_of step =? 0) eqn:E; [discriminate|]. intros [= <-]. cbn [fst snd].
  assert (step_of step <> 0) by lia.
  split; [reflexivity|]. split; [apply py_slice_incl; assumption|apply py_slice_length_le; assumption].
Qed.

(* ---- subscripts ---- *)
Lemma py_index_some_iff l key :
  (exists x, py_index l key = Some x) <-> - lenZ l <= key < lenZ l.
Proof.
  unfold py_index. cbv zeta. split.
  - intros [x Hx]. destruct (key <? 0) eqn:E0;
      destruct ((0 <=? _) && (_ <? lenZ l)) eqn:E1; try discriminate; lia.
  - intros Hr. destruct (key <? 0) eqn:E0.
    + replace ((0 <=? key + lenZ l) && (key + lenZ l <? lenZ l)) with true by lia.
      destruct (nth_error l (Z.to_nat (key + lenZ l))) eqn:En; [eexists; reflexivity|].
      apply nth_error_None in En. unfold lenZ in *. lia.
    + replace ((0 <=? key) && (key <? lenZ l)) with true by lia.
      destruct (nth_error l (Z.to_nat key)) eqn:En; [eexists; reflexivity|].
      apply nth_error_None in En. unfold lenZ in *. lia.
Qed.

(* a subscript is defined exactly for -len <= key < len, yields an element of the container, and a
   negative key counts from the end *)
Lemma model_index_laws k items key : lenZ items <= i64_max ->
  ((exists x, model_index k items key = Some x) <-> - lenZ items <= key < lenZ items) /\
  (forall x, model_index k items key = Some x -> In x items) /\
  (- lenZ items <= key < 0 -> model_index k items key = model_index k items (key + lenZ items)).
Proof.
  intros Hl. rewrite !subscript_python_proof.
  assert (H0 : 0 <= lenZ items) by (unfold lenZ; lia).
  split; [|split].
  - destruct (in_i64 key) eqn:Ei.
    + apply py_index_some_iff.
    + split; [intros [x Hx]; discriminate|].
      intros Hr. unfold in_i64, i64_min, i64_max in *. lia.
  - intros x. destruct (in_i64 key); [|discriminate].
    unfold py_index. cbv zeta. destruct (_ && _); [|discriminate]. apply nth_error_In.
  - intros Hr.
    replace (in_i64 key) with true by (unfold in_i64, i64_min, i64_max in *; lia).
    replace (in_i64 (key + lenZ items)) with true by (unfold in_i64, i64_min, i64_max in *; lia).
    unfold py_index. cbv zeta.
    replace (key <? 0) with true by lia. replace (key + lenZ items <? 0) with false by lia. reflexivity.
Qed.

(* ---- the plain sub-list: v[a:b] with 0 <= a <= b <= len is "drop a, then take b - a" ---- *)
Lemma py_slice_sublist l a b : 0 <= a <= b -> b <= lenZ l ->
  py_slice l (Some a) (Some b) 1 = takeZ (b - a) (skipZ a l).
Proof.
  intros Hab Hb. apply nth_error_ext; intros n.
  rewrite nth_error_py_slice, nth_error_takeZ, nth_error_skipZ by lia. cbv zeta.
  unfold py_a, py_b, py_bound, py_count.
  replace (1 <? 0) with false by reflexivity. replace (0 <? 1) with true by reflexivity.
  replace (a <? 0) with false by lia. replace (b <? 0) with false by lia.
  destruct (lenZ l <=? a) eqn:Ea; destruct (lenZ l <=? b) eqn:Eb.
  - (* a = b = len *) replace (lenZ l <? lenZ l) with false by lia.
    replace (Z.of_nat n <? 0) with false by lia. replace (Z.of_nat n <? b - a) with false by lia. reflexivity.
  - lia.
  - (* b = len *) assert (b = lenZ l) by lia; subst b.
    replace (a <? lenZ l) with true by lia.
    replace ((lenZ l - a - 1) / 1 + 1) with (lenZ l - a) by (rewrite Z.div_1_r; lia).
    destruct (Z.of_nat n <? lenZ l - a) eqn:E1; [|reflexivity].
    replace (Z.to_nat (a + Z.of_nat n * 1)) with (Z.to_nat a + n)%nat by lia.
    symmetry; apply nth_error_nth_in. unfold lenZ in *. lia.
  - destruct (a <? b) eqn:E0.
    + replace ((b - a - 1) / 1 + 1) with (b - a) by (rewrite Z.div_1_r; lia).
      destruct (Z.of_nat n <? b - a) eqn:E1; [|reflexivity].
      replace (Z.to_nat (a + Z.of_nat n * 1)) with (Z.to_nat a + n)%nat by lia.
      symmetry; apply nth_error_nth_in. unfold lenZ in *. lia.
    + replace (Z.of_nat n <? 0) with false by lia. replace (Z.of_nat n <? b - a) with false by lia. reflexivity.
Qed.

Lemma model_slice_sublist k items a b : lenZ items <= i64_max -> 0 <= a <= b -> b <= lenZ items ->
  model_slice k items (Some a) (Some b) None = Ok (rkind k, takeZ (b - a) (skipZ a items)).
Proof.
  intros Hl Hab Hb. rewrite slice_python_proof; try assumption; try exact I.
  - cbn. rewrite py_slice_sublist by assumption. reflexivity.
  - cbn. unfold valid_int, i128_min, u128_max, i64_max in *. lia.
  - cbn. unfold valid_int, i128_min, u128_max, i64_max in *. lia.
Qed.
