(* C09 model: minijinja/src/value/ops.rs::{slice_bound, slice_indices, slice_vec, slice}
   and minijinja/src/value/mod.rs::Value::get_item_opt (index helper), mirrored
   function by function.  Elements (chars, bytes, list items) are all [Z]. *)
From MJ Require Import Common.Base.

Inductive kind := KStr | KBytes | KTuple | KSeq | KLazySized | KLazyUnsized.

(* result kinds: 0 string, 1 bytes, 2 tuple, 3 list-like *)
Definition rkind (k : kind) : Z :=
  match k with KStr => 0 | KBytes => 1 | KTuple => 2 | _ => 3 end.

(* ops.rs::slice_bound -- the integer held by a Value lies in [-2^127, 2^128) *)
Definition slice_bound (z : Z) : option Z :=
  if in_i128 z then Some (Z.max i64_min (Z.min i64_max z))
  else if in_u128 z then Some i64_max
  else None.

Definition adjust (len lower upper : Z) (b : option Z) (d : Z) : Z :=
  match b with
  | None => d
  | Some b => if b <? 0 then Z.max (b + len) lower else Z.min b upper
  end.

(* ops.rs::slice_indices; i128 arithmetic, [/] is truncating *)
Definition slice_indices (start stop : option Z) (step len : Z) : Z * Z :=
  let lower := if step <? 0 then -1 else 0 in
  let upper := if step <? 0 then len - 1 else len in
  let s := if step <? 0 then adjust len lower upper start upper else adjust len lower upper start lower in
  let e := if step <? 0 then adjust len lower upper stop lower else adjust len lower upper stop upper in
  let count :=
    if (step <? 0) && (e <? s) then Z.quot (s - e - 1) (- step) + 1
    else if (0 <? step) && (s <? e) then Z.quot (e - s - 1) step + 1
    else 0 in
  (Z.max s 0, count).

(* every i128 intermediate of slice_indices, for the no-overflow theorem *)
Definition slice_indices_intermediates (start stop : option Z) (step len : Z) : list Z :=
  let lower := if step <? 0 then -1 else 0 in
  let upper := if step <? 0 then len - 1 else len in
  let s := if step <? 0 then adjust len lower upper start upper else adjust len lower upper start lower in
  let e := if step <? 0 then adjust len lower upper stop lower else adjust len lower upper stop upper in
  [len - 1; s; e; s - e; s - e - 1; e - s; e - s - 1; - step;
   match start with Some b => b + len | None => 0 end;
   match stop with Some b => b + len | None => 0 end;
   fst (slice_indices start stop step len); snd (slice_indices start stop step len)].

(* (0..count).map(|n| items[first - n * stride]) -- usize arithmetic *)
Fixpoint gather_back (fuel : nat) (items : list Z) (first stride n count : Z) : outcome (list Z) :=
  if count <=? n then Ok [] else
  match fuel with
  | O => OutOfGas
  | S fuel =>
      let prod := n * stride in
      if u64_max <? prod then Panic            (* multiply overflow (trap in debug, wrong index in release) *)
      else if first - prod <? 0 then Panic     (* subtract overflow *)
      else match nth_error items (Z.to_nat (first - prod)) with
           | None => Panic                       (* index out of bounds *)
           | Some x => bind (gather_back fuel items first stride (n + 1) count) (fun r => Ok (x :: r))
           end
  end.

(* ops.rs::slice_vec *)
Definition slice_vec (items : list Z) (start stop : option Z) (step : Z) : outcome (list Z) :=
  let '(first, count) := slice_indices start stop step (lenZ items) in
  let stride := Z.abs step in
  if 0 <? step then Ok (takeZ count (step_byZ stride 0 (skipZ first items)))
  else gather_back (S (length items)) items first stride 0 count.

Definition nonneg_opt (o : option Z) (dflt : bool) : bool :=
  match o with None => dflt | Some x => 0 <=? x end.

(* the Seq / Iterable (non-tuple) branch of ops.rs::slice *)
Definition slice_lazy (sized : bool) (items : list Z) (start stop : option Z) (step : Z) : outcome (list Z) :=
  let known_len :=
    if step <? 0 then None
    else if nonneg_opt start true && nonneg_opt stop false then Some u64_max
    else if sized then Some (lenZ items) else None in
  match known_len with
  | Some len =>
      let '(first, count) := slice_indices start stop step len in
      Ok (takeZ count (step_byZ (Z.abs step) 0 (skipZ first items)))
  | None => slice_vec items start stop step
  end.

Definition opt_bound (o : option Z) : outcome (option Z) :=
  match o with
  | None => Ok None
  | Some z => match slice_bound z with Some b => Ok (Some b) | None => Err E_InvalidOperation end
  end.

(* ops.rs::slice.  Result: (result kind, items) *)
Definition model_slice (k : kind) (items : list Z) (start stop step : option Z) : outcome (Z * list Z) :=
  bind (opt_bound start) (fun start =>
  bind (opt_bound stop) (fun stop =>
  bind (opt_bound step) (fun step =>
  let step := match step with None => 1 | Some s => s end in
  if step =? 0 then Err E_InvalidOperation else
  bind (match k with
        | KStr | KBytes | KTuple => slice_vec items start stop step
        | KSeq => slice_lazy true items start stop step
        | KLazySized => slice_lazy true items start stop step
        | KLazyUnsized => slice_lazy false items start stop step
        end) (fun r => Ok (rkind k, r))))).

(* value/mod.rs::get_item_opt::index + the per-kind lookups.  [None] = undefined. *)
Definition model_index (k : kind) (items : list Z) (key : Z) : option Z :=
  if negb (in_i64 key) then None else
  let len := lenZ items in   (* unsized iterables are counted by iterating *)
  let idx := if key <? 0 then (if len <? - key then None else Some (len - (- key))) else Some key in
  match idx with
  | None => None
  | Some i => if len <=? i then None else nth_error items (Z.to_nat i)
  end.
