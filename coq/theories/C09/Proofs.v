(* C09 proofs: the model of ops.rs::slice computes Python's slice for every input. *)
From MJ Require Import Common.Base Common.ListLemmas C09.Model C09.Spec.

Ltac Zify.zify_post_hook ::= Z.div_mod_to_equations.

Ltac brk :=
  repeat match goal with
         | |- context [if ?c then _ else _] => destruct c eqn:?
         | H : context [if ?c then _ else _] |- _ => destruct c eqn:?
         end.

(* integers a template value can hold *)
Definition valid_int (z : Z) : Prop := i128_min <= z <= u128_max.
Definition valid_opt (o : option Z) : Prop := match o with None => True | Some z => valid_int z end.

Definition clampv (z : Z) : Z := Z.max i64_min (Z.min i64_max z).

Lemma slice_bound_valid z : valid_int z -> slice_bound z = Some (clampv z).
Proof.
  unfold valid_int, slice_bound, clampv, in_i128, in_u128, i128_min, i128_max, u128_max, i64_min, i64_max.
  intros H. brk; try reflexivity; try (f_equal; lia); lia.
Qed.

Lemma opt_bound_valid o : valid_opt o -> opt_bound o = Ok (option_map clampv o).
Proof. destruct o as [z|]; cbn; intros H; [rewrite slice_bound_valid by exact H|]; reflexivity. Qed.

(* ---- the division facts ---- *)
Lemma count_lt step s e n : 0 < step -> s < e -> 0 <= n ->
  (n < (e - s - 1) / step + 1 <-> s + n * step < e).
Proof. intros; split; intros; nia. Qed.

Lemma count_pos step s e : 0 < step -> s < e -> 0 < (e - s - 1) / step + 1.
Proof. intros; nia. Qed.

(* ---- slice_indices agrees with Python's adjustment ---- *)
Definition py_a len start step := py_bound len step start 0 (len - 1).
Definition py_b len stop step := py_bound len step stop len (-1).

Lemma slice_indices_py start stop step len : 0 <= len -> step <> 0 ->
  slice_indices start stop step len =
    (Z.max (py_a len start step) 0, py_count (py_a len start step) (py_b len stop step) step).
Proof.
  intros Hl Hs. unfold slice_indices, py_a, py_b, py_count, py_bound, adjust.
  destruct start as [st|], stop as [sp|]; brk; f_equal; try lia;
    rewrite ?Z.quot_div_nonneg by lia; try lia; f_equal; f_equal; lia.
Qed.

(* ---- shape of Python's result ---- *)
Lemma nth_error_py_slice l start stop step n :
  nth_error (py_slice l start stop step) n =
    let a := py_a (lenZ l) start step in
    let c := py_count a (py_b (lenZ l) stop step) step in
    if Z.of_nat n <? c then Some (nth (Z.to_nat (a + Z.of_nat n * step)) l 0) else None.
Proof.
  unfold py_slice, py_indices. fold (py_a (lenZ l) start step). fold (py_b (lenZ l) stop step).
  cbv zeta. rewrite map_map, nth_error_map_seq.
  destruct (n <? _)%nat eqn:E1, (Z.of_nat n <? _) eqn:E2; try reflexivity; lia.
Qed.

Lemma py_count_nonneg a b step : step <> 0 -> 0 <= py_count a b step.
Proof. unfold py_count. intros. brk; nia. Qed.

(* every selected index is inside the list *)
Lemma py_index_in_range len start stop step n : 0 <= len -> step <> 0 -> 0 <= n ->
  n < py_count (py_a len start step) (py_b len stop step) step ->
  0 <= py_a len start step + n * step < len.
Proof.
  intros Hl Hs Hn. unfold py_count, py_a, py_b, py_bound.
  destruct start as [st|], stop as [sp|]; brk; intros; try lia; nia.
Qed.

Lemma py_a_range len start step : 0 <= len ->
  (if step <? 0 then -1 else 0) <= py_a len start step <= (if step <? 0 then len - 1 else len).
Proof. intros Hl. unfold py_a, py_bound. destruct start; brk; lia. Qed.

Lemma py_b_range len stop step : 0 <= len ->
  (if step <? 0 then -1 else 0) <= py_b len stop step <= (if step <? 0 then len - 1 else len).
Proof. intros Hl. unfold py_b, py_bound. destruct stop; brk; lia. Qed.

Lemma nth_error_nth_in {A} (l : list A) i d : (i < length l)%nat -> nth_error l i = Some (nth i l d).
Proof. intros. apply nth_error_nth'. exact H. Qed.

(* ---- forward slices ---- *)
Lemma nth_error_forward (items : list Z) first count step n : 0 < step -> 0 <= first ->
  nth_error (takeZ count (step_byZ step 0 (skipZ first items))) n =
    if Z.of_nat n <? count then nth_error items (Z.to_nat (first + Z.of_nat n * step)) else None.
Proof.
  intros Hs Hf. rewrite nth_error_takeZ. destruct (_ <? _); [|reflexivity].
  rewrite nth_error_step_byZ by lia. rewrite nth_error_skipZ by lia. f_equal. nia.
Qed.

Lemma forward_py items start stop step : 0 < step ->
  (let '(first, count) := slice_indices start stop step (lenZ items) in
   takeZ count (step_byZ step 0 (skipZ first items))) = py_slice items start stop step.
Proof.
  intros Hs. rewrite slice_indices_py by (unfold lenZ; lia). cbv iota beta.
  apply nth_error_ext; intros n. rewrite nth_error_forward, nth_error_py_slice by lia. cbv zeta.
  destruct (Z.of_nat n <? _) eqn:E; [|reflexivity].
  pose proof (py_index_in_range (lenZ items) start stop step (Z.of_nat n) ltac:(unfold lenZ; lia) ltac:(lia) ltac:(lia) ltac:(lia)) as Hr.
  pose proof (py_a_range (lenZ items) start step ltac:(unfold lenZ; lia)) as Ha.
  destruct (step <? 0) eqn:E0; [lia|].
  replace (Z.max (py_a (lenZ items) start step) 0) with (py_a (lenZ items) start step) by lia.
  apply nth_error_nth_in. unfold lenZ in *.
  remember (py_a (Z.of_nat (length items)) start step + Z.of_nat n * step) as i. lia.
Qed.

(* the lazy path that does not know the length: both bounds are non-negative *)
Lemma forward_unknown_len items st sp step : 0 < step -> 0 <= st <= i64_max -> 0 <= sp <= i64_max ->
  lenZ items <= i64_max ->
  (let '(first, count) := slice_indices (Some st) (Some sp) step u64_max in
   takeZ count (step_byZ step 0 (skipZ first items))) = py_slice items (Some st) (Some sp) step.
Proof.
  intros Hs Hst Hsp Hlen. rewrite slice_indices_py by (unfold u64_max; lia). cbv iota beta.
  apply nth_error_ext; intros n. rewrite nth_error_forward, nth_error_py_slice by lia. cbv zeta.
  assert (Hl0 : 0 <= lenZ items) by (unfold lenZ; lia).
  unfold py_a, py_b, py_count, py_bound, u64_max, i64_max in *.
  set (L := lenZ items) in *. set (N := Z.of_nat n). assert (0 <= N) by (unfold N; lia).
  brk; try lia.
  all: try (rewrite Z.max_l by lia).
  all: try (apply nth_error_nth_in; unfold L, lenZ in *; nia).
  all: try (apply nth_error_None; unfold L, lenZ in *; nia).
  all: try reflexivity.
  all: try nia.
Qed.

(* ---- backward slices ---- *)
Lemma gather_back_ok items first stride count : forall fuel n,
  0 < stride -> 0 <= n -> (Z.to_nat (count - n) <= fuel)%nat ->
  (forall m, n <= m < count -> 0 <= first - m * stride < lenZ items /\ m * stride <= u64_max) ->
  gather_back fuel items first stride n count =
    Ok (map (fun i => nth (Z.to_nat (first - (n + Z.of_nat i) * stride)) items 0) (seq 0 (Z.to_nat (count - n)))).
Proof.
  induction fuel as [|fuel IH]; intros n Hs Hn Hf Hr; cbn [gather_back].
  - destruct (count <=? n) eqn:E.
    + replace (Z.to_nat (count - n)) with O by lia. reflexivity.
    + lia.
  - destruct (count <=? n) eqn:E.
    + replace (Z.to_nat (count - n)) with O by lia. reflexivity.
    + destruct (Hr n ltac:(lia)) as [Hr1 Hr2].
      destruct (u64_max <? n * stride) eqn:E1; [lia|].
      destruct (first - n * stride <? 0) eqn:E2; [lia|].
      rewrite (nth_error_nth_in items _ 0) by (unfold lenZ in Hr1; lia).
      rewrite IH; [|lia|lia|lia|intros m Hm; apply Hr; lia]. cbn [bind].
      replace (Z.to_nat (count - n)) with (S (Z.to_nat (count - (n + 1)))) by lia.
      cbn [seq map]. f_equal. f_equal.
      * f_equal. f_equal. lia.
      * rewrite <- seq_shift, map_map. apply map_ext. intros i. f_equal. f_equal. lia.
Qed.

Lemma backward_py items start stop step : step < 0 -> - step <= 2 ^ 63 -> lenZ items <= i64_max ->
  (let '(first, count) := slice_indices start stop step (lenZ items) in
   gather_back (S (length items)) items first (Z.abs step) 0 count) = Ok (py_slice items start stop step).
Proof.
  intros Hs Hs2 Hlen. assert (Hl0 : 0 <= lenZ items) by (unfold lenZ; lia).
  rewrite slice_indices_py by lia. cbv iota beta.
  set (a := py_a (lenZ items) start step). set (c := py_count a (py_b (lenZ items) stop step) step).
  assert (Hc0 : 0 <= c) by (apply py_count_nonneg; lia).
  assert (Hin : forall m, 0 <= m < c -> 0 <= a + m * step < lenZ items).
  { intros m Hm. apply (py_index_in_range (lenZ items) start stop step m); try lia. fold a. fold c. lia. }
  assert (Hcl : c <= lenZ items).
  { destruct (Z.eq_dec c 0) as [->|Hne]; [lia|].
    pose proof (Hin (c - 1) ltac:(lia)). pose proof (Hin 0 ltac:(lia)). nia. }
  rewrite gather_back_ok.
  - f_equal. apply nth_error_ext; intros n. rewrite nth_error_py_slice. cbv zeta. fold a. fold c.
    rewrite nth_error_map_seq. rewrite Z.sub_0_r.
    destruct (n <? Z.to_nat c)%nat eqn:E1, (Z.of_nat n <? c) eqn:E2; try reflexivity; try lia.
    f_equal. f_equal. f_equal. pose proof (Hin (Z.of_nat n) ltac:(lia)). lia.
  - lia.
  - lia.
  - unfold lenZ in *. lia.
  - intros m Hm. pose proof (Hin m ltac:(lia)) as H1. pose proof (Hin 0 ltac:(lia)) as H0.
    split; [|unfold u64_max, i64_max in *; nia].
    replace (Z.abs step) with (- step) by lia. lia.
Qed.

(* ---- clamping bounds to i64 does not change what Python selects ---- *)
Lemma py_bound_clamp len step b d1 d2 : 0 <= len <= i64_max -> step <> 0 ->
  py_bound len (clampv step) (option_map clampv b) d1 d2 = py_bound len step b d1 d2.
Proof.
  intros Hl Hs. unfold py_bound, clampv, i64_min, i64_max in *. destruct b as [b|]; cbn [option_map]; brk; lia.
Qed.

Lemma clampv_id z : i64_min <= z <= i64_max -> clampv z = z.
Proof. unfold clampv. lia. Qed.

Lemma py_count_clamp a b step len : step <> 0 -> 0 <= len <= i64_max ->
  (if step <? 0 then -1 else 0) <= a <= (if step <? 0 then len - 1 else len) ->
  (if step <? 0 then -1 else 0) <= b <= (if step <? 0 then len - 1 else len) ->
  py_count a b (clampv step) = py_count a b step.
Proof.
  intros Hs Hl Ha Hb.
  destruct (Z_lt_le_dec step i64_min) as [Hlo|Hlo].
  - (* step < -2^63 *)
    replace (clampv step) with i64_min by (unfold clampv; lia).
    unfold py_count, i64_min, i64_max in *. destruct (step <? 0) eqn:E; [|lia].
    replace (0 <? - 2 ^ 63) with false by reflexivity. replace (0 <? step) with false by lia.
    destruct (b <? a) eqn:E2; [|reflexivity]. rewrite !Z.div_small by lia. reflexivity.
  - destruct (Z_lt_le_dec i64_max step) as [Hhi|Hhi].
    + replace (clampv step) with i64_max by (unfold clampv, i64_min, i64_max in *; lia).
      unfold py_count, i64_min, i64_max in *. destruct (step <? 0) eqn:E; [lia|].
      replace (0 <? 2 ^ 63 - 1) with true by reflexivity. replace (0 <? step) with true by lia.
      destruct (a <? b) eqn:E2; [|reflexivity]. rewrite !Z.div_small by lia. reflexivity.
    + rewrite clampv_id by lia. reflexivity.
Qed.

Lemma clampv_nonzero z : z <> 0 -> clampv z <> 0.
Proof. unfold clampv, i64_min, i64_max. lia. Qed.

Lemma clampv_sign z : (clampv z <? 0) = (z <? 0).
Proof. unfold clampv, i64_min, i64_max. lia. Qed.

Lemma py_count_big a b step len : 0 <= len <= i64_max -> step < i64_min \/ i64_max < step ->
  (if step <? 0 then -1 else 0) <= a <= (if step <? 0 then len - 1 else len) ->
  (if step <? 0 then -1 else 0) <= b <= (if step <? 0 then len - 1 else len) ->
  py_count a b step = 0 \/ py_count a b step = 1.
Proof.
  intros Hl Hs Ha Hb. unfold py_count, i64_min, i64_max in *.
  destruct (step <? 0) eqn:E.
  - replace (0 <? step) with false by lia. destruct (b <? a) eqn:E2; [|left; reflexivity].
    right. rewrite Z.div_small by lia. reflexivity.
  - replace (0 <? step) with true by lia. destruct (a <? b) eqn:E2; [|left; reflexivity].
    right. rewrite Z.div_small by lia. reflexivity.
Qed.

Lemma py_indices_clamp len start stop step : 0 <= len <= i64_max -> step <> 0 ->
  py_indices len (option_map clampv start) (option_map clampv stop) (clampv step) = py_indices len start stop step.
Proof.
  intros Hl Hs. unfold py_indices. rewrite !py_bound_clamp by assumption.
  fold (py_a len start step). fold (py_b len stop step).
  pose proof (py_a_range len start step ltac:(lia)) as Ha.
  pose proof (py_b_range len stop step ltac:(lia)) as Hb.
  rewrite (py_count_clamp _ _ step len) by assumption.
  destruct (Z_lt_le_dec step i64_min) as [Hlo|Hlo]; [|destruct (Z_lt_le_dec i64_max step) as [Hhi|Hhi]].
  - destruct (py_count_big _ _ step len Hl (or_introl Hlo) Ha Hb) as [-> | ->]; [reflexivity|].
    change (Z.to_nat 1) with 1%nat. cbn [seq map]. change (Z.of_nat 0) with 0. rewrite !Z.mul_0_l. reflexivity.
  - destruct (py_count_big _ _ step len Hl (or_intror Hhi) Ha Hb) as [-> | ->]; [reflexivity|].
    change (Z.to_nat 1) with 1%nat. cbn [seq map]. change (Z.of_nat 0) with 0. rewrite !Z.mul_0_l. reflexivity.
  - rewrite clampv_id by lia. reflexivity.
Qed.

Lemma py_slice_clamp items start stop step : lenZ items <= i64_max -> step <> 0 ->
  py_slice items (option_map clampv start) (option_map clampv stop) (clampv step) = py_slice items start stop step.
Proof. intros Hl Hs. unfold py_slice. rewrite py_indices_clamp; [reflexivity|unfold lenZ in *; lia|assumption]. Qed.

(* slice_vec, for steps that fit an i64 *)
Lemma slice_vec_py items start stop step : step <> 0 -> i64_min <= step <= i64_max -> lenZ items <= i64_max ->
  slice_vec items start stop step = Ok (py_slice items start stop step).
Proof.
  intros Hs Hr Hl. unfold slice_vec.
  destruct (0 <? step) eqn:E.
  - pose proof (forward_py items start stop step ltac:(lia)) as H.
    destruct (slice_indices start stop step (lenZ items)) as [first count].
    replace (Z.abs step) with step by lia. rewrite H. reflexivity.
  - pose proof (backward_py items start stop step ltac:(lia) ltac:(unfold i64_min in *; lia) Hl) as H.
    destruct (slice_indices start stop step (lenZ items)) as [first count]. exact H.
Qed.

Lemma slice_lazy_py sized items start stop step : step <> 0 -> i64_min <= step <= i64_max -> lenZ items <= i64_max ->
  (forall z, start = Some z -> i64_min <= z <= i64_max) -> (forall z, stop = Some z -> i64_min <= z <= i64_max) ->
  slice_lazy sized items start stop step = Ok (py_slice items start stop step).
Proof.
  intros Hs Hr Hl Hst Hsp. unfold slice_lazy.
  destruct (step <? 0) eqn:E; [apply slice_vec_py; assumption|].
  destruct (nonneg_opt start true && nonneg_opt stop false) eqn:E2.
  - (* no length needed *)
    apply andb_prop in E2 as [E3 E4]. destruct stop as [sp|]; [|discriminate]. cbn in E4.
    specialize (Hsp sp eq_refl).
    destruct start as [st|].
    + cbn in E3. specialize (Hst st eq_refl).
      pose proof (forward_unknown_len items st sp step ltac:(lia) ltac:(lia) ltac:(lia) Hl) as H.
      destruct (slice_indices (Some st) (Some sp) step u64_max) as [first count].
      replace (Z.abs step) with step by lia. rewrite H. reflexivity.
    + (* omitted start behaves like 0 *)
      pose proof (forward_unknown_len items 0 sp step ltac:(lia) ltac:(unfold i64_max; lia) ltac:(lia) Hl) as H.
      assert (Hsi : slice_indices None (Some sp) step u64_max = slice_indices (Some 0) (Some sp) step u64_max).
      { unfold slice_indices, adjust. rewrite E. replace (0 <? 0) with false by reflexivity.
        replace (Z.min 0 u64_max) with 0 by reflexivity. reflexivity. }
      rewrite Hsi.
      assert (Hpy : py_slice items None (Some sp) step = py_slice items (Some 0) (Some sp) step).
      { unfold py_slice, py_indices, py_bound. rewrite E. replace (0 <? 0) with false by reflexivity.
        destruct (lenZ items <=? 0) eqn:E5; [|reflexivity].
        replace (lenZ items) with 0 by (unfold lenZ in *; lia). reflexivity. }
      rewrite Hpy.
      destruct (slice_indices (Some 0) (Some sp) step u64_max) as [first count].
      replace (Z.abs step) with step by lia. rewrite H. reflexivity.
  - destruct sized; [|apply slice_vec_py; assumption].
    pose proof (forward_py items start stop step ltac:(lia)) as H.
    destruct (slice_indices start stop step (lenZ items)) as [first count].
    replace (Z.abs step) with step by lia. rewrite H. reflexivity.
Qed.

Definition step_of (o : option Z) : Z := match o with None => 1 | Some s => s end.

(* the theorem: every slice of every sliceable kind is Python's slice *)
Theorem slice_python_proof k items start stop step :
  lenZ items <= i64_max -> valid_opt start -> valid_opt stop -> valid_opt step ->
  model_slice k items start stop step =
    if step_of step =? 0 then Err E_InvalidOperation
    else Ok (rkind k, py_slice items start stop (step_of step)).
Proof.
  intros Hl H1 H2 H3. unfold model_slice.
  rewrite !opt_bound_valid by assumption. cbn [bind].
  assert (Hstep : match option_map clampv step with None => 1 | Some s => s end = clampv (step_of step)).
  { destruct step; reflexivity. }
  rewrite Hstep.
  destruct (step_of step =? 0) eqn:E.
  - replace (step_of step) with 0 by lia. reflexivity.
  - assert (Hs : step_of step <> 0) by lia.
    replace (clampv (step_of step) =? 0) with false by (pose proof (clampv_nonzero _ Hs); lia).
    assert (Hc : i64_min <= clampv (step_of step) <= i64_max) by (unfold clampv, i64_min, i64_max; lia).
    assert (Hb : forall o z, option_map clampv o = Some z -> i64_min <= z <= i64_max).
    { intros [w|] z Hz; inversion Hz. unfold clampv, i64_min, i64_max; lia. }
    assert (R : forall r, r = Ok (py_slice items (option_map clampv start) (option_map clampv stop) (clampv (step_of step))) ->
              bind r (fun r0 => Ok (rkind k, r0)) = Ok (rkind k, py_slice items start stop (step_of step))).
    { intros r ->. cbn [bind]. rewrite py_slice_clamp by assumption. reflexivity. }
    apply R. destruct k.
    + apply slice_vec_py; auto using clampv_nonzero.
    + apply slice_vec_py; auto using clampv_nonzero.
    + apply slice_vec_py; auto using clampv_nonzero.
    + apply slice_lazy_py; eauto using clampv_nonzero.
    + apply slice_lazy_py; eauto using clampv_nonzero.
    + apply slice_lazy_py; eauto using clampv_nonzero.
Qed.

(* no i128 intermediate of slice_indices overflows *)
Theorem slice_no_overflow_proof start stop step len :
  0 <= len <= u64_max ->
  (forall z, start = Some z -> i64_min <= z <= i64_max) -> (forall z, stop = Some z -> i64_min <= z <= i64_max) ->
  i64_min <= step <= i64_max -> step <> 0 ->
  forallb in_i128 (slice_indices_intermediates start stop step len) = true.
Proof.
  intros Hl Hst Hsp Hs Hs0.
  assert (Hc : 0 <= snd (slice_indices start stop step len) <= len + 1).
  { rewrite slice_indices_py by lia. cbn [snd].
    pose proof (py_count_nonneg (py_a len start step) (py_b len stop step) step Hs0).
    pose proof (py_a_range len start step ltac:(lia)) as Ha. pose proof (py_b_range len stop step ltac:(lia)) as Hb.
    split; [lia|]. unfold py_count. destruct (step <? 0) eqn:E; brk; try lia; nia. }
  assert (Hf : 0 <= fst (slice_indices start stop step len) <= len).
  { rewrite slice_indices_py by lia. cbn [fst].
    pose proof (py_a_range len start step ltac:(lia)) as Ha. destruct (step <? 0); lia. }
  unfold slice_indices_intermediates.
  set (f := fst _) in *. set (c := snd _) in *.
  unfold adjust, in_i128, i128_min, i128_max, u64_max, i64_min, i64_max in *.
  destruct start as [st|], stop as [sp|];
    try specialize (Hst _ eq_refl); try specialize (Hsp _ eq_refl);
    cbn [forallb]; brk; lia.
Qed.

(* subscripts *)
Theorem subscript_python_proof k items key :
  model_index k items key = if in_i64 key then py_index items key else None.
Proof.
  unfold model_index, py_index. destruct (in_i64 key) eqn:E; [|reflexivity]. cbn [negb].
  assert (0 <= lenZ items) by (unfold lenZ; lia).
  destruct (key <? 0) eqn:E1.
  - destruct (lenZ items <? - key) eqn:E2.
    + replace ((0 <=? key + lenZ items) && (key + lenZ items <? lenZ items)) with false by lia. reflexivity.
    + replace (lenZ items <=? lenZ items - - key) with false by lia.
      replace ((0 <=? key + lenZ items) && (key + lenZ items <? lenZ items)) with true by lia.
      f_equal. lia.
  - destruct (lenZ items <=? key) eqn:E2.
    + replace ((0 <=? key) && (key <? lenZ items)) with false by lia. reflexivity.
    + replace ((0 <=? key) && (key <? lenZ items)) with true by lia. reflexivity.
Qed.
