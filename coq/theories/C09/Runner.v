(* Executable entry points of the C09 model, in the integer-list protocol shared with the
   Rust harness (harness/src/bin/*.rs).  Encoders/decoders here are unverified glue of the
   correspondence check. *)
From Coq Require Import String.
From MJ Require Import Common.Base.
From MJ Require Import C09.Model C09.Spec.

Definition kind_of (z : Z) : kind :=
  match z with
  | 0 => KStr | 1 => KBytes | 2 => KTuple | 3 => KSeq | 4 => KLazySized
  | 9 | 11 | 12 => KStr      (* string literal in the source; safe string; Arc<str> string *)
  | 10 => KSeq               (* list literal in the source *)
  | _ => KLazyUnsized
  end.
(* input: kind mode st_tag st sp_tag sp se_tag se form n e1..en *)
Definition enc_slice (o : outcome (Z * list Z)) : list Z :=
  match o with
  | Ok (rk, l) => 0 :: rk :: lenZ l :: l
  | Err c => [1; c]
  | Panic => [2]
  | OutOfGas => [8]
  end.
(* composed operations (a slice, then a subscript or a second slice of its result):
   mode in [2, 34): subscript k = mode - 18;  mode >= 100: second slice number mode - 100 of [second_slices] *)
Definition second_slices : list (option Z * option Z * option Z) :=
  [ (None, None, Some (-1)); (Some 1, None, None); (None, Some (-1), None); (None, None, Some 2);
    (Some (-2), None, None); (Some 1, Some (-1), None); (Some (-1), None, Some (-1)); (Some 0, Some 2, None) ].
(* the kind of what a slice returns: strings, bytes and tuples keep their kind, everything else is a lazy iterable *)
Definition kind_after_slice (k : kind) : kind :=
  match k with KStr => KStr | KBytes => KBytes | KTuple => KTuple | _ => KLazySized end.
Definition enc_index (k : kind) (o : option Z) : list Z :=
  match o with
  | None => [3]
  | Some x => match k with KStr => [0; 0; 1; x] | _ => [4; x] end
  end.

Definition run (inp : list Z) : list Z :=
  match inp with
  | k :: mode :: t1 :: v1 :: t2 :: v2 :: t3 :: v3 :: form :: n :: elems =>
      let k := kind_of k in
      if mode =? 0 then enc_slice (model_slice k elems (dec_opt t1 v1) (dec_opt t2 v2) (dec_opt t3 v3))
      else if mode =? 1 then enc_index k (model_index k elems v1)
      else match model_slice k elems (dec_opt t1 v1) (dec_opt t2 v2) (dec_opt t3 v3) with
           | Ok (_, r) =>
               let k2 := kind_after_slice k in
               if mode <? 100 then enc_index k2 (model_index k2 r (mode - 18))
               else match nth_error second_slices (Z.to_nat (mode - 100)) with
                    | Some (a, b, c) => enc_slice (model_slice k2 r a b c)
                    | None => [9]
                    end
           | o => enc_slice o
           end
  | _ => [9]
  end.
(* the specification on its own: what Python selects *)
Definition spec (inp : list Z) : list Z :=
  match inp with
  | k :: mode :: t1 :: v1 :: t2 :: v2 :: t3 :: v3 :: form :: n :: elems =>
      let k := kind_of k in
      if mode =? 0 then
        let step := match dec_opt t3 v3 with None => 1 | Some s => s end in
        if step =? 0 then [1; E_InvalidOperation]
        else let r := py_slice elems (dec_opt t1 v1) (dec_opt t2 v2) step in 0 :: rkind k :: lenZ r :: r
      else if mode =? 1 then enc_index k (py_index elems v1)
      else
        let step := match dec_opt t3 v3 with None => 1 | Some s => s end in
        if step =? 0 then [1; E_InvalidOperation]
        else let r := py_slice elems (dec_opt t1 v1) (dec_opt t2 v2) step in
             let k2 := kind_after_slice k in
             if mode <? 100 then enc_index k2 (py_index r (mode - 18))
             else match nth_error second_slices (Z.to_nat (mode - 100)) with
                  | Some (a, b, c) =>
                      let step2 := match c with None => 1 | Some s => s end in
                      let r2 := py_slice r a b step2 in 0 :: rkind k2 :: lenZ r2 :: r2
                  | None => [9]
                  end
  | _ => [9]
  end.

Open Scope string_scope.
Definition runners : list (string * (list Z -> list Z)) :=
  [ ("c09", run); ("c09-spec", spec) ].
