(* Executable entry points of the C09 model, in the integer-list protocol shared with the
   Rust harness (harness/src/bin/*.rs).  Encoders/decoders here are unverified glue of the
   correspondence check. *)
From Coq Require Import String.
From MJ Require Import Common.Base.
From MJ Require Import C09.Model C09.Spec.

Definition kind_of (z : Z) : kind :=
  match z with 0 => KStr | 1 => KBytes | 2 => KTuple | 3 => KSeq | 4 => KLazySized | _ => KLazyUnsized end.
(* input: kind mode st_tag st sp_tag sp se_tag se form n e1..en *)
Definition enc_slice (o : outcome (Z * list Z)) : list Z :=
  match o with
  | Ok (rk, l) => 0 :: rk :: lenZ l :: l
  | Err c => [1; c]
  | Panic => [2]
  | OutOfGas => [8]
  end.
Definition run (inp : list Z) : list Z :=
  match inp with
  | k :: mode :: t1 :: v1 :: t2 :: v2 :: t3 :: v3 :: form :: n :: elems =>
      let k := kind_of k in
      if mode =? 0 then enc_slice (model_slice k elems (dec_opt t1 v1) (dec_opt t2 v2) (dec_opt t3 v3))
      else match model_index k elems v1 with
           | None => [3]
           | Some x => match k with KStr => [0; 0; 1; x] | _ => [4; x] end
           end
  | _ => [9]
  end.
(* the specification on its own: what Python selects *)
Definition spec (inp : list Z) : list Z :=
  match inp with
  | k :: mode :: t1 :: v1 :: t2 :: v2 :: t3 :: v3 :: form :: n :: elems =>
      let k := kind_of k in
      if mode =? 0 then
        let step := match dec_opt t3 v3 with None => 1 | Some s => s end in
        if step =? 0 then [1; E_InvalidOperation]
        else let r := py_slice elems (dec_opt t1 v1) (dec_opt t2 v2) step in 0 :: rkind k :: lenZ r :: r
      else match py_index elems v1 with
           | None => [3]
           | Some x => match k with KStr => [0; 0; 1; x] | _ => [4; x] end
           end
  | _ => [9]
  end.

Open Scope string_scope.
Definition runners : list (string * (list Z -> list Z)) :=
  [ ("c09", run); ("c09-spec", spec) ].
