(* C09 specification: Python's slice semantics (PySlice_AdjustIndices + index generation),
   written from the Python reference, over unbounded integers. *)
From MJ Require Import Common.Base.

Definition py_bound (len step : Z) (b : option Z) (dflt_pos dflt_neg : Z) : Z :=
  match b with
  | None => if step <? 0 then dflt_neg else dflt_pos
  | Some s =>
      if s <? 0 then
        let s' := s + len in
        if s' <? 0 then (if step <? 0 then -1 else 0) else s'
      else if len <=? s then (if step <? 0 then len - 1 else len) else s
  end.

Definition py_count (a b step : Z) : Z :=
  if 0 <? step then (if a <? b then (b - a - 1) / step + 1 else 0)
  else (if b <? a then (a - b - 1) / (- step) + 1 else 0).

(* the indices Python selects, in order *)
Definition py_indices (len : Z) (start stop : option Z) (step : Z) : list Z :=
  let a := py_bound len step start 0 (len - 1) in
  let b := py_bound len step stop len (-1) in
  map (fun i => a + Z.of_nat i * step) (seq 0 (Z.to_nat (py_count a b step))).

Definition py_slice (l : list Z) (start stop : option Z) (step : Z) : list Z :=
  map (fun i => nth (Z.to_nat i) l 0) (py_indices (lenZ l) start stop step).

(* Python subscript: None where Python raises IndexError *)
Definition py_index (l : list Z) (i : Z) : option Z :=
  let len := lenZ l in
  let j := if i <? 0 then i + len else i in
  if (0 <=? j) && (j <? len) then nth_error l (Z.to_nat j) else None.
