(* C10 -- character classes and list vocabulary shared by the model and the specification.
   Characters are Unicode code points ([Z]); strings are [list Z].  No proofs here. *)
From MJ Require Import Common.Base.

Notation str := (list Z) (only parsing).

Definition c_tab := 9.
Definition c_lf := 10.
Definition c_cr := 13.
Definition c_space := 32.
Definition c_plus := 43.
Definition c_minus := 45.

(* Unicode White_Space = Rust's [char::is_whitespace] (what [trim_end], [trim_start] and
   [skip_whitespace] remove) *)
Definition is_ws (c : Z) : bool :=
  ((9 <=? c) && (c <=? 13)) || (c =? 32) || (c =? 133) || (c =? 160) || (c =? 5760) ||
  ((8192 <=? c) && (c <=? 8202)) || (c =? 8232) || (c =? 8233) || (c =? 8239) || (c =? 8287) || (c =? 12288).
(* the two characters that end a line: LF and CR (CRLF is the two in sequence) *)
Definition is_nl (c : Z) : bool := (c =? c_lf) || (c =? c_cr).
(* horizontal whitespace: whitespace that does not end a line *)
Definition is_hws (c : Z) : bool := is_ws c && negb (is_nl c).

Fixpoint drop_while (p : Z -> bool) (l : str) : str :=
  match l with
  | [] => []
  | c :: r => if p c then drop_while p r else l
  end.
(* remove the longest suffix whose characters all satisfy [p] *)
Definition rstrip (p : Z -> bool) (l : str) : str := rev (drop_while p (rev l)).
Definition lstrip (p : Z -> bool) (l : str) : str := drop_while p l.

Fixpoint prefix_of (p l : str) : bool :=
  match p with
  | [] => true
  | a :: p' => match l with
               | [] => false
               | b :: l' => (a =? b) && prefix_of p' l'
               end
  end.

Definition is_nil {A} (l : list A) : bool := match l with [] => true | _ => false end.
