(* C10 -- [unparse] (segments to template source under a delimiter configuration), the view of the
   model's token stream that the specification talks about, and the decidable side conditions
   of the theorems.  Definitions only. *)
From MJ Require Import Common.Base C10.Chars C10.Spec C10.Model.

(* ---- unparse: the tags have fixed interiors ---- *)
Definition mark_str (m : mark) : str := match m with MNone => [] | MMinus => [c_minus] | MPlus => [c_plus] end.
Definition body_var : str := [32; 39; 86; 39; 32].                                   (* " 'V' " *)
Definition body_set : str := [32; 115; 101; 116; 32; 113; 32; 61; 32; 49; 32].       (* " set q = 1 " *)
Definition body_comment : str := [32; 99; 32].                                       (* " c " *)
Definition body_raw : str := [32; 114; 97; 119; 32].                                 (* " raw " *)
Definition body_endraw : str := [32; 101; 110; 100; 114; 97; 119; 32].               (* " endraw " *)
Definition body_line_set : str := [32; 115; 101; 116; 32; 113; 32; 61; 32; 49].      (* " set q = 1" *)
Definition body_line_comment : str := [32; 99].                                      (* " c" *)
Definition nl_str (n : nlstyle) : str :=
  match n with NlNone => [] | NlLF => [c_lf] | NlCRLF => [c_cr; c_lf] | NlCR => [c_cr] end.

Definition tag_src (d : delims) (k : tagkind) (l r : mark) : str :=
  match k with
  | KVar => var_s d ++ mark_str l ++ body_var ++ mark_str r ++ var_e d
  | KBlock => block_s d ++ mark_str l ++ body_set ++ mark_str r ++ block_e d
  | KComment => com_s d ++ mark_str l ++ body_comment ++ mark_str r ++ com_e d
  end.
Definition raw_open_src (d : delims) (l r : mark) : str := block_s d ++ mark_str l ++ body_raw ++ mark_str r ++ block_e d.
Definition raw_close_src (d : delims) (l r : mark) : str := block_s d ++ mark_str l ++ body_endraw ++ mark_str r ++ block_e d.
Definition line_src (d : delims) (k : linekind) (trail : str) (nl : nlstyle) : str :=
  match k with
  | LStmt => line_s d ++ body_line_set ++ trail ++ nl_str nl
  | LComment => line_c d ++ body_line_comment ++ trail ++ nl_str nl
  end.

Definition unparse_seg (d : delims) (s : seg) : str :=
  match s with
  | Text t => t
  | Tag k l r => tag_src d k l r
  | Raw l1 r1 c l2 r2 => raw_open_src d l1 r1 ++ c ++ raw_close_src d l2 r2
  | Line k t nl => line_src d k t nl
  end.
Fixpoint unparse (d : delims) (segs : list seg) : str :=
  match segs with
  | [] => []
  | s :: r => unparse_seg d s ++ unparse d r
  end.

(* ---- what the specification sees of a token stream: non-empty text chunks and tag kinds ---- *)
Fixpoint view (l : list item) : list eitem :=
  match l with
  | [] => []
  | IText [] :: r => view r
  | IText s :: r => EText s :: view r
  | IVar _ :: r => EVar :: view r
  | IBlock _ :: r => EBlock :: view r
  end.

(* ---- side conditions ---- *)
Definition starts_at (d : delims) (l : str) : bool := existsb (fun pm => prefix_of (fst pm) l) (patterns d).
(* no start delimiter (or line prefix) begins inside [t], not even one that runs over into what follows *)
Fixpoint no_start_in (d : delims) (t following : str) : bool :=
  match t with
  | [] => true
  | _ :: r => negb (starts_at d (t ++ following)) && no_start_in d r following
  end.

Definition body_token_chars : list Z := [39; 86; 115; 101; 116; 113; 61; 49; 99; 114; 97; 119; 110; 100].
Definition end_delim_ok (e : str) : bool :=
  match e with
  | [] => false
  | c :: _ =>
      negb (is_ascii_ws c) && negb (c =? c_minus) && negb (c =? c_plus) && negb (existsb (Z.eqb c) body_token_chars)
      && match rev e with x :: _ => negb (is_ws x) | [] => false end
  end.
(* the comment end is found where the comment ends, for each marker *)
Definition comment_end_ok (e : str) : bool :=
  forallb (fun m => match find_sub e (body_comment ++ mark_str m ++ e) 0 with
                    | Some i => i =? lenZ (body_comment ++ mark_str m)
                    | None => false
                    end) [MNone; MMinus; MPlus].
(* a start delimiter occurs inside another one only as a prefix or a suffix (`<%` in `<%=`, `<<` in `<<<`,
   `#` in `{#`), never ending strictly inside it; a line statement prefix may, when the character before
   it rules out the start of a line (`%` in `<%=`) *)
Definition blank_or_nl (c : Z) : bool := (c =? c_space) || (c =? c_tab) || (c =? c_cr) || (c =? c_lf).
Fixpoint occurs_inside (exempt_line : bool) (p : str) (before : Z) (q : str) : bool :=
  match q with
  | [] => false
  | a :: r => (prefix_of p r && (lenZ p <? lenZ r) && (negb exempt_line || blank_or_nl a)) || occurs_inside exempt_line p a r
  end.
Definition infix_free (d : delims) : bool :=
  forallb (fun p => forallb (fun q => negb (occurs_inside (match snd p with MkLineStmt => true | _ => false end) (fst p) 0 (fst q)))
                            (patterns d)) (patterns d).

Definition start_delim_ok (p : str) : bool := match p with c :: _ => negb (is_ws c) | [] => false end.

Definition wf_delims (d : delims) : bool :=
  valid_config fixed d && end_delim_ok (block_e d) && end_delim_ok (var_e d) && end_delim_ok (com_e d)
  && comment_end_ok (com_e d) && infix_free d && forallb (fun pm => start_delim_ok (fst pm)) (patterns d).

(* the start delimiter [s] of a tag, followed by [following], is not the beginning of a longer one *)
Definition not_extended (d : delims) (s following : str) : bool :=
  forallb (fun pm => negb (prefix_of (fst pm) (s ++ following)) || (lenZ (fst pm) <=? lenZ s)) (patterns d).

(* the recogniser of line statements accepts only spaces and tabs as indentation *)
Definition is_blank (c : Z) : bool := (c =? c_space) || (c =? c_tab).
Definition at_line_start_simple (bol : bool) (t : str) : bool :=
  match rev (rstrip is_blank t) with
  | [] => bol
  | c :: _ => is_nl c
  end.

(* raw content: a block start inside it does not begin an endraw tag and does not run over into the real one *)
Definition is_none {A} (o : option A) : bool := match o with None => true | Some _ => false end.
Fixpoint raw_content_ok (d : delims) (c following : str) : bool :=
  match c with
  | [] => true
  | _ :: r =>
      (if prefix_of (block_s d) (c ++ following)
       then is_none (skip_basic_tag (skipZ (lenZ (block_s d)) (c ++ following)) s_endraw (block_e d) true)
            && (lenZ (block_s d) <=? lenZ c)
       else true)
      && raw_content_ok d r following
  end.

Definition tag_start (d : delims) (k : tagkind) : str :=
  match k with KVar => var_s d | KBlock => block_s d | KComment => com_s d end.
Definition line_start (d : delims) (k : linekind) : str := match k with LStmt => line_s d | LComment => line_c d end.

(* [bol]: is the position before the first segment at the start of a line (spaces and tabs aside)?
   [after_text]: was the previous segment a text (two texts in a row are not allowed, nor are empty texts)? *)
Fixpoint wf_segs (d : delims) (bol after_text : bool) (segs : list seg) : bool :=
  match segs with
  | [] => true
  | Text t :: r =>
      negb after_text && negb (is_nil t) && no_start_in d t (unparse d r) && wf_segs d (at_line_start_simple bol t) true r
  | Tag k l m :: r =>
      not_extended d (tag_start d k) (skipZ (lenZ (tag_start d k)) (unparse d (Tag k l m :: r)))
      && wf_segs d false false r
  | Raw l1 r1 c l2 r2 :: r =>
      not_extended d (block_s d) (skipZ (lenZ (block_s d)) (unparse d (Raw l1 r1 c l2 r2 :: r)))
      && raw_content_ok d c (raw_close_src d l2 r2 ++ unparse d r)
      && wf_segs d false false r
  | Line k t nl :: r =>
      negb (is_nil (line_start d k))
      && match k with LStmt => bol | LComment => true end
      && forallb is_blank t
      && match nl with
         | NlNone => is_nil r
         | NlCR => match unparse d r with c :: _ => negb (c =? c_lf) | [] => true end
         | _ => true
         end
      && not_extended d (line_start d k) (skipZ (lenZ (line_start d k)) (unparse d (Line k t nl :: r)))
      && wf_segs d (match nl with NlNone => false | _ => true end) false r
  end.

(* the domain of theorem texts_verbatim: well-formed delimiters, well-formed segments, and -- when the trailing
   newline is removed -- well-formed segments after its removal *)
Definition wf_case (d : delims) (keep_nl : bool) (segs : list seg) : bool :=
  wf_delims d && wf_segs d true false segs && (keep_nl || wf_segs d true false (clip_segs segs)).
