(* C10 model: the template-level tokenizer of minijinja/src/compiler/lexer.rs, restricted to
   what decides the text output, mirroring the code AS IT IS (after the five `fix:` commits
   recorded in known/C10.json; the behaviour before each fix is kept behind a [quirks] flag so
   that the defects stay exhibited by closed [vm_compute] examples in Proofs.v).

     Tokenizer::new                      -> [strip_source]
     find_start_marker_memchr            -> [find_memchr]
     find_start_marker (custom_syntax)   -> [find_ac]   (see AHO-CORASICK below)
     lstrip_block / should_lstrip_block  -> [lstrip_block] / [should_lstrip]
     skip_basic_tag                      -> [skip_basic_tag]
     tokenize_root + handle_start_marker -> one iteration of [toks]
     handle_raw_tag                      -> [raw_tag]
     handle_tail_ws / skip_newline_if_trim_blocks / trim_leading_whitespace -> [tail_ws] / [skip_trim_nl] / [tl] flag
     tokenize_block_or_var               -> [scan] (only as far as needed to find the end of a tag: token
                                            boundaries, strings, parens; anything whose lexing is not modelled
                                            -- escapes in strings, floats, radix numbers, non-ASCII -- is [FOOS])
     SyntaxConfigBuilder::build          -> [valid_config]

   Strings are code-point lists; the code works on UTF-8 bytes.  Every comparison the code makes
   on bytes is against ASCII bytes or whole delimiters, so byte-level and code-point-level
   searches coincide on valid UTF-8; offsets are reported in code points by the harness.

   AHO-CORASICK.  The automaton (crate aho-corasick, overlapping search, MatchKind::Standard) is
   third-party code and is SPECIFIED here, not modelled: [find_ac] assumes that
   [find_overlapping] reports the matches of the haystack ordered by end position and, for equal
   end positions, longest first.  On top of that enumeration the loop of [find_start_marker]
   (replace the candidate while the start does not increase, stop at the first later start,
   `continue` for a line statement prefix that is not at the start of a line) is mirrored
   literally.  Agreement of the real automaton with this specification is a correspondence
   obligation (delimiter families with shared prefixes exercise it). *)
From MJ Require Import Common.Base C10.Chars.

Record delims := {
  block_s : str; block_e : str;
  var_s : str; var_e : str;
  com_s : str; com_e : str;
  line_s : str;     (* line statement prefix, [] = not configured *)
  line_c : str      (* line comment prefix, [] = not configured *)
}.

Record wsconfig := { trim : bool; lstrip_b : bool; keep : bool }.

(* behaviour before the fixes (all false = the code as it is now) *)
Record quirks := {
  q_raw_lstrip : bool;    (* handle_raw_tag lstrips the raw content without the start-of-line test *)
  q_lf_only : bool;       (* lstrip_block accepts only LF as the line ending before the indentation *)
  q_skipnl_swapped : bool;(* skip_nl strips LF then CR (so CRLF loses only its CR) *)
  q_empty_end : bool;     (* build() accepts empty end delimiters *)
  q_line_blank : bool     (* without lstrip_blocks a line comment strips the blanks before it without the start-of-line test *)
}.
Definition fixed : quirks := {| q_raw_lstrip := false; q_lf_only := false; q_skipnl_swapped := false; q_empty_end := false; q_line_blank := false |}.
Definition before_fixes : quirks := {| q_raw_lstrip := true; q_lf_only := true; q_skipnl_swapped := true; q_empty_end := true; q_line_blank := true |}.

Record cfg := { dl : delims; wsc : wsconfig; qk : quirks }.

Definition default_delims : delims :=
  {| block_s := [123; 37]; block_e := [37; 125]; var_s := [123; 123]; var_e := [125; 125];
     com_s := [123; 35]; com_e := [35; 125]; line_s := []; line_c := [] |}.

Fixpoint str_eqb (a b : str) : bool :=
  match a, b with
  | [], [] => true
  | x :: a', y :: b' => (x =? y) && str_eqb a' b'
  | _, _ => false
  end.
Definition delims_eqb (a b : delims) : bool :=
  str_eqb (block_s a) (block_s b) && str_eqb (block_e a) (block_e b) && str_eqb (var_s a) (var_s b) &&
  str_eqb (var_e a) (var_e b) && str_eqb (com_s a) (com_s b) && str_eqb (com_e a) (com_e b) &&
  str_eqb (line_s a) (line_s b) && str_eqb (line_c a) (line_c b).

(* ---- SyntaxConfigBuilder::build / Delims::validated_start_delims ---- *)
Definition mem_str (s : str) (l : list str) : bool := existsb (str_eqb s) l.
Fixpoint validated_starts (l : list (str * bool)) (acc : list str) : bool :=
  match l with
  | [] => true
  | (d, required) :: r =>
      if is_nil d then (if required then false else validated_starts r acc)
      else if mem_str d acc then false
      else validated_starts r (acc ++ [d])
  end.
Definition valid_config (q : quirks) (d : delims) : bool :=
  if delims_eqb d default_delims then true
  else
    (q_empty_end q || (negb (is_nil (var_e d)) && negb (is_nil (block_e d)) && negb (is_nil (com_e d)))) &&
    validated_starts [(var_s d, true); (block_s d, true); (com_s d, true); (line_s d, false); (line_c d, false)] [].

(* ---- markers ---- *)
Inductive marker := MkVar | MkBlock | MkComment | MkLineStmt | MkLineComment.
Inductive wsm := WDefault | WPreserve | WRemove.
Definition ws_of (c : option Z) : wsm :=
  match c with
  | Some x => if x =? c_minus then WRemove else if x =? c_plus then WPreserve else WDefault
  | None => WDefault
  end.
Definition ws_len (w : wsm) : Z := match w with WDefault => 0 | _ => 1 end.

Definition mtch := (Z * marker * Z * wsm)%type.   (* start, marker, length incl. the -/+ sign, sign *)

(* ---- find_start_marker_memchr ---- *)
Fixpoint find_memchr (l : str) (i : Z) : option mtch :=
  match l with
  | [] => None
  | c :: r =>
      if c =? 123 then
        match r with
        | d :: r2 =>
            let mk := if d =? 123 then Some MkVar else if d =? 37 then Some MkBlock
                      else if d =? 35 then Some MkComment else None in
            match mk with
            | Some m => let w := ws_of (hd_error r2) in Some (i, m, 2 + ws_len w, w)
            | None => find_memchr r (i + 1)
            end
        | [] => None
        end
      else find_memchr r (i + 1)
  end.

(* ---- find_start_marker with an Aho-Corasick automaton ---- *)
Definition pat := (str * Z * marker)%type.     (* reversed pattern, length, marker *)
Definition patterns (d : delims) : list (str * marker) :=
  [(var_s d, MkVar); (block_s d, MkBlock); (com_s d, MkComment)]
  ++ (if is_nil (line_s d) then [] else [(line_s d, MkLineStmt)])
  ++ (if is_nil (line_c d) then [] else [(line_c d, MkLineComment)]).
Fixpoint insert_pat (p : pat) (l : list pat) : list pat :=
  match l with
  | [] => [p]
  | q :: r => if snd (fst q) <? snd (fst p) then p :: l else q :: insert_pat p r
  end.
(* longest first (stable) *)
Definition sorted_pats (d : delims) : list pat :=
  fold_right insert_pat [] (map (fun pm => (rev (fst pm), lenZ (fst pm), snd pm)) (patterns d)).

(* the `prefix.iter().rev().find(|x| x != ' ' && x != '\t')` test of a line statement prefix *)
Fixpoint line_start_simple (rb : str) : bool :=
  match rb with
  | [] => true
  | c :: r => if (c =? c_space) || (c =? c_tab) then line_start_simple r
              else (c =? c_cr) || (c =? c_lf)
  end.

(* one match reported by the automaton: the loop body of find_start_marker.
   returns (candidate, stop) *)
Definition ac_body (gb lb : str) (e : Z) (next : option Z) (best : option mtch) (p : pat) : option mtch * bool :=
  let '(rp, len, mk) := p in
  if prefix_of rp lb then
    let start := e - len in
    let w := match mk with
             | MkLineStmt => if line_start_simple (skipZ len lb ++ gb) then Some WDefault else None
             | _ => Some (ws_of next)
             end in
    match w with
    | None => (best, false)                                  (* `continue` *)
    | Some w =>
        let nm := (start, mk, len + ws_len w, w) in
        match best with
        | Some (bs, _, _, _) => if bs <? start then (best, true) else (Some nm, false)
        | None => (Some nm, false)
        end
    end
  else (best, false).

Fixpoint ac_cands (gb lb : str) (e : Z) (next : option Z) (best : option mtch) (ps : list pat) : option mtch * bool :=
  match ps with
  | [] => (best, false)
  | p :: r => let '(b, stop) := ac_body gb lb e next best p in
              if stop then (b, true) else ac_cands gb lb e next b r
  end.

(* gb: reversed source before the haystack; lb: reversed haystack consumed so far; e = length lb *)
Fixpoint ac_loop (ps : list pat) (gb lb : str) (e : Z) (rest : str) (best : option mtch) : option mtch :=
  let '(b, stop) := ac_cands gb lb e (hd_error rest) best ps in
  if stop then b
  else match rest with
       | [] => b
       | c :: r => ac_loop ps gb (c :: lb) (e + 1) r b
       end.

Definition find_ac (d : delims) (rb rest : str) : option mtch := ac_loop (sorted_pats d) rb [] 0 rest None.

Definition find_start_marker (d : delims) (rb rest : str) : option mtch :=
  if delims_eqb d default_delims then find_memchr rest 0 else find_ac d rb rest.

(* ---- lstrip_block / should_lstrip_block ---- *)
Definition lstrip_block (q : quirks) (s : str) : str :=
  let rt := drop_while is_hws (rev s) in       (* reversed `trimmed` *)
  match rt with
  | [] => []
  | c :: _ => if (c =? c_lf) || (negb (q_lf_only q) && (c =? c_cr)) then rev rt else s
  end.

Fixpoint scan_line_start (rb : str) : bool :=
  match rb with
  | [] => true
  | c :: r => if is_nl c then true else if is_ws c then scan_line_start r else false
  end.
Definition should_lstrip (q : quirks) (flag : bool) (mk : marker) (rb : str) : bool :=
  let is_line := match mk with MkLineStmt | MkLineComment => true | _ => false end in
  let is_var := match mk with MkVar => true | _ => false end in
  if q_line_blank q then
    (if flag && negb is_var then scan_line_start rb else is_line)
  else
    (if (flag || is_line) && negb is_var then scan_line_start rb else false).

(* ---- small string helpers ---- *)
Definition nthZ (n : Z) (l : str) : option Z := hd_error (skipZ n l).
Definition strip_prefix (p l : str) : option str := if prefix_of p l then Some (skipZ (lenZ p) l) else None.
Fixpoint find_sub (needle hay : str) (i : Z) : option Z :=
  if prefix_of needle hay then Some i
  else match hay with
       | [] => None
       | _ :: r => find_sub needle r (i + 1)
       end.
Definition is_ascii_ws (c : Z) : bool := (c =? 32) || (c =? 9) || (c =? 10) || (c =? 12) || (c =? 13).

(* position state: reversed consumed source, rest, offset (code points) *)
Notation pos := (list Z * list Z * Z)%type (only parsing).
Definition advance (n : Z) (p : pos) : pos :=
  let '(rb, rest, off) := p in (rev_append (takeZ n rest) rb, skipZ n rest, off + n).

Definition skip_whitespace (p : pos) : pos :=
  let '(rb, rest, off) := p in
  let r' := drop_while is_ws rest in
  let n := lenZ rest - lenZ r' in
  advance n p.

Definition skip_trim_nl (c : cfg) (p : pos) : pos :=
  if trim (wsc c) then
    let p1 := match p with (_, x :: _, _) => if x =? c_cr then advance 1 p else p | _ => p end in
    match p1 with (_, x :: _, _) => if x =? c_lf then advance 1 p1 else p1 | _ => p1 end
  else p.

(* handle_tail_ws: new position and the trim_leading_whitespace flag *)
Definition tail_ws (c : cfg) (w : wsm) (p : pos) : pos * bool :=
  match w with
  | WPreserve => (p, false)
  | WDefault => (skip_trim_nl c p, false)
  | WRemove => (p, true)
  end.

(* ---- skip_basic_tag: Some (consumed, sign before the end delimiter) ---- *)
Definition skip_basic_tag (s name block_end : str) (skip_ws_control : bool) : option (Z * wsm) :=
  let p0 := if skip_ws_control then
              match s with c :: r => if (c =? c_minus) || (c =? c_plus) then r else s | [] => s end
            else s in
  let p1 := drop_while is_ascii_ws p0 in
  match strip_prefix name p1 with
  | None => None
  | Some p2 =>
      let p3 := drop_while is_ascii_ws p2 in
      let '(w, p4) := match p3 with
                      | c :: r => if c =? c_minus then (WRemove, r) else if c =? c_plus then (WPreserve, r) else (WDefault, p3)
                      | [] => (WDefault, p3)
                      end in
      match strip_prefix block_end p4 with
      | Some p5 => Some (lenZ s - lenZ p5, w)
      | None => None
      end
  end.

Definition s_raw : str := [114; 97; 119].
Definition s_endraw : str := [101; 110; 100; 114; 97; 119].

(* ---- skip_nl ---- *)
Definition skip_nl (q : quirks) (rest : str) : bool * Z :=
  let a := if q_skipnl_swapped q then c_lf else c_cr in
  let b := if q_skipnl_swapped q then c_cr else c_lf in
  let '(r1, n1) := match rest with c :: r => if c =? a then (r, 1) else (rest, 0) | [] => (rest, 0) end in
  let '(r2, n2) := match r1 with c :: r => if c =? b then (r, n1 + 1) else (r1, n1) | [] => (r1, n1) end in
  ((0 <? n2) || is_nil r2, n2).

(* ---- tokenize_block_or_var, as far as the end of the tag ---- *)
Inductive sentinel := SVar | SBlock | SLine.
Inductive smode := Normal | Skip1 | InStr (d : Z) (esc : bool) | InIdent | InNum (k : nat).
Inductive tailact := TNone | TMinus | TTrimNl.
Inductive scan_out :=
| ScEnd (rb rest : str) (off : Z) (t : tailact)
| ScEof           (* the source ends inside the tag: the token stream just ends *)
| ScErr (code : Z)
| ScOOS.          (* lexing of the tag's interior is outside the model *)

Definition is_digit (c : Z) : bool := (48 <=? c) && (c <=? 57).
Definition is_alpha (c : Z) : bool := ((65 <=? c) && (c <=? 90)) || ((97 <=? c) && (c <=? 122)).
Definition is_ident_start (c : Z) : bool := is_alpha c || (c =? 95).
Definition is_ident_cont (c : Z) : bool := is_alpha c || is_digit c || (c =? 95).

Definition two_char_op (a b : Z) : bool :=
  ((a =? 47) && (b =? 47)) || ((a =? 42) && (b =? 42)) || ((a =? 61) && (b =? 61)) ||
  ((a =? 33) && (b =? 61)) || ((a =? 62) && (b =? 61)) || ((a =? 60) && (b =? 61)).
(* + - * / % . , : ~ | = > < *)
Definition one_char_op (a : Z) : bool :=
  existsb (Z.eqb a) [43; 45; 42; 47; 37; 46; 44; 58; 126; 124; 61; 62; 60].
Definition paren_delta (a : Z) : Z :=
  if (a =? 40) || (a =? 91) || (a =? 123) then 1
  else if (a =? 41) || (a =? 93) || (a =? 125) then -1 else 0.

(* the end-of-tag tests made at a token boundary with paren_balance = 0 *)
Definition end_check (c : cfg) (s : sentinel) (l : str) : option (Z * tailact) :=
  let try_end (e : str) (plain : tailact) :=
    match l with
    | x :: r =>
        if ((x =? c_minus) || (x =? c_plus)) && prefix_of e r
        then Some (lenZ e + 1, if x =? c_minus then TMinus else TNone)
        else if prefix_of e l then Some (lenZ e, plain) else None
    | [] => if prefix_of e l then Some (lenZ e, plain) else None
    end in
  match s with
  | SBlock => try_end (block_e (dl c)) TTrimNl
  | SVar => try_end (var_e (dl c)) TNone
  | SLine => None
  end.
(* the line statement end test: blanks, then a newline or the end of the source *)
Definition line_end_check (c : cfg) (l : str) : option Z :=
  let r := drop_while is_hws l in
  let '(was_nl, n) := skip_nl (qk c) r in
  if was_nl then Some (lenZ l - lenZ r + n) else None.

(* what the lexer does with the first character of [l] *)
Inductive action := AEnd (n : Z) (t : tailact) | AStep (m : smode) (dparen : Z) | AErr (code : Z) | AOOS.

(* at a token boundary (the top of tokenize_block_or_var) *)
Definition token_action (c : cfg) (s : sentinel) (paren : Z) (l : str) : action :=
  match l with
  | [] => AOOS
  | a :: r =>
      match (if paren =? 0 then match s with SLine => line_end_check c l | _ => None end else None) with
      | Some n => AEnd n TNone
      | None =>
          if is_ascii_ws a then AStep Normal 0
          else
            match (if paren =? 0 then end_check c s l else None) with
            | Some (n, t) => AEnd n t
            | None =>
                if 128 <=? a then AOOS
                else if match r with b :: _ => two_char_op a b | [] => false end then AStep Skip1 0
                else if one_char_op a then AStep Normal 0
                else if negb (paren_delta a =? 0) then AStep Normal (paren_delta a)
                else if (a =? 39) || (a =? 34) then AStep (InStr a false) 0
                else if is_digit a then AStep (InNum 1) 0
                else if is_ident_start a then AStep InIdent 0
                else AErr E_SyntaxError
            end
      end
  end.

Definition char_action (c : cfg) (s : sentinel) (m : smode) (paren : Z) (l : str) : action :=
  match l with
  | [] => AOOS
  | a :: _ =>
      match m with
      | Normal => token_action c s paren l
      | Skip1 => AStep Normal 0                      (* second character of a two-character operator *)
      | InStr d esc =>
          if esc then AOOS
          else if a =? 92 then AOOS                   (* escapes: unescape() is not modelled *)
          else if a =? d then AStep Normal 0
          else AStep (InStr d false) 0
      | InIdent =>
          if 128 <=? a then AOOS
          else if is_ident_cont a then AStep InIdent 0
          else token_action c s paren l
      | InNum k =>
          if is_digit a then (if (18 <=? k)%nat then AOOS else AStep (InNum (S k)) 0)
          else if is_alpha a || (a =? 95) || (a =? 46) || (128 <=? a) then AOOS   (* floats, radix, digit separators *)
          else token_action c s paren l
      end
  end.

Fixpoint scan (c : cfg) (s : sentinel) (m : smode) (paren : Z) (rb l : str) (off : Z) : scan_out :=
  match l with
  | [] =>
      match m with
      | InStr _ _ => ScErr E_SyntaxError
      | _ => match s with SLine => ScEnd rb [] off TNone | _ => ScEof end
      end
  | a :: r =>
      match char_action c s m paren l with
      | AEnd n t => let '(rb', rest', off') := advance n (rb, l, off) in ScEnd rb' rest' off' t
      | AStep m' dp => scan c s m' (paren + dp) (a :: rb) r (off + 1)
      | AErr code => ScErr code
      | AOOS => ScOOS
      end
  end.

(* ---- items and endings of the token stream ---- *)
Inductive item := IText (s : str) | IVar (off : Z) | IBlock (off : Z).
Inductive fin := FOk | FEof | FErr (code : Z) | FPanic | FOOS | FGas.

Definition text_item (s : str) : list item := match s with [] => [] | _ => [IText s] end.

(* what happens after one iteration at template level *)
Inductive next := Stop (e : fin) | Cont (p : pos) (tl : bool).
Definition cont_of (pt : pos * bool) : next := Cont (fst pt) (snd pt).

(* ---- handle_raw_tag: position just after the raw tag; the content chunk and what follows the endraw tag.
   [wait]: characters still covered by a block start whose endraw test failed (memstr resumes after it) ---- *)
Definition raw_finish (c : cfg) (ws_start : wsm) (rb0 acc l : str) (off0 : Z) : option (str * next) :=
  let bs := block_s (dl c) in
  let after_bs := skipZ (lenZ bs) l in
  match skip_basic_tag after_bs s_endraw (block_e (dl c)) true with
  | Some (endraw, ws_next) =>
      let ws := ws_of (hd_error after_bs) in
      let content := rev acc in
      let r1 := match ws_start with
                | WDefault =>
                    if trim (wsc c) then
                      let a := match content with x :: t => if x =? c_cr then t else content | [] => content end in
                      match a with x :: t => if x =? c_lf then t else a | [] => a end
                    else content
                | WRemove => drop_while is_ws content
                | WPreserve => content
                end in
      let r2 := match ws with
                | WDefault =>
                    if q_raw_lstrip (qk c)
                    then (if lstrip_b (wsc c) then lstrip_block (qk c) r1 else r1)
                    else if should_lstrip (qk c) (lstrip_b (wsc c)) MkBlock (acc ++ rb0) then lstrip_block (qk c) r1 else r1
                | WRemove => rstrip is_ws r1
                | WPreserve => r1
                end in
      let p := advance (lenZ bs + endraw) (acc ++ rb0, l, off0 + lenZ acc) in
      Some (r2, cont_of (tail_ws c ws_next p))
  | None => None
  end.

Fixpoint raw_search (c : cfg) (ws_start : wsm) (rb0 : str) (acc : str) (* reversed content so far *) (l : str) (off0 : Z)
    (wait : nat) : option (str * next) :=
  let here := match wait with
              | O => if prefix_of (block_s (dl c)) l then Some (raw_finish c ws_start rb0 acc l off0) else None
              | S _ => None
              end in
  match here with
  | Some (Some x) => Some x
  | _ =>
      match l with
      | [] => None
      | a :: r =>
          let wait' := match here, wait with
                       | Some None, _ => pred (length (block_s (dl c)))
                       | _, S w => w
                       | _, O => O
                       end in
          raw_search c ws_start rb0 (a :: acc) r off0 wait'
      end
  end.

(* ---- the end of a variable / block tag / line statement ---- *)
Definition after_scan (c : cfg) (o : scan_out) : next :=
  match o with
  | ScEnd rb' rest' off' t =>
      match t with
      | TNone => Cont (rb', rest', off') false
      | TMinus => Cont (rb', rest', off') true
      | TTrimNl => Cont (skip_trim_nl c (rb', rest', off')) false
      end
  | ScEof => Stop FEof
  | ScErr code => Stop (FErr code)
  | ScOOS => Stop FOOS
  end.

(* ---- handle_start_marker at [pm] (the position of the start delimiter); [len] covers the delimiter and its sign ---- *)
Definition handle_start_marker (c : cfg) (mk : marker) (len : Z) (pm : pos) : list item * next :=
  let '(_, after, offm) := pm in
  match mk with
  | MkComment =>
      if is_nil (com_e (dl c)) then ([], Stop FPanic)                 (* memstr: windows(0) *)
      else match find_sub (com_e (dl c)) (skipZ len after) 0 with
           | Some e =>
               let w2 := ws_of (nthZ (Z.max (e - 1) 0 + len) after) in
               ([], cont_of (tail_ws c w2 (advance (e + len + lenZ (com_e (dl c))) pm)))
           | None => ([], Stop (FErr E_SyntaxError))
           end
  | MkVar =>
      let '(rb1, rest1, off1) := advance len pm in
      ([IVar offm], after_scan c (scan c SVar Normal 0 rb1 rest1 off1))
  | MkBlock =>
      match skip_basic_tag (skipZ len after) s_raw (block_e (dl c)) false with
      | Some (raw, ws_start) =>
          let '(rb1, rest1, off1) := advance (raw + len) pm in
          match raw_search c ws_start rb1 [] rest1 off1 O with
          | Some (chunk, nx) => ([IText chunk], nx)
          | None => ([], Stop (FErr E_SyntaxError))
          end
      | None =>
          let '(rb1, rest1, off1) := advance len pm in
          ([IBlock offm], after_scan c (scan c SBlock Normal 0 rb1 rest1 off1))
      end
  | MkLineStmt =>
      let '(rb1, rest1, off1) := advance len pm in
      ([IBlock offm], after_scan c (scan c SLine Normal 0 rb1 rest1 off1))
  | MkLineComment =>
      let body := skipZ len after in
      let r := drop_while (fun x => negb (is_nl x)) body in
      let '(_, n) := skip_nl (qk c) r in
      ([], Cont (advance (len + (lenZ body - lenZ r) + n) pm) false)
  end.

(* ---- one iteration of tokenize_root (+ handle_start_marker for the marker it found) ---- *)
Definition root_step (c : cfg) (p : pos) (tl : bool) : list item * next :=
  let '(rb, rest, off) := if tl then skip_whitespace p else p in
  match find_start_marker (dl c) rb rest with
  | None => (text_item rest, Stop FOk)
  | Some (start, mk, len, w) =>
      let peeked := takeZ start rest in
      let pm := advance start (rb, rest, off) in
      let lead :=
        match w with
        | WDefault => if should_lstrip (qk c) (lstrip_b (wsc c)) mk (fst (fst pm)) then lstrip_block (qk c) peeked else peeked
        | WPreserve => peeked
        | WRemove => rstrip is_ws peeked
        end in
      let '(its, nx) := handle_start_marker c mk len pm in
      (text_item lead ++ its, nx)
  end.

(* ---- the template-level loop ---- *)
Fixpoint toks (fuel : nat) (c : cfg) (p : pos) (tl : bool) : list item * fin :=
  match fuel with
  | O => ([], FGas)
  | S f =>
      match p with
      | (_, [], _) => ([], FOk)
      | _ =>
          match root_step c p tl with
          | (its, Stop e) => (its, e)
          | (its, Cont p' tl') => let '(r, e) := toks f c p' tl' in (its ++ r, e)
          end
      end
  end.

(* ---- Tokenizer::new: one trailing LF, then one trailing CR, unless keep_trailing_newline ---- *)
Definition strip_source (w : wsconfig) (src : str) : str :=
  if keep w then src
  else
    let r := rev src in
    let r1 := match r with x :: t => if x =? c_lf then t else r | [] => r end in
    let r2 := match r1 with x :: t => if x =? c_cr then t else r1 | [] => r1 end in
    rev r2.

Definition tokenize (c : cfg) (src : str) : list item * fin :=
  let s := strip_source (wsc c) src in
  toks (S (length s)) c ([], s, 0) false.

(* Environment::set_syntax(builder.build()?) followed by tokenizing *)
Definition tokenize_checked (c : cfg) (src : str) : outcome (list item * fin) :=
  if valid_config (qk c) (dl c) then Ok (tokenize c src) else Err E_InvalidDelimiter.
