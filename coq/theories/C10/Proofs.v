(* C10 -- lemmas and proofs.

   Plan of the file
     1. the five defects of the unchanged code as closed computations on the model with the old behaviour
     2. lists, prefix_of, takeZ/skipZ/advance                                   (lenZ_app ... drop_while_id)
     3. the start-marker search for the default delimiters is leftmost           (finder_ok, finder_ok_default)
     4. scanning the fixed tag interiors up to the end delimiter                 (scan_var_body, scan_set_body)
     5. what the tail action of a tag and trim_leading_whitespace do to a text   (left_phase), lstrip_block
     6. handle_start_marker for each kind of tag                                 (hsm_var ... hsm_raw, hsm_seg)
     7. one iteration of the template loop = one text + one tag of the spec      (root_step_text_marker, toks_step)
     8. induction over the segment list                                          (toks_segs)
     9. Tokenizer::new versus rule 1 of the specification                        (strip_unparse)
    10. the search loop over the specified Aho-Corasick enumeration is leftmost  (find_ac_found, finder_ok_all)
    11. the theorems                                                             (texts_verbatim_proof, no_panic_proof) *)
From MJ Require Import Common.Base Common.ListLemmas C10.Chars C10.Spec C10.Model C10.Domain.

(* ------------------------------------------------------------------------------------------
   The defects of the code before the `fix:` commits, exhibited on the model with the
   corresponding quirk switched on (closed computations).
   ------------------------------------------------------------------------------------------ *)
Definition ws_lstrip_only : wsconfig := {| trim := false; lstrip_b := true; keep := false |}.
Definition st_lstrip_only : settings := {| trim_blocks := false; lstrip_blocks := true; keep_trailing_newline := false |}.
Definition cfg_of (d : delims) (w : wsconfig) (q : quirks) : cfg := {| dl := d; wsc := w; qk := q |}.
Definition line_delims : delims :=
  {| block_s := [123; 37]; block_e := [37; 125]; var_s := [123; 123]; var_e := [125; 125];
     com_s := [123; 35]; com_e := [35; 125]; line_s := [35]; line_c := [35; 35] |}.
Definition empty_end_delims : delims :=
  {| block_s := [123; 37]; block_e := [37; 125]; var_s := [123; 123]; var_e := [125; 125];
     com_s := [60; 35]; com_e := []; line_s := []; line_c := [] |}.

(* {% raw %}  {% endraw %} under lstrip_blocks lost its content *)
Lemma raw_lstrip_refuted_before_fix_proof :
  let segs := [Raw MNone MNone [32; 32] MNone MNone] in
  wf_case default_delims false segs = true /\
  view (fst (tokenize (cfg_of default_delims ws_lstrip_only before_fixes) (unparse default_delims segs))) = [] /\
  expected st_lstrip_only segs = [EText [32; 32]] /\
  view (fst (tokenize (cfg_of default_delims ws_lstrip_only fixed) (unparse default_delims segs))) = [EText [32; 32]].
Proof. vm_compute. repeat split. Qed.

(* CR "  " {% set q = 1 %}: the indentation after a lone CR was kept *)
Lemma lone_cr_lstrip_refuted_before_fix_proof :
  let segs := [Text [13; 32; 32]; Tag KBlock MNone MNone] in
  wf_case default_delims false segs = true /\
  view (fst (tokenize (cfg_of default_delims ws_lstrip_only before_fixes) (unparse default_delims segs))) = [EText [13; 32; 32]; EBlock] /\
  expected st_lstrip_only segs = [EText [13]; EBlock] /\
  view (fst (tokenize (cfg_of default_delims ws_lstrip_only fixed) (unparse default_delims segs))) = [EText [13]; EBlock].
Proof. vm_compute. repeat split. Qed.

(* "# set q = 1" CR LF "b": the line statement left the LF behind *)
Lemma line_crlf_refuted_before_fix_proof :
  let segs := [Line LStmt [] NlCRLF; Text [98]] in
  wf_case line_delims false segs = true /\
  view (fst (tokenize (cfg_of line_delims ws_lstrip_only before_fixes) (unparse line_delims segs))) = [EBlock; EText [10; 98]] /\
  expected st_lstrip_only segs = [EBlock; EText [98]] /\
  view (fst (tokenize (cfg_of line_delims ws_lstrip_only fixed) (unparse line_delims segs))) = [EBlock; EText [98]].
Proof. vm_compute. repeat split. Qed.

(* comment_delimiters("<#", ""): accepted by build(), then the lexer panicked on the first comment *)
Lemma empty_end_refuted_before_fix_proof :
  tokenize_checked (cfg_of empty_end_delims ws_lstrip_only before_fixes) [60; 35; 32; 99] = Ok ([], FPanic) /\
  tokenize_checked (cfg_of empty_end_delims ws_lstrip_only fixed) [60; 35; 32; 99] = Err E_InvalidDelimiter.
Proof. vm_compute. repeat split. Qed.

(* {%- set q = 1 %} ## c  without lstrip_blocks: the blank before the trailing line comment was dropped
   (with lstrip_blocks it was kept) *)
Definition ws_none : wsconfig := {| trim := false; lstrip_b := false; keep := false |}.
Definition st_none : settings := {| trim_blocks := false; lstrip_blocks := false; keep_trailing_newline := false |}.
Lemma trailing_line_comment_refuted_before_fix_proof :
  let segs := [Tag KBlock MNone MNone; Text [32]; Line LComment [] NlNone] in
  wf_case line_delims false segs = true /\
  view (fst (tokenize (cfg_of line_delims ws_none before_fixes) (unparse line_delims segs))) = [EBlock] /\
  view (fst (tokenize (cfg_of line_delims ws_lstrip_only before_fixes) (unparse line_delims segs))) = [EBlock; EText [32]] /\
  expected st_none segs = [EBlock; EText [32]] /\
  view (fst (tokenize (cfg_of line_delims ws_none fixed) (unparse line_delims segs))) = [EBlock; EText [32]].
Proof. vm_compute. repeat split. Qed.


(* ========================================================================================== *)
(* ---------- lists ---------- *)
Lemma lenZ_app {A} (a b : list A) : lenZ (a ++ b) = lenZ a + lenZ b.
Proof. unfold lenZ. rewrite app_length. lia. Qed.
Lemma lenZ_cons {A} (x : A) l : lenZ (x :: l) = 1 + lenZ l.
Proof. unfold lenZ. cbn [length]. lia. Qed.
Lemma lenZ_nonneg {A} (l : list A) : 0 <= lenZ l.
Proof. unfold lenZ. lia. Qed.
Lemma lenZ_nil {A} : lenZ (@nil A) = 0. Proof. reflexivity. Qed.
Lemma lenZ_rev {A} (l : list A) : lenZ (rev l) = lenZ l.
Proof. unfold lenZ. rewrite rev_length. reflexivity. Qed.

Lemma takeZ_app {A} (a b : list A) : takeZ (lenZ a) (a ++ b) = a.
Proof.
  induction a as [|x a IH]; cbn [app].
  - destruct b; cbn [takeZ]; auto.
  - cbn [takeZ]. rewrite lenZ_cons. destruct (1 + lenZ a <=? 0) eqn:E.
    + pose proof (lenZ_nonneg a). lia.
    + f_equal. replace (1 + lenZ a - 1) with (lenZ a) by lia. exact IH.
Qed.
Lemma skipZ_app {A} (a b : list A) : skipZ (lenZ a) (a ++ b) = b.
Proof.
  induction a as [|x a IH]; cbn [app].
  - destruct b; cbn [skipZ]; auto.
  - cbn [skipZ]. rewrite lenZ_cons. destruct (1 + lenZ a <=? 0) eqn:E.
    + pose proof (lenZ_nonneg a). lia.
    + replace (1 + lenZ a - 1) with (lenZ a) by lia. exact IH.
Qed.
Lemma takeZ_0 {A} (l : list A) : takeZ 0 l = [].
Proof. destruct l; reflexivity. Qed.
Lemma skipZ_0 {A} (l : list A) : skipZ 0 l = l.
Proof. destruct l; reflexivity. Qed.
Lemma takeZ_app_n {A} (a b : list A) n : n = lenZ a -> takeZ n (a ++ b) = a.
Proof. intros ->. apply takeZ_app. Qed.
Lemma skipZ_app_n {A} (a b : list A) n : n = lenZ a -> skipZ n (a ++ b) = b.
Proof. intros ->. apply skipZ_app. Qed.

Lemma rev_append_rev' {A} (a b : list A) : rev_append a b = rev a ++ b.
Proof. apply rev_append_rev. Qed.

(* advance over a known prefix *)
Lemma advance_app (a b rb : str) off n : n = lenZ a ->
  advance n (rb, a ++ b, off) = (rev a ++ rb, b, off + n).
Proof. intros ->. unfold advance. rewrite takeZ_app, skipZ_app, rev_append_rev. reflexivity. Qed.

(* ---------- prefix_of ---------- *)
Lemma prefix_of_app (p l : str) : prefix_of p (p ++ l) = true.
Proof. induction p; cbn; auto. rewrite Z.eqb_refl. auto. Qed.
Lemma prefix_of_true (p l : str) : prefix_of p l = true -> exists r, l = p ++ r.
Proof.
  revert l; induction p as [|a p IH]; intros l H; cbn in *.
  - exists l; reflexivity.
  - destruct l as [|b l]; [discriminate|]. apply andb_prop in H as [H1 H2]. apply Z.eqb_eq in H1. subst.
    destruct (IH _ H2) as [r ->]. exists r; reflexivity.
Qed.
Lemma prefix_of_iff (p l : str) : prefix_of p l = true <-> exists r, l = p ++ r.
Proof. split; [apply prefix_of_true|]. intros [r ->]. apply prefix_of_app. Qed.
Lemma prefix_of_nil (l : str) : prefix_of [] l = true. Proof. reflexivity. Qed.
Lemma prefix_of_long (p a b : str) : (length p <= length a)%nat -> prefix_of p (a ++ b) = prefix_of p a.
Proof.
  revert a; induction p as [|x p IH]; intros a H; cbn; auto.
  destruct a as [|y a]; cbn in *; [lia|]. rewrite IH by lia. reflexivity.
Qed.
Lemma prefix_of_cons_false (p : str) (x y : Z) l : p = x :: skipn 1 p -> x <> y -> prefix_of p (y :: l) = false.
Proof. intros Hp Hxy. rewrite Hp. cbn. destruct (x =? y) eqn:E; [lia|reflexivity]. Qed.

Lemma strip_prefix_app (p l : str) : strip_prefix p (p ++ l) = Some l.
Proof. unfold strip_prefix. rewrite prefix_of_app, skipZ_app. reflexivity. Qed.

(* ---------- drop_while / rstrip ---------- *)
Lemma drop_while_app_stop (p : Z -> bool) (a b : str) x :
  forallb p a = true -> p x = false -> drop_while p (a ++ x :: b) = x :: b.
Proof. induction a; cbn; intros H Hx. - rewrite Hx; auto. - apply andb_prop in H as [H1 H2]. rewrite H1. auto. Qed.
Lemma drop_while_all (p : Z -> bool) (a : str) : forallb p a = true -> drop_while p a = [].
Proof. induction a; cbn; auto. intros H. apply andb_prop in H as [H1 H2]. rewrite H1. auto. Qed.
Lemma drop_while_split (p : Z -> bool) (l : str) :
  exists k, l = k ++ drop_while p l /\ forallb p k = true.
Proof.
  induction l as [|x l [k [H1 H2]]]; cbn.
  - exists []; auto.
  - destruct (p x) eqn:E.
    + exists (x :: k). cbn. rewrite E, H2. split; [f_equal; exact H1|auto].
    + exists []. auto.
Qed.
Lemma drop_while_head (p : Z -> bool) (l : str) : match drop_while p l with [] => True | x :: _ => p x = false end.
Proof. induction l; cbn; auto. destruct (p a) eqn:E; auto. Qed.
Lemma drop_while_app_nonempty (p : Z -> bool) (a b : str) :
  drop_while p a <> [] -> drop_while p (a ++ b) = drop_while p a ++ b.
Proof. induction a; cbn; [congruence|]. destruct (p a); auto. Qed.
Lemma drop_while_app_all (p : Z -> bool) (a b : str) :
  forallb p a = true -> drop_while p (a ++ b) = drop_while p b.
Proof. induction a; cbn; auto. intros H. apply andb_prop in H as [H1 H2]. rewrite H1. auto. Qed.
Lemma drop_while_id (p : Z -> bool) (l : str) : match l with [] => True | x :: _ => p x = false end -> drop_while p l = l.
Proof. destruct l; cbn; auto. intros ->. reflexivity. Qed.


(* ========================================================================================== *)
Definition marker_pat (d : delims) (mk : marker) : str :=
  match mk with MkVar => var_s d | MkBlock => block_s d | MkComment => com_s d | MkLineStmt => line_s d | MkLineComment => line_c d end.
Definition mk_ws (mk : marker) (R : str) : wsm := match mk with MkLineStmt => WDefault | _ => ws_of (hd_error R) end.

(* what the main proof needs from find_start_marker *)
Definition finder_ok (d : delims) : Prop :=
  (forall rb t, no_start_in d t [] = true -> find_start_marker d rb t = None) /\
  (forall rb t mk R,
      In (marker_pat d mk, mk) (patterns d) ->
      no_start_in d t (marker_pat d mk ++ R) = true ->
      not_extended d (marker_pat d mk) R = true ->
      (mk = MkLineStmt -> line_start_simple (rev t ++ rb) = true) ->
      find_start_marker d rb (t ++ marker_pat d mk ++ R) =
        Some (lenZ t, mk, lenZ (marker_pat d mk) + ws_len (mk_ws mk R), mk_ws mk R)).

Lemma starts_at_default (l : str) :
  starts_at default_delims l =
  match l with
  | a :: b :: _ => (a =? 123) && ((b =? 123) || (b =? 37) || (b =? 35))
  | _ => false
  end.
Proof.
  unfold starts_at.
  change (patterns default_delims) with [([123; 123], MkVar); ([123; 37], MkBlock); ([123; 35], MkComment)].
  cbn [existsb fst].
  destruct l as [|a [|b r]]; cbn [prefix_of]; try reflexivity.
  - rewrite !andb_false_r. reflexivity.
  - rewrite !andb_true_r, !(Z.eqb_sym 123 a), !(Z.eqb_sym 123 b), (Z.eqb_sym 37 b), (Z.eqb_sym 35 b), orb_false_r.
    destruct (a =? 123), (b =? 123), (b =? 37), (b =? 35); reflexivity.
Qed.

Lemma find_memchr_none (t : str) : forall i, no_start_in default_delims t [] = true -> find_memchr t i = None.
Proof.
  induction t as [|c r IH]; intros i H; cbn [find_memchr]; auto.
  cbn [no_start_in] in H. apply andb_prop in H as [H1 H2]. rewrite app_nil_r in H1.
  rewrite starts_at_default in H1.
  destruct (c =? 123) eqn:Ec; [|apply IH; auto].
  destruct r as [|d' r2]; auto.
  cbn [negb andb] in H1. try rewrite Ec in H1. cbn [andb] in H1.
  destruct (d' =? 123); [discriminate|]. destruct (d' =? 37); [discriminate|]. destruct (d' =? 35); [discriminate|].
  apply IH; auto.
Qed.

Lemma find_memchr_found (t : str) : forall i mk R,
  In (marker_pat default_delims mk, mk) (patterns default_delims) ->
  no_start_in default_delims t (marker_pat default_delims mk ++ R) = true ->
  find_memchr (t ++ marker_pat default_delims mk ++ R) i =
    Some (i + lenZ t, mk, 2 + ws_len (ws_of (hd_error R)), ws_of (hd_error R)).
Proof.
  induction t as [|c r IH]; intros i mk R Hin H.
  - cbn [app]. rewrite lenZ_nil, Z.add_0_r.
    cbn in Hin. destruct Hin as [E|[E|[E|[]]]]; inversion E; subst; cbn; reflexivity.
  - cbn [no_start_in] in H. apply andb_prop in H as [H1 H2].
    rewrite starts_at_default in H1. cbn [app find_memchr].
    rewrite lenZ_cons. replace (i + (1 + lenZ r)) with (i + 1 + lenZ r) by lia.
    destruct (c =? 123) eqn:Ec; [|apply IH; auto].
    destruct (r ++ marker_pat default_delims mk ++ R) as [|d' r2] eqn:Er.
    + exfalso. destruct r; [|discriminate]. cbn in Er.
      cbn in Hin. destruct Hin as [E|[E|[E|[]]]]; inversion E; subst; discriminate.
    + cbn [app] in H1. rewrite Er in H1. try rewrite Ec in H1. cbn [andb negb] in H1.
      destruct (d' =? 123); [discriminate|]. destruct (d' =? 37); [discriminate|]. destruct (d' =? 35); [discriminate|].
      rewrite <- Er. apply IH; auto.
Qed.

Lemma finder_ok_default : finder_ok default_delims.
Proof.
  split.
  - intros rb t H. unfold find_start_marker. replace (delims_eqb default_delims default_delims) with true by reflexivity.
    apply find_memchr_none; auto.
  - intros rb t mk R Hin H _ _. unfold find_start_marker.
    replace (delims_eqb default_delims default_delims) with true by reflexivity.
    rewrite find_memchr_found by auto. rewrite Z.add_0_l.
    cbn in Hin. destruct Hin as [E|[E|[E|[]]]]; inversion E; subst; reflexivity.
Qed.


(* ========================================================================================== *)
(* ---------- one step of scan ---------- *)
Lemma scan_step c s m paren rb a r off m' dp :
  char_action c s m paren (a :: r) = AStep m' dp ->
  scan c s m paren rb (a :: r) off = scan c s m' (paren + dp) (a :: rb) r (off + 1).
Proof. intros H. cbn [scan]. rewrite H. reflexivity. Qed.
Lemma scan_end c s m paren rb a r off n t :
  char_action c s m paren (a :: r) = AEnd n t ->
  scan c s m paren rb (a :: r) off =
    let '(rb', rest', off') := advance n (rb, a :: r, off) in ScEnd rb' rest' off' t.
Proof. intros H. cbn [scan]. rewrite H. reflexivity. Qed.

(* ---------- end_check ---------- *)
Lemma end_delim_ok_inv e : end_delim_ok e = true ->
  exists c0 e', e = c0 :: e' /\ is_ascii_ws c0 = false /\ c0 <> c_minus /\ c0 <> c_plus /\
                (forall x, In x body_token_chars -> c0 <> x) /\
                (exists x r, rev e = x :: r /\ is_ws x = false).
Proof.
  unfold end_delim_ok. destruct e as [|c0 e']; [discriminate|]. intros H.
  apply andb_prop in H as [H H5]. apply andb_prop in H as [H H4]. apply andb_prop in H as [H H3]. apply andb_prop in H as [H1 H2].
  exists c0, e'. repeat split.
  - destruct (is_ascii_ws c0); auto; discriminate.
  - intros ->. rewrite Z.eqb_refl in H2. discriminate.
  - intros ->. rewrite Z.eqb_refl in H3. discriminate.
  - intros x Hx ->. apply negb_true_iff in H4. rewrite <- not_true_iff_false in H4. apply H4.
    apply existsb_exists. exists x. split; auto. apply Z.eqb_refl.
  - destruct (rev (c0 :: e')) as [|x r]; [discriminate|]. exists x, r. split; auto. destruct (is_ws x); auto; discriminate.
Qed.

Definition end_of (c : cfg) (s : sentinel) : str := match s with SBlock => block_e (dl c) | SVar => var_e (dl c) | SLine => [] end.
Definition plain_tail (s : sentinel) : tailact := match s with SBlock => TTrimNl | _ => TNone end.

Lemma end_check_body c s x l : s <> SLine -> end_delim_ok (end_of c s) = true -> In x body_token_chars ->
  end_check c s (x :: l) = None.
Proof.
  intros Hs He Hx. destruct (end_delim_ok_inv _ He) as (c0 & e' & Ee & _ & Hm & Hp & Hb & _).
  assert (Hx1 : (x =? c_minus) = false). { apply Z.eqb_neq. intros ->. cbn in Hx. unfold c_minus in Hx. repeat (destruct Hx as [Hx|Hx]; [discriminate|]). destruct Hx. }
  assert (Hx2 : (x =? c_plus) = false). { apply Z.eqb_neq. intros ->. cbn in Hx. unfold c_plus in Hx. repeat (destruct Hx as [Hx|Hx]; [discriminate|]). destruct Hx. }
  assert (Hne : (c0 =? x) = false). { apply Z.eqb_neq. apply Hb; auto. }
  unfold end_check. destruct s; try congruence; cbn [end_of] in Ee; rewrite Ee; rewrite Hx1, Hx2; cbn [orb andb prefix_of]; rewrite Hne; reflexivity.
Qed.

(* at the closing sequence: sign + end delimiter *)
Lemma try_end_close (e : str) (plain : tailact) (r : mark) (R : str) c0 e' :
  e = c0 :: e' -> c0 <> c_minus -> c0 <> c_plus ->
  match mark_str r ++ e ++ R with
  | x :: r0 =>
      if ((x =? c_minus) || (x =? c_plus)) && prefix_of e r0
      then Some (lenZ e + 1, if x =? c_minus then TMinus else TNone)
      else if prefix_of e (mark_str r ++ e ++ R) then Some (lenZ e, plain) else None
  | [] => if prefix_of e (mark_str r ++ e ++ R) then Some (lenZ e, plain) else None
  end = Some (lenZ (mark_str r ++ e), match r with MMinus => TMinus | MPlus => TNone | MNone => plain end).
Proof.
  intros Ee Hm Hp. destruct r; cbn [mark_str app].
  - rewrite prefix_of_app. rewrite Ee at 1. cbn [app].
    replace (c0 =? c_minus) with false by (symmetry; apply Z.eqb_neq; auto).
    replace (c0 =? c_plus) with false by (symmetry; apply Z.eqb_neq; auto). reflexivity.
  - rewrite Z.eqb_refl, prefix_of_app. cbn [orb andb]. rewrite lenZ_cons. f_equal. f_equal. lia.
  - rewrite prefix_of_app. replace (c_plus =? c_minus) with false by reflexivity. rewrite Z.eqb_refl. cbn [orb andb].
    rewrite lenZ_cons. f_equal. f_equal. lia.
Qed.

Lemma end_check_close c s (r : mark) R : s <> SLine -> end_delim_ok (end_of c s) = true ->
  end_check c s (mark_str r ++ end_of c s ++ R) =
    Some (lenZ (mark_str r ++ end_of c s), match r with MMinus => TMinus | MPlus => TNone | MNone => plain_tail s end).
Proof.
  intros Hs He. destruct (end_delim_ok_inv _ He) as (c0 & e' & Ee & _ & Hm & Hp & _ & _).
  destruct s; try congruence; cbn [end_of plain_tail] in *; unfold end_check.
  - apply (try_end_close (var_e (dl c)) TNone r R c0 e'); auto.
  - apply (try_end_close (block_e (dl c)) TTrimNl r R c0 e'); auto.
Qed.

(* ---------- token_action ---------- *)
Definition lec (c : cfg) (s : sentinel) (l : str) : option Z := match s with SLine => line_end_check c l | _ => None end.
Definition plain_action (a : Z) (r : str) : action :=
  if 128 <=? a then AOOS
  else if match r with b :: _ => two_char_op a b | [] => false end then AStep Skip1 0
  else if one_char_op a then AStep Normal 0
  else if negb (paren_delta a =? 0) then AStep Normal (paren_delta a)
  else if (a =? 39) || (a =? 34) then AStep (InStr a false) 0
  else if is_digit a then AStep (InNum 1) 0
  else if is_ident_start a then AStep InIdent 0
  else AErr E_SyntaxError.

Lemma TA_ws c s a r : lec c s (a :: r) = None -> is_ascii_ws a = true -> token_action c s 0 (a :: r) = AStep Normal 0.
Proof. intros H1 H2. unfold token_action. change (0 =? 0) with true. cbv iota. fold (lec c s (a :: r)). rewrite H1, H2. reflexivity. Qed.
Lemma TA_plain c s a r : lec c s (a :: r) = None -> is_ascii_ws a = false -> end_check c s (a :: r) = None ->
  token_action c s 0 (a :: r) = plain_action a r.
Proof. intros H1 H2 H3. unfold token_action. change (0 =? 0) with true. cbv iota. fold (lec c s (a :: r)). rewrite H1, H2, H3. reflexivity. Qed.
Lemma TA_end c s a r n t : lec c s (a :: r) = None -> is_ascii_ws a = false -> end_check c s (a :: r) = Some (n, t) ->
  token_action c s 0 (a :: r) = AEnd n t.
Proof. intros H1 H2 H3. unfold token_action. change (0 =? 0) with true. cbv iota. fold (lec c s (a :: r)). rewrite H1, H2, H3. reflexivity. Qed.
Lemma TA_line_end c a r n : line_end_check c (a :: r) = Some n -> token_action c SLine 0 (a :: r) = AEnd n TNone.
Proof. intros H. unfold token_action. change (0 =? 0) with true. cbv iota. rewrite H. reflexivity. Qed.

Lemma lec_not_line c s l : s <> SLine -> lec c s l = None.
Proof. destruct s; auto; congruence. Qed.

(* the closing sequence in Normal mode *)
Lemma scan_close c s rb (r : mark) R off : s <> SLine -> end_delim_ok (end_of c s) = true ->
  scan c s Normal 0 rb (mark_str r ++ end_of c s ++ R) off =
  ScEnd (rev (mark_str r ++ end_of c s) ++ rb) R (off + lenZ (mark_str r ++ end_of c s))
        (match r with MMinus => TMinus | MPlus => TNone | MNone => plain_tail s end).
Proof.
  intros Hs He. destruct (end_delim_ok_inv _ He) as (c0 & e' & Ee & Hw & Hm & Hp & _ & _).
  pose proof (end_check_close c s r R Hs He) as Hc.
  assert (Hne : exists a l, mark_str r ++ end_of c s ++ R = a :: l /\ is_ascii_ws a = false).
  { destruct r; cbn [mark_str app]; [rewrite Ee; exists c0, (e' ++ R); auto | eexists _, _; split; reflexivity | eexists _, _; split; reflexivity]. }
  destruct Hne as (a & l & El & Ha). rewrite El in Hc |- *.
  rewrite (scan_end c s Normal 0 rb a l off _ _ (TA_end c s a l _ _ (lec_not_line c s _ Hs) Ha Hc)).
  rewrite <- El. rewrite app_assoc. rewrite advance_app by reflexivity. reflexivity.
Qed.

Ltac list_norm := repeat (progress (rewrite ?rev_app_distr, <- ?app_assoc; cbn [rev app])).
Ltac len_norm := repeat (progress (rewrite ?lenZ_app, ?lenZ_cons, ?lenZ_nil)).
Ltac ca_ws Hs := cbn [char_action]; apply TA_ws; [apply lec_not_line; exact Hs | reflexivity].
Ltac ca_plain Hs He := cbn [char_action]; rewrite TA_plain;
  [ reflexivity | apply lec_not_line; exact Hs | reflexivity | apply end_check_body; [exact Hs | exact He | cbn; tauto] ].

Lemma scan_var_body c rb (r : mark) R off : end_delim_ok (var_e (dl c)) = true ->
  scan c SVar Normal 0 rb (body_var ++ mark_str r ++ var_e (dl c) ++ R) off =
  ScEnd (rev (body_var ++ mark_str r ++ var_e (dl c)) ++ rb) R (off + lenZ (body_var ++ mark_str r ++ var_e (dl c)))
        (match r with MMinus => TMinus | _ => TNone end).
Proof.
  intros He. assert (Hs : SVar <> SLine) by congruence.
  unfold body_var. cbn [app].
  erewrite scan_step by (ca_ws Hs).
  erewrite scan_step by (ca_plain Hs He).
  erewrite scan_step by reflexivity.
  erewrite scan_step by reflexivity.
  erewrite scan_step by (ca_ws Hs).
  change (var_e (dl c)) with (end_of c SVar). rewrite scan_close by auto.
  cbn [plain_tail]. f_equal.
  - list_norm. reflexivity.
  - len_norm. lia.
Qed.

Lemma scan_set_body c rb (r : mark) R off : end_delim_ok (block_e (dl c)) = true ->
  scan c SBlock Normal 0 rb (body_set ++ mark_str r ++ block_e (dl c) ++ R) off =
  ScEnd (rev (body_set ++ mark_str r ++ block_e (dl c)) ++ rb) R (off + lenZ (body_set ++ mark_str r ++ block_e (dl c)))
        (match r with MMinus => TMinus | MPlus => TNone | MNone => TTrimNl end).
Proof.
  intros He. assert (Hs : SBlock <> SLine) by congruence.
  unfold body_set. cbn [app].
  erewrite scan_step by (ca_ws Hs).
  erewrite scan_step by (ca_plain Hs He).     (* s *)
  erewrite scan_step by reflexivity.          (* e *)
  erewrite scan_step by reflexivity.          (* t *)
  erewrite scan_step by (ca_ws Hs).           (* blank ends the identifier *)
  erewrite scan_step by (ca_plain Hs He).     (* q *)
  erewrite scan_step by (ca_ws Hs).
  erewrite scan_step by (ca_plain Hs He).     (* = *)
  erewrite scan_step by (ca_ws Hs).
  erewrite scan_step by (ca_plain Hs He).     (* 1 *)
  erewrite scan_step by (ca_ws Hs).
  change (block_e (dl c)) with (end_of c SBlock). rewrite scan_close by auto.
  cbn [plain_tail]. f_equal.
  - list_norm. reflexivity.
  - len_norm. lia.
Qed.


(* ========================================================================================== *)
(* ---------- start of line ---------- *)
Lemma at_line_start_alt bol t :
  at_line_start bol t = match drop_while is_hws (rev t) with [] => bol | c :: _ => is_nl c end.
Proof. unfold at_line_start, rstrip. rewrite rev_involutive. reflexivity. Qed.
Lemma at_line_start_simple_alt bol t :
  at_line_start_simple bol t = match drop_while is_blank (rev t) with [] => bol | c :: _ => is_nl c end.
Proof. unfold at_line_start_simple, rstrip. rewrite rev_involutive. reflexivity. Qed.

Lemma scan_line_start_app u rb :
  scan_line_start (u ++ rb) = match drop_while is_hws u with [] => scan_line_start rb | c :: _ => is_nl c end.
Proof.
  induction u as [|x u IH]; cbn [app drop_while scan_line_start]; auto.
  unfold is_hws at 1. destruct (is_nl x) eqn:En.
  - rewrite andb_false_r. rewrite En. reflexivity.
  - rewrite andb_true_r. destruct (is_ws x) eqn:Ew; auto.
Qed.
Lemma scan_line_start_text t rb : scan_line_start (rev t ++ rb) = at_line_start (scan_line_start rb) t.
Proof. rewrite scan_line_start_app, at_line_start_alt. reflexivity. Qed.

Lemma is_blank_not_nl x : is_blank x = true -> is_nl x = false.
Proof. unfold is_blank, is_nl, c_space, c_tab, c_lf, c_cr. lia. Qed.
Lemma line_start_simple_app u rb :
  line_start_simple (u ++ rb) = match drop_while is_blank u with [] => line_start_simple rb | c :: _ => is_nl c end.
Proof.
  induction u as [|x u IH]; cbn [app drop_while line_start_simple]; auto.
  fold (is_blank x). destruct (is_blank x) eqn:Eb; auto.
  unfold is_nl. apply orb_comm.
Qed.
Lemma line_start_simple_text t rb : line_start_simple (rev t ++ rb) = at_line_start_simple (line_start_simple rb) t.
Proof. rewrite line_start_simple_app, at_line_start_simple_alt. reflexivity. Qed.

(* ---------- lstrip_block ---------- *)
Lemma lstrip_block_at_line_start bol (k t1 : str) :
  at_line_start bol (k ++ t1) = true -> (drop_while is_hws (rev t1) <> [] \/ True) ->
  lstrip_block fixed t1 = rstrip is_hws t1.
Proof.
  intros H _. unfold lstrip_block, rstrip. cbn [q_lf_only fixed negb andb].
  destruct (drop_while is_hws (rev t1)) as [|x rt] eqn:E; [reflexivity|].
  rewrite at_line_start_alt, rev_app_distr in H.
  rewrite drop_while_app_nonempty in H by (rewrite E; discriminate). rewrite E in H. cbn [app] in H.
  unfold is_nl in H. rewrite H. reflexivity.
Qed.

(* ---------- the left side of a text: what the tail action of the previous tag and the
   trim_leading_whitespace flag do to it ---------- *)
Definition not_ws_head (Y : str) : Prop := match Y with [] => True | y :: _ => is_ws y = false end.

Lemma is_ws_cr : is_ws c_cr = true. Proof. reflexivity. Qed.
Lemma is_ws_lf : is_ws c_lf = true. Proof. reflexivity. Qed.

Lemma advance_1 rb x (r : str) off : advance 1 (rb, x :: r, off) = (x :: rb, r, off + 1).
Proof. unfold advance. cbn [takeZ skipZ]. change (1 <=? 0) with false. cbv iota. change (1 - 1) with 0.
  rewrite takeZ_0, skipZ_0. reflexivity. Qed.

Lemma skip_trim_nl_text c rb t Y off : not_ws_head Y ->
  exists k, t = k ++ (if trim (wsc c) then strip_one_newline t else t) /\
            skip_trim_nl c (rb, t ++ Y, off) = (rev k ++ rb, (if trim (wsc c) then strip_one_newline t else t) ++ Y, off + lenZ k).
Proof.
  intros HY. unfold skip_trim_nl. destruct (trim (wsc c)).
  2:{ exists []. split; auto. cbn. rewrite Z.add_0_r. reflexivity. }
  assert (HYcr : match Y with y :: _ => (y =? c_cr) = false | [] => True end).
  { destruct Y; auto. cbn in HY. apply Z.eqb_neq. intros ->. rewrite is_ws_cr in HY. discriminate. }
  assert (HYlf : match Y with y :: _ => (y =? c_lf) = false | [] => True end).
  { destruct Y; auto. cbn in HY. apply Z.eqb_neq. intros ->. rewrite is_ws_lf in HY. discriminate. }
  destruct t as [|a t'].
  - exists []. split; auto. cbn [app strip_one_newline rev lenZ length]. rewrite Z.add_0_r.
    destruct Y as [|y Y']; auto. rewrite HYcr, HYlf. reflexivity.
  - cbn [app strip_one_newline].
    destruct (a =? c_cr) eqn:Ea.
    + apply Z.eqb_eq in Ea. subst a. rewrite advance_1.
      destruct t' as [|b t''].
      * exists [c_cr]. split; auto. cbn [app]. destruct Y as [|y Y']; cbn [rev app lenZ length]; auto. rewrite HYlf. reflexivity.
      * cbn [app]. destruct (b =? c_lf) eqn:Eb.
        -- apply Z.eqb_eq in Eb. subst b. exists [c_cr; c_lf]. split; auto. rewrite advance_1.
           cbn [rev app]. f_equal. change (lenZ [c_cr; c_lf]) with 2. lia.
        -- exists [c_cr]. split; auto.
    + destruct (a =? c_lf) eqn:Eb.
      * apply Z.eqb_eq in Eb. subst a. exists [c_lf]. split; auto. rewrite advance_1. reflexivity.
      * exists []. split; auto. cbn [rev app lenZ length]. rewrite Z.add_0_r. reflexivity.
Qed.

Lemma skip_whitespace_text rb t Y off : not_ws_head Y ->
  exists k, t = k ++ lstrip is_ws t /\
            skip_whitespace (rb, t ++ Y, off) = (rev k ++ rb, lstrip is_ws t ++ Y, off + lenZ k).
Proof.
  intros HY. unfold skip_whitespace, lstrip.
  destruct (drop_while_split is_ws t) as (k & Hk & Hall). exists k. split; auto.
  assert (E : drop_while is_ws (t ++ Y) = drop_while is_ws t ++ Y).
  { rewrite Hk at 1. rewrite <- app_assoc, drop_while_app_all by auto.
    pose proof (drop_while_head is_ws t) as Hh.
    destruct (drop_while is_ws t) as [|x r] eqn:Ed.
    - cbn [app]. apply drop_while_id. destruct Y; auto.
    - cbn [app drop_while]. rewrite Hh. reflexivity. }
  rewrite E. remember (drop_while is_ws t) as t1 eqn:Et1. clear Et1 E. subst t.
  rewrite <- app_assoc. rewrite advance_app.
  - f_equal. f_equal. rewrite !lenZ_app. lia.
  - rewrite !lenZ_app. lia.
Qed.


(* ========================================================================================== *)
Definition st_of (w : wsconfig) : settings :=
  {| trim_blocks := trim w; lstrip_blocks := lstrip_b w; keep_trailing_newline := keep w |}.

Definition tail_of (u : option unit_) : tailact :=
  match u with
  | Some (UTag k _ r) => if is_minus r then TMinus else if block_like k && negb (is_plus r) then TTrimNl else TNone
  | _ => TNone
  end.
Definition apply_tail (c : cfg) (t : tailact) (p : pos) : pos * bool :=
  match t with TNone => (p, false) | TMinus => (p, true) | TTrimNl => (skip_trim_nl c p, false) end.
Definition cont_tail (c : cfg) (u : option unit_) (p : pos) : next := cont_of (apply_tail c (tail_of u) p).

Lemma after_scan_end c rb rest off t : after_scan c (ScEnd rb rest off t) = cont_of (apply_tail c t (rb, rest, off)).
Proof. destruct t; reflexivity. Qed.

Definition tail_of_ws (w : wsm) : tailact := match w with WPreserve => TNone | WDefault => TTrimNl | WRemove => TMinus end.
Lemma tail_ws_apply c w p : tail_ws c w p = apply_tail c (tail_of_ws w) p.
Proof. destruct w; reflexivity. Qed.

Lemma ws_of_mark (l : mark) (body R : str) b0 : body = b0 :: skipn 1 body -> b0 <> c_minus -> b0 <> c_plus ->
  ws_of (hd_error (mark_str l ++ body ++ R)) = match l with MNone => WDefault | MMinus => WRemove | MPlus => WPreserve end.
Proof.
  intros Hb H1 H2. destruct l; cbn [mark_str app].
  - rewrite Hb. cbn [app hd_error ws_of].
    replace (b0 =? c_minus) with false by (symmetry; apply Z.eqb_neq; auto).
    replace (b0 =? c_plus) with false by (symmetry; apply Z.eqb_neq; auto). reflexivity.
  - reflexivity.
  - reflexivity.
Qed.
Definition ws_of_m (l : mark) : wsm := match l with MNone => WDefault | MMinus => WRemove | MPlus => WPreserve end.
Lemma ws_len_mark l : ws_len (ws_of_m l) = lenZ (mark_str l).
Proof. destruct l; reflexivity. Qed.

(* ---------- variable tag ---------- *)
Lemma hsm_var c rbm (l r : mark) R offm : end_delim_ok (var_e (dl c)) = true ->
  handle_start_marker c MkVar (lenZ (var_s (dl c)) + ws_len (ws_of_m l))
     (rbm, tag_src (dl c) KVar l r ++ R, offm) =
  ([IVar offm], cont_tail c (Some (UTag UVar l r)) (rev (tag_src (dl c) KVar l r) ++ rbm, R, offm + lenZ (tag_src (dl c) KVar l r))).
Proof.
  intros He. unfold handle_start_marker, tag_src. rewrite ws_len_mark.
  replace ((var_s (dl c) ++ mark_str l ++ body_var ++ mark_str r ++ var_e (dl c)) ++ R)
    with ((var_s (dl c) ++ mark_str l) ++ body_var ++ mark_str r ++ var_e (dl c) ++ R) by (rewrite <- !app_assoc; reflexivity).
  rewrite advance_app by (rewrite lenZ_app; reflexivity).
  rewrite scan_var_body by auto. rewrite after_scan_end. unfold cont_tail.
  replace (tail_of (Some (UTag UVar l r))) with (match r with MMinus => TMinus | _ => TNone end) by (destruct r; reflexivity).
  match goal with |- (_, cont_of (apply_tail _ _ ?P1)) = (_, cont_of (apply_tail _ _ ?P2)) => assert (E : P1 = P2) end.
  { f_equal; [f_equal|]; [list_norm; reflexivity | len_norm; lia]. }
  rewrite E. reflexivity.
Qed.

(* ---------- block tag (not raw) ---------- *)
Lemma skip_basic_tag_set (l' : str) be : skip_basic_tag (body_set ++ l') s_raw be false = None.
Proof. reflexivity. Qed.

Lemma hsm_block c rbm (l r : mark) R offm : end_delim_ok (block_e (dl c)) = true ->
  handle_start_marker c MkBlock (lenZ (block_s (dl c)) + ws_len (ws_of_m l))
     (rbm, tag_src (dl c) KBlock l r ++ R, offm) =
  ([IBlock offm], cont_tail c (Some (UTag UBlock l r)) (rev (tag_src (dl c) KBlock l r) ++ rbm, R, offm + lenZ (tag_src (dl c) KBlock l r))).
Proof.
  intros He. unfold handle_start_marker, tag_src. rewrite ws_len_mark.
  replace ((block_s (dl c) ++ mark_str l ++ body_set ++ mark_str r ++ block_e (dl c)) ++ R)
    with ((block_s (dl c) ++ mark_str l) ++ body_set ++ mark_str r ++ block_e (dl c) ++ R) by (rewrite <- !app_assoc; reflexivity).
  rewrite skipZ_app_n by (rewrite lenZ_app; reflexivity).
  rewrite skip_basic_tag_set.
  rewrite advance_app by (rewrite lenZ_app; reflexivity).
  rewrite scan_set_body by auto. rewrite after_scan_end. unfold cont_tail.
  replace (tail_of (Some (UTag UBlock l r))) with (match r with MMinus => TMinus | MPlus => TNone | MNone => TTrimNl end) by (destruct r; reflexivity).
  match goal with |- (_, cont_of (apply_tail _ _ ?P1)) = (_, cont_of (apply_tail _ _ ?P2)) => assert (E : P1 = P2) end.
  { f_equal; [f_equal|]; [list_norm; reflexivity | len_norm; lia]. }
  rewrite E. reflexivity.
Qed.

(* ---------- comment tag ---------- *)
Lemma find_sub_unfold n h i :
  find_sub n h i = if prefix_of n h then Some i else match h with [] => None | _ :: r => find_sub n r (i + 1) end.
Proof. destruct h; reflexivity. Qed.

Lemma find_sub_ge n h : forall i j, find_sub n h i = Some j -> i <= j.
Proof.
  induction h as [|x h IH]; intros i j; rewrite find_sub_unfold; destruct (prefix_of n _); try congruence.
  - intros E; inversion E; lia.
  - intros E; inversion E; lia.
  - intros E. apply IH in E. lia.
Qed.

Lemma find_sub_ext e X R : forall i, find_sub e (X ++ e) i = Some (i + lenZ X) -> find_sub e (X ++ e ++ R) i = Some (i + lenZ X).
Proof.
  induction X as [|x X IH]; intros i H.
  - cbn [app]. rewrite find_sub_unfold, prefix_of_app. rewrite lenZ_nil, Z.add_0_r. reflexivity.
  - cbn [app] in *. rewrite find_sub_unfold in H. rewrite find_sub_unfold.
    destruct (prefix_of e (x :: X ++ e)) eqn:E.
    + inversion H. rewrite lenZ_cons in *. pose proof (lenZ_nonneg X). lia.
    + replace (x :: X ++ e ++ R) with ((x :: X ++ e) ++ R) by (cbn [app]; rewrite <- app_assoc; reflexivity).
      rewrite prefix_of_long by (cbn [length]; rewrite app_length; lia). rewrite E.
      cbn [app]. rewrite lenZ_cons in *.
      replace (i + (1 + lenZ X)) with (i + 1 + lenZ X) in * by lia. apply IH; auto.
Qed.

Lemma nthZ_app (A : str) x B : nthZ (lenZ A) (A ++ x :: B) = Some x.
Proof. unfold nthZ. rewrite skipZ_app. reflexivity. Qed.

Lemma comment_end_ok_inv e m : comment_end_ok e = true ->
  find_sub e (body_comment ++ mark_str m ++ e) 0 = Some (lenZ (body_comment ++ mark_str m)).
Proof.
  unfold comment_end_ok. cbn [forallb]. intros H. apply andb_prop in H as [H1 H]. apply andb_prop in H as [H2 H]. apply andb_prop in H as [H3 _].
  destruct m.
  - destruct (find_sub e (body_comment ++ mark_str MNone ++ e) 0); [|discriminate]. apply Z.eqb_eq in H1. congruence.
  - destruct (find_sub e (body_comment ++ mark_str MMinus ++ e) 0); [|discriminate]. apply Z.eqb_eq in H2. congruence.
  - destruct (find_sub e (body_comment ++ mark_str MPlus ++ e) 0); [|discriminate]. apply Z.eqb_eq in H3. congruence.
Qed.

Lemma hsm_comment c rbm (l r : mark) R offm : end_delim_ok (com_e (dl c)) = true -> comment_end_ok (com_e (dl c)) = true ->
  handle_start_marker c MkComment (lenZ (com_s (dl c)) + ws_len (ws_of_m l))
     (rbm, tag_src (dl c) KComment l r ++ R, offm) =
  ([], cont_tail c (Some (UTag UComment l r)) (rev (tag_src (dl c) KComment l r) ++ rbm, R, offm + lenZ (tag_src (dl c) KComment l r))).
Proof.
  intros He Hc. destruct (end_delim_ok_inv _ He) as (c0 & e' & Ee & _).
  unfold handle_start_marker, tag_src. rewrite ws_len_mark.
  replace (is_nil (com_e (dl c))) with false by (rewrite Ee; reflexivity).
  set (CS := com_s (dl c)). set (CE := com_e (dl c)).
  replace ((CS ++ mark_str l ++ body_comment ++ mark_str r ++ CE) ++ R)
    with ((CS ++ mark_str l) ++ (body_comment ++ mark_str r) ++ CE ++ R) by (rewrite <- !app_assoc; reflexivity).
  rewrite skipZ_app_n by (rewrite lenZ_app; reflexivity).
  pose proof (comment_end_ok_inv CE r Hc) as Hf.
  rewrite <- (Z.add_0_l (lenZ (body_comment ++ mark_str r))) in Hf. rewrite app_assoc in Hf. apply (find_sub_ext CE _ R) in Hf.
  rewrite Hf. rewrite Z.add_0_l.
  (* the sign before the end delimiter *)
  assert (Hw : ws_of (nthZ (Z.max (lenZ (body_comment ++ mark_str r) - 1) 0 + (lenZ CS + lenZ (mark_str l)))
                        ((CS ++ mark_str l) ++ (body_comment ++ mark_str r) ++ CE ++ R)) = ws_of_m r).
  { assert (Hx : exists pre x, body_comment ++ mark_str r = pre ++ [x] /\ ws_of (Some x) = ws_of_m r).
    { destruct r; [exists [32; 99], 32 | exists [32; 99; 32], c_minus | exists [32; 99; 32], c_plus]; split; reflexivity. }
    destruct Hx as (pre & x & Hx & Hwx). rewrite Hx.
    replace (Z.max (lenZ (pre ++ [x]) - 1) 0 + (lenZ CS + lenZ (mark_str l))) with (lenZ ((CS ++ mark_str l) ++ pre))
      by (len_norm; pose proof (lenZ_nonneg pre); lia).
    replace ((CS ++ mark_str l) ++ (pre ++ [x]) ++ CE ++ R) with (((CS ++ mark_str l) ++ pre) ++ x :: CE ++ R)
      by (rewrite <- !app_assoc; reflexivity).
    rewrite nthZ_app. exact Hwx. }
  rewrite Hw. rewrite tail_ws_apply. unfold cont_tail.
  replace (tail_of (Some (UTag UComment l r))) with (tail_of_ws (ws_of_m r)) by (destruct r; reflexivity).
  replace ((CS ++ mark_str l) ++ (body_comment ++ mark_str r) ++ CE ++ R)
    with (((CS ++ mark_str l) ++ (body_comment ++ mark_str r) ++ CE) ++ R) by (rewrite <- !app_assoc; reflexivity).
  rewrite advance_app by (len_norm; lia).
  match goal with |- (_, cont_of (apply_tail _ _ ?P1)) = (_, cont_of (apply_tail _ _ ?P2)) => assert (E : P1 = P2) end.
  { f_equal; [f_equal|]; [list_norm; reflexivity | len_norm; lia]. }
  rewrite E. reflexivity.
Qed.


(* ========================================================================================== *)
(* ---------- the left side of a text ---------- *)
Lemma left_phase c prev rb t Y off : not_ws_head Y ->
  exists k, t = k ++ left_rule (st_of (wsc c)) prev t /\
    (let '(p1, tl) := apply_tail c (tail_of prev) (rb, t ++ Y, off) in if tl then skip_whitespace p1 else p1)
    = (rev k ++ rb, left_rule (st_of (wsc c)) prev t ++ Y, off + lenZ k).
Proof.
  intros HY.
  assert (Hid : exists k, t = k ++ t /\ (rb, t ++ Y, off) = (rev k ++ rb, t ++ Y, off + lenZ k)).
  { exists []. split; auto. cbn. rewrite Z.add_0_r. reflexivity. }
  destruct prev as [[s|k l r|k nl]|]; cbn [tail_of apply_tail left_rule]; auto.
  destruct (is_minus r) eqn:Em.
  - cbn [apply_tail]. apply skip_whitespace_text; auto.
  - destruct (block_like k && negb (is_plus r)) eqn:Eb; cbn [apply_tail].
    + destruct (skip_trim_nl_text c rb t Y off HY) as (k' & Hk & Hs). rewrite Hs.
      cbn [st_of trim_blocks]. apply andb_prop in Eb as [Eb1 Eb2]. rewrite Eb1, Eb2. cbn [andb].
      rewrite andb_true_r. destruct (trim (wsc c)); exists k'; auto.
    + cbn [st_of trim_blocks].
      replace (block_like k && trim (wsc c) && negb (is_plus r)) with false.
      * exact Hid.
      * symmetry. rewrite <- andb_assoc, (andb_comm (trim (wsc c))), andb_assoc, Eb. reflexivity.
Qed.

(* ---------- no_start_in ---------- *)
Lemma no_start_in_suffix d k t F : no_start_in d (k ++ t) F = true -> no_start_in d t F = true.
Proof. induction k; cbn [app no_start_in]; auto. intros H. apply andb_prop in H as [_ H]. auto. Qed.

(* ---------- the lead text ---------- *)
Definition lead_of (st : settings) (w : wsm) (blk forced als : bool) (t1 : str) : str :=
  match w with
  | WRemove => rstrip is_ws t1
  | WPreserve => t1
  | WDefault => if blk && (lstrip_blocks st || forced) && als then rstrip is_hws t1 else t1
  end.
Definition mk_blk (mk : marker) : bool := match mk with MkVar => false | _ => true end.
Definition mk_line (mk : marker) : bool := match mk with MkLineStmt | MkLineComment => true | _ => false end.

Lemma root_step_text_marker c prev rb t mk R off :
  finder_ok (dl c) -> qk c = fixed ->
  In (marker_pat (dl c) mk, mk) (patterns (dl c)) ->
  start_delim_ok (marker_pat (dl c) mk) = true ->
  no_start_in (dl c) t (marker_pat (dl c) mk ++ R) = true ->
  not_extended (dl c) (marker_pat (dl c) mk) R = true ->
  (mk = MkLineStmt -> line_start_simple (rev t ++ rb) = true) ->
  (let '(p1, tl) := apply_tail c (tail_of prev) (rb, t ++ marker_pat (dl c) mk ++ R, off) in root_step c p1 tl) =
  (let '(its, nx) := handle_start_marker c mk (lenZ (marker_pat (dl c) mk) + ws_len (mk_ws mk R))
                        (rev t ++ rb, marker_pat (dl c) mk ++ R, off + lenZ t) in
   (text_item (lead_of (st_of (wsc c)) (mk_ws mk R) (mk_blk mk) (mk_line mk) (at_line_start (scan_line_start rb) t)
                       (left_rule (st_of (wsc c)) prev t)) ++ its, nx)).
Proof.
  intros [_ HF] Hq Hin Hsd Hns Hne Hls.
  set (D := marker_pat (dl c) mk) in *.
  assert (HY : not_ws_head (D ++ R)).
  { unfold start_delim_ok in Hsd. destruct D as [|d0 D']; [discriminate|]. cbn. destruct (is_ws d0); auto; discriminate. }
  destruct (left_phase c prev rb t (D ++ R) off HY) as (k & Hk & Hp).
  set (t1 := left_rule (st_of (wsc c)) prev t) in *.
   revert Hp. destruct (apply_tail c (tail_of prev) (rb, t ++ D ++ R, off)) as [p1 tl]. intros Hp.
  unfold root_step. rewrite Hp. cbv beta iota.
  assert (Hrev : rev t1 ++ rev k ++ rb = rev t ++ rb).
  { transitivity (rev (k ++ t1) ++ rb); [rewrite rev_app_distr, <- app_assoc; reflexivity | rewrite <- Hk; reflexivity]. }
  change (t1 ++ D ++ R) with (t1 ++ marker_pat (dl c) mk ++ R).
  rewrite (HF (rev k ++ rb) t1 mk R); auto. fold D.
  2:{ apply no_start_in_suffix with (k := k). rewrite <- Hk. exact Hns. }
  2:{ intros E. rewrite Hrev. auto. }
  rewrite takeZ_app. rewrite advance_app by reflexivity. cbn [fst]. rewrite Hrev.
  replace (off + lenZ k + lenZ t1) with (off + lenZ t) by (transitivity (off + lenZ (k ++ t1)); [rewrite <- Hk; reflexivity | rewrite lenZ_app; lia]).
  
  destruct (handle_start_marker c mk (lenZ D + ws_len (mk_ws mk R)) (rev t ++ rb, D ++ R, off + lenZ t)) as [its nx].
  f_equal. f_equal. f_equal.
  rewrite Hq. unfold lead_of. destruct (mk_ws mk R); auto.
  unfold should_lstrip. cbn [q_line_blank fixed]. rewrite scan_line_start_text.
  cbn [st_of lstrip_blocks].
  assert (Eb : (lstrip_b (wsc c) || match mk with MkLineStmt | MkLineComment => true | _ => false end) && negb (match mk with MkVar => true | _ => false end)
               = mk_blk mk && (lstrip_b (wsc c) || mk_line mk)).
  { destruct mk; cbn [mk_blk mk_line negb]; rewrite ?andb_true_r, ?andb_false_r, ?andb_true_l, ?andb_false_l; reflexivity. }
  rewrite Eb.
  destruct (mk_blk mk && (lstrip_b (wsc c) || mk_line mk)); cbn [andb]; auto.
  destruct (at_line_start (scan_line_start rb) t) eqn:Eals; auto.
  apply (lstrip_block_at_line_start (scan_line_start rb) k t1); auto. rewrite <- Hk. exact Eals.
Qed.


(* ========================================================================================== *)
(* ---------- segments other than text ---------- *)
Definition seg_marker (X : seg) : marker :=
  match X with
  | Tag KVar _ _ => MkVar | Tag KBlock _ _ => MkBlock | Tag KComment _ _ => MkComment
  | Raw _ _ _ _ _ => MkBlock
  | Line LStmt _ _ => MkLineStmt | Line LComment _ _ => MkLineComment
  | Text _ => MkVar
  end.
Definition first_unit (X : seg) : unit_ :=
  match X with
  | Tag k l r => UTag (ukind_of k) l r
  | Raw l1 r1 _ _ _ => UTag URawOpen l1 r1
  | Line k _ nl => ULine k nl
  | Text t => UText t
  end.
Definition last_unit (X : seg) : unit_ :=
  match X with
  | Tag k l r => UTag (ukind_of k) l r
  | Raw _ _ _ l2 r2 => UTag URawClose l2 r2
  | Line k _ nl => ULine k nl
  | Text t => UText t
  end.
Definition seg_items (st : settings) (X : seg) : list eitem :=
  match X with
  | Tag k _ _ => emit_tag (ukind_of k)
  | Raw l1 r1 c l2 r2 =>
      emit_text (right_rule st (Some (UTag URawClose l2 r2)) (at_line_start false c) (left_rule st (Some (UTag URawOpen l1 r1)) c))
  | Line k _ _ => emit_line k
  | Text _ => []
  end.
Definition is_text (X : seg) : bool := match X with Text _ => true | _ => false end.
(* the part of the segment's source after its start delimiter *)
Definition seg_rest (d : delims) (X : seg) : str :=
  match X with
  | Tag KVar l r => mark_str l ++ body_var ++ mark_str r ++ var_e d
  | Tag KBlock l r => mark_str l ++ body_set ++ mark_str r ++ block_e d
  | Tag KComment l r => mark_str l ++ body_comment ++ mark_str r ++ com_e d
  | Raw l1 r1 c l2 r2 => mark_str l1 ++ body_raw ++ mark_str r1 ++ block_e d ++ c ++ raw_close_src d l2 r2
  | Line LStmt t nl => body_line_set ++ t ++ nl_str nl
  | Line LComment t nl => body_line_comment ++ t ++ nl_str nl
  | Text _ => []
  end.
Lemma seg_src_split d X : is_text X = false -> unparse_seg d X = marker_pat d (seg_marker X) ++ seg_rest d X.
Proof.
  destruct X as [t|k l r|l1 r1 c l2 r2|k t nl]; cbn [is_text]; try discriminate; intros _.
  - destruct k; reflexivity.
  - cbn [unparse_seg seg_marker marker_pat seg_rest]. unfold raw_open_src. rewrite <- !app_assoc. reflexivity.
  - destruct k; reflexivity.
Qed.

(* walking over the units of a non-text segment *)
Lemma walk_seg st prev bol X us : is_text X = false ->
  walk st prev bol (flatten [X] ++ us) =
  seg_items st X ++ walk st (Some (last_unit X)) (match X with Line _ _ NlNone => false | Line _ _ _ => true | _ => false end) us.
Proof.
  destruct X as [t|k l r|l1 r1 c l2 r2|k t nl]; cbn [is_text]; try discriminate; intros _; cbn [flatten app walk seg_items last_unit].
  - reflexivity.
  - cbn [emit_tag hd_error app]. reflexivity.
  - destruct nl; reflexivity.
Qed.

Lemma flatten_cons_nontext X S : is_text X = false -> flatten (X :: S) = flatten [X] ++ flatten S.
Proof. destruct X; cbn [is_text]; try discriminate; intros _; cbn [flatten app]; reflexivity. Qed.
Lemma flatten_text_nontext t X S : is_text X = false -> flatten (Text t :: X :: S) = UText t :: flatten (X :: S).
Proof. destruct X; cbn [is_text]; try discriminate; intros _; reflexivity. Qed.
Lemma flatten_first X S : is_text X = false -> hd_error (flatten (X :: S)) = Some (first_unit X).
Proof. destruct X; cbn [is_text]; try discriminate; intros _; reflexivity. Qed.

(* the lead text in the words of the specification *)
Lemma right_rule_lead st X als t1 d Rs : is_text X = false ->
  right_rule st (Some (first_unit X)) als t1 =
  lead_of st (mk_ws (seg_marker X) (seg_rest d X ++ Rs)) (mk_blk (seg_marker X)) (mk_line (seg_marker X)) als t1.
Proof.
  assert (Hm : forall (l : mark) (b : str) R, (exists b', b = 32 :: b') ->
               ws_of (hd_error (mark_str l ++ b ++ R)) = ws_of_m l).
  { intros l b R [b' ->]. destruct l; reflexivity. }
  destruct X as [t|k l r|l1 r1 c l2 r2|k t nl]; cbn [is_text]; try discriminate; intros _.
  - assert (E : mk_ws (seg_marker (Tag k l r)) (seg_rest d (Tag k l r) ++ Rs) = ws_of_m l).
    { destruct k; cbn [seg_marker seg_rest mk_ws]; rewrite <- !app_assoc; apply Hm; eexists; reflexivity. }
    rewrite E. cbn [first_unit right_rule]. unfold lead_of.
    destruct l, k, (lstrip_blocks st), als; reflexivity.
  - assert (E : mk_ws (seg_marker (Raw l1 r1 c l2 r2)) (seg_rest d (Raw l1 r1 c l2 r2) ++ Rs) = ws_of_m l1).
    { cbn [seg_marker seg_rest mk_ws]. rewrite <- !app_assoc. apply Hm. eexists; reflexivity. }
    rewrite E. cbn [first_unit right_rule]. unfold lead_of.
    destruct l1, (lstrip_blocks st), als; reflexivity.
  - destruct k; cbn [first_unit right_rule seg_marker mk_ws seg_rest mk_blk mk_line].
    + unfold lead_of. rewrite orb_true_r. reflexivity.
    + change (ws_of (hd_error ((body_line_comment ++ t ++ nl_str nl) ++ Rs))) with WDefault.
      unfold lead_of. rewrite orb_true_r. reflexivity.
Qed.

Definition bol_after (X : seg) : bool := match X with Line _ _ NlNone => false | Line _ _ _ => true | _ => false end.
Definition seg_ok (d : delims) (X : seg) (Rs : str) : Prop :=
  match X with
  | Tag _ _ _ => True
  | Raw l1 r1 c l2 r2 => raw_content_ok d c (raw_close_src d l2 r2 ++ Rs) = true
  | Line k t nl => forallb is_blank t = true /\ (nl = NlNone -> Rs = []) /\
                   (nl = NlCR -> match Rs with x :: _ => (x =? c_lf) = false | [] => True end)
  | Text _ => False
  end.


(* ========================================================================================== *)
(* ---------- line statements and line comments ---------- *)
Definition nl_cond (nl : nlstyle) (Rs : str) : Prop :=
  (nl = NlNone -> Rs = []) /\ (nl = NlCR -> match Rs with x :: _ => (x =? c_lf) = false | [] => True end).

Lemma skip_nl_line nl Rs : nl_cond nl Rs -> skip_nl fixed (nl_str nl ++ Rs) = (true, lenZ (nl_str nl)).
Proof.
  intros [H1 H2]. destruct nl; cbn [nl_str app].
  - rewrite (H1 eq_refl). reflexivity.
  - reflexivity.
  - reflexivity.
  - specialize (H2 eq_refl). unfold skip_nl. cbn [q_skipnl_swapped fixed]. rewrite Z.eqb_refl.
    destruct Rs as [|x Rs']; [reflexivity|]. rewrite H2. reflexivity.
Qed.

Lemma is_blank_hws x : is_blank x = true -> is_hws x = true.
Proof. unfold is_blank, is_hws, is_ws, is_nl, c_space, c_tab, c_lf, c_cr. lia. Qed.
Lemma forallb_blank_hws tr : forallb is_blank tr = true -> forallb is_hws tr = true.
Proof. induction tr; cbn; auto. intros H. apply andb_prop in H as [H1 H2]. rewrite is_blank_hws; auto. Qed.

Lemma nl_head_not_hws nl Rs : nl <> NlNone -> exists x r, nl_str nl ++ Rs = x :: r /\ is_hws x = false /\ is_nl x = true.
Proof. destruct nl; try congruence; intros _; cbn [nl_str app]; eexists _, _; repeat split; reflexivity. Qed.

(* the end of a line statement: blanks, then the line ending (or the end of the source) *)
Lemma line_end_check_tail c tr nl Rs : qk c = fixed -> forallb is_blank tr = true -> nl_cond nl Rs ->
  line_end_check c (tr ++ nl_str nl ++ Rs) = Some (lenZ (tr ++ nl_str nl)).
Proof.
  intros Hq Hb Hc. unfold line_end_check. rewrite Hq.
  assert (Hd : drop_while is_hws (tr ++ nl_str nl ++ Rs) = nl_str nl ++ Rs).
  { rewrite drop_while_app_all by (apply forallb_blank_hws; auto).
    destruct nl; [destruct Hc as [H1 _]; rewrite (H1 eq_refl); reflexivity|..]; reflexivity. }
  rewrite Hd, skip_nl_line by auto. f_equal. rewrite !lenZ_app. lia.
Qed.

(* inside the statement: a character that is neither blank nor a newline follows the blanks *)
Lemma line_end_check_none c (k : str) y l : qk c = fixed -> forallb is_hws k = true -> is_hws y = false -> is_nl y = false ->
  line_end_check c (k ++ y :: l) = None.
Proof.
  intros Hq Hk Hy Hn. unfold line_end_check. rewrite Hq.
  rewrite drop_while_app_all by auto. cbn [drop_while]. rewrite Hy.
  unfold skip_nl. cbn [q_skipnl_swapped fixed]. unfold is_nl in Hn. apply orb_false_elim in Hn as [Hn1 Hn2].
  rewrite Hn2, Hn1. reflexivity.
Qed.

Ltac lec_none Hq := cbn [lec];
  first [ apply (line_end_check_none _ [] _ _ Hq); reflexivity
        | apply (line_end_check_none _ [32] _ _ Hq); reflexivity ].
Ltac cal_ws Hq := cbn [char_action]; apply TA_ws; [lec_none Hq | reflexivity].
Ltac cal_plain Hq := cbn [char_action]; rewrite TA_plain; [ reflexivity | lec_none Hq | reflexivity | reflexivity ].

Lemma scan_line_set c rb tr nl Rs off : qk c = fixed -> forallb is_blank tr = true -> nl_cond nl Rs ->
  scan c SLine Normal 0 rb (body_line_set ++ tr ++ nl_str nl ++ Rs) off =
  ScEnd (rev (body_line_set ++ tr ++ nl_str nl) ++ rb) Rs (off + lenZ (body_line_set ++ tr ++ nl_str nl)) TNone.
Proof.
  intros Hq Hb Hc. unfold body_line_set. cbn [app].
  erewrite scan_step by (cal_ws Hq).
  erewrite scan_step by (cal_plain Hq).     (* s *)
  erewrite scan_step by reflexivity.        (* e *)
  erewrite scan_step by reflexivity.        (* t *)
  erewrite scan_step by (cal_ws Hq).
  erewrite scan_step by (cal_plain Hq).     (* q *)
  erewrite scan_step by (cal_ws Hq).
  erewrite scan_step by (cal_plain Hq).     (* = *)
  erewrite scan_step by (cal_ws Hq).
  (* what follows the number is blanks + line ending, or nothing *)
  destruct (tr ++ nl_str nl ++ Rs) as [|a l] eqn:El; erewrite scan_step by (cal_plain Hq).     (* 1 *)
  - (* end of the source *)
    assert (tr = [] /\ nl = NlNone /\ Rs = []) as (-> & -> & ->).
    { destruct tr; [|discriminate]. destruct nl; try discriminate. destruct Rs; try discriminate. auto. }
    cbn [scan nl_str app]. f_equal. len_norm. lia.
  - assert (Ha : char_action c SLine (InNum 1) (0 + 0 + 0 + 0 + 0 + 0 + 0 + 0 + 0 + 0) (a :: l) = AEnd (lenZ (tr ++ nl_str nl)) TNone).
    { assert (Hcls : is_digit a = false /\ (is_alpha a || (a =? 95) || (a =? 46) || (128 <=? a)) = false).
      { destruct tr as [|t0 tr'].
        - destruct nl; cbn [nl_str app] in El; [destruct Hc as [H1 _]; rewrite (H1 eq_refl) in El; discriminate|..];
            inversion El; subst; split; reflexivity.
        - cbn [app] in El. inversion El; subst. cbn [forallb] in Hb. apply andb_prop in Hb as [Hb _].
          unfold is_blank, c_space, c_tab in Hb. unfold is_digit, is_alpha. split; lia. }
      destruct Hcls as [Hd Ha]. cbn [char_action]. rewrite Hd, Ha.
      apply TA_line_end. rewrite <- El. apply line_end_check_tail; auto. }
    rewrite (scan_end _ _ _ _ _ _ _ _ _ _ Ha). rewrite <- El.
    replace (tr ++ nl_str nl ++ Rs) with ((tr ++ nl_str nl) ++ Rs) by (rewrite <- app_assoc; reflexivity).
    rewrite advance_app by reflexivity. f_equal.
    + list_norm. reflexivity.
    + len_norm. lia.
Qed.

(* ---------- handle_start_marker for a line statement ---------- *)
Lemma hsm_line_stmt c rbm tr nl Rs offm : qk c = fixed -> forallb is_blank tr = true -> nl_cond nl Rs ->
  handle_start_marker c MkLineStmt (lenZ (line_s (dl c)) + ws_len WDefault)
     (rbm, line_src (dl c) LStmt tr nl ++ Rs, offm) =
  ([IBlock offm], cont_tail c (Some (ULine LStmt nl)) (rev (line_src (dl c) LStmt tr nl) ++ rbm, Rs, offm + lenZ (line_src (dl c) LStmt tr nl))).
Proof.
  intros Hq Hb Hc. unfold handle_start_marker, line_src. cbn [ws_len]. rewrite Z.add_0_r.
  rewrite <- !app_assoc. rewrite advance_app by reflexivity.
  rewrite scan_line_set by auto. rewrite after_scan_end. unfold cont_tail. cbn [tail_of].
  match goal with |- (_, cont_of (apply_tail _ _ ?P1)) = (_, cont_of (apply_tail _ _ ?P2)) => assert (E : P1 = P2) end.
  { f_equal; [f_equal|]; [list_norm; reflexivity | len_norm; lia]. }
  rewrite E. reflexivity.
Qed.

(* ---------- handle_start_marker for a line comment ---------- *)
Lemma hsm_line_comment c rbm tr nl Rs offm : qk c = fixed -> forallb is_blank tr = true -> nl_cond nl Rs ->
  handle_start_marker c MkLineComment (lenZ (line_c (dl c)) + ws_len WDefault)
     (rbm, line_src (dl c) LComment tr nl ++ Rs, offm) =
  ([], cont_tail c (Some (ULine LComment nl)) (rev (line_src (dl c) LComment tr nl) ++ rbm, Rs, offm + lenZ (line_src (dl c) LComment tr nl))).
Proof.
  intros Hq Hb Hc. unfold handle_start_marker, line_src. cbn [ws_len]. rewrite Z.add_0_r.
  rewrite <- !app_assoc. rewrite skipZ_app.
  assert (Hd : drop_while (fun x => negb (is_nl x)) (body_line_comment ++ tr ++ nl_str nl ++ Rs) = nl_str nl ++ Rs).
  { unfold body_line_comment. cbn [app drop_while]. change (negb (is_nl 32)) with true. change (negb (is_nl 99)) with true. cbv iota.
    rewrite drop_while_app_all.
    - destruct nl; [destruct Hc as [H1 _]; rewrite (H1 eq_refl); reflexivity|..]; reflexivity.
    - rewrite forallb_forall in *. intros x Hx. rewrite (is_blank_not_nl x); auto. }
  rewrite Hd, Hq, skip_nl_line by auto.
  replace (lenZ (line_c (dl c)) + (lenZ (body_line_comment ++ tr ++ nl_str nl ++ Rs) - lenZ (nl_str nl ++ Rs)) + lenZ (nl_str nl))
    with (lenZ (line_c (dl c) ++ body_line_comment ++ tr ++ nl_str nl)) by (len_norm; lia).
  replace (line_c (dl c) ++ body_line_comment ++ tr ++ nl_str nl ++ Rs)
    with ((line_c (dl c) ++ body_line_comment ++ tr ++ nl_str nl) ++ Rs) by (rewrite <- !app_assoc; reflexivity).
  rewrite advance_app by reflexivity. unfold cont_tail, cont_of. cbn [tail_of apply_tail fst snd]. reflexivity.
Qed.

(* after a line statement / comment with a line ending the next position is at the start of a line *)
Lemma line_after d k tr nl rb : nl <> NlNone ->
  scan_line_start (rev (line_src d k tr nl) ++ rb) = true /\ line_start_simple (rev (line_src d k tr nl) ++ rb) = true.
Proof.
  intros Hn. assert (E : exists x r, rev (line_src d k tr nl) = x :: r /\ (x = c_lf \/ x = c_cr)).
  { destruct k; unfold line_src; rewrite !rev_app_distr; destruct nl; try congruence; cbn [nl_str rev app]; eexists _, _; split; try reflexivity; auto. }
  destruct E as (x & r & E & Hx). rewrite E. cbn [app scan_line_start line_start_simple].
  destruct Hx as [-> | ->]; split; reflexivity.
Qed.


(* ========================================================================================== *)
(* ---------- skip_basic_tag on a raw / endraw tag ---------- *)
Lemma sbt_tail (be : str) (r : mark) (R : str) : end_delim_ok be = true ->
  drop_while is_ascii_ws (mark_str r ++ be ++ R) = mark_str r ++ be ++ R /\
  (match mark_str r ++ be ++ R with
   | c :: r' => if c =? c_minus then (WRemove, r') else if c =? c_plus then (WPreserve, r') else (WDefault, mark_str r ++ be ++ R)
   | [] => (WDefault, mark_str r ++ be ++ R)
   end) = (ws_of_m r, be ++ R).
Proof.
  intros He. destruct (end_delim_ok_inv _ He) as (c0 & e' & Ee & Hw & Hm & Hp & _).
  destruct r; cbn [mark_str app ws_of_m].
  - rewrite Ee. cbn [app drop_while]. rewrite Hw.
    replace (c0 =? c_minus) with false by (symmetry; apply Z.eqb_neq; auto).
    replace (c0 =? c_plus) with false by (symmetry; apply Z.eqb_neq; auto). split; reflexivity.
  - split; reflexivity.
  - split; reflexivity.
Qed.

Lemma skip_basic_tag_raw be (r : mark) R : end_delim_ok be = true ->
  skip_basic_tag (body_raw ++ mark_str r ++ be ++ R) s_raw be false = Some (lenZ (body_raw ++ mark_str r ++ be), ws_of_m r).
Proof.
  intros He. destruct (sbt_tail be r R He) as [H1 H2].
  unfold skip_basic_tag, body_raw, s_raw. cbn [app drop_while].
  change (is_ascii_ws 32) with true. change (is_ascii_ws 114) with false. cbv iota.
  unfold strip_prefix. cbn [prefix_of]. rewrite !Z.eqb_refl. cbn [andb].
  change (lenZ [114; 97; 119]) with 3.
  replace (skipZ 3 (114 :: 97 :: 119 :: 32 :: mark_str r ++ be ++ R)) with (32 :: mark_str r ++ be ++ R)
    by (symmetry; apply (skipZ_app [114; 97; 119])).
  cbn [drop_while]. change (is_ascii_ws 32) with true. cbv iota.
  rewrite H1, H2. rewrite prefix_of_app, skipZ_app. f_equal. f_equal. len_norm. lia.
Qed.

Lemma skip_basic_tag_endraw be (l r : mark) R : end_delim_ok be = true ->
  skip_basic_tag (mark_str l ++ body_endraw ++ mark_str r ++ be ++ R) s_endraw be true =
    Some (lenZ (mark_str l ++ body_endraw ++ mark_str r ++ be), ws_of_m r).
Proof.
  intros He. destruct (sbt_tail be r R He) as [H1 H2].
  assert (E : (if true then match mark_str l ++ body_endraw ++ mark_str r ++ be ++ R with
                           | c :: r0 => if (c =? c_minus) || (c =? c_plus) then r0 else mark_str l ++ body_endraw ++ mark_str r ++ be ++ R
                           | [] => mark_str l ++ body_endraw ++ mark_str r ++ be ++ R end
               else mark_str l ++ body_endraw ++ mark_str r ++ be ++ R) = body_endraw ++ mark_str r ++ be ++ R).
  { destruct l; reflexivity. }
  unfold skip_basic_tag. rewrite E. unfold body_endraw, s_endraw. cbn [app drop_while].
  change (is_ascii_ws 32) with true. change (is_ascii_ws 101) with false. cbv iota.
  unfold strip_prefix. cbn [prefix_of]. rewrite !Z.eqb_refl. cbn [andb].
  change (lenZ [101; 110; 100; 114; 97; 119]) with 6.
  replace (skipZ 6 (101 :: 110 :: 100 :: 114 :: 97 :: 119 :: 32 :: mark_str r ++ be ++ R)) with (32 :: mark_str r ++ be ++ R)
    by (symmetry; apply (skipZ_app [101; 110; 100; 114; 97; 119])).
  cbn [drop_while]. change (is_ascii_ws 32) with true. cbv iota.
  rewrite H1, H2. rewrite prefix_of_app, skipZ_app. f_equal. f_equal. len_norm. destruct l; cbn [mark_str]; len_norm; lia.
Qed.

(* ---------- raw_search walks over well-formed raw content ---------- *)
Lemma raw_search_unfold c ws rb0 acc l off0 wait :
  raw_search c ws rb0 acc l off0 wait =
  let here := match wait with
              | O => if prefix_of (block_s (dl c)) l then Some (raw_finish c ws rb0 acc l off0) else None
              | S _ => None
              end in
  match here with
  | Some (Some x) => Some x
  | _ => match l with
         | [] => None
         | a :: r => raw_search c ws rb0 (a :: acc) r off0
                       (match here, wait with Some None, _ => pred (length (block_s (dl c))) | _, S w => w | _, O => O end)
         end
  end.
Proof. destruct l; reflexivity. Qed.

Lemma raw_finish_none c ws rb0 acc l off0 :
  skip_basic_tag (skipZ (lenZ (block_s (dl c))) l) s_endraw (block_e (dl c)) true = None ->
  raw_finish c ws rb0 acc l off0 = None.
Proof. intros H. unfold raw_finish. rewrite H. reflexivity. Qed.

Lemma raw_search_content c ws rb0 off0 F : forall content acc wait,
  raw_content_ok (dl c) content F = true -> (wait <= length content)%nat ->
  raw_search c ws rb0 acc (content ++ F) off0 wait = raw_search c ws rb0 (rev content ++ acc) F off0 0.
Proof.
  induction content as [|a r IH]; intros acc wait Hok Hw.
  - cbn [length] in Hw. assert (wait = 0%nat) by lia. subst. reflexivity.
  - cbn [raw_content_ok] in Hok. apply andb_prop in Hok as [Hhere Hok].
    rewrite raw_search_unfold. cbn [app].
    destruct wait as [|w].
    + destruct (prefix_of (block_s (dl c)) (a :: r ++ F)) eqn:Ep.
      * cbn [app] in Hhere. rewrite Ep in Hhere. apply andb_prop in Hhere as [Hn Hl].
        assert (Hnone : skip_basic_tag (skipZ (lenZ (block_s (dl c))) (a :: r ++ F)) s_endraw (block_e (dl c)) true = None).
        { destruct (skip_basic_tag _ _ _ _); [discriminate|reflexivity]. }
        rewrite (raw_finish_none _ _ _ _ _ _ Hnone). cbv beta iota zeta.
        rewrite IH; auto.
        -- cbn [rev]. rewrite <- app_assoc. reflexivity.
        -- unfold lenZ in Hl. cbn [length] in Hl. lia.
      * cbv beta iota zeta. rewrite IH; auto; [cbn [rev]; rewrite <- app_assoc; reflexivity | lia].
    + cbv beta iota zeta. rewrite IH; auto; [cbn [rev]; rewrite <- app_assoc; reflexivity | cbn [length] in Hw; lia].
Qed.

Definition ends_nonws_P15 (s : str) : Prop := exists x r, rev s = x :: r /\ is_ws x = false.

(* ---------- the rules applied to the raw content ---------- *)
Lemma raw_trim_is_strip_one_newline (content : str) :
  (let a := match content with x :: t => if x =? c_cr then t else content | [] => content end in
   match a with x :: t => if x =? c_lf then t else a | [] => a end) = strip_one_newline content.
Proof.
  destruct content as [|x t]; cbn; auto.
  destruct (x =? c_cr) eqn:E1.
  - destruct t as [|y t']; auto.
  - destruct (x =? c_lf); reflexivity.
Qed.

Lemma left_rule_suffix st prev t : exists k, t = k ++ left_rule st prev t.
Proof.
  destruct prev as [[s|k l r|k nl]|]; cbn [left_rule]; try (exists []; reflexivity).
  destruct (is_minus r).
  - destruct (drop_while_split is_ws t) as (k' & Hk & _). exists k'. exact Hk.
  - destruct (_ && _); [|exists []; reflexivity].
    destruct t as [|a t']; [exists []; reflexivity|]. cbn [strip_one_newline].
    destruct (a =? c_cr).
    + destruct t' as [|b t'']; [exists [a]; reflexivity|]. destruct (b =? c_lf); [exists [a; b] | exists [a]]; reflexivity.
    + destruct (a =? c_lf); [exists [a] | exists []]; reflexivity.
Qed.

Lemma hsm_raw c rbm (l1 r1 : mark) content (l2 r2 : mark) Rs offm :
  qk c = fixed -> wf_delims (dl c) = true ->
  raw_content_ok (dl c) content (raw_close_src (dl c) l2 r2 ++ Rs) = true ->
  exists chunk,
  handle_start_marker c MkBlock (lenZ (block_s (dl c)) + ws_len (ws_of_m l1))
     (rbm, unparse_seg (dl c) (Raw l1 r1 content l2 r2) ++ Rs, offm) =
  ([IText chunk], cont_tail c (Some (UTag URawClose l2 r2))
                    (rev (unparse_seg (dl c) (Raw l1 r1 content l2 r2)) ++ rbm, Rs, offm + lenZ (unparse_seg (dl c) (Raw l1 r1 content l2 r2))))
  /\ chunk = right_rule (st_of (wsc c)) (Some (UTag URawClose l2 r2)) (at_line_start false content)
                        (left_rule (st_of (wsc c)) (Some (UTag URawOpen l1 r1)) content).
Proof.
  intros Hq Hwf Hok.
  assert (Hbe : end_delim_ok (block_e (dl c)) = true).
  { unfold wf_delims in Hwf. repeat (apply andb_prop in Hwf as [Hwf ?]). auto. }
  set (BS := block_s (dl c)) in *. set (BE := block_e (dl c)) in *.
  set (opn := BS ++ mark_str l1 ++ body_raw ++ mark_str r1 ++ BE).
  set (cls := BS ++ mark_str l2 ++ body_endraw ++ mark_str r2 ++ BE).
  assert (Esrc : unparse_seg (dl c) (Raw l1 r1 content l2 r2) = opn ++ content ++ cls).
  { cbn [unparse_seg]. unfold raw_open_src, raw_close_src. reflexivity. }
  rewrite Esrc. eexists. split; [|reflexivity].
  unfold handle_start_marker. rewrite ws_len_mark.
  replace ((opn ++ content ++ cls) ++ Rs) with ((BS ++ mark_str l1) ++ body_raw ++ mark_str r1 ++ BE ++ content ++ cls ++ Rs)
    by (unfold opn; rewrite <- !app_assoc; reflexivity).
  rewrite skipZ_app_n by (rewrite lenZ_app; reflexivity).
  fold BE. rewrite skip_basic_tag_raw by auto.
  replace ((BS ++ mark_str l1) ++ body_raw ++ mark_str r1 ++ BE ++ content ++ cls ++ Rs) with (opn ++ content ++ cls ++ Rs)
    by (unfold opn; rewrite <- !app_assoc; reflexivity).
  rewrite advance_app by (unfold opn; len_norm; lia).
  (* the search for the endraw tag *)
  replace (raw_close_src (dl c) l2 r2 ++ Rs) with (cls ++ Rs) in Hok by reflexivity.
  rewrite (raw_search_content c _ _ _ (cls ++ Rs) content [] 0 Hok (Nat.le_0_l _)). rewrite app_nil_r.
  rewrite raw_search_unfold.
  assert (Hpre : prefix_of (block_s (dl c)) (cls ++ Rs) = true).
  { unfold cls. fold BS. rewrite <- !app_assoc. apply prefix_of_app. }
  rewrite Hpre.
  (* raw_finish at the endraw tag *)
  unfold raw_finish. fold BS BE.
  replace (skipZ (lenZ BS) (cls ++ Rs)) with (mark_str l2 ++ body_endraw ++ mark_str r2 ++ BE ++ Rs)
    by (unfold cls; rewrite <- !app_assoc; symmetry; apply skipZ_app).
  rewrite skip_basic_tag_endraw by auto. cbv beta iota zeta.
  rewrite rev_involutive.
  replace (ws_of (hd_error (mark_str l2 ++ body_endraw ++ mark_str r2 ++ BE ++ Rs))) with (ws_of_m l2) by (destruct l2; reflexivity).
  rewrite Hq. cbn [q_raw_lstrip fixed].
  (* the position after the endraw tag *)
  replace (cls ++ Rs) with ((BS ++ mark_str l2 ++ body_endraw ++ mark_str r2 ++ BE) ++ Rs) by reflexivity.
  rewrite advance_app by (len_norm; lia).
  rewrite tail_ws_apply. unfold cont_tail.
  replace (tail_of (Some (UTag URawClose l2 r2))) with (tail_of_ws (ws_of_m r2)) by (destruct r2; reflexivity).
  f_equal.
  - (* the chunk *)
    f_equal. f_equal.
    set (st := st_of (wsc c)).
    assert (Hl : (match ws_of_m r1 with
                  | WDefault => if trim (wsc c) then
                                  (let a := match content with x :: t => if x =? c_cr then t else content | [] => content end in
                                   match a with x :: t => if x =? c_lf then t else a | [] => a end) else content
                  | WRemove => drop_while is_ws content
                  | WPreserve => content end) = left_rule st (Some (UTag URawOpen l1 r1)) content).
    { rewrite raw_trim_is_strip_one_newline. destruct r1; cbn [ws_of_m left_rule is_minus is_plus block_like negb andb st st_of trim_blocks];
        try reflexivity. rewrite andb_true_r. reflexivity. rewrite andb_false_r. reflexivity. }
    cbv zeta in Hl. rewrite Hl. set (t1 := left_rule st (Some (UTag URawOpen l1 r1)) content).
    assert (Hals : scan_line_start (rev content ++ rev opn ++ rbm) = at_line_start false content).
    { rewrite scan_line_start_text. f_equal.
      assert (Hen : ends_nonws_P15 opn).
      { unfold ends_nonws_P15, opn. destruct (end_delim_ok_inv _ Hbe) as (_ & _ & _ & _ & _ & _ & _ & x & r & E & Hx).
        exists x, (r ++ rev (BS ++ mark_str l1 ++ body_raw ++ mark_str r1)).
        rewrite !app_assoc, rev_app_distr. fold BE. rewrite E. split; auto. }
      destruct Hen as (x & r & E & Hx). rewrite E. cbn [app scan_line_start].
      assert (Hn : is_nl x = false) by (unfold is_nl, c_lf, c_cr; unfold is_ws in Hx; lia).
      rewrite Hn, Hx. reflexivity. }
    unfold should_lstrip. cbn [q_line_blank fixed]. rewrite orb_false_r, andb_true_r. rewrite Hals.
    destruct l2; cbn [ws_of_m right_rule is_minus is_plus block_like negb andb st st_of lstrip_blocks]; try reflexivity.
    + destruct (lstrip_b (wsc c)), (at_line_start false content) eqn:Ea; cbn [andb]; try reflexivity.
      destruct (left_rule_suffix st (Some (UTag URawOpen l1 r1)) content) as (k & Hk).
      apply (lstrip_block_at_line_start false k t1); auto. unfold t1. rewrite <- Hk. exact Ea.
    + destruct (lstrip_b (wsc c)), (at_line_start false content); reflexivity.
  - (* the continuation *)
    match goal with |- cont_of (apply_tail _ _ ?P1) = cont_of (apply_tail _ _ ?P2) => assert (E : P1 = P2) end.
    { f_equal; [f_equal|]; [unfold opn, cls; list_norm; reflexivity | unfold opn, cls; len_norm; rewrite ?lenZ_rev; lia]. }
    rewrite E. reflexivity.
Qed.


(* ========================================================================================== *)
Lemma wf_delims_inv d : wf_delims d = true ->
  valid_config fixed d = true /\ end_delim_ok (block_e d) = true /\ end_delim_ok (var_e d) = true /\ end_delim_ok (com_e d) = true /\
  comment_end_ok (com_e d) = true /\ infix_free d = true /\ forallb (fun pm => start_delim_ok (fst pm)) (patterns d) = true.
Proof. unfold wf_delims. intros H. repeat (apply andb_prop in H as [H ?]). repeat split; auto. Qed.

Lemma mk_ws_mark (l : mark) (b R : str) mk : mk <> MkLineStmt -> (exists b', b = 32 :: b') ->
  mk_ws mk (mark_str l ++ b ++ R) = ws_of_m l.
Proof. intros Hm [b' ->]. destruct mk; try congruence; destruct l; reflexivity. Qed.

Lemma view_app a b : view (a ++ b) = view a ++ view b.
Proof. induction a as [|[s|o|o] a IH]; cbn [app view]; auto; [destruct s|..]; cbn [app]; rewrite IH; reflexivity. Qed.
Lemma view_text_item s : view (text_item s) = emit_text s.
Proof. destruct s; reflexivity. Qed.

(* the handling of one non-text segment *)
Definition supported (X : seg) : Prop := match X with Text _ => False | _ => True end.

Lemma hsm_seg c X Rs rbm offm : qk c = fixed -> wf_delims (dl c) = true -> supported X -> seg_ok (dl c) X Rs ->
  exists its,
    handle_start_marker c (seg_marker X)
        (lenZ (marker_pat (dl c) (seg_marker X)) + ws_len (mk_ws (seg_marker X) (seg_rest (dl c) X ++ Rs)))
        (rbm, unparse_seg (dl c) X ++ Rs, offm)
    = (its, cont_tail c (Some (last_unit X)) (rev (unparse_seg (dl c) X) ++ rbm, Rs, offm + lenZ (unparse_seg (dl c) X)))
    /\ view its = seg_items (st_of (wsc c)) X.
Proof.
  intros Hq Hwf Hs Hok. destruct (wf_delims_inv _ Hwf) as (_ & Hbe & Hve & Hce & Hcc & _ & _).
  destruct X as [t|k l r|l1 r1 c0 l2 r2|k t nl]; cbn [supported] in Hs; try contradiction.
  - destruct k; cbn [seg_marker marker_pat seg_rest unparse_seg last_unit seg_items ukind_of].
    + rewrite <- !app_assoc. rewrite mk_ws_mark by (try congruence; eexists; reflexivity).
      eexists. split; [apply hsm_var; auto|reflexivity].
    + rewrite <- !app_assoc. rewrite mk_ws_mark by (try congruence; eexists; reflexivity).
      eexists. split; [apply hsm_block; auto|reflexivity].
    + rewrite <- !app_assoc. rewrite mk_ws_mark by (try congruence; eexists; reflexivity).
      eexists. split; [apply hsm_comment; auto|reflexivity].
  - cbn [seg_ok] in Hok. cbn [seg_marker marker_pat seg_rest last_unit seg_items].
    rewrite <- !app_assoc. rewrite mk_ws_mark by (try congruence; eexists; reflexivity).
    destruct (hsm_raw c rbm l1 r1 c0 l2 r2 Rs offm Hq Hwf Hok) as (chunk & H1 & H2).
    exists [IText chunk]. split; [exact H1|]. rewrite H2. destruct (right_rule _ _ _ _); reflexivity.
  - cbn [seg_ok] in Hok. destruct Hok as (Hb & Hn1 & Hn2).
    assert (Hc : nl_cond nl Rs) by (split; auto).
    destruct k; cbn [seg_marker marker_pat seg_rest unparse_seg last_unit seg_items mk_ws].
    + eexists. split; [apply hsm_line_stmt; auto|reflexivity].
    + change (ws_of (hd_error ((body_line_comment ++ t ++ nl_str nl) ++ Rs))) with WDefault.
      eexists. split; [apply hsm_line_comment; auto|reflexivity].
Qed.


(* ========================================================================================== *)
Lemma toks_unfold f c rb x r off tl :
  toks (S f) c (rb, x :: r, off) tl =
  match root_step c (rb, x :: r, off) tl with
  | (its, Stop e) => (its, e)
  | (its, Cont p' tl') => let '(r0, e) := toks f c p' tl' in (its ++ r0, e)
  end.
Proof. reflexivity. Qed.
Lemma toks_nil f c rb off tl : toks (S f) c (rb, [], off) tl = ([], FOk).
Proof. reflexivity. Qed.

Lemma apply_tail_nonempty c ta rb t Y off : not_ws_head Y -> Y <> [] ->
  exists rb' x r off', fst (apply_tail c ta (rb, t ++ Y, off)) = (rb', x :: r, off').
Proof.
  intros HY HYn.
  assert (H0 : forall t', exists x r, t' ++ Y = x :: r).
  { intros t'. destruct t'; [destruct Y; [congruence|]|]; cbn [app]; eauto. }
  destruct ta; cbn [apply_tail fst].
  - destruct (H0 t) as (x & r & E). rewrite E. eauto.
  - destruct (H0 t) as (x & r & E). rewrite E. eauto.
  - destruct (skip_trim_nl_text c rb t Y off HY) as (k & _ & Hs). rewrite Hs.
    destruct (H0 (if trim (wsc c) then strip_one_newline t else t)) as (x & r & E). rewrite E. eauto.
Qed.

Lemma left_rule_nil st prev : left_rule st prev [] = [].
Proof. destruct prev as [[s|k l r|k nl]|]; cbn [left_rule]; auto. destruct (is_minus r); auto. destruct (_ && _); auto. Qed.
Lemma rstrip_nil p : rstrip p [] = []. Proof. reflexivity. Qed.
Lemma right_rule_nil st nxt als : right_rule st nxt als [] = [].
Proof. destruct nxt as [[s|k l r|k nl]|]; cbn [right_rule]; auto. destruct (is_minus l); auto. destruct (_ && _); auto. destruct als; auto. Qed.

Lemma last_nonws_scan (e rb : str) x r : rev e = x :: r -> is_ws x = false -> scan_line_start (rev e ++ rb) = false /\ line_start_simple (rev e ++ rb) = false.
Proof.
  intros E Hx. rewrite E. cbn [app scan_line_start line_start_simple].
  assert (Hn : is_nl x = false).
  { unfold is_nl, c_lf, c_cr. unfold is_ws in Hx. lia. }
  rewrite Hn, Hx. split; auto.
  unfold is_ws in Hx. unfold c_space, c_tab, c_cr, c_lf.
  destruct (x =? 32) eqn:E1; [lia|]. destruct (x =? 9) eqn:E2; [lia|]. cbn [orb]. lia.
Qed.

Definition ends_nonws (s : str) : Prop := exists x r, rev s = x :: r /\ is_ws x = false.
Lemma ends_nonws_app a b : ends_nonws b -> ends_nonws (a ++ b).
Proof. intros (x & r & E & H). exists x, (r ++ rev a). rewrite rev_app_distr, E. split; auto. Qed.

(* a tag ends with its end delimiter, hence with a character that is not whitespace *)
Lemma tag_ends_nonws d k l r : wf_delims d = true -> ends_nonws (tag_src d k l r).
Proof.
  intros Hwf. destruct (wf_delims_inv _ Hwf) as (_ & Hbe & Hve & Hce & _).
  destruct k; unfold tag_src; repeat apply ends_nonws_app.
  - destruct (end_delim_ok_inv _ Hve) as (_ & _ & _ & _ & _ & _ & _ & H). exact H.
  - destruct (end_delim_ok_inv _ Hbe) as (_ & _ & _ & _ & _ & _ & _ & H). exact H.
  - destruct (end_delim_ok_inv _ Hce) as (_ & _ & _ & _ & _ & _ & _ & H). exact H.
Qed.


(* ========================================================================================== *)
Lemma in_patterns_tag d k : In (tag_start d k, match k with KVar => MkVar | KBlock => MkBlock | KComment => MkComment end) (patterns d).
Proof. unfold patterns. destruct k; cbn; auto. Qed.

Lemma wf_nontext_inv d bol a X S : is_text X = false -> wf_segs d bol a (X :: S) = true ->
  In (marker_pat d (seg_marker X), seg_marker X) (patterns d) /\
  not_extended d (marker_pat d (seg_marker X)) (seg_rest d X ++ unparse d S) = true /\
  (seg_marker X = MkLineStmt -> bol = true) /\ seg_ok d X (unparse d S) /\
  wf_segs d (bol_after X) false S = true.
Proof.
  intros Ht H.
  assert (Hsk : skipZ (lenZ (marker_pat d (seg_marker X))) (unparse d (X :: S)) = seg_rest d X ++ unparse d S).
  { cbn [unparse]. rewrite seg_src_split by auto. rewrite <- app_assoc. apply skipZ_app. }
  destruct X as [t|k l r|l1 r1 c l2 r2|k t nl]; cbn [is_text] in Ht; try discriminate.
  - cbn [wf_segs] in H. apply andb_prop in H as [H1 H2].
    replace (tag_start d k) with (marker_pat d (seg_marker (Tag k l r))) in H1 by (destruct k; reflexivity).
    rewrite Hsk in H1. repeat split; auto.
    + pose proof (in_patterns_tag d k) as Hi. destruct k; exact Hi.
    + destruct k; cbn; congruence.
  - cbn [wf_segs] in H. apply andb_prop in H as [H H3]. apply andb_prop in H as [H1 H2].
    change (block_s d) with (marker_pat d (seg_marker (Raw l1 r1 c l2 r2))) in H1. rewrite Hsk in H1.
    repeat split; auto.
    + unfold patterns. cbn. auto.
    + cbn; congruence.
  - cbn [wf_segs] in H. apply andb_prop in H as [H H6]. apply andb_prop in H as [H H5]. apply andb_prop in H as [H H4].
    apply andb_prop in H as [H H3]. apply andb_prop in H as [H1 H2].
    replace (line_start d k) with (marker_pat d (seg_marker (Line k t nl))) in * by (destruct k; reflexivity).
    rewrite Hsk in H5.
    refine (conj _ (conj H5 (conj _ (conj (conj H3 (conj _ _)) _)))).
    + unfold patterns. destruct k; cbn [seg_marker marker_pat] in *.
      * apply in_or_app. right. apply in_or_app. left. destruct (is_nil (line_s d)); [discriminate|]. left. reflexivity.
      * apply in_or_app. right. apply in_or_app. right. destruct (is_nil (line_c d)); [discriminate|]. left. reflexivity.
    + destruct k; cbn [seg_marker]; [auto|congruence].
    + intros ->. destruct S; [reflexivity|discriminate].
    + intros ->. destruct (unparse d S); auto. apply negb_true_iff in H4. exact H4.
    + destruct nl; exact H6.
Qed.

Definition prev_nontext (prev : option unit_) : Prop := match prev with Some (UText _) => False | _ => True end.
Lemma last_unit_nontext X : is_text X = false -> prev_nontext (Some (last_unit X)).
Proof. destruct X; cbn; auto; discriminate. Qed.

(* where the position after a non-text segment stands with respect to the start of a line *)
Definition after_ok (d : delims) (X : seg) (S : list seg) : Prop :=
  S = [] \/ forall rb, scan_line_start (rev (unparse_seg d X) ++ rb) = bol_after X /\
                       line_start_simple (rev (unparse_seg d X) ++ rb) = bol_after X.
Lemma after_ok_tag d k l r S : wf_delims d = true -> after_ok d (Tag k l r) S.
Proof.
  intros Hwf. right. intros rb. destruct (tag_ends_nonws d k l r Hwf) as (x & r0 & E & Hx).
  cbn [unparse_seg bol_after]. apply (last_nonws_scan _ rb x r0); auto.
Qed.

Lemma raw_ends_nonws d l1 r1 c l2 r2 : wf_delims d = true -> ends_nonws (unparse_seg d (Raw l1 r1 c l2 r2)).
Proof.
  intros Hwf. destruct (wf_delims_inv _ Hwf) as (_ & Hbe & _).
  cbn [unparse_seg]. unfold raw_close_src. repeat apply ends_nonws_app.
  destruct (end_delim_ok_inv _ Hbe) as (_ & _ & _ & _ & _ & _ & _ & H). exact H.
Qed.

Lemma after_ok_all d bol X S : wf_delims d = true -> is_text X = false -> wf_segs d bol false (X :: S) = true -> after_ok d X S.
Proof.
  intros Hwf Ht Hw. destruct X as [t|k l r|l1 r1 c l2 r2|k tr nl]; cbn [is_text] in Ht; try discriminate.
  - apply after_ok_tag; auto.
  - right. intros rb. destruct (raw_ends_nonws d l1 r1 c l2 r2 Hwf) as (x & r0 & E & Hx).
    cbn [bol_after]. apply (last_nonws_scan _ rb x r0); auto.
  - destruct nl.
    + left. cbn [wf_segs] in Hw. apply andb_prop in Hw as [Hw _]. apply andb_prop in Hw as [Hw _]. apply andb_prop in Hw as [_ Hw].
      destruct S; [reflexivity|discriminate].
    + right. intros rb. cbn [unparse_seg bol_after]. apply line_after. discriminate.
    + right. intros rb. cbn [unparse_seg bol_after]. apply line_after. discriminate.
    + right. intros rb. cbn [unparse_seg bol_after]. apply line_after. discriminate.
Qed.


(* ========================================================================================== *)
Lemma seg_src_nonempty d X : is_text X = false -> start_delim_ok (marker_pat d (seg_marker X)) = true ->
  (0 < length (unparse_seg d X))%nat.
Proof.
  intros Ht Hs. rewrite seg_src_split by auto. rewrite app_length.
  destruct (marker_pat d (seg_marker X)); [discriminate|]. cbn [length]. apply Nat.lt_0_succ.
Qed.

Section Main.
Variable c : cfg.
Hypothesis HF : finder_ok (dl c).
Hypothesis Hq : qk c = fixed.
Hypothesis Hwf : wf_delims (dl c) = true.
Let d := dl c.
Let st := st_of (wsc c).

(* what is known about a supported non-text segment (extended when raw blocks and line statements are added) *)
Hypothesis hsm_all : forall X Rs rbm offm, is_text X = false -> supported X -> seg_ok d X Rs ->
  exists its,
    handle_start_marker c (seg_marker X)
        (lenZ (marker_pat d (seg_marker X)) + ws_len (mk_ws (seg_marker X) (seg_rest d X ++ Rs)))
        (rbm, unparse_seg d X ++ Rs, offm)
    = (its, cont_tail c (Some (last_unit X)) (rev (unparse_seg d X) ++ rbm, Rs, offm + lenZ (unparse_seg d X)))
    /\ view its = seg_items st X.

Definition result_ok (fuel : nat) (prev : option unit_) (rb : str) (off : Z) (src : str) (expect : list eitem) : Prop :=
  exists its, (let '(p1, tl) := apply_tail c (tail_of prev) (rb, src, off) in toks fuel c p1 tl) = (its, FOk) /\ view its = expect.

Lemma start_ok_of_in mk : In (marker_pat d mk, mk) (patterns d) -> start_delim_ok (marker_pat d mk) = true.
Proof.
  intros Hin. destruct (wf_delims_inv _ Hwf) as (_ & _ & _ & _ & _ & _ & Hs).
  rewrite forallb_forall in Hs. apply (Hs _ Hin).
Qed.

Lemma toks_step fuel prev rb off t X S :
  is_text X = false -> supported X ->
  no_start_in d t (unparse d (X :: S)) = true ->
  wf_segs d (line_start_simple (rev t ++ rb)) false (X :: S) = true ->
  (forall prev' rb' off', prev_nontext prev' -> wf_segs d (line_start_simple rb') false S = true ->
      (S = [] \/ (scan_line_start rb' = bol_after X /\ line_start_simple rb' = bol_after X)) ->
      result_ok fuel prev' rb' off' (unparse d S) (walk st prev' (bol_after X) (flatten S))) ->
  result_ok (Datatypes.S fuel) prev rb off (t ++ unparse d (X :: S))
    (emit_text (right_rule st (Some (first_unit X)) (at_line_start (scan_line_start rb) t) (left_rule st prev t))
     ++ seg_items st X ++ walk st (Some (last_unit X)) (bol_after X) (flatten S)).
Proof.
  intros Ht Hsup Hns Hw IH.
  destruct (wf_nontext_inv d _ _ X S Ht Hw) as (Hin & Hne & Hls & Hok & HwS).
  set (mk := seg_marker X) in *. set (D := marker_pat d mk) in *.
  assert (Esrc : unparse d (X :: S) = D ++ seg_rest d X ++ unparse d S).
  { cbn [unparse]. rewrite seg_src_split by auto. rewrite <- app_assoc. reflexivity. }
  rewrite Esrc in *.
  pose proof (start_ok_of_in mk Hin) as Hsd. fold D in Hsd.
  assert (HY : not_ws_head (D ++ seg_rest d X ++ unparse d S) /\ D ++ seg_rest d X ++ unparse d S <> []).
  { unfold start_delim_ok in Hsd. destruct D as [|d0 D']; [discriminate|]. cbn. split; [destruct (is_ws d0); auto; discriminate|discriminate]. }
  destruct HY as [HY HYn].
  unfold result_ok. 
  pose proof (root_step_text_marker c prev rb t mk (seg_rest d X ++ unparse d S) off HF Hq Hin Hsd Hns Hne) as HR.
  destruct (apply_tail_nonempty c (tail_of prev) rb t _ off HY HYn) as (rb1 & x1 & r1 & off1 & Ep).
  fold d D in HR. 
  destruct (apply_tail c (tail_of prev) (rb, t ++ D ++ seg_rest d X ++ unparse d S, off)) as [p1 tl] eqn:Eat.
   try rewrite Eat in Ep. cbn [fst] in Ep. subst p1. cbv beta iota.
  rewrite toks_unfold. rewrite HR by (intros E; apply Hls in E; exact E).
  destruct (hsm_all X (unparse d S) (rev t ++ rb) (off + lenZ t) Ht Hsup Hok) as (itsX & HX & HvX).
  fold mk D in HX. rewrite seg_src_split in HX by auto. fold mk D in HX. rewrite <- app_assoc in HX.
  rewrite HX.
  (* the rest of the template *)
  set (rb' := rev (D ++ seg_rest d X) ++ rev t ++ rb).
  assert (Hafter : S = [] \/ scan_line_start rb' = bol_after X /\ line_start_simple rb' = bol_after X).
  { destruct (after_ok_all d _ X S Hwf Ht Hw) as [E|H]; [left; exact E|right].
    unfold rb', D, mk. rewrite <- (seg_src_split d X Ht). apply H. }
  assert (HwS' : wf_segs d (line_start_simple rb') false S = true).
  { destruct Hafter as [E|[_ E]]; [rewrite E; reflexivity | rewrite E; exact HwS]. }
  destruct (IH (Some (last_unit X)) rb' (off + lenZ t + lenZ (D ++ seg_rest d X)) (last_unit_nontext X Ht) HwS' Hafter) as (its' & Hits' & Hv').
  unfold cont_tail, cont_of.
  destruct (apply_tail c (tail_of (Some (last_unit X))) (rb', unparse d S, off + lenZ t + lenZ (D ++ seg_rest d X))) as [p' tl'].
  cbn [fst snd]. rewrite Hits'.
  eexists. split; [reflexivity|].
  rewrite !view_app, view_text_item, HvX, Hv'. fold st.
  rewrite <- (right_rule_lead st X _ _ d (unparse d S) Ht). rewrite <- app_assoc. reflexivity.
Qed.

Lemma result_ok_nil fuel prev rb off : result_ok (Datatypes.S fuel) prev rb off [] [].
Proof.
  unfold result_ok. exists []. split; [|reflexivity].
  destruct (tail_of prev); cbn [apply_tail]; try reflexivity.
  unfold skip_trim_nl. destruct (trim (wsc c)); reflexivity.
Qed.

Definition all_supported (segs : list seg) : Prop := Forall (fun X => is_text X = true \/ supported X) segs.

Lemma toks_segs : forall n segs, (length segs <= n)%nat -> forall fuel prev rb off bol,
  all_supported segs -> prev_nontext prev ->
  wf_segs d (line_start_simple rb) false segs = true ->
  (segs = [] \/ scan_line_start rb = bol) ->
  (length (unparse d segs) < fuel)%nat ->
  result_ok fuel prev rb off (unparse d segs) (walk st prev bol (flatten segs)).
Proof.
  induction n as [|n IHn]; intros segs Hlen fuel prev rb off bol Hsup Hprev Hw Hbol Hfuel.
  - destruct segs; [|cbn in Hlen; lia].
    destruct fuel; [cbn in Hfuel; lia|]. apply result_ok_nil.
  - destruct segs as [|X1 S1].
    { destruct fuel; [cbn in Hfuel; lia|]. apply result_ok_nil. }
    destruct Hbol as [E|Hbol]; [discriminate|]. subst bol.
    destruct fuel as [|fuel]; [cbn in Hfuel; lia|].
    inversion Hsup as [|? ? HsX1 HsS1]; subst.
    destruct (is_text X1) eqn:Et1.
    + destruct X1 as [t| | |]; try discriminate. clear HsX1.
      cbn [wf_segs] in Hw. apply andb_prop in Hw as [Hw Hw3]. apply andb_prop in Hw as [Hw Hw2]. apply andb_prop in Hw as [_ Hw1].
      destruct S1 as [|X2 S2].
      * (* the template ends with this text *)
        cbn [unparse unparse_seg] in *. rewrite ?app_nil_r in *. cbn [flatten walk hd_error right_rule]. rewrite ?app_nil_r.
        unfold result_ok.
        assert (HY : not_ws_head []) by exact I.
        destruct (left_phase c prev rb t [] off HY) as (k & Hk & Hp). rewrite !app_nil_r in Hp.
        fold st in Hk, Hp. set (t1 := left_rule st prev t) in *.
        revert Hp. destruct (apply_tail c (tail_of prev) (rb, t, off)) as [[[rb1 rest1] off1] tl]. intros Hp.
        cbv beta iota in Hp |- *.
        destruct rest1 as [|x1 r1].
        -- rewrite toks_nil. exists []. split; auto.
           assert (E : t1 = []).
           { destruct tl; [unfold skip_whitespace in Hp; cbn in Hp|]; inversion Hp as [[H1 H2 H3]]; destruct t1; auto; discriminate. }
           rewrite E. reflexivity.
        -- rewrite toks_unfold. unfold root_step. rewrite Hp. cbv beta iota.
           destruct HF as [HF2 _]. rewrite (HF2 (rev k ++ rb) t1).
           2:{ apply no_start_in_suffix with (k := k). rewrite <- Hk. exact Hw2. }
           eexists. split; [reflexivity|]. apply view_text_item.
      * (* text followed by a tag *)
        assert (Et2 : is_text X2 = false).
        { destruct X2; auto. }
        inversion HsS1 as [|? ? HsX2 HsS2]; subst. destruct HsX2 as [HsX2|HsX2]; [congruence|].
        replace (unparse d (Text t :: X2 :: S2)) with (t ++ unparse d (X2 :: S2)) by reflexivity.
        rewrite flatten_text_nontext by auto. cbn [walk]. rewrite flatten_first by auto.
        rewrite flatten_cons_nontext by auto. rewrite walk_seg by auto.
        replace (match X2 with Line _ _ NlNone => false | Line _ _ _ => true | _ => false end) with (bol_after X2) by reflexivity.
        apply toks_step; auto.
        -- rewrite line_start_simple_text.
           assert (E : wf_segs d (at_line_start_simple (line_start_simple rb) t) true (X2 :: S2) = wf_segs d (at_line_start_simple (line_start_simple rb) t) false (X2 :: S2)).
           { destruct X2; try discriminate; reflexivity. }
           rewrite <- E. exact Hw3.
        -- intros prev' rb' off' Hp' Hw' Hb'. apply (IHn S2); auto.
           ++ cbn [length] in Hlen. clear - Hlen. lia.
           ++ destruct Hb' as [E|[E _]]; [left; exact E|right; exact E].
           ++ cbn [unparse] in Hfuel. rewrite !app_length in Hfuel.
              assert (Hpos : (0 < length (unparse_seg d X2))%nat).
              { apply seg_src_nonempty; auto. destruct (wf_nontext_inv d _ _ X2 S2 Et2 Hw3) as (Hin & _).
                apply (start_ok_of_in _ Hin). }
              clear - Hfuel Hpos. cbn [unparse_seg] in Hfuel. lia.
    + (* a tag without text before it *)
      destruct HsX1 as [HsX1|HsX1]; [congruence|].
      replace (unparse d (X1 :: S1)) with ([] ++ unparse d (X1 :: S1)) by reflexivity.
      rewrite flatten_cons_nontext by auto. rewrite walk_seg by auto.
      replace (match X1 with Line _ _ NlNone => false | Line _ _ _ => true | _ => false end) with (bol_after X1) by reflexivity.
      replace (seg_items st X1 ++ walk st (Some (last_unit X1)) (bol_after X1) (flatten S1))
        with (emit_text (right_rule st (Some (first_unit X1)) (at_line_start (scan_line_start rb) []) (left_rule st prev []))
              ++ seg_items st X1 ++ walk st (Some (last_unit X1)) (bol_after X1) (flatten S1))
        by (rewrite left_rule_nil, right_rule_nil; reflexivity).
      apply toks_step; auto.
      * intros prev' rb' off' Hp' Hw' Hb'. apply (IHn S1); auto.
        -- cbn [length] in Hlen. clear - Hlen. lia.
        -- destruct Hb' as [E|[E _]]; [left; exact E|right; exact E].
        -- cbn [unparse] in Hfuel. rewrite !app_length in Hfuel.
           assert (Hpos : (0 < length (unparse_seg d X1))%nat).
           { apply seg_src_nonempty; auto. destruct (wf_nontext_inv d _ _ X1 S1 Et1 Hw) as (Hin & _).
             apply (start_ok_of_in _ Hin). }
           clear - Hfuel Hpos. lia.
Qed.
End Main.


(* ========================================================================================== *)
(* ---------- normalize is the identity on well-formed segment lists ---------- *)
Lemma normalize_wf d : forall segs bol a, wf_segs d bol a segs = true -> normalize segs = segs.
Proof.
  induction segs as [|X S IH]; intros bol a H; auto.
  destruct X as [t|k l r|l1 r1 c l2 r2|k t nl]; cbn [normalize].
  - cbn [wf_segs] in H. apply andb_prop in H as [H H3]. apply andb_prop in H as [H H2]. apply andb_prop in H as [_ H1].
    rewrite (IH _ _ H3). destruct S as [|[t'| | |] S'].
    + destruct t; [discriminate|reflexivity].
    + cbn [wf_segs] in H3. discriminate.
    + destruct t; [discriminate|reflexivity].
    + destruct t; [discriminate|reflexivity].
    + destruct t; [discriminate|reflexivity].
  - cbn [wf_segs] in H. apply andb_prop in H as [_ H]. rewrite (IH _ _ H). reflexivity.
  - cbn [wf_segs] in H. apply andb_prop in H as [_ H]. rewrite (IH _ _ H). reflexivity.
  - cbn [wf_segs] in H. apply andb_prop in H as [_ H]. rewrite (IH _ _ H). reflexivity.
Qed.

(* ---------- Tokenizer::new and rule 1 ---------- *)
Definition strip_nl (src : str) : str :=
  let r := rev src in
  let r1 := match r with x :: t => if x =? c_lf then t else r | [] => r end in
  let r2 := match r1 with x :: t => if x =? c_cr then t else r1 | [] => r1 end in
  rev r2.
Lemma strip_source_alt w src : strip_source w src = if keep w then src else strip_nl src.
Proof. reflexivity. Qed.

Definition ends_not_nl (s : str) : Prop := exists x r, rev s = x :: r /\ is_nl x = false.
Lemma strip_nl_not_nl s : ends_not_nl s -> strip_nl s = s.
Proof.
  intros (x & r & E & H). unfold strip_nl. rewrite E. unfold is_nl in H.
  destruct (x =? c_lf) eqn:E1; [cbn in H; discriminate|]. destruct (x =? c_cr) eqn:E2; [rewrite orb_true_r in H; discriminate|].
  rewrite <- E. apply rev_involutive.
Qed.
Lemma ends_not_nl_app a b : ends_not_nl b -> ends_not_nl (a ++ b).
Proof. intros (x & r & E & H). exists x, (r ++ rev a). rewrite rev_app_distr, E. split; auto. Qed.
Lemma ends_nonws_not_nl s : ends_nonws s -> ends_not_nl s.
Proof. intros (x & r & E & H). exists x, r. split; auto. unfold is_nl, c_lf, c_cr. unfold is_ws in H. lia. Qed.

Definition ends_cr (s : str) : Prop := exists r, rev s = c_cr :: r.
Lemma strip_nl_text pre t : t <> [] -> (t = [c_lf] -> ~ ends_cr pre) ->
  strip_nl (pre ++ t) = pre ++ strip_trailing_newline t.
Proof.
  intros Hne Hcr. unfold strip_nl, strip_trailing_newline. rewrite rev_app_distr.
  destruct (rev t) as [|x r] eqn:Er.
  { destruct t; [congruence|]. apply (f_equal (@length Z)) in Er. rewrite rev_length in Er. discriminate. }
  assert (Et : t = rev r ++ [x]). { rewrite <- (rev_involutive t), Er. reflexivity. }
  cbn [app]. destruct (x =? c_lf) eqn:E1.
  - destruct r as [|y r'].
    + cbn [app]. assert (t = [c_lf]). { rewrite Et. apply Z.eqb_eq in E1. subst. reflexivity. }
      destruct (rev pre) as [|z rp] eqn:Ep.
      * rewrite <- (rev_involutive pre), Ep. reflexivity.
      * destruct (z =? c_cr) eqn:E2.
        -- exfalso. apply (Hcr H). exists rp. apply Z.eqb_eq in E2. subst. exact Ep.
        -- rewrite <- Ep, rev_involutive, app_nil_r. reflexivity.
    + cbn [app]. destruct (y =? c_cr) eqn:E2.
      * rewrite rev_app_distr, rev_involutive. reflexivity.
      * change (y :: r' ++ rev pre) with ((y :: r') ++ rev pre). rewrite rev_app_distr, rev_involutive. reflexivity.
  - destruct (x =? c_cr) eqn:E2.
    + rewrite rev_app_distr, rev_involutive. reflexivity.
    + change (x :: r ++ rev pre) with ((x :: r) ++ rev pre). rewrite rev_app_distr, rev_involutive, <- Er, rev_involutive. reflexivity.
Qed.

Lemma ends_cr_app_not a b : ends_not_nl b -> ~ ends_cr (a ++ b).
Proof. intros (x & r & E & H) [r' E']. rewrite rev_app_distr, E in E'. inversion E'; subst. discriminate. Qed.
Lemma ends_cr_lf a : ~ ends_cr (a ++ [c_lf]).
Proof. intros [r E]. rewrite rev_app_distr in E. inversion E. Qed.

Lemma line_base_not_nl d k (tr : str) pre : forallb is_blank tr = true ->
  ends_not_nl (pre ++ line_start d k ++ (match k with LStmt => body_line_set | LComment => body_line_comment end) ++ tr).
Proof.
  intros Hb. rewrite !app_assoc. destruct (rev tr) as [|x r] eqn:Er.
  - assert (tr = []). { destruct tr; auto. apply (f_equal (@length Z)) in Er. rewrite rev_length in Er. discriminate. }
    subst tr. rewrite app_nil_r. apply ends_not_nl_app. destruct k; [exists 49, (rev [32; 115; 101; 116; 32; 113; 32; 61; 32]) | exists 99, [32]]; split; reflexivity.
  - exists x, (r ++ rev ((pre ++ line_start d k) ++ match k with LStmt => body_line_set | LComment => body_line_comment end)).
    rewrite rev_app_distr, Er. split; auto.
    assert (Hin : In x tr). { apply in_rev. rewrite Er. left; reflexivity. }
    rewrite forallb_forall in Hb. apply is_blank_not_nl. auto.
Qed.

Lemma line_src_alt d k tr nl :
  line_src d k tr nl = (line_start d k ++ (match k with LStmt => body_line_set | LComment => body_line_comment end) ++ tr) ++ nl_str nl.
Proof. destruct k; cbn [line_src line_start]; rewrite <- !app_assoc; reflexivity. Qed.

Lemma strip_unparse d : wf_delims d = true -> forall segs pre bol a, wf_segs d bol a segs = true -> segs <> [] ->
  (forall t, segs = [Text t] -> t = [c_lf] -> ~ ends_cr pre) ->
  strip_nl (pre ++ unparse d segs) = pre ++ unparse d (clip_segs segs).
Proof.
  intros Hwf. induction segs as [|X S IH]; intros pre bol a H Hne Hc; [congruence|].
  destruct S as [|Y S'].
  - (* the last segment *)
    cbn [unparse]. rewrite app_nil_r.
    destruct X as [t|k l r|l1 r1 c l2 r2|k tr nl].
    + cbn [wf_segs] in H. apply andb_prop in H as [H _]. apply andb_prop in H as [H _]. apply andb_prop in H as [_ H1].
      cbn [unparse_seg]. rewrite strip_nl_text; [|destruct t; [discriminate|congruence]|apply Hc; reflexivity].
      cbn [clip_segs]. destruct (strip_trailing_newline t); cbn [unparse unparse_seg]; rewrite ?app_nil_r; reflexivity.
    + cbn [clip_segs unparse]. rewrite app_nil_r. apply strip_nl_not_nl. apply ends_not_nl_app, ends_nonws_not_nl.
      cbn [unparse_seg]. apply tag_ends_nonws; auto.
    + cbn [clip_segs unparse]. rewrite app_nil_r. apply strip_nl_not_nl. apply ends_not_nl_app, ends_nonws_not_nl.
      apply raw_ends_nonws; auto.
    + cbn [wf_segs] in H. apply andb_prop in H as [H _]. apply andb_prop in H as [H _]. apply andb_prop in H as [H _]. apply andb_prop in H as [H Hb]. clear H.
      cbn [clip_segs unparse unparse_seg]. rewrite app_nil_r. rewrite !line_src_alt. cbn [nl_str]. rewrite app_nil_r.
      pose proof (line_base_not_nl d k tr pre Hb) as Hbase.
      destruct nl.
      * cbn [nl_str]. rewrite app_nil_r. apply strip_nl_not_nl. exact Hbase.
      * rewrite app_assoc. rewrite strip_nl_text; [cbn; rewrite app_nil_r; reflexivity|discriminate|].
        intros _ Hcr. destruct Hbase as (x & r & E & Hx). destruct Hcr as [r' E']. rewrite E in E'. inversion E'; subst. discriminate.
      * rewrite app_assoc. rewrite strip_nl_text; [cbn; rewrite app_nil_r; reflexivity|discriminate|discriminate].
      * rewrite app_assoc. rewrite strip_nl_text; [cbn; rewrite app_nil_r; reflexivity|discriminate|discriminate].
  - (* not the last one *)
    assert (Hcl : clip_segs (X :: Y :: S') = X :: clip_segs (Y :: S')) by (destruct X; reflexivity).
    rewrite Hcl. change (unparse d (X :: Y :: S')) with (unparse_seg d X ++ unparse d (Y :: S')).
    change (unparse d (X :: clip_segs (Y :: S'))) with (unparse_seg d X ++ unparse d (clip_segs (Y :: S'))). rewrite app_assoc.
    assert (HwS : exists bol' a', wf_segs d bol' a' (Y :: S') = true).
    { destruct X; cbn [wf_segs] in H; apply andb_prop in H as [_ H]; eauto. }
    destruct HwS as (bol' & a' & HwS).
    rewrite (IH (pre ++ unparse_seg d X) bol' a' HwS); [rewrite <- app_assoc; reflexivity|discriminate|].
    intros t Et Etl. inversion Et; subst. clear Et.
    destruct X as [t0|k l r|l1 r1 c l2 r2|k tr nl].
    + cbn [wf_segs] in H. apply andb_prop in H as [_ H]. cbn [wf_segs] in H. discriminate.
    + apply ends_cr_app_not, ends_nonws_not_nl. cbn [unparse_seg]. apply tag_ends_nonws; auto.
    + apply ends_cr_app_not, ends_nonws_not_nl. apply raw_ends_nonws; auto.
    + cbn [wf_segs] in H. apply andb_prop in H as [H _]. apply andb_prop in H as [H _]. apply andb_prop in H as [H Hnl]. apply andb_prop in H as [H Hb].
      cbn [unparse_seg]. rewrite line_src_alt. destruct nl.
      * discriminate.
      * cbn [nl_str]. rewrite app_assoc. apply ends_cr_lf.
      * cbn [nl_str]. change [c_cr; c_lf] with ([c_cr] ++ [c_lf]). rewrite !app_assoc. apply ends_cr_lf.
      * cbn [unparse unparse_seg app] in Hnl. rewrite Z.eqb_refl in Hnl. discriminate.
Qed.


(* ========================================================================================== *)
(* ========== the search loop over the specified Aho-Corasick enumeration finds the leftmost marker ========== *)

(* [p] occurs at the end of [cs] *)
Definition occ (p cs : str) : Prop := exists pre, cs = pre ++ p.
Lemma prefix_rev_occ p cs : prefix_of (rev p) (rev cs) = true <-> occ p cs.
Proof.
  rewrite prefix_of_iff. split.
  - intros [r E]. exists (rev r). rewrite <- (rev_involutive cs), E, rev_app_distr, rev_involutive. reflexivity.
  - intros [pre ->]. exists (rev pre). apply rev_app_distr.
Qed.

(* ---------- the sorted pattern list ---------- *)
Lemma in_insert_pat x y l : In x (insert_pat y l) <-> x = y \/ In x l.
Proof.
  induction l as [|q r IH]; cbn [insert_pat In].
  - split; intros [H|H]; auto.
  - destruct (snd (fst q) <? snd (fst y)); cbn [In]; [split; intros [H|H]; auto|].
    rewrite IH. split; intros [H|[H|H]]; auto.
Qed.
Lemma in_fold_insert x l : In x (fold_right insert_pat [] l) <-> In x l.
Proof. induction l as [|y l IH]; cbn [fold_right In]; [tauto|]. rewrite in_insert_pat, IH. split; intros [H|H]; auto. Qed.
Lemma in_sorted_pats d rp len mk :
  In (rp, len, mk) (sorted_pats d) <-> exists p, In (p, mk) (patterns d) /\ rp = rev p /\ len = lenZ p.
Proof.
  unfold sorted_pats. rewrite in_fold_insert, in_map_iff. split.
  - intros [[p m] [E H]]. cbn [fst snd] in E. inversion E; subst. exists p. auto.
  - intros (p & H & -> & ->). exists (p, mk). auto.
Qed.

Definition plen (q : pat) : Z := snd (fst q).
Inductive sorted_desc : list pat -> Prop :=
| sd_nil : sorted_desc []
| sd_cons q l : (forall x, In x l -> plen x <= plen q) -> sorted_desc l -> sorted_desc (q :: l).
Lemma insert_sorted y l : sorted_desc l -> sorted_desc (insert_pat y l).
Proof.
  induction 1 as [|q l Hq Hs IH]; cbn [insert_pat].
  - constructor; [intros x []|constructor].
  - fold (plen q). fold (plen y). destruct (plen q <? plen y) eqn:E.
    + constructor; [|constructor; auto]. intros x [<-|Hx]; [lia|]. specialize (Hq x Hx). lia.
    + constructor; auto. intros x Hx. apply in_insert_pat in Hx as [->|Hx]; [lia|auto].
Qed.
Lemma sorted_pats_sorted d : sorted_desc (sorted_pats d).
Proof. unfold sorted_pats. induction (map _ (patterns d)) as [|y l IH]; cbn [fold_right]; [constructor|apply insert_sorted; auto]. Qed.

(* ---------- one position of the scan: ac_cands ---------- *)
Definition cand_ws (gb lb : str) (next : option Z) (q : pat) : option wsm :=
  match snd q with
  | MkLineStmt => if line_start_simple (skipZ (plen q) lb ++ gb) then Some WDefault else None
  | _ => Some (ws_of next)
  end.
Definition pmatch (lb : str) (q : pat) : bool := prefix_of (fst (fst q)) lb.

Lemma ac_body_alt gb lb e next best q :
  ac_body gb lb e next best q =
  if pmatch lb q then
    match cand_ws gb lb next q with
    | None => (best, false)
    | Some w =>
        let nm := (e - plen q, snd q, plen q + ws_len w, w) in
        match best with
        | Some (bs, _, _, _) => if bs <? e - plen q then (best, true) else (Some nm, false)
        | None => (Some nm, false)
        end
    end
  else (best, false).
Proof. destruct q as [[rp len] mk]. unfold ac_body, pmatch, cand_ws, plen. cbn [fst snd]. destruct mk; reflexivity. Qed.

Lemma ac_cands_cons gb lb e next best q ps :
  ac_cands gb lb e next best (q :: ps) =
  let '(b, stop) := ac_body gb lb e next best q in if stop then (b, true) else ac_cands gb lb e next b ps.
Proof. reflexivity. Qed.

Lemma ac_cands_none gb lb e next best ps : (forall q, In q ps -> pmatch lb q = false) ->
  ac_cands gb lb e next best ps = (best, false).
Proof.
  induction ps as [|q ps IH]; intros H; [reflexivity|].
  rewrite ac_cands_cons, ac_body_alt, (H q (or_introl eq_refl)). apply IH. intros x Hx. apply H. right; auto.
Qed.

Definition bstart (b : mtch) : Z := fst (fst (fst b)).

Lemma ac_cands_keep gb lb e next b ps :
  (forall q, In q ps -> pmatch lb q = true -> bstart b < e - plen q) ->
  exists stop, ac_cands gb lb e next (Some b) ps = (Some b, stop).
Proof.
  induction ps as [|q ps IH]; intros H; [exists false; reflexivity|].
  rewrite ac_cands_cons, ac_body_alt. destruct (pmatch lb q) eqn:Em.
  - destruct (cand_ws gb lb next q) as [w|].
    + destruct b as [[[bs m] l] w0]. specialize (H q (or_introl eq_refl) Em). cbn [bstart fst] in H.
      cbv zeta. replace (bs <? e - plen q) with true by (symmetry; apply Z.ltb_lt; lia). exists true. reflexivity.
    + apply IH. intros x Hx. apply H. right; auto.
  - apply IH. intros x Hx. apply H. right; auto.
Qed.

(* the candidate is None or starts at [lt] *)
Definition at_lt (lt : Z) (best : option mtch) : Prop := best = None \/ exists b, best = Some b /\ bstart b = lt.

Lemma ac_cands_phase2 gb lb e next lt best ps : at_lt lt best ->
  (forall q, In q ps -> pmatch lb q = true -> e - plen q = lt \/ cand_ws gb lb next q = None) ->
  exists best', ac_cands gb lb e next best ps = (best', false) /\ at_lt lt best'.
Proof.
  revert best. induction ps as [|q ps IH]; intros best Hb H; [exists best; split; auto; reflexivity|].
  rewrite ac_cands_cons, ac_body_alt. destruct (pmatch lb q) eqn:Em.
  - destruct (H q (or_introl eq_refl) Em) as [Hs|Hn].
    + destruct (cand_ws gb lb next q) as [w|].
      * cbv zeta. destruct Hb as [->|(b & -> & Hbs)].
        -- apply IH; [right; eexists; split; [reflexivity|exact Hs]|]. intros x Hx. apply H. right; auto.
        -- destruct b as [[[bs m] l] w0]. cbn [bstart fst] in Hbs. subst bs.
           replace (lt <? e - plen q) with false by (symmetry; apply Z.ltb_ge; lia).
           apply IH; [right; eexists; split; [reflexivity|exact Hs]|]. intros x Hx. apply H. right; auto.
      * apply IH; auto. intros x Hx. apply H. right; auto.
    + rewrite Hn. apply IH; auto. intros x Hx. apply H. right; auto.
  - apply IH; auto. intros x Hx. apply H. right; auto.
Qed.

(* the position at which the tag's own start delimiter ends *)
Lemma ac_cands_phase3 gb lb e next lt (Dq : pat) w : forall ps best,
  sorted_desc ps ->
  pmatch lb Dq = true -> cand_ws gb lb next Dq = Some w -> e - plen Dq = lt ->
  (forall q, In q ps -> pmatch lb q = true -> q = Dq \/ plen q < plen Dq) ->
  ((at_lt lt best /\ In Dq ps) \/ best = Some (lt, snd Dq, plen Dq + ws_len w, w)) ->
  exists stop, ac_cands gb lb e next best ps = (Some (lt, snd Dq, plen Dq + ws_len w, w), stop).
Proof.
  induction ps as [|q ps IH]; intros best Hsort HmD HwD HsD Hall Hst.
  - destruct Hst as [[_ Hin] | ->]; [destruct Hin|]. exists false. reflexivity.
  - inversion_clear Hsort as [|? ? Hle Hsort'].
    rewrite ac_cands_cons, ac_body_alt.
    assert (Hall' : forall x, In x ps -> pmatch lb x = true -> x = Dq \/ plen x < plen Dq) by (intros x Hx; apply Hall; right; auto).
    destruct Hst as [[Hb Hin] | ->].
    + (* the delimiter has not been processed yet *)
      destruct (pmatch lb q) eqn:Em.
      * destruct (Hall q (or_introl eq_refl) Em) as [->|Hlt].
        -- rewrite HwD. cbv zeta. rewrite HsD.
           destruct Hb as [->|(b & -> & Hbs)].
           ++ apply IH; auto.
           ++ destruct b as [[[bs m] l] w0]. cbn [bstart fst] in Hbs. subst bs.
              replace (lt <? lt) with false by (symmetry; apply Z.ltb_irrefl). apply IH; auto.
        -- exfalso. destruct Hin as [<-|Hin]; [lia|]. specialize (Hle Dq Hin). lia.
      * destruct Hin as [<-|Hin]; [congruence|]. apply IH; auto.
    + (* already the candidate *)
      destruct (pmatch lb q) eqn:Em.
      * destruct (cand_ws gb lb next q) as [w'|] eqn:Ew.
        -- cbv zeta. destruct (Hall q (or_introl eq_refl) Em) as [->|Hlt].
           ++ rewrite HsD. replace (lt <? lt) with false by (symmetry; apply Z.ltb_irrefl).
              assert (w' = w) by congruence. subst w'. apply IH; auto.
           ++ replace (lt <? e - plen q) with true by (symmetry; apply Z.ltb_lt; lia). exists true. reflexivity.
        -- apply IH; auto.
      * apply IH; auto.
Qed.

(* ---------- the loop ---------- *)
Lemma ac_loop_unfold ps gb lb e rest best :
  ac_loop ps gb lb e rest best =
  let '(b, stop) := ac_cands gb lb e (hd_error rest) best ps in
  if stop then b else match rest with [] => b | c :: r => ac_loop ps gb (c :: lb) (e + 1) r b end.
Proof. destruct rest; reflexivity. Qed.

Lemma rev_snoc (cs : str) a : rev (cs ++ [a]) = a :: rev cs.
Proof. rewrite rev_app_distr. reflexivity. Qed.
Lemma lenZ_snoc (cs : str) a : lenZ (cs ++ [a]) = lenZ cs + 1.
Proof. rewrite lenZ_app. reflexivity. Qed.

Lemma ac_loop_inv ps gb (I : option mtch -> Prop) : forall mid cs Y best,
  I best ->
  (forall m1 m2 b, mid = m1 ++ m2 -> m2 <> [] -> I b ->
     exists b', ac_cands gb (rev (cs ++ m1)) (lenZ (cs ++ m1)) (hd_error (m2 ++ Y)) b ps = (b', false) /\ I b') ->
  exists best', I best' /\
    ac_loop ps gb (rev cs) (lenZ cs) (mid ++ Y) best = ac_loop ps gb (rev (cs ++ mid)) (lenZ (cs ++ mid)) Y best'.
Proof.
  induction mid as [|a m IH]; intros cs Y best Hb H.
  - exists best. rewrite app_nil_r. auto.
  - destruct (H [] (a :: m) best eq_refl ltac:(discriminate) Hb) as (b' & Hc & Hb').
    rewrite app_nil_r in Hc.
    rewrite ac_loop_unfold. cbn [app]. cbn [app] in Hc. rewrite Hc.
    destruct (IH (cs ++ [a]) Y b' Hb') as (best' & Hi & E).
    { intros m1 m2 b Em Hm2 Hib. destruct (H (a :: m1) m2 b) as (b2 & Hc2 & Hb2); auto.
      - rewrite Em. reflexivity.
      - exists b2. rewrite <- app_assoc. cbn [app]. auto. }
    exists best'. split; auto. rewrite rev_snoc, lenZ_snoc in E. rewrite E. rewrite <- app_assoc. reflexivity.
Qed.

Lemma ac_loop_keep ps gb b : forall rest cs,
  (forall m1 m2, rest = m1 ++ m2 -> forall q, In q ps -> pmatch (rev (cs ++ m1)) q = true -> bstart b < lenZ (cs ++ m1) - plen q) ->
  ac_loop ps gb (rev cs) (lenZ cs) rest (Some b) = Some b.
Proof.
  induction rest as [|c r IH]; intros cs H; rewrite ac_loop_unfold.
  - destruct (ac_cands_keep gb (rev cs) (lenZ cs) (hd_error []) b ps) as [stop E].
    { intros q Hq Hm. specialize (H [] [] eq_refl q Hq). rewrite app_nil_r in H. auto. }
    rewrite E. destruct stop; reflexivity.
  - destruct (ac_cands_keep gb (rev cs) (lenZ cs) (hd_error (c :: r)) b ps) as [stop E].
    { intros q Hq Hm. specialize (H [] (c :: r) eq_refl q Hq). rewrite app_nil_r in H. auto. }
    rewrite E. destruct stop; [reflexivity|].
    rewrite <- (rev_snoc cs c), <- (lenZ_snoc cs c). apply IH.
    intros m1 m2 Er q Hq Hm. rewrite <- app_assoc in *. cbn [app] in *. apply (H (c :: m1) m2); auto. rewrite Er. reflexivity.
Qed.

(* ---------- facts about the configured patterns ---------- *)
Lemma str_eqb_eq a : forall b, str_eqb a b = true <-> a = b.
Proof.
  induction a as [|x a IH]; intros [|y b]; cbn [str_eqb]; split; intros H; try discriminate; auto.
  - apply andb_prop in H as [H1 H2]. apply Z.eqb_eq in H1. apply IH in H2. congruence.
  - inversion H; subst. rewrite Z.eqb_refl. apply IH. reflexivity.
Qed.
Lemma mem_str_in s l : mem_str s l = true <-> In s l.
Proof.
  unfold mem_str. rewrite existsb_exists. split.
  - intros (x & Hx & E). apply str_eqb_eq in E. subst. auto.
  - intros H. exists s. split; auto. apply str_eqb_eq. reflexivity.
Qed.

Lemma delims_eqb_eq a b : delims_eqb a b = true -> a = b.
Proof.
  unfold delims_eqb. intros H. repeat (apply andb_prop in H as [H ?]).
  destruct a, b; cbn in *.
  repeat match goal with E : str_eqb _ _ = true |- _ => apply str_eqb_eq in E end. congruence.
Qed.

Lemma nodup_snoc {A} (l : list A) x : NoDup l -> ~ In x l -> NoDup (l ++ [x]).
Proof.
  induction 1 as [|y l Hy Hn IH]; intros Hx; cbn [app].
  - constructor; [intros []|constructor].
  - constructor.
    + intros Hin. apply in_app_or in Hin as [Hin|[<-|[]]]; [auto|]. apply Hx. left; reflexivity.
    + apply IH. intros Hin. apply Hx. right; auto.
Qed.

Definition nonempty_strs (l : list (str * bool)) : list str := filter (fun s => negb (is_nil s)) (map fst l).
Lemma validated_starts_nodup l : forall acc, validated_starts l acc = true -> NoDup acc -> NoDup (acc ++ nonempty_strs l).
Proof.
  induction l as [|[s req] l IH]; intros acc H Hn; cbn [validated_starts] in H.
  - unfold nonempty_strs. cbn. rewrite app_nil_r. auto.
  - unfold nonempty_strs. cbn [map fst filter]. destruct (is_nil s) eqn:Es; cbn [negb].
    + destruct req; [discriminate|]. apply IH; auto.
    + destruct (mem_str s acc) eqn:Em; [discriminate|].
      specialize (IH (acc ++ [s]) H). rewrite <- app_assoc in IH. apply IH.
      apply nodup_snoc; auto. intros Hin. apply mem_str_in in Hin. congruence.
Qed.

Lemma patterns_nodup d : valid_config fixed d = true -> NoDup (map fst (patterns d)).
Proof.
  unfold valid_config. destruct (delims_eqb d default_delims) eqn:E.
  - intros _. apply delims_eqb_eq in E. subst d.
    change (map fst (patterns default_delims)) with [[123; 123]; [123; 37]; [123; 35]].
    repeat constructor; cbn [In]; intuition discriminate.
  - intros H. apply andb_prop in H as [_ H].
    pose proof (validated_starts_nodup _ [] H (NoDup_nil _)) as Hn. cbn [app] in Hn.
    unfold nonempty_strs in Hn. cbn [map fst filter] in Hn.
    unfold patterns. cbn [validated_starts] in H.
    destruct (is_nil (var_s d)) eqn:E1; [discriminate|].
    destruct (mem_str (var_s d) []); [discriminate|].
    destruct (is_nil (block_s d)) eqn:E2; [discriminate|].
    destruct (mem_str (block_s d) ([] ++ [var_s d])); [discriminate|].
    destruct (is_nil (com_s d)) eqn:E3; [discriminate|].
    cbn [negb] in Hn.
    rewrite !map_app. cbn [map fst app].
    destruct (is_nil (line_s d)), (is_nil (line_c d)); cbn [negb map fst app] in *; exact Hn.
Qed.

Lemma patterns_same_marker d p m1 m2 : NoDup (map fst (patterns d)) -> In (p, m1) (patterns d) -> In (p, m2) (patterns d) -> m1 = m2.
Proof.
  induction (patterns d) as [|[q m] l IH]; cbn [map fst In]; intros Hn H1 H2; [contradiction|].
  inversion Hn as [|? ? Hq Hn']; subst.
  destruct H1 as [E1|H1], H2 as [E2|H2].
  - congruence.
  - inversion E1; subst. exfalso. apply Hq. apply in_map_iff. exists (p, m2). auto.
  - inversion E2; subst. exfalso. apply Hq. apply in_map_iff. exists (p, m1). auto.
  - auto.
Qed.

(* a start delimiter that would begin inside a text *)
Lemma no_start_inside d t F pre s p mk : no_start_in d t F = true -> t = pre ++ s -> s <> [] ->
  In (p, mk) (patterns d) -> prefix_of p (s ++ F) = false.
Proof.
  intros H -> Hs Hin. revert H. induction pre as [|a pre IH]; cbn [app no_start_in]; intros H.
  - destruct s as [|c s']; [congruence|]. cbn [no_start_in] in H. apply andb_prop in H as [H _].
    apply negb_true_iff in H. unfold starts_at in H.
    destruct (prefix_of p ((c :: s') ++ F)) eqn:E; auto.
    assert (existsb (fun pm => prefix_of (fst pm) ((c :: s') ++ F)) (patterns d) = true).
    { apply existsb_exists. exists (p, mk). auto. }
    congruence.
  - apply andb_prop in H as [_ H]. auto.
Qed.

(* occurrences strictly inside another delimiter *)
Lemma occurs_inside_false ex p D2 : D2 <> [] -> forall l b, l <> [] ->
  occurs_inside ex p b (l ++ p ++ D2) = false ->
  ex = true /\ exists l' a, l = l' ++ [a] /\ blank_or_nl a = false.
Proof.
  intros HD2. induction l as [|a l IH]; intros b Hl H; [congruence|].
  cbn [app occurs_inside] in H. apply orb_false_elim in H as [H1 H2].
  destruct l as [|a' l'].
  - cbn [app] in H1. rewrite prefix_of_app in H1.
    replace (lenZ p <? lenZ (p ++ D2)) with true in H1.
    2:{ symmetry. apply Z.ltb_lt. rewrite lenZ_app. destruct D2; [congruence|]. rewrite lenZ_cons. pose proof (lenZ_nonneg D2). lia. }
    cbn [andb] in H1. apply orb_false_elim in H1 as [H1 H3]. apply negb_false_iff in H1.
    split; auto. exists [], a. auto.
  - destruct (IH a ltac:(discriminate) H2) as (He & l'' & a0 & El & Ha).
    split; auto. exists (a :: l''), a0. rewrite El. auto.
Qed.

Lemma infix_free_inv d p mp D mD l D2 : infix_free d = true -> In (p, mp) (patterns d) -> In (D, mD) (patterns d) ->
  D = l ++ p ++ D2 -> l <> [] -> D2 <> [] ->
  mp = MkLineStmt /\ exists l' a, l = l' ++ [a] /\ blank_or_nl a = false.
Proof.
  unfold infix_free. intros H Hp HD E Hl HD2. rewrite forallb_forall in H. specialize (H _ Hp).
  rewrite forallb_forall in H. specialize (H _ HD). cbn [fst snd] in H. apply negb_true_iff in H.
  rewrite E in H. destruct (occurs_inside_false _ p D2 HD2 l 0 Hl H) as (He & Hx).
  split; auto. destruct mp; try discriminate. reflexivity.
Qed.

Lemma not_extended_inv d D R p mk r1 : not_extended d D R = true -> In (p, mk) (patterns d) ->
  p = D ++ r1 -> r1 <> [] -> prefix_of p (D ++ R) = false.
Proof.
  unfold not_extended. intros H Hin -> Hr. rewrite forallb_forall in H. specialize (H _ Hin). cbn [fst] in H.
  apply orb_prop in H as [H|H].
  - apply negb_true_iff in H. exact H.
  - exfalso. apply Z.leb_le in H. rewrite lenZ_app in H. destruct r1; [congruence|]. rewrite lenZ_cons in H. pose proof (lenZ_nonneg r1). lia.
Qed.

(* ---------- where a reported match can lie ---------- *)
Section Finder.
Variable d : delims.
Variables (t D R : str) (mkD : marker) (rb : str).
Hypothesis Hns : no_start_in d t (D ++ R) = true.

(* a match ending at [t ++ X], [X] a prefix of [D ++ R], lies within [X] *)
Lemma match_within X X2 q : D ++ R = X ++ X2 -> In q (sorted_pats d) -> pmatch (rev (t ++ X)) q = true ->
  exists p l, q = (rev p, lenZ p, snd q) /\ In (p, snd q) (patterns d) /\ X = l ++ p.
Proof.
  intros EX Hq Hm. destruct q as [[rp len] mk]. apply in_sorted_pats in Hq as (p & Hin & -> & ->).
  unfold pmatch in Hm. cbn [fst snd] in *. apply prefix_rev_occ in Hm as [pre E].
  exists p. symmetry in E. destruct (app_eq_app _ _ _ _ E) as (l & [[E1 E2]|[E1 E2]]).
  - exists l. auto.
  - destruct l as [|a l'].
    + exists []. rewrite app_nil_r in E1. cbn [app] in E2. subst. auto.
    + exfalso. pose proof (no_start_inside d t (D ++ R) pre (a :: l') p mk Hns E1 ltac:(discriminate) Hin) as Hf.
      rewrite EX in Hf. rewrite app_assoc, <- E2 in Hf. rewrite prefix_of_app in Hf. discriminate.
Qed.

(* inside the text itself nothing matches *)
Lemma no_match_in_text m1 m2 q : t = m1 ++ m2 -> m2 <> [] -> In q (sorted_pats d) -> pmatch (rev m1) q = false.
Proof.
  intros Et Hm2 Hq. destruct (pmatch (rev m1) q) eqn:Hm; auto. exfalso.
  destruct q as [[rp len] mk]. apply in_sorted_pats in Hq as (p & Hin & -> & ->).
  unfold pmatch in Hm. cbn [fst] in Hm. apply prefix_rev_occ in Hm as [pre E].
  assert (Et' : t = pre ++ (p ++ m2)) by (rewrite Et, E, <- app_assoc; reflexivity).
  assert (Hne : p ++ m2 <> []) by (destruct p; [destruct m2; [congruence|discriminate]|discriminate]).
  pose proof (no_start_inside d t (D ++ R) pre (p ++ m2) p mk Hns Et' Hne Hin) as Hf.
  rewrite <- app_assoc, prefix_of_app in Hf. discriminate.
Qed.
End Finder.

(* ---------- find_ac meets the specification of the start-marker search ---------- *)
Lemma skipZ_rev_app (p X : str) : skipZ (lenZ p) (rev p ++ X) = X.
Proof. rewrite <- (lenZ_rev p). apply skipZ_app. Qed.

Lemma pattern_nonempty d p mk : forallb (fun pm => start_delim_ok (fst pm)) (patterns d) = true -> In (p, mk) (patterns d) -> p <> [].
Proof. intros H Hin. rewrite forallb_forall in H. specialize (H _ Hin). cbn [fst] in H. destruct p; [discriminate|discriminate]. Qed.

Lemma find_ac_none d rb t :
  forallb (fun pm => start_delim_ok (fst pm)) (patterns d) = true ->
  no_start_in d t [] = true -> find_ac d rb t = None.
Proof.
  intros Hne Hns. unfold find_ac.
  destruct (ac_loop_inv (sorted_pats d) rb (fun b => b = None) t [] [] None eq_refl) as (best' & -> & E).
  { intros m1 m2 b Et Hm2 ->. exists None. split; auto. cbn [app]. apply ac_cands_none.
    intros q Hq. apply (no_match_in_text d t [] [] Hns m1 m2 q Et Hm2 Hq). }
  rewrite app_nil_r in E. change (rev (@nil Z)) with (@nil Z) in E. change (lenZ (@nil Z)) with 0 in E. cbn [app] in E. rewrite E.
  rewrite ac_loop_unfold. rewrite ac_cands_none; [reflexivity|].
  intros q Hq. destruct (pmatch (rev t) q) eqn:Hm; auto. exfalso.
  destruct q as [[rp len] mk]. apply in_sorted_pats in Hq as (p & Hin & -> & ->).
  unfold pmatch in Hm. cbn [fst] in Hm. apply prefix_rev_occ in Hm as [pre Et].
  pose proof (no_start_inside d t [] pre p p mk Hns Et (pattern_nonempty d p mk Hne Hin) Hin) as Hf.
  rewrite (prefix_of_app p []) in Hf. discriminate.
Qed.

Lemma blank_or_nl_false_line_start a X : blank_or_nl a = false -> line_start_simple (a :: X) = false.
Proof.
  unfold blank_or_nl. intros H. cbn [line_start_simple].
  destruct (a =? c_space) eqn:E1; [discriminate|]. destruct (a =? c_tab) eqn:E2; [discriminate|].
  cbn [orb] in *. exact H.
Qed.

Lemma find_ac_found d rb t mk R :
  valid_config fixed d = true -> infix_free d = true ->
  forallb (fun pm => start_delim_ok (fst pm)) (patterns d) = true ->
  In (marker_pat d mk, mk) (patterns d) ->
  no_start_in d t (marker_pat d mk ++ R) = true ->
  not_extended d (marker_pat d mk) R = true ->
  (mk = MkLineStmt -> line_start_simple (rev t ++ rb) = true) ->
  find_ac d rb (t ++ marker_pat d mk ++ R) =
    Some (lenZ t, mk, lenZ (marker_pat d mk) + ws_len (mk_ws mk R), mk_ws mk R).
Proof.
  intros Hvc Hif Hne Hin Hns Hnx Hls. set (D := marker_pat d mk) in *. set (ps := sorted_pats d).
  pose proof (patterns_nodup d Hvc) as Hnd.
  unfold find_ac. fold ps.
  (* phase 1: the text *)
  destruct (ac_loop_inv ps rb (fun b => b = None) t [] (D ++ R) None eq_refl) as (b1 & -> & E1).
  { intros m1 m2 b Et Hm2 ->. exists None. split; auto. cbn [app]. apply ac_cands_none.
    intros q Hq. apply (no_match_in_text d t D R Hns m1 m2 q Et Hm2 Hq). }
  change (rev (@nil Z)) with (@nil Z) in E1. change (lenZ (@nil Z)) with 0 in E1. cbn [app] in E1. rewrite E1. clear E1.
  (* phase 2: inside the delimiter *)
  destruct (ac_loop_inv ps rb (at_lt (lenZ t)) D t R None (or_introl eq_refl)) as (b2 & Hb2 & E2).
  { intros D1 D2 b ED HD2 Hb. apply ac_cands_phase2; auto.
    intros q Hq Hm.
    destruct (match_within d t D R Hns D1 (D2 ++ R) q) as (p & l & Eq & Hp & EX); auto.
    { rewrite ED, <- app_assoc. reflexivity. }
    destruct l as [|a0 l0].
    - left. rewrite Eq. unfold plen. cbn [fst snd]. cbn [app] in EX. rewrite EX, lenZ_app. lia.
    - right. destruct (infix_free_inv d p (snd q) D mk (a0 :: l0) D2 Hif Hp Hin) as (Hmk & l' & a & El & Ha).
      { rewrite ED, EX, <- app_assoc. reflexivity. } { discriminate. } { exact HD2. }
      unfold cand_ws. rewrite Hmk. rewrite Eq. unfold plen. cbn [fst snd].
      rewrite EX, El. rewrite !app_assoc, rev_app_distr, skipZ_rev_app.
      rewrite rev_app_distr. cbn [rev app]. rewrite blank_or_nl_false_line_start by auto. reflexivity. }
  rewrite E2. clear E2.
  (* phase 3: the end of the delimiter *)
  set (w := mk_ws mk R). set (Dq := (rev D, lenZ D, mk) : pat).
  assert (HDq : In Dq ps) by (apply in_sorted_pats; exists D; auto).
  assert (HmD : pmatch (rev (t ++ D)) Dq = true) by (unfold pmatch, Dq; cbn [fst]; apply prefix_rev_occ; exists t; reflexivity).
  assert (HwD : cand_ws rb (rev (t ++ D)) (hd_error R) Dq = Some w).
  { unfold cand_ws, Dq, plen, w, mk_ws. cbn [fst snd]. destruct mk; try reflexivity.
    rewrite rev_app_distr, skipZ_rev_app. rewrite Hls; auto. }
  assert (HsD : lenZ (t ++ D) - plen Dq = lenZ t) by (unfold plen, Dq; cbn [fst snd]; rewrite lenZ_app; lia).
  destruct (ac_cands_phase3 rb (rev (t ++ D)) (lenZ (t ++ D)) (hd_error R) (lenZ t) Dq w ps b2 (sorted_pats_sorted d) HmD HwD HsD) as [stop E3].
  { intros q Hq Hm.
    destruct (match_within d t D R Hns D R q) as (p & l & Eq & Hp & EX); auto.
    destruct l as [|a0 l0].
    - left. cbn [app] in EX. subst p. rewrite Eq. unfold Dq. f_equal.
      apply (patterns_same_marker d D (snd q) mk Hnd Hp Hin).
    - right. rewrite Eq. unfold plen, Dq. cbn [fst snd]. assert (lenZ D = lenZ ((a0 :: l0) ++ p)) as -> by (rewrite <- EX; reflexivity). rewrite lenZ_app, lenZ_cons. pose proof (lenZ_nonneg l0). lia. }
  { left. auto. }
  unfold plen, Dq in E3. cbn [fst snd] in E3.
  rewrite ac_loop_unfold. rewrite E3. destruct stop; [reflexivity|].
  destruct R as [|c r]; [reflexivity|].
  (* phase 4: after the delimiter *)
  set (nm := (lenZ t, mk, lenZ D + ws_len w, w) : mtch).
  rewrite <- (rev_snoc (t ++ D) c), <- (lenZ_snoc (t ++ D) c).
  apply ac_loop_keep. intros m1 m2 Er q Hq Hm.
  replace ((t ++ D) ++ [c]) with (t ++ D ++ [c]) in * by (rewrite <- app_assoc; reflexivity).
  replace ((t ++ D ++ [c]) ++ m1) with (t ++ (D ++ c :: m1)) in * by (rewrite <- !app_assoc; reflexivity).
  destruct (match_within d t D (c :: r) Hns (D ++ c :: m1) m2 q) as (p & l & Eq & Hp & EX); auto.
  { rewrite Er, <- app_assoc. reflexivity. }
  unfold nm, bstart. cbn [fst]. rewrite Eq. unfold plen. cbn [fst snd].
  destruct l as [|a0 l0].
  - exfalso. cbn [app] in EX.
    pose proof (not_extended_inv d D (c :: r) p (snd q) (c :: m1) Hnx Hp (eq_sym EX) ltac:(discriminate)) as Hf.
    rewrite <- EX in Hf. rewrite Er in Hf. replace (D ++ c :: m1 ++ m2) with ((D ++ c :: m1) ++ m2) in Hf by (rewrite <- app_assoc; reflexivity).
    rewrite prefix_of_app in Hf. discriminate.
  - rewrite lenZ_app. assert (lenZ (D ++ c :: m1) = lenZ ((a0 :: l0) ++ p)) as -> by (rewrite <- EX; reflexivity). rewrite lenZ_app, lenZ_cons. pose proof (lenZ_nonneg l0). lia.
Qed.

(* ---------- every well-formed delimiter configuration ---------- *)
Theorem finder_ok_all d : wf_delims d = true -> finder_ok d.
Proof.
  intros Hwf. unfold wf_delims in Hwf.
  apply andb_prop in Hwf as [Hwf Hne]. apply andb_prop in Hwf as [Hwf Hif]. apply andb_prop in Hwf as [Hwf _].
  apply andb_prop in Hwf as [Hwf _]. apply andb_prop in Hwf as [Hwf _]. apply andb_prop in Hwf as [Hvc _].
  destruct (delims_eqb d default_delims) eqn:E.
  - apply delims_eqb_eq in E. subst. apply finder_ok_default.
  - split.
    + intros rb t H. unfold find_start_marker. rewrite E. apply find_ac_none; auto.
    + intros rb t mk R Hin Hns Hnx Hls. unfold find_start_marker. rewrite E. apply find_ac_found; auto.
Qed.


(* ========================================================================================== *)
Lemma all_supported_clip segs : all_supported segs -> all_supported (clip_segs segs).
Proof.
  induction segs as [|X S IH]; intros H; [constructor|].
  inversion H as [|? ? HX HS]; subst.
  destruct S as [|Y S'].
  - destruct X as [t| | |]; cbn [clip_segs]; try (destruct (strip_trailing_newline t)); constructor; auto; try constructor.
    all: try (destruct HX as [HX|HX]; [discriminate | right; exact HX]).
    all: try (left; reflexivity).
  - replace (clip_segs (X :: Y :: S')) with (X :: clip_segs (Y :: S')) by (destruct X; reflexivity).
    constructor; [exact HX | apply IH; exact HS].
Qed.

Theorem texts_verbatim_supported (d : delims) (w : wsconfig) (segs : list seg) :
  finder_ok d -> all_supported segs -> wf_case d (keep w) segs = true ->
  exists its, tokenize {| dl := d; wsc := w; qk := fixed |} (unparse d segs) = (its, FOk) /\
              view its = expected (st_of w) segs.
Proof.
  intros HF Hsup Hwf. unfold wf_case in Hwf. apply andb_prop in Hwf as [Hwf Hclip]. apply andb_prop in Hwf as [Hwfd Hwfs].
  set (c := {| dl := d; wsc := w; qk := fixed |}).
  set (E := if keep w then segs else clip_segs segs).
  assert (HwE : wf_segs d true false E = true).
  { unfold E. destruct (keep w); auto. }
  assert (HsE : all_supported E).
  { unfold E. destruct (keep w); auto. apply all_supported_clip; auto. }
  assert (Hsrc : strip_source w (unparse d segs) = unparse d E).
  { rewrite strip_source_alt. unfold E. destruct (keep w); auto.
    destruct segs as [|X S]; [reflexivity|].
    apply (strip_unparse d Hwfd (X :: S) [] true false Hwfs); [discriminate|].
    intros t _ _ [r Er]. discriminate. }
  assert (Hexp : expected (st_of w) segs = walk (st_of w) None true (flatten E)).
  { unfold expected, effective. rewrite (normalize_wf d segs true false Hwfs). reflexivity. }
  rewrite Hexp. unfold tokenize. cbn [wsc c]. rewrite Hsrc.
  pose proof (toks_segs c HF eq_refl Hwfd
                (fun X Rs rbm offm _ Hs Hok => hsm_seg c X Rs rbm offm eq_refl Hwfd Hs Hok)
                (length E) E (le_n _) (S (length (unparse d E))) None [] 0 true HsE I HwE (or_intror eq_refl) (Nat.lt_succ_diag_r _)) as H.
  unfold result_ok in H. cbn [tail_of apply_tail] in H. exact H.
Qed.

Lemma all_supported_any segs : all_supported segs.
Proof. induction segs as [|X S IH]; constructor; auto. destruct X; cbn; auto. Qed.

(* the theorem, for every delimiter configuration whose start-marker search meets its specification *)
Theorem texts_verbatim_finder_proof (d : delims) (w : wsconfig) (segs : list seg) :
  finder_ok d -> wf_case d (keep w) segs = true ->
  exists its, tokenize {| dl := d; wsc := w; qk := fixed |} (unparse d segs) = (its, FOk) /\
              view its = expected (st_of w) segs.
Proof. intros HF H. apply texts_verbatim_supported; auto. apply all_supported_any. Qed.

Theorem texts_verbatim_default_proof (w : wsconfig) (segs : list seg) :
  wf_case default_delims (keep w) segs = true ->
  exists its, tokenize {| dl := default_delims; wsc := w; qk := fixed |} (unparse default_delims segs) = (its, FOk) /\
              view its = expected (st_of w) segs.
Proof. apply texts_verbatim_finder_proof. apply finder_ok_default. Qed.

(* ---------- no configuration accepted by build() can make the lexer panic ---------- *)
Lemma valid_config_com_e d : valid_config fixed d = true -> is_nil (com_e d) = false.
Proof.
  unfold valid_config. destruct (delims_eqb d default_delims) eqn:E.
  - intros _. unfold delims_eqb in E. repeat (apply andb_prop in E as [E ?]).
    destruct (com_e d); [discriminate|reflexivity].
  - cbn [q_empty_end fixed orb]. intros H. apply andb_prop in H as [H _]. apply andb_prop in H as [_ H].
    destruct (com_e d); [discriminate|reflexivity].
Qed.

Lemma raw_finish_cont c ws rb0 acc l off0 chunk nx :
  raw_finish c ws rb0 acc l off0 = Some (chunk, nx) -> exists p tl, nx = Cont p tl.
Proof.
  unfold raw_finish. destruct (skip_basic_tag _ _ _ _) as [[e wn]|]; [|discriminate].
  intros E. inversion E. unfold cont_of. eauto.
Qed.

Lemma raw_search_cont c ws rb0 off0 : forall l acc wait chunk nx,
  raw_search c ws rb0 acc l off0 wait = Some (chunk, nx) -> exists p tl, nx = Cont p tl.
Proof.
  induction l as [|a r IH]; intros acc wait chunk nx; rewrite raw_search_unfold; cbv zeta.
  - destruct wait; [|discriminate]. destruct (prefix_of _ _); [|discriminate].
    destruct (raw_finish c ws rb0 acc [] off0) as [[ch n]|] eqn:E; [|discriminate].
    intros E'. inversion E'; subst. eapply raw_finish_cont; eauto.
  - destruct wait.
    + destruct (prefix_of _ _).
      * destruct (raw_finish c ws rb0 acc (a :: r) off0) as [[ch n]|] eqn:E.
        -- intros E'. inversion E'; subst. eapply raw_finish_cont; eauto.
        -- apply IH.
      * apply IH.
    + apply IH.
Qed.

Lemma handle_start_marker_no_panic c mk len pm : is_nil (com_e (dl c)) = false ->
  snd (handle_start_marker c mk len pm) <> Stop FPanic.
Proof.
  intros Hc. destruct pm as [[rb after] off]. unfold handle_start_marker. destruct mk.
  - destruct (advance len (rb, after, off)) as [[rb1 rest1] off1]. cbn [snd].
    destruct (scan c SVar Normal 0 rb1 rest1 off1) as [? ? ? []| | |]; cbn; congruence.
  - destruct (skip_basic_tag _ _ _ _) as [[raw ws]|].
    + destruct (advance (raw + len) (rb, after, off)) as [[rb1 rest1] off1].
      destruct (raw_search c ws rb1 [] rest1 off1 0) as [[chunk nx]|] eqn:E; cbn [snd]; [|congruence].
      destruct (raw_search_cont _ _ _ _ _ _ _ _ _ E) as (p & tl & ->). congruence.
    + destruct (advance len (rb, after, off)) as [[rb1 rest1] off1]. cbn [snd].
      destruct (scan c SBlock Normal 0 rb1 rest1 off1) as [? ? ? []| | |]; cbn; congruence.
  - rewrite Hc. destruct (find_sub _ _ _); cbn [snd]; unfold cont_of; congruence.
  - destruct (advance len (rb, after, off)) as [[rb1 rest1] off1]. cbn [snd].
    destruct (scan c SLine Normal 0 rb1 rest1 off1) as [? ? ? []| | |]; cbn; congruence.
  - destruct (skip_nl _ _). cbn [snd]. congruence.
Qed.

Lemma root_step_no_panic c p tl : is_nil (com_e (dl c)) = false -> snd (root_step c p tl) <> Stop FPanic.
Proof.
  intros Hc. unfold root_step. destruct (if tl then skip_whitespace p else p) as [[rb rest] off].
  destruct (find_start_marker (dl c) rb rest) as [[[[start mk] len] w]|]; [|cbn; congruence].
  pose proof (handle_start_marker_no_panic c mk len (advance start (rb, rest, off)) Hc) as H.
  destruct (handle_start_marker c mk len (advance start (rb, rest, off))) as [its nx]. exact H.
Qed.

Lemma toks_no_panic c : is_nil (com_e (dl c)) = false -> forall fuel p tl, snd (toks fuel c p tl) <> FPanic.
Proof.
  intros Hc. induction fuel as [|f IH]; intros p tl; [cbn; congruence|].
  destruct p as [[rb rest] off]. destruct rest as [|x r]; [cbn; congruence|].
  rewrite toks_unfold. pose proof (root_step_no_panic c (rb, x :: r, off) tl Hc) as H.
  destruct (root_step c (rb, x :: r, off) tl) as [its [e|p' tl']]; cbn [snd] in *.
  - congruence.
  - specialize (IH p' tl'). destruct (toks f c p' tl') as [r0 e]. cbn [snd] in *. exact IH.
Qed.

Theorem no_panic_proof (d : delims) (w : wsconfig) (src : str) :
  match tokenize_checked {| dl := d; wsc := w; qk := fixed |} src with
  | Ok (_, e) => e <> FPanic
  | Err code => code = E_InvalidDelimiter
  | _ => False
  end.
Proof.
  unfold tokenize_checked. cbn [qk dl]. destruct (valid_config fixed d) eqn:E; [|reflexivity].
  pose proof (toks_no_panic {| dl := d; wsc := w; qk := fixed |} (valid_config_com_e d E)) as H.
  unfold tokenize. destruct (toks _ _ _ _) as [its e] eqn:Et. specialize (H (S (length (strip_source w src))) ([], strip_source w src, 0) false).
  cbn [wsc] in Et. rewrite Et in H. exact H.
Qed.

(* a text without start delimiters is one verbatim chunk *)
Theorem lookalike_is_text_proof (d : delims) (w : wsconfig) (t : str) :
  finder_ok d -> keep w = true -> wf_case d true [Text t] = true ->
  exists its, tokenize {| dl := d; wsc := w; qk := fixed |} t = (its, FOk) /\ view its = [EText t].
Proof.
  intros HF Hk Hwf.
  assert (Hwf' : wf_case d (keep w) [Text t] = true) by (rewrite Hk; exact Hwf).
  destruct (texts_verbatim_finder_proof d w [Text t] HF Hwf') as (its & E & V).
  cbn [unparse unparse_seg] in E. rewrite app_nil_r in E. exists its. split; auto.
  rewrite V. unfold wf_case in Hwf. apply andb_prop in Hwf as [Hwf _]. apply andb_prop in Hwf as [_ Hwf].
  cbn [wf_segs] in Hwf. apply andb_prop in Hwf as [Hwf _]. apply andb_prop in Hwf as [Hwf _]. apply andb_prop in Hwf as [_ Hne].
  unfold expected, effective. cbn [st_of keep_trailing_newline]. rewrite Hk.
  destruct t as [|a t']; [discriminate|]. reflexivity.
Qed.

(* ---------- the theorems without the search hypothesis ---------- *)
Lemma wf_case_delims d k segs : wf_case d k segs = true -> wf_delims d = true.
Proof. unfold wf_case. intros H. apply andb_prop in H as [H _]. apply andb_prop in H as [H _]. exact H. Qed.

Theorem texts_verbatim_proof (d : delims) (w : wsconfig) (segs : list seg) :
  wf_case d (keep w) segs = true ->
  exists its, tokenize {| dl := d; wsc := w; qk := fixed |} (unparse d segs) = (its, FOk) /\
              view its = expected (st_of w) segs.
Proof. intros H. apply texts_verbatim_finder_proof; auto. apply finder_ok_all. eapply wf_case_delims; eauto. Qed.

Theorem lookalike_proof (d : delims) (w : wsconfig) (t : str) :
  keep w = true -> wf_case d true [Text t] = true ->
  exists its, tokenize {| dl := d; wsc := w; qk := fixed |} t = (its, FOk) /\ view its = [EText t].
Proof. intros Hk H. apply lookalike_is_text_proof; auto. apply finder_ok_all. eapply wf_case_delims; eauto. Qed.

(* ========================================================================================== *)
(* the search for an END delimiter (memstr: comment end, block start inside raw blocks) returns the FIRST occurrence *)
Lemma find_sub_some n : forall h i j, find_sub n h i = Some j ->
  exists pre post, h = pre ++ n ++ post /\ j = i + lenZ pre /\
                   (forall pre' post', h = pre' ++ n ++ post' -> lenZ pre <= lenZ pre').
Proof.
  induction h as [|x r IH]; intros i j H; rewrite find_sub_unfold in H.
  - destruct (prefix_of n []) eqn:E; [|discriminate]. inversion H; subst.
    apply prefix_of_true in E as [post E]. exists [], post. cbn [app]. split; [exact E|]. split; [rewrite lenZ_nil; lia|].
    intros pre' post' _. rewrite lenZ_nil. apply lenZ_nonneg.
  - destruct (prefix_of n (x :: r)) eqn:E.
    + inversion H; subst. apply prefix_of_true in E as [post E]. exists [], post. cbn [app]. split; [exact E|]. split; [rewrite lenZ_nil; lia|].
      intros pre' post' _. rewrite lenZ_nil. apply lenZ_nonneg.
    + destruct (IH _ _ H) as (pre & post & Er & Ej & Hmin).
      exists (x :: pre), post. cbn [app]. split; [rewrite Er; reflexivity|]. split; [rewrite lenZ_cons; lia|].
      intros pre' post' E'. destruct pre' as [|y pre''].
      * cbn [app] in E'. rewrite E', prefix_of_app in E. discriminate.
      * cbn [app] in E'. inversion E'; subst. rewrite !lenZ_cons. specialize (Hmin pre'' post' H2). lia.
Qed.

Lemma find_sub_none n : forall h i, find_sub n h i = None -> forall pre post, h <> pre ++ n ++ post.
Proof.
  induction h as [|x r IH]; intros i H pre post E; rewrite find_sub_unfold in H.
  - destruct (prefix_of n []) eqn:Ep; [discriminate|].
    destruct pre; [|discriminate]. cbn [app] in E. rewrite E, prefix_of_app in Ep. discriminate.
  - destruct (prefix_of n (x :: r)) eqn:Ep; [discriminate|].
    destruct pre as [|y pre'].
    + cbn [app] in E. rewrite E, prefix_of_app in Ep. discriminate.
    + cbn [app] in E. inversion E; subst. eapply IH; eauto.
Qed.

Theorem end_marker_search_proof (n h : list Z) :
  match find_sub n h 0 with
  | Some j => exists pre post, h = pre ++ n ++ post /\ lenZ pre = j /\
                               (forall pre' post', h = pre' ++ n ++ post' -> j <= lenZ pre')
  | None => forall pre post, h <> pre ++ n ++ post
  end.
Proof.
  destruct (find_sub n h 0) as [j|] eqn:E.
  - destruct (find_sub_some n h 0 j E) as (pre & post & Eh & Ej & Hmin).
    exists pre, post. split; [exact Eh|]. split; [lia|]. intros pre' post' E'. specialize (Hmin pre' post' E'). lia.
  - apply (find_sub_none n h 0 E).
Qed.
