(* Executable entry points of the C10 model and specification in the integer-list protocol shared
   with harness/src/bin/c10.rs (see its header for the case format).  Decoders, [unparse] and
   encoders are part of the correspondence glue; [unparse] is also the function the theorems
   of Props/C10.v are stated about. *)
From Coq Require Import String.
From MJ Require Import Common.Base C10.Chars C10.Spec C10.Model C10.Domain.

(* ---- decoding ---- *)
Definition dec_str (l : list Z) : str * list Z :=
  match l with
  | n :: r => (takeZ n r, skipZ n r)
  | [] => ([], [])
  end.
Definition dec_mark (z : Z) : mark := if z =? 1 then MMinus else if z =? 2 then MPlus else MNone.
Definition dec_nl (z : Z) : nlstyle := if z =? 1 then NlLF else if z =? 2 then NlCRLF else if z =? 3 then NlCR else NlNone.

Fixpoint dec_segs (fuel : nat) (n : Z) (l : list Z) : list seg :=
  match fuel with
  | O => []
  | S f =>
      if n <=? 0 then []
      else match l with
           | 0 :: r => let '(s, r') := dec_str r in Text s :: dec_segs f (n - 1) r'
           | 1 :: k :: a :: b :: r =>
               Tag (if k =? 0 then KVar else if k =? 1 then KBlock else KComment) (dec_mark a) (dec_mark b) :: dec_segs f (n - 1) r
           | 2 :: a :: b :: r =>
               let '(s, r') := dec_str r in
               match r' with
               | a2 :: b2 :: r'' => Raw (dec_mark a) (dec_mark b) s (dec_mark a2) (dec_mark b2) :: dec_segs f (n - 1) r''
               | _ => []
               end
           | 3 :: k :: r =>
               let '(t, r') := dec_str r in
               match r' with
               | e :: r'' => Line (if k =? 0 then LStmt else LComment) t (dec_nl e) :: dec_segs f (n - 1) r''
               | _ => []
               end
           | _ => []
           end
  end.

(* programs of the delimiter-rewriting corpus: a tag may carry its own interior (glue only: for the whitespace
   rules such a tag is the tag of its kind) *)
Fixpoint dec_gsegs (fuel : nat) (n : Z) (l : list Z) : list (seg * option str) :=
  match fuel with
  | O => []
  | S f =>
      if n <=? 0 then []
      else match l with
           | 4 :: k :: a :: b :: r =>
               let '(body, r') := dec_str r in
               (Tag (if k =? 0 then KVar else if k =? 1 then KBlock else KComment) (dec_mark a) (dec_mark b), Some body) :: dec_gsegs f (n - 1) r'
           | _ =>
               match dec_segs 1 1 l with
               | [s] =>
                   (* length of the encoding of s *)
                   let skip := match s with
                               | Text t => 2 + lenZ t
                               | Tag _ _ _ => 4
                               | Raw _ _ c _ _ => 6 + lenZ c
                               | Line _ t _ => 4 + lenZ t
                               end in
                   (s, None) :: dec_gsegs f (n - 1) (skipZ skip l)
               | _ => []
               end
           end
  end.
Definition unparse_g (d : delims) (gs : list (seg * option str)) : str :=
  flat_map (fun g => match g with
                     | (Tag k l r, Some body) =>
                         (match k with KVar => var_s d | KBlock => block_s d | KComment => com_s d end) ++ mark_str l ++ body ++ mark_str r ++
                         (match k with KVar => var_e d | KBlock => block_e d | KComment => com_e d end)
                     | (s, _) => unparse_seg d s
                     end) gs.
Definition has_body (gs : list (seg * option str)) : bool := existsb (fun g => match snd g with Some _ => true | None => false end) gs.

Definition dec_delims (l : list Z) : delims * list Z :=
  let '(d1, l) := dec_str l in let '(d2, l) := dec_str l in let '(d3, l) := dec_str l in let '(d4, l) := dec_str l in
  let '(d5, l) := dec_str l in let '(d6, l) := dec_str l in let '(d7, l) := dec_str l in let '(d8, l) := dec_str l in
  ({| block_s := d1; block_e := d2; var_s := d3; var_e := d4; com_s := d5; com_e := d6; line_s := d7; line_c := d8 |}, l).

Definition bit (bits k : Z) : bool := Z.odd (bits / k).
Definition dec_ws (bits : Z) : wsconfig := {| trim := bit bits 1; lstrip_b := bit bits 2; keep := bit bits 4 |}.
Definition dec_settings (bits : Z) : settings :=
  {| trim_blocks := bit bits 1; lstrip_blocks := bit bits 2; keep_trailing_newline := bit bits 4 |}.

(* ---- encoding ---- *)
Definition enc_str (s : str) : list Z := lenZ s :: s.
Fixpoint enc_items (l : list item) : list Z :=
  match l with
  | [] => []
  | IText s :: r => 0 :: enc_str s ++ enc_items r
  | IVar o :: r => 1 :: o :: enc_items r
  | IBlock o :: r => 2 :: o :: enc_items r
  end.
Definition enc_tokens (its : list item) (e : fin) : list Z :=
  lenZ its :: enc_items its ++ match e with FErr c => [1; c] | _ => [0] end.
Definition enc_render (its : list item) (e : fin) : list Z :=
  match e with
  | FOk => 0 :: enc_str (render_items (view its))
  | FEof => [1; E_SyntaxError]
  | FErr c => [1; c]
  | _ => [9]
  end.

Definition run_with (q : quirks) (inp : list Z) : list Z :=
  match inp with
  | mode :: bits :: r =>
      let '(d, r) := dec_delims r in
      let c := {| dl := d; wsc := dec_ws bits; qk := q |} in
      let gs := if mode =? 1 then [] else match r with n :: r' => dec_gsegs (length r') n r' | [] => [] end in
      let src := if mode =? 1 then fst (dec_str r) else unparse_g d gs in
      match tokenize_checked c src with
      | Err code => [1; code]
      | Ok (its, e) =>
          match e with
          | FPanic => [2]
          | FOOS => [7]
          | FGas => [8]
          | _ => (if mode =? 1 then [3] else if has_body gs then [6] else enc_render its e) ++ enc_tokens its e
          end
      | _ => [9]
      end
  | _ => [9]
  end.
Definition run := run_with fixed.
Definition run_before_fixes := run_with before_fixes.

(* the specification on its own: expected output and expected item list (0 <str> | 1 | 2);
   mode 1 has no segment structure, hence no specification: [5] *)
Fixpoint enc_eitems (l : list eitem) : list Z :=
  match l with
  | [] => []
  | EText s :: r => 0 :: enc_str s ++ enc_eitems r
  | EVar :: r => 1 :: enc_eitems r
  | EBlock :: r => 2 :: enc_eitems r
  end.
Definition spec (inp : list Z) : list Z :=
  match inp with
  | mode :: bits :: r =>
      let '(d, r) := dec_delims r in
      if mode =? 1 then [5]
      else match r with
           | n :: r' =>
               let segs := map fst (dec_gsegs (length r') n r') in
               let ex := expected (dec_settings bits) segs in
               0 :: enc_str (render_items ex) ++ lenZ ex :: enc_eitems ex
           | [] => [9]
           end
  | _ => [9]
  end.

(* is the case inside the domain of theorem texts_verbatim (Domain.wf_case)?  also returns the source *)
Definition domain (inp : list Z) : list Z :=
  match inp with
  | mode :: bits :: r =>
      let '(d, r) := dec_delims r in
      if mode =? 1 then [5]
      else match r with
           | n :: r' =>
               let gs := dec_gsegs (length r') n r' in
               (if negb (has_body gs) && wf_case d (bit bits 4) (map fst gs) then 1 else 0) :: enc_str (unparse_g d gs)
           | [] => [9]
           end
  | _ => [9]
  end.

Open Scope string_scope.
Definition runners : list (string * (list Z -> list Z)) :=
  [ ("c10", run); ("c10-before-fixes", run_before_fixes); ("c10-spec", spec); ("c10-domain", domain) ].
