(* C10 specification: what a template made of text segments and tags must produce.
   Written from the property text and the documentation (syntax.rs, "Whitespace Control" and
   "Line Statements and Comments"), not from the lexer.  It never looks at delimiters.

   The only characters ever removed from a text are
     1. one trailing newline of the template (LF, CRLF or CR) unless keep_trailing_newline;
     2. all whitespace adjacent to a '-' marker;
     3. the single newline following a block / comment / raw / endraw tag under trim_blocks,
        unless that side of the tag carries '+';
     4. the horizontal whitespace between the start of a line and a block / comment / raw /
        endraw tag under lstrip_blocks, unless that side of the tag carries '+';
   a line statement / line comment behaves as the block / comment tag occupying that line
   with rules 3 and 4 in force for it whatever the settings ("line statements remove all
   whitespace before and after including the newline").  Raw content is text. *)
From MJ Require Import Common.Base C10.Chars.

Inductive mark := MNone | MMinus | MPlus.
Inductive tagkind := KVar | KBlock | KComment.
Inductive linekind := LStmt | LComment.
Inductive nlstyle := NlNone | NlLF | NlCRLF | NlCR.

Inductive seg :=
| Text (s : str)
| Tag (k : tagkind) (l r : mark)                        (* l: marker after the start delimiter, r: before the end delimiter *)
| Raw (l1 r1 : mark) (content : str) (l2 r2 : mark)     (* {%l1 raw r1%}content{%l2 endraw r2%} *)
| Line (k : linekind) (trail : str) (nl : nlstyle).     (* prefix, statement, blanks, line ending; the indentation is
                                                           the horizontal whitespace that ends the preceding text *)

Record settings := { trim_blocks : bool; lstrip_blocks : bool; keep_trailing_newline : bool }.

(* what the tokenizer hands to the parser at template level *)
Inductive eitem := EText (s : str) | EVar | EBlock.

(* ---- flattening: raw blocks are two silent block tags around a text ---- *)
Inductive ukind := UVar | UBlock | UComment | URawOpen | URawClose.
Inductive unit_ :=
| UText (s : str)
| UTag (k : ukind) (l r : mark)
| ULine (k : linekind) (nl : nlstyle).

Definition ukind_of (k : tagkind) : ukind := match k with KVar => UVar | KBlock => UBlock | KComment => UComment end.

(* texts are maximal and non-empty: adjacent texts are one text, an empty text is no segment *)
Fixpoint normalize (segs : list seg) : list seg :=
  match segs with
  | [] => []
  | Text s :: rest =>
      match normalize rest with
      | Text s' :: u => Text (s ++ s') :: u
      | u => match s with [] => u | _ => Text s :: u end
      end
  | x :: rest => x :: normalize rest
  end.

Fixpoint flatten (segs : list seg) : list unit_ :=
  match segs with
  | [] => []
  | Text s :: rest => UText s :: flatten rest
  | Tag k l r :: rest => UTag (ukind_of k) l r :: flatten rest
  | Raw l1 r1 c l2 r2 :: rest => UTag URawOpen l1 r1 :: UText c :: UTag URawClose l2 r2 :: flatten rest
  | Line k _ nl :: rest => ULine k nl :: flatten rest
  end.

(* ---- rule 1: the template loses one trailing newline (LF, CRLF or CR): a final text loses it (and
   disappears when nothing is left), a final line statement / line comment loses its line ending ---- *)
Definition strip_trailing_newline (s : str) : str :=
  match rev s with
  | a :: r =>
      if a =? c_lf then
        match r with
        | b :: r' => if b =? c_cr then rev r' else rev r
        | [] => []
        end
      else if a =? c_cr then rev r
      else s
  | [] => s
  end.

Fixpoint clip_segs (segs : list seg) : list seg :=
  match segs with
  | [] => []
  | [Text t] => match strip_trailing_newline t with [] => [] | t' => [Text t'] end
  | [Line k tr _] => [Line k tr NlNone]
  | s :: r => s :: clip_segs r
  end.

(* ---- rule 3: the single newline (LF, CRLF or CR) at the start of a text ---- *)
Definition strip_one_newline (s : str) : str :=
  match s with
  | a :: r =>
      if a =? c_cr then match r with b :: r' => if b =? c_lf then r' else r | [] => r end
      else if a =? c_lf then r
      else s
  | [] => s
  end.

Definition block_like (k : ukind) : bool := match k with UVar => false | _ => true end.
Definition is_minus (m : mark) : bool := match m with MMinus => true | _ => false end.
Definition is_plus (m : mark) : bool := match m with MPlus => true | _ => false end.

(* is the position after [t] at the start of a line, horizontal whitespace aside?
   [bol]: the same question for the position before [t] *)
Definition at_line_start (bol : bool) (t : str) : bool :=
  match rev (rstrip is_hws t) with
  | [] => bol
  | c :: _ => is_nl c
  end.

Definition left_rule (cfg : settings) (prev : option unit_) (t : str) : str :=
  match prev with
  | Some (UTag k _ r) =>
      if is_minus r then lstrip is_ws t
      else if block_like k && trim_blocks cfg && negb (is_plus r) then strip_one_newline t
      else t
  | _ => t
  end.

Definition right_rule (cfg : settings) (next : option unit_) (als : bool) (t : str) : str :=
  match next with
  | Some (UTag k l _) =>
      if is_minus l then rstrip is_ws t
      else if block_like k && lstrip_blocks cfg && negb (is_plus l) && als then rstrip is_hws t
      else t
  | Some (ULine _ _) => if als then rstrip is_hws t else t
  | _ => t
  end.

Definition emit_text (t : str) : list eitem := match t with [] => [] | _ => [EText t] end.
Definition emit_tag (k : ukind) : list eitem :=
  match k with UVar => [EVar] | UBlock => [EBlock] | _ => [] end.
Definition emit_line (k : linekind) : list eitem := match k with LStmt => [EBlock] | LComment => [] end.

Fixpoint walk (cfg : settings) (prev : option unit_) (bol : bool) (us : list unit_) : list eitem :=
  match us with
  | [] => []
  | UText t :: r =>
      let als := at_line_start bol t in
      emit_text (right_rule cfg (hd_error r) als (left_rule cfg prev t))
        ++ walk cfg (Some (UText t)) false r
  | UTag k l m :: r => emit_tag k ++ walk cfg (Some (UTag k l m)) false r
  | ULine k nl :: r => emit_line k ++ walk cfg (Some (ULine k nl)) (match nl with NlNone => false | _ => true end) r
  end.

Definition effective (cfg : settings) (segs : list seg) : list seg :=
  let n := normalize segs in if keep_trailing_newline cfg then n else clip_segs n.
Definition expected (cfg : settings) (segs : list seg) : list eitem :=
  walk cfg None true (flatten (effective cfg segs)).

(* the rendered output when every variable tag prints "V" and block tags print nothing *)
Definition c_V := 86.
Fixpoint render_items (l : list eitem) : str :=
  match l with
  | [] => []
  | EText s :: r => s ++ render_items r
  | EVar :: r => c_V :: render_items r
  | EBlock :: r => render_items r
  end.
Definition expected_output (cfg : settings) (segs : list seg) : str := render_items (expected cfg segs).
