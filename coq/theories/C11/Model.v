(* C11 model: the recursion-depth accounting of the VM, as the code does it.

   Anchors (minijinja/src):
     vm/context.rs   Context::{new_with_frame, reset_with_frame, push_frame, pop_frame, depth,
                     incr_depth, charge_depth, decr_depth, check_depth, restore_stack_depth}
     vm/mod.rs       INCLUDE_RECURSION_COST, MACRO_RECURSION_COST, BLOCK_RECURSION_COST,
                     eval_macro, perform_include, perform_super, call_block, PushWith / PushLoop /
                     PopFrame / PopLoopFrame, recurse_loop! (a jump: no native recursion)
     vm/state.rs     State::with_execution_state (stack_depth / restore_stack_depth)
     environment.rs  MAX_RECURSION, set_recursion_limit (the build without `stacker`)

   Only the accounting is modelled: a context is its two counters, the state is the current
   context plus the stack of native interpreter activations (one per nested `do_eval`), each
   remembering what its return undoes.  What the frames contain, which block a name resolves to,
   whether a parent block exists, are outside (C03/C05/C06).  Nothing here bounds the size of a native
   frame: that part of the property is measured, not proved (see tools/props/C11.py).

   No proofs in this file. *)
From MJ Require Import Common.Base.

Definition MAX_RECURSION : Z := 500.
Definition INCLUDE_RECURSION_COST : Z := 10.
Definition MACRO_RECURSION_COST : Z := 4.
Definition BLOCK_RECURSION_COST : Z := 5.

(* Environment::set_recursion_limit without the `stacker` feature: level.min(MAX_RECURSION) *)
Definition set_recursion_limit (level : Z) : Z := Z.min level MAX_RECURSION.

(* Context: outer_stack_depth and stack.len() *)
Record ctx : Type := mkctx { outer : Z; frames : Z }.

Definition depth (c : ctx) : Z := outer c + frames c.

(* check_depth: Err when depth() > recursion_limit *)
Definition check_depth (limit : Z) (c : ctx) : outcome unit :=
  if limit <? depth c then Err E_InvalidOperation else Ok tt.

(* push_frame: push, check, (pop again and) fail.  An error always travels to the top of the render,
   so the restored context is not kept in the outcome. *)
Definition push_frame (limit : Z) (c : ctx) : outcome ctx :=
  let c' := mkctx (outer c) (frames c + 1) in
  bind (check_depth limit c') (fun _ => Ok c').

(* pop_frame: self.stack.pop().unwrap() *)
Definition pop_frame (c : ctx) : outcome ctx :=
  if frames c <=? 0 then Panic else Ok (mkctx (outer c) (frames c - 1)).

(* incr_depth: add, check, (subtract again and) fail *)
Definition incr_depth (limit : Z) (c : ctx) (delta : Z) : outcome ctx :=
  let c' := mkctx (outer c + delta) (frames c) in
  bind (check_depth limit c') (fun _ => Ok c').

(* charge_depth: add without a check *)
Definition charge_depth (c : ctx) (delta : Z) : ctx := mkctx (outer c + delta) (frames c).

(* decr_depth: usize subtraction (traps in a debug build when it would go below zero) *)
Definition decr_depth (c : ctx) (delta : Z) : outcome ctx :=
  if outer c <? delta then Panic else Ok (mkctx (outer c - delta) (frames c)).

(* restore_stack_depth: debug_assert!(len >= depth); truncate(depth) *)
Definition restore_stack_depth (c : ctx) (sd : Z) : outcome ctx :=
  if frames c <? sd then Panic else Ok (mkctx (outer c) sd).

(* eval_macro up to the call of do_eval: a pooled/fresh context is reset to the base frame, the
   closure frame is pushed (checked), then the caller's depth plus the macro cost is added (checked) *)
Definition macro_enter (limit : Z) (caller : ctx) : outcome ctx :=
  let c0 := mkctx 0 1 in
  bind (push_frame limit c0) (fun c1 =>
  incr_depth limit c1 (depth caller + MACRO_RECURSION_COST)).

(* What a native activation undoes when it returns. *)
Inductive act : Type :=
| AMacro (saved : ctx)      (* old_ctx, put back by mem::replace *)
| AInclude (sd : Z)         (* with_execution_state's stack_depth; decr_depth(INCLUDE_RECURSION_COST) *)
| ABlock (sd : Z)           (* stack_depth taken before the push_frame inside the closure *)
| ASuper (sd : Z).          (* stack_depth taken after push_frame; pop_frame follows *)

Record state : Type := mkst { cur : ctx; acts : list act }.

(* Context::new_with_frame: one frame, no check *)
Definition init : state := mkst (mkctx 0 1) [].

Inductive op : Type :=
| OPush      (* PushWith, PushLoop - also the PushLoop a recursive loop jumps back to *)
| OPop       (* PopFrame, PopLoopFrame *)
| OMacro     (* Macro::call -> eval_macro -> do_eval *)
| OInclude   (* Include instruction -> perform_include -> do_eval *)
| OBlock     (* CallBlock instruction ({% block %}, self.name()) -> call_block -> do_eval *)
| OSuper     (* super() / FastSuper -> perform_super -> do_eval *)
| ORet.      (* normal return of the innermost nested activation *)

(* [bc] is the block cost: BLOCK_RECURSION_COST in the code as it is; 0 describes the code before
   the fix (used only by the refutation example in Proofs.v). *)
Definition stepg (bc : Z) (limit : Z) (st : state) (o : op) : outcome state :=
  let c := cur st in
  match o with
  | OPush => bind (push_frame limit c) (fun c' => Ok (mkst c' (acts st)))
  | OPop => bind (pop_frame c) (fun c' => Ok (mkst c' (acts st)))
  | OMacro => bind (macro_enter limit c) (fun c' => Ok (mkst c' (AMacro c :: acts st)))
  | OInclude =>
      bind (incr_depth limit c INCLUDE_RECURSION_COST) (fun c' =>
      Ok (mkst c' (AInclude (frames c) :: acts st)))
  | OBlock =>
      bind (push_frame limit c) (fun c' =>
      Ok (mkst (charge_depth c' bc) (ABlock (frames c) :: acts st)))
  | OSuper =>
      bind (push_frame limit c) (fun c' =>
      Ok (mkst (charge_depth c' bc) (ASuper (frames c') :: acts st)))
  | ORet =>
      match acts st with
      | [] => Ok st                                   (* the root activation: the render is over *)
      | AMacro saved :: r => Ok (mkst saved r)
      | AInclude sd :: r =>
          bind (restore_stack_depth c sd) (fun c1 =>
          bind (decr_depth c1 INCLUDE_RECURSION_COST) (fun c2 => Ok (mkst c2 r)))
      | ABlock sd :: r =>
          bind (decr_depth c bc) (fun c1 =>
          bind (restore_stack_depth c1 sd) (fun c2 => Ok (mkst c2 r)))
      | ASuper sd :: r =>
          bind (restore_stack_depth c sd) (fun c1 =>
          bind (decr_depth c1 bc) (fun c2 =>
          bind (pop_frame c2) (fun c3 => Ok (mkst c3 r))))
      end
  end.

Definition step : Z -> state -> op -> outcome state := stepg BLOCK_RECURSION_COST.

Fixpoint run_opsg (bc limit : Z) (st : state) (l : list op) : outcome state :=
  match l with
  | [] => Ok st
  | o :: r => bind (stepg bc limit st o) (fun st' => run_opsg bc limit st' r)
  end.
Definition run_ops : Z -> state -> list op -> outcome state := run_opsg BLOCK_RECURSION_COST.

(* Frames the innermost activation started with: the compiler's scopes are balanced (C05), so a
   PopFrame never goes below it. *)
Definition base_of (st : state) : Z :=
  match acts st with
  | [] => 1
  | AMacro _ :: _ => 2
  | AInclude sd :: _ => sd
  | ABlock sd :: _ => sd + 1
  | ASuper sd :: _ => sd
  end.

Definition enabled (st : state) (o : op) : bool :=
  match o with
  | OPop => base_of st <? frames (cur st)
  | ORet => match acts st with [] => false | _ => true end
  | _ => true
  end.

(* every state a render can be in: any sequence of operations, each succeeding *)
Inductive reach (limit : Z) : state -> Prop :=
| reach_init : reach limit init
| reach_step : forall st o st',
    reach limit st -> enabled st o = true -> step limit st o = Ok st' -> reach limit st'.

(* number of nested do_eval activations, the root one included *)
Definition nesting (st : state) : Z := 1 + lenZ (acts st).

(* ---------------------------------------------------------------------------------------------
   Recursive programs: what one trip around a recursion cycle does to the accounting. *)
Inductive kind : Type := KPush | KMacro | KInclude | KBlock | KSuper.

Definition op_of (k : kind) : op :=
  match k with KPush => OPush | KMacro => OMacro | KInclude => OInclude | KBlock => OBlock | KSuper => OSuper end.
Definition undo_of (k : kind) : op := match k with KPush => OPop | _ => ORet end.

Inductive item : Type :=
| Probe                     (* the point where the harness counts a level *)
| Call (k : kind)           (* an edge that stays open while the recursion goes on *)
| Work (ks : list kind).    (* non-recursive work: a descent that returns before the recursion goes on *)

Definition exec_item (limit : Z) (st : state) (i : item) : outcome state :=
  match i with
  | Probe => Ok st
  | Call k => step limit st (op_of k)
  | Work ks => bind (run_ops limit st (map op_of ks)) (fun st' => run_ops limit st' (rev (map undo_of ks)))
  end.

(* A host callable that renders a block / calls a macro through &mut State and swallows the error
   (state.render_block(name).unwrap_or_default()): when the nested render is refused the caller goes on
   with its own context - push_frame / incr_depth have undone their increment, a refused call_block
   never reaches charge_depth nor decr_depth. *)
Definition exec_try (limit : Z) (st : state) (ks : list kind) : outcome state :=
  match exec_item limit st (Work ks) with
  | Err _ => Ok st
  | o => o
  end.

Definition is_probe (i : item) : Z := match i with Probe => 1 | _ => 0 end.

(* one pass over a list of items; counts the probes passed *)
Fixpoint run_items (limit : Z) (st : state) (n : Z) (l : list item) : Z * outcome state :=
  match l with
  | [] => (n, Ok st)
  | i :: r => match exec_item limit st i with
              | Ok st' => run_items limit st' (n + is_probe i) r
              | Err c => (n, Err c)
              | Panic => (n, Panic)
              | OutOfGas => (n, OutOfGas)
              end
  end.

(* the cycle, again and again *)
Fixpoint run_cyc (gas : nat) (limit : Z) (st : state) (n : Z) (cyc : list item) : Z * outcome state :=
  match gas with
  | O => (n, OutOfGas)
  | S g => match run_items limit st n cyc with
           | (n', Ok st') => run_cyc g limit st' n' cyc
           | r => r
           end
  end.

(* A render of the program "lead-in, then the cycle for ever" under set_recursion_limit(level):
   the number of levels reached and how it ended. *)
Definition GAS : nat := 506.
Definition levels (level : Z) (pre cyc : list item) : Z * outcome state :=
  let limit := set_recursion_limit level in
  match run_items limit init 0 pre with
  | (n, Ok st) => run_cyc GAS limit st n cyc
  | r => r
  end.
