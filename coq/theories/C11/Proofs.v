(* C11 proofs.  Part 1: an invariant of the accounting machine (what every open activation will give
   back) and what each operation does to the depth; Part 2: sequences of operations, the statements
   about every reachable state, the stack budget, the refutation of the accounting before the fix;
   Part 3: recursive programs - the machine against the closed form of Spec.v. *)
From MJ Require Import Common.Base C11.Model C11.Spec.

(* ------------------------------------------------------------------------------------------ *)
(* Part 1: invariants of the machine                                                            *)

(* [Inv c l]: c is a context in which the activations l (innermost first) are open; it says, for each
   of them, what the context will be once it has returned. *)
Fixpoint Inv (c : ctx) (l : list act) : Prop :=
  match l with
  | [] => outer c = 0 /\ 1 <= frames c
  | AMacro sv :: r => outer c = depth sv + 4 /\ 2 <= frames c /\ Inv sv r
  | AInclude sd :: r => sd <= frames c /\ Inv (mkctx (outer c - 10) sd) r
  | ABlock sd :: r => sd + 1 <= frames c /\ Inv (mkctx (outer c - 5) sd) r
  | ASuper sd :: r => sd <= frames c /\ Inv (mkctx (outer c - 5) (sd - 1)) r
  end.

Definition good (st : state) : Prop := Inv (cur st) (acts st).

Lemma inv_nonneg : forall l c, Inv c l -> 0 <= outer c /\ 1 <= frames c.
Proof.
  induction l as [|a r IH]; intros c H; cbn [Inv] in H.
  - lia.
  - destruct a as [sv|sd|sd|sd].
    + destruct H as (H1 & H2 & H3). apply IH in H3. unfold depth in H1. lia.
    + destruct H as (H1 & H2). apply IH in H2. cbn [outer frames] in H2. lia.
    + destruct H as (H1 & H2). apply IH in H2. cbn [outer frames] in H2. lia.
    + destruct H as (H1 & H2). apply IH in H2. cbn [outer frames] in H2. lia.
Qed.

Lemma inv_weight : forall l c, Inv c l -> 1 + wsum l <= depth c.
Proof.
  induction l as [|a r IH]; intros c H; cbn [Inv] in H; cbn [wsum cost].
  - unfold depth. lia.
  - destruct a as [sv|sd|sd|sd]; cbn [cost].
    + destruct H as (H1 & H2 & H3). apply IH in H3. unfold depth in *. lia.
    + destruct H as (H1 & H2). apply IH in H2. unfold depth in *. cbn [outer frames] in H2. lia.
    + destruct H as (H1 & H2). apply IH in H2. unfold depth in *. cbn [outer frames] in H2. lia.
    + destruct H as (H1 & H2). apply IH in H2. unfold depth in *. cbn [outer frames] in H2. lia.
Qed.

Lemma wsum_len : forall l, 6 * lenZ l <= wsum l.
Proof.
  induction l as [|a r IH]; unfold lenZ in *; cbn [wsum length].
  - lia.
  - destruct a; cbn [cost]; lia.
Qed.

(* changing the number of frames of the innermost activation, not below its base *)
Lemma inv_frames : forall l o f f', Inv (mkctx o f) l -> base_of (mkst (mkctx o f) l) <= f' -> Inv (mkctx o f') l.
Proof.
  intros l o f f' H Hb. destruct l as [|a r]; cbn [Inv base_of acts outer frames] in *.
  - lia.
  - destruct a; cbn [outer frames] in *; intuition lia.
Qed.

Lemma base_le_frames : forall st, good st -> base_of st <= frames (cur st).
Proof.
  intros [c l] H. unfold good in H. cbn [cur acts] in H. unfold base_of. cbn [acts cur].
  destruct l as [|a r]; cbn [Inv] in H; [lia|]. destruct a; intuition lia.
Qed.

Lemma good_init : good init.
Proof. unfold good, init. cbn. lia. Qed.

Ltac brk := match goal with
  | |- context [if ?b then _ else _] => destruct b eqn:?
  | H : context [if ?b then _ else _] |- _ => destruct b eqn:?
  end.

(* one step: keeps the invariant, and says what happened to the depth *)
Lemma step_good : forall limit st o st',
  good st -> enabled st o = true -> step limit st o = Ok st' -> good st'.
Proof.
  intros limit [[o f] l] op st' G En H. unfold good in *. cbn [cur acts] in *.
  pose proof (inv_nonneg _ _ G) as NN. cbn [outer frames] in NN.
  destruct op; unfold step, stepg in H; cbn [cur acts] in H.
  - (* OPush *)
    unfold push_frame, check_depth, depth in H. cbn [outer frames bind] in H. brk; cbn [bind] in H; [discriminate|].
    inversion H; subst; clear H. cbn [cur acts].
    eapply inv_frames; [exact G|]. pose proof (base_le_frames (mkst (mkctx o f) l) G). cbn [cur frames] in *. lia.
  - (* OPop *)
    unfold pop_frame in H. cbn [outer frames bind] in H. brk; cbn [bind] in H; [discriminate|].
    inversion H; subst; clear H. cbn [cur acts].
    eapply inv_frames; [exact G|]. unfold enabled in En. cbn [cur frames] in En. lia.
  - (* OMacro *)
    unfold macro_enter, push_frame, incr_depth, check_depth, depth in H. cbn [outer frames bind] in H.
    brk; cbn [bind outer frames] in H; [discriminate|]. brk; cbn [bind] in H; [discriminate|].
    inversion H; subst; clear H. cbn [cur acts Inv outer frames]. unfold depth, MACRO_RECURSION_COST. cbn [outer frames].
    repeat split; try lia. exact G.
  - (* OInclude *)
    unfold incr_depth, check_depth, depth, INCLUDE_RECURSION_COST in H. cbn [outer frames bind] in H.
    brk; cbn [bind] in H; [discriminate|]. inversion H; subst; clear H. cbn [cur acts Inv outer frames].
    split; [lia|]. replace (o + 10 - 10) with o by lia. exact G.
  - (* OBlock *)
    unfold push_frame, check_depth, depth, charge_depth, BLOCK_RECURSION_COST in H. cbn [outer frames bind] in H.
    brk; cbn [bind] in H; [discriminate|]. inversion H; subst; clear H. cbn [cur acts Inv outer frames].
    split; [lia|]. replace (o + 5 - 5) with o by lia. exact G.
  - (* OSuper *)
    unfold push_frame, check_depth, depth, charge_depth, BLOCK_RECURSION_COST in H. cbn [outer frames bind] in H.
    brk; cbn [bind] in H; [discriminate|]. inversion H; subst; clear H. cbn [cur acts Inv outer frames].
    split; [lia|]. replace (o + 5 - 5) with o by lia. replace (f + 1 - 1) with f by lia. exact G.
  - (* ORet *)
    destruct l as [|a r]; [discriminate En|]. destruct a as [sv|sd|sd|sd]; cbn [Inv outer frames] in G.
    + inversion H; subst; clear H. cbn [cur acts]. tauto.
    + destruct G as (G1 & G2). pose proof (inv_nonneg _ _ G2) as N2. cbn [outer frames] in N2.
      unfold restore_stack_depth, decr_depth, INCLUDE_RECURSION_COST in H. cbn [outer frames bind] in H.
      brk; cbn [bind outer frames] in H; [lia|]. brk; cbn [bind] in H; [lia|].
      inversion H; subst; clear H. cbn [cur acts]. exact G2.
    + destruct G as (G1 & G2). pose proof (inv_nonneg _ _ G2) as N2. cbn [outer frames] in N2.
      unfold restore_stack_depth, decr_depth, BLOCK_RECURSION_COST in H. cbn [outer frames bind] in H.
      brk; cbn [bind outer frames] in H; [lia|]. brk; cbn [bind] in H; [lia|].
      inversion H; subst; clear H. cbn [cur acts]. exact G2.
    + destruct G as (G1 & G2). pose proof (inv_nonneg _ _ G2) as N2. cbn [outer frames] in N2.
      unfold restore_stack_depth, decr_depth, pop_frame, BLOCK_RECURSION_COST in H. cbn [outer frames bind] in H.
      brk; cbn [bind outer frames] in H; [lia|]. brk; cbn [bind outer frames] in H; [lia|]. brk; cbn [bind] in H; [lia|].
      inversion H; subst; clear H. cbn [cur acts]. exact G2.
Qed.

(* an enabled step never traps: the bookkeeping never underflows, never pops a frame that is not there *)
Lemma step_no_panic : forall limit st o,
  good st -> enabled st o = true -> step limit st o <> Panic /\ step limit st o <> OutOfGas.
Proof.
  intros limit [[o f] l] op G En. unfold good in *. cbn [cur acts] in *.
  pose proof (inv_nonneg _ _ G) as NN. cbn [outer frames] in NN.
  destruct op; unfold step, stepg; cbn [cur acts].
  - unfold push_frame, check_depth. cbn [bind]. brk; cbn [bind]; split; discriminate.
  - unfold pop_frame. cbn [outer frames]. unfold enabled in En. cbn [cur frames] in En.
    pose proof (base_le_frames (mkst (mkctx o f) l) G) as B. cbn [cur frames] in B.
    assert (1 <= base_of (mkst (mkctx o f) l)).
    { unfold base_of. cbn [acts]. destruct l as [|a r]; [lia|]. cbn [Inv outer frames] in G.
      destruct a as [sv|sd|sd|sd]; try lia; destruct G as (G1 & G2); apply inv_nonneg in G2; cbn [outer frames] in G2; lia. }
    brk; cbn [bind]; [lia|]. split; discriminate.
  - unfold macro_enter, push_frame, incr_depth, check_depth. cbn [bind outer frames].
    brk; cbn [bind]; [split; discriminate|]. brk; cbn [bind]; split; discriminate.
  - unfold incr_depth, check_depth. cbn [bind]. brk; cbn [bind]; split; discriminate.
  - unfold push_frame, check_depth. cbn [bind]. brk; cbn [bind]; split; discriminate.
  - unfold push_frame, check_depth. cbn [bind]. brk; cbn [bind]; split; discriminate.
  - destruct l as [|a r]; [discriminate En|]. destruct a as [sv|sd|sd|sd]; cbn [Inv outer frames] in G.
    + split; discriminate.
    + destruct G as (G1 & G2). pose proof (inv_nonneg _ _ G2) as N2. cbn [outer frames] in N2.
      unfold restore_stack_depth, decr_depth, INCLUDE_RECURSION_COST. cbn [outer frames bind].
      brk; cbn [bind outer frames]; [lia|]. brk; cbn [bind]; [lia|]. split; discriminate.
    + destruct G as (G1 & G2). pose proof (inv_nonneg _ _ G2) as N2. cbn [outer frames] in N2.
      unfold restore_stack_depth, decr_depth, BLOCK_RECURSION_COST. cbn [outer frames bind].
      brk; cbn [bind outer frames]; [lia|]. brk; cbn [bind]; [lia|]. split; discriminate.
    + destruct G as (G1 & G2). pose proof (inv_nonneg _ _ G2) as N2. cbn [outer frames] in N2.
      unfold restore_stack_depth, decr_depth, pop_frame, BLOCK_RECURSION_COST. cbn [outer frames bind].
      brk; cbn [bind outer frames]; [lia|]. brk; cbn [bind outer frames]; [lia|]. brk; cbn [bind]; [lia|]. split; discriminate.
Qed.

(* what a successful step does to the depth *)
Definition descending (o : op) : bool := match o with OPop | ORet => false | _ => true end.

Definition op_need (o : op) : Z :=
  match o with OPush => 1 | OMacro => 6 | OInclude => 10 | OBlock => 1 | OSuper => 1 | _ => 0 end.
Definition op_charge (o : op) : Z :=
  match o with OPush => 1 | OMacro => 6 | OInclude => 10 | OBlock => 6 | OSuper => 6 | _ => 0 end.

(* a descending operation is a threshold test on the depth, followed by a fixed charge *)
Lemma step_descend : forall limit st o, good st -> descending o = true ->
  step limit st o =
    if depth (cur st) + op_need o <=? limit
    then step limit st o
    else Err E_InvalidOperation.
Proof.
  intros limit [[o f] l] op G D. unfold good in G. cbn [cur acts] in *.
  pose proof (inv_nonneg _ _ G) as NN. cbn [outer frames] in NN.
  brk; [reflexivity|].
  destruct op; try discriminate D; unfold step, stepg, op_need, depth in *; cbn [cur acts outer frames] in *.
  - unfold push_frame, check_depth, depth. cbn [outer frames bind]. brk; [reflexivity|lia].
  - unfold macro_enter, push_frame, incr_depth, check_depth, depth, MACRO_RECURSION_COST. cbn [outer frames bind].
    brk; cbn [bind outer frames]; [reflexivity|]. brk; [reflexivity|lia].
  - unfold incr_depth, check_depth, depth, INCLUDE_RECURSION_COST. cbn [outer frames bind]. brk; [reflexivity|lia].
  - unfold push_frame, check_depth, depth. cbn [outer frames bind]. brk; [reflexivity|lia].
  - unfold push_frame, check_depth, depth. cbn [outer frames bind]. brk; [reflexivity|lia].
Qed.

Lemma step_descend_ok : forall limit st o, good st -> descending o = true ->
  depth (cur st) + op_need o <= limit ->
  exists st', step limit st o = Ok st' /\ depth (cur st') = depth (cur st) + op_charge o /\
              lenZ (acts st') = lenZ (acts st) + (match o with OPush => 0 | _ => 1 end).
Proof.
  intros limit [[o f] l] op G D Hle. unfold good in G. cbn [cur acts] in *.
  pose proof (inv_nonneg _ _ G) as NN. cbn [outer frames] in NN.
  destruct op; try discriminate D; unfold step, stepg, op_need, op_charge, depth in *; cbn [cur acts outer frames] in *.
  - unfold push_frame, check_depth, depth. cbn [outer frames bind]. brk; [lia|]. cbn [bind].
    eexists; split; [reflexivity|]. cbn [cur acts outer frames]. lia.
  - unfold macro_enter, push_frame, incr_depth, check_depth, depth, MACRO_RECURSION_COST. cbn [outer frames bind].
    brk; cbn [bind outer frames]; [lia|]. brk; [lia|]. cbn [bind].
    eexists; split; [reflexivity|]. cbn [cur acts outer frames]. unfold lenZ. cbn [length]. lia.
  - unfold incr_depth, check_depth, depth, INCLUDE_RECURSION_COST. cbn [outer frames bind]. brk; [lia|]. cbn [bind].
    eexists; split; [reflexivity|]. cbn [cur acts outer frames]. unfold lenZ. cbn [length]. lia.
  - unfold push_frame, check_depth, depth, charge_depth, BLOCK_RECURSION_COST. cbn [outer frames bind]. brk; [lia|]. cbn [bind].
    eexists; split; [reflexivity|]. cbn [cur acts outer frames]. unfold lenZ. cbn [length]. lia.
  - unfold push_frame, check_depth, depth, charge_depth, BLOCK_RECURSION_COST. cbn [outer frames bind]. brk; [lia|]. cbn [bind].
    eexists; split; [reflexivity|]. cbn [cur acts outer frames]. unfold lenZ. cbn [length]. lia.
Qed.

(* popping a frame or returning never increases the depth *)
Lemma step_ascend : forall limit st o st', good st -> enabled st o = true -> descending o = false ->
  step limit st o = Ok st' -> depth (cur st') <= depth (cur st).
Proof.
  intros limit [[o f] l] op st' G En D H. unfold good in G. cbn [cur acts] in *.
  destruct op; try discriminate D; unfold step, stepg in H; cbn [cur acts] in H.
  - unfold pop_frame in H. cbn [outer frames bind] in H. brk; cbn [bind] in H; [discriminate|].
    inversion H; subst. unfold depth. cbn [cur outer frames]. lia.
  - destruct l as [|a r]; [discriminate En|]. destruct a as [sv|sd|sd|sd]; cbn [Inv outer frames] in G.
    + inversion H; subst; clear H. cbn [cur]. destruct G as (G1 & G2 & G3). unfold depth in *. cbn [outer frames]. lia.
    + destruct G as (G1 & G2). unfold restore_stack_depth, decr_depth, INCLUDE_RECURSION_COST in H. cbn [outer frames bind] in H.
      brk; cbn [bind outer frames] in H; [discriminate|]. brk; cbn [bind] in H; [discriminate|].
      inversion H; subst; clear H. unfold depth. cbn [cur outer frames]. lia.
    + destruct G as (G1 & G2). unfold restore_stack_depth, decr_depth, BLOCK_RECURSION_COST in H. cbn [outer frames bind] in H.
      brk; cbn [bind outer frames] in H; [discriminate|]. brk; cbn [bind] in H; [discriminate|].
      inversion H; subst; clear H. unfold depth. cbn [cur outer frames]. lia.
    + destruct G as (G1 & G2). unfold restore_stack_depth, decr_depth, pop_frame, BLOCK_RECURSION_COST in H. cbn [outer frames bind] in H.
      brk; cbn [bind outer frames] in H; [discriminate|]. brk; cbn [bind outer frames] in H; [discriminate|]. brk; cbn [bind] in H; [discriminate|].
      inversion H; subst; clear H. unfold depth. cbn [cur outer frames]. lia.
Qed.

Lemma reach_good : forall limit st, reach limit st -> good st.
Proof.
  induction 1; [apply good_init|]. eapply step_good; eauto.
Qed.

Lemma reach_depth : forall limit st, 0 <= limit -> reach limit st ->
  depth (cur st) <= limit + BLOCK_RECURSION_COST.
Proof.
  intros limit st Hl R. induction R as [|st o st' R IH En H].
  - unfold init, depth, BLOCK_RECURSION_COST. cbn. lia.
  - pose proof (reach_good _ _ R) as G. destruct (descending o) eqn:D.
    + rewrite step_descend in H by assumption. brk; [|discriminate].
      destruct (step_descend_ok limit st o G D) as (st2 & H2 & H3 & _); [lia|].
      rewrite H2 in H. inversion H; subst. rewrite H3. unfold BLOCK_RECURSION_COST.
      destruct o; try discriminate D; unfold op_need, op_charge in *; lia.
    + pose proof (step_ascend _ _ _ _ G En D H). lia.
Qed.

Lemma step_descend_inv : forall limit st o st', good st -> descending o = true ->
  step limit st o = Ok st' ->
  depth (cur st) + op_need o <= limit /\ depth (cur st') = depth (cur st) + op_charge o /\
  lenZ (acts st') = lenZ (acts st) + (match o with OPush => 0 | _ => 1 end).
Proof.
  intros limit st o st' G D H. rewrite step_descend in H by assumption. brk; [|discriminate].
  destruct (step_descend_ok limit st o G D) as (st2 & H2 & H3 & H4); [lia|].
  rewrite H2 in H. inversion H; subst. split; [lia|]. split; assumption.
Qed.

(* a checked admission: after PushWith/PushLoop, a macro call, an include the depth is within the limit
   itself; a block may exceed it by its charge only *)
Lemma admitted_depth : forall limit st o st', good st -> step limit st o = Ok st' ->
  match o with
  | OPush | OMacro | OInclude => depth (cur st') <= limit
  | OBlock | OSuper => depth (cur st) + 1 <= limit /\ depth (cur st') = depth (cur st) + 1 + BLOCK_RECURSION_COST
  | _ => True
  end.
Proof.
  intros limit st o st' G H. destruct o; try exact I;
    (destruct (fun D => step_descend_inv limit st _ st' G D H) as (H1 & H2 & _); [reflexivity|]);
    unfold op_need, op_charge, BLOCK_RECURSION_COST in *; lia.
Qed.

(* ------------------------------------------------------------------------------------------ *)
(* Part 2: sequences of operations                                                              *)

Lemma run_ops_cons : forall limit st o r,
  run_ops limit st (o :: r) = bind (step limit st o) (fun st' => run_ops limit st' r).
Proof. reflexivity. Qed.

Lemma run_ops_app : forall limit a b st,
  run_ops limit st (a ++ b) = bind (run_ops limit st a) (fun st' => run_ops limit st' b).
Proof.
  intros limit a; induction a as [|o r IH]; intros b st.
  - reflexivity.
  - rewrite <- app_comm_cons, !run_ops_cons. destruct (step limit st o); cbn [bind]; auto.
Qed.

Lemma descending_enabled : forall st o, descending o = true -> enabled st o = true.
Proof. intros st o; destruct o; cbn; congruence. Qed.

Lemma run_ops_reach : forall limit ops st st', reach limit st -> forallb descending ops = true ->
  run_ops limit st ops = Ok st' -> reach limit st'.
Proof.
  intros limit ops; induction ops as [|o r IH]; intros st st' R D H.
  - inversion H; subst; assumption.
  - cbn [forallb] in D. apply andb_prop in D as [D1 D2]. rewrite run_ops_cons in H.
    destruct (step limit st o) as [st1| | |] eqn:E; cbn [bind] in H; try discriminate.
    eapply IH; [|exact D2|exact H]. eapply reach_step; eauto using descending_enabled.
Qed.

Lemma descent_depth : forall limit ops st st', good st -> forallb descending ops = true ->
  run_ops limit st ops = Ok st' ->
  depth (cur st) + lenZ ops <= depth (cur st') /\ lenZ (acts st') <= lenZ (acts st) + lenZ ops.
Proof.
  intros limit ops; induction ops as [|o r IH]; intros st st' G D H.
  - inversion H; subst. unfold lenZ; cbn [length]. lia.
  - cbn [forallb] in D. apply andb_prop in D as [D1 D2]. rewrite run_ops_cons in H.
    destruct (step limit st o) as [st1| | |] eqn:E; cbn [bind] in H; try discriminate.
    destruct (step_descend_inv _ _ _ _ G D1 E) as (A1 & A2 & A3).
    assert (G1 : good st1) by (eapply step_good; eauto using descending_enabled).
    destruct (IH _ _ G1 D2 H) as (B1 & B2).
    unfold lenZ in *. cbn [length]. rewrite Nat2Z.inj_succ.
    assert (1 <= op_charge o) by (destruct o; try discriminate D1; cbn; lia).
    destruct o; try discriminate D1; lia.
Qed.

Lemma descent_outcome : forall limit ops st, good st -> forallb descending ops = true ->
  (exists st', run_ops limit st ops = Ok st') \/ run_ops limit st ops = Err E_InvalidOperation.
Proof.
  intros limit ops; induction ops as [|o r IH]; intros st G D.
  - left; eexists; reflexivity.
  - cbn [forallb] in D. apply andb_prop in D as [D1 D2]. rewrite run_ops_cons.
    rewrite step_descend by assumption. brk; [|right; reflexivity].
    destruct (step_descend_ok limit st o G D1) as (st1 & E & _); [lia|]. rewrite E. cbn [bind].
    apply IH; [|assumption]. eapply step_good; eauto using descending_enabled.
Qed.

(* unbounded descent is impossible: more than limit + 4 nested operations always end in the error *)
Lemma descent_errs_proof : forall limit ops st, 0 <= limit -> reach limit st -> forallb descending ops = true ->
  limit + BLOCK_RECURSION_COST - depth (cur st) < lenZ ops ->
  run_ops limit st ops = Err E_InvalidOperation.
Proof.
  intros limit ops st Hl R D Hlen.
  destruct (descent_outcome limit ops st (reach_good _ _ R) D) as [(st' & H)|H]; [|exact H].
  exfalso. pose proof (descent_depth _ _ _ _ (reach_good _ _ R) D H) as (A & _).
  pose proof (reach_depth _ _ Hl (run_ops_reach _ _ _ _ R D H)). lia.
Qed.

Lemma descent_bounded_proof : forall limit ops st st', 0 <= limit -> reach limit st -> forallb descending ops = true ->
  run_ops limit st ops = Ok st' ->
  depth (cur st) + lenZ ops <= depth (cur st') /\ depth (cur st') <= limit + BLOCK_RECURSION_COST.
Proof.
  intros limit ops st st' Hl R D H. split.
  - apply (descent_depth _ _ _ _ (reach_good _ _ R) D H).
  - apply reach_depth; [assumption|]. eapply run_ops_reach; eauto.
Qed.

(* the statements about every reachable state *)
Lemma nesting_le_depth_proof : forall limit st, 0 <= limit -> reach limit st ->
  nesting st <= depth (cur st) /\ depth (cur st) <= limit + BLOCK_RECURSION_COST.
Proof.
  intros limit st Hl R. split; [|apply reach_depth; assumption].
  pose proof (inv_weight _ _ (reach_good _ _ R)). pose proof (wsum_len (acts st)).
  unfold nesting. assert (0 <= lenZ (acts st)) by (unfold lenZ; lia). lia.
Qed.

Lemma weighted_nesting_proof : forall limit st, 0 <= limit -> reach limit st ->
  1 + wsum (acts st) <= depth (cur st) /\ depth (cur st) <= limit + BLOCK_RECURSION_COST.
Proof.
  intros limit st Hl R. split; [apply inv_weight, (reach_good _ _ R)|apply reach_depth; assumption].
Qed.

Lemma nesting_bound_proof : forall limit st, 0 <= limit -> reach limit st -> nesting st <= max_nesting limit.
Proof.
  intros limit st Hl R. destruct (weighted_nesting_proof _ _ Hl R) as (A & B).
  pose proof (wsum_len (acts st)). unfold nesting, max_nesting, ACTIVATION_CHARGE, BLOCK_RECURSION_COST in *.
  assert (lenZ (acts st) <= (limit + 4) / 6); [|lia].
  apply Z.div_le_lower_bound; lia.
Qed.

Lemma stack_fits_proof : forall level st B reserve,
  reach (set_recursion_limit level) st -> 0 <= level ->
  0 <= B <= FRAME_BYTES_DEBUG -> reserve <= RESERVE_BYTES ->
  stack_fits STACK_2MIB reserve B (nesting st).
Proof.
  intros level st B reserve R Hl HB Hr.
  assert (L0 : 0 <= set_recursion_limit level) by (unfold set_recursion_limit, MAX_RECURSION; lia).
  pose proof (nesting_bound_proof _ _ L0 R) as N.
  assert (max_nesting (set_recursion_limit level) <= 85).
  { unfold max_nesting, ACTIVATION_CHARGE, set_recursion_limit, MAX_RECURSION.
    assert ((Z.min level 500 + 4) / 6 <= 84); [|lia]. apply Z.div_le_upper_bound; lia. }
  unfold stack_fits, STACK_2MIB, FRAME_BYTES_DEBUG, RESERVE_BYTES in *.
  assert (0 <= nesting st) by (unfold nesting, lenZ; lia). nia.
Qed.

(* the code before the fix (a block charged nothing beyond its frame): 500 nested activations at limit 500 *)
Lemma old_accounting_refuted_proof :
  exists st, run_opsg 0 500 init (repeat OBlock 499) = Ok st /\ nesting st = 500 /\ depth (cur st) = 500 /\
             ~ nesting st <= max_nesting 500 /\ ~ stack_fits STACK_2MIB 0 13264 (nesting st).
Proof.
  eexists. split; [vm_compute; reflexivity|]. vm_compute. repeat split; intros H; apply H; reflexivity.
Qed.

(* ------------------------------------------------------------------------------------------ *)
(* Part 3: recursive programs                                                                   *)

Lemma op_of_descending : forall k, descending (op_of k) = true.
Proof. destruct k; reflexivity. Qed.
Lemma op_of_need : forall k, op_need (op_of k) = need k.
Proof. destruct k; reflexivity. Qed.
Lemma op_of_charge : forall k, op_charge (op_of k) = charge k.
Proof. destruct k; reflexivity. Qed.

Lemma call_ok : forall limit st k, good st -> depth (cur st) + need k <= limit ->
  exists st', step limit st (op_of k) = Ok st' /\ depth (cur st') = depth (cur st) + charge k /\ good st'.
Proof.
  intros limit st k G H. destruct (step_descend_ok limit st (op_of k) G (op_of_descending k)) as (st' & E & D & _).
  - rewrite op_of_need; lia.
  - exists st'. rewrite op_of_charge in D. repeat split; try assumption.
    eapply step_good; eauto using descending_enabled, op_of_descending.
Qed.

Lemma call_err : forall limit st k, good st -> limit < depth (cur st) + need k ->
  step limit st (op_of k) = Err E_InvalidOperation.
Proof.
  intros limit st k G H. rewrite step_descend by auto using op_of_descending.
  rewrite op_of_need. brk; [lia|reflexivity].
Qed.

(* returning (or popping) undoes exactly what the call did *)
Lemma call_undo : forall limit st k st1, good st -> step limit st (op_of k) = Ok st1 ->
  step limit st1 (undo_of k) = Ok st.
Proof.
  intros limit [[o f] l] k st1 G H. unfold good in G. cbn [cur acts] in G.
  pose proof (inv_nonneg _ _ G) as NN. cbn [outer frames] in NN.
  destruct k; unfold step, stepg, op_of, undo_of in *; cbn [cur acts] in *.
  - unfold push_frame, check_depth, depth in H. cbn [outer frames bind] in H. brk; cbn [bind] in H; [discriminate|].
    inversion H; subst; clear H. cbn [cur acts]. unfold pop_frame. cbn [outer frames]. brk; [lia|]. cbn [bind].
    replace (f + 1 - 1) with f by lia. reflexivity.
  - unfold macro_enter, push_frame, incr_depth, check_depth, depth in H. cbn [outer frames bind] in H.
    brk; cbn [bind outer frames] in H; [discriminate|]. brk; cbn [bind] in H; [discriminate|].
    inversion H; subst; clear H. reflexivity.
  - unfold incr_depth, check_depth, depth, INCLUDE_RECURSION_COST in H. cbn [outer frames bind] in H.
    brk; cbn [bind] in H; [discriminate|]. inversion H; subst; clear H. cbn [cur acts].
    unfold restore_stack_depth, decr_depth, INCLUDE_RECURSION_COST. cbn [outer frames bind].
    brk; [lia|]. cbn [bind outer frames]. brk; [lia|]. cbn [bind]. replace (o + 10 - 10) with o by lia. reflexivity.
  - unfold push_frame, check_depth, depth, charge_depth, BLOCK_RECURSION_COST in H. cbn [outer frames bind] in H.
    brk; cbn [bind] in H; [discriminate|]. inversion H; subst; clear H. cbn [cur acts].
    unfold restore_stack_depth, decr_depth, BLOCK_RECURSION_COST. cbn [outer frames bind].
    brk; [lia|]. cbn [bind outer frames]. brk; [lia|]. cbn [bind]. replace (o + 5 - 5) with o by lia. reflexivity.
  - unfold push_frame, check_depth, depth, charge_depth, BLOCK_RECURSION_COST in H. cbn [outer frames bind] in H.
    brk; cbn [bind] in H; [discriminate|]. inversion H; subst; clear H. cbn [cur acts].
    unfold restore_stack_depth, decr_depth, pop_frame, BLOCK_RECURSION_COST. cbn [outer frames bind].
    brk; [lia|]. cbn [bind outer frames]. brk; [lia|]. cbn [bind outer frames]. brk; [lia|]. cbn [bind].
    replace (o + 5 - 5) with o by lia. replace (f + 1 - 1) with f by lia. reflexivity.
Qed.

(* a descent: which depths it needs *)
Fixpoint desc_ok (L D : Z) (ks : list kind) : bool :=
  match ks with [] => true | k :: r => (D + need k <=? L) && desc_ok L (D + charge k) r end.

Lemma desc_ok_peak : forall ks L D, ks <> [] -> desc_ok L D ks = (D + peak ks <=? L).
Proof.
  induction ks as [|k r IH]; intros L D Hne; [congruence|].
  destruct r as [|k2 r2].
  - cbn [desc_ok peak]. rewrite andb_true_r. reflexivity.
  - change (desc_ok L D (k :: k2 :: r2)) with ((D + need k <=? L) && desc_ok L (D + charge k) (k2 :: r2)).
    rewrite IH by congruence.
    change (peak (k :: k2 :: r2)) with (Z.max (need k) (charge k + peak (k2 :: r2))).
    destruct (D + need k <=? L) eqn:E1; destruct (D + charge k + peak (k2 :: r2) <=? L) eqn:E2; cbn [andb]; lia.
Qed.

Lemma descent_run : forall limit ks st, good st ->
  if desc_ok limit (depth (cur st)) ks
  then exists st', run_ops limit st (map op_of ks) = Ok st' /\ run_ops limit st' (rev (map undo_of ks)) = Ok st
  else run_ops limit st (map op_of ks) = Err E_InvalidOperation.
Proof.
  intros limit ks; induction ks as [|k r IH]; intros st G.
  - cbn [desc_ok map rev]. exists st. split; reflexivity.
  - cbn [desc_ok map]. destruct (depth (cur st) + need k <=? limit) eqn:E; cbn [andb].
    + destruct (call_ok limit st k G) as (st1 & S1 & D1 & G1); [lia|].
      specialize (IH st1 G1). rewrite D1 in IH. rewrite run_ops_cons, S1. cbn [bind].
      destruct (desc_ok limit (depth (cur st) + charge k) r).
      * destruct IH as (st2 & R1 & R2). exists st2. split; [exact R1|].
        cbn [rev]. rewrite run_ops_app, R2. cbn [bind]. rewrite run_ops_cons.
        rewrite (call_undo _ _ _ _ G S1). reflexivity.
      * exact IH.
    + rewrite run_ops_cons, call_err by (auto; lia). reflexivity.
Qed.

(* non-recursive work either runs and gives everything back, or is refused *)
Lemma work_restores : forall limit st ks, good st ->
  exec_item limit st (Work ks) = Ok st \/ exec_item limit st (Work ks) = Err E_InvalidOperation.
Proof.
  intros limit st ks G. pose proof (descent_run limit ks st G) as D. unfold exec_item.
  destruct (desc_ok limit (depth (cur st)) ks).
  - destruct D as (st' & R1 & R2). left. rewrite R1. cbn [bind]. exact R2.
  - right. rewrite D. reflexivity.
Qed.

(* ... so a nested render whose refusal is swallowed leaves the accounting exactly where it was *)
Lemma try_noop : forall limit st ks, good st -> exec_try limit st ks = Ok st.
Proof.
  intros limit st ks G. unfold exec_try. destruct (work_restores limit st ks G) as [E|E]; rewrite E; reflexivity.
Qed.

Lemma exec_item_spec : forall limit st i, good st ->
  if admitted limit (depth (cur st)) i
  then exists st', exec_item limit st i = Ok st' /\ depth (cur st') = depth (cur st) + gain i /\ good st'
  else exec_item limit st i = Err E_InvalidOperation.
Proof.
  intros limit st i G. destruct i as [|k|ks]; unfold admitted, demand, gain.
  - exists st. cbn [exec_item]. repeat split; auto; lia.
  - destruct (depth (cur st) + need k <=? limit) eqn:E.
    + destruct (call_ok limit st k G) as (st1 & S1 & D1 & G1); [lia|]. exists st1. cbn [exec_item]. auto.
    + cbn [exec_item]. apply call_err; auto; lia.
  - destruct ks as [|k r].
    + exists st. cbn [exec_item map rev run_ops run_opsg bind]. repeat split; auto; lia.
    + rewrite <- desc_ok_peak by congruence. pose proof (descent_run limit (k :: r) st G) as H.
      destruct (desc_ok limit (depth (cur st)) (k :: r)).
      * destruct H as (st' & R1 & R2). exists st. unfold exec_item. rewrite R1. cbn [bind]. rewrite R2.
        repeat split; auto; lia.
      * unfold exec_item. rewrite H. reflexivity.
Qed.

Lemma run_items_pass : forall limit l st n, good st ->
  match pass limit (depth (cur st)) n l with
  | (D', n', true) => exists st', run_items limit st n l = (n', Ok st') /\ depth (cur st') = D' /\ good st'
  | (_, n', false) => run_items limit st n l = (n', Err E_InvalidOperation)
  end.
Proof.
  intros limit l; induction l as [|i r IH]; intros st n G.
  - cbn [pass run_items]. exists st. auto.
  - cbn [pass run_items]. pose proof (exec_item_spec limit st i G) as H.
    destruct (admitted limit (depth (cur st)) i).
    + destruct H as (st1 & E1 & D1 & G1). rewrite E1. specialize (IH st1 (n + is_probe i) G1).
      rewrite D1 in IH. exact IH.
    + rewrite H. reflexivity.
Qed.

(* one period, by its summary *)
Lemma pass_complete : forall l L D n,
  match top l with None => True | Some m => D + m <= L end ->
  pass L D n l = (D + weight l, n + probes l, true).
Proof.
  induction l as [|i r IH]; intros L D n H.
  - cbn [pass weight probes]. f_equal. f_equal; lia.
  - cbn [pass weight probes top] in *. unfold admitted.
    assert (A : match demand i with None => True | Some x => D + x <= L end).
    { destruct (demand i); [|exact I]. destruct (top r); cbn [option_map omax] in H; lia. }
    assert (B : match top r with None => True | Some m => D + gain i + m <= L end).
    { destruct (top r); [|exact I]. destruct (demand i); cbn [option_map omax] in H; lia. }
    destruct (demand i) as [x|].
    + destruct (D + x <=? L) eqn:E; [|lia]. rewrite IH by exact B. f_equal. f_equal; lia.
    + rewrite IH by exact B. f_equal. f_equal; lia.
Qed.

Lemma pass_incomplete : forall l L D n m, top l = Some m -> L < D + m ->
  exists D' n', pass L D n l = (D', n', false).
Proof.
  induction l as [|i r IH]; intros L D n m H Hlt.
  - discriminate H.
  - cbn [pass top] in *. unfold admitted. destruct (demand i) as [x|] eqn:Ed.
    + destruct (D + x <=? L) eqn:E; [|eauto].
      destruct (top r) as [y|] eqn:Et; cbn [option_map omax] in H; inversion H; subst; clear H.
      * eapply IH; [reflexivity|lia].
      * lia.
    + destruct (top r) as [y|] eqn:Et; cbn [option_map omax] in H; inversion H; subst; clear H.
      eapply IH; [reflexivity|lia].
Qed.

Lemma top_pos : forall l m, top l = Some m -> (forall i, In i l -> 0 <= gain i) -> 1 <= m.
Proof.
  induction l as [|i r IH]; intros m H Hg; [discriminate|].
  cbn [top] in H.
  assert (Hd : forall x, demand i = Some x -> 1 <= x).
  { intros x Hx. destruct i as [|k|ks]; cbn [demand] in Hx.
    - discriminate.
    - inversion Hx; destruct k; cbn; lia.
    - destruct ks as [|k r2]; [discriminate|]. inversion Hx; subst. clear.
      revert k. induction r2 as [|k2 r3 IH2]; intros k.
      + cbn. destruct k; cbn; lia.
      + change (peak (k :: k2 :: r3)) with (Z.max (need k) (charge k + peak (k2 :: r3))).
        specialize (IH2 k2). destruct k; cbn [need charge]; lia. }
  assert (0 <= gain i) by (apply Hg; left; reflexivity).
  destruct (demand i) as [x|] eqn:Ed; destruct (top r) as [y|] eqn:Et; cbn [option_map omax] in H; inversion H; subst.
  - specialize (Hd x eq_refl). lia.
  - apply Hd; reflexivity.
  - assert (1 <= y) by (apply (IH y eq_refl); intros; apply Hg; right; assumption). lia.
Qed.

Lemma gain_nonneg : forall i, 0 <= gain i.
Proof. destruct i as [|k|ks]; cbn; try lia. destruct k; cbn; lia. Qed.

Lemma periods_nonneg : forall L D cyc, 1 <= weight cyc -> 0 <= periods L D cyc.
Proof.
  intros L D cyc W. unfold periods. destruct (top cyc) as [m|]; [|lia].
  destruct (L <? D + m) eqn:E; [lia|]. assert (0 <= (L - D - m) / weight cyc) by (apply Z.div_pos; lia). lia.
Qed.

Lemma periods_step : forall L D cyc m, 1 <= weight cyc -> top cyc = Some m -> D + m <= L ->
  periods L (D + weight cyc) cyc = periods L D cyc - 1.
Proof.
  intros L D cyc m W T H. unfold periods. rewrite T.
  destruct (L <? D + m) eqn:E1; [lia|].
  remember (weight cyc) as w. remember (L - D - m) as x.
  destruct (L <? D + w + m) eqn:E2.
  - assert (x / w = 0) by (apply Z.div_small; lia). lia.
  - replace (L - (D + w) - m) with (x + (-1) * w) by lia.
    rewrite Z.div_add by lia. lia.
Qed.

Lemma run_cyc_closed : forall gas limit cyc m st n,
  1 <= weight cyc -> top cyc = Some m -> good st ->
  periods limit (depth (cur st)) cyc < Z.of_nat gas ->
  let q := periods limit (depth (cur st)) cyc in
  run_cyc gas limit st n cyc =
    (snd (fst (pass limit (depth (cur st) + q * weight cyc) (n + q * probes cyc) cyc)), Err E_InvalidOperation).
Proof.
  induction gas as [|g IH]; intros limit cyc m st n W T G Hq q.
  - pose proof (periods_nonneg limit (depth (cur st)) cyc W). lia.
  - cbn [run_cyc]. pose proof (run_items_pass limit cyc st n G) as RP.
    destruct (limit <? depth (cur st) + m) eqn:E.
    + (* the period is refused at once *)
      assert (q = 0) by (subst q; unfold periods; rewrite T, E; reflexivity).
      destruct (pass_incomplete cyc limit (depth (cur st)) n m T) as (D' & n' & P); [lia|].
      rewrite P in RP. rewrite RP. rewrite H.
      replace (depth (cur st) + 0 * weight cyc) with (depth (cur st)) by lia.
      replace (n + 0 * probes cyc) with n by lia. rewrite P. reflexivity.
    + pose proof (pass_complete cyc limit (depth (cur st)) n) as P. rewrite T in P. specialize (P ltac:(lia)).
      rewrite P in RP. destruct RP as (st' & R & D' & G'). rewrite R.
      pose proof (periods_step limit (depth (cur st)) cyc m W T ltac:(lia)) as PS.
      specialize (IH limit cyc m st' (n + probes cyc) W T G').
      rewrite D' in IH. rewrite PS in IH. fold q in IH. specialize (IH ltac:(lia)). cbn zeta in IH.
      rewrite IH.
      replace (depth (cur st) + weight cyc + (q - 1) * weight cyc) with (depth (cur st) + q * weight cyc) by lia.
      replace (n + probes cyc + (q - 1) * probes cyc) with (n + q * probes cyc) by lia. reflexivity.
Qed.

Lemma div_le_self : forall x w, 0 <= x -> 1 <= w -> x / w <= x.
Proof. intros x w Hx Hw. apply Z.div_le_upper_bound; nia. Qed.

(* levels_reached: the machine, run on "lead-in, then the cycle for ever", stops with the recursion error
   (never out of gas, never a trap) exactly at the level the closed form gives *)
Lemma levels_reached_proof : forall level pre cyc, 0 <= level -> recursive cyc ->
  levels level pre cyc = (spec_levels (set_recursion_limit level) pre cyc, Err E_InvalidOperation).
Proof.
  intros level pre cyc Hl (W & T). unfold levels, spec_levels.
  assert (HL : 0 <= set_recursion_limit level <= 500) by (unfold set_recursion_limit, MAX_RECURSION; lia).
  remember (set_recursion_limit level) as L.
  pose proof (run_items_pass L pre init 0 good_init) as RP. change (depth (cur init)) with 1 in RP.
  destruct (pass L 1 0 pre) as [[D1 n1] [|]].
  - destruct RP as (st & R & Dst & G). rewrite R.
    destruct (top cyc) as [m|] eqn:Tm; [|congruence].
    rewrite (run_cyc_closed GAS L cyc m st n1 W Tm G).
    + rewrite Dst. destruct (pass L (D1 + periods L D1 cyc * weight cyc) (n1 + periods L D1 cyc * probes cyc) cyc) as [[? ?] ?].
      reflexivity.
    + pose proof (inv_nonneg _ _ G) as NN. assert (1 <= depth (cur st)) by (unfold depth; lia).
      pose proof (top_pos cyc m Tm (fun i _ => gain_nonneg i)).
      unfold periods. rewrite Tm. unfold GAS.
      destruct (L <? depth (cur st) + m) eqn:E; [lia|].
      pose proof (div_le_self (L - depth (cur st) - m) (weight cyc) ltac:(lia) W). lia.
  - rewrite RP. reflexivity.
Qed.

(* closed forms for the five pure recursions, any limit *)
Ltac Zify.zify_post_hook ::= Z.div_mod_to_equations.

Ltac closed_form :=
  intros; unfold spec_levels, periods;
  cbn [pass admitted demand gain need charge peak is_probe weight probes top omax option_map];
  repeat (match goal with |- context [if ?b then _ else _] => destruct b eqn:? end; cbv beta iota);
  lia.

(* {% macro m() %}{{ m() }}{% endmacro %}{{ m() }} *)
Lemma spec_macro : forall L, 1 <= L -> spec_levels L [Call KMacro] [Probe; Call KMacro] = (L - 1) / 6.
Proof. closed_form. Qed.
(* a template that includes itself *)
Lemma spec_include : forall L, 1 <= L -> spec_levels L [] [Probe; Call KInclude] = (L - 1) / 10 + 1.
Proof. closed_form. Qed.
(* a template that imports itself: PushWith, then the include *)
Lemma spec_import : forall L, 1 <= L -> spec_levels L [] [Probe; Call KPush; Call KInclude] = (L - 1) / 11 + 1.
Proof. closed_form. Qed.
(* {% block b %}{{ self.b() }}{% endblock %} *)
Lemma spec_block : forall L, 1 <= L -> spec_levels L [Call KBlock] [Probe; Call KBlock] = (L + 4) / 6.
Proof. closed_form. Qed.
(* a chain of templates whose block b calls super() *)
Lemma spec_super : forall L, 1 <= L -> spec_levels L [Call KBlock] [Probe; Call KSuper] = (L + 4) / 6.
Proof. closed_form. Qed.
(* {% for x in tree recursive %}{{ loop(x) }}{% endfor %}: no nested activation at all *)
Lemma spec_loop : forall L, 1 <= L -> spec_levels L [Call KPush] [Probe; Call KPush] = L - 1.
Proof. closed_form. Qed.
(* {% macro m() %}{% call w() %}{{ m() }}{% endcall %}{% endmacro %}: three macro activations per level *)
Lemma spec_callwrap : forall L, 1 <= L ->
  spec_levels L [Call KMacro] [Probe; Call KMacro; Call KMacro; Call KMacro] = (L + 11) / 18.
Proof. closed_form. Qed.

(* the closed forms, for the machine *)
Lemma recursive_intro : forall cyc, (1 <=? weight cyc) = true -> (match top cyc with None => false | Some _ => true end) = true ->
  recursive cyc.
Proof. intros cyc H1 H2. split; [lia|]. destruct (top cyc); [discriminate|discriminate H2]. Qed.

Lemma levels_kind : forall level pre cyc v, 1 <= level -> recursive cyc ->
  (forall L, 1 <= L -> spec_levels L pre cyc = v L) ->
  levels level pre cyc = (v (set_recursion_limit level), Err E_InvalidOperation).
Proof.
  intros level pre cyc v Hl R Hv. rewrite levels_reached_proof by (auto; lia).
  rewrite Hv; [reflexivity|]. unfold set_recursion_limit, MAX_RECURSION. lia.
Qed.

(* a reachable state with several kinds of activation open (non-vacuity of the invariants) *)
Lemma reach_example :
  exists st, reach 500 st /\ nesting st = 5 /\ depth (cur st) = 31 /\ wsum (acts st) = 28.
Proof.
  destruct (run_ops 500 init [OMacro; OPush; OInclude; OBlock; OPush; OSuper]) as [st| | |] eqn:E; try (vm_compute in E; discriminate).
  exists st. split.
  - eapply run_ops_reach; [apply reach_init| |exact E]. reflexivity.
  - vm_compute in E. inversion E; subst. vm_compute. repeat split.
Qed.
