(* Executable entry points of the C11 model in the integer-list protocol.  Unverified glue.
   input :  level  npre item*  ncyc item*
   item  :  0 (Probe) | 1 k (Call k) | 2 n k1..kn (Work [k1..kn]);  k: 1 Push 2 Macro 3 Include 4 Block 5 Super
   output:  1 <ErrorKind> <levels>   the render failed after <levels> levels
            0 <levels> | 2 <levels> (Panic) | 8 <levels> (OutOfGas) | 9 (bad input) | 7 (spec: not a recursion) *)
From Coq Require Import String.
From MJ Require Import Common.Base.
From MJ Require Import C11.Model C11.Spec.

Definition kind_of (z : Z) : kind :=
  match z with 1 => KPush | 2 => KMacro | 3 => KInclude | 4 => KBlock | _ => KSuper end.

Fixpoint take_kinds (fuel : nat) (n : Z) (l : list Z) : list kind * list Z :=
  match fuel with
  | O => ([], l)
  | S f => if n <=? 0 then ([], l) else
           match l with
           | [] => ([], [])
           | k :: r => let '(ks, rest) := take_kinds f (n - 1) r in (kind_of k :: ks, rest)
           end
  end.

Fixpoint take_items (fuel : nat) (n : Z) (l : list Z) : list item * list Z :=
  match fuel with
  | O => ([], l)
  | S f => if n <=? 0 then ([], l) else
           match l with
           | 0 :: r => let '(is, rest) := take_items f (n - 1) r in (Probe :: is, rest)
           | 1 :: k :: r => let '(is, rest) := take_items f (n - 1) r in (Call (kind_of k) :: is, rest)
           | 2 :: m :: r => let '(ks, r') := take_kinds f m r in
                            let '(is, rest) := take_items f (n - 1) r' in (Work ks :: is, rest)
           | _ => ([], [])
           end
  end.

Definition decode (inp : list Z) : option (Z * list item * list item) :=
  match inp with
  | level :: npre :: r =>
      let fuel := S (length r) in
      let '(pre, r1) := take_items fuel npre r in
      match r1 with
      | ncyc :: r2 => let '(cyc, _) := take_items fuel ncyc r2 in Some (level, pre, cyc)
      | [] => None
      end
  | _ => None
  end.

Definition run (inp : list Z) : list Z :=
  match decode inp with
  | Some (level, pre, cyc) =>
      match levels level pre cyc with
      | (n, Ok _) => [0; n]
      | (n, Err c) => [1; c; n]
      | (n, Panic) => [2; n]
      | (n, OutOfGas) => [8; n]
      end
  | None => [9]
  end.

Definition recursiveb (cyc : list item) : bool :=
  (1 <=? weight cyc) && match top cyc with None => false | Some _ => true end.

Definition spec (inp : list Z) : list Z :=
  match decode inp with
  | Some (level, pre, cyc) =>
      if recursiveb cyc then [1; E_InvalidOperation; spec_levels (Z.min level 500) pre cyc] else [7]
  | None => [9]
  end.

(* the accounting before the fix (block cost 0): number of OBlock edges admitted one inside the
   other under limit [level]; input: level n *)
Definition old_blocks (inp : list Z) : list Z :=
  match inp with
  | level :: n :: _ =>
      match run_opsg 0 (set_recursion_limit level) init (repeat OBlock (Z.to_nat (Z.min n 600))) with
      | Ok st => [0; nesting st; depth (cur st)]
      | Err c => [1; c]
      | Panic => [2]
      | OutOfGas => [8]
      end
  | _ => [9]
  end.

Open Scope string_scope.
Definition runners : list (string * (list Z -> list Z)) :=
  [ ("c11", run); ("c11-spec", spec); ("c11-old-blocks", old_blocks) ].
