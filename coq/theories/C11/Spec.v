(* C11 specification, written from the property text and the documentation of
   Environment::set_recursion_limit ("every operation that requires recursion increments an
   internal recursion counter; the actual cost attributed to that recursion depends on the cost of
   the operation"), not from the VM.

   Two parts.
   (1) Arithmetic of the limit.  Every construct has a price list: [need] units must be free for it
       to be admitted, [charge] units are taken while it is open.  A recursion is then a periodic
       sequence of admissions and [spec_levels] says, in closed form (one division, one pass over a
       single period), after how many levels the first refusal comes.
   (2) What the limit is for.  A nested interpreter activation occupies native stack; the limit
       protects the stack only if every activation is charged at least [ACTIVATION_CHARGE] units, so
       that at most [max_nesting limit] of them exist; [stack_fits] is the resulting budget.

   No proofs in this file. *)
From MJ Require Import Common.Base C11.Model.

(* price list (units of recursion depth) *)
Definition need (k : kind) : Z :=
  match k with KPush => 1 | KMacro => 6 | KInclude => 10 | KBlock => 1 | KSuper => 1 end.
Definition charge (k : kind) : Z :=
  match k with KPush => 1 | KMacro => 6 | KInclude => 10 | KBlock => 6 | KSuper => 6 end.
(* does the construct nest an interpreter activation on the native stack? *)
Definition native (k : kind) : Z := match k with KPush => 0 | _ => 1 end.

(* free units a descent needs at its start: max over its steps of (charges before + need) *)
Fixpoint peak (ks : list kind) : Z :=
  match ks with
  | [] => 0
  | k :: r => match r with [] => need k | _ => Z.max (need k) (charge k + peak r) end
  end.

Definition demand (i : item) : option Z :=
  match i with
  | Probe => None
  | Call k => Some (need k)
  | Work [] => None
  | Work ks => Some (peak ks)
  end.
Definition gain (i : item) : Z := match i with Call k => charge k | _ => 0 end.

Definition admitted (L D : Z) (i : item) : bool :=
  match demand i with None => true | Some n => D + n <=? L end.

(* one pass from depth D with n levels counted so far: final depth, levels, completed? *)
Fixpoint pass (L D n : Z) (l : list item) : Z * Z * bool :=
  match l with
  | [] => (D, n, true)
  | i :: r => if admitted L D i then pass L (D + gain i) (n + is_probe i) r else (D, n, false)
  end.

(* summary of one period: what it takes (W), how many levels it counts (P), what it needs (top) *)
Fixpoint weight (l : list item) : Z := match l with [] => 0 | i :: r => gain i + weight r end.
Fixpoint probes (l : list item) : Z := match l with [] => 0 | i :: r => is_probe i + probes r end.
Definition omax (a b : option Z) : option Z :=
  match a, b with
  | None, x => x
  | x, None => x
  | Some x, Some y => Some (Z.max x y)
  end.
Fixpoint top (l : list item) : option Z :=
  match l with
  | [] => None
  | i :: r => omax (demand i) (option_map (Z.add (gain i)) (top r))
  end.

(* number of complete periods admitted from depth D *)
Definition periods (L D : Z) (cyc : list item) : Z :=
  match top cyc with
  | None => 0
  | Some m => if L <? D + m then 0 else (L - D - m) / weight cyc + 1
  end.

(* levels reached by "lead-in, then the cycle for ever" under limit L, starting at depth 1 *)
Definition spec_levels (L : Z) (pre cyc : list item) : Z :=
  match pass L 1 0 pre with
  | (D1, n1, true) =>
      let q := periods L D1 cyc in
      match pass L (D1 + q * weight cyc) (n1 + q * probes cyc) cyc with (_, n2, _) => n2 end
  | (_, n1, false) => n1
  end.

(* a program that really recurses: every period takes something and asks for something *)
Definition recursive (cyc : list item) : Prop := 1 <= weight cyc /\ top cyc <> None.

(* what an open activation has been charged *)
Definition cost (a : act) : Z :=
  match a with AMacro _ => 6 | AInclude _ => 10 | ABlock _ => 6 | ASuper _ => 6 end.
Fixpoint wsum (l : list act) : Z := match l with [] => 0 | a :: r => cost a + wsum r end.

(* (2) the stack budget *)
Definition ACTIVATION_CHARGE : Z := 6.
Definition max_nesting (limit : Z) : Z := 1 + (limit + 4) / ACTIVATION_CHARGE.
(* [B] bytes per nested activation (its eval_impl frame and what lies between two of them),
   [reserve] bytes for everything else on the thread *)
Definition stack_fits (stack reserve B nesting : Z) : Prop := reserve + B * nesting <= stack.

Definition STACK_2MIB : Z := 2 * 1024 * 1024.
(* the calibration the measured part of the check re-establishes on every run *)
Definition FRAME_BYTES_DEBUG : Z := 20480.
Definition RESERVE_BYTES : Z := 256 * 1024.
