(* C12 - the model is the reference interpreter Lang/Interp.v (parametric in [c_mode]); this file
   adds what the property talks about: the order of the four undefined behaviours, the
   "only adds errors" relation on outcomes, the two mode checks that Interp.v has inline (print and
   iterate) as functions of their own, and the probe programs of the documented matrix.
   No proofs in this file. *)
From MJ Require Import Common.Base Lang.Syntax Lang.Meta Lang.Interp.

(* Strict [=] SemiStrict [=] Lenient [=] Chainable *)
Definition rank (m : ubehav) : nat :=
  match m with Strict => 0 | SemiStrict => 1 | Lenient => 2 | Chainable => 3 end%nat.

(* [weaker m1 m2]: m2 is at least as permissive as m1 *)
Definition weaker (m1 m2 : ubehav) : bool := Nat.leb (rank m1) (rank m2).

(* [le a b]: whatever [a] computes successfully, [b] computes too, with the same result
   ([b] "only removes errors") *)
Definition le {A} (a b : outcome A) : Prop := forall r, a = Ok r -> b = Ok r.

(* environment.rs::format - the check in front of every print (Interp.exec, SEmit) *)
Definition emit_check (m : ubehav) (v : value) : outcome unit :=
  if u_strictish m && is_strict_undef v then Err E_UndefinedError else Ok tt.

(* utils.rs::try_iter as used by vm/mod.rs::push_loop (Interp.exec, SFor) *)
Definition iter_items (m : ubehav) (iv : value) : outcome (list value) :=
  match iv with
  | VList l => Ok l
  | VStr _ t => Ok (map (fun ch => VStr false [ch]) t)     (* a string iterates over its characters, in every mode *)
  | VMap kvs => Ok (map fst kvs)                           (* a map iterates over its keys, in every mode *)
  | VUndef => if u_strictish m then Err E_UndefinedError else Ok []
  | VSilent => Ok []
  | _ => Err E_InvalidOperation
  end.

(* Value::get_item / get_attr as the subscript and attribute sites use them (Interp.eval, EItem / EAttr): the
   component if there is one - list index, map key, loop field -, else the mode's answer for a missing one *)
Definition item_result (m : ubehav) (x k : value) : outcome value :=
  match get_item_opt x k with Some v => Ok v | None => u_handle_undefined m (is_undef x) end.
Definition attr_result (m : ubehav) (x : value) (a : name) : outcome value :=
  match get_attr_opt x a with Some v => Ok v | None => u_handle_undefined m (is_undef x) end.

(* the check of the `~` operator (vm/mod.rs::StringConcat); other binary operators have none *)
Definition bin_check (m : ubehav) (op : binop) (x y : value) : outcome unit :=
  match op with
  | OConcat => bind (u_not_undef m x) (fun _ => u_not_undef m y)
  | _ => Ok tt
  end.

(* ---- the documented matrix: one probe program per site, the operand is a name bound nowhere ---- *)
Definition U : name := 100.
Definition X : name := 101.

(* attribute names / string keys "a", "b", "k" (Syntax.attr_str, tools/langenc.py::attr_id) *)
Definition a_a : name := 1097.
Definition a_b : name := 1098.
Definition a_k : name := 1107.
Definition K1 : expr := EMap [(EConst (LStr [107]), EConst (LInt 1))].         (* {"k": 1} *)

Inductive site := PrintSite | IterSite | TruthSite | AttrSite | ItemSite
                | IsDefinedSite | IsUndefinedSite | DefaultSite
                (* maps: a key the map does not have is an undefined like any other; the map and what it has are defined *)
                | MapMissingAttrSite | MapMissingItemSite | MapMissingIterSite | MapMissingChainSite
                | MapKeySite | MapIterSite | MapInSite.

Definition probe (s : site) : list stmt :=
  match s with
  | PrintSite => [SEmit (EVar U)]                                             (* {{ u }} *)
  | IterSite => [SFor (TVar X) (EVar U) None [SRaw [120]] None false]         (* {% for x in u %}x{% endfor %} *)
  | TruthSite => [SIf [(EVar U, [SRaw [97]])] (Some [SRaw [98]])]             (* {% if u %}a{% else %}b{% endif %} *)
  | AttrSite => [SEmit (EAttr (EVar U) a_a)]                                  (* {{ u.a }} *)
  | ItemSite => [SEmit (EItem (EVar U) (EConst (LInt 0)))]                    (* {{ u[0] }} *)
  | IsDefinedSite => [SEmit (ETest T_defined (EVar U) [] false)]              (* {{ u is defined }} *)
  | IsUndefinedSite => [SEmit (ETest T_undefined (EVar U) [] false)]          (* {{ u is undefined }} *)
  | DefaultSite => [SEmit (EFilter F_default (EVar U) [EConst (LInt 1)])]     (* {{ u|default(1) }} *)
  | MapMissingAttrSite => [SEmit (EAttr K1 a_a)]                              (* {{ {"k": 1}.a }} *)
  | MapMissingItemSite => [SEmit (EItem K1 (EConst (LStr [97])))]             (* {{ {"k": 1}["a"] }} *)
  | MapMissingIterSite => [SFor (TVar X) (EAttr K1 a_a) None [SRaw [120]] None false]   (* {% for x in {"k": 1}.a %}x{% endfor %} *)
  | MapMissingChainSite => [SEmit (EAttr (EAttr K1 a_a) a_b)]                 (* {{ {"k": 1}.a.b }} *)
  | MapKeySite => [SEmit (EAttr K1 a_k)]                                      (* {{ {"k": 1}.k }} *)
  | MapIterSite => [SFor (TVar X) K1 None [SEmit (EVar X)] None false]        (* {% for x in {"k": 1} %}{{ x }}{% endfor %} *)
  | MapInSite => [SEmit (ECmp (EConst (LStr [97])) [(CIn, K1)])]              (* {{ "a" in {"k": 1} }} *)
  end.

Inductive cell := Fails (code : Z) | Yields (out : list Z) | NoAnswer.

Definition cell_of (o : outcome st) : cell :=
  match o with Ok s => Yields (output_of s) | Err c => Fails c | _ => NoAnswer end.

Definition probe_result (m : ubehav) (s : site) : cell :=
  cell_of (Interp.run (mkCfg m [] false) 20 (probe s)).
