(* C12 - proofs: every place where the interpreter consults the undefined behaviour is monotone in
   the order Strict [=] SemiStrict [=] Lenient [=] Chainable, hence so is every run; the documented
   matrix holds on the probe programs and, site by site, for every operand. *)
From MJ Require Import Common.Base Lang.Syntax Lang.Meta Lang.Interp C12.Model C12.Spec.

(* ------------------------------------------------------------------------------------------ *)
(* the relation                                                                                 *)
(* ------------------------------------------------------------------------------------------ *)
Lemma le_refl {A} (a : outcome A) : le a a.
Proof. intros r H; exact H. Qed.

Lemma le_trans {A} (a b c : outcome A) : le a b -> le b c -> le a c.
Proof. intros H1 H2 r H. apply H2, H1, H. Qed.

Lemma le_of_eq {A} (a b : outcome A) : a = b -> le a b.
Proof. intros ->. apply le_refl. Qed.

Lemma bind_ok {A B} (o : outcome A) (f : A -> outcome B) r :
  bind o f = Ok r -> exists a, o = Ok a /\ f a = Ok r.
Proof. destruct o; cbn; try discriminate. intros H. eauto. Qed.

Lemma le_bind {A B} (a b : outcome A) (f g : A -> outcome B) :
  le a b -> (forall x, le (f x) (g x)) -> le (bind a f) (bind b g).
Proof.
  intros Hab Hfg r H. apply bind_ok in H as (x & Ha & Hf).
  rewrite (Hab _ Ha). cbn. apply Hfg, Hf.
Qed.

Lemma le_err {A} c (b : outcome A) : le (Err c) b.
Proof. intros r H; discriminate. Qed.

Lemma weaker_refl m : weaker m m = true.
Proof. destruct m; reflexivity. Qed.

Lemma weaker_trans a b c : weaker a b = true -> weaker b c = true -> weaker a c = true.
Proof. destruct a, b, c; cbn; congruence. Qed.

Lemma weaker_total a b : weaker a b = true \/ weaker b a = true.
Proof. destruct a, b; cbn; auto. Qed.

Lemma weaker_antisym a b : weaker a b = true -> weaker b a = true -> a = b.
Proof. destruct a, b; cbn; congruence. Qed.

(* ------------------------------------------------------------------------------------------ *)
(* site functions                                                                               *)
(* ------------------------------------------------------------------------------------------ *)
Lemma u_is_true_mono m1 m2 v : weaker m1 m2 = true -> le (u_is_true m1 v) (u_is_true m2 v).
Proof. intros W r. destruct m1, m2; try discriminate W; destruct v; cbn; congruence. Qed.

Lemma u_not_undef_mono m1 m2 v : weaker m1 m2 = true -> le (u_not_undef m1 v) (u_not_undef m2 v).
Proof. intros W r. destruct m1, m2; try discriminate W; destruct v; cbn; congruence. Qed.

Lemma u_handle_undefined_mono m1 m2 p :
  weaker m1 m2 = true -> le (u_handle_undefined m1 p) (u_handle_undefined m2 p).
Proof. intros W r. destruct m1, m2; try discriminate W; destruct p; cbn; congruence. Qed.

Lemma emit_check_mono m1 m2 v : weaker m1 m2 = true -> le (emit_check m1 v) (emit_check m2 v).
Proof. intros W r. destruct m1, m2; try discriminate W; destruct v; cbn; congruence. Qed.

Lemma iter_items_mono m1 m2 v : weaker m1 m2 = true -> le (iter_items m1 v) (iter_items m2 v).
Proof. intros W r. destruct m1, m2; try discriminate W; destruct v; cbn; congruence. Qed.

Lemma item_result_mono m1 m2 x k : weaker m1 m2 = true -> le (item_result m1 x k) (item_result m2 x k).
Proof. intros W. unfold item_result. destruct (get_item_opt x k); [apply le_refl | apply u_handle_undefined_mono, W]. Qed.

Lemma attr_result_mono m1 m2 x a : weaker m1 m2 = true -> le (attr_result m1 x a) (attr_result m2 x a).
Proof. intros W. unfold attr_result. destruct (get_attr_opt x a); [apply le_refl | apply u_handle_undefined_mono, W]. Qed.

Lemma bin_check_mono m1 m2 op x y : weaker m1 m2 = true -> le (bin_check m1 op x y) (bin_check m2 op x y).
Proof.
  intros W. destruct op; try apply le_refl. cbn [bin_check].
  apply le_bind; [apply u_not_undef_mono, W | intros _; apply u_not_undef_mono, W].
Qed.

(* the guard of SEmit exactly as Interp.exec has it *)
Lemma strict_guard_mono {A} m1 m2 v (x : outcome A) : weaker m1 m2 = true ->
  le (if u_strictish m1 && is_strict_undef v then Err E_UndefinedError else x)
     (if u_strictish m2 && is_strict_undef v then Err E_UndefinedError else x).
Proof.
  intros W r. destruct m1, m2; try discriminate W; cbn [u_strictish andb];
    destruct (is_strict_undef v); cbn; congruence.
Qed.

Lemma do_cmp_mono m1 m2 op a b : weaker m1 m2 = true -> le (do_cmp m1 op a b) (do_cmp m2 op a b).
Proof.
  intros W. unfold do_cmp.
  destruct op;
    (apply le_bind; [apply u_not_undef_mono, W | intros _;
     apply le_bind; [apply u_not_undef_mono, W | intros _; apply le_refl]]).
Qed.

(* the filters consult the mode only through [u_strictish] ... *)
Lemma do_filter_strictish m1 m2 : u_strictish m1 = u_strictish m2 -> do_filter m1 = do_filter m2.
Proof. destruct m1, m2; cbn; intros H; try discriminate H; reflexivity. Qed.

(* ... and a strict-ish mode only turns results into errors *)
Lemma str_input_strict_lenient v : le (str_input Strict v) (str_input Lenient v).
Proof. destruct v; cbn; try apply le_refl; apply le_err. Qed.

Lemma str_input_mono m1 m2 v : weaker m1 m2 = true -> le (str_input m1 v) (str_input m2 v).
Proof. intros W r. destruct m1, m2; try discriminate W; destruct v; cbn; congruence. Qed.

Lemma do_filter_strict_lenient esc f v args : le (do_filter Strict esc f v args) (do_filter Lenient esc f v args).
Proof.
  unfold do_filter, u_not_undef. cbn [u_strictish andb].
  repeat match goal with |- context [if ?c then _ else _] =>
    match c with
    | context [Z.eqb] => destruct c
    end end;
  try apply le_refl;
  first
  [ (* replace: three string inputs *)
    solve [ apply le_bind; [apply str_input_strict_lenient|]; intros vi;
            destruct args as [|a1 rest]; [apply le_refl|];
            apply le_bind; [apply str_input_strict_lenient|]; intros fi;
            destruct rest as [|a2 rest2]; [apply le_refl|];
            apply le_bind; [apply str_input_strict_lenient|]; intros ti; apply le_refl ]
  | destruct v; cbn; try apply le_refl; try apply le_err ].
Qed.

Lemma do_filter_mono m1 m2 esc f v args :
  weaker m1 m2 = true -> le (do_filter m1 esc f v args) (do_filter m2 esc f v args).
Proof.
  intros W.
  destruct (Bool.bool_dec (u_strictish m1) (u_strictish m2)) as [E|N].
  - rewrite (do_filter_strictish m1 m2 E). apply le_refl.
  - assert (u_strictish m1 = true /\ u_strictish m2 = false) as [E1 E2]
      by (destruct m1, m2; cbn in *; try discriminate W; try congruence; auto).
    rewrite (do_filter_strictish m1 Strict) by (rewrite E1; reflexivity).
    rewrite (do_filter_strictish m2 Lenient) by (rewrite E2; reflexivity).
    apply do_filter_strict_lenient.
Qed.

(* tests never look at the mode ([do_test] does not even take it) *)
Lemma do_test_total_defined v : exists b, do_test T_defined v = Ok b.
Proof. eexists; reflexivity. Qed.
Lemma do_test_total_undefined v : exists b, do_test T_undefined v = Ok b.
Proof. eexists; reflexivity. Qed.
Lemma do_filter_default_total m esc v args : exists r, do_filter m esc F_default v args = Ok r.
Proof. unfold do_filter. cbn. destruct v; eexists; reflexivity. Qed.

(* ------------------------------------------------------------------------------------------ *)
(* context lookups do not depend on the mode                                                    *)
(* ------------------------------------------------------------------------------------------ *)
Section SameRoot.
Variables c1 c2 : cfg.
Hypothesis R : c_root c1 = c_root c2.

Lemma load_eq clos env x : load c1 clos env x = load c2 clos env x.
Proof. induction env as [|f r IH]; cbn [load]; [reflexivity|]. rewrite R, IH. reflexivity. Qed.

Lemma lookup_eq s x : lookup c1 s x = lookup c2 s x.
Proof. unfold lookup. rewrite load_eq. reflexivity. Qed.

Lemma fold_left_ext {A B} (f g : A -> B -> A) : (forall a b, f a b = g a b) ->
  forall l a, fold_left f l a = fold_left g l a.
Proof. intros H. induction l as [|x l IH]; intros a; cbn; [reflexivity|]. rewrite H. apply IH. Qed.

Lemma enclose_eq s names : enclose c1 s names = enclose c2 s names.
Proof.
  unfold enclose. destruct names as [|n0 names]; [reflexivity|].
  destruct (s_env s) as [|f r]; [reflexivity|].
  destruct (match f_closure f with Some id => _ | None => _ end) as [id s1].
  cbv zeta. f_equal. apply fold_left_ext. intros a b.
  destruct (nth_error (s_clos a) id); [|reflexivity].
  destruct (assoc b l); [reflexivity|]. rewrite lookup_eq. reflexivity.
Qed.

(* ------------------------------------------------------------------------------------------ *)
(* the list-walking combinators                                                                  *)
(* ------------------------------------------------------------------------------------------ *)
Hypothesis W : weaker (c_mode c1) (c_mode c2) = true.

Lemma map_eval_mono {X} (ev1 ev2 : st -> X -> outcome (value * st)) :
  (forall s x, le (ev1 s x) (ev2 s x)) -> forall l s, le (map_eval ev1 s l) (map_eval ev2 s l).
Proof.
  intros H. induction l as [|x r IH]; intros s; cbn [map_eval]; [apply le_refl|].
  apply le_bind; [apply H|]. intros [v s1]. apply le_bind; [apply IH|]. intros [vs s2]. apply le_refl.
Qed.

Lemma map_eval_kw_mono (ev1 ev2 : st -> expr -> outcome (value * st)) :
  (forall s x, le (ev1 s x) (ev2 s x)) -> forall l s, le (map_eval_kw ev1 s l) (map_eval_kw ev2 s l).
Proof.
  intros H. induction l as [|[k x] r IH]; intros s; cbn [map_eval_kw]; [apply le_refl|].
  apply le_bind; [apply H|]. intros [v s1]. apply le_bind; [apply IH|]. intros [vs s2]. apply le_refl.
Qed.

Lemma cmp_chain_mono (ev1 ev2 : st -> expr -> outcome (value * st)) :
  (forall s x, le (ev1 s x) (ev2 s x)) ->
  forall l left s, le (cmp_chain (c_mode c1) ev1 left s l) (cmp_chain (c_mode c2) ev2 left s l).
Proof.
  intros H. induction l as [|[op r] l' IH]; intros left s; cbn [cmp_chain]; [apply le_refl|].
  apply le_bind; [apply H|]. intros [y s2]. apply le_bind; [apply do_cmp_mono, W|]. intros b.
  destruct l' as [|p l'']; [apply le_refl|]. destruct b; [apply IH | apply le_refl].
Qed.

Lemma store_args_mono (ev1 ev2 : st -> expr -> outcome (value * st)) defaults :
  (forall s x, le (ev1 s x) (ev2 s x)) ->
  forall l s, le (store_args ev1 defaults s l) (store_args ev2 defaults s l).
Proof.
  intros H. induction l as [|[p v] r IH]; intros s; cbn [store_args]; [apply le_refl|].
  destruct (is_undef v); [|apply IH]. destruct (assoc p defaults); [|apply IH].
  apply le_bind; [apply H|]. intros [dv s1]. apply IH.
Qed.

Lemma if_arms_mono (ev1 ev2 : st -> expr -> outcome (value * st)) (ex1 ex2 : st -> list stmt -> outcome (signal * st)) els :
  (forall s x, le (ev1 s x) (ev2 s x)) -> (forall s b, le (ex1 s b) (ex2 s b)) ->
  forall l s, le (if_arms (c_mode c1) ev1 ex1 els s l) (if_arms (c_mode c2) ev2 ex2 els s l).
Proof.
  intros H Hx. induction l as [|[cnd body] r IH]; intros s; cbn [if_arms].
  - destruct els; [apply Hx | apply le_refl].
  - apply le_bind; [apply H|]. intros [v s1]. apply le_bind; [apply u_is_true_mono, W|]. intros b.
    destruct b; [apply Hx | apply IH].
Qed.

Lemma filter_items_mono (ev1 ev2 : st -> expr -> outcome (value * st)) tgt fe :
  (forall s x, le (ev1 s x) (ev2 s x)) ->
  forall l s, le (filter_items (c_mode c1) ev1 tgt fe s l) (filter_items (c_mode c2) ev2 tgt fe s l).
Proof.
  intros H. induction l as [|item r IH]; intros s; cbn [filter_items]; [apply le_refl|].
  cbv zeta. apply le_bind; [apply le_refl|]. intros sf1.
  apply le_bind; [apply H|]. intros [v sf2]. apply le_bind; [apply u_is_true_mono, W|]. intros keep.
  apply le_bind; [apply IH|]. intros [rest s3]. apply le_refl.
Qed.

Lemma loop_items_mono (ex1 ex2 : st -> list stmt -> outcome (signal * st)) tgt body n :
  (forall s b, le (ex1 s b) (ex2 s b)) ->
  forall l s i, le (loop_items ex1 tgt body n s i l) (loop_items ex2 tgt body n s i l).
Proof.
  intros Hx. induction l as [|item r IH]; intros s i; cbn [loop_items]; [apply le_refl|].
  cbv zeta. apply le_bind; [apply le_refl|]. intros s3.
  apply le_bind; [apply Hx|]. intros [sg s4]. destruct sg; [apply IH | apply le_refl | apply IH].
Qed.

Lemma with_binds_mono (ev1 ev2 : st -> expr -> outcome (value * st)) :
  (forall s x, le (ev1 s x) (ev2 s x)) -> forall l s, le (with_binds ev1 s l) (with_binds ev2 s l).
Proof.
  intros H. induction l as [|[x e] r IH]; intros s; cbn [with_binds]; [apply le_refl|].
  apply le_bind; [apply H|]. intros [v s1].
  (* binding the target (plain or unpacking) does not consult the mode *)
  apply le_bind; [apply le_refl|]. intros s2. apply IH.
Qed.

Lemma map_eval_pairs_mono (ev1 ev2 : st -> expr -> outcome (value * st)) :
  (forall s x, le (ev1 s x) (ev2 s x)) -> forall l s, le (map_eval_pairs ev1 s l) (map_eval_pairs ev2 s l).
Proof.
  intros H. induction l as [|[ke ve] r IH]; intros s; cbn [map_eval_pairs]; [apply le_refl|].
  apply le_bind; [apply H|]. intros [k s1]. apply le_bind; [apply H|]. intros [v s2].
  apply le_bind; [apply IH|]. intros [kvs s3]. apply le_refl.
Qed.

(* ------------------------------------------------------------------------------------------ *)
(* the interpreter: mutual induction on the fuel                                                 *)
(* ------------------------------------------------------------------------------------------ *)
Definition P_eval (fuel : nat) := forall esc s e, le (eval c1 fuel esc s e) (eval c2 fuel esc s e).
Definition P_macro (fuel : nat) := forall esc s mc cl args kw,
  le (call_macro c1 fuel esc s mc cl args kw) (call_macro c2 fuel esc s mc cl args kw).
Definition P_exec (fuel : nat) := forall esc s t, le (exec c1 fuel esc s t) (exec c2 fuel esc s t).
Definition P_list (fuel : nat) := forall esc s l, le (exec_list c1 fuel esc s l) (exec_list c2 fuel esc s l).

Ltac refold :=
  fold (exec_list c1) (eval c1) (call_macro c1) (exec c1) (exec_list c2) (eval c2) (call_macro c2) (exec c2).

Lemma eval_step fuel : P_eval fuel -> P_macro fuel -> P_eval (S fuel).
Proof.
  intros IHe IHm esc s e. destruct e; cbn [eval]; refold.
  - (* EConst *) destruct l; apply le_refl.
  - (* EVar *) rewrite lookup_eq. apply le_refl.
  - (* EList *) apply le_bind; [apply map_eval_mono; intros; apply IHe|]. intros [vs s1]. apply le_refl.
  - (* EMap *) apply le_bind; [apply map_eval_pairs_mono; intros; apply IHe|]. intros [kvs s1]. apply le_refl.
  - (* ENeg *) apply le_bind; [apply IHe|]. intros [v s1]. apply le_refl.
  - (* ENot *) apply le_bind; [apply IHe|]. intros [v s1]. apply le_bind; [apply u_is_true_mono, W|]. intros b. apply le_refl.
  - (* EBin *) apply le_bind; [apply IHe|]. intros [x s1]. apply le_bind; [apply IHe|]. intros [y s2].
    apply le_bind; [apply (bin_check_mono _ _ op x y W)|]. intros _. apply le_refl.
  - (* ECmp *) apply le_bind; [apply IHe|]. intros [x s1]. apply cmp_chain_mono. intros; apply IHe.
  - (* EAnd *) apply le_bind; [apply IHe|]. intros [x s1]. apply le_bind; [apply u_is_true_mono, W|]. intros t.
    destruct t; [apply IHe | apply le_refl].
  - (* EOr *) apply le_bind; [apply IHe|]. intros [x s1]. apply le_bind; [apply u_is_true_mono, W|]. intros t.
    destruct t; [apply le_refl | apply IHe].
  - (* EIf *) apply le_bind; [apply IHe|]. intros [x s1]. apply le_bind; [apply u_is_true_mono, W|]. intros b.
    destruct b; [apply IHe|]. destruct f; [apply IHe | apply le_refl].
  - (* EItem *) apply le_bind; [apply IHe|]. intros [x s1]. apply le_bind; [apply IHe|]. intros [k s2].
    destruct (get_item_opt x k); [apply le_refl|].
    apply le_bind; [apply u_handle_undefined_mono, W|]. intros v. apply le_refl.
  - (* EAttr *) apply le_bind; [apply IHe|]. intros [x s1].
    destruct (get_attr_opt x _); [apply le_refl|].
    apply le_bind; [apply u_handle_undefined_mono, W|]. intros v. apply le_refl.
  - (* EFilter *) apply le_bind; [apply IHe|]. intros [x s1].
    apply le_bind; [apply map_eval_mono; intros; apply IHe|]. intros [vs s2].
    apply le_bind; [apply do_filter_mono, W|]. intros r. apply le_refl.
  - (* ETest *) apply le_bind; [apply IHe|]. intros [x s1].
    apply le_bind; [apply map_eval_mono; intros; apply IHe|]. intros [vs s2]. apply le_refl.
  - (* ECall *) apply le_bind; [apply map_eval_mono; intros; apply IHe|]. intros [vs s1].
    apply le_bind; [apply map_eval_kw_mono; intros; apply IHe|]. intros [kvs s2].
    rewrite lookup_eq. destruct (lookup c2 s2 f) as [fv s3].
    destruct fv as [[]|]; try apply le_refl. apply IHm.
Qed.

Lemma macro_step fuel : P_eval fuel -> P_list fuel -> P_macro (S fuel).
Proof.
  intros IHe IHl esc s mc cl args kw. cbn [call_macro]; refold.
  destruct (Nat.ltb _ _); [apply le_refl|].
  apply le_bind; [apply le_refl|]. intros bound.
  match goal with |- context [if existsb ?f kw then _ else _] => destruct (existsb f kw) end; [apply le_refl|]. cbv zeta.
  apply le_bind; [apply store_args_mono; intros; apply IHe|]. intros s1.
  apply le_bind; [apply IHl|]. intros [sg s2]. apply le_refl.
Qed.

Lemma exec_step fuel : P_eval fuel -> P_macro fuel -> P_list fuel -> P_exec (S fuel).
Proof.
  intros IHe IHm IHl esc s t. destruct t; cbn [exec]; refold.
  - (* SRaw *) apply le_refl.
  - (* SEmit *) apply le_bind; [apply IHe|]. intros [v s1]. apply strict_guard_mono, W.
  - (* SIf *) apply if_arms_mono; intros; [apply IHe | apply IHl].
  - (* SFor *) apply le_bind; [apply IHe|]. intros [iv s1].
    apply le_bind; [apply (iter_items_mono _ _ iv W)|]. intros items.
    apply le_bind; [destruct filter; [apply filter_items_mono; intros; apply IHe | apply le_refl]|].
    intros [items' s2]. cbv zeta.
    apply le_bind; [apply loop_items_mono; intros; apply IHl|]. intros s5.
    destruct items'; [destruct els; [apply IHl | apply le_refl] | apply le_refl].
  - (* SSet *) apply le_bind; [apply IHe|]. intros [v s1].
    apply le_bind; [apply le_refl|]. intros s2. apply le_refl.
  - (* SSetBlock *) apply le_bind.
    + apply le_bind; [apply IHl|]. intros [sg s1]. apply le_refl.
    + intros [[sg txt] s1]. destruct sg; try apply le_refl.
      apply le_bind; [destruct filter; [apply do_filter_mono, W | apply le_refl]|]. intros v. apply le_refl.
  - (* SWith *) apply le_bind; [apply with_binds_mono; intros; apply IHe|]. intros s1.
    apply le_bind; [apply IHl|]. intros [sg s2]. apply le_refl.
  - (* SMacro *) rewrite enclose_eq. apply le_refl.
  - (* SCallBlock *) apply le_bind; [apply map_eval_mono; intros; apply IHe|]. intros [vs s1].
    rewrite enclose_eq. destruct (enclose c2 s1 _) as [s2 cl].
    rewrite lookup_eq. destruct (lookup c2 s2 m) as [fv s3].
    destruct fv as [[]|]; try apply le_refl.
    apply le_bind; [apply IHm|]. intros [v s4]. apply le_refl.
  - (* SFilterBlock *) apply le_bind.
    + apply le_bind; [apply IHl|]. intros [sg s1]. apply le_refl.
    + intros [[sg txt] s1]. destruct sg; try apply le_refl.
      apply le_bind; [apply do_filter_mono, W|]. intros v. apply le_refl.
  - (* SAutoEscape *) apply le_bind; [apply IHe|]. intros [v0 s1].
    apply le_bind; [apply le_refl|]. intros esc'. apply IHl.
  - (* SBreak *) apply le_refl.
  - (* SContinue *) apply le_refl.
Qed.

Lemma list_step fuel : P_exec fuel -> P_list fuel -> P_list (S fuel).
Proof.
  intros IHx IHl esc s l. cbn [exec_list]; refold.
  destruct l as [|t r]; [apply le_refl|].
  apply le_bind; [apply IHx|]. intros [sg s1]. destruct sg; [apply IHl | apply le_refl | apply le_refl].
Qed.

Lemma interp_mono fuel : P_eval fuel /\ P_macro fuel /\ P_exec fuel /\ P_list fuel.
Proof.
  induction fuel as [|fuel (IHe & IHm & IHx & IHl)].
  - repeat split; intros ? ? ?; intros; intros r H; discriminate H.
  - repeat split.
    + apply eval_step; assumption.
    + apply macro_step; assumption.
    + apply exec_step; assumption.
    + apply list_step; assumption.
Qed.

End SameRoot.

(* ------------------------------------------------------------------------------------------ *)
(* whole templates                                                                              *)
(* ------------------------------------------------------------------------------------------ *)
Lemma eval_monotone_proof m1 m2 ctx esc0 fuel esc s e r : weaker m1 m2 = true ->
  eval (mkCfg m1 ctx esc0) fuel esc s e = Ok r -> eval (mkCfg m2 ctx esc0) fuel esc s e = Ok r.
Proof.
  intros W. destruct (interp_mono (mkCfg m1 ctx esc0) (mkCfg m2 ctx esc0) eq_refl W fuel) as (He & _).
  apply He.
Qed.

Lemma exec_list_monotone_proof m1 m2 ctx esc0 fuel esc s l r : weaker m1 m2 = true ->
  exec_list (mkCfg m1 ctx esc0) fuel esc s l = Ok r -> exec_list (mkCfg m2 ctx esc0) fuel esc s l = Ok r.
Proof.
  intros W. destruct (interp_mono (mkCfg m1 ctx esc0) (mkCfg m2 ctx esc0) eq_refl W fuel) as (_ & _ & _ & Hl).
  apply Hl.
Qed.

Lemma run_monotone_proof m1 m2 ctx esc fuel body s1 : weaker m1 m2 = true ->
  Interp.run (mkCfg m1 ctx esc) fuel body = Ok s1 -> Interp.run (mkCfg m2 ctx esc) fuel body = Ok s1.
Proof.
  intros W. unfold Interp.run. cbn [c_escape].
  apply le_bind; [|intros [sg s]; apply le_refl].
  intros r. apply exec_list_monotone_proof, W.
Qed.

(* ------------------------------------------------------------------------------------------ *)
(* the matrix                                                                                   *)
(* ------------------------------------------------------------------------------------------ *)
Lemma matrix_proof m s : probe_result m s = documented m s.
Proof. destruct m, s; vm_compute; reflexivity. Qed.

(* site by site, for every operand *)
Lemma print_site_proof m v :
  emit_check m v = if u_strictish m && is_strict_undef v then Err E_UndefinedError else Ok tt.
Proof. reflexivity. Qed.

Lemma exec_emit_uses_check c fuel esc s e :
  exec c (S fuel) esc s (SEmit e) =
  bind (eval c fuel esc s e) (fun '(v, s1) =>
  bind (emit_check (c_mode c) v) (fun _ => Ok (SigNormal, emit s1 (render_value esc v)))).
Proof.
  cbn [exec]. fold (eval c). destruct (eval c fuel esc s e) as [[v s1]| | |]; cbn [bind]; try reflexivity.
  unfold emit_check. destruct (u_strictish (c_mode c) && is_strict_undef v); reflexivity.
Qed.

Lemma eval_item_uses_result c fuel esc s a i :
  eval c (S fuel) esc s (EItem a i) =
  bind (eval c fuel esc s a) (fun '(x, s1) => bind (eval c fuel esc s1 i) (fun '(k, s2) =>
  bind (item_result (c_mode c) x k) (fun v => Ok (v, s2)))).
Proof.
  cbn [eval]. fold (eval c). destruct (eval c fuel esc s a) as [[x s1]| | |]; cbn [bind]; try reflexivity.
  destruct (eval c fuel esc s1 i) as [[k s2]| | |]; cbn [bind]; try reflexivity.
  unfold item_result. destruct (get_item_opt x k); reflexivity.
Qed.

Lemma eval_attr_uses_result c fuel esc s a attr :
  eval c (S fuel) esc s (EAttr a attr) =
  bind (eval c fuel esc s a) (fun '(x, s1) => bind (attr_result (c_mode c) x attr) (fun v => Ok (v, s1))).
Proof.
  cbn [eval]. fold (eval c). destruct (eval c fuel esc s a) as [[x s1]| | |]; cbn [bind]; try reflexivity.
  unfold attr_result. destruct (get_attr_opt x attr); reflexivity.
Qed.

Lemma exec_for_uses_iter_items c fuel esc s tgt iter flt body els rc :
  exec c (S fuel) esc s (SFor tgt iter flt body els rc) =
  bind (eval c fuel esc s iter) (fun '(iv, s1) =>
  bind (iter_items (c_mode c) iv) (fun items =>
  bind (match flt with
        | None => Ok (items, s1)
        | Some fe => filter_items (c_mode c) (eval c fuel esc) tgt fe s1 items
        end) (fun '(items, s2) =>
  let n := lenZ items in
  bind (loop_items (exec_list c fuel esc) tgt body n (push_frame s2 (mkFrame [] (Some (0, n, true)) None None false)) 0 items) (fun s5 =>
  let s6 := pop_frame s5 in
  match items, els with
  | [], Some eb => exec_list c fuel esc s6 eb
  | _, _ => Ok (SigNormal, s6)
  end)))).
Proof. reflexivity. Qed.

(* maps at the access, iteration and membership sites *)
Lemma map_item_found_proof m kvs k v : map_get k kvs = Some v -> item_result m (VMap kvs) k = Ok v.
Proof. intros H. unfold item_result. cbn [get_item_opt]. rewrite H. reflexivity. Qed.

Lemma map_item_missing_proof m kvs k : map_get k kvs = None -> item_result m (VMap kvs) k = Ok VUndef.
Proof. intros H. unfold item_result. cbn [get_item_opt is_undef]. rewrite H. destruct m; reflexivity. Qed.

Lemma map_attr_is_item_proof m kvs a : attr_result m (VMap kvs) a = item_result m (VMap kvs) (VStr false (attr_str a)).
Proof. reflexivity. Qed.

Lemma item_of_undef_proof m x k : is_undef x = true -> item_result m x k = u_handle_undefined m true.
Proof. intros H. destruct x; try discriminate H; reflexivity. Qed.

Lemma attr_of_undef_proof m x a : is_undef x = true -> attr_result m x a = u_handle_undefined m true.
Proof. intros H. destruct x; try discriminate H; reflexivity. Qed.

Lemma iter_map_proof m kvs : iter_items m (VMap kvs) = Ok (map fst kvs).
Proof. reflexivity. Qed.

Lemma in_map_proof m a kvs : a <> VUndef ->
  do_cmp m CIn a (VMap kvs) = Ok (match map_get a kvs with Some _ => true | None => false end).
Proof.
  intros H. unfold do_cmp, u_not_undef. cbn [is_strict_undef]. rewrite Bool.andb_false_r. cbn [bind].
  replace (is_strict_undef a) with false by (destruct a; try reflexivity; congruence).
  rewrite Bool.andb_false_r. reflexivity.
Qed.

Lemma in_undef_proof m a : do_cmp m CIn a VUndef = if u_strictish m then Err E_UndefinedError else Ok false.
Proof. destruct m; cbn; try reflexivity; destruct a; reflexivity. Qed.

Lemma unpack_undef_proof x y s v : is_undef v = true -> bind_target (TPair x y) s v = Err E_CannotUnpack.
Proof. intros H. destruct v; try discriminate H; reflexivity. Qed.

Lemma truth_site_proof m :
  u_is_true m VUndef = match m with Strict => Err E_UndefinedError | _ => Ok false end.
Proof. destruct m; reflexivity. Qed.

Lemma truth_defined_proof m v : is_strict_undef v = false -> u_is_true m v = Ok (truthy v).
Proof. destruct m, v; cbn; congruence. Qed.

Lemma access_site_proof m :
  u_handle_undefined m true = match m with Chainable => Ok VUndef | _ => Err E_UndefinedError end.
Proof. destruct m; reflexivity. Qed.

Lemma access_defined_parent_proof m : u_handle_undefined m false = Ok VUndef.
Proof. destruct m; reflexivity. Qed.

Lemma iterate_site_proof m :
  iter_items m VUndef = if u_strictish m then Err E_UndefinedError else Ok [].
Proof. reflexivity. Qed.
