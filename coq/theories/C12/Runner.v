(* C12 runners.
   c12        : the reference interpreter on an encoded request (first integer = mode, see Lang/Codec.v);
                this is C03.Runner.run: [0; n; c1..cn] output | [1; code] error | [8] gas | [9] undecodable
   c12-matrix : [site; mode] -> what the interpreter does on the probe program of that site
   c12-doc    : [site; mode] -> what the documentation says (C12/Spec.v)
   c12-weaker : [m1; m2] -> [1] if m2 is at least as permissive as m1 *)
From Coq Require Import String.
From MJ Require Import Common.Base Lang.Syntax Lang.Interp Lang.Codec C03.Runner C12.Model C12.Spec.

Definition site_of (z : Z) : site :=
  match z with
  | 0 => PrintSite | 1 => IterSite | 2 => TruthSite | 3 => AttrSite | 4 => ItemSite
  | 5 => IsDefinedSite | 6 => IsUndefinedSite | 7 => DefaultSite
  | 8 => MapMissingAttrSite | 9 => MapMissingItemSite | 10 => MapMissingIterSite | 11 => MapMissingChainSite
  | 12 => MapKeySite | 13 => MapIterSite | 14 => MapInSite
  | _ => DefaultSite
  end.

Definition enc_cell (c : cell) : list Z :=
  match c with
  | Yields o => 0 :: lenZ o :: o
  | Fails code => [1; code]
  | NoAnswer => [8]
  end.

Definition matrix (inp : list Z) : list Z :=
  match inp with
  | [s; md] => enc_cell (probe_result (mode_of md) (site_of s))
  | _ => [9]
  end.

Definition doc (inp : list Z) : list Z :=
  match inp with
  | [s; md] => enc_cell (documented (mode_of md) (site_of s))
  | _ => [9]
  end.

Definition weaker_r (inp : list Z) : list Z :=
  match inp with
  | [a; b] => [if weaker (mode_of a) (mode_of b) then 1 else 0]
  | _ => [9]
  end.

Open Scope string_scope.
Definition runners : list (string * (list Z -> list Z)) :=
  [ ("c12", C03.Runner.run); ("c12-matrix", matrix); ("c12-doc", doc); ("c12-weaker", weaker_r) ].
