(* C12 - the matrix as the documentation states it (utils.rs, doc comment of UndefinedBehavior, and
   the property text): printing and iterating an undefined fail under Strict and SemiStrict and
   yield nothing otherwise; truth-testing fails only under Strict (and is false otherwise);
   attribute / item access on an undefined fails everywhere except Chainable (where it yields an
   undefined, which then prints as nothing); `is defined`, `is undefined`, `default` never fail.
   Maps: a key a map does not have is an undefined value like any other (printing / iterating it fails
   under Strict and SemiStrict, a further attribute of it fails everywhere except Chainable); the
   map itself, the keys it has, iterating it and `in` on it are defined: no mode fails.
   Written from the documentation, not from the code.  No proofs in this file. *)
From MJ Require Import Common.Base Lang.Syntax Lang.Interp C12.Model.

Definition documented (m : ubehav) (s : site) : cell :=
  match s with
  | PrintSite | IterSite =>
      match m with Strict | SemiStrict => Fails E_UndefinedError | Lenient | Chainable => Yields [] end
  | TruthSite =>
      match m with Strict => Fails E_UndefinedError | _ => Yields [98] end          (* the else branch: "b" *)
  | AttrSite | ItemSite =>
      match m with Chainable => Yields [] | _ => Fails E_UndefinedError end
  | IsDefinedSite => Yields str_false
  | IsUndefinedSite => Yields str_true
  | DefaultSite => Yields [49]                                                       (* "1" *)
  | MapMissingAttrSite | MapMissingItemSite | MapMissingIterSite =>
      match m with Strict | SemiStrict => Fails E_UndefinedError | Lenient | Chainable => Yields [] end
  | MapMissingChainSite =>
      match m with Chainable => Yields [] | _ => Fails E_UndefinedError end
  | MapKeySite => Yields [49]                                                        (* "1" *)
  | MapIterSite => Yields [107]                                                      (* "k" *)
  | MapInSite => Yields str_false
  end.
