(* C13 model: minijinja/src/vm/fuel.rs::FuelTracker::{new,track,remaining,consumed} as the code is
   (after the fix "fix: fuel tracker keeps u64 arithmetic", see known/C13.json), the way
   vm/mod.rs::eval_impl consults it (one tracker per render, kept in the State that every nested
   evaluation - macro, include, block, super() - shares; asked before each instruction is
   dispatched), and State::fuel_levels.  No proofs in this file.

   The render itself is abstract: a deterministic step system [next] of which the tracker sees,
   per executed instruction, only its cost ([fuel_for_instruction]: 0 or 1).  [Monitor] is the
   generic shape "a step system watched by an observer that can only abort". *)
From MJ Require Import Common.Base C13.GenFuelTable.

(* ---------------------------------------------------------------------------------------- *)
(* generic monitor                                                                          *)
(* ---------------------------------------------------------------------------------------- *)
Inductive mresult (R M : Type) : Type :=
| Done (r : R) (m : M)       (* the system finished with its own result r *)
| Aborted (m : M).           (* the observer refused a step *)
Arguments Done {R M} r m.
Arguments Aborted {R M} m.

Section Monitor.
  Context {St E M R : Type}.
  (* the system: in state s either the next instruction (what the observer sees of it: e) and
     the successor state, or the final result (Ok output / Err kind) *)
  Variable next : St -> (E * St) + R.
  (* the observer: new observer state, and whether the step may run *)
  Variable obs : M -> E -> M * bool.

  (* the run nobody watches: executed instructions and result ([None] = the model's own gas ran out) *)
  Fixpoint free (gas : nat) (s : St) : list E * option R :=
    match gas with
    | O => ([], None)
    | S g => match next s with
             | inr r => ([], Some r)
             | inl (e, s') => let (es, r) := free g s' in (e :: es, r)
             end
    end.

  (* the watched run: the observer is asked before every instruction (vm/mod.rs::eval_impl:
     `tracker.track(instr)` precedes the `match instr`) *)
  Fixpoint mon (gas : nat) (s : St) (m : M) : list E * option (mresult R M) :=
    match gas with
    | O => ([], None)
    | S g => match next s with
             | inr r => ([], Some (Done r m))
             | inl (e, s') =>
                 let (m', ok) := obs m e in
                 if ok then let (es, r) := mon g s' m' in (e :: es, r)
                 else ([], Some (Aborted m'))
             end
    end.

  (* the observer alone, folded over a trace: accepted prefix, final observer state, all accepted? *)
  Fixpoint watch (m : M) (es : list E) : list E * M * bool :=
    match es with
    | [] => ([], m, true)
    | e :: r =>
        let (m', ok) := obs m e in
        if ok then let '(p, m'', ok') := watch m' r in (e :: p, m'', ok')
        else ([], m', false)
    end.
End Monitor.

(* ---------------------------------------------------------------------------------------- *)
(* FuelTracker (u64 fields)                                                                 *)
(* ---------------------------------------------------------------------------------------- *)
Record tracker := mk_tracker { initial : Z; remaining : Z }.

(* u64::saturating_sub *)
Definition sat_sub (a b : Z) : Z := if a <? b then 0 else a - b.

(* FuelTracker::new *)
Definition new (fuel : Z) : tracker := mk_tracker fuel fuel.

(* FuelTracker::track with [cost] = fuel_for_instruction(instr).  [false] = Err(OutOfFuel). *)
Definition track (t : tracker) (cost : Z) : tracker * bool :=
  if cost =? 0 then (t, true)
  else let r := sat_sub (remaining t) cost in
       (mk_tracker (initial t) r, negb (r =? 0)).

(* FuelTracker::remaining / consumed; State::fuel_levels = (consumed, remaining) *)
Definition get_remaining (t : tracker) : Z := remaining t.
Definition consumed (t : tracker) : Z := sat_sub (initial t) (get_remaining t).
Definition fuel_levels (t : tracker) : Z * Z := (consumed t, get_remaining t).

(* a render under budget B: the VM's step system watched by the tracker *)
Definition render_with_fuel {St R} (next : St -> (Z * St) + R) (gas : nat) (s : St) (B : Z) :=
  mon next track gas s (new B).

(* ---------------------------------------------------------------------------------------- *)
(* the observable run used by the correspondence check: instruction costs interleaved with
   probes (a template function reading State::fuel_levels while the render is running)     *)
(* ---------------------------------------------------------------------------------------- *)
Inductive event := Instr (cost : Z) | Probe.

Fixpoint exec (t : tracker) (evs : list event) : tracker * bool * list (Z * Z) :=
  match evs with
  | [] => (t, true, [])
  | Probe :: r => let '(t', ok, ps) := exec t r in (t', ok, fuel_levels t :: ps)
  | Instr c :: r =>
      let (t', ok) := track t c in
      if ok then exec t' r else (t', false, [])
  end.

Definition costs_of (evs : list event) : list Z :=
  flat_map (fun e => match e with Instr c => [c] | Probe => [] end) evs.

(* consumption so far at each probe of a run ([acc] = consumed before [evs]) - what the probes of
   a run with a budget that is never exhausted report as `consumed` *)
Fixpoint probe_accs (acc : Z) (evs : list event) : list Z :=
  match evs with
  | [] => []
  | Probe :: r => acc :: probe_accs acc r
  | Instr c :: r => probe_accs (acc + c) r
  end.

(* ---------------------------------------------------------------------------------------- *)
(* one State used for several evaluations (render_captured, then State::call_macro /          *)
(* State::render_block ...): every evaluation is watched by the same tracker, which keeps its  *)
(* state from one evaluation to the next, also after one of them ran out of fuel               *)
(* ---------------------------------------------------------------------------------------- *)
Fixpoint run_ops (t : tracker) (ops : list (list Z)) : tracker :=
  match ops with
  | [] => t
  | costs :: r => let '(_, t', _) := watch track t costs in run_ops t' r
  end.

(* ---------------------------------------------------------------------------------------- *)
(* fuel_for_instruction: the table generated from vm/fuel.rs (C13/GenFuelTable.v); opcodes are  *)
(* identified by the position of their variant in `enum Instruction`                          *)
(* ---------------------------------------------------------------------------------------- *)
Fixpoint lookup_cost (op : Z) (t : list (Z * Z)) : option Z :=
  match t with
  | [] => None
  | (o, c) :: r => if o =? op then Some c else lookup_cost op r
  end.

Definition cost_of (op : Z) : option Z := lookup_cost op fuel_table.

(* the costs of an executed instruction trace; [None] when an opcode is not an instruction *)
Fixpoint stream_costs (ops : list Z) : option (list Z) :=
  match ops with
  | [] => Some []
  | op :: r => match cost_of op, stream_costs r with
               | Some c, Some cs => Some (c :: cs)
               | _, _ => None
               end
  end.

(* ---------------------------------------------------------------------------------------- *)
(* the code before the fix (isize counter), kept to show what the check found              *)
(* ---------------------------------------------------------------------------------------- *)
Definition wrap_isize (z : Z) : Z := (z + 2 ^ 63) mod 2 ^ 64 - 2 ^ 63.
Definition new_isize (fuel : Z) : tracker := mk_tracker fuel (wrap_isize fuel).     (* `fuel as isize` *)
(* [debug]: overflow checks on (trap) or off (wrap) *)
Definition track_isize (debug : bool) (t : tracker) (cost : Z) : outcome (tracker * bool) :=
  if cost =? 0 then Ok (t, true)
  else let r := remaining t - cost in
       if (r <? - 2 ^ 63) && debug then Panic
       else let r := wrap_isize r in Ok (mk_tracker (initial t) r, negb (r <=? 0)).
Definition levels_isize (t : tracker) : Z * Z :=
  let rem := remaining t mod 2 ^ 64 in (sat_sub (initial t) rem, rem).        (* `self.remaining as u64` *)
Fixpoint run_isize (debug : bool) (t : tracker) (costs : list Z) : outcome (tracker * bool) :=
  match costs with
  | [] => Ok (t, true)
  | c :: r => bind (track_isize debug t c) (fun '(t', ok) => if ok then run_isize debug t' r else Ok (t', false))
  end.
