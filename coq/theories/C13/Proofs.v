(* C13 proofs. *)
From MJ Require Import Common.Base C13.GenFuelTable C13.Model C13.Spec.

Ltac brk :=
  repeat match goal with
         | |- context [if ?c then _ else _] => destruct c eqn:?
         | H : context [if ?c then _ else _] |- _ => destruct c eqn:?
         end.

Definition nonneg (c : Z) : Prop := 0 <= c.

(* ---------------------------------------------------------------------------------------- *)
(* generic monitor                                                                          *)
(* ---------------------------------------------------------------------------------------- *)
Section MonitorProofs.
  Context {St E M R : Type}.
  Variable next : St -> (E * St) + R.
  Variable obs : M -> E -> M * bool.

  (* the watched run is determined by the free run and the observer folded over its trace *)
  Lemma monitor_prefix_proof : forall gas s m es r,
    free next gas s = (es, r) ->
    mon next obs gas s m =
      (let '(pre, m', ok) := watch obs m es in
       (pre, if ok then option_map (fun x => Done x m') r else Some (Aborted m'))).
  Proof.
    induction gas as [|g IH]; intros s m es r H; cbn [free mon] in *.
    - inversion H; subst. reflexivity.
    - destruct (next s) as [[e s']|r0].
      + destruct (free next g s') as [es0 r1] eqn:F. inversion H; subst. cbn [watch].
        destruct (obs m e) as [m' ok]. destruct ok; [|reflexivity].
        rewrite (IH s' m' es0 r F). destruct (watch obs m' es0) as [[p m''] ok']. reflexivity.
      + inversion H; subst. reflexivity.
  Qed.

  (* observer state after a trace, ignoring refusals *)
  Definition obs_after (m : M) (es : list E) : M := fold_left (fun m e => fst (obs m e)) es m.

  (* the accepted part is a prefix; every step in it was accepted; when the observer refused,
     it refused exactly the next step of the trace, in the state reached by the accepted part *)
  Lemma watch_first_refusal_proof : forall es m pre m' ok,
    watch obs m es = (pre, m', ok) ->
    pre = firstn (length pre) es /\
    (forall i e, nth_error pre i = Some e -> snd (obs (obs_after m (firstn i pre)) e) = true) /\
    (if ok then pre = es /\ m' = obs_after m es
     else exists e, nth_error es (length pre) = Some e /\
                    obs (obs_after m pre) e = (m', false)).
  Proof.
    induction es as [|e es IH]; intros m pre m' ok H; cbn [watch] in H.
    - inversion H; subst. repeat split; auto. intros [|i] e; discriminate.
    - destruct (obs m e) as [m1 ok1] eqn:O. destruct ok1.
      + destruct (watch obs m1 es) as [[p m2] ok2] eqn:W. inversion H; subst.
        destruct (IH m1 p m' ok W) as (P1 & P2 & P3). split; [|split].
        * cbn [length firstn]. f_equal. exact P1.
        * intros [|i] e0 Hn; cbn [nth_error firstn] in *.
          -- inversion Hn; subst. cbn. rewrite O. reflexivity.
          -- unfold obs_after. cbn [fold_left]. rewrite O. cbn [fst]. apply P2. exact Hn.
        * destruct ok.
          -- destruct P3 as [-> ->]. split; [reflexivity|]. unfold obs_after. cbn [fold_left]. rewrite O. reflexivity.
          -- destruct P3 as (e0 & N & Q). exists e0. split; [exact N|].
             unfold obs_after in *. cbn [fold_left]. rewrite O. exact Q.
      + inversion H; subst. split; [reflexivity|]. split; [intros [|i] e0; discriminate|].
        exists e. split; [reflexivity|]. exact O.
  Qed.

  Lemma watch_app : forall es1 es2 m,
    watch obs m (es1 ++ es2) =
      (let '(p1, m1, ok1) := watch obs m es1 in
       if ok1 then let '(p2, m2, ok2) := watch obs m1 es2 in (p1 ++ p2, m2, ok2)
       else (p1, m1, false)).
  Proof.
    induction es1 as [|e es1 IH]; intros es2 m; cbn [app watch].
    - destruct (watch obs m es2) as [[p m2] ok2]. reflexivity.
    - destruct (obs m e) as [m' ok]. destruct ok; [|reflexivity].
      rewrite IH. destruct (watch obs m' es1) as [[p1 m1] ok1]. destruct ok1; [|reflexivity].
      destruct (watch obs m1 es2) as [[p2 m2] ok2]. reflexivity.
  Qed.

  (* the result of a watched run does not depend on the model's gas *)
  Lemma mon_gas_indep : forall g1 g2 s m p1 r1 p2 r2,
    mon next obs g1 s m = (p1, Some r1) -> mon next obs g2 s m = (p2, Some r2) -> p1 = p2 /\ r1 = r2.
  Proof.
    induction g1 as [|g1 IH]; intros g2 s m p1 r1 p2 r2 H1 H2; cbn [mon] in H1; [discriminate|].
    destruct g2 as [|g2]; cbn [mon] in H2; [discriminate|].
    destruct (next s) as [[e s']|r0].
    - destruct (obs m e) as [m' ok]. destruct ok.
      + destruct (mon next obs g1 s' m') as [es1 q1] eqn:M1.
        destruct (mon next obs g2 s' m') as [es2 q2] eqn:M2.
        inversion H1; inversion H2; subst.
        destruct (IH g2 s' m' es1 r1 es2 r2 M1 M2) as [-> ->]. split; reflexivity.
      + inversion H1; inversion H2; subst. split; reflexivity.
    - inversion H1; inversion H2; subst. split; reflexivity.
  Qed.
End MonitorProofs.

(* ---------------------------------------------------------------------------------------- *)
(* the tracker                                                                              *)
(* ---------------------------------------------------------------------------------------- *)
Lemma total_app a b : total (a ++ b) = total a + total b.
Proof. unfold total. induction a as [|x a IH]; cbn [app fold_right]; [reflexivity|]. rewrite IH. ring. Qed.

Lemma total_concat streams : total (concat streams) = fold_right Z.add 0 (map total streams).
Proof. induction streams as [|s r IH]; cbn [concat map fold_right]; [reflexivity|]. rewrite total_app, IH. reflexivity. Qed.

Lemma total_nonneg costs : Forall nonneg costs -> 0 <= total costs.
Proof. unfold total. induction 1 as [|x l Hx _ IH]; cbn [fold_right]; unfold nonneg in *; lia. Qed.

(* states from which the VM keeps going: the budget has not been exhausted so far *)
Definition live (B : Z) (t : tracker) : Prop :=
  initial t = B /\ 0 <= remaining t <= B /\ threshold (B - remaining t) <= B.

Lemma live_new B : 0 <= B -> live B (new B).
Proof. unfold live, new, threshold; cbn [initial remaining]. intros. brk; lia. Qed.

Lemma track_zero t : track t 0 = (t, true).
Proof. reflexivity. Qed.

Lemma track_pos t c : 0 < c ->
  track t c = (mk_tracker (initial t) (sat_sub (remaining t) c), negb (sat_sub (remaining t) c =? 0)).
Proof. intros H. unfold track. destruct (c =? 0) eqn:E; [lia|reflexivity]. Qed.

Lemma costs_of_instr c evs : costs_of (Instr c :: evs) = c :: costs_of evs.
Proof. reflexivity. Qed.
Lemma costs_of_probe evs : costs_of (Probe :: evs) = costs_of evs.
Proof. reflexivity. Qed.
Lemma total_cons c l : total (c :: l) = c + total l.
Proof. reflexivity. Qed.
Lemma spec_probe_list_cons B a l :
  spec_probe_list B (a :: l) = match spec_probe a B with Some x => [x] | None => [] end ++ spec_probe_list B l.
Proof. reflexivity. Qed.
Lemma total_nil : total [] = 0.
Proof. reflexivity. Qed.

Lemma spec_probes_beyond B : forall evs a, B <= a -> 0 < a -> Forall nonneg (costs_of evs) ->
  spec_probe_list B (probe_accs a evs) = [].
Proof.
  induction evs as [|[c|] evs IH]; intros a Ha Hp Hn; cbn [probe_accs] in *;
    rewrite ?costs_of_instr, ?costs_of_probe in *.
  - reflexivity.
  - inversion Hn; subst. unfold nonneg in *. apply IH; auto; lia.
  - rewrite spec_probe_list_cons, (IH a Ha Hp Hn).
    unfold spec_probe, threshold. brk; try lia. reflexivity.
Qed.

(* the observable run, from any live state *)
Lemma exec_live B : forall evs t, live B t -> Forall nonneg (costs_of evs) ->
  let acc := B - remaining t in
  let c := acc + total (costs_of evs) in
  exists t', exec t evs = (t', threshold c <=? B, spec_probe_list B (probe_accs acc evs)) /\
             initial t' = B /\
             (threshold c <= B -> remaining t' = B - c) /\
             (B < threshold c -> remaining t' = 0).
Proof.
  induction evs as [|[c|] evs IH]; intros t L Hn; cbn zeta; cbn [exec probe_accs] in *;
    rewrite ?costs_of_instr, ?costs_of_probe, ?total_cons in *.
  - exists t. destruct L as (L1 & L2 & L3). change (costs_of []) with (@nil Z). rewrite total_nil.
    replace (B - remaining t + 0) with (B - remaining t) by lia.
    destruct (threshold (B - remaining t) <=? B) eqn:E; [|lia].
    repeat split; auto; lia.
  - inversion Hn as [|x l Hc Hn']; subst. unfold nonneg in Hc.
    destruct (Z.eq_dec c 0) as [->|Hc0].
    + rewrite track_zero. destruct (IH t L Hn') as (t' & E & I & S1 & S2).
      exists t'.
      replace (B - remaining t + (0 + total (costs_of evs))) with (B - remaining t + total (costs_of evs)) by lia.
      replace (B - remaining t + 0) with (B - remaining t) by lia. auto.
    + rewrite track_pos by lia. destruct L as (L1 & L2 & L3).
      pose proof (total_nonneg _ Hn') as Ht.
      unfold sat_sub. destruct (remaining t <? c) eqn:E1.
      * (* saturated: out of fuel *)
        cbn [negb Z.eqb]. exists (mk_tracker (initial t) 0). cbn [initial remaining].
        rewrite spec_probes_beyond by (auto; lia).
        assert (T : B < threshold (B - remaining t + (c + total (costs_of evs)))) by (unfold threshold; brk; lia).
        destruct (threshold _ <=? B) eqn:E2; [lia|]. repeat split; auto; lia.
      * destruct (remaining t - c =? 0) eqn:E2; cbn [negb].
        -- exists (mk_tracker (initial t) (remaining t - c)). cbn [initial remaining].
           rewrite spec_probes_beyond by (auto; lia).
              assert (T : B < threshold (B - remaining t + (c + total (costs_of evs)))) by (unfold threshold; brk; lia).
           destruct (threshold _ <=? B) eqn:E3; [lia|]. repeat split; auto; lia.
        -- assert (L' : live B (mk_tracker (initial t) (remaining t - c))).
           { unfold live; cbn [initial remaining]. repeat split; try lia. unfold threshold. brk; lia. }
           destruct (IH _ L' Hn') as (t' & E & I & S1 & S2). cbn [remaining] in *.
           exists t'.
              replace (B - remaining t + (c + total (costs_of evs))) with (B - (remaining t - c) + total (costs_of evs)) by lia.
           replace (B - remaining t + c) with (B - (remaining t - c)) by lia. auto.
  - destruct (IH t L Hn) as (t' & E & I & S1 & S2). rewrite E. exists t'.
    destruct L as (L1 & L2 & L3).
    rewrite spec_probe_list_cons. unfold spec_probe. destruct (threshold (B - remaining t) <=? B) eqn:E1; [|lia].
    cbn [app]. unfold fuel_levels, consumed, get_remaining, spec_levels, sat_sub. rewrite L1.
    destruct (B <? remaining t) eqn:E2; [lia|].
    replace (B - (B - remaining t)) with (remaining t) by lia. auto.
Qed.

Lemma exec_matches_spec_proof : forall evs B, 0 <= B -> Forall nonneg (costs_of evs) ->
  let c := total (costs_of evs) in
  exists t, exec (new B) evs = (t, threshold c <=? B, spec_probe_list B (probe_accs 0 evs)) /\
            (threshold c <= B -> fuel_levels t = spec_levels c B).
Proof.
  intros evs B HB Hn. destruct (exec_live B evs (new B) (live_new B HB) Hn) as (t & E & I & S1 & S2).
  cbn [new remaining] in *. replace (B - B) with 0 in * by lia. cbn zeta in *.
  replace (0 + total (costs_of evs)) with (total (costs_of evs)) in * by lia.
  exists t. split; [exact E|]. intros T. specialize (S1 T).
  pose proof (total_nonneg _ Hn). assert (total (costs_of evs) <= B) by (unfold threshold in T; brk; lia).
  unfold fuel_levels, consumed, get_remaining, spec_levels, sat_sub. rewrite I, S1.
  destruct (B <? B - total (costs_of evs)) eqn:E2; [lia|]. f_equal. lia.
Qed.

(* runs without probes are the observer folded over the costs *)
Lemma exec_instrs : forall costs t,
  exec t (map Instr costs) = (let '(_, t', ok) := watch track t costs in (t', ok, [])).
Proof.
  induction costs as [|c costs IH]; intros t; cbn [map exec watch]; [reflexivity|].
  destruct (track t c) as [t' ok]. destruct ok; [|reflexivity].
  rewrite IH. destruct (watch track t' costs) as [[p t''] ok']. reflexivity.
Qed.

Lemma costs_of_instrs costs : costs_of (map Instr costs) = costs.
Proof. induction costs as [|c l IH]; cbn [map costs_of flat_map app] in *; [reflexivity|]. f_equal. exact IH. Qed.

Lemma probe_accs_instrs : forall costs a, probe_accs a (map Instr costs) = [].
Proof. induction costs as [|c l IH]; intros a; cbn [map probe_accs]; auto. Qed.

(* the tracker over a cost list *)
Lemma watch_track_proof : forall costs B, 0 <= B -> Forall nonneg costs ->
  let c := total costs in
  exists pre, watch track (new B) costs =
    (pre, mk_tracker B (if threshold c <=? B then B - c else 0), threshold c <=? B).
Proof.
  intros costs B HB Hn. cbn zeta.
  assert (Hn' : Forall nonneg (costs_of (map Instr costs))) by (rewrite costs_of_instrs; exact Hn).
  destruct (exec_live B (map Instr costs) (new B) (live_new B HB) Hn') as (t & E & I & S1 & S2).
  cbn [new remaining] in *. cbn zeta in *. rewrite costs_of_instrs in *.
  replace (B - B + total costs) with (total costs) in * by lia.
  rewrite exec_instrs in E. fold (new B) in E. destruct (watch track (new B) costs) as [[p t'] ok].
  injection E as -> ->. exists p. f_equal. f_equal.
  destruct t as [i r]; cbn [initial remaining] in *. rewrite I.
  destruct (threshold (total costs) <=? B) eqn:T; f_equal; [rewrite S1|rewrite S2]; lia.
Qed.

Lemma fuel_threshold_proof : forall (St R : Type) (next : St -> (Z * St) + R) gas s es r B,
  free next gas s = (es, Some r) -> Forall nonneg es -> 0 <= B ->
  let c := total es in
  exists pre, render_with_fuel next gas s B =
    (pre, Some (if threshold c <=? B then Done r (mk_tracker B (B - c)) else Aborted (mk_tracker B 0)))
    /\ (threshold c <= B -> pre = es).
Proof.
  intros St R next gas s es r B F Hn HB. cbn zeta. unfold render_with_fuel.
  rewrite (monitor_prefix_proof next track gas s (new B) es (Some r) F).
  destruct (watch_track_proof es B HB Hn) as (pre & W). cbn zeta in W.
  pose proof (watch_first_refusal_proof track es (new B) _ _ _ W) as (_ & _ & P3).
  rewrite W. exists pre. destruct (threshold (total es) <=? B) eqn:T.
  - split; [reflexivity|]. intros _. apply P3.
  - split; [reflexivity|]. lia.
Qed.

(* ---- levels ---- *)
Inductive reachable (B : Z) : tracker -> Prop :=
| reach_new : reachable B (new B)
| reach_track t c : reachable B t -> nonneg c -> reachable B (fst (track t c)).

Lemma reachable_inv B t : 0 <= B -> reachable B t -> initial t = B /\ 0 <= remaining t <= B.
Proof.
  intros HB. induction 1 as [|t c _ IH Hc].
  - cbn. lia.
  - unfold nonneg in Hc. unfold track, sat_sub. brk; cbn [fst initial remaining]; lia.
Qed.

Lemma levels_add_up_proof : forall B t, 0 <= B -> reachable B t ->
  fst (fuel_levels t) + snd (fuel_levels t) = B /\ 0 <= fst (fuel_levels t) /\ 0 <= snd (fuel_levels t).
Proof.
  intros B t HB Hr. destruct (reachable_inv B t HB Hr) as [I R].
  unfold fuel_levels, consumed, get_remaining, sat_sub; cbn [fst snd]. rewrite I. brk; lia.
Qed.

(* every tracker state of a watched render is reachable *)
Lemma watch_reachable B : forall costs t pre t' ok, Forall nonneg costs -> reachable B t ->
  watch track t costs = (pre, t', ok) -> reachable B t'.
Proof.
  induction costs as [|c costs IH]; intros t pre t' ok Hn Hr W; cbn [watch] in W.
  - inversion W; subst. exact Hr.
  - inversion Hn; subst. pose proof (reach_track B t c Hr H1) as Hr'.
    destruct (track t c) as [t1 ok1]. cbn [fst] in Hr'. destruct ok1.
    + destruct (watch track t1 costs) as [[p t2] ok2] eqn:W2. inversion W; subst. eapply IH; eauto.
    + inversion W; subst. exact Hr'.
Qed.

(* ---- accumulation over nested streams ---- *)
Lemma fuel_accumulates_proof : forall (streams : list (list Z)) B, Forall (Forall nonneg) streams -> 0 <= B ->
  snd (watch track (new B) (concat streams)) = (threshold (fold_right Z.add 0 (map total streams)) <=? B).
Proof.
  intros streams B Hn HB. assert (Hc : Forall nonneg (concat streams)).
  { induction Hn as [|x l Hx _ IH]; cbn [concat]; [constructor|]. apply Forall_app. split; assumption. }
  destruct (watch_track_proof (concat streams) B HB Hc) as (pre & W). cbn zeta in W. rewrite W. cbn [snd].
  rewrite total_concat. reflexivity.
Qed.

(* ---- one tracker over a history of evaluations ---- *)
Lemma exhausted_pinned_proof : forall costs t pre t' ok, remaining t = 0 -> Forall nonneg costs ->
  watch track t costs = (pre, t', ok) -> t' = t /\ ok = (total costs =? 0).
Proof.
  induction costs as [|c costs IH]; intros t pre t' ok R Hn W; cbn [watch] in W.
  - inversion W; subst. split; reflexivity.
  - inversion Hn as [|x l Hc Hn']; subst. unfold nonneg in Hc. rewrite total_cons.
    destruct (Z.eq_dec c 0) as [->|Hc0].
    + rewrite track_zero in W. destruct (watch track t costs) as [[p t2] ok2] eqn:W2. inversion W; subst.
      destruct (IH t p t' ok R Hn' W2) as [-> ->]. split; reflexivity.
    + rewrite track_pos in W by lia. rewrite R in W. unfold sat_sub in W.
      destruct (0 <? c) eqn:E; [|lia]. cbn [Z.eqb negb] in W. inversion W; subst.
      pose proof (total_nonneg _ Hn'). split.
      * destruct t as [i r]; cbn [initial remaining] in *. subst. reflexivity.
      * destruct (c + total costs =? 0) eqn:E2; [lia|reflexivity].
Qed.

Lemma remaining_decreases : forall costs t pre t' ok, 0 <= remaining t -> Forall nonneg costs ->
  watch track t costs = (pre, t', ok) -> initial t' = initial t /\ 0 <= remaining t' <= remaining t.
Proof.
  induction costs as [|c costs IH]; intros t pre t' ok R Hn W; cbn [watch] in W.
  - inversion W; subst. lia.
  - inversion Hn as [|x l Hc Hn']; subst. unfold nonneg in Hc.
    assert (T : initial (fst (track t c)) = initial t /\ 0 <= remaining (fst (track t c)) <= remaining t).
    { unfold track, sat_sub. brk; cbn [fst initial remaining]; lia. }
    destruct (track t c) as [t1 ok1]. cbn [fst] in T. destruct ok1.
    + destruct (watch track t1 costs) as [[p t2] ok2] eqn:W2. inversion W; subst.
      destruct (IH t1 p t' ok ltac:(lia) Hn' W2). lia.
    + inversion W; subst. exact T.
Qed.

Lemma run_ops_reachable B : forall ops t, Forall (Forall nonneg) ops -> reachable B t -> reachable B (run_ops t ops).
Proof.
  induction ops as [|costs ops IH]; intros t Hn Hr; cbn [run_ops]; [exact Hr|].
  inversion Hn; subst. destruct (watch track t costs) as [[p t1] ok1] eqn:W.
  apply IH; [assumption|]. exact (watch_reachable B costs t p t1 ok1 H1 Hr W).
Qed.

(* ---- the real cost function ---- *)
Lemma fuel_table_nonneg : forallb (fun e => 0 <=? snd e) fuel_table = true.
Proof. vm_compute. reflexivity. Qed.

Lemma lookup_cost_nonneg op : forall t c, forallb (fun e => 0 <=? snd e) t = true -> lookup_cost op t = Some c -> 0 <= c.
Proof.
  induction t as [|[o c0] t IH]; intros c H L; cbn [lookup_cost forallb snd] in *; [discriminate|].
  apply andb_prop in H as [H1 H2]. destruct (o =? op); [inversion L; subst; lia|exact (IH c H2 L)].
Qed.

Lemma stream_costs_nonneg : forall ops costs, stream_costs ops = Some costs -> Forall nonneg costs.
Proof.
  induction ops as [|op ops IH]; intros costs H; cbn [stream_costs] in H.
  - inversion H; constructor.
  - destruct (cost_of op) as [c|] eqn:C; [|discriminate].
    destruct (stream_costs ops) as [cs|]; [|discriminate]. inversion H; subst.
    constructor; [exact (lookup_cost_nonneg op fuel_table c fuel_table_nonneg C)|apply IH; reflexivity].
Qed.

Lemma stream_costs_length : forall ops costs, stream_costs ops = Some costs -> length costs = length ops.
Proof.
  induction ops as [|op ops IH]; intros costs H; cbn [stream_costs] in H.
  - inversion H; reflexivity.
  - destruct (cost_of op); [|discriminate]. destruct (stream_costs ops) as [cs|]; [|discriminate].
    inversion H; subst. cbn [length]. f_equal. apply IH. reflexivity.
Qed.

Lemma trace_threshold_proof : forall ops costs B, stream_costs ops = Some costs -> 0 <= B ->
  let c := total costs in
  exists pre, watch track (new B) costs =
    (pre, mk_tracker B (if threshold c <=? B then B - c else 0), threshold c <=? B).
Proof. intros ops costs B H HB. exact (watch_track_proof costs B HB (stream_costs_nonneg ops costs H)). Qed.

(* ---- what the check found in the code before the fix (isize counter) ---- *)
Example threshold_refuted_before_fix :
  (* budget 2^63, one charged instruction: debug build panics *)
  run_isize true (new_isize (2 ^ 63)) [1] = Panic /\
  (* budget u64::MAX, one charged instruction: out of fuel although the threshold is 2 *)
  (exists t, run_isize false (new_isize u64_max) [1] = Ok (t, false)) /\
  threshold (total [1]) <= 2 ^ 63.
Proof. split; [vm_compute; reflexivity|]. split; [eexists; vm_compute; reflexivity|]. vm_compute. discriminate. Qed.
