(* Executable entry points of the C13 model (integer-list protocol shared with harness/src/bin/c13.rs).
   input : prog n m k B fr ev1..evn     prog/n/m/k identify the template program (ignored here);
           B budget; fr = 0 when the unlimited render succeeds, else its ErrorKind code;
           events of the unlimited run: 0 / 1 = an instruction of that cost, 2 = probe()
   output: Ok  -> 0 same det consumed remaining np (c_i r_i)*
           Err -> 1 kind det np (c_i r_i)*
   Encoders/decoders are unverified glue. *)
From Coq Require Import String.
From MJ Require Import Common.Base.
From MJ Require Import C13.Model C13.Spec.

Definition dec_event (z : Z) : event := if z =? 2 then Probe else Instr z.

Fixpoint enc_probes (ps : list (Z * Z)) : list Z :=
  match ps with [] => [] | (a, b) :: r => a :: b :: enc_probes r end.

Definition run (inp : list Z) : list Z :=
  match inp with
  | _ :: _ :: _ :: _ :: B :: fr :: evs =>
      let '(t, ok, ps) := exec (new B) (map dec_event evs) in
      (if ok then (if fr =? 0 then let (c, r) := fuel_levels t in [0; 1; 1; c; r] else [1; fr; 1])
       else [1; E_OutOfFuel; 1]) ++ lenZ ps :: enc_probes ps
  | _ => [9]
  end.

(* the specification on its own, from the unlimited run's cost and probe positions *)
Definition spec (inp : list Z) : list Z :=
  match inp with
  | _ :: _ :: _ :: _ :: B :: fr :: evs =>
      let evs := map dec_event evs in
      let c := total (costs_of evs) in
      let ps := spec_probe_list B (probe_accs 0 evs) in
      match spec_verdict c B with
      | SameAsUnlimited => if fr =? 0 then let (a, r) := spec_levels c B in [0; 1; 1; a; r] else [1; fr; 1]
      | OutOfFuelError => [1; E_OutOfFuel; 1]
      end ++ lenZ ps :: enc_probes ps
  | _ => [9]
  end.

(* the tracker before the fix, same protocol (2 = panic); profile: n of the case is unused, so the
   check passes the profile in a separate runner name *)
Definition run_old (debug : bool) (inp : list Z) : list Z :=
  match inp with
  | _ :: _ :: _ :: _ :: B :: fr :: evs =>
      match run_isize debug (new_isize B) (costs_of (map dec_event evs)) with
      | Ok (t, true) => if fr =? 0 then let (c, r) := levels_isize t in [0; 1; 1; c; r] else [1; fr; 1]
      | Ok (_, false) => [1; E_OutOfFuel; 1]
      | Err c => [1; c; 1]
      | Panic => [2]
      | OutOfGas => [8]
      end
  | _ => [9]
  end.

(* cost-table part.  input: B op_1..op_n (opcode ids of the executed trace of the unlimited render)
   output: 7 (unknown opcode) | ok(0/1) consumed remaining asked total
   asked = number of instructions about which the tracker is consulted under budget B *)
Definition run_trace (inp : list Z) : list Z :=
  match inp with
  | B :: ops =>
      match stream_costs ops with
      | None => [7]
      | Some costs =>
          let '(pre, t, ok) := watch track (new B) costs in
          [if ok then 0 else 1; consumed t; get_remaining t; lenZ pre + (if ok then 0 else 1); total costs]
      end
  | _ => [9]
  end.

(* history part.  input: B (n_1 c_11..c_1n_1) (n_2 ...) ...   the costs of the instructions each operation
   executes when fuel never runs out;  output: per operation  ok(0/1) consumed remaining *)
Fixpoint split_ops (gas : nat) (inp : list Z) : list (list Z) :=
  match gas, inp with
  | S g, n :: r => takeZ n r :: split_ops g (skipZ n r)
  | _, _ => []
  end.
Fixpoint run_hist (t : tracker) (ops : list (list Z)) : list Z :=
  match ops with
  | [] => []
  | costs :: r =>
      let '(_, t', ok) := watch track t costs in
      (if ok then 0 else 1) :: consumed t' :: get_remaining t' :: run_hist t' r
  end.
Definition run_history (inp : list Z) : list Z :=
  match inp with
  | B :: r => run_hist (new B) (split_ops (length r) r)
  | _ => [9]
  end.

Open Scope string_scope.
Definition runners : list (string * (list Z -> list Z)) :=
  [ ("c13", run); ("c13-spec", spec); ("c13-old-debug", run_old true); ("c13-old-release", run_old false);
    ("c13-trace", run_trace); ("c13-history", run_history) ].
