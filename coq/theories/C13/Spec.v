(* C13 specification, from the property text:
   "each render has a fixed fuel threshold: it succeeds with exactly the unlimited-fuel output for
    every budget at or above the threshold and fails with an out-of-fuel error for every budget
    below it, and never yields a different output or a different error.  The consumed and remaining
    amounts reported by the state always add up to the budget, consumption is the same on every
    repetition, and it accumulates across the macros, includes and inherited blocks of one render."

   The threshold is a function of the unlimited run alone, namely of its cost c = the number of
   charged instructions it executes (over all nested evaluations): a render that charges nothing
   needs nothing; otherwise one unit must be left after the last charge ("fuel B lets fewer than
   B charged instructions run"; Environment::set_fuel's doc). *)
From MJ Require Import Common.Base.

Definition total (costs : list Z) : Z := fold_right Z.add 0 costs.

Definition threshold (c : Z) : Z := if c =? 0 then 0 else c + 1.

Inductive verdict := SameAsUnlimited | OutOfFuelError.

Definition spec_verdict (c B : Z) : verdict :=
  if threshold c <=? B then SameAsUnlimited else OutOfFuelError.

(* levels reported after c units were consumed under budget B *)
Definition spec_levels (c B : Z) : Z * Z := (c, B - c).

(* what a reader of fuel_levels placed after [acc] consumed units sees: it is reached iff the
   budget is at or above the threshold of the part of the run that precedes it *)
Definition spec_probe (acc B : Z) : option (Z * Z) :=
  if threshold acc <=? B then Some (spec_levels acc B) else None.

(* the readings of a budget-B run, given the consumption at each reader in the unlimited run *)
Definition spec_probe_list (B : Z) (accs : list Z) : list (Z * Z) :=
  flat_map (fun a => match spec_probe a B with Some l => [l] | None => [] end) accs.
