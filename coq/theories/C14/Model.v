(* C14 model: where errors point.

   Part 1  minijinja/src/compiler/lexer.rs  Tokenizer::{advance, loc, span, syntax_error}
           (positions over code-point lists, u16 saturation of line and column as in the code)
           and the tokenizer that drives them for the default syntax / default whitespace
           configuration (tokenize_root, handle_start_marker, tokenize_block_or_var, eat_string,
           eat_number (decimal integers), eat_identifier).  The tokenizer is split into a
           *scanner* (what to consume: counts of code points) and an *interpreter* of the four
           position primitives; every theorem of C14 is about the interpreter and therefore
           holds for any scanner.
   Part 2  minijinja/src/compiler/parser.rs  TokenStream::expand_span
   Part 3  minijinja/src/compiler/instructions.rs  add_line_record, add_with_line,
           add_with_span, get_line, get_span (with slice::binary_search_by_key as in core)
   Part 4  minijinja/src/debug.rs  the caret arithmetic of render_debug_info

   [V0] is the code as it was shipped (kept for the refuted examples), [V1] the code after the
   fix: commits of this property.  No proofs in this file. *)
From MJ Require Import Common.Base.

Inductive variant := V0 | V1.

(* ------------------------------------------------------------------------------------ *)
(* Part 1a: positions                                                                    *)
(* ------------------------------------------------------------------------------------ *)
Definition utf8_len (c : Z) : Z :=
  if c <? 128 then 1 else if c <? 2048 then 2 else if c <? 65536 then 3 else 4.

Definition u16_max := 65535.
(* u16::saturating_add(1) *)
Definition sat_inc (x : Z) : Z := if x <? u16_max then x + 1 else u16_max.

(* (current_line, current_col, current_offset) *)
Record pos := mkpos { p_line : Z; p_col : Z; p_off : Z }.
Definition pos0 := mkpos 1 0 0.
Definition NL := 10.

(* one iteration of the loop in Tokenizer::advance; current_offset += bytes is the sum *)
Definition step (p : pos) (c : Z) : pos :=
  if c =? NL then mkpos (sat_inc (p_line p)) 0 (p_off p + utf8_len c)
  else mkpos (p_line p) (sat_inc (p_col p)) (p_off p + utf8_len c).

Definition advance (p : pos) (cs : list Z) : pos := fold_left step cs p.

Record span := mkspan { s_sl : Z; s_sc : Z; s_so : Z; s_el : Z; s_ec : Z; s_eo : Z }.
Definition span_default := mkspan 0 0 0 0 0 0.

(* Tokenizer::span(old_loc) *)
Definition mk_span (a b : pos) : span :=
  mkspan (p_line a) (p_col a) (p_off a) (p_line b) (p_col b) (p_off b).

(* Tokenizer::syntax_error: an empty span at the current position, widened by one.
   V0: end_col += 1 (u16: overflow trap in a debug build, wrap to 0 in release = Panic here),
       end_offset += 1, i.e. one byte.
   V1: end_col saturating +1, end_offset += length of the next character (0 at end of input). *)
Definition syntax_error (v : variant) (p : pos) (rest : list Z) : option span :=
  match v with
  | V0 => if p_col p =? u16_max then None
          else Some (mkspan (p_line p) (p_col p) (p_off p) (p_line p) (p_col p + 1) (p_off p + 1))
  | V1 => Some (mkspan (p_line p) (p_col p) (p_off p) (p_line p) (sat_inc (p_col p))
                       (p_off p + match rest with [] => 0 | c :: _ => utf8_len c end))
  end.

(* ------------------------------------------------------------------------------------ *)
(* Part 1b: the interpreter of the position primitives                                   *)
(* ------------------------------------------------------------------------------------ *)
Inductive op :=
| Adv (n : nat)      (* self.advance(bytes) where bytes = the UTF-8 length of the next n characters *)
| Mark               (* let old_loc = self.loc() *)
| Emit (kind : Z)    (* (token, self.span(old_loc)) *)
| SynErr.            (* return Err(self.syntax_error(..)) *)

Record ist := mkist { i_pos : pos; i_rest : list Z; i_mark : pos; i_out : list (Z * span) (* newest first *) }.

Inductive ires :=
| IOk (s : ist)
| IErr (s : ist) (e : span)
| IPanic.

(* the loop of Tokenizer::advance over the next n characters; None = fewer than n left *)
Fixpoint adv_n (n : nat) (p : pos) (l : list Z) : option (pos * list Z) :=
  match n with
  | O => Some (p, l)
  | S n => match l with
           | [] => None
           | c :: r => adv_n n (step p c) r
           end
  end.

Definition run_op (v : variant) (o : op) (s : ist) : ires :=
  match o with
  | Adv n => match adv_n n (i_pos s) (i_rest s) with
             | None => IPanic                       (* slice index out of range *)
             | Some (p, rest) => IOk (mkist p rest (i_mark s) (i_out s))
             end
  | Mark => IOk (mkist (i_pos s) (i_rest s) (i_pos s) (i_out s))
  | Emit k => IOk (mkist (i_pos s) (i_rest s) (i_mark s) ((k, mk_span (i_mark s) (i_pos s)) :: i_out s))
  | SynErr => match syntax_error v (i_pos s) (i_rest s) with
              | Some e => IErr s e
              | None => IPanic
              end
  end.

Fixpoint run_ops (v : variant) (ops : list op) (s : ist) : ires :=
  match ops with
  | [] => IOk s
  | o :: r => match run_op v o s with
              | IOk s' => run_ops v r s'
              | other => other
              end
  end.

(* ------------------------------------------------------------------------------------ *)
(* Part 1c: the scanner (default delimiters; lstrip_blocks, trim_blocks off)             *)
(* ------------------------------------------------------------------------------------ *)
Inductive mode := MTemplate | MVar | MBlock.
Inductive marker := MkVar | MkBlock | MkComment.
Inductive wsctl := WsDefault | WsPreserve | WsRemove.

Record lst := mklst { l_mode : mode; l_pending : option (marker * nat); l_trim : bool; l_bal : Z }.
Definition lst0 := mklst MTemplate None false 0.

Inductive scan_res :=
| SOps (ops : list op) (l : lst)
| SUnsupported.          (* raw blocks, floats, radix / underscore numbers, escapes: outside the modelled fragment *)

(* char::is_whitespace *)
Definition is_ws_uni (c : Z) : bool :=
  ((9 <=? c) && (c <=? 13)) || (c =? 32) || (c =? 133) || (c =? 160) || (c =? 5760)
  || ((8192 <=? c) && (c <=? 8202)) || (c =? 8232) || (c =? 8233) || (c =? 8239) || (c =? 8287) || (c =? 12288).
(* u8::is_ascii_whitespace *)
Definition is_ws_ascii (c : Z) : bool := (c =? 9) || (c =? 10) || (c =? 12) || (c =? 13) || (c =? 32).
Definition is_digit (c : Z) : bool := (48 <=? c) && (c <=? 57).
Definition is_alpha (c : Z) : bool := ((65 <=? c) && (c <=? 90)) || ((97 <=? c) && (c <=? 122)).

Definition ws_of (o : option Z) : wsctl :=
  match o with
  | Some 45 => WsRemove
  | Some 43 => WsPreserve
  | _ => WsDefault
  end.
Definition ws_len (w : wsctl) : nat := match w with WsDefault => 0 | _ => 1 end.

Fixpoint count_while (p : Z -> bool) (l : list Z) : nat :=
  match l with
  | c :: r => if p c then S (count_while p r) else O
  | [] => O
  end.

(* length of str::trim_end() in characters *)
Fixpoint trim_end_len (l : list Z) : nat :=
  match l with
  | [] => O
  | c :: r => let k := trim_end_len r in
              if (Nat.eqb k 0) && is_ws_uni c then O else S k
  end.

(* find_start_marker_memchr: index of the first '{' followed by '{', '%' or '#' *)
Fixpoint find_marker (l : list Z) (i : nat) : option (nat * marker * wsctl) :=
  match l with
  | [] => None
  | c :: r =>
      if c =? 123 then
        match r with
        | d :: r2 =>
            if d =? 123 then Some (i, MkVar, ws_of (hd_error r2))
            else if d =? 37 then Some (i, MkBlock, ws_of (hd_error r2))
            else if d =? 35 then Some (i, MkComment, ws_of (hd_error r2))
            else find_marker r (S i)
        | [] => None
        end
      else find_marker r (S i)
  end.

(* memstr for a two-byte needle *)
Fixpoint find2 (a b : Z) (l : list Z) (i : nat) : option nat :=
  match l with
  | c :: r => match r with
              | d :: _ => if (c =? a) && (d =? b) then Some i else find2 a b r (S i)
              | [] => None
              end
  | [] => None
  end.

Fixpoint starts_with (p l : list Z) : bool :=
  match p with
  | [] => true
  | a :: p' => match l with
               | b :: l' => (a =? b) && starts_with p' l'
               | [] => false
               end
  end.

(* skip_basic_tag(block_str, "raw", "%}", false).is_some() *)
Definition is_raw_tag (l : list Z) : bool :=
  let l1 := skipn (count_while is_ws_ascii l) l in
  if starts_with [114; 97; 119] l1 then
    let l2 := skipn 3 l1 in
    let l3 := skipn (count_while is_ws_ascii l2) l2 in
    let l4 := match l3 with c :: r => if (c =? 45) || (c =? 43) then r else l3 | [] => l3 end in
    starts_with [37; 125] l4
  else false.

Definition nth_opt (l : list Z) (n : nat) : option Z := nth_error l n.

(* handle_start_marker *)
Definition scan_marker (l : lst) (rest : list Z) (mk : marker) (skip : nat) : scan_res :=
  match mk with
  | MkComment =>
      let body := skipn skip rest in
      match find2 35 125 body O with
      | Some e =>
          (* Whitespace::from_byte(rest_bytes().get(end.saturating_sub(1) + skip)) *)
          let w := ws_of (nth_opt rest (Nat.pred e + skip)) in
          SOps [Adv (e + skip + 2)]
               (mklst MTemplate None (match w with WsRemove => true | _ => l_trim l end) (l_bal l))
      | None => SOps [Adv (length rest); SynErr] l
      end
  | MkVar => SOps [Mark; Adv skip; Emit 1] (mklst MVar None (l_trim l) (l_bal l))
  | MkBlock =>
      if is_raw_tag (skipn skip rest) then SUnsupported
      else SOps [Mark; Adv skip; Emit 3] (mklst MBlock None (l_trim l) (l_bal l))
  end.

(* tokenize_root *)
Definition scan_root (l : lst) (rest : list Z) : scan_res :=
  match l_pending l with
  | Some (mk, skip) => scan_marker (mklst (l_mode l) None (l_trim l) (l_bal l)) rest mk skip
  | None =>
      let nws := if l_trim l then count_while is_ws_uni rest else O in
      let pre := if Nat.eqb nws 0 then [] else [Adv nws] in
      let rest1 := skipn nws rest in
      match find_marker rest1 O with
      | Some (start, mk, w) =>
          let l' := mklst MTemplate (Some (mk, (2 + ws_len w)%nat)) false (l_bal l) in
          match w with
          | WsRemove =>
              let t := trim_end_len (firstn start rest1) in
              SOps (pre ++ [Mark; Adv t] ++ (if Nat.eqb t 0 then [] else [Emit 0]) ++ [Adv (start - t)]) l'
          | _ => SOps (pre ++ [Mark; Adv start] ++ (if Nat.eqb start 0 then [] else [Emit 0])) l'
          end
      | None =>
          let n := length rest1 in
          SOps (pre ++ [Mark; Adv n] ++ (if Nat.eqb n 0 then [] else [Emit 0]))
               (mklst MTemplate None false (l_bal l))
      end
  end.

Fixpoint digits_value (l : list Z) (n : nat) (acc : Z) : Z :=
  match n with
  | O => acc
  | S n => match l with
           | c :: r => digits_value r n (acc * 10 + (c - 48))
           | [] => acc
           end
  end.

(* eat_string: number of characters after the opening quote up to the unescaped delimiter;
   None = ran into the end of the input; the boolean = a backslash was seen *)
Fixpoint scan_string (delim : Z) (l : list Z) (escaped : bool) (n : nat) (esc : bool) : option (nat * bool) :=
  match l with
  | [] => None
  | c :: r =>
      if escaped then scan_string delim r false (S n) esc
      else if c =? 92 then scan_string delim r true (S n) true
      else if c =? delim then Some (n, esc)
      else scan_string delim r false (S n) esc
  end.

Definition two_char_op (a b : Z) : bool :=
  ((a =? 47) && (b =? 47)) || ((a =? 42) && (b =? 42)) || ((a =? 61) && (b =? 61))
  || ((a =? 33) && (b =? 61)) || ((a =? 62) && (b =? 61)) || ((a =? 60) && (b =? 61)).

(* + - * / % . , : ~ | = > < *)
Definition one_char_op (c : Z) : bool :=
  (c =? 43) || (c =? 45) || (c =? 42) || (c =? 47) || (c =? 37) || (c =? 46) || (c =? 44)
  || (c =? 58) || (c =? 126) || (c =? 124) || (c =? 61) || (c =? 62) || (c =? 60).
Definition is_open (c : Z) : bool := (c =? 40) || (c =? 91) || (c =? 123).
Definition is_close (c : Z) : bool := (c =? 41) || (c =? 93) || (c =? 125).

(* tokenize_block_or_var; [e1 e2] = the end delimiter, [endk] the kind of the end token *)
Definition scan_tag (l : lst) (rest : list Z) (e1 e2 : Z) (endk : Z) : scan_res :=
  let nws := count_while is_ws_ascii rest in
  if negb (Nat.eqb nws 0) then SOps [Mark; Adv nws] l
  else
  match rest with
  | [] => SOps [] l
  | c :: r =>
      let d := hd_error r in
      let after_sign := match r with _ :: r2 => r2 | [] => [] end in
      if (l_bal l =? 0) && ((c =? 45) || (c =? 43)) && starts_with [e1; e2] r then
        SOps [Mark; Adv 3; Emit endk] (mklst MTemplate None ((c =? 45) || l_trim l) (l_bal l))
      else if (l_bal l =? 0) && starts_with [e1; e2] rest then
        SOps [Mark; Adv 2; Emit endk] (mklst MTemplate None (l_trim l) (l_bal l))
      else if match d with Some d => two_char_op c d | None => false end then
        SOps [Mark; Adv 2; Emit 9] l
      else if one_char_op c then SOps [Mark; Adv 1; Emit 9] l
      else if is_open c then SOps [Mark; Adv 1; Emit 9] (mklst (l_mode l) None (l_trim l) (l_bal l + 1))
      else if is_close c then SOps [Mark; Adv 1; Emit 9] (mklst (l_mode l) None (l_trim l) (l_bal l - 1))
      else if (c =? 39) || (c =? 34) then
        match scan_string c r false O false with
        | None => SOps [Mark; Adv (length rest); SynErr] l
        | Some (n, esc) => if esc then SUnsupported else SOps [Mark; Adv (n + 2); Emit 6] l
        end
      else if is_digit c then
        let n := count_while is_digit rest in
        let nxt := nth_opt rest n in
        let radix := (c =? 48) && match d with
                                  | Some d => (d =? 98) || (d =? 66) || (d =? 111) || (d =? 79) || (d =? 120) || (d =? 88)
                                  | None => false
                                  end in
        let more := match nxt with
                    | Some x => (x =? 46) || (x =? 101) || (x =? 69) || (x =? 95)
                    | None => false
                    end in
        if radix || more then SUnsupported
        else if digits_value rest n 0 <=? u128_max then SOps [Mark; Adv n; Emit 7] l
        else SOps [Mark; Adv n; SynErr] l
      else
        let n := if (c =? 95) || is_alpha c
                 then S (count_while (fun x => (x =? 95) || is_alpha x || is_digit x) r) else O in
        if Nat.eqb n 0 then SOps [Mark; SynErr] l
        else SOps [Mark; Adv n; Emit 5] l
  end.

Definition scan (l : lst) (rest : list Z) : scan_res :=
  match l_mode l with
  | MTemplate => scan_root l rest
  | MVar => scan_tag l rest 125 125 2
  | MBlock => scan_tag l rest 37 125 4
  end.

(* ------------------------------------------------------------------------------------ *)
(* Part 1d: the tokenizer loop (Tokenizer::next_token until the end or the first error)  *)
(* ------------------------------------------------------------------------------------ *)
Inductive tres :=
| TDone (s : ist)
| TErr (s : ist) (e : span)
| TPanic
| TUnsupported
| TOutOfGas.

Fixpoint tok_loop (v : variant) (fuel : nat) (l : lst) (s : ist) : tres :=
  match fuel with
  | O => TOutOfGas
  | S fuel =>
      match i_rest s with
      | [] => TDone s
      | _ =>
          match scan l (i_rest s) with
          | SUnsupported => TUnsupported
          | SOps ops l' =>
              match run_ops v ops s with
              | IOk s' => tok_loop v fuel l' s'
              | IErr s' e => TErr s' e
              | IPanic => TPanic
              end
          end
      end
  end.

(* Tokenizer::new with keep_trailing_newline = false drops one trailing "\n" and then one "\r" *)
Definition strip_trailing (src : list Z) : list Z :=
  let r := rev_append src [] in
  let r := match r with c :: t => if c =? 10 then t else r | [] => r end in
  let r := match r with c :: t => if c =? 13 then t else r | [] => r end in
  rev_append r [].

Definition init_ist (p : pos) (src : list Z) : ist := mkist p src p [].

Definition tokenize (v : variant) (keep_nl : bool) (src : list Z) : tres :=
  let src := if keep_nl then src else strip_trailing src in
  tok_loop v (2 * length src + 4) lst0 (init_ist pos0 src).

(* ------------------------------------------------------------------------------------ *)
(* Part 2: TokenStream::expand_span                                                      *)
(* ------------------------------------------------------------------------------------ *)
(* V0: the end of [last] is copied unconditionally.  V1: when nothing has been consumed
   since [sp] was taken from the look-ahead token ([last] ends before [sp] starts) the
   result is the empty span at the start of [sp]. *)
Definition expand_span (v : variant) (last sp : span) : span :=
  match v with
  | V0 => mkspan (s_sl sp) (s_sc sp) (s_so sp) (s_el last) (s_ec last) (s_eo last)
  | V1 => if s_eo last <? s_so sp
          then mkspan (s_sl sp) (s_sc sp) (s_so sp) (s_sl sp) (s_sc sp) (s_so sp)
          else mkspan (s_sl sp) (s_sc sp) (s_so sp) (s_el last) (s_ec last) (s_eo last)
  end.

(* ------------------------------------------------------------------------------------ *)
(* Part 3: the instruction -> line / span side tables                                    *)
(* ------------------------------------------------------------------------------------ *)
Record linfo := mklinfo { li_first : Z; li_line : Z }.
Record sinfo := mksinfo { si_first : Z; si_span : span }.
(* Vec push = append at the end *)
Record instrs := mkinstrs { n_instr : Z; line_infos : list linfo; span_infos : list sinfo }.
Definition instrs0 := mkinstrs 0 [] [].

Definition span_eqb (a b : span) : bool :=
  (s_sl a =? s_sl b) && (s_sc a =? s_sc b) && (s_so a =? s_so b)
  && (s_el a =? s_el b) && (s_ec a =? s_ec b) && (s_eo a =? s_eo b).

Fixpoint last_opt {A} (l : list A) : option A :=
  match l with
  | [] => None
  | x :: r => match r with [] => Some x | _ => last_opt r end
  end.

Definition add_line_record (ls : list linfo) (instr line : Z) : list linfo :=
  match last_opt ls with
  | Some x => if li_line x =? line then ls else ls ++ [mklinfo instr line]
  | None => ls ++ [mklinfo instr line]
  end.

(* Instructions::add *)
Definition add_plain (t : instrs) : instrs := mkinstrs (n_instr t + 1) (line_infos t) (span_infos t).

Definition add_with_line (t : instrs) (line : Z) : instrs :=
  let rv := n_instr t in
  let ss := match last_opt (span_infos t) with
            | Some x => if span_eqb (si_span x) span_default then span_infos t
                        else span_infos t ++ [mksinfo rv span_default]
            | None => span_infos t
            end in
  mkinstrs (rv + 1) (add_line_record (line_infos t) rv line) ss.

Definition add_with_span (t : instrs) (sp : span) : instrs :=
  let rv := n_instr t in
  let ss := match last_opt (span_infos t) with
            | Some x => if span_eqb (si_span x) sp then span_infos t else span_infos t ++ [mksinfo rv sp]
            | None => span_infos t ++ [mksinfo rv sp]
            end in
  mkinstrs (rv + 1) (add_line_record (line_infos t) rv (s_sl sp)) ss.

(* core::slice::binary_search_by (Rust 1.95):
     let mut size = len; if size == 0 { return Err(0) }
     let mut base = 0;
     while size > 1 { let half = size / 2; let mid = base + half;
                      base = if key(mid) > x { base } else { mid }; size -= half; }
     if key(base) == x { Ok(base) } else { Err(base + (key(base) < x) as usize) }           *)
Inductive bres := BFound (i : nat) | BInsert (i : nat).

Fixpoint bs_loop (fuel : nat) (keys : list Z) (x : Z) (base size : nat) : nat :=
  match fuel with
  | O => base
  | S fuel =>
      if (size <=? 1)%nat then base
      else let half := Nat.div2 size in
           let mid := (base + half)%nat in
           let base' := if x <? nth mid keys 0 then base else mid in
           bs_loop fuel keys x base' (size - half)
  end.

Definition bsearch (keys : list Z) (x : Z) : bres :=
  match keys with
  | [] => BInsert 0
  | _ => let base := bs_loop (length keys) keys x 0 (length keys) in
         let k := nth base keys 0 in
         if k =? x then BFound base else BInsert (if k <? x then S base else base)
  end.

Definition get_line (t : instrs) (idx : Z) : option Z :=
  match bsearch (map li_first (line_infos t)) idx with
  | BFound i => option_map li_line (nth_error (line_infos t) i)
  | BInsert O => None
  | BInsert (S i) => option_map li_line (nth_error (line_infos t) i)
  end.

Definition get_span (t : instrs) (idx : Z) : option span :=
  let r := match bsearch (map si_first (span_infos t)) idx with
           | BFound i => nth_error (span_infos t) i
           | BInsert O => None
           | BInsert (S i) => nth_error (span_infos t) i
           end in
  match r with
  | Some x => if span_eqb (si_span x) span_default then None else Some (si_span x)
  | None => None
  end.

Inductive iop := OAdd | OLine (line : Z) | OSpan (sp : span).
Definition apply_iop (t : instrs) (o : iop) : instrs :=
  match o with
  | OAdd => add_plain t
  | OLine l => add_with_line t l
  | OSpan sp => add_with_span t sp
  end.
Definition build (ops : list iop) : instrs := fold_left apply_iop ops instrs0.

(* ------------------------------------------------------------------------------------ *)
(* Part 4: debug.rs::render_debug_info, the caret line                                   *)
(* ------------------------------------------------------------------------------------ *)
(* "^".repeat(span.end_col as usize - span.start_col as usize) when both ends are on one line.
   V0: usize subtraction (trap in debug, a 2^64-ish repeat in release = Panic).
   V1: saturating_sub. *)
Definition caret_count (v : variant) (sp : span) : outcome Z :=
  if s_sl sp =? s_el sp then
    match v with
    | V0 => if s_ec sp <? s_sc sp then Panic else Ok (s_ec sp - s_sc sp)
    | V1 => Ok (Z.max 0 (s_ec sp - s_sc sp))
    end
  else Ok 0.
