(* C14 proofs.  Part A: positions, interpreter invariant, shift equivariance.  Part B: expand_span, carets.
   Part C: the side tables (binary search, semantic invariant).  Part D: the statements used by Props/C14.v. *)
From MJ Require Import Common.Base Common.ListLemmas C14.Model C14.Spec.

Ltac brk :=
  repeat match goal with
         | |- context [if ?c then _ else _] => destruct c eqn:?
         | H : context [if ?c then _ else _] |- _ => destruct c eqn:?
         end.

(* ---------------------------------------------------------------- basic facts *)
Fixpoint bytes (l : list Z) : Z := match l with [] => 0 | c :: r => utf8_len c + bytes r end.
Fixpoint count_nl (l : list Z) : Z := match l with [] => 0 | c :: r => (if c =? NL then 1 else 0) + count_nl r end.

Lemma utf8_len_pos c : 1 <= utf8_len c <= 4.
Proof. unfold utf8_len. brk; lia. Qed.

Lemma enc_len_utf8 c : enc_len c = utf8_len c.
Proof. unfold enc_len, utf8_len. brk; lia. Qed.

Lemma bytes_nonneg l : 0 <= bytes l.
Proof. induction l as [|c r IH]; cbn [bytes]; [lia|]. pose proof (utf8_len_pos c). lia. Qed.

Lemma count_nl_nonneg l : 0 <= count_nl l.
Proof. induction l as [|c r IH]; cbn [count_nl]; [lia|]. brk; lia. Qed.

Lemma bytes_app a b : bytes (a ++ b) = bytes a + bytes b.
Proof. induction a as [|c r IH]; cbn [bytes app]; lia. Qed.

Lemma count_nl_app a b : count_nl (a ++ b) = count_nl a + count_nl b.
Proof. induction a as [|c r IH]; cbn [count_nl app]; lia. Qed.

Lemma byte_len_bytes l : byte_len l = bytes l.
Proof.
  unfold byte_len. assert (H : forall a, fold_left (fun a c => a + enc_len c) l a = a + bytes l).
  { induction l as [|c r IH]; intros a; cbn [fold_left bytes]; [lia|]. rewrite IH, enc_len_utf8. lia. }
  rewrite H. lia.
Qed.

Lemma advance_app p a b : advance p (a ++ b) = advance (advance p a) b.
Proof. unfold advance. apply fold_left_app. Qed.

Lemma advance_cons p c r : advance p (c :: r) = advance (step p c) r.
Proof. reflexivity. Qed.

Lemma advance_off l : forall p, p_off (advance p l) = p_off p + bytes l.
Proof.
  induction l as [|c r IH]; intros p; [cbn; lia|].
  rewrite advance_cons, IH. cbn [bytes]. unfold step. brk; cbn [p_off]; lia.
Qed.

Lemma sat_inc_le x : x <= u16_max -> sat_inc x <= u16_max.
Proof. unfold sat_inc, u16_max. brk; lia. Qed.

(* the line is 1 + the number of line feeds consumed, saturating at 65 535 *)
Lemma advance_line l : forall p, p_line p <= u16_max ->
  p_line (advance p l) = Z.min u16_max (p_line p + count_nl l).
Proof.
  induction l as [|c r IH]; intros p Hp.
  - cbn. lia.
  - rewrite advance_cons, IH.
    + cbn [count_nl]. pose proof (count_nl_nonneg r). unfold step, sat_inc, u16_max in *. brk; cbn [p_line]; lia.
    + unfold step. brk; cbn [p_line]; auto. apply sat_inc_le; exact Hp.
Qed.

Lemma advance_line_exact l p : p_line p + count_nl l <= u16_max ->
  p_line (advance p l) = p_line p + count_nl l.
Proof. intros H. pose proof (count_nl_nonneg l). rewrite advance_line by lia. lia. Qed.

(* no line feed: the column only grows *)
Lemma step_col_le p c : p_col p <= u16_max -> p_col (step p c) <= u16_max.
Proof. unfold step, sat_inc, u16_max. intros. brk; cbn [p_col]; lia. Qed.

Lemma advance_col_le l : forall p, p_col p <= u16_max -> p_col (advance p l) <= u16_max.
Proof.
  induction l as [|c r IH]; intros p H; [exact H|]. rewrite advance_cons. apply IH, step_col_le, H.
Qed.

Lemma advance_col_mono l : forall p, p_col p <= u16_max -> count_nl l = 0 -> p_col p <= p_col (advance p l).
Proof.
  induction l as [|c r IH]; intros p Hc H; [cbn; lia|].
  cbn [count_nl] in H. pose proof (count_nl_nonneg r).
  destruct (c =? NL) eqn:E; [lia|].
  rewrite advance_cons. assert (Hr : count_nl r = 0) by lia.
  specialize (IH (step p c) (step_col_le p c Hc) Hr).
  assert (p_col p <= p_col (step p c)); [|lia].
  unfold step. rewrite E. cbn [p_col]. unfold sat_inc, u16_max in *. brk; lia.
Qed.

Lemma pos0_col_le a : p_col (advance pos0 a) <= u16_max.
Proof. apply advance_col_le. cbn. unfold u16_max. lia. Qed.

(* ---------------------------------------------------------------- the spec's functions on prefixes *)
Lemma is_boundary_prefix a : forall b, is_boundary (a ++ b) (bytes a) = true.
Proof.
  induction a as [|c r IH]; intros b.
  - destruct b; reflexivity.
  - cbn [app bytes is_boundary]. rewrite enc_len_utf8.
    pose proof (utf8_len_pos c). pose proof (bytes_nonneg r).
    replace (utf8_len c + bytes r - utf8_len c) with (bytes r) by lia. rewrite IH.
    destruct (utf8_len c + bytes r =? 0) eqn:E1; [lia|].
    destruct (utf8_len c + bytes r <? utf8_len c) eqn:E2; [lia|]. reflexivity.
Qed.

Lemma line_at_prefix a : forall b ln, line_at (a ++ b) (bytes a) ln = ln + count_nl a.
Proof.
  induction a as [|c r IH]; intros b ln.
  - cbn [app bytes count_nl]. destruct b; cbn [line_at]; [lia|]. destruct (0 <=? 0) eqn:E; lia.
  - cbn [app bytes count_nl line_at]. rewrite enc_len_utf8.
    pose proof (utf8_len_pos c). pose proof (bytes_nonneg r).
    destruct (utf8_len c + bytes r <=? 0) eqn:E1; [lia|].
    replace (utf8_len c + bytes r - utf8_len c) with (bytes r) by lia. rewrite IH.
    unfold NL. destruct (c =? 10); lia.
Qed.

Lemma line_at_all l ln : line_at l (bytes l) ln = ln + count_nl l.
Proof. pose proof (line_at_prefix l [] ln) as H. rewrite app_nil_r in H. exact H. Qed.

(* two prefixes of one text are comparable, and the shorter one has fewer bytes *)
Lemma prefix_comparable {A} (a : list A) : forall a' b b', a ++ a' = b ++ b' ->
  (exists t, b = a ++ t) \/ (exists t, a = b ++ t).
Proof.
  induction a as [|x a IH]; intros a' b b' H.
  - left. exists b. reflexivity.
  - destruct b as [|y b].
    + right. exists (x :: a). reflexivity.
    + cbn in H. injection H as -> H. destruct (IH _ _ _ H) as [[t ->]|[t ->]]; [left|right]; exists t; reflexivity.
Qed.

Lemma prefix_of_bytes a a' b b' : a ++ a' = b ++ b' -> bytes a <= bytes b -> exists t, b = a ++ t.
Proof.
  intros H Hb. destruct (prefix_comparable a a' b b' H) as [E|[t ->]]; [exact E|].
  rewrite bytes_app in Hb. destruct t as [|c t].
  - exists []. rewrite !app_nil_r. reflexivity.
  - cbn [bytes] in Hb. pose proof (utf8_len_pos c). pose proof (bytes_nonneg t). lia.
Qed.

(* ---------------------------------------------------------------- reachable positions and good spans *)
(* a span of [src]: from the position after a prefix [a] to the position after [a ++ b] *)
Definition span_good (src : list Z) (sp : span) : Prop :=
  exists a b c, src = a ++ b ++ c /\ sp = mk_span (advance pos0 a) (advance pos0 (a ++ b)).

Definition lines_fit (src : list Z) : Prop := 1 + count_nl src <= u16_max.

Lemma pos0_line : p_line pos0 = 1. Proof. reflexivity. Qed.
Lemma pos0_off : p_off pos0 = 0. Proof. reflexivity. Qed.

Lemma span_good_offsets src sp : span_good src sp ->
  exists a b c, src = a ++ b ++ c /\ s_so sp = bytes a /\ s_eo sp = bytes (a ++ b).
Proof.
  intros (a & b & c & -> & ->). exists a, b, c. repeat split; cbn [mk_span s_so s_eo]; rewrite advance_off; cbn; lia.
Qed.

Lemma span_good_valid_slice src sp : span_good src sp -> valid_slice src (s_so sp) (s_eo sp) = true.
Proof.
  intros (a & b & c & -> & ->). unfold valid_slice. cbn [mk_span s_so s_eo]. rewrite !advance_off, pos0_off.
  pose proof (bytes_nonneg a). pose proof (bytes_nonneg b). rewrite bytes_app. cbn [Z.add].
  rewrite is_boundary_prefix. rewrite <- bytes_app, app_assoc, is_boundary_prefix.
  rewrite bytes_app. repeat rewrite andb_true_r. lia.
Qed.

Lemma span_good_bounds src sp : span_good src sp -> 0 <= s_so sp <= s_eo sp /\ s_eo sp <= bytes src.
Proof.
  intros (a & b & c & -> & ->). cbn [mk_span s_so s_eo]. rewrite !advance_off, pos0_off, !bytes_app.
  pose proof (bytes_nonneg a). pose proof (bytes_nonneg b). pose proof (bytes_nonneg c). lia.
Qed.

Lemma span_good_lines src sp : span_good src sp ->
  s_sl sp = Z.min max_line (line_at src (s_so sp) 1) /\ s_el sp = Z.min max_line (line_at src (s_eo sp) 1).
Proof.
  intros (a & b & c & -> & ->). cbn [mk_span s_so s_eo s_sl s_el]. rewrite !advance_off, pos0_off.
  rewrite !advance_line by (cbn; unfold u16_max; lia). rewrite pos0_line. cbn [Z.add].
  rewrite line_at_prefix. rewrite (app_assoc a b c), line_at_prefix. unfold max_line, u16_max. split; reflexivity.
Qed.

Lemma span_good_ordered src sp : span_good src sp -> lines_fit src ->
  s_sl sp < s_el sp \/ (s_sl sp = s_el sp /\ s_sc sp <= s_ec sp).
Proof.
  intros (a & b & c & -> & ->) Hfit. unfold lines_fit in Hfit. rewrite !count_nl_app in Hfit.
  pose proof (count_nl_nonneg a). pose proof (count_nl_nonneg b). pose proof (count_nl_nonneg c).
  cbn [mk_span s_sl s_el s_sc s_ec]. rewrite advance_app.
  rewrite (advance_line_exact b) by (rewrite advance_line_exact; rewrite pos0_line; lia).
  destruct (Z.eq_dec (count_nl b) 0) as [E|E].
  - right. split; [lia|]. apply advance_col_mono; [apply pos0_col_le|exact E].
  - left. lia.
Qed.

Theorem span_good_ok src sp : span_good src sp -> span_ok src sp = true.
Proof.
  intros H. unfold span_ok. rewrite (span_good_valid_slice _ _ H).
  destruct (span_good_lines _ _ H) as [-> ->]. rewrite !Z.eqb_refl. cbn [andb].
  destruct H as (a & b & c & -> & ->). cbn [mk_span s_so s_eo s_sl s_el s_sc s_ec].
  rewrite !advance_off, pos0_off. cbn [Z.add].
  rewrite line_at_prefix. rewrite (app_assoc a b c), line_at_prefix.
  rewrite count_nl_app. pose proof (count_nl_nonneg a). pose proof (count_nl_nonneg b).
  unfold max_line.
  destruct (Z.min 65535 (1 + count_nl a) =? 65535) eqn:E3; [rewrite !orb_true_r; reflexivity|].
  destruct (Z.eq_dec (count_nl b) 0) as [E|E].
  - rewrite E, Z.add_0_r, Z.eqb_refl. cbn [andb].
    rewrite advance_app. pose proof (advance_col_mono b (advance pos0 a) (pos0_col_le a) E).
    destruct (p_col (advance pos0 a) <=? p_col (advance (advance pos0 a) b)) eqn:E4; [|lia].
    rewrite orb_true_r. reflexivity.
  - destruct (Z.min 65535 (1 + count_nl a) <? Z.min 65535 (1 + (count_nl a + count_nl b))) eqn:E5; [reflexivity|lia].
Qed.

(* ---------------------------------------------------------------- the interpreter *)
Lemma adv_n_spec n : forall p l p' r, adv_n n p l = Some (p', r) ->
  exists pre, l = pre ++ r /\ p' = advance p pre /\ length pre = n.
Proof.
  induction n as [|n IH]; intros p l p' r H; cbn [adv_n] in H.
  - injection H as <- <-. exists []. auto.
  - destruct l as [|c l]; [discriminate|]. destruct (IH _ _ _ _ H) as (pre & -> & -> & Hl).
    exists (c :: pre). cbn. auto.
Qed.

Lemma adv_n_prefix pre : forall p r, adv_n (length pre) p (pre ++ r) = Some (advance p pre, r).
Proof. induction pre as [|c pre IH]; intros p r; cbn [length adv_n app]; [reflexivity|]. rewrite IH. reflexivity. Qed.

(* the invariant that ties an interpreter state to the text it runs over *)
Definition Inv (src : list Z) (s : ist) : Prop :=
  exists mpre msuf,
    src = (mpre ++ msuf) ++ i_rest s /\
    i_pos s = advance pos0 (mpre ++ msuf) /\
    i_mark s = advance pos0 mpre /\
    Forall (fun ks => span_good src (snd ks)) (i_out s).

Lemma Inv_init src : Inv src (init_ist pos0 src).
Proof. exists [], []. cbn. repeat split; auto. Qed.

Lemma run_op_inv v src o s s' : Inv src s -> run_op v o s = IOk s' -> Inv src s'.
Proof.
  intros (mp & ms & Hsrc & Hpos & Hmark & Hout) H. destruct o as [n| |k|]; cbn [run_op] in H.
  - destruct (adv_n n (i_pos s) (i_rest s)) as [[p r]|] eqn:E; [|discriminate]. injection H as <-.
    destruct (adv_n_spec _ _ _ _ _ E) as (pre & Hr & -> & _).
    exists mp, (ms ++ pre). cbn [i_rest i_pos i_mark i_out]. rewrite Hr in Hsrc.
    repeat split; auto.
    + rewrite Hsrc. rewrite !app_assoc. reflexivity.
    + rewrite Hpos, <- advance_app. rewrite !app_assoc. reflexivity.
  - injection H as <-. exists (mp ++ ms), []. cbn [i_rest i_pos i_mark i_out]. rewrite app_nil_r. repeat split; auto.
  - injection H as <-. exists mp, ms. cbn [i_rest i_pos i_mark i_out]. repeat split; auto.
    constructor; [|exact Hout]. cbn [snd]. exists mp, ms, (i_rest s). split.
    + rewrite Hsrc, app_assoc. reflexivity.
    + rewrite Hmark, Hpos. reflexivity.
  - destruct (syntax_error v (i_pos s) (i_rest s)); discriminate.
Qed.

(* what a V1 syntax error looks like *)
Definition err_good (src : list Z) (e : span) : Prop :=
  exists a b c, src = a ++ b ++ c /\ (b = [] \/ exists ch, b = [ch]) /\ (b = [] -> c = []) /\
    s_so e = bytes a /\ s_eo e = bytes (a ++ b) /\
    s_sl e = Z.min u16_max (1 + count_nl a) /\ s_el e = s_sl e /\ s_sc e <= s_ec e.

Lemma run_op_err v src o s s' e : Inv src s -> run_op v o s = IErr s' e -> s' = s /\ (v = V1 -> err_good src e).
Proof.
  intros (mp & ms & Hsrc & Hpos & Hmark & Hout) H. destruct o as [n| |k|]; cbn [run_op] in H; try discriminate.
  - destruct (adv_n n (i_pos s) (i_rest s)) as [[p r]|]; discriminate.
  - destruct (syntax_error v (i_pos s) (i_rest s)) as [e'|] eqn:E; [|discriminate]. injection H as <- <-.
    split; [reflexivity|]. intros ->. cbn [syntax_error] in E. injection E as <-.
    cbn [s_so s_eo s_sl s_el s_sc s_ec]. rewrite Hpos.
    pose proof (pos0_col_le (mp ++ ms)) as Hcol.
    rewrite advance_off, pos0_off. rewrite advance_line by (cbn; unfold u16_max; lia). rewrite pos0_line.
    destruct (i_rest s) as [|ch r] eqn:Er.
    + exists (mp ++ ms), [], []. cbn [s_so s_eo s_sl s_el s_sc s_ec]. rewrite !app_nil_r. rewrite app_nil_r in Hsrc.
      split; [exact Hsrc|]. split; [left; reflexivity|]. split; [reflexivity|].
      split; [lia|]. split; [lia|]. split; [reflexivity|]. split; [reflexivity|].
      unfold sat_inc, u16_max in *. brk; lia.
    + exists (mp ++ ms), [ch], r. cbn [s_so s_eo s_sl s_el s_sc s_ec]. rewrite !bytes_app. cbn [bytes].
      split; [exact Hsrc|]. split; [right; exists ch; reflexivity|]. split; [intros; discriminate|].
      split; [lia|]. split; [lia|]. split; [reflexivity|]. split; [reflexivity|].
      unfold sat_inc, u16_max in *. brk; lia.
Qed.

Lemma run_ops_inv v src ops : forall s, Inv src s ->
  match run_ops v ops s with
  | IOk s' => Inv src s'
  | IErr s' e => Inv src s' /\ (v = V1 -> err_good src e)
  | IPanic => True
  end.
Proof.
  induction ops as [|o ops IH]; intros s HI; cbn [run_ops]; [exact HI|].
  destruct (run_op v o s) as [s1|s1 e|] eqn:E.
  - apply IH. eapply run_op_inv; eauto.
  - destruct (run_op_err _ _ _ _ _ _ HI E) as [-> He]. split; auto.
  - exact I.
Qed.

(* V1 never panics in syntax_error; the only panic left is advancing past the end *)
Lemma err_good_located src e : err_good src e -> lines_fit src ->
  located_ok src (s_sl e) (Some (s_so e, s_eo e)) = true.
Proof.
  intros (a & b & c & -> & Hb & Hbc & -> & -> & Hl & _ & _) Hfit. unfold located_ok, valid_slice.
  unfold lines_fit in Hfit. rewrite !count_nl_app in Hfit.
  pose proof (count_nl_nonneg a). pose proof (count_nl_nonneg b). pose proof (count_nl_nonneg c).
  pose proof (bytes_nonneg a). pose proof (bytes_nonneg b).
  rewrite is_boundary_prefix. rewrite (app_assoc a b c), is_boundary_prefix, <- app_assoc.
  rewrite (line_at_prefix a (b ++ c) 1). rewrite byte_len_bytes.
  rewrite line_at_all. rewrite !count_nl_app, bytes_app.
  rewrite Hl. unfold max_line, u16_max in *.
  repeat rewrite andb_true_r.
  repeat (apply andb_true_intro; split); lia.
Qed.

(* ---------------------------------------------------------------- the tokenizer loop *)
Lemma tok_loop_inv v src fuel : forall l s, Inv src s ->
  match tok_loop v fuel l s with
  | TDone s' => Inv src s'
  | TErr s' e => Inv src s' /\ (v = V1 -> err_good src e)
  | _ => True
  end.
Proof.
  induction fuel as [|fuel IH]; intros l s HI; cbn [tok_loop]; [exact I|].
  destruct (i_rest s) eqn:Er; [exact HI|]. rewrite <- Er.
  destruct (scan l (i_rest s)) as [ops l'|]; [|exact I].
  pose proof (run_ops_inv v src ops s HI) as H. destruct (run_ops v ops s) as [s1|s1 e|]; auto. apply IH; exact H.
Qed.

(* ---------------------------------------------------------------- shift equivariance *)
Definition shift_pos (n b : Z) (p : pos) : pos := mkpos (p_line p + n) (p_col p) (p_off p + b).
Definition shift_ks (n b : Z) (ks : Z * span) : Z * span := (fst ks, shift_span n b (snd ks)).
Definition shift_ist (n b : Z) (s : ist) : ist :=
  mkist (shift_pos n b (i_pos s)) (i_rest s) (shift_pos n b (i_mark s)) (map (shift_ks n b) (i_out s)).
Definition shift_ires (n b : Z) (r : ires) : ires :=
  match r with
  | IOk s => IOk (shift_ist n b s)
  | IErr s e => IErr (shift_ist n b s) (shift_span n b e)
  | IPanic => IPanic
  end.
Definition shift_tres (n b : Z) (r : tres) : tres :=
  match r with
  | TDone s => TDone (shift_ist n b s)
  | TErr s e => TErr (shift_ist n b s) (shift_span n b e)
  | other => other
  end.

(* room: the line counter cannot saturate while the rest is consumed, even n lines further down *)
Definition room (n : Z) (p : pos) (rest : list Z) : Prop := 0 <= n /\ p_line p + n + count_nl rest <= u16_max.

Lemma step_shift n b p c : 0 <= n -> p_line p + n + (if c =? NL then 1 else 0) <= u16_max ->
  step (shift_pos n b p) c = shift_pos n b (step p c).
Proof.
  intros Hn H. unfold step, shift_pos. destruct (c =? NL); cbn [p_line p_col p_off] in *.
  - unfold sat_inc, u16_max in *. brk; f_equal; lia.
  - f_equal; lia.
Qed.

Lemma step_line_le p c : p_line p + (if c =? NL then 1 else 0) <= u16_max ->
  p_line (step p c) = p_line p + (if c =? NL then 1 else 0).
Proof. unfold step, sat_inc, u16_max. intros H. brk; cbn [p_line]; lia. Qed.

Lemma adv_n_shift n b k : forall p l, room n p l ->
  adv_n k (shift_pos n b p) l =
    match adv_n k p l with Some (p', r) => Some (shift_pos n b p', r) | None => None end.
Proof.
  induction k as [|k IH]; intros p l [Hn Hr]; cbn [adv_n]; [reflexivity|].
  destruct l as [|c l]; [reflexivity|]. cbn [count_nl] in Hr. pose proof (count_nl_nonneg l).
  rewrite step_shift by (brk; lia). apply IH. split; [exact Hn|].
  rewrite step_line_le by (brk; lia). lia.
Qed.

Lemma adv_n_room n k : forall p l p' r, room n p l -> adv_n k p l = Some (p', r) -> room n p' r.
Proof.
  induction k as [|k IH]; intros p l p' r [Hn Hr] H; cbn [adv_n] in H.
  - injection H as <- <-. split; assumption.
  - destruct l as [|c l]; [discriminate|]. cbn [count_nl] in Hr. pose proof (count_nl_nonneg l).
    eapply IH; [|exact H]. split; [exact Hn|]. rewrite step_line_le by (brk; lia). lia.
Qed.

Lemma shift_mk_span n b p q : mk_span (shift_pos n b p) (shift_pos n b q) = shift_span n b (mk_span p q).
Proof. reflexivity. Qed.

Lemma syntax_error_shift v n b p rest :
  syntax_error v (shift_pos n b p) rest = option_map (shift_span n b) (syntax_error v p rest).
Proof.
  destruct v; cbn [syntax_error shift_pos p_line p_col p_off].
  - destruct (p_col p =? u16_max); cbn [option_map]; [reflexivity|]. unfold shift_span. cbn. f_equal. f_equal; lia.
  - cbn [option_map]. unfold shift_span. cbn. f_equal. f_equal; lia.
Qed.

Definition iroom (n : Z) (s : ist) : Prop := room n (i_pos s) (i_rest s).

Lemma run_op_shift v n b o s : iroom n s ->
  run_op v o (shift_ist n b s) = shift_ires n b (run_op v o s) /\
  (forall s', run_op v o s = IOk s' -> iroom n s').
Proof.
  intros Hr. unfold iroom in *. destruct o as [k| |kd|]; cbn [run_op shift_ist i_pos i_rest i_mark i_out].
  - rewrite adv_n_shift by exact Hr. destruct (adv_n k (i_pos s) (i_rest s)) as [[p r]|] eqn:E.
    + split; [reflexivity|]. intros s' H. injection H as <-. cbn [i_pos i_rest]. eapply adv_n_room; eauto.
    + split; [reflexivity|]. intros; discriminate.
  - split; [reflexivity|]. intros s' H. injection H as <-. exact Hr.
  - split; [reflexivity|]. intros s' H. injection H as <-. exact Hr.
  - rewrite syntax_error_shift. destruct (syntax_error v (i_pos s) (i_rest s)); cbn [option_map shift_ires]; split; try reflexivity; intros; discriminate.
Qed.

Lemma run_ops_shift v n b ops : forall s, iroom n s ->
  run_ops v ops (shift_ist n b s) = shift_ires n b (run_ops v ops s) /\
  (forall s', run_ops v ops s = IOk s' -> iroom n s').
Proof.
  induction ops as [|o ops IH]; intros s Hr; cbn [run_ops].
  - split; [reflexivity|]. intros s' H. injection H as <-. exact Hr.
  - destruct (run_op_shift v n b o s Hr) as [E Hn]. rewrite E.
    destruct (run_op v o s) as [s1|s1 e|]; cbn [shift_ires].
    + apply IH. apply Hn. reflexivity.
    + split; [reflexivity|]. intros; discriminate.
    + split; [reflexivity|]. intros; discriminate.
Qed.

Lemma tok_loop_shift v n b fuel : forall l s, iroom n s ->
  tok_loop v fuel l (shift_ist n b s) = shift_tres n b (tok_loop v fuel l s).
Proof.
  induction fuel as [|fuel IH]; intros l s Hr; cbn [tok_loop]; [reflexivity|].
  cbn [shift_ist i_rest]. destruct (i_rest s) eqn:Er; [reflexivity|]. rewrite <- Er.
  destruct (scan l (i_rest s)) as [ops l'|]; [|reflexivity].
  destruct (run_ops_shift v n b ops s Hr) as [E Hn].
  change (mkist (shift_pos n b (i_pos s)) (i_rest s) (shift_pos n b (i_mark s)) (map (shift_ks n b) (i_out s))) with (shift_ist n b s).
  rewrite E. destruct (run_ops v ops s) as [s1|s1 e|]; cbn [shift_ires shift_tres]; try reflexivity.
  apply IH. apply Hn. reflexivity.
Qed.

(* N complete lines of text *)
Definition complete_lines (L : list Z) (n : Z) : Prop :=
  count_nl L = n /\ (L = [] \/ exists L', L = L' ++ [NL]).

Lemma advance_complete_lines L n : complete_lines L n -> 1 + n <= u16_max ->
  advance pos0 L = shift_pos n (bytes L) pos0.
Proof.
  intros [Hc [->|[L' ->]]] Hn.
  - cbn in Hc. subst n. reflexivity.
  - rewrite advance_app. cbn [advance fold_left]. unfold step. rewrite Z.eqb_refl.
    rewrite count_nl_app in Hc. cbn [count_nl] in Hc. rewrite Z.eqb_refl in Hc.
    pose proof (count_nl_nonneg L').
    unfold shift_pos. cbn [pos0 p_line p_col p_off]. rewrite advance_off, pos0_off.
    rewrite advance_line_exact by (rewrite pos0_line; lia). rewrite pos0_line.
    rewrite bytes_app. cbn [bytes]. unfold sat_inc. destruct (1 + count_nl L' <? u16_max) eqn:E; [|lia].
    f_equal; lia.
Qed.
(* ---------------------------------------------------------------- part B: expand_span, carets *)
Definition ordered (sp : span) : Prop :=
  s_so sp <= s_eo sp /\ (s_sl sp < s_el sp \/ (s_sl sp = s_el sp /\ s_sc sp <= s_ec sp)).

Lemma span_good_ordered_full src sp : span_good src sp -> lines_fit src -> ordered sp.
Proof.
  intros H Hf. split; [pose proof (span_good_bounds _ _ H); lia|]. eapply span_good_ordered; eauto.
Qed.

(* the parser only ever combines spans of the same token stream *)
Lemma expand_span_good src last sp : span_good src last -> span_good src sp ->
  span_good src (expand_span V1 last sp).
Proof.
  intros (a1 & b1 & c1 & H1 & ->) (a2 & b2 & c2 & H2 & ->). cbn [expand_span mk_span s_eo s_so s_sl s_sc s_el s_ec].
  assert (Ho1 : p_off (advance pos0 (a1 ++ b1)) = bytes (a1 ++ b1)) by (rewrite advance_off; cbn; lia).
  assert (Ho2 : p_off (advance pos0 a2) = bytes a2) by (rewrite advance_off; cbn; lia).
  destruct (p_off (advance pos0 (a1 ++ b1)) <? p_off (advance pos0 a2)) eqn:E.
  - exists a2, [], (b2 ++ c2). rewrite app_nil_r. split; [exact H2|reflexivity].
  - assert (Hp : exists t, a1 ++ b1 = a2 ++ t).
    { apply (prefix_of_bytes a2 (b2 ++ c2) (a1 ++ b1) c1); [|lia]. rewrite <- app_assoc, <- H1, <- H2. reflexivity. }
    destruct Hp as [t Ht]. exists a2, t, c1. rewrite <- Ht. split; [|reflexivity].
    rewrite app_assoc, <- Ht, <- app_assoc. exact H1.
Qed.

Lemma caret_count_ordered v sp : ordered sp -> exists n, caret_count v sp = Ok n /\ 0 <= n.
Proof.
  intros [_ [H|[H1 H2]]]; unfold caret_count.
  - destruct (s_sl sp =? s_el sp) eqn:E; [lia|]. exists 0. split; [reflexivity|lia].
  - destruct (s_sl sp =? s_el sp) eqn:E; [|lia]. destruct v.
    + destruct (s_ec sp <? s_sc sp) eqn:E2; [lia|]. eexists; split; [reflexivity|lia].
    + eexists; split; [reflexivity|lia].
Qed.

Lemma caret_count_v1_total sp : exists n, caret_count V1 sp = Ok n /\ 0 <= n.
Proof.
  unfold caret_count. destruct (s_sl sp =? s_el sp); eexists; (split; [reflexivity|lia]).
Qed.

(* ---------------------------------------------------------------- part C: the side tables *)
Lemma span_eqb_eq a b : span_eqb a b = true <-> a = b.
Proof.
  unfold span_eqb. split.
  - intros H. repeat (apply andb_prop in H; destruct H as [H ?]).
    destruct a, b; cbn in *. f_equal; lia.
  - intros ->. rewrite !Z.eqb_refl. reflexivity.
Qed.

Lemma last_opt_snoc {A} (l : list A) x : last_opt (l ++ [x]) = Some x.
Proof.
  induction l as [|y l IH]; [reflexivity|]. cbn [app last_opt]. destruct (l ++ [x]) eqn:E.
  - destruct l; discriminate.
  - exact IH.
Qed.

Lemma last_opt_nil_inv {A} (l : list A) : last_opt l = None -> l = [].
Proof.
  induction l as [|y l IH]; [reflexivity|]. cbn [last_opt]. destruct l; [discriminate|]. intros H. specialize (IH H). discriminate.
Qed.

Lemma last_opt_some_inv {A} (l : list A) x : last_opt l = Some x -> exists l', l = l' ++ [x].
Proof.
  induction l as [|y l IH]; [discriminate|]. cbn [last_opt]. destruct l as [|z l].
  - intros H. injection H as <-. exists []. reflexivity.
  - intros H. destruct (IH H) as [l' ->]. exists (y :: l'). reflexivity.
Qed.

(* linear reference lookup over (key, value) pairs: the value of the last pair whose key is <= x *)
Fixpoint lin {A} (l : list (Z * A)) (x : Z) (acc : option A) : option A :=
  match l with
  | [] => acc
  | (k, v) :: r => lin r x (if k <=? x then Some v else acc)
  end.

Lemma lin_app {A} (l1 l2 : list (Z * A)) x acc : lin (l1 ++ l2) x acc = lin l2 x (lin l1 x acc).
Proof. revert acc. induction l1 as [|[k v] l1 IH]; intros acc; cbn [app lin]; [reflexivity|apply IH]. Qed.

(* strictly increasing keys *)
Definition incr (keys : list Z) : Prop :=
  forall i j, (i < j < length keys)%nat -> nth i keys 0 < nth j keys 0.

Lemma incr_snoc keys k : incr keys -> (forall x, In x keys -> x < k) -> incr (keys ++ [k]).
Proof.
  intros Hi Hk i j [Hij Hj]. rewrite app_length in Hj. cbn [length] in Hj.
  destruct (Nat.eq_dec j (length keys)) as [->|Hne].
  - rewrite (app_nth2 keys [k] 0 (le_n _)). rewrite Nat.sub_diag. cbn [nth].
    rewrite app_nth1 by lia. apply Hk. apply nth_In. lia.
  - rewrite !app_nth1 by lia. apply Hi. lia.
Qed.

(* all keys at or after i are greater than x -> they do not contribute *)
Lemma lin_all_gt {A} (l : list (Z * A)) x acc : (forall k v, In (k, v) l -> x < k) -> lin l x acc = acc.
Proof.
  revert acc. induction l as [|[k v] l IH]; intros acc H; cbn [lin]; [reflexivity|].
  assert (x < k) by (apply (H k v); left; reflexivity).
  destruct (k <=? x) eqn:E; [lia|]. apply IH. intros k' v' Hin. apply (H k' v'). right. exact Hin.
Qed.

Lemma nth_map_fst {A} (l : list (Z * A)) n d : (n < length l)%nat -> nth n (map fst l) 0 = fst (nth n l d).
Proof. intros. rewrite (nth_indep _ 0 (fst d)) by (rewrite map_length; lia). apply map_nth. Qed.

(* characterisation on increasing keys: position i is the last key <= x *)
Lemma lin_at {A} (l : list (Z * A)) x : forall i acc kv,
  incr (map fst l) -> nth_error l i = Some kv -> fst kv <= x ->
  (forall j, (i < j < length l)%nat -> x < nth j (map fst l) 0) ->
  lin l x acc = Some (snd kv).
Proof.
  induction l as [|[k v] l IH]; intros i acc kv Hi Hn Hle Hgt.
  - destruct i; discriminate.
  - destruct i as [|i]; cbn [nth_error] in Hn.
    + injection Hn as <-. cbn [lin fst snd] in *. destruct (k <=? x) eqn:E; [|lia].
      apply lin_all_gt. intros k' v' Hin. destruct (In_nth _ _ (0, v) Hin) as (n & Hn & Hnth).
      specialize (Hgt (S n)). cbn [length map nth] in Hgt.
      rewrite (nth_map_fst l n (0, v) Hn) in Hgt. rewrite Hnth in Hgt. cbn [fst] in Hgt. apply Hgt. lia.
    + cbn [lin]. apply (IH i _ kv); auto.
      * intros a b Hab. specialize (Hi (S a) (S b)). cbn [map length nth] in Hi. apply Hi. rewrite map_length in *. lia.
      * intros j Hj. specialize (Hgt (S j)). cbn [map length nth] in Hgt. apply Hgt. lia.
Qed.

(* ---- binary search ---- *)
Definition le_at (keys : list Z) (x : Z) (j : nat) : Prop := nth j keys 0 <= x.

Lemma bs_loop_spec keys x : incr keys -> forall fuel base size,
  (1 <= size)%nat -> (size <= fuel)%nat -> (base + size <= length keys)%nat ->
  (base = O \/ le_at keys x base) ->
  (forall j, (base + size <= j < length keys)%nat -> x < nth j keys 0) ->
  let r := bs_loop fuel keys x base size in
  (r < length keys)%nat /\ (r = O \/ le_at keys x r) /\ (forall j, (r < j < length keys)%nat -> x < nth j keys 0).
Proof.
  intros Hinc. induction fuel as [|fuel IH]; intros base size H1 Hf Hb Hlo Hhi; [lia|].
  cbn [bs_loop]. destruct (size <=? 1)%nat eqn:E.
  - apply Nat.leb_le in E. assert (size = 1)%nat by lia. subst size.
    split; [lia|]. split; [exact Hlo|]. intros j Hj. apply Hhi. lia.
  - apply Nat.leb_gt in E.
    assert (Hh : (1 <= Nat.div2 size /\ Nat.div2 size + Nat.div2 size <= size)%nat).
    { destruct size as [|[|size]]; try lia. cbn [Nat.div2]. pose proof (Nat.div2_decr size (S size)).
      assert (Nat.div2 size + Nat.div2 size <= size)%nat.
      { clear. induction size as [size IHs] using lt_wf_ind. destruct size as [|[|s]]; cbn [Nat.div2]; try lia.
        specialize (IHs s). lia. }
      lia. }
    destruct Hh as [Hh1 Hh2]. set (half := Nat.div2 size) in *.
    destruct (x <? nth (base + half) keys 0) eqn:Ec.
    + apply IH; try lia; auto.
      intros j Hj. destruct (Nat.le_gt_cases (base + size) j) as [Hge|Hlt]; [apply Hhi; lia|].
      destruct (Nat.eq_dec j (base + half)) as [->|Hne]; [lia|].
      assert (nth (base + half) keys 0 < nth j keys 0) by (apply Hinc; lia). lia.
    + apply IH; try lia.
      * right. unfold le_at. lia.
      * intros j Hj. apply Hhi. lia.
Qed.

Lemma bsearch_lin {A} (l : list (Z * A)) x : incr (map fst l) ->
  match bsearch (map fst l) x with
  | BFound i => option_map snd (nth_error l i)
  | BInsert O => None
  | BInsert (S i) => option_map snd (nth_error l i)
  end = lin l x None.
Proof.
  intros Hinc. unfold bsearch. destruct (map fst l) as [|k0 ks] eqn:Ek.
  - destruct l; [reflexivity|discriminate].
  - rewrite <- Ek in *. set (keys := map fst l) in *.
    assert (Hlen : length keys = length l) by (unfold keys; apply map_length).
    assert (Hpos : (1 <= length keys)%nat) by (rewrite Ek; cbn; lia).
    pose proof (bs_loop_spec keys x Hinc (length keys) 0 (length keys)) as Hs.
    cbv zeta in Hs. specialize (Hs Hpos (le_n _) (le_n _) (or_introl eq_refl)).
    assert (Hv : forall j, (0 + length keys <= j < length keys)%nat -> x < nth j keys 0) by (intros; lia).
    specialize (Hs Hv). set (r := bs_loop (length keys) keys x 0 (length keys)) in *.
    destruct Hs as (Hr & Hle & Hgt).
    destruct (nth_error l r) as [kv|] eqn:Enr; [|apply nth_error_None in Enr; lia].
    assert (Hk : nth r keys 0 = fst kv).
    { unfold keys. rewrite (nth_map_fst l r kv) by lia. f_equal. apply nth_error_nth. exact Enr. }
    assert (Hgt' : forall j, (r < j < length l)%nat -> x < nth j keys 0) by (intros; apply Hgt; lia).
    destruct (nth r keys 0 =? x) eqn:E1.
    + rewrite Enr. cbn [option_map]. symmetry. apply (lin_at l x r None kv); auto. lia.
    + destruct (nth r keys 0 <? x) eqn:E2.
      * rewrite Enr. cbn [option_map]. symmetry. apply (lin_at l x r None kv); auto. lia.
      * (* key at r is greater than x: r must be 0 and nothing is <= x *)
        destruct Hle as [->|Hle]; [|unfold le_at in Hle; lia].
        symmetry. apply lin_all_gt. intros k v Hin. destruct (In_nth _ _ kv Hin) as (n & Hn & Hnth).
        destruct n as [|n].
        -- assert (nth_error l 0 = Some (k, v)) by (rewrite <- Hnth; apply nth_error_nth'; lia).
           rewrite Enr in H. injection H as ->. cbn [fst] in Hk. lia.
        -- specialize (Hgt' (S n)). unfold keys in Hgt'. rewrite (nth_map_fst l (S n) kv Hn) in Hgt'.
           rewrite Hnth in Hgt'. cbn [fst] in Hgt'. apply Hgt'. lia.
Qed.

(* ---- the tables built by the add_* functions ---- *)
Definition lpairs (ls : list linfo) : list (Z * Z) := map (fun r => (li_first r, li_line r)) ls.
Definition spairs (ss : list sinfo) : list (Z * span) := map (fun r => (si_first r, si_span r)) ss.

Lemma lpairs_keys ls : map fst (lpairs ls) = map li_first ls.
Proof. unfold lpairs. rewrite map_map. reflexivity. Qed.
Lemma spairs_keys ss : map fst (spairs ss) = map si_first ss.
Proof. unfold spairs. rewrite map_map. reflexivity. Qed.

Lemma get_line_lin t idx : incr (map li_first (line_infos t)) ->
  get_line t idx = lin (lpairs (line_infos t)) idx None.
Proof.
  intros Hinc. rewrite <- lpairs_keys in Hinc. rewrite <- (bsearch_lin (lpairs (line_infos t)) idx Hinc).
  unfold get_line. rewrite lpairs_keys. unfold lpairs.
  destruct (bsearch (map li_first (line_infos t)) idx) as [i|[|i]]; try reflexivity;
    rewrite nth_error_map; destruct (nth_error (line_infos t) i); reflexivity.
Qed.

Definition filt (o : option span) : option span :=
  match o with
  | Some x => if span_eqb x span_default then None else Some x
  | None => None
  end.

Lemma get_span_lin t idx : incr (map si_first (span_infos t)) ->
  get_span t idx = filt (lin (spairs (span_infos t)) idx None).
Proof.
  intros Hinc. rewrite <- spairs_keys in Hinc. rewrite <- (bsearch_lin (spairs (span_infos t)) idx Hinc).
  unfold get_span. rewrite spairs_keys. unfold spairs.
  destruct (bsearch (map si_first (span_infos t)) idx) as [i|[|i]]; try reflexivity;
    rewrite nth_error_map; destruct (nth_error (span_infos t) i); reflexivity.
Qed.

(* lookups beyond every key give the last value *)
Lemma lin_snoc {A} (l : list (Z * A)) k v x acc :
  lin (l ++ [(k, v)]) x acc = if k <=? x then Some v else lin l x acc.
Proof. rewrite lin_app. reflexivity. Qed.

Lemma lin_all_le {A} (l : list (Z * A)) x acc : (forall k v, In (k, v) l -> k <= x) ->
  lin l x acc = match last_opt l with Some kv => Some (snd kv) | None => acc end.
Proof.
  revert acc. induction l as [|[k v] l IH]; intros acc H; [reflexivity|].
  cbn [lin last_opt]. assert (k <= x) by (apply (H k v); left; reflexivity).
  destruct (k <=? x) eqn:E; [|lia]. rewrite IH by (intros k' v' Hin; apply (H k' v'); right; exact Hin).
  destruct l as [|p l]; [reflexivity|]. destruct (last_opt (p :: l)) eqn:E2; [reflexivity|].
  apply last_opt_nil_inv in E2. discriminate.
Qed.

Lemma takeZ_all {A} (l : list A) : forall n, lenZ l <= n -> takeZ n l = l.
Proof.
  unfold lenZ. induction l as [|x l IH]; intros n H; [reflexivity|]. cbn [takeZ length] in *.
  destruct (n <=? 0) eqn:E; [lia|]. f_equal. apply IH. lia.
Qed.

Lemma takeZ_app_l {A} (l l2 : list A) : forall n, n <= lenZ l -> takeZ n (l ++ l2) = takeZ n l.
Proof.
  unfold lenZ. induction l as [|x l IH]; intros n H; cbn [app takeZ length] in *.
  - destruct l2; cbn [takeZ]; [reflexivity|]. destruct (n <=? 0) eqn:E; [reflexivity|lia].
  - destruct (n <=? 0); [reflexivity|]. f_equal. apply IH. lia.
Qed.

Record TInv (ops : list iop) (t : instrs) : Prop := {
  ti_n : n_instr t = lenZ ops;
  ti_linc : incr (map li_first (line_infos t));
  ti_lbound : forall r, In r (line_infos t) -> li_first r < n_instr t;
  ti_sinc : incr (map si_first (span_infos t));
  ti_sbound : forall r, In r (span_infos t) -> si_first r < n_instr t;
  ti_line : forall idx, lin (lpairs (line_infos t)) idx None = line_of_ops ops idx;
  ti_span : forall idx, filt (lin (spairs (span_infos t)) idx None) = span_of_ops ops idx;
}.

Lemma line_of_ops_snoc ops o idx :
  line_of_ops (ops ++ [o]) idx =
    if lenZ ops <=? idx then last_line (ops ++ [o]) else line_of_ops ops idx.
Proof.
  unfold line_of_ops. destruct (lenZ ops <=? idx) eqn:E.
  - rewrite takeZ_all; [reflexivity|]. unfold lenZ in *. rewrite app_length. cbn [length]. lia.
  - rewrite takeZ_app_l by lia. reflexivity.
Qed.

Lemma span_of_ops_snoc ops o idx :
  span_of_ops (ops ++ [o]) idx =
    if lenZ ops <=? idx then last_span (ops ++ [o]) else span_of_ops ops idx.
Proof.
  unfold span_of_ops. destruct (lenZ ops <=? idx) eqn:E.
  - rewrite takeZ_all; [reflexivity|]. unfold lenZ in *. rewrite app_length. cbn [length]. lia.
  - rewrite takeZ_app_l by lia. reflexivity.
Qed.

Lemma last_line_snoc ops o : last_line (ops ++ [o]) =
  match o with OAdd => last_line ops | OLine l => Some l | OSpan sp => Some (s_sl sp) end.
Proof. unfold last_line. rewrite fold_left_app. reflexivity. Qed.

Lemma last_span_snoc ops o : last_span (ops ++ [o]) =
  match o with OAdd => last_span ops | OLine _ => None | OSpan sp => if span_eqb sp span_default then None else Some sp end.
Proof. unfold last_span. rewrite fold_left_app. reflexivity. Qed.

Lemma line_of_ops_big ops idx : lenZ ops <= idx + 1 -> line_of_ops ops idx = last_line ops.
Proof. intros H. unfold line_of_ops. rewrite takeZ_all by lia. reflexivity. Qed.
Lemma span_of_ops_big ops idx : lenZ ops <= idx + 1 -> span_of_ops ops idx = last_span ops.
Proof. intros H. unfold span_of_ops. rewrite takeZ_all by lia. reflexivity. Qed.

(* the value in force at the end = the last record *)
Lemma lpairs_last ops t : TInv ops t ->
  last_line ops = match last_opt (line_infos t) with Some r => Some (li_line r) | None => None end.
Proof.
  intros I. rewrite <- (line_of_ops_big ops (lenZ ops)) by lia. rewrite <- (ti_line _ _ I).
  rewrite lin_all_le.
  - unfold lpairs. destruct (last_opt (line_infos t)) as [r|] eqn:E.
    + destruct (last_opt_some_inv _ _ E) as [l' ->]. rewrite map_app. cbn [map]. rewrite last_opt_snoc. reflexivity.
    + rewrite (last_opt_nil_inv _ E). reflexivity.
  - intros k v Hin. unfold lpairs in Hin. apply in_map_iff in Hin. destruct Hin as (r & Hr & Hin). injection Hr as <- <-.
    pose proof (ti_lbound _ _ I r Hin). rewrite (ti_n _ _ I) in H. lia.
Qed.

Lemma spairs_last ops t : TInv ops t ->
  last_span ops = filt (match last_opt (span_infos t) with Some r => Some (si_span r) | None => None end).
Proof.
  intros I. rewrite <- (span_of_ops_big ops (lenZ ops)) by lia. rewrite <- (ti_span _ _ I).
  rewrite lin_all_le.
  - unfold spairs. destruct (last_opt (span_infos t)) as [r|] eqn:E.
    + destruct (last_opt_some_inv _ _ E) as [l' ->]. rewrite map_app. cbn [map]. rewrite last_opt_snoc. reflexivity.
    + rewrite (last_opt_nil_inv _ E). reflexivity.
  - intros k v Hin. unfold spairs in Hin. apply in_map_iff in Hin. destruct Hin as (r & Hr & Hin). injection Hr as <- <-.
    pose proof (ti_sbound _ _ I r Hin). rewrite (ti_n _ _ I) in H. lia.
Qed.

Lemma in_snoc {A} (l : list A) x y : In y (l ++ [x]) -> In y l \/ y = x.
Proof. intros H. apply in_app_or in H. destruct H as [H|[H|[]]]; auto. Qed.

Lemma lenZ_snoc {A} (l : list A) x : lenZ (l ++ [x]) = lenZ l + 1.
Proof. unfold lenZ. rewrite app_length. cbn [length]. lia. Qed.

(* the line table after add_line_record *)
Lemma add_line_record_inv ops t o line :
  TInv ops t ->
  last_line (ops ++ [o]) = Some line ->
  let ls := add_line_record (line_infos t) (n_instr t) line in
  incr (map li_first ls) /\ (forall r, In r ls -> li_first r < n_instr t + 1) /\
  (forall idx, lin (lpairs ls) idx None = line_of_ops (ops ++ [o]) idx).
Proof.
  intros I Hl. cbv zeta. unfold add_line_record.
  pose proof (lpairs_last _ _ I) as Hlast.
  assert (Hpush : let ls := line_infos t ++ [mklinfo (n_instr t) line] in
    incr (map li_first ls) /\ (forall r, In r ls -> li_first r < n_instr t + 1) /\
    (forall idx, lin (lpairs ls) idx None = line_of_ops (ops ++ [o]) idx)).
  { cbv zeta. split; [|split].
    - rewrite map_app. cbn [map li_first]. apply incr_snoc; [apply (ti_linc _ _ I)|].
      intros x Hx. apply in_map_iff in Hx. destruct Hx as (r & <- & Hr). apply (ti_lbound _ _ I r Hr).
    - intros r Hr. destruct (in_snoc _ _ _ Hr) as [H| ->]; [pose proof (ti_lbound _ _ I r H); lia|cbn; lia].
    - intros idx. unfold lpairs. rewrite map_app. cbn [map li_first li_line]. rewrite lin_snoc.
      rewrite line_of_ops_snoc, Hl, (ti_n _ _ I). destruct (lenZ ops <=? idx); [reflexivity|]. apply (ti_line _ _ I). }
  destruct (last_opt (line_infos t)) as [x|] eqn:E; [|exact Hpush].
  destruct (li_line x =? line) eqn:E2; [|exact Hpush].
  split; [apply (ti_linc _ _ I)|]. split; [intros r Hr; pose proof (ti_lbound _ _ I r Hr); lia|].
  intros idx. rewrite line_of_ops_snoc, Hl. destruct (lenZ ops <=? idx) eqn:E3; [|apply (ti_line _ _ I)].
  rewrite (ti_line _ _ I). rewrite line_of_ops_big by lia. rewrite Hlast. f_equal. lia.
Qed.

Lemma apply_iop_inv ops t o : TInv ops t -> TInv (ops ++ [o]) (apply_iop t o).
Proof.
  intros I. destruct o as [|line|sp]; cbn [apply_iop].
  - (* add *)
    unfold add_plain. constructor; cbn [n_instr line_infos span_infos].
    + rewrite lenZ_snoc, (ti_n _ _ I). reflexivity.
    + apply (ti_linc _ _ I).
    + intros r Hr. pose proof (ti_lbound _ _ I r Hr). lia.
    + apply (ti_sinc _ _ I).
    + intros r Hr. pose proof (ti_sbound _ _ I r Hr). lia.
    + intros idx. rewrite line_of_ops_snoc, last_line_snoc. destruct (lenZ ops <=? idx) eqn:E; [|apply (ti_line _ _ I)].
      rewrite (ti_line _ _ I). apply line_of_ops_big. lia.
    + intros idx. rewrite span_of_ops_snoc, last_span_snoc. destruct (lenZ ops <=? idx) eqn:E; [|apply (ti_span _ _ I)].
      rewrite (ti_span _ _ I). apply span_of_ops_big. lia.
  - (* add_with_line *)
    unfold add_with_line.
    destruct (add_line_record_inv ops t (OLine line) line I) as (L1 & L2 & L3); [rewrite last_line_snoc; reflexivity|].
    pose proof (spairs_last _ _ I) as Hlast.
    constructor; cbn [n_instr line_infos span_infos]; auto.
    + rewrite lenZ_snoc, (ti_n _ _ I). reflexivity.
    + destruct (last_opt (span_infos t)) as [x|]; [|apply (ti_sinc _ _ I)].
      destruct (span_eqb (si_span x) span_default); [apply (ti_sinc _ _ I)|].
      rewrite map_app. cbn [map si_first]. apply incr_snoc; [apply (ti_sinc _ _ I)|].
      intros k Hk. apply in_map_iff in Hk. destruct Hk as (r & <- & Hr). apply (ti_sbound _ _ I r Hr).
    + intros r Hr. destruct (last_opt (span_infos t)) as [x|]; [|pose proof (ti_sbound _ _ I r Hr); lia].
      destruct (span_eqb (si_span x) span_default); [pose proof (ti_sbound _ _ I r Hr); lia|].
      destruct (in_snoc _ _ _ Hr) as [H| ->]; [pose proof (ti_sbound _ _ I r H); lia|cbn; lia].
    + intros idx. rewrite span_of_ops_snoc, last_span_snoc.
      destruct (last_opt (span_infos t)) as [x|] eqn:E.
      * cbn [filt] in Hlast. destruct (span_eqb (si_span x) span_default) eqn:E2.
        -- destruct (lenZ ops <=? idx) eqn:E3; [|apply (ti_span _ _ I)].
           rewrite (ti_span _ _ I). rewrite span_of_ops_big by lia. exact Hlast.
        -- unfold spairs. rewrite map_app. cbn [map si_first si_span]. rewrite lin_snoc. rewrite (ti_n _ _ I).
           destruct (lenZ ops <=? idx); [reflexivity|]. apply (ti_span _ _ I).
      * destruct (lenZ ops <=? idx) eqn:E3; [|apply (ti_span _ _ I)].
        rewrite (ti_span _ _ I). rewrite span_of_ops_big by lia. exact Hlast.
  - (* add_with_span *)
    unfold add_with_span.
    destruct (add_line_record_inv ops t (OSpan sp) (s_sl sp) I) as (L1 & L2 & L3); [rewrite last_line_snoc; reflexivity|].
    pose proof (spairs_last _ _ I) as Hlast.
    assert (Hpush : let ss := span_infos t ++ [mksinfo (n_instr t) sp] in
      incr (map si_first ss) /\ (forall r, In r ss -> si_first r < n_instr t + 1) /\
      (forall idx, filt (lin (spairs ss) idx None) = span_of_ops (ops ++ [OSpan sp]) idx)).
    { cbv zeta. split; [|split].
      - rewrite map_app. cbn [map si_first]. apply incr_snoc; [apply (ti_sinc _ _ I)|].
        intros k Hk. apply in_map_iff in Hk. destruct Hk as (r & <- & Hr). apply (ti_sbound _ _ I r Hr).
      - intros r Hr. destruct (in_snoc _ _ _ Hr) as [H| ->]; [pose proof (ti_sbound _ _ I r H); lia|cbn; lia].
      - intros idx. unfold spairs. rewrite map_app. cbn [map si_first si_span]. rewrite lin_snoc.
        rewrite span_of_ops_snoc, last_span_snoc, (ti_n _ _ I). destruct (lenZ ops <=? idx); [reflexivity|]. apply (ti_span _ _ I). }
    assert (Hss : let ss := match last_opt (span_infos t) with
                            | Some x => if span_eqb (si_span x) sp then span_infos t else span_infos t ++ [mksinfo (n_instr t) sp]
                            | None => span_infos t ++ [mksinfo (n_instr t) sp]
                            end in
      incr (map si_first ss) /\ (forall r, In r ss -> si_first r < n_instr t + 1) /\
      (forall idx, filt (lin (spairs ss) idx None) = span_of_ops (ops ++ [OSpan sp]) idx)).
    { cbv zeta. destruct (last_opt (span_infos t)) as [x|] eqn:E; [|exact Hpush].
      destruct (span_eqb (si_span x) sp) eqn:E2; [|exact Hpush]. apply span_eqb_eq in E2.
      split; [apply (ti_sinc _ _ I)|]. split; [intros r Hr; pose proof (ti_sbound _ _ I r Hr); lia|].
      intros idx. rewrite span_of_ops_snoc, last_span_snoc. destruct (lenZ ops <=? idx) eqn:E3; [|apply (ti_span _ _ I)].
      rewrite (ti_span _ _ I). rewrite span_of_ops_big by lia. rewrite Hlast. cbn [filt]. rewrite E2. reflexivity. }
    destruct Hss as (S1 & S2 & S3).
    constructor; cbn [n_instr line_infos span_infos]; auto.
    rewrite lenZ_snoc, (ti_n _ _ I). reflexivity.
Qed.

Lemma TInv_nil : TInv [] instrs0.
Proof.
  constructor; cbn; try (intros; contradiction); try reflexivity; intros i j H; cbn in H; lia.
Qed.

Lemma build_snoc ops o : build (ops ++ [o]) = apply_iop (build ops) o.
Proof. unfold build. rewrite fold_left_app. reflexivity. Qed.

Lemma build_inv ops : TInv ops (build ops).
Proof.
  induction ops as [|o ops IH] using rev_ind; [exact TInv_nil|]. rewrite build_snoc. apply apply_iop_inv, IH.
Qed.
(* ---------------------------------------------------------------- part D: the statements used by Props/C14.v *)

(* a span lies on character boundaries of [src] *)
Definition on_boundaries (src : list Z) (sp : span) : Prop :=
  (exists a b c, src = a ++ b ++ c /\ s_so sp = bytes a /\ s_eo sp = bytes (a ++ b)) /\
  0 <= s_so sp <= s_eo sp /\ s_eo sp <= bytes src /\
  valid_slice src (s_so sp) (s_eo sp) = true.

Lemma span_good_on_boundaries src sp : span_good src sp -> on_boundaries src sp.
Proof.
  intros H. split; [apply span_good_offsets, H|]. pose proof (span_good_bounds _ _ H).
  split; [lia|]. split; [lia|]. apply span_good_valid_slice, H.
Qed.

Lemma err_good_on_boundaries src e : err_good src e -> on_boundaries src e.
Proof.
  intros (a & b & c & -> & Hb & Hbc & Hs & He & _). split; [exists a, b, c; auto|].
  rewrite Hs, He, !bytes_app. pose proof (bytes_nonneg a). pose proof (bytes_nonneg b). pose proof (bytes_nonneg c).
  split; [lia|]. split; [lia|]. unfold valid_slice. rewrite <- bytes_app.
  rewrite is_boundary_prefix. rewrite (app_assoc a b c), is_boundary_prefix. rewrite bytes_app.
  repeat rewrite andb_true_r. lia.
Qed.

Definition all_spans (P : span -> Prop) (s : ist) : Prop := Forall (fun ks => P (snd ks)) (i_out s).

Lemma Inv_out src s : Inv src s -> all_spans (span_good src) s.
Proof. intros (mp & ms & _ & _ & _ & H). exact H. Qed.

Lemma Forall_impl' {A} (P Q : A -> Prop) l : (forall x, P x -> Q x) -> Forall P l -> Forall Q l.
Proof. intros H F. eapply Forall_impl; eauto. Qed.

(* 1. offsets_on_boundaries, for any script of position primitives ... *)
Lemma interp_offsets_on_boundaries_proof ops src :
  match run_ops V1 ops (init_ist pos0 src) with
  | IOk s => all_spans (on_boundaries src) s
  | IErr s e => all_spans (on_boundaries src) s /\ on_boundaries src e
  | IPanic => True
  end.
Proof.
  pose proof (run_ops_inv V1 src ops _ (Inv_init src)) as H.
  destruct (run_ops V1 ops (init_ist pos0 src)) as [s|s e|]; auto.
  - eapply Forall_impl'; [|apply Inv_out, H]. intros; apply span_good_on_boundaries; auto.
  - destruct H as [H He]. split.
    + eapply Forall_impl'; [|apply Inv_out, H]. intros; apply span_good_on_boundaries; auto.
    + apply err_good_on_boundaries, He. reflexivity.
Qed.

(* ... and for the tokenizer *)
Lemma offsets_on_boundaries_proof fuel l src :
  match tok_loop V1 fuel l (init_ist pos0 src) with
  | TDone s => all_spans (on_boundaries src) s
  | TErr s e => all_spans (on_boundaries src) s /\ on_boundaries src e
  | _ => True
  end.
Proof.
  pose proof (tok_loop_inv V1 src fuel l _ (Inv_init src)) as H.
  destruct (tok_loop V1 fuel l (init_ist pos0 src)) as [s|s e| | |]; auto.
  - eapply Forall_impl'; [|apply Inv_out, H]. intros; apply span_good_on_boundaries; auto.
  - destruct H as [H He]. split.
    + eapply Forall_impl'; [|apply Inv_out, H]. intros; apply span_good_on_boundaries; auto.
    + apply err_good_on_boundaries, He. reflexivity.
Qed.

(* the text the tokenizer runs over is a prefix of the template source *)
Lemma rev_drop_head (p : Z -> bool) (r : list Z) :
  exists tl, rev r = rev (match r with c :: t => if p c then t else r | [] => r end) ++ tl.
Proof.
  destruct r as [|c t]; [exists []; reflexivity|]. destruct (p c).
  - exists [c]. reflexivity.
  - exists []. rewrite app_nil_r. reflexivity.
Qed.

Lemma strip_trailing_prefix src : exists t, src = strip_trailing src ++ t.
Proof.
  unfold strip_trailing. rewrite <- !rev_alt.
  set (r1 := match rev src with c :: t => if c =? 10 then t else rev src | [] => rev src end).
  destruct (rev_drop_head (fun c => c =? 10) (rev src)) as [t1 H1]. fold r1 in H1. rewrite rev_involutive in H1.
  destruct (rev_drop_head (fun c => c =? 13) r1) as [t2 H2].
  exists (t2 ++ t1). rewrite H1, H2, <- app_assoc. reflexivity.
Qed.

Lemma on_boundaries_extend src t sp : on_boundaries src sp -> on_boundaries (src ++ t) sp.
Proof.
  intros ((a & b & c & -> & Hs & He) & Hb & Hlen & _).
  assert (Hg : (exists a0 b0 c0, (a ++ b ++ c) ++ t = a0 ++ b0 ++ c0 /\ s_so sp = bytes a0 /\ s_eo sp = bytes (a0 ++ b0))).
  { exists a, b, (c ++ t). rewrite <- !app_assoc. auto. }
  split; [exact Hg|]. split; [lia|]. rewrite bytes_app. pose proof (bytes_nonneg t). split; [lia|].
  unfold valid_slice. rewrite Hs, He. rewrite <- !app_assoc. rewrite is_boundary_prefix.
  rewrite (app_assoc a b (c ++ t)), is_boundary_prefix. rewrite bytes_app in *.
  repeat rewrite andb_true_r. pose proof (bytes_nonneg a). pose proof (bytes_nonneg b). lia.
Qed.

Lemma tokenize_valid_slices_proof keep src :
  match tokenize V1 keep src with
  | TDone s => all_spans (on_boundaries src) s
  | TErr s e => all_spans (on_boundaries src) s /\ on_boundaries src e
  | _ => True
  end.
Proof.
  unfold tokenize. set (src' := if keep then src else strip_trailing src).
  assert (Hp : exists t, src = src' ++ t).
  { unfold src'. destruct keep; [exists []; rewrite app_nil_r; reflexivity|apply strip_trailing_prefix]. }
  destruct Hp as [t Ht].
  pose proof (offsets_on_boundaries_proof (2 * length src' + 4) lst0 src') as H.
  destruct (tok_loop V1 (2 * length src' + 4) lst0 (init_ist pos0 src')) as [s|s e| | |]; auto.
  - rewrite Ht. eapply Forall_impl'; [|exact H]. intros; apply on_boundaries_extend; auto.
  - destruct H as [H He]. rewrite Ht. split; [|apply on_boundaries_extend; auto].
    eapply Forall_impl'; [|exact H]. intros; apply on_boundaries_extend; auto.
Qed.

(* 2. line_is_newline_count *)
Definition line_counts (src : list Z) (sp : span) : Prop :=
  (exists a b c, src = a ++ b ++ c /\ s_so sp = bytes a /\ s_eo sp = bytes (a ++ b) /\
     s_sl sp = Z.min u16_max (1 + count_nl a) /\ s_el sp = Z.min u16_max (1 + count_nl (a ++ b))) /\
  s_sl sp = Z.min max_line (line_at src (s_so sp) 1) /\
  s_el sp = Z.min max_line (line_at src (s_eo sp) 1).

Lemma span_good_line_counts src sp : span_good src sp -> line_counts src sp.
Proof.
  intros H. split; [|apply span_good_lines, H]. destruct H as (a & b & c & -> & ->).
  exists a, b, c. cbn [mk_span s_so s_eo s_sl s_el]. rewrite !advance_off, pos0_off.
  rewrite !advance_line by (cbn; unfold u16_max; lia). rewrite pos0_line. repeat split; lia.
Qed.

Lemma line_is_newline_count_proof fuel l src :
  match tok_loop V1 fuel l (init_ist pos0 src) with
  | TDone s => all_spans (line_counts src) s /\
               exists pre, src = pre ++ i_rest s /\ p_line (i_pos s) = Z.min u16_max (1 + count_nl pre)
  | TErr s e => all_spans (line_counts src) s /\
               exists pre, src = pre ++ i_rest s /\ p_line (i_pos s) = Z.min u16_max (1 + count_nl pre) /\
                           s_sl e = p_line (i_pos s) /\ s_so e = bytes pre
  | _ => True
  end.
Proof.
  pose proof (tok_loop_inv V1 src fuel l _ (Inv_init src)) as H.
  assert (Hpos : forall s, Inv src s -> exists pre, src = pre ++ i_rest s /\ i_pos s = advance pos0 pre /\
                                       p_line (i_pos s) = Z.min u16_max (1 + count_nl pre)).
  { intros s (mp & ms & Hs & Hp & _). exists (mp ++ ms). split; [exact Hs|]. split; [exact Hp|]. rewrite Hp.
    rewrite advance_line by (cbn; unfold u16_max; lia). rewrite pos0_line. reflexivity. }
  destruct (tok_loop V1 fuel l (init_ist pos0 src)) as [s|s e| | |] eqn:E; auto.
  - split; [eapply Forall_impl'; [|apply Inv_out, H]; intros; apply span_good_line_counts; auto|].
    destruct (Hpos s H) as (pre & H1 & _ & H3). exists pre. auto.
  - destruct H as [H He]. split; [eapply Forall_impl'; [|apply Inv_out, H]; intros; apply span_good_line_counts; auto|].
    destruct (Hpos s H) as (pre & H1 & H2 & H3). exists pre. split; [exact H1|]. split; [exact H3|].
    (* the error span starts at the current position *)
    clear He. revert E. generalize (init_ist pos0 src). revert l. induction fuel as [|fuel IH]; intros l s0 E; cbn [tok_loop] in E; [discriminate|].
    destruct (i_rest s0) eqn:Er; [discriminate|]. rewrite <- Er in E.
    destruct (scan l (i_rest s0)) as [ops l'|]; [|discriminate].
    destruct (run_ops V1 ops s0) as [s1|s1 e1|] eqn:Er1; [eapply IH; eauto| |discriminate].
    injection E as -> ->.
    clear - Er1 H2. revert s0 Er1. induction ops as [|o ops IHo]; intros s0 Er1; cbn [run_ops] in Er1; [discriminate|].
    destruct (run_op V1 o s0) as [s2|s2 e2|] eqn:Eo; [eapply IHo; eauto| |discriminate].
    injection Er1 as -> ->. destruct o; cbn [run_op] in Eo; try discriminate.
    + destruct (adv_n n (i_pos s0) (i_rest s0)) as [[? ?]|]; discriminate.
    + cbn [syntax_error] in Eo. injection Eo as <- <-. cbn [s_sl s_so]. rewrite H2, advance_off. cbn. split; [reflexivity|lia].
Qed.

(* 3. shift_equivariant *)
Lemma shift_equivariant_proof v fuel l L n src :
  complete_lines L n -> 1 + n + count_nl src <= u16_max ->
  adv_n (length L) pos0 (L ++ src) = Some (advance pos0 L, src) /\
  tok_loop v fuel l (init_ist (advance pos0 L) src) =
    shift_tres n (bytes L) (tok_loop v fuel l (init_ist pos0 src)).
Proof.
  intros HL Hfit. split; [apply adv_n_prefix|].
  pose proof (count_nl_nonneg src). pose proof (count_nl_nonneg L). destruct HL as [Hc Hs].
  rewrite (advance_complete_lines L n) by (try split; auto; lia).
  change (init_ist (shift_pos n (bytes L) pos0) src) with (shift_ist n (bytes L) (init_ist pos0 src)).
  apply tok_loop_shift. unfold iroom, room. cbn [init_ist i_pos i_rest pos0 p_line]. lia.
Qed.

(* from scratch: consume the N lines, take a location, run any script *)
Lemma shift_script_proof v L n src ops : complete_lines L n -> 1 + n + count_nl src <= u16_max ->
  run_ops v (Adv (length L) :: Mark :: ops) (init_ist pos0 (L ++ src)) =
    shift_ires n (bytes L) (run_ops v (Mark :: ops) (init_ist pos0 src)).
Proof.
  intros HL Hfit. pose proof (count_nl_nonneg src). pose proof (count_nl_nonneg L).
  assert (Hn : 1 + n <= u16_max) by (destruct HL as [Hc _]; lia).
  cbn [run_ops run_op init_ist i_pos i_rest i_mark i_out].
  rewrite adv_n_prefix. cbn [i_pos i_rest i_mark i_out].
  rewrite (advance_complete_lines L n HL Hn).
  change (mkist (shift_pos n (bytes L) pos0) src (shift_pos n (bytes L) pos0) [])
    with (shift_ist n (bytes L) (mkist pos0 src pos0 [])).
  apply run_ops_shift. unfold iroom, room. cbn [i_pos i_rest pos0 p_line]. destruct HL as [Hc _]. lia.
Qed.

(* 4. the side tables *)
Lemma get_line_semantic_proof ops idx : get_line (build ops) idx = line_of_ops ops idx.
Proof.
  pose proof (build_inv ops) as I. rewrite get_line_lin by apply (ti_linc _ _ I). apply (ti_line _ _ I).
Qed.

Lemma get_span_semantic_proof ops idx : get_span (build ops) idx = span_of_ops ops idx.
Proof.
  pose proof (build_inv ops) as I. rewrite get_span_lin by apply (ti_sinc _ _ I). apply (ti_span _ _ I).
Qed.

Lemma incr_snoc_inv keys k : incr (keys ++ [k]) -> incr keys /\ forall x, In x keys -> x < k.
Proof.
  intros H. split.
  - intros i j Hij. specialize (H i j). rewrite app_length in H. cbn [length] in H.
    rewrite !app_nth1 in H by lia. apply H. lia.
  - intros x Hx. destruct (In_nth _ _ 0 Hx) as (n & Hn & <-).
    specialize (H n (length keys)). rewrite app_length in H. cbn [length] in H.
    rewrite app_nth1 in H by lia. rewrite (app_nth2 keys [k] 0 (le_n _)), Nat.sub_diag in H. cbn [nth] in H. apply H. lia.
Qed.

Lemma lin_greatest {A} (l : list (Z * A)) x : incr (map fst l) ->
  match lin l x None with
  | Some v => exists k, In (k, v) l /\ k <= x /\ forall k' v', In (k', v') l -> k' <= x -> k' <= k
  | None => forall k v, In (k, v) l -> x < k
  end.
Proof.
  induction l as [|[k v] l IH] using rev_ind; intros Hinc; [cbn; intros; contradiction|].
  rewrite map_app in Hinc. cbn [map fst] in Hinc. destruct (incr_snoc_inv _ _ Hinc) as [Hi Hk].
  specialize (IH Hi). rewrite lin_snoc. destruct (k <=? x) eqn:E.
  - exists k. split; [apply in_or_app; right; left; reflexivity|]. split; [lia|].
    intros k' v' Hin _. destruct (in_snoc _ _ _ Hin) as [H|H]; [|injection H as -> _; lia].
    assert (k' < k); [|lia]. apply Hk. apply in_map_iff. exists (k', v'). auto.
  - destruct (lin l x None) as [v0|].
    + destruct IH as (k0 & Hin & Hle & Hmax). exists k0. split; [apply in_or_app; left; exact Hin|]. split; [exact Hle|].
      intros k' v' Hin' Hle'. destruct (in_snoc _ _ _ Hin') as [H|H]; [eapply Hmax; eauto|]. injection H as -> _. lia.
    + intros k' v' Hin'. destruct (in_snoc _ _ _ Hin') as [H|H]; [eapply IH; eauto|]. injection H as -> _. lia.
Qed.

Lemma get_line_correct_proof ops idx :
  let t := build ops in
  match get_line t idx with
  | Some ln => exists r, In r (line_infos t) /\ li_line r = ln /\ li_first r <= idx /\
                         forall r', In r' (line_infos t) -> li_first r' <= idx -> li_first r' <= li_first r
  | None => forall r, In r (line_infos t) -> idx < li_first r
  end.
Proof.
  cbv zeta. pose proof (build_inv ops) as I. rewrite get_line_lin by apply (ti_linc _ _ I).
  pose proof (lin_greatest (lpairs (line_infos (build ops))) idx) as H. rewrite lpairs_keys in H.
  specialize (H (ti_linc _ _ I)). destruct (lin (lpairs (line_infos (build ops))) idx None) as [ln|].
  - destruct H as (k & Hin & Hle & Hmax). unfold lpairs in Hin. apply in_map_iff in Hin. destruct Hin as (r & Hr & Hin).
    injection Hr as <- <-. exists r. repeat split; auto. intros r' Hin' Hle'.
    apply (Hmax (li_first r') (li_line r')); [|exact Hle']. unfold lpairs. apply in_map_iff. exists r'. auto.
  - intros r Hin. apply (H (li_first r) (li_line r)). unfold lpairs. apply in_map_iff. exists r. auto.
Qed.

Lemma get_span_correct_proof ops idx :
  let t := build ops in
  match get_span t idx with
  | Some sp => sp <> span_default /\
               exists r, In r (span_infos t) /\ si_span r = sp /\ si_first r <= idx /\
                         forall r', In r' (span_infos t) -> si_first r' <= idx -> si_first r' <= si_first r
  | None => (forall r, In r (span_infos t) -> idx < si_first r) \/
            exists r, In r (span_infos t) /\ si_span r = span_default /\ si_first r <= idx /\
                      forall r', In r' (span_infos t) -> si_first r' <= idx -> si_first r' <= si_first r
  end.
Proof.
  cbv zeta. pose proof (build_inv ops) as I. rewrite get_span_lin by apply (ti_sinc _ _ I).
  pose proof (lin_greatest (spairs (span_infos (build ops))) idx) as H. rewrite spairs_keys in H.
  specialize (H (ti_sinc _ _ I)). destruct (lin (spairs (span_infos (build ops))) idx None) as [sp|]; cbn [filt].
  - destruct H as (k & Hin & Hle & Hmax). unfold spairs in Hin. apply in_map_iff in Hin. destruct Hin as (r & Hr & Hin).
    injection Hr as <- <-.
    assert (Hex : exists r0, In r0 (span_infos (build ops)) /\ si_span r0 = si_span r /\ si_first r0 <= idx /\
                    forall r', In r' (span_infos (build ops)) -> si_first r' <= idx -> si_first r' <= si_first r0).
    { exists r. repeat split; auto. intros r' Hin' Hle'.
      apply (Hmax (si_first r') (si_span r')); [|exact Hle']. unfold spairs. apply in_map_iff. exists r'. auto. }
    destruct (span_eqb (si_span r) span_default) eqn:E.
    + right. apply span_eqb_eq in E. rewrite E in Hex. exact Hex.
    + split; [|exact Hex]. intros Heq. rewrite Heq in E. rewrite (proj2 (span_eqb_eq _ _) eq_refl) in E. discriminate.
  - left. intros r Hin. apply (H (si_first r) (si_span r)). unfold spairs. apply in_map_iff. exists r. auto.
Qed.

(* 5. span_ordered *)
Lemma span_ordered_proof fuel l src : lines_fit src ->
  match tok_loop V1 fuel l (init_ist pos0 src) with
  | TDone s => all_spans ordered s
  | TErr s e => all_spans ordered s /\ ordered e
  | _ => True
  end.
Proof.
  intros Hfit. pose proof (tok_loop_inv V1 src fuel l _ (Inv_init src)) as H.
  destruct (tok_loop V1 fuel l (init_ist pos0 src)) as [s|s e| | |]; auto.
  - apply (Forall_impl' (fun ks => span_good src (snd ks))); [|apply Inv_out, H]. intros x Hx; apply (span_good_ordered_full src); auto.
  - destruct H as [H He]. split; [apply (Forall_impl' (fun ks => span_good src (snd ks))); [|apply Inv_out, H]; intros x Hx; apply (span_good_ordered_full src); auto|].
    destruct (He eq_refl) as (a & b & c & _ & _ & _ & Hs & Hee & _ & Hl & Hc). split.
    + rewrite Hs, Hee, bytes_app. pose proof (bytes_nonneg b). lia.
    + right. split; [lia|exact Hc].
Qed.

Lemma expand_span_ordered_proof src last sp :
  lines_fit src -> span_good src last -> span_good src sp ->
  ordered (expand_span V1 last sp) /\ exists n, caret_count V1 (expand_span V1 last sp) = Ok n /\ 0 <= n.
Proof.
  intros Hfit H1 H2. split; [|apply caret_count_v1_total].
  eapply span_good_ordered_full; [|exact Hfit]. apply expand_span_good; assumption.
Qed.
