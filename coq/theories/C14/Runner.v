(* Executable entry points of the C14 model and spec, in the integer-list protocol shared with
   harness/src/bin/c14.rs.  Encoders/decoders are unverified glue of the correspondence check. *)
From Coq Require Import String.
From MJ Require Import Common.Base.
From MJ Require Import C14.Model C14.Spec.

(* ---- decoding ---- *)
Fixpoint splitZ (n : Z) (l : list Z) : list Z * list Z :=
  match l with
  | [] => ([], [])
  | x :: r => if n <=? 0 then ([], l) else let '(a, b) := splitZ (n - 1) r in (x :: a, b)
  end.

Definition repeat_seg (rep : Z) (seg : list Z) (tail : list Z) : list Z :=
  match rep with
  | Zpos p => Pos.iter (fun acc => seg ++ acc) tail p
  | _ => tail
  end.

(* SRC = nseg (rep len c1..clen)*  ; returns the text (built back to front) and the rest *)
Fixpoint dec_segs (fuel : nat) (nseg : Z) (inp : list Z) (segs : list (Z * list Z)) : list (Z * list Z) * list Z :=
  match fuel with
  | O => (segs, inp)
  | S fuel =>
      if nseg <=? 0 then (segs, inp)
      else match inp with
           | rep :: len :: r => let '(seg, r') := splitZ len r in dec_segs fuel (nseg - 1) r' ((rep, seg) :: segs)
           | _ => (segs, [])
           end
  end.

Definition dec_src (inp : list Z) : list Z * list Z :=
  match inp with
  | nseg :: r =>
      let '(segs, rest) := dec_segs (S (List.length r)) nseg r [] in
      (fold_left (fun acc rs => repeat_seg (fst rs) (snd rs) acc) segs [], rest)
  | [] => ([], [])
  end.

(* ---- tokens ---- *)
Definition enc_span (sp : span) : list Z := [s_sl sp; s_sc sp; s_so sp; s_el sp; s_ec sp; s_eo sp].

Definition enc_toks (out : list (Z * span)) (tail : list Z) : list Z :=
  0 :: lenZ out :: fold_left (fun acc ks => fst ks :: enc_span (snd ks) ++ acc) out tail.

Definition enc_tres (r : tres) : list Z :=
  match r with
  | TDone s => enc_toks (i_out s) [0]
  | TErr s e => enc_toks (i_out s) [1; E_SyntaxError; s_sl e; 1; s_so e; s_eo e]
  | TPanic => [2]
  | TUnsupported => [7]
  | TOutOfGas => [8]
  end.

Definition run_tok (v : variant) (inp : list Z) : list Z :=
  match inp with
  | _ :: flags :: r =>
      let '(src, _) := dec_src r in
      enc_tres (tokenize v (Z.testbit flags 1) src)
  | _ => [9]
  end.

(* the spec evaluated on an observed token stream: input = flags SRC ntok (k span)* etag [kind line rtag rs re]
   output: 1 when every span and the error location satisfy the property, else 0 and the index of the first
   offender (ntok = the error) *)
Fixpoint spans_ok (fuel : nat) (src : list Z) (n : Z) (i : Z) (l : list Z) : option Z * list Z :=
  match fuel with
  | O => (None, l)
  | S fuel =>
      if n <=? 0 then (None, l)
      else match l with
           | _ :: a :: b :: c :: d :: e :: f :: r =>
               if span_ok src (mkspan a b c d e f) then spans_ok fuel src (n - 1) (i + 1) r else (Some i, r)
           | _ => (Some i, [])
           end
  end.

Definition run_spec_tok (inp : list Z) : list Z :=
  match inp with
  | flags :: r =>
      let '(src, r1) := dec_src r in
      match r1 with
      | ntok :: r2 =>
          match spans_ok (S (List.length r2)) src ntok 0 r2 with
          | (Some i, _) => [0; i]
          | (None, r3) =>
              match r3 with
              | 1 :: _ :: line :: rtag :: rs :: re :: _ =>
                  if located_ok src line (if rtag =? 0 then None else Some (rs, re)) then [1] else [0; ntok]
              | _ => [1]
              end
          end
      | [] => [9]
      end
  | _ => [9]
  end.

(* ---- tables ---- *)
Fixpoint dec_iops (fuel : nat) (n : Z) (inp : list Z) (acc : list iop) : list iop * list Z :=
  match fuel with
  | O => (rev acc, inp)
  | S fuel =>
      if n <=? 0 then (rev acc, inp)
      else match inp with
           | o :: a :: b :: c :: d :: e :: f :: r =>
               let op := if o =? 0 then OAdd else if o =? 1 then OLine a else OSpan (mkspan a b c d e f) in
               dec_iops fuel (n - 1) r (op :: acc)
           | _ => (rev acc, [])
           end
  end.

Definition enc_q (l : option Z) (s : option span) : list Z :=
  (match l with None => [0; 0] | Some x => [1; x] end) ++
  (match s with None => [0] | Some sp => 1 :: enc_span sp end).

Definition run_tab (inp : list Z) : list Z :=
  match inp with
  | _ :: nops :: r =>
      let '(ops, r1) := dec_iops (S (List.length r)) nops r [] in
      let t := build ops in
      match r1 with
      | nq :: qs => 0 :: flat_map (fun q => enc_q (get_line t q) (get_span t q)) (fst (splitZ nq qs))
      | [] => [0]
      end
  | _ => [9]
  end.

Definition run_spec_tab (inp : list Z) : list Z :=
  match inp with
  | _ :: nops :: r =>
      let '(ops, r1) := dec_iops (S (List.length r)) nops r [] in
      match r1 with
      | nq :: qs => 0 :: flat_map (fun q => enc_q (line_of_ops ops q) (span_of_ops ops q)) (fst (splitZ nq qs))
      | [] => [0]
      end
  | _ => [9]
  end.

Definition run (inp : list Z) : list Z :=
  match inp with
  | 1 :: _ => run_tok V1 inp
  | 2 :: _ => run_tab inp
  | _ => [9]
  end.
Definition run_v0 (inp : list Z) : list Z :=
  match inp with
  | 1 :: _ => run_tok V0 inp
  | _ => [9]
  end.

Open Scope string_scope.
Definition runners : list (string * (list Z -> list Z)) :=
  [ ("c14", run); ("c14-v0", run_v0); ("c14-spec-tok", run_spec_tok); ("c14-spec-tab", run_spec_tab) ].
