(* C14 specification, written from the property text (not from the code):

   - a reported byte range is a valid slice of the reported source: in bounds, start <= end,
     both ends on character boundaries of the UTF-8 encoding;
   - a reported line is the line of the template on which the reported position lies: one more
     than the number of line feeds before it (templates of up to 65 535 lines);
   - inserting N lines above shifts lines by N and offsets by the inserted bytes, nothing else;
   - the line / span recorded for an instruction is the one given when it (or the closest
     earlier located instruction) was emitted.
   Sources are lists of code points.  No proofs in this file. *)
From MJ Require Import Common.Base.
From MJ Require Import C14.Model.

(* length of the UTF-8 encoding of a scalar value (RFC 3629) *)
Definition enc_len (c : Z) : Z :=
  if c <=? 127 then 1 else if c <=? 2047 then 2 else if c <=? 65535 then 3 else 4.

Definition byte_len (l : list Z) : Z := fold_left (fun a c => a + enc_len c) l 0.

(* [off] is the byte offset of a character of [src] or its end *)
Fixpoint is_boundary (src : list Z) (off : Z) : bool :=
  (off =? 0) ||
  match src with
  | [] => false
  | c :: r => if off <? enc_len c then false else is_boundary r (off - enc_len c)
  end.

(* str::get(a..b).is_some() *)
Definition valid_slice (src : list Z) (a b : Z) : bool :=
  (0 <=? a) && (a <=? b) && is_boundary src a && is_boundary src b.

(* the line on which byte offset [off] lies: 1 + the number of line feeds that start before it *)
Fixpoint line_at (src : list Z) (off : Z) (line : Z) : Z :=
  match src with
  | [] => line
  | c :: r => if off <=? 0 then line
              else line_at r (off - enc_len c) (if c =? 10 then line + 1 else line)
  end.

Definition max_line := 65535.

(* what the property demands of a span reported against [src] *)
Definition span_ok (src : list Z) (sp : span) : bool :=
  valid_slice src (s_so sp) (s_eo sp)
  && (s_sl sp =? Z.min max_line (line_at src (s_so sp) 1))
  && (s_el sp =? Z.min max_line (line_at src (s_eo sp) 1))
  && ((s_sl sp <? s_el sp) || ((s_sl sp =? s_el sp) && (s_sc sp <=? s_ec sp)) || (s_sl sp =? max_line)).

(* what it demands of a (line, optional range) pair *)
Definition located_ok (src : list Z) (line : Z) (rng : option (Z * Z)) : bool :=
  (1 <=? line) && (line <=? Z.min max_line (line_at src (byte_len src) 1)) &&
  match rng with
  | None => true
  | Some (a, b) => valid_slice src a b && (line =? Z.min max_line (line_at src a 1))
  end.

(* inserting text above: lines + n, offsets + bytes, columns unchanged *)
Definition shift_span (n bytes : Z) (sp : span) : span :=
  mkspan (s_sl sp + n) (s_sc sp) (s_so sp + bytes) (s_el sp + n) (s_ec sp) (s_eo sp + bytes).

(* the instruction tables: the location in force for instruction [idx] is the one supplied by
   the last located emission among the instructions 0..idx (an emission with a line only
   carries no span; the all-zero span means "no span") *)
Definition last_line (ops : list iop) : option Z :=
  fold_left (fun cur o => match o with
                          | OAdd => cur
                          | OLine l => Some l
                          | OSpan sp => Some (s_sl sp)
                          end) ops None.

Definition last_span (ops : list iop) : option span :=
  fold_left (fun cur o => match o with
                          | OAdd => cur
                          | OLine _ => None
                          | OSpan sp => if span_eqb sp span_default then None else Some sp
                          end) ops None.

Definition line_of_ops (ops : list iop) (idx : Z) : option Z := last_line (takeZ (idx + 1) ops).
Definition span_of_ops (ops : list iop) (idx : Z) : option span := last_span (takeZ (idx + 1) ops).
