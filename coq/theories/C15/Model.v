(* C15 model of the code AS IT IS (no proofs here):

     minijinja/src/loader.rs       LoaderStore::{new, insert, insert_cow (both arms), remove, clear, get,
                                   set_loader, make_owned_template}  + derive(Clone)
     memo-map 0.3.3                MemoMap::{replace, remove, clear, get_or_try_insert, clone}
     minijinja/src/environment.rs  Environment::{new, add_template, add_template_owned, remove_template,
                                   clear_templates, set_loader, get_template, add_/remove_ filter/test/global
                                   (Arc::make_mut on the registry), derive(Clone),
                                   set_trim_blocks/set_keep_trailing_newline/... (template_config),
                                   template_from_named_str, template_from_str, render_named_str, render_str,
                                   compile_expression, compile_expression_owned (ad-hoc entry points: the
                                   store is neither read nor written)}
     minijinja/src/defaults.rs     get_builtin_filters/tests, get_globals (one process-wide Arc per registry)

   Maps are association lists; a compiled template is kept together with the source it was compiled
   from (CompiledTemplate borrows its source; LoadedTemplate owns name + source + compiled template).
   The compiler, the loader closures and the renderer are parameters: deterministic functions about
   which nothing else is assumed. *)
From MJ Require Import Common.Base C15.Vocab.

(* ---------------------------------------------------------------------------------------------- *)
(* association lists: BTreeMap<&str, _> / HashMap<Arc<str>, _> as far as get/insert/remove go *)
Section AList.
  Context {V : Type}.
  Definition amap := list (Z * V).
  Fixpoint a_get (m : amap) (k : Z) : option V :=
    match m with
    | [] => None
    | (k', v) :: r => if k' =? k then Some v else a_get r k
    end.
  Fixpoint a_remove (m : amap) (k : Z) : amap :=
    match m with
    | [] => []
    | (k', v) :: r => if k' =? k then a_remove r k else (k', v) :: a_remove r k
    end.
  (* insert-or-replace *)
  Definition a_insert (m : amap) (k : Z) (v : V) : amap := (k, v) :: a_remove m k.
End AList.
Arguments amap V : clear implicits.

(* ---------------------------------------------------------------------------------------------- *)
(* the two-tier template store *)
Section Store.
  Variable tmpl : Type.
  Variable compile : cmode -> src -> cres tmpl.   (* CompiledTemplate::new under a template_config; parse_expr + codegen *)
  Variable loader : Z -> Z -> name -> lres.       (* loader closure l, asked at world time t for a name *)
  (* [true]: loader.rs as it was before the fix (the other tier is evicted before compiling);
     [false]: loader.rs with commit "fix: ... compile before evicting" *)
  Variable evict_first : bool.

  Record store := {
    borrowed : amap ((Z * src) * tmpl);  (* borrowed_templates: BTreeMap<&'source str, Arc<CompiledTemplate>> *)
    owned : amap ((Z * src) * tmpl);     (* owned_templates: MemoMap<Arc<str>, Arc<LoadedTemplate>>: added AND loaded ones *)
    ldr : option Z;                      (* loader: Option<Arc<LoadFunc>> *)
    cfg : Z                              (* template_config (a compiled template is kept with the config it was compiled under) *)
  }.

  Definition store_new : store := {| borrowed := []; owned := []; ldr := None; cfg := 0 |}.

  (* insert_cow, arm (Cow::Borrowed(source), Cow::Borrowed(name)) *)
  Definition insert_borrowed (s : store) (n : name) (x : src) : store * option Z :=
    if evict_first then
      let o1 := a_remove (owned s) n in
      match compile (MTemplate (cfg s)) x with
      | CErr c => ({| borrowed := borrowed s; owned := o1; ldr := ldr s; cfg := cfg s |}, Some c)
      | COk t => ({| borrowed := a_insert (borrowed s) n ((cfg s, x), t); owned := o1; ldr := ldr s; cfg := cfg s |}, None)
      end
    else
      match compile (MTemplate (cfg s)) x with
      | CErr c => (s, Some c)
      | COk t => ({| borrowed := a_insert (borrowed s) n ((cfg s, x), t); owned := a_remove (owned s) n; ldr := ldr s; cfg := cfg s |}, None)
      end.

  (* insert_cow, arm (source, name) for every other combination *)
  Definition insert_owned (s : store) (n : name) (x : src) : store * option Z :=
    if evict_first then
      let b1 := a_remove (borrowed s) n in
      match compile (MTemplate (cfg s)) x with
      | CErr c => ({| borrowed := b1; owned := owned s; ldr := ldr s; cfg := cfg s |}, Some c)
      | COk t => ({| borrowed := b1; owned := a_insert (owned s) n ((cfg s, x), t); ldr := ldr s; cfg := cfg s |}, None)
      end
    else
      match compile (MTemplate (cfg s)) x with
      | CErr c => (s, Some c)
      | COk t => ({| borrowed := a_remove (borrowed s) n; owned := a_insert (owned s) n ((cfg s, x), t); ldr := ldr s; cfg := cfg s |}, None)
      end.

  Definition remove (s : store) (n : name) : store :=
    {| borrowed := a_remove (borrowed s) n; owned := a_remove (owned s) n; ldr := ldr s; cfg := cfg s |}.

  Definition clear (s : store) : store := {| borrowed := []; owned := []; ldr := ldr s; cfg := cfg s |}.

  Definition set_config (s : store) (c : Z) : store :=
    {| borrowed := borrowed s; owned := owned s; ldr := ldr s; cfg := c |}.

  Definition set_loader (s : store) (l : Z) : store :=
    {| borrowed := borrowed s; owned := owned s; ldr := Some l; cfg := cfg s |}.

  (* LoaderStore::get: borrowed tier, then MemoMap::get_or_try_insert whose creator asks the loader and
     compiles; only a successfully compiled result is inserted *)
  Definition get (s : store) (n : name) (now : Z) : store * gres tmpl :=
    match a_get (borrowed s) n with
    | Some (_, t) => (s, GOk t)
    | None =>
        match a_get (owned s) n with
        | Some (_, t) => (s, GOk t)
        | None =>
            match ldr s with
            | None => (s, GErr E_TemplateNotFound)
            | Some l =>
                match loader l now n with
                | LFail c => (s, GErr c)
                | LMissing => (s, GErr E_TemplateNotFound)
                | LFound x =>
                    match compile (MTemplate (cfg s)) x with
                    | CErr c => (s, GErr c)
                    | COk t => ({| borrowed := borrowed s; owned := a_insert (owned s) n ((cfg s, x), t); ldr := ldr s; cfg := cfg s |}, GOk t)
                    end
                end
            end
        end
    end.

  Definition store_step (s : store) (o : sop) : store * sout tmpl :=
    match o with
    | OAddBorrowed n x => let (s', e) := insert_borrowed s n x in (s', SAdd e)
    | OAddOwned n x => let (s', e) := insert_owned s n x in (s', SAdd e)
    | ORemove n => (remove s n, SUnit)
    | OClear => (clear s, SUnit)
    | OSetLoader l => (set_loader s l, SUnit)
    | OSetConfig c => (set_config s c, SUnit)
    | OGet n now => let (s', r) := get s n now in (s', SGot r)
    end.

  Fixpoint store_run (s : store) (h : list sop) : store * list (sout tmpl) :=
    match h with
    | [] => (s, [])
    | o :: r => let (s1, out) := store_step s o in
                let (s2, outs) := store_run s1 r in (s2, out :: outs)
    end.
End Store.

(* ---------------------------------------------------------------------------------------------- *)
(* registries behind Arc: a heap of reference-counted cells; Arc::clone / drop / make_mut *)
Definition reg := amap Z.            (* BTreeMap<Cow<str>, Value>: name -> identity of the function/value *)
Record cell := { rc : Z; body : reg }.
Record heap := { cells : amap cell; next : Z }.

Definition view (h : heap) (id : Z) : reg :=
  match a_get (cells h) id with Some c => body c | None => [] end.

Definition arc_clone (h : heap) (id : Z) : heap :=
  match a_get (cells h) id with
  | Some c => {| cells := a_insert (cells h) id {| rc := rc c + 1; body := body c |}; next := next h |}
  | None => h
  end.

Definition arc_drop (h : heap) (id : Z) : heap :=
  match a_get (cells h) id with
  | Some c => if rc c <=? 1 then {| cells := a_remove (cells h) id; next := next h |}
              else {| cells := a_insert (cells h) id {| rc := rc c - 1; body := body c |}; next := next h |}
  | None => h
  end.

(* Arc::make_mut(&mut handle) followed by the mutation [f]: in place when this is the only handle,
   otherwise the contents are cloned into a fresh Arc and the old one loses one reference *)
Definition arc_make_mut (h : heap) (id : Z) (f : reg -> reg) : heap * Z :=
  match a_get (cells h) id with
  | Some c =>
      if rc c =? 1 then
        ({| cells := a_insert (cells h) id {| rc := 1; body := f (body c) |}; next := next h |}, id)
      else
        let c1 := a_insert (cells h) id {| rc := rc c - 1; body := body c |} in
        ({| cells := a_insert c1 (next h) {| rc := 1; body := f (body c) |}; next := next h + 1 |}, next h)
  | None => (h, id)
  end.

(* ---------------------------------------------------------------------------------------------- *)
(* environments and the world of a history *)
Section World.
  Variable tmpl : Type.
  Variable compile : cmode -> src -> cres tmpl.
  Variable loader : Z -> Z -> name -> lres.
  Variable evict_first : bool.
  Variable builtin : rk -> reg.                              (* defaults.rs: the built-in registries *)
  Variable render : Z -> tmpl -> (rk -> Z -> option Z) -> obs.
                                       (* Template::render / render_captured_to: render call (context, sink, thread),
                                          compiled template, registries *)

  Record env := { st : store tmpl; fh : Z; th : Z; gh : Z }.   (* templates + three Arc handles *)

  Definition handle (e : env) (k : rk) : Z := match k with RF => fh e | RT => th e | RG => gh e end.
  Definition set_handle (e : env) (k : rk) (id : Z) : env :=
    match k with
    | RF => {| st := st e; fh := id; th := th e; gh := gh e |}
    | RT => {| st := st e; fh := fh e; th := id; gh := gh e |}
    | RG => {| st := st e; fh := fh e; th := th e; gh := id |}
    end.
  Definition set_store (e : env) (s : store tmpl) : env := {| st := s; fh := fh e; th := th e; gh := gh e |}.

  Record world := { hp : heap; cur : env; other : option env }.

  (* cells 0,1,2: the process-wide OnceLock<Arc<..>> registries (one reference held by the static) *)
  Definition static_id (k : rk) : Z := match k with RF => 0 | RT => 1 | RG => 2 end.
  Definition heap0 : heap :=
    {| cells := [(0, {| rc := 1; body := builtin RF |}); (1, {| rc := 1; body := builtin RT |});
                 (2, {| rc := 1; body := builtin RG |})]; next := 3 |}.

  Definition clone_handles (h : heap) (e : env) : heap := arc_clone (arc_clone (arc_clone h (fh e)) (th e)) (gh e).
  Definition drop_handles (h : heap) (e : env) : heap := arc_drop (arc_drop (arc_drop h (fh e)) (th e)) (gh e).

  (* Environment::new() *)
  Definition env_new : env := {| st := store_new tmpl; fh := 0; th := 1; gh := 2 |}.
  Definition world_new : world := {| hp := clone_handles heap0 env_new; cur := env_new; other := None |}.

  Definition regs_of (h : heap) (e : env) : rk -> Z -> option Z := fun k nm => a_get (view h (handle e k)) nm.

  Definition show_get (h : heap) (e : env) (rc : Z) (r : gres tmpl) : obs :=
    match r with GOk t => render rc t (regs_of h e) | GErr c => o_err c end.

  Definition show_sout (h : heap) (e : env) (o : sout tmpl) : obs :=
    match o with
    | SUnit => o_unit
    | SAdd None => o_unit
    | SAdd (Some c) => o_err c
    | SGot r => show_get h e 0 r
    end.

  (* what render call [rc] of [n] gives at time [now], observed on a throw-away clone of the environment
     (the clone's memo is discarded; its three reference-count increments are undone by its drop) *)
  Definition observe (h : heap) (e : env) (rc : Z) (n : name) (now : Z) : obs :=
    show_get h e rc (snd (get tmpl compile loader (st e) n now)).

  Definition adhoc_mode (how c : Z) : cmode :=
    if how <? 4 then MTemplate c else if how <? 6 then MExpr else MAnalysis.

  Definition reg_update (w : world) (k : rk) (f : reg -> reg) : world :=
    let (h', id') := arc_make_mut (hp w) (handle (cur w) k) f in
    {| hp := h'; cur := set_handle (cur w) k id'; other := other w |}.

  Definition world_step (w : world) (o : wop) : world * obs :=
    match o with
    | WStore so =>
        let (s', out) := store_step tmpl compile loader evict_first (st (cur w)) so in
        ({| hp := hp w; cur := set_store (cur w) s'; other := other w |}, show_sout (hp w) (cur w) out)
    | WRegAdd k nm v => (reg_update w k (fun r => a_insert r nm v), o_unit)
    | WRegRemove k nm => (reg_update w k (fun r => a_remove r nm), o_unit)
    | WClone =>
        (* derive(Clone): every field cloned (MemoMap::clone copies the map; the Arcs gain a reference);
           the previous [other] is dropped by the assignment *)
        let h1 := clone_handles (hp w) (cur w) in
        let h2 := match other w with Some e => drop_handles h1 e | None => h1 end in
        ({| hp := h2; cur := cur w; other := Some (cur w) |}, o_unit)
    | WSwap =>
        match other w with
        | Some e => ({| hp := hp w; cur := e; other := Some (cur w) |}, o_unit)
        | None => (w, o_unit)
        end
    | WAdhoc how n x =>
        (* template_from_named_str / template_from_str / render_named_str / render_str compile the given
           source under the current template_config into a temporary template; compile_expression(_owned)
           compiles an expression; nothing is looked up in or written to the store, whatever the name *)
        (w, match compile (adhoc_mode how (cfg _ (st (cur w)))) x with
            | COk t => render 0 t (regs_of (hp w) (cur w))
            | CErr c => o_err c
            end)
    | WRender rc n now =>
        (* a render keeps all its state in its own State/Vm; nothing of it outlives the call *)
        let (s', r) := get tmpl compile loader (st (cur w)) n now in
        ({| hp := hp w; cur := set_store (cur w) s'; other := other w |}, show_get (hp w) (cur w) rc r)
    | WRenderBadCtx n now panics =>
        let (s', r) := get tmpl compile loader (st (cur w)) n now in
        ({| hp := hp w; cur := set_store (cur w) s'; other := other w |},
         match r with
         | GOk _ => if panics then o_panic else o_err E_BadSerialization
         | GErr c => o_err c
         end)
    end.

  Fixpoint world_run (w : world) (h : list wop) : world * list obs :=
    match h with
    | [] => (w, [])
    | o :: r => let (w1, out) := world_step w o in
                let (w2, outs) := world_run w1 r in (w2, out :: outs)
    end.
End World.
