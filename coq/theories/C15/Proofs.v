(* C15 proofs.  The definitions the statements need (abstraction function, invariants,
   reachability) come first; then lemmas per modelled function; then the theorems. *)
From MJ Require Import Common.Base C15.Vocab C15.Model C15.Spec.

(* ---------------------------------------------------------------------------------------------- *)
(* association lists *)
Section AListLemmas.
  Context {V : Type}.
  Lemma a_get_remove (m : amap V) k k' : a_get (a_remove m k) k' = if k =? k' then None else a_get m k'.
  Proof.
    induction m as [|[k0 v] r IH]; cbn [a_remove a_get].
    - destruct (k =? k'); reflexivity.
    - destruct (k0 =? k) eqn:E.
      + rewrite IH. destruct (k =? k') eqn:E2; auto. destruct (k0 =? k') eqn:E3; auto. lia.
      + cbn [a_get]. rewrite IH. destruct (k0 =? k') eqn:E3; auto. destruct (k =? k') eqn:E2; auto. lia.
  Qed.
  Lemma a_get_insert (m : amap V) k v k' : a_get (a_insert m k v) k' = if k =? k' then Some v else a_get m k'.
  Proof. unfold a_insert; cbn [a_get]. rewrite a_get_remove. destruct (k =? k'); reflexivity. Qed.
End AListLemmas.

(* ---------------------------------------------------------------------------------------------- *)
(* the template store *)
Section StoreProofs.
  Variable tmpl : Type.
  Variable compile : cmode -> src -> cres tmpl.
  Variable loader : Z -> Z -> name -> lres.

  Notation store := (store tmpl).
  Notation step := (store_step tmpl compile loader false).
  Notation run := (store_run tmpl compile loader false).
  Notation mget := (get tmpl compile loader).
  Notation sstep := (spec_step tmpl compile loader).
  Notation srun := (spec_run tmpl compile loader).
  Notation sget := (spec_get tmpl compile loader).

  (* what the environment contains: the borrowed tier shadows the owned tier (which holds the added
     and the loader-obtained templates alike); each template as (configuration it was compiled under,
     source); compiled templates are forgotten *)
  Definition abs (s : store) : contents :=
    {| tpl := fun n => match a_get (borrowed _ s) n with
                       | Some (x, _) => Some x
                       | None => match a_get (owned _ s) n with Some (x, _) => Some x | None => None end
                       end;
       cur_loader := ldr _ s;
       cur_cfg := cfg _ s |}.

  (* every cached compiled template is the compilation of the source stored with it, under the
     configuration stored with it *)
  Definition wf (s : store) : Prop :=
    (forall n x t, a_get (borrowed _ s) n = Some (x, t) -> compile (MTemplate (fst x)) (snd x) = COk t) /\
    (forall n x t, a_get (owned _ s) n = Some (x, t) -> compile (MTemplate (fst x)) (snd x) = COk t).

  (* equal contents (finite maps compared pointwise) *)
  Definition sim (c1 c2 : contents) : Prop :=
    (forall n, tpl c1 n = tpl c2 n) /\ cur_loader c1 = cur_loader c2 /\ cur_cfg c1 = cur_cfg c2.

  Lemma sim_refl c : sim c c.
  Proof. repeat split; auto. Qed.
  Lemma sim_sym c1 c2 : sim c1 c2 -> sim c2 c1.
  Proof. intros (H1 & H2 & H3); repeat split; auto. Qed.
  Lemma sim_trans c1 c2 c3 : sim c1 c2 -> sim c2 c3 -> sim c1 c3.
  Proof. intros (H1 & H2 & H3) (H4 & H5 & H6); split; [intros n; rewrite H1; auto | split; congruence]. Qed.

  Lemma wf_new : wf (store_new tmpl).
  Proof. split; intros n x t H; discriminate. Qed.

  Lemma abs_new : sim (abs (store_new tmpl)) contents_new.
  Proof. repeat split; reflexivity. Qed.

  (* per function: the model step refines the spec step *)
  Definition refines {O : Type} (r : store * O) (r' : contents * O) : Prop :=
    wf (fst r) /\ sim (abs (fst r)) (fst r') /\ snd r = snd r'.

  Lemma insert_borrowed_refines s c n x : wf s -> sim (abs s) c ->
    refines (step s (OAddBorrowed n x)) (sstep c (OAddBorrowed n x)).
  Proof.
    intros [Wb Wo] S. pose proof S as (Ht & Hl & Hc). cbn [abs cur_cfg cur_loader] in Hl, Hc.
    unfold refines, store_step, insert_borrowed, spec_step, spec_add. rewrite <- Hc.
    destruct (compile (MTemplate (cfg _ s)) x) as [t|e] eqn:Ec; cbn [fst snd].
    - split; [split|split; [split; [|split]|reflexivity]]; cbn [borrowed owned ldr cfg abs tpl cur_loader cur_cfg]; auto.
      + intros n0 x0 t0. rewrite a_get_insert. destruct (n =? n0) eqn:E; [intros H; inversion H; subst; auto | apply Wb].
      + intros n0 x0 t0. rewrite a_get_remove. destruct (n =? n0) eqn:E; [discriminate | apply Wo].
      + intros n0. rewrite a_get_insert, a_get_remove. unfold upd. specialize (Ht n0). cbn [abs tpl] in Ht.
        destruct (n =? n0) eqn:E; destruct (n0 =? n) eqn:E'; try lia; auto.
    - split; [split; assumption|split; [exact S|reflexivity]].
  Qed.

  Lemma insert_owned_refines s c n x : wf s -> sim (abs s) c ->
    refines (step s (OAddOwned n x)) (sstep c (OAddOwned n x)).
  Proof.
    intros [Wb Wo] S. pose proof S as (Ht & Hl & Hc). cbn [abs cur_cfg cur_loader] in Hl, Hc.
    unfold refines, store_step, insert_owned, spec_step, spec_add. rewrite <- Hc.
    destruct (compile (MTemplate (cfg _ s)) x) as [t|e] eqn:Ec; cbn [fst snd].
    - split; [split|split; [split; [|split]|reflexivity]]; cbn [borrowed owned ldr cfg abs tpl cur_loader cur_cfg]; auto.
      + intros n0 x0 t0. rewrite a_get_remove. destruct (n =? n0) eqn:E; [discriminate | apply Wb].
      + intros n0 x0 t0. rewrite a_get_insert. destruct (n =? n0) eqn:E; [intros H; inversion H; subst; auto | apply Wo].
      + intros n0. rewrite a_get_insert, a_get_remove. unfold upd. specialize (Ht n0). cbn [abs tpl] in Ht.
        destruct (n =? n0) eqn:E; destruct (n0 =? n) eqn:E'; try lia; auto.
    - split; [split; assumption|split; [exact S|reflexivity]].
  Qed.

  Lemma remove_refines s c n : wf s -> sim (abs s) c -> refines (step s (ORemove n)) (sstep c (ORemove n)).
  Proof.
    intros [Wb Wo] (Ht & Hl & Hc). unfold refines, store_step, remove, spec_step; cbn [fst snd].
    split; [split|split; [split; [|split]|reflexivity]]; cbn [borrowed owned ldr cfg abs tpl cur_loader cur_cfg]; auto.
    - intros n0 x0 t0. rewrite a_get_remove. destruct (n =? n0); [discriminate | apply Wb].
    - intros n0 x0 t0. rewrite a_get_remove. destruct (n =? n0); [discriminate | apply Wo].
    - intros n0. rewrite !a_get_remove. unfold upd. specialize (Ht n0). cbn [abs tpl] in Ht.
      destruct (n =? n0) eqn:E; destruct (n0 =? n) eqn:E'; try lia; auto.
  Qed.

  Lemma clear_refines s c : wf s -> sim (abs s) c -> refines (step s OClear) (sstep c OClear).
  Proof.
    intros [Wb Wo] (Ht & Hl & Hc). unfold refines, store_step, clear, spec_step; cbn [fst snd].
    split; [split|split; [split; [|split]|reflexivity]]; cbn [borrowed owned ldr cfg abs tpl cur_loader cur_cfg a_get]; try discriminate; auto.
  Qed.

  Lemma set_loader_refines s c l : wf s -> sim (abs s) c -> refines (step s (OSetLoader l)) (sstep c (OSetLoader l)).
  Proof.
    intros [Wb Wo] (Ht & Hl & Hc). unfold refines, store_step, set_loader, spec_step; cbn [fst snd].
    split; [split; assumption|split; [split; [|split]|reflexivity]]; cbn [borrowed owned ldr cfg abs tpl cur_loader cur_cfg]; auto.
  Qed.

  Lemma set_config_refines s c k : wf s -> sim (abs s) c -> refines (step s (OSetConfig k)) (sstep c (OSetConfig k)).
  Proof.
    intros [Wb Wo] (Ht & Hl & Hc). unfold refines, store_step, set_config, spec_step; cbn [fst snd].
    split; [split; assumption|split; [split; [|split]|reflexivity]]; cbn [borrowed owned ldr cfg abs tpl cur_loader cur_cfg]; auto.
  Qed.

  Lemma get_refines_pair s c n now : wf s -> sim (abs s) c ->
    wf (fst (mget s n now)) /\ sim (abs (fst (mget s n now))) (fst (sget c n now)) /\
    snd (mget s n now) = snd (sget c n now).
  Proof.
    intros [Wb Wo] S. pose proof S as (Ht & Hl & Hc). unfold get, spec_get.
    pose proof (Ht n) as Hn. cbn [abs tpl cur_loader cur_cfg] in Hn, Hl, Hc.
    assert (Same : forall r : gres tmpl, wf (fst (s, r)) /\ sim (abs (fst (s, r))) (fst (c, r)) /\ snd (s, r) = snd (c, r)).
    { intros r; cbn [fst snd]. split; [split; assumption | split; [exact S | reflexivity]]. }
    destruct (a_get (borrowed _ s) n) as [[[k x] t]|] eqn:Eb.
    - rewrite <- Hn. pose proof (Wb _ _ _ Eb) as Hw. cbn [fst snd] in Hw. rewrite Hw. apply Same.
    - destruct (a_get (owned _ s) n) as [[[k x] t]|] eqn:Eo.
      + rewrite <- Hn. pose proof (Wo _ _ _ Eo) as Hw. cbn [fst snd] in Hw. rewrite Hw. apply Same.
      + rewrite <- Hn, <- Hl, <- Hc. destruct (ldr _ s) as [l|] eqn:El; [|apply Same].
        destruct (loader l now n) as [|x|e]; [apply Same| |apply Same].
        destruct (compile (MTemplate (cfg _ s)) x) as [t|e] eqn:Ec; [|apply Same].
        cbn [fst snd]. split; [split|split; [split; [|split]|reflexivity]]; cbn [borrowed owned ldr cfg abs tpl cur_loader cur_cfg]; auto.
        * intros n0 x0 t0. rewrite a_get_insert. destruct (n =? n0) eqn:E; [intros H; inversion H; subst; auto | apply Wo].
        * intros n0. rewrite a_get_insert. unfold upd. specialize (Ht n0). cbn [abs tpl] in Ht.
          destruct (n =? n0) eqn:E; destruct (n0 =? n) eqn:E'; try lia; auto.
          assert (n0 = n) by lia; subst n0. rewrite Eb. reflexivity.
  Qed.

  Lemma get_refines s c n now : wf s -> sim (abs s) c -> refines (step s (OGet n now)) (sstep c (OGet n now)).
  Proof.
    intros W S. destruct (get_refines_pair s c n now W S) as (H1 & H2 & H3).
    unfold refines, store_step, spec_step.
    destruct (mget s n now) as [s' r]; destruct (sget c n now) as [c' r']; cbn [fst snd] in *.
    split; [exact H1|split; [exact H2|congruence]].
  Qed.

  Lemma step_refines s c o : wf s -> sim (abs s) c -> refines (step s o) (sstep c o).
  Proof.
    destruct o; auto using insert_borrowed_refines, insert_owned_refines, remove_refines, clear_refines,
      set_loader_refines, set_config_refines, get_refines.
  Qed.

  Lemma run_refines h : forall s c, wf s -> sim (abs s) c -> refines (run s h) (srun c h).
  Proof.
    induction h as [|o h IH]; intros s c W S; cbn [store_run spec_run].
    - unfold refines; cbn [fst snd]; auto.
    - destruct (step_refines s c o W S) as (W1 & S1 & O1).
      destruct (step s o) as [s1 out]; destruct (sstep c o) as [c1 out']; cbn [fst snd] in *.
      destruct (IH s1 c1 W1 S1) as (W2 & S2 & O2).
      destruct (run s1 h) as [s2 outs]; destruct (srun c1 h) as [c2 outs']; cbn [fst snd] in *.
      unfold refines; cbn [fst snd]. split; [exact W2|split; [exact S2|congruence]].
  Qed.

  (* on the specification, equal contents behave equally (so behaviour is a function of the contents) *)
  Lemma spec_step_sim c1 c2 o : sim c1 c2 ->
    sim (fst (sstep c1 o)) (fst (sstep c2 o)) /\ snd (sstep c1 o) = snd (sstep c2 o).
  Proof.
    intros S. pose proof S as (Ht & Hl & Hc).
    destruct o as [n x|n x|n| |l|k|n now]; unfold spec_step, spec_add, spec_get; cbn [fst snd].
    1,2: rewrite <- Hc; destruct (compile (MTemplate (cur_cfg c1)) x); cbn [fst snd];
         (split; [split; [|split]|reflexivity]); cbn [tpl cur_loader cur_cfg]; auto;
         intros n0; unfold upd; destruct (n0 =? n); auto.
    - split; [split; [|split]|reflexivity]; cbn [tpl cur_loader cur_cfg]; auto. intros n0; unfold upd; destruct (n0 =? n); auto.
    - split; [split; [|split]|reflexivity]; cbn [tpl cur_loader cur_cfg]; auto.
    - split; [split; [|split]|reflexivity]; cbn [tpl cur_loader cur_cfg]; auto.
    - split; [split; [|split]|reflexivity]; cbn [tpl cur_loader cur_cfg]; auto.
    - assert (Same : forall r : gres tmpl, sim (fst (c1, SGot r)) (fst (c2, SGot r)) /\ snd (c1, SGot r) = snd (c2, SGot r)).
      { intros r; cbn [fst snd]; split; [exact S|reflexivity]. }
      rewrite <- (Ht n), <- Hl, <- Hc. destruct (tpl c1 n) as [[k x]|]; [apply Same|].
      destruct (cur_loader c1) as [l|] eqn:El; [|apply Same].
      destruct (loader l now n) as [|x|e]; [apply Same| |apply Same].
      destruct (compile (MTemplate (cur_cfg c1)) x); [|apply Same].
      cbn [fst snd]; (split; [split; [|split]|reflexivity]); cbn [tpl cur_loader cur_cfg]; auto.
      intros n0; unfold upd; destruct (n0 =? n); auto.
  Qed.

  Lemma spec_run_sim h : forall c1 c2, sim c1 c2 ->
    sim (fst (srun c1 h)) (fst (srun c2 h)) /\ snd (srun c1 h) = snd (srun c2 h).
  Proof.
    induction h as [|o h IH]; intros c1 c2 S; cbn [spec_run].
    - cbn [fst snd]; auto.
    - destruct (spec_step_sim c1 c2 o S) as [S1 O1].
      destruct (sstep c1 o) as [d1 o1]; destruct (sstep c2 o) as [d2 o2]; cbn [fst snd] in *.
      destruct (IH d1 d2 S1) as [S2 O2].
      destruct (srun d1 h) as [e1 os1]; destruct (srun d2 h) as [e2 os2]; cbn [fst snd] in *.
      split; auto. congruence.
  Qed.

  (* ---- the theorems about the store ---- *)
  Definition final (h : list sop) : store := fst (run (store_new tmpl) h).

  Lemma final_wf h : wf (final h).
  Proof. destruct (run_refines h _ _ wf_new abs_new) as (W & _ & _). exact W. Qed.

  Theorem store_refines_map_proof : forall h,
    sim (abs (final h)) (fst (srun contents_new h)) /\
    snd (run (store_new tmpl) h) = snd (srun contents_new h).
  Proof. intros h. destruct (run_refines h _ _ wf_new abs_new) as (_ & S & O). split; assumption. Qed.

  (* a lookup on a reachable store is the specification's lookup on its contents *)
  Theorem get_is_lookup_proof : forall h n now,
    snd (mget (final h) n now) = snd (sget (abs (final h)) n now).
  Proof.
    intros h n now. destruct (get_refines_pair (final h) (abs (final h)) n now (final_wf h) (sim_refl _)) as (_ & _ & H).
    exact H.
  Qed.

  Theorem history_independent_proof : forall h1 h2, sim (abs (final h1)) (abs (final h2)) ->
    forall h, snd (run (final h1) h) = snd (run (final h2) h).
  Proof.
    intros h1 h2 S h.
    destruct (run_refines h (final h1) (abs (final h1)) (final_wf h1) (sim_refl _)) as (_ & _ & O1).
    destruct (run_refines h (final h2) (abs (final h2)) (final_wf h2) (sim_refl _)) as (_ & _ & O2).
    rewrite O1, O2. apply spec_run_sim. exact S.
  Qed.

  Theorem failed_add_is_noop_proof : forall (s : store) n x e, compile (MTemplate (cfg _ s)) x = CErr e ->
    step s (OAddBorrowed n x) = (s, SAdd (Some e)) /\ step s (OAddOwned n x) = (s, SAdd (Some e)).
  Proof.
    intros s n x e H. unfold store_step, insert_borrowed, insert_owned. rewrite H. split; reflexivity.
  Qed.

  (* operations that may change what the environment holds for [n] *)
  Definition touches (n : name) (o : sop) : bool :=
    match o with
    | OAddBorrowed n' _ | OAddOwned n' _ | ORemove n' => n' =? n
    | OClear => true
    | OSetLoader _ | OSetConfig _ | OGet _ _ => false
    end.

  Lemma spec_untouched_keeps c n x o : tpl c n = Some x -> touches n o = false -> tpl (fst (sstep c o)) n = Some x.
  Proof.
    intros H T. destruct o as [n' x'|n' x'|n'| |l|k|n' now]; unfold spec_step, spec_add, spec_get; cbn [touches] in T;
      cbn [fst snd]; try discriminate.
    1,2: destruct (compile (MTemplate (cur_cfg c)) x'); cbn [fst tpl]; auto; unfold upd; destruct (n =? n') eqn:E; auto; lia.
    - cbn [tpl]. unfold upd. destruct (n =? n') eqn:E; auto; lia.
    - exact H.
    - exact H.
    - destruct (tpl c n') as [[k y]|] eqn:E'; cbn [fst]; auto.
      destruct (cur_loader c) as [l|]; cbn [fst]; auto.
      destruct (loader l now n') as [|y|e]; cbn [fst]; auto.
      destruct (compile (MTemplate (cur_cfg c)) y); cbn [fst tpl]; auto.
      unfold upd. destruct (n =? n') eqn:E; auto. assert (n = n') by lia; subst. congruence.
  Qed.

  Lemma untouched_keeps h : forall s n x, wf s -> tpl (abs s) n = Some x ->
    forallb (fun o => negb (touches n o)) h = true ->
    wf (fst (run s h)) /\ tpl (abs (fst (run s h))) n = Some x.
  Proof.
    induction h as [|o h IH]; intros s n x W H T; cbn [store_run].
    - cbn [fst]; auto.
    - cbn [forallb] in T. apply andb_prop in T as [T1 T2]. apply negb_true_iff in T1.
      destruct (step_refines s (abs s) o W (sim_refl _)) as (W1 & [S1 _] & _).
      pose proof (spec_untouched_keeps (abs s) n x o H T1) as K. rewrite <- S1 in K.
      destruct (step s o) as [s1 out]; cbn [fst] in *.
      destruct (IH s1 n x W1 K T2) as [W2 K2].
      destruct (run s1 h) as [s2 outs]; cbn [fst] in *. auto.
  Qed.

  Lemma get_of_contents s n k x now : wf s -> tpl (abs s) n = Some (k, x) ->
    snd (mget s n now) = match compile (MTemplate k) x with COk t => GOk t | CErr e => GErr e end.
  Proof.
    intros W H. destruct (get_refines_pair s (abs s) n now W (sim_refl _)) as (_ & _ & E).
    rewrite E. unfold spec_get. rewrite H. reflexivity.
  Qed.

  Theorem loader_source_pinned_proof : forall h n now l x t,
    tpl (abs (final h)) n = None -> ldr _ (final h) = Some l -> loader l now n = LFound x ->
    compile (MTemplate (cfg _ (final h))) x = COk t ->
    snd (mget (final h) n now) = GOk t /\
    forall h', forallb (fun o => negb (touches n o)) h' = true ->
    forall now', snd (mget (fst (run (fst (mget (final h) n now)) h')) n now') = GOk t.
  Proof.
    intros h n now l x t Hn Hl Hf Hc.
    pose proof (final_wf h) as W.
    destruct (get_refines_pair (final h) (abs (final h)) n now W (sim_refl _)) as (W1 & [S1 _] & O1).
    assert (Hs : sget (abs (final h)) n now =
                 ({| tpl := upd (tpl (abs (final h))) n (Some (cfg _ (final h), x));
                     cur_loader := cur_loader (abs (final h)); cur_cfg := cur_cfg (abs (final h)) |}, GOk t)).
    { unfold spec_get. rewrite Hn. cbn [abs cur_loader cur_cfg]. rewrite Hl, Hf, Hc. reflexivity. }
    rewrite Hs in O1, S1. cbn [fst snd] in *. split; [exact O1|].
    intros h' T now'.
    assert (K : tpl (abs (fst (mget (final h) n now))) n = Some (cfg _ (final h), x)).
    { rewrite S1. cbn [tpl]. unfold upd. rewrite Z.eqb_refl. reflexivity. }
    destruct (untouched_keeps h' _ n _ W1 K T) as [W2 K2].
    rewrite (get_of_contents _ n _ x now' W2 K2), Hc. reflexivity.
  Qed.
End StoreProofs.

(* the code before the fix: a failing add_template evicts the owned template of the same name *)
Definition demo_compile (m : cmode) (x : src) : cres Z := if x =? 0 then CErr E_SyntaxError else COk x.
Definition demo_loader (l now n : Z) : lres := LMissing.
Lemma failed_add_evicts_before_fix_proof :
  let run old := fst (store_run Z demo_compile demo_loader old (store_new Z) [OAddOwned 7 1; OAddBorrowed 7 0]) in
  snd (get Z demo_compile demo_loader (run true) 7 0) = GErr E_TemplateNotFound /\
  snd (get Z demo_compile demo_loader (run false) 7 0) = GOk 1.
Proof. vm_compute. split; reflexivity. Qed.
Lemma failed_add_evicts_before_fix_sym_proof :
  let run old := fst (store_run Z demo_compile demo_loader old (store_new Z) [OAddBorrowed 7 1; OAddOwned 7 0]) in
  snd (get Z demo_compile demo_loader (run true) 7 0) = GErr E_TemplateNotFound /\
  snd (get Z demo_compile demo_loader (run false) 7 0) = GOk 1.
Proof. vm_compute. split; reflexivity. Qed.

(* ---------------------------------------------------------------------------------------------- *)
(* reference-counted registries: Arc::clone / drop / make_mut keep the counts accurate, and a
   mutation through one handle is invisible through every other live handle *)
Definition ind (a b : Z) : Z := Z.b2z (a =? b).
Definition rc_of (h : heap) (id : Z) : Z := match a_get (cells h) id with Some c => rc c | None => 0 end.

(* [m id] = the number of live handles to cell [id] *)
Definition acc (h : heap) (m : Z -> Z) : Prop :=
  (forall id, rc_of h id = m id) /\
  (forall id c, a_get (cells h) id = Some c -> 1 <= rc c /\ id < next h).

Lemma acc_ext h m m' : acc h m -> (forall j, m j = m' j) -> acc h m'.
Proof. intros [A1 A2] E. split; auto. intros id. rewrite A1. apply E. Qed.

Lemma acc_present h m id : acc h m -> 1 <= m id -> exists c, a_get (cells h) id = Some c /\ rc c = m id.
Proof.
  intros [A1 A2] H. specialize (A1 id). unfold rc_of in A1.
  destruct (a_get (cells h) id) as [c|]; [exists c; auto | lia].
Qed.

Lemma acc_clone h m id : acc h m -> 1 <= m id ->
  acc (arc_clone h id) (fun j => m j + ind id j) /\ forall j, view (arc_clone h id) j = view h j.
Proof.
  intros A H. destruct (acc_present h m id A H) as (c & Ec & Erc). destruct A as [A1 A2].
  unfold arc_clone. rewrite Ec. split; [split|].
  - intros j. unfold rc_of, ind; cbn [cells]. rewrite a_get_insert. destruct (id =? j) eqn:E; cbn [rc Z.b2z].
    + assert (j = id) by lia; subst. lia.
    + specialize (A1 j). unfold rc_of in A1. lia.
  - intros j c'. cbn [cells next]. rewrite a_get_insert. destruct (id =? j) eqn:E.
    + intros X; inversion X; subst; cbn [rc]. assert (j = id) by lia; subst. destruct (A2 _ _ Ec). lia.
    + apply A2.
  - intros j. unfold view; cbn [cells]. rewrite a_get_insert. destruct (id =? j) eqn:E; auto.
    assert (j = id) by lia; subst. rewrite Ec. reflexivity.
Qed.

Lemma acc_drop h m id : acc h m -> 1 <= m id ->
  acc (arc_drop h id) (fun j => m j - ind id j) /\
  forall j, (j <> id \/ 2 <= m id) -> view (arc_drop h id) j = view h j.
Proof.
  intros A H. destruct (acc_present h m id A H) as (c & Ec & Erc). destruct A as [A1 A2].
  destruct (A2 _ _ Ec) as [Hc1 Hc2].
  unfold arc_drop. rewrite Ec. destruct (rc c <=? 1) eqn:El.
  - split; [split|].
    + intros j. unfold rc_of, ind; cbn [cells]. rewrite a_get_remove. destruct (id =? j) eqn:E; cbn [Z.b2z].
      * assert (j = id) by lia; subst. lia.
      * specialize (A1 j). unfold rc_of in A1. lia.
    + intros j c'. cbn [cells next]. rewrite a_get_remove. destruct (id =? j); [discriminate | apply A2].
    + intros j Hj. unfold view; cbn [cells]. rewrite a_get_remove. destruct (id =? j) eqn:E; auto. lia.
  - split; [split|].
    + intros j. unfold rc_of, ind; cbn [cells]. rewrite a_get_insert. destruct (id =? j) eqn:E; cbn [rc Z.b2z].
      * assert (j = id) by lia; subst. lia.
      * specialize (A1 j). unfold rc_of in A1. lia.
    + intros j c'. cbn [cells next]. rewrite a_get_insert. destruct (id =? j) eqn:E.
      * intros X; inversion X; subst; cbn [rc]. lia.
      * apply A2.
    + intros j _. unfold view; cbn [cells]. rewrite a_get_insert. destruct (id =? j) eqn:E; auto.
      assert (j = id) by lia; subst. rewrite Ec. reflexivity.
Qed.

Lemma acc_make_mut h m id f : acc h m -> 1 <= m id ->
  acc (fst (arc_make_mut h id f)) (fun j => m j - ind id j + ind (snd (arc_make_mut h id f)) j) /\
  view (fst (arc_make_mut h id f)) (snd (arc_make_mut h id f)) = f (view h id) /\
  forall j, 1 <= m j - ind id j -> view (fst (arc_make_mut h id f)) j = view h j.
Proof.
  intros A H. destruct (acc_present h m id A H) as (c & Ec & Erc). destruct A as [A1 A2].
  destruct (A2 _ _ Ec) as [Hc1 Hc2].
  assert (Hv : view h id = body c) by (unfold view; rewrite Ec; reflexivity).
  unfold arc_make_mut. rewrite Ec. destruct (rc c =? 1) eqn:E1; cbn [fst snd].
  - split; [split|split].
    + intros j. unfold rc_of, ind; cbn [cells]. rewrite a_get_insert. destruct (id =? j) eqn:E; cbn [rc Z.b2z].
      * assert (j = id) by lia; subst. lia.
      * specialize (A1 j). unfold rc_of in A1. lia.
    + intros j c'. cbn [cells next]. rewrite a_get_insert. destruct (id =? j) eqn:E.
      * intros X; inversion X; subst; cbn [rc]. lia.
      * apply A2.
    + unfold view at 1; cbn [cells]. rewrite a_get_insert, Z.eqb_refl. cbn [body]. congruence.
    + intros j Hj. unfold view; cbn [cells]. rewrite a_get_insert. unfold ind in Hj.
      destruct (id =? j) eqn:E; auto. cbn [Z.b2z] in Hj. assert (j = id) by lia; subst. lia.
  - assert (Hfresh : a_get (cells h) (next h) = None).
    { destruct (a_get (cells h) (next h)) as [c'|] eqn:E'; auto. destruct (A2 _ _ E'). lia. }
    assert (Hm0 : m (next h) = 0) by (rewrite <- A1; unfold rc_of; rewrite Hfresh; reflexivity).
    assert (Hne : id <> next h) by lia.
    split; [split|split].
    + intros j. unfold rc_of, ind; cbn [cells]. rewrite !a_get_insert.
      destruct (next h =? j) eqn:E; destruct (id =? j) eqn:E'; cbn [rc Z.b2z]; try lia.
      * assert (j = next h) by lia; subst. lia.
      * assert (j = id) by lia; subst. lia.
      * specialize (A1 j). unfold rc_of in A1. lia.
    + intros j c'. cbn [cells next]. rewrite !a_get_insert.
      destruct (next h =? j) eqn:E; [|destruct (id =? j) eqn:E'].
      * intros X; inversion X; subst; cbn [rc]. lia.
      * intros X; inversion X; subst; cbn [rc]. lia.
      * intros X. destruct (A2 _ _ X). lia.
    + unfold view at 1; cbn [cells]. rewrite a_get_insert, Z.eqb_refl. cbn [body]. congruence.
    + intros j Hj. unfold view; cbn [cells]. rewrite !a_get_insert. unfold ind in Hj.
      destruct (next h =? j) eqn:E; [|destruct (id =? j) eqn:E']; auto.
      * assert (j = next h) by lia; subst. destruct (id =? next h); cbn [Z.b2z] in Hj; lia.
      * assert (j = id) by lia; subst. rewrite Ec. reflexivity.
Qed.

(* ---------------------------------------------------------------------------------------------- *)
(* whole environments: store + three copy-on-write registries, current and other environment *)
Section WorldProofs.
  Variable tmpl : Type.
  Variable compile : cmode -> src -> cres tmpl.
  Variable loader : Z -> Z -> name -> lres.
  Variable builtin : rk -> reg.
  Variable render : Z -> tmpl -> (rk -> Z -> option Z) -> obs.
  (* the renderer consults the registries only by looking names up *)
  Hypothesis render_ext : forall rc t f g, (forall k nm, f k nm = g k nm) -> render rc t f = render rc t g.

  Notation env := (env tmpl).
  Notation world := (world tmpl).
  Notation wstep := (world_step tmpl compile loader false render).
  Notation wrun := (world_run tmpl compile loader false render).
  Notation wobserve := (observe tmpl compile loader render).
  Definition builtin_has (k : rk) (nm : Z) : option Z := a_get (builtin k) nm.
  Notation sstep := (sworld_step tmpl compile loader render).
  Notation srun := (sworld_run tmpl compile loader render).
  Notation sobserve := (s_observe tmpl compile loader render).
  Notation wf := (wf tmpl compile).
  Notation abs := (abs tmpl).

  Definition env_cnt (e : env) (j : Z) : Z := ind (fh _ e) j + ind (th _ e) j + ind (gh _ e) j.
  Definition live_cnt (w : world) (j : Z) : Z :=
    ind 0 j + ind 1 j + ind 2 j + env_cnt (cur _ w) j +
    match other _ w with Some e => env_cnt e j | None => 0 end.

  (* invariant of reachable worlds *)
  Definition winv (w : world) : Prop :=
    acc (hp _ w) (live_cnt w) /\ wf (st _ (cur _ w)) /\
    match other _ w with Some e => wf (st _ e) | None => True end.

  (* "environment e (in heap h) contains exactly se" *)
  Definition env_rel (h : heap) (e : env) (se : senv) : Prop :=
    sim (abs (st _ e)) (sc se) /\ forall k nm, regs_of tmpl h e k nm = sr se k nm.
  Definition wrel (w : world) (sw : sworld) : Prop :=
    env_rel (hp _ w) (cur _ w) (scur sw) /\
    match other _ w, sother sw with
    | Some e, Some se => env_rel (hp _ w) e se
    | None, None => True
    | _, _ => False
    end.

  Ltac unf := unfold live_cnt, env_cnt, ind in *; cbn [cur other hp st fh th gh handle set_handle set_store] in *.

  Lemma env_rel_heap h h' e se :
    (forall k, view h' (handle _ e k) = view h (handle _ e k)) -> env_rel h e se -> env_rel h' e se.
  Proof.
    intros V [S R]. split; auto. intros k nm. rewrite <- R. unfold regs_of. rewrite V. reflexivity.
  Qed.

  Lemma show_get_rel h e se rc r : env_rel h e se -> show_get tmpl render h e rc r = s_show_get tmpl render se rc r.
  Proof. intros [S R]. destruct r; cbn [show_get s_show_get]; auto. Qed.

  Lemma observe_rel h e se rc n now : wf (st _ e) -> env_rel h e se -> wobserve h e rc n now = sobserve se rc n now.
  Proof.
    intros W R. unfold observe, s_observe.
    destruct (get_refines_pair tmpl compile loader (st _ e) (sc se) n now W (proj1 R)) as (_ & _ & E).
    rewrite E. apply show_get_rel. exact R.
  Qed.

  Lemma live_handle_cur w k : 1 <= live_cnt w (handle _ (cur _ w) k).
  Proof. destruct k; unf; destruct (other _ w); lia. Qed.

  Lemma live_other_handle w k k' : k <> k' ->
    1 <= live_cnt w (handle _ (cur _ w) k') - ind (handle _ (cur _ w) k) (handle _ (cur _ w) k').
  Proof. destruct k, k'; try congruence; intros _; unf; destruct (other _ w); lia. Qed.

  Lemma live_other_env w e k k' : other _ w = Some e ->
    1 <= live_cnt w (handle _ e k') - ind (handle _ (cur _ w) k) (handle _ e k').
  Proof. intros E. destruct k, k'; unf; rewrite E; lia. Qed.

  (* ---- registries ---- *)
  Lemma reg_update_refines w sw k f nm v :
    (forall r nm', a_get (f r) nm' = upd (a_get r) nm v nm') ->
    winv w -> wrel w sw ->
    winv (reg_update tmpl w k f) /\
    wrel (reg_update tmpl w k f)
         {| scur := {| sc := sc (scur sw); sr := sr_upd (sr (scur sw)) k nm v |}; sother := sother sw |}.
  Proof.
    intros Hf (A & W1 & W2) (R1 & R2). unfold reg_update.
    pose proof (live_handle_cur w k) as Hlive.
    destruct (acc_make_mut (hp _ w) (live_cnt w) (handle _ (cur _ w) k) f A Hlive) as (A' & V1 & V2).
    destruct (arc_make_mut (hp _ w) (handle _ (cur _ w) k) f) as [h' id'] eqn:Em. cbn [fst snd] in *.
    split; [split; [|split]|split].
    - eapply acc_ext; [exact A'|]. intros j. destruct k; unf; destruct (other _ w); lia.
    - destruct k; exact W1.
    - cbn [other]. exact W2.
    - cbn [cur hp scur]. destruct R1 as [S R]. split.
      + cbn [sc]. destruct k; exact S.
      + intros k' nm'. cbn [sr]. unfold regs_of.
        destruct k, k'; cbn [handle set_handle fh th gh sr_upd];
          try (rewrite V1, Hf; unfold upd; destruct (nm' =? nm); auto; apply R);
          try (rewrite V2; [match goal with |- _ = sr _ ?k0 ?n0 => exact (R k0 n0) end|];
               match goal with |- 1 <= live_cnt _ (?hk' _ _) - ind (handle _ _ ?k0) _ =>
                 first [exact (live_other_handle w k0 RF ltac:(discriminate))
                       |exact (live_other_handle w k0 RT ltac:(discriminate))
                       |exact (live_other_handle w k0 RG ltac:(discriminate))] end).
    - cbn [other hp sother]. destruct (other _ w) as [e|] eqn:Eo; destruct (sother sw) as [se|]; auto.
      eapply env_rel_heap; [|exact R2]. intros k'. apply V2. apply live_other_env. exact Eo.
  Qed.

  Lemma a_insert_upd (r : reg) nm v nm' : a_get (a_insert r nm v) nm' = upd (a_get r) nm (Some v) nm'.
  Proof. rewrite a_get_insert. unfold upd. destruct (nm =? nm') eqn:E; destruct (nm' =? nm) eqn:E'; auto; lia. Qed.
  Lemma a_remove_upd (r : reg) nm nm' : a_get (a_remove r nm) nm' = upd (a_get r) nm None nm'.
  Proof. rewrite a_get_remove. unfold upd. destruct (nm =? nm') eqn:E; destruct (nm' =? nm) eqn:E'; auto; lia. Qed.

  (* ---- clone / drop of an environment's three handles ---- *)
  Lemma clone_handles_acc h m (e : env) : acc h m -> (forall j, env_cnt e j <= m j) ->
    acc (clone_handles tmpl h e) (fun j => m j + env_cnt e j) /\
    forall j, view (clone_handles tmpl h e) j = view h j.
  Proof.
    intros A H. unfold clone_handles.
    pose proof (H (fh _ e)) as H1. pose proof (H (th _ e)) as H2. pose proof (H (gh _ e)) as H3.
    destruct (acc_clone h m (fh _ e) A) as [A1 V1]; [unf; lia|].
    destruct (acc_clone _ _ (th _ e) A1) as [A2 V2]; [unf; lia|].
    destruct (acc_clone _ _ (gh _ e) A2) as [A3 V3]; [unf; lia|].
    split.
    - eapply acc_ext; [exact A3|]. intros j; unf; lia.
    - intros j. rewrite V3, V2, V1. reflexivity.
  Qed.

  Lemma drop_handles_acc h m (e : env) : acc h m -> (forall j, env_cnt e j <= m j) ->
    acc (drop_handles tmpl h e) (fun j => m j - env_cnt e j) /\
    forall j, 1 <= m j - env_cnt e j -> view (drop_handles tmpl h e) j = view h j.
  Proof.
    intros A H. unfold drop_handles.
    pose proof (H (fh _ e)) as H1. pose proof (H (th _ e)) as H2. pose proof (H (gh _ e)) as H3.
    destruct (acc_drop h m (fh _ e) A) as [A1 V1]; [unf; lia|].
    destruct (acc_drop _ _ (th _ e) A1) as [A2 V2]; [unf; lia|].
    destruct (acc_drop _ _ (gh _ e) A2) as [A3 V3]; [unf; lia|].
    split.
    - eapply acc_ext; [exact A3|]. intros j; unf; lia.
    - intros j Hj. pose proof (H j) as Hjj.
      rewrite V3, V2, V1; auto.
      + destruct (Z.eq_dec j (fh _ e)); [right; subst; unf; lia | left; auto].
      + destruct (Z.eq_dec j (th _ e)); [right; subst; unf; lia | left; auto].
      + destruct (Z.eq_dec j (gh _ e)); [right; subst; unf; lia | left; auto].
  Qed.

  (* ---- one step of a history ---- *)
  Lemma show_sout_rel h e se o : env_rel h e se -> show_sout tmpl render h e o = s_show_sout tmpl render se o.
  Proof. intros R. destruct o as [|[c|]|r]; cbn [show_sout s_show_sout]; auto using show_get_rel. Qed.

  Lemma regs_set_store h (e : env) s k nm : regs_of tmpl h (set_store _ e s) k nm = regs_of tmpl h e k nm.
  Proof. destruct k; reflexivity. Qed.

  Lemma world_step_refines w sw o : winv w -> wrel w sw ->
    winv (fst (wstep w o)) /\ wrel (fst (wstep w o)) (fst (sstep sw o)) /\ snd (wstep w o) = snd (sstep sw o).
  Proof.
    intros I R. pose proof I as (A & W1 & W2). pose proof R as (R1 & R2).
    destruct o as [so|rc n now|k nm v|k nm| | |how n x|n now p]; cbn [world_step sworld_step].
    - (* store operation *)
      destruct (step_refines tmpl compile loader (st _ (cur _ w)) (sc (scur sw)) so W1 (proj1 R1)) as (W' & S' & O').
      destruct (store_step tmpl compile loader false (st _ (cur _ w)) so) as [s' out].
      destruct (spec_step tmpl compile loader (sc (scur sw)) so) as [c' out']. cbn [fst snd] in *.
      split; [split; [|split]|split].
      + eapply acc_ext; [exact A|]. intros j; unf; reflexivity.
      + exact W'.
      + exact W2.
      + split; [split|].
        * exact S'.
        * intros k nm. cbn [cur hp scur sr]. rewrite regs_set_store. apply R1.
        * cbn [other hp sother]. exact R2.
      + subst out'. apply show_sout_rel. exact R1.
    - (* render *)
      destruct (get_refines_pair tmpl compile loader (st _ (cur _ w)) (sc (scur sw)) n now W1 (proj1 R1)) as (W' & S' & O').
      destruct (get tmpl compile loader (st _ (cur _ w)) n now) as [s' r].
      destruct (spec_get tmpl compile loader (sc (scur sw)) n now) as [c' r']. cbn [fst snd] in *.
      split; [split; [|split]|split].
      + eapply acc_ext; [exact A|]. intros j; unf; reflexivity.
      + exact W'.
      + exact W2.
      + split; [split|].
        * exact S'.
        * intros k nm. cbn [cur hp scur sr]. rewrite regs_set_store. apply R1.
        * cbn [other hp sother]. exact R2.
      + subst r'. apply show_get_rel. exact R1.
    - destruct (reg_update_refines w sw k (fun r => a_insert r nm v) nm (Some v)) as [I' R']; auto using a_insert_upd.
    - destruct (reg_update_refines w sw k (fun r => a_remove r nm) nm None) as [I' R']; auto using a_remove_upd.
    - (* clone *)
      cbn [fst snd].
      destruct (clone_handles_acc (hp _ w) (live_cnt w) (cur _ w) A) as [A1 V1]; [intros j; unf; destruct (other _ w); lia|].
      destruct (other _ w) as [e|] eqn:Eo; destruct (sother sw) as [se|] eqn:Es; try contradiction.
      + destruct (drop_handles_acc _ _ e A1) as [A2 V2]; [intros j; unf; rewrite ?Eo; lia|].
        assert (Vc : forall k, view (drop_handles tmpl (clone_handles tmpl (hp _ w) (cur _ w)) e) (handle _ (cur _ w) k)
                             = view (hp _ w) (handle _ (cur _ w) k)).
        { intros k. rewrite V2, V1; auto. destruct k; unf; rewrite ?Eo; lia. }
        split; [split; [|split]|split]; cbn [hp cur other scur sother]; auto.
        * eapply acc_ext; [exact A2|]. intros j; unf; rewrite ?Eo; lia.
        * split; eapply env_rel_heap; eauto.
      + assert (Vc : forall k, view (clone_handles tmpl (hp _ w) (cur _ w)) (handle _ (cur _ w) k)
                             = view (hp _ w) (handle _ (cur _ w) k)) by (intros k; apply V1).
        split; [split; [|split]|split]; cbn [hp cur other scur sother]; auto.
        * eapply acc_ext; [exact A1|]. intros j; unf; rewrite ?Eo; lia.
        * split; eapply env_rel_heap; eauto.
    - (* swap *)
      destruct (other _ w) as [e|] eqn:Eo; destruct (sother sw) as [se|] eqn:Es; try contradiction; cbn [fst snd].
      + split; [split; [|split]|split]; cbn [hp cur other scur sother]; auto.
        * eapply acc_ext; [exact A|]. intros j; unf; rewrite Eo; lia.
        * split; auto.
      + split; [|split]; auto.
    - (* ad-hoc entry point *)
      cbn [fst snd]. split; [|split]; auto.
      destruct R1 as [(_ & _ & Hc) Rr]. cbn [abs cur_cfg] in Hc.
      unfold adhoc_mode, s_adhoc_mode. rewrite <- Hc.
      destruct (compile _ x); auto.
    - (* render with a failing context *)
      destruct (get_refines_pair tmpl compile loader (st _ (cur _ w)) (sc (scur sw)) n now W1 (proj1 R1)) as (W' & S' & O').
      destruct (get tmpl compile loader (st _ (cur _ w)) n now) as [s' r].
      destruct (spec_get tmpl compile loader (sc (scur sw)) n now) as [c' r']. cbn [fst snd] in *.
      split; [split; [|split]|split].
      + eapply acc_ext; [exact A|]. intros j; unf; reflexivity.
      + exact W'.
      + exact W2.
      + split; [split|].
        * exact S'.
        * intros k nm. cbn [cur hp scur sr]. rewrite regs_set_store. apply R1.
        * cbn [other hp sother]. exact R2.
      + subst r'. reflexivity.
  Qed.

  Lemma world_run_refines h : forall w sw, winv w -> wrel w sw ->
    winv (fst (wrun w h)) /\ wrel (fst (wrun w h)) (fst (srun sw h)) /\ snd (wrun w h) = snd (srun sw h).
  Proof.
    induction h as [|o h IH]; intros w sw I R; cbn [world_run sworld_run].
    - cbn [fst snd]; auto.
    - destruct (world_step_refines w sw o I R) as (I1 & R1 & O1).
      destruct (wstep w o) as [w1 out]; destruct (sstep sw o) as [sw1 out']; cbn [fst snd] in *.
      destruct (IH w1 sw1 I1 R1) as (I2 & R2 & O2).
      destruct (wrun w1 h) as [w2 outs]; destruct (srun sw1 h) as [sw2 outs']; cbn [fst snd] in *.
      split; [exact I2|split; [exact R2|congruence]].
  Qed.

  (* ---- a new environment ---- *)
  Definition wnew : world := world_new tmpl builtin.
  Definition snew : sworld := sworld_new builtin_has.

  Lemma hp_wnew : hp _ wnew =
    {| cells := [(2, {| rc := 2; body := builtin RG |}); (1, {| rc := 2; body := builtin RT |});
                 (0, {| rc := 2; body := builtin RF |})]; next := 3 |}.
  Proof. reflexivity. Qed.

  Lemma winv_new : winv wnew.
  Proof.
    split; [|split; [apply wf_new | exact I]].
    rewrite hp_wnew. split.
    - intros j. unfold rc_of, live_cnt, env_cnt, ind, wnew, world_new, env_new; cbn [cells a_get cur other fh th gh].
      destruct (2 =? j) eqn:E2; destruct (1 =? j) eqn:E1; destruct (0 =? j) eqn:E0; cbn [rc Z.b2z]; lia.
    - intros j c. cbn [cells a_get next].
      destruct (2 =? j) eqn:E2; [|destruct (1 =? j) eqn:E1; [|destruct (0 =? j) eqn:E0]];
        intros X; inversion X; subst; cbn [rc]; lia.
  Qed.

  Lemma wrel_new : wrel wnew snew.
  Proof.
    split; [|exact I]. split; [apply abs_new|].
    intros k nm. unfold regs_of, view. rewrite hp_wnew. destruct k; reflexivity.
  Qed.

  Definition wfinal (h : list wop) : world := fst (wrun wnew h).
  Definition sfinal (h : list wop) : sworld := fst (srun snew h).

  Lemma wfinal_ok h : winv (wfinal h) /\ wrel (wfinal h) (sfinal h).
  Proof. destruct (world_run_refines h wnew snew winv_new wrel_new) as (I & R & _). split; assumption. Qed.

  (* ---- theorems ---- *)
  Definition obs_agree (w : world) (sw : sworld) : Prop :=
    (forall rc n now, wobserve (hp _ w) (cur _ w) rc n now = sobserve (scur sw) rc n now) /\
    match other _ w, sother sw with
    | Some e, Some se => forall rc n now, wobserve (hp _ w) e rc n now = sobserve se rc n now
    | None, None => True
    | _, _ => False
    end.

  Lemma obs_agree_of w sw : winv w -> wrel w sw -> obs_agree w sw.
  Proof.
    intros (A & W1 & W2) (R1 & R2). split.
    - intros rc n now. apply observe_rel; assumption.
    - destruct (other _ w) as [e|]; destruct (sother sw) as [se|]; auto.
      intros rc n now. apply observe_rel; assumption.
  Qed.

  Theorem world_refines_spec_proof : forall h,
    snd (wrun wnew h) = snd (srun snew h) /\ obs_agree (wfinal h) (sfinal h).
  Proof.
    intros h. destruct (world_run_refines h wnew snew winv_new wrel_new) as (I & R & O).
    split; [exact O|]. apply obs_agree_of; assumption.
  Qed.

  (* operations that replace or exchange the other environment *)
  Definition rebinds (o : wop) : bool := match o with WClone | WSwap => true | _ => false end.

  Lemma sstep_keeps_other sw o : rebinds o = false -> sother (fst (sstep sw o)) = sother sw.
  Proof.
    destruct o as [so|rc n now|k nm v|k nm| | |how n x|n now p]; cbn [rebinds sworld_step]; intros H; try discriminate; auto.
    - destruct (spec_step tmpl compile loader (sc (scur sw)) so); reflexivity.
    - destruct (spec_get tmpl compile loader (sc (scur sw)) n now); reflexivity.
    - destruct (spec_get tmpl compile loader (sc (scur sw)) n now); reflexivity.
  Qed.

  Theorem clone_isolated_proof : forall h o, rebinds o = false ->
    match other _ (wfinal h), other _ (fst (wstep (wfinal h) o)) with
    | Some e, Some e' =>
        forall rc n now, wobserve (hp _ (fst (wstep (wfinal h) o))) e' rc n now = wobserve (hp _ (wfinal h)) e rc n now
    | None, None => True
    | _, _ => False
    end.
  Proof.
    intros h o Ho. destruct (wfinal_ok h) as [I R].
    destruct (world_step_refines _ _ o I R) as (I' & R' & _).
    pose proof (obs_agree_of _ _ I R) as [_ G]. pose proof (obs_agree_of _ _ I' R') as [_ G'].
    rewrite (sstep_keeps_other _ _ Ho) in G'.
    destruct (other _ (wfinal h)) as [e|]; destruct (other _ (fst (wstep (wfinal h) o))) as [e'|];
      destruct (sother (sfinal h)) as [se|]; try contradiction; auto.
    intros rc n now. rewrite G', G. reflexivity.
  Qed.

  (* two worlds hold the same contents *)
  Definition env_same (h1 : heap) (e1 : env) (h2 : heap) (e2 : env) : Prop :=
    sim (abs (st _ e1)) (abs (st _ e2)) /\ forall k nm, regs_of tmpl h1 e1 k nm = regs_of tmpl h2 e2 k nm.
  Definition world_same (w1 w2 : world) : Prop :=
    env_same (hp _ w1) (cur _ w1) (hp _ w2) (cur _ w2) /\
    match other _ w1, other _ w2 with
    | Some e1, Some e2 => env_same (hp _ w1) e1 (hp _ w2) e2
    | None, None => True
    | _, _ => False
    end.

  Definition abs_env (h : heap) (e : env) : senv := {| sc := abs (st _ e); sr := regs_of tmpl h e |}.
  Definition abs_world (w : world) : sworld :=
    {| scur := abs_env (hp _ w) (cur _ w);
       sother := match other _ w with Some e => Some (abs_env (hp _ w) e) | None => None end |}.

  Lemma wrel_abs w : wrel w (abs_world w).
  Proof.
    split; [split; [apply sim_refl | reflexivity]|].
    cbn [abs_world sother]. destruct (other _ w); [split; [apply sim_refl | reflexivity] | exact I].
  Qed.

  Theorem env_history_independent_proof : forall h1 h2, world_same (wfinal h1) (wfinal h2) ->
    forall h, snd (wrun (wfinal h1) h) = snd (wrun (wfinal h2) h).
  Proof.
    intros h1 h2 [Sc So] h.
    destruct (wfinal_ok h1) as [I1 _]. destruct (wfinal_ok h2) as [I2 _].
    assert (R2 : wrel (wfinal h2) (abs_world (wfinal h1))).
    { split.
      - destruct Sc as [S R]. split; [apply sim_sym; exact S | intros k nm; symmetry; apply R].
      - cbn [abs_world sother]. destruct (other _ (wfinal h1)) as [e1|]; destruct (other _ (wfinal h2)) as [e2|]; auto.
        destruct So as [S R]. split; [apply sim_sym; exact S | intros k nm; symmetry; apply R]. }
    destruct (world_run_refines h _ _ I1 (wrel_abs _)) as (_ & _ & O1).
    destruct (world_run_refines h _ _ I2 R2) as (_ & _ & O2).
    congruence.
  Qed.
  (* ad-hoc entry points (render_named_str, render_str, template_from_named_str, template_from_str,
     compile_expression, compile_expression_owned, undeclared-variables analysis): the world is left
     exactly as it was, whatever the name and the source - so the rest of the history runs as if the
     ad-hoc operation had not happened - and the result is the given source compiled under the
     current configuration and rendered against the current registries *)
  Theorem adhoc_is_noop_proof : forall (w : world) how n x h,
    (fst (wstep w (WAdhoc how n x)) = w) /\
    (fst (wrun w (WAdhoc how n x :: h)) = fst (wrun w h)) /\
    (snd (wrun w (WAdhoc how n x :: h)) = (snd (wstep w (WAdhoc how n x)) :: snd (wrun w h))) /\
    (snd (wstep w (WAdhoc how n x)) =
      (match compile (adhoc_mode how (cfg _ (st _ (cur _ w)))) x with
       | COk t => render 0 t (regs_of tmpl (hp _ w) (cur _ w))
       | CErr c => o_err c
       end)).
  Proof.
    intros w how n x h. cbn [world_run world_step fst snd].
    destruct (wrun w h) as [w2 outs]. cbn [fst snd]. repeat split; reflexivity.
  Qed.

  (* ... and on reachable worlds that result is the specification's: a function of the contents *)
  Theorem adhoc_result_proof : forall h how n x,
    snd (wstep (wfinal h) (WAdhoc how n x)) = snd (sstep (sfinal h) (WAdhoc how n x)).
  Proof.
    intros h how n x. destruct (wfinal_ok h) as [I R].
    destruct (world_step_refines _ _ (WAdhoc how n x) I R) as (_ & _ & O). exact O.
  Qed.
  (* renders: get_template + render (any context, sink, thread), ad-hoc renders, renders with a failing
     or panicking context *)
  Definition is_render (o : wop) : bool :=
    match o with
    | WRender _ _ _ | WAdhoc _ _ _ | WRenderBadCtx _ _ _ | WStore (OGet _ _) => true
    | _ => false
    end.

  Lemma spec_render_keeps sw o n kx rc now : is_render o = true -> tpl (sc (scur sw)) n = Some kx ->
    sobserve (scur (fst (sstep sw o))) rc n now = sobserve (scur sw) rc n now.
  Proof.
    intros Hr Hn.
    assert (G : forall n' now', let c' := fst (spec_get tmpl compile loader (sc (scur sw)) n' now') in
                tpl c' n = Some kx).
    { intros n' now'. pose proof (spec_untouched_keeps tmpl compile loader (sc (scur sw)) n kx (OGet n' now') Hn eq_refl) as K.
      unfold spec_step in K. destruct (spec_get tmpl compile loader (sc (scur sw)) n' now'); exact K. }
    assert (Obs : forall c', tpl c' n = Some kx ->
              sobserve {| sc := c'; sr := sr (scur sw) |} rc n now = sobserve (scur sw) rc n now).
    { intros c' H'. unfold s_observe, spec_get. cbn [sc sr]. rewrite H', Hn. destruct kx as [k x]. reflexivity. }
    destruct o as [so|rc' n' now'|k nm v|k nm| | |how n' x|n' now' p]; cbn [is_render] in Hr; try discriminate;
      cbn [sworld_step].
    - destruct so; try discriminate. unfold spec_step. specialize (G n0 now0). cbn zeta in G.
      destruct (spec_get tmpl compile loader (sc (scur sw)) n0 now0) as [c' r]. cbn [fst scur]. apply Obs. exact G.
    - specialize (G n' now'). cbn zeta in G.
      destruct (spec_get tmpl compile loader (sc (scur sw)) n' now') as [c' r]. cbn [fst scur]. apply Obs. exact G.
    - reflexivity.
    - specialize (G n' now'). cbn zeta in G.
      destruct (spec_get tmpl compile loader (sc (scur sw)) n' now') as [c' r]. cbn [fst scur]. apply Obs. exact G.
  Qed.

  (* A render leaves no trace: whatever is rendered - any stored or loader-served name, any ad-hoc
     source, with any context, into a String or into a failing writer, on this or another thread,
     successfully or failing at compile time, at run time, in the sink or in the caller's Serialize
     impl - every name the environment holds renders afterwards, in every context, exactly as before.
     (A name it does not hold yet may get pinned by its first request: loader_source_pinned.) *)
  Theorem render_leaves_no_trace_proof : forall h o, is_render o = true ->
    forall rc n now kx, tpl (abs (st _ (cur _ (wfinal h)))) n = Some kx ->
    wobserve (hp _ (fst (wstep (wfinal h) o))) (cur _ (fst (wstep (wfinal h) o))) rc n now =
    wobserve (hp _ (wfinal h)) (cur _ (wfinal h)) rc n now.
  Proof.
    intros h o Ho rc n now kx Hn. destruct (wfinal_ok h) as [I R].
    destruct (world_step_refines _ _ o I R) as (I' & R' & _).
    pose proof (obs_agree_of _ _ I R) as [G _]. pose proof (obs_agree_of _ _ I' R') as [G' _].
    rewrite G', G. apply spec_render_keeps with (kx := kx); auto.
    destruct R as [[(St & _) _] _]. rewrite <- St. exact Hn.
  Qed.
End WorldProofs.
