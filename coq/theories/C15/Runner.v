(* Executable entry points of the C15 model and specification, in the integer-list protocol shared
   with harness/src/bin/c15.rs.  The abstract parameters (compiler, loaders, renderer, built-in
   registries) are instantiated by the same small arithmetic functions the harness implements with
   real templates, real loader closures and real filters/tests/functions.  Unverified glue. *)
From Coq Require Import String.
From MJ Require Import Common.Base C15.Vocab C15.Model C15.Spec.

(* ---- the concrete universe (mirrored by c15.rs::{src_text, expr_text, loader_fn, registry variants}) ---- *)
(* a source x: kind = x mod 16, payload p = x / 16;  q = the context variable of the render call
     kind 1      does not compile                         "{{ p }}{% bad"            (expression: "p +")
     kind 2      fails while rendering, after output      "{{ p }}{% for .. %}{% set y %}a{{ 1 // 0 }}.."   ("1 // 0")
     kind 3      "{{ V|F }}"                 F = filter name (p mod 2), V = p / 2
     kind 4      "{{ 1 if V is T else 0 }}"  T = test name (p mod 2)
     kind 5      "{{ G(V)|length }}"         G = global function name (p mod 2)
     kind 6      "{% for i in [1] %}\n{{ p }}{% endfor %}"   renders p, preceded by a newline unless trim_blocks
     kind 7      "{% if true %}{{ p }}{% endif %}\n"         renders p, followed by a newline iff keep_trailing_newline and not trim_blocks
     kind 8      "{{ (site|string)|length }}"   the global container `site` (global name 2) printed
     kind 9      "{{ (site|tojson)|length }}"   ... serialized to JSON: fails unless every key is a string
     kind 10     "{{ kw(q, p, opt=1) }}"        user function (global name 3) taking Kwargs: reads `opt` iff q + w is odd,
                                                then assert_all_used
     kind 11     "{{ q|kf(p, opt=1) }}"         the same as a filter (filter name 2)
     kind 12     "{{ (data|tojson)|length }}"   a container of the context with a tuple key: always fails
     kind 13     "{{ (data|string)|length }}"
     kind 14     "{{ 1 if q is kt(opt=1) else 0 }}"   the same as a test (test name 2)
     kind 15     "{% autoescape M %}{{ site | site.n | site.go(1) }}{% endautoescape %}"   form p mod 3, M = (p / 3) mod 3 of
                 none / html / json: the global `site` printed, asked for an attribute, called
     otherwise   renders p
   configuration c: bit 0 = trim_blocks, bit 1 = keep_trailing_newline.
   registry names: 0 = a custom name (absent in a new environment), 1 = a built-in (abs / odd / range), 2, 3 as above;
   function identity w: 0 = the built-in, w >= 1 = a custom closure: filter v+w, test (v+w) odd,
   function returning a list of length v+w; `site` w = 1: a map with a tuple key inside, 2: a JSON-able map,
   otherwise a list holding a map with a none key.
   A compiled template is (mode, source): mode c >= 0 a template compiled under configuration c,
   -1 an expression, -2 a template parsed for undeclared_variables (result: how many).
   A render call rc: context q = rc mod 4; (rc / 4) odd: the output goes to a writer that fails; (rc / 8) odd:
   on a thread of its own (no effect on the result). *)
Definition ctmpl := (Z * Z)%type.
Definition mode_code (m : cmode) : Z := match m with MTemplate c => c mod 4 | MExpr => -1 | MAnalysis => -2 end.
Definition c_compile (m : cmode) (x : src) : cres ctmpl :=
  if x mod 16 =? 1 then CErr E_SyntaxError else COk (mode_code m, x).
(* What the templates of kinds 8, 9 and 15 give for each value of the global `site` when rendered on their own
   in a new environment (measured once on the engine; key = kind*1000 + (p mod 9)*20 + site code, site code 0 =
   no such global, 1..3 the containers, 4..9 the objects that render a template themselves).  The nested
   renders are invisible in it: an object that prints itself through an inner template gives the inner
   template's output, whoever started the outer render. *)
Definition c_site_table : list (Z * obs) :=
  [
   (8000, (0, 0)); (8001, (0, 44)); (8002, (0, 36)); (8003, (0, 14)); (8004, (0, 47)); (8005, (0, 47));
   (8006, (0, 93)); (8007, (0, 93)); (8008, (0, 42)); (8009, (0, 42)); (9000, (0, 4)); (9001, (1, 3));
   (9002, (0, 36)); (9003, (1, 3)); (9004, (0, 2)); (9005, (0, 2)); (9006, (0, 2)); (9007, (0, 2));
   (9008, (0, 2)); (9009, (0, 2)); (15000, (3, 0)); (15001, (3, 44)); (15002, (3, 36)); (15003, (3, 14));
   (15004, (3, 47)); (15005, (3, 47)); (15006, (3, 93)); (15007, (3, 93)); (15008, (3, 42)); (15009, (3, 42));
   (15020, (1, 13)); (15021, (3, 0)); (15022, (3, 0)); (15023, (3, 0)); (15024, (0, 47)); (15025, (0, 47));
   (15026, (0, 93)); (15027, (0, 93)); (15028, (0, 42)); (15029, (0, 42)); (15040, (1, 11)); (15041, (1, 11));
   (15042, (1, 11)); (15043, (1, 11)); (15044, (0, 47)); (15045, (0, 47)); (15046, (0, 93)); (15047, (0, 93));
   (15048, (0, 42)); (15049, (0, 42)); (15060, (3, 0)); (15061, (3, 84)); (15062, (3, 66)); (15063, (3, 14));
   (15064, (3, 93)); (15065, (3, 93)); (15066, (3, 141)); (15067, (3, 141)); (15068, (3, 88)); (15069, (3, 88));
   (15080, (1, 13)); (15081, (3, 0)); (15082, (3, 0)); (15083, (3, 0)); (15084, (0, 47)); (15085, (0, 47));
   (15086, (0, 93)); (15087, (0, 93)); (15088, (0, 42)); (15089, (0, 42)); (15100, (1, 11)); (15101, (1, 11));
   (15102, (1, 11)); (15103, (1, 11)); (15104, (0, 47)); (15105, (0, 47)); (15106, (0, 93)); (15107, (0, 93));
   (15108, (0, 42)); (15109, (0, 42)); (15120, (3, 4)); (15121, (1, 14)); (15122, (3, 31)); (15123, (1, 14));
   (15124, (3, 2)); (15125, (3, 2)); (15126, (3, 2)); (15127, (3, 2)); (15128, (3, 2)); (15129, (3, 2));
   (15140, (1, 13)); (15141, (3, 4)); (15142, (3, 4)); (15143, (3, 4)); (15144, (0, 47)); (15145, (0, 47));
   (15146, (0, 93)); (15147, (0, 93)); (15148, (0, 42)); (15149, (0, 42)); (15160, (1, 11)); (15161, (1, 11));
   (15162, (1, 11)); (15163, (1, 11)); (15164, (0, 47)); (15165, (0, 47)); (15166, (0, 93)); (15167, (0, 93));
   (15168, (0, 42)); (15169, (0, 42))
  ].
Fixpoint c_assoc (k : Z) (l : list (Z * obs)) : obs :=
  match l with
  | [] => (9, 9)
  | (k', v) :: r => if k' =? k then v else c_assoc k r
  end.
Definition site_code (r : option Z) : Z :=
  match r with
  | None => 0
  | Some w => if w <? 4 then (if w =? 1 then 1 else if w =? 2 then 2 else 3) else 4 + (w - 4) mod 6
  end.
Definition c_site (k pm : Z) (r : option Z) : obs := c_assoc (k * 1000 + pm * 20 + site_code r) c_site_table.
(* callables w >= 4 render an inner template (mode ((w-4)/3) mod 3) and add the length of its output *)
Definition addend (w : Z) : Z :=
  if w <? 4 then w else let m := ((w - 4) / 3) mod 3 in if m =? 0 then 47 else if m =? 1 then 93 else 42.
Definition c_kwargs (q p : Z) (r : option Z) (missing : Z) (ok : Z) : obs :=
  match r with
  | None => o_err missing
  | Some w => if (q + w) mod 2 =? 1 then (0, ok) else o_err E_TooManyArguments
  end.
Definition c_base (expr : bool) (q t : Z) (regs : rk -> Z -> option Z) : obs :=
  let k := t mod 16 in
  let p := t / 16 in
  if k =? 2 then o_err E_InvalidOperation
  else if k =? 3 then match regs RF (p mod 2) with None => o_err E_UnknownFilter | Some w => (0, p / 2 + addend w) end
  else if k =? 4 then match regs RT (p mod 2) with None => o_err E_UnknownTest | Some w => (0, (p / 2 + addend w) mod 2) end
  else if k =? 5 then match regs RG (p mod 2) with None => o_err E_UnknownFunction | Some w => (0, p / 2 + addend w) end
  else if (k =? 8) || (k =? 9) then c_site k 0 (regs RG 2)
  else if k =? 15 then c_site 15 (if expr then p mod 3 else p mod 9) (regs RG 2)
  else if k =? 10 then c_kwargs q p (regs RG 3) E_UnknownFunction (p + 1)
  else if k =? 11 then c_kwargs q p (regs RF 2) E_UnknownFilter (p + 1)
  else if k =? 12 then o_err E_InvalidOperation
  else if k =? 13 then (0, 23)
  else if k =? 14 then c_kwargs q p (regs RT 2) E_UnknownTest 1
  else (0, p).
(* macro pages: kind 0 with p mod 4 = 3, form (p / 4) mod 4 - a template that lets a render-local value escape
   (form 0 a macro, 1 the loop object, 2 a namespace, 3 the caller of a call block) and calls the `f` of its
   context if there is one.  An escaped value belongs to the render it came from: called anywhere else it
   fails (InvalidOperation), whatever thread, whatever history. *)
Definition is_macro_page (t : Z) : bool := (t mod 16 =? 0) && ((t / 16) mod 4 =? 3).
Definition c_macro_page (rc t : Z) : obs :=
  let q := rc mod 4 in
  let esc := (rc / 32) mod 8 in
  let cap := rc / 256 in
  let form := (t / 64) mod 4 in
  let r0 := if esc =? 0 then (0, 100 + q) else o_err E_InvalidOperation in
  if cap =? 1 then (6, form + 1)                     (* the stash function was called: the value escaped *)
  else if (cap =? 2) && (fst r0 =? 0) then           (* State::lookup after a successful render_captured *)
    (if form =? 0 then (6, 1) else if form =? 2 then (6, 3) else r0)
  else r0.
Definition c_render (rc : Z) (mt : ctmpl) (regs : rk -> Z -> option Z) : obs :=
  let (m, t) := mt in
  let k := t mod 16 in
  let q := rc mod 4 in
  if is_macro_page t && (0 <=? m) then
    (let r := c_macro_page rc t in
     if ((rc / 4) mod 2 =? 1) && negb (fst r =? 1) then o_err E_WriteFailure else r) else
  if is_macro_page t && (m =? -1) then c_macro_page rc t else
  if is_macro_page t && (m =? -2) then (0, if (t / 64) mod 4 =? 2 then 4 else 3) else
  if m =? -2 then (0, if k =? 10 then 2 else if (k =? 5) || ((8 <=? k) && (k <=? 15)) then 1 else 0)
  else if m =? -1 then c_base true q t regs
  else
    let trim := m mod 2 =? 1 in
    let keep := 2 <=? m in
    let nl := ((k =? 6) && negb trim) || ((k =? 7) && keep && negb trim) in
    let r := c_base false q t regs in
    let r := if nl && (fst r =? 0) then (5, snd r * 4 + 1) else r in
    if (rc / 4) mod 2 =? 1 then
      (* every write fails: the render ends with WriteFailure unless it fails before its first output *)
      (if (fst r =? 1) && negb (k =? 2) then r
       else if (fst r =? 3) && (snd r =? 0) then (0, 0)   (* nothing to write: the render succeeds *)
       else o_err E_WriteFailure)
    else r.
(* loader closure l at time now: the source it returns changes with time *)
Definition c_loader (l now n : Z) : lres :=
  let x := (l * 5 + now * 3 + n * 7) mod 16 in
  if x <? 3 then LMissing
  else if x =? 3 then LFail E_InvalidOperation
  else LFound ((x - 4) mod 12 + 16 * (n mod 2 + 2 * (1000 + 10 * now + l))).
Definition c_builtin (k : rk) : reg := [(1, 0)].
Definition c_builtin_has (k : rk) (nm : Z) : option Z := if nm =? 1 then Some 0 else None.

Definition universe : list name := [0; 1; 2; 3].
Definition rk_of (z : Z) : rk := match z with 0 => RF | 1 => RT | _ => RG end.

(* one step = three integers: op a b *)
Definition decode (op a b now : Z) : option wop :=
  match op with
  | 0 => Some (WStore (OAddBorrowed a b))
  | 1 | 2 | 3 => Some (WStore (OAddOwned a b))
  | 4 => Some (WStore (ORemove a))
  | 5 => Some (WStore OClear)
  | 6 => Some (WStore (OSetLoader a))
  | 9 => Some (WRegAdd (rk_of (a / 4)) (a mod 4) b)
  | 10 => Some (WRegRemove (rk_of (a / 4)) (a mod 4))
  | 11 | 12 => Some WClone
  | 13 => Some WSwap
  | 14 => Some (WAdhoc 0 a b)
  | 16 => Some (WAdhoc 1 a b)
  | 17 => Some (WAdhoc 2 a b)
  | 18 => Some (WAdhoc 3 a b)
  | 19 => Some (WAdhoc 4 a b)
  | 20 => Some (WAdhoc 5 a b)
  | 21 => Some (WAdhoc 6 a b)
  | 22 => Some (WStore (OSetConfig (a mod 4)))
  | 15 => Some (WRenderBadCtx a now (b mod 4 =? 1))
  | _ => None
  end.

Section Drive.
  Variable W : Type.
  Variable step : W -> wop -> W * obs.
  Variable report : W -> Z -> Z -> list Z.
  (* op 7 sets the world time (the clock the loader closures read).  [esc]: the kind of the value that escaped
     from an earlier render and is passed as `f` in the context of every later render (0 = none); it is part
     of the render call (rc / 32).  Op 26 renders with the capture bits set and keeps what escaped; op 27
     captures from an ad-hoc macro page. *)
  Fixpoint drive (w : W) (now esc : Z) (l : list Z) : list (list Z) :=
    match l with
    | op :: a :: b :: r =>
        if op =? 7 then ([2; 0] ++ report w a esc) :: drive w a esc r
        else if op =? 27 then let esc' := a mod 4 + 1 in ([6; esc'] ++ report w now esc') :: drive w now esc' r
        else if op =? 8 then
          let (w', o) := step w (WRender (b mod 32 + 32 * esc) a now) in
          ([fst o; snd o] ++ report w' now esc) :: drive w' now esc r
        else if op =? 26 then
          let (w', o) := step w (WRender (8 * (b mod 4) + 32 * esc + 256 * (1 + (b / 4) mod 2)) a now) in
          let esc' := if fst o =? 6 then snd o else 0 in
          ([fst o; snd o] ++ report w' now esc') :: drive w' now esc' r
        else
          let (w', o) := match decode op a b now with Some wo => step w wo | None => (w, o_unit) end in
          ([fst o; snd o] ++ report w' now esc) :: drive w' now esc r
    | _ => []
    end.
End Drive.

Definition flat_obs (l : list obs) : list Z := flat_map (fun o => [fst o; snd o]) l.

(* model side *)
Definition m_world := world ctmpl.
Definition m_step (old : bool) := world_step ctmpl c_compile c_loader old c_render.
Definition m_obs_env (h : heap) (e : env ctmpl) (now esc : Z) : list Z :=
  flat_obs (map (fun n => observe ctmpl c_compile c_loader c_render h e (32 * esc) n now) universe).
Definition m_report (w : m_world) (now esc : Z) : list Z :=
  m_obs_env (hp _ w) (cur _ w) now esc ++
  match other _ w with
  | Some e => 1 :: m_obs_env (hp _ w) e now esc
  | None => 0 :: flat_obs (map (fun _ => (0, 0)) universe)
  end.

(* spec side *)
Definition s_world := sworld.
Definition s_step := sworld_step ctmpl c_compile c_loader c_render.
Definition s_obs_env (e : senv) (now esc : Z) : list Z :=
  flat_obs (map (fun n => s_observe ctmpl c_compile c_loader c_render e (32 * esc) n now) universe).
Definition s_report (w : s_world) (now esc : Z) : list Z :=
  s_obs_env (scur w) now esc ++
  match sother w with
  | Some e => 1 :: s_obs_env e now esc
  | None => 0 :: flat_obs (map (fun _ => (0, 0)) universe)
  end.

(* the contents the specification says the environments hold (what a fresh environment is built from) *)
Definition optz (o : option Z) : Z := match o with Some z => z | None => -1 end.
Definition s_contents_env (e : senv) (now esc : Z) : list Z :=
  map (fun n => optz (option_map snd (tpl (sc e) n))) universe ++
  map (fun n => optz (option_map fst (tpl (sc e) n))) universe ++ [optz (cur_loader (sc e)); now] ++
  flat_map (fun k => [optz (sr e k 0); optz (sr e k 1); optz (sr e k 2); optz (sr e k 3)]) [RF; RT; RG] ++ [cur_cfg (sc e); esc].
Definition s_contents (w : s_world) (now esc : Z) : list Z :=
  s_contents_env (scur w) now esc ++
  match sother w with
  | Some e => 1 :: s_contents_env e now esc
  | None => [0]
  end.

(* input: mode nsteps (op a b)*.  mode 0: every step's line; mode 1: only what the current environment
   renders after the last step, preceded by the result of the last step (10 integers) *)
Definition finish (mode : Z) (lines : list (list Z)) : list Z :=
  if mode =? 1 then firstn 10 (last lines []) else concat lines.

Definition run_with (old : bool) (inp : list Z) : list Z :=
  match inp with
  | mode :: _ :: steps => finish mode (drive m_world (m_step old) m_report (world_new ctmpl c_builtin) 0 0 steps)
  | _ => [9]
  end.
Definition run := run_with false.
Definition run_old := run_with true.
Definition spec (inp : list Z) : list Z :=
  match inp with
  | mode :: _ :: steps => finish mode (drive s_world s_step s_report (sworld_new c_builtin_has) 0 0 steps)
  | _ => [9]
  end.
Definition spec_contents (inp : list Z) : list Z :=
  match inp with
  | _ :: _ :: steps => concat (drive s_world s_step s_contents (sworld_new c_builtin_has) 0 0 steps)
  | _ => [9]
  end.

Open Scope string_scope.
Definition runners : list (string * (list Z -> list Z)) :=
  [ ("c15", run); ("c15-old", run_old); ("c15-spec", spec); ("c15-contents", spec_contents) ].
